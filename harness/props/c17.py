"""C17 - grid names normalise to one valid (algorithm, N) or are rejected with ValueError
(molgri.naming.NameParser / GridNameParser, molgri.constants tables, molgri.space.rotobj factories).

A case is {"name": str[, "roles": [..]][, "nrep": name representation][, "rrep": [role representation per role]]
[, "frep": [alg, N, dimensions representation]][, "canon": the same name with canonically spelled numbers]} (both roles "o"
and "b" unless given), {"kind": "tables"} or {"kind": "factory", "alg", "N", "role"[, "frep"]}.

INPUT REPRESENTATION: the case stores the *denoted* values (plain str / int, what the model gets); `impl` hands them to the
package in the representation named by nrep / rrep / frep (seed-chosen per case, plus an exhaustive sweep of all families
over a few fixed cases).  The families were established on the unchanged tree (see REPRESENTATIONS / LEFT_OUT below).

correspondence (C): NameParser(name) scan results, GridNameParser(name, role) outcome (alg, N, standard name | exception
    name) and the factory's choice of generator class, against the Lean model `Molgri.Naming` with its hard-wired tables;
    the tables of the running code against the hard-wired ones, and `tablesOk` of the running tables.
oracle (S): the property's own clauses evaluated on the implementation only (pinned role tables below, Python's own
    split/int), including re-parsing the standard name and constructing the grid from it.
"""
from __future__ import annotations

import hashlib
import itertools
import os
from enum import Enum

import numpy as np

import core

RULE = ("exhaustive: every name of 1..3 (thorough: 1..4) underscore-joined tokens from the vocabulary "
        "{6 algorithm names of both roles, zero3D, zero4D, 0, 1, 01, 7, 12, -3, 007, none, None, abc, zero, xzeroy, Ico, '', 3d} in "
        "every order, each for both roles; quick: every 4-token name over 18 of these tokens (without 01, 12, None, xzeroy, Ico); "
        "thorough: every 5-token name over 10 of them; then every standard name alg_N (N = 1..12 quick / 1..40 thorough) of both roles fed to "
        "both roles; then random names (longer token lists, character-level edits of valid names, non-ASCII junk, other role "
        "strings) and a few names with non-ASCII numeric characters (oracle only). Every case draws (from the seed) the "
        "representation in which its arguments are handed to the package: role as str literal / run-time built str (join, slice, "
        "strip) / numpy.str_ / element of a numpy str array / str subclass / str-mixin Enum member; name as run-time built str / "
        "numpy.str_ / str subclass; factory arguments alg as str / numpy.str_ / str subclass, N as int / numpy.int64 / numpy.int32, "
        "dimensions as int / numpy.int64; all families are swept exhaustively over 6 fixed names and 3 fixed factory calls; numbers "
        "inside names in every spelling int() accepts (zero-padded, 5 Unicode digit scripts, mixed) must give the outcome of the "
        "canonical spelling. Distinct = distinct name; non-trivial = the "
        "name contains a number, an algorithm token or 'zero' (i.e. it is not rejected merely for being junk)")
CHUNK = 20000

# ---- the property's own tables (pinned from the statement / constants.py:37-46 as anchored) -------------------------
SPEC = {
    "o": {"algs": ("randomS", "cube3D", "ico"), "zero": "zero3D", "default": "ico", "dim": 3},
    "b": {"algs": ("randomQ", "cube4D", "fulldiv"), "zero": "zero4D", "default": "cube4D", "dim": 4},
}
SPEC_ALL = SPEC["o"]["algs"] + SPEC["b"]["algs"] + ("zero3D", "zero4D")
FULLDIV_DOCUMENTED = (8, 40, 272, 2080)      # rotobj.py FullDivCube4DRotations: "Only full subdivisions of cube4D are allowed"
ASCII_DIGITS = "0123456789"

VOCAB = ["randomS", "cube3D", "ico", "randomQ", "cube4D", "fulldiv", "zero3D", "zero4D",
         "0", "1", "01", "7", "12", "-3", "007", "none", "None",
         "abc", "zero", "xzeroy", "Ico", "", "3d"]
VOCAB_4Q = ["randomS", "cube3D", "ico", "randomQ", "cube4D", "fulldiv", "zero3D", "zero4D",
            "0", "1", "7", "-3", "007", "none", "abc", "zero", "", "3d"]      # 4-token level of the quick tier
VOCAB_SMALL = ["ico", "cube4D", "zero3D", "1", "7", "007", "none", "abc", "zero", "0"]
NONASCII_NUMERIC = ["ico_٣", "٣", "ico_²", "½_cube4D", "randomQ_１２", "²d_ico_5", "١",
                    "zero_١", "7_٣", "cube3D_1٢"]

_construct_cache: dict = {}
_state = {"nmax": 12, "seed": int(os.environ.get("VERIF_SEED", "0") or 0)}


# ---------------------------------------------------------------------------------------------------------------------
# input representations (established on the unchanged tree: every family below is accepted by the package and gives,
# for all probe names / factory calls, exactly the outcome of the plain-Python reference)
# ---------------------------------------------------------------------------------------------------------------------
class _SubStr(str):
    """a plain str subclass"""


class _RoleEnum(str, Enum):
    """str-mixin Enum: members are == "o" / == "b" and are str instances"""
    O = "o"
    B = "b"


ROLE_REPS = ("lit", "join", "slice", "strip", "npstr", "nparr", "sub", "enum")
NAME_REPS = ("str", "npstr", "sub")
ALG_REPS = ("str", "npstr", "sub")
N_REPS = ("int", "i64", "i32")
DIM_REPS = ("int", "i64")
SPELLINGS = ("canon", "pad1", "pad3", "fullwidth", "arabic", "devanagari", "mathbold", "mixed")
REPRESENTATIONS = {
    "role": {"lit": "the str literal", "join": "''.join([...]) at run time", "slice": "('x'+r+'y')[1:-1]", "strip": "(' '+r+'\\n').strip()",
             "npstr": "numpy.str_(r)", "nparr": "element of numpy.array([r, ...])", "sub": "instance of a str subclass",
             "enum": "member of a str-mixin Enum (roles 'o'/'b'; other role strings use the str subclass)"},
    "name": {"str": "str built at run time ('_'.join / ''.join, not interned)", "npstr": "numpy.str_(name)", "sub": "str subclass instance"},
    "number_spelling": {"canon": "str(int)", "pad1": "one leading zero", "pad3": "three leading zeros", "fullwidth": "U+FF10..",
                        "arabic": "Arabic-Indic U+0660..", "devanagari": "U+0966..", "mathbold": "U+1D7CE.. (non-BMP)",
                        "mixed": "ASCII and Arabic-Indic digits alternating"},
    "factory": {"alg": list(ALG_REPS), "N": ["int", "numpy.int64", "numpy.int32"], "dimensions": ["int", "numpy.int64"]},
}
LEFT_OUT = {
    "role: bytes, numpy.bytes_, ['o'], ('o',)": "not equal to 'o' in Python (a different value, not another representation of the role); "
                                                 "the parser sends every value != 'o' to the rotation branch on the unchanged tree",
    "role: 0-d / 1-element numpy str array": "not a str; agrees with 'o' on the unchanged tree only through ndarray truthiness of `== 'o'`",
    "name: bytes, numpy.bytes_": "TypeError on the unchanged tree (`'zero' in name_string` / split('_') on bytes)",
    "name: 0-d numpy str array": "AttributeError on the unchanged tree (ndarray has no split)",
    "factory N: float, numpy.float64": "TypeError on the unchanged tree (slice / range / random need an integer)",
    "number spelling: '+7', ' 7', '7 ', '7.0', '1e1'": "str.isnumeric() is False: the token is junk, not a number (by design of the parser)",
    "number spelling: superscripts, fractions, Roman numerals": "str.isnumeric() is True but int() raises ValueError: the name is rejected "
                                                                 "with ValueError, which the property allows (covered by NONASCII_NUMERIC cases)",
}
_NP_ROLE_ARRAY = np.array(["o", "b"])
_DIGITS = {"fullwidth": 0xFF10, "arabic": 0x0660, "devanagari": 0x0966, "mathbold": 0x1D7CE}


def role_in(role: str, rep: str):
    if rep == "lit":
        return role
    if rep == "join":
        return "".join([ch for ch in role])
    if rep == "slice":
        return ("x" + role + "y")[1:-1]
    if rep == "strip":
        return (" " + role + "\n").strip() if role == role.strip() else "".join(list(role))
    if rep == "npstr":
        return np.str_(role)
    if rep == "nparr":
        return _NP_ROLE_ARRAY["ob".index(role)] if role in ("o", "b") else np.array([role, "zz"])[0]
    if rep == "sub":
        return _SubStr(role)
    if rep == "enum":
        return _RoleEnum(role) if role in ("o", "b") else _SubStr(role)
    raise core.HarnessError(f"unknown role representation {rep}")


def name_in(name: str, rep: str):
    if rep == "str":
        return name if len(name) > 1 and "_" in name else "".join(list(name))   # cases() builds names with '_'.join at run time
    if rep == "npstr":
        return np.str_(name)
    if rep == "sub":
        return _SubStr(name)
    raise core.HarnessError(f"unknown name representation {rep}")


def name_rep_ok(name: str, rep: str) -> bool:
    """numpy.str_ drops trailing NULs"""
    return rep != "npstr" or not name.endswith("\x00")


def factory_args(alg, n, dim, frep):
    a = {"str": lambda x: x, "npstr": np.str_, "sub": _SubStr}[frep[0]](alg)
    nn = {"int": int, "i64": np.int64, "i32": np.int32}[frep[1]](n)
    d = {"int": int, "i64": np.int64}[frep[2]](dim)
    return a, nn, d


def frep_for(alg, n, dim):
    """seed-chosen representation of the factory arguments for this (alg, N, dimensions): one construction per triple"""
    h = hashlib.sha256(f"C17-{_state['seed']}-{alg}-{n}-{dim}".encode()).digest()
    return [ALG_REPS[h[0] % len(ALG_REPS)], N_REPS[h[1] % len(N_REPS)], DIM_REPS[h[2] % len(DIM_REPS)]]


def spell(v: int, how: str) -> str:
    c = str(v)
    if how == "canon":
        return c
    if how == "pad1":
        return "0" + c
    if how == "pad3":
        return "000" + c
    if how == "mixed":
        return "".join(ch if i % 2 == 0 else chr(0x0660 + int(ch)) for i, ch in enumerate("0" + c))
    return "".join(chr(_DIGITS[how] + int(ch)) for ch in c)


def draw_reps(rng, case):
    """seed-chosen representation of the role(s) and of the name of a parse case"""
    roles = case.get("roles", ["o", "b"])
    case["rrep"] = [rng.choice(ROLE_REPS) for _ in roles]
    rep = rng.choice(NAME_REPS)
    case["nrep"] = rep if name_rep_ok(case["name"], rep) else "str"
    return case


def in_model_scope(name: str) -> bool:
    """the model reads str.isnumeric as 'ASCII digits'; names with other numeric code points are outside it"""
    return name.isascii() or all((not ch.isnumeric()) or ch in ASCII_DIGITS for ch in name)


# ---------------------------------------------------------------------------------------------------------------------
# generators
# ---------------------------------------------------------------------------------------------------------------------
def cases(ctx):
    for c in _cases(ctx):
        if "name" in c and "rrep" not in c:
            draw_reps(ctx.rng, c)
        yield c


def _cases(ctx):
    _state["nmax"] = 12 if ctx.quick else 40
    _state["seed"] = ctx.seed
    ctx.extra_cov["input_representations"] = dict(REPRESENTATIONS, left_out=LEFT_OUT)
    yield {"kind": "tables"}
    # INPUT REPRESENTATION, exhaustive sweep of all families over a few fixed cases
    for name in ("15", "1", "ico_15", "cube4D_7", "zero", "randomQ_1_abc"):
        for rr in ROLE_REPS:
            for nr in NAME_REPS:
                yield {"name": name, "rrep": [rr, rr], "nrep": nr}
    for alg, n, role in (("ico", 7, "o"), ("randomQ", 5, "b"), ("cube4D", 8, "b"), ("fulldiv", 9, "b")):
        for fr in itertools.product(ALG_REPS, N_REPS, DIM_REPS):
            yield {"kind": "factory", "alg": alg, "N": n, "role": role, "frep": list(fr)}
    # numbers inside names in every accepted spelling: the outcome must be that of the canonical spelling
    for v in (0, 1, 7, 12, 40):
        for how in SPELLINGS:
            t = spell(v, how)
            for pat in ("{t}", "ico_{t}", "{t}_cube4D", "zero_{t}", "randomQ_{t}_abc", "{t}_{t}", "fulldiv_{t}"):
                yield {"name": pat.format(t=t), "canon": pat.format(t=str(v))}
    # factory dispatch on valid and invalid (alg, role) pairs
    for alg in list(SPEC_ALL) + ["abc", "Ico", "cube3d", ""]:
        for n in (1, 5, 8, 9):
            for role in ("o", "b"):
                yield {"kind": "factory", "alg": alg, "N": n, "role": role}
    # standard names of both roles, fed to both roles (construction for every N up to nmax)
    for role in ("o", "b"):
        for alg in SPEC[role]["algs"] + (SPEC[role]["zero"],):
            for n in range(0, _state["nmax"] + 1):
                yield {"name": f"{alg}_{n}"}
    if not ctx.quick:
        for n in (272,):
            yield {"name": f"fulldiv_{n}", "roles": ["b"], "construct_big": True}
    # exhaustive token language
    for k in (1, 2, 3):
        for toks in itertools.product(VOCAB, repeat=k):
            yield {"name": "_".join(toks)}
    v4 = VOCAB_4Q if ctx.quick else VOCAB
    for toks in itertools.product(v4, repeat=4):
        yield {"name": "_".join(toks)}
    ctx.exhaustive = True
    scope = (f"all names of 1..3 tokens over a vocabulary of {len(VOCAB)} tokens and all names of 4 tokens over "
             f"{len(v4)} tokens, both roles")
    if not ctx.quick:
        for toks in itertools.product(VOCAB_SMALL, repeat=5):
            yield {"name": "_".join(toks)}
        scope += f"; all names of 5 tokens over {len(VOCAB_SMALL)} tokens"
    ctx.extra_cov["exhaustive_scope"] = scope
    for nm in NONASCII_NUMERIC:
        yield {"name": nm}
    # random part
    rng = ctx.rng
    alphabet = "0123456789_dzeroicubDSQ34 -+.éζZ"
    nrand = 4000 if ctx.quick else 150000
    for i in range(nrand):
        mode = rng.random()
        if mode < 0.4:       # longer token lists
            k = rng.randint(1, 7)
            toks = [rng.choice(VOCAB) if rng.random() < 0.8 else "".join(rng.choice(alphabet) for _ in range(rng.randint(0, 5)))
                    for _ in range(k)]
            name = "_".join(toks)
        elif mode < 0.8:     # character-level edits of a valid name
            role = rng.choice("ob")
            base = f"{rng.choice(SPEC[role]['algs'] + (SPEC[role]['zero'],))}_{rng.choice([1, 2, 7, 10, 12, 100, 3000])}"
            if rng.random() < 0.3:
                base = "_".join(reversed(base.split("_")))
            s = list(base)
            for _ in range(rng.randint(1, 3)):
                op = rng.random()
                pos = rng.randrange(len(s) + 1)
                if op < 0.35 and s:
                    del s[min(pos, len(s) - 1)]
                elif op < 0.7:
                    s.insert(pos, rng.choice(alphabet))
                elif s:
                    s[min(pos, len(s) - 1)] = rng.choice(alphabet)
            name = "".join(s)
        else:                # raw strings
            name = "".join(rng.choice(alphabet) for _ in range(rng.randint(0, 14)))
        c = {"name": name}
        if i % 50 == 0:
            c["roles"] = ["o", "b", "x", "", "B", "O"]
        if i % 7 == 0:       # re-spell the ASCII numbers of the name (seed-chosen spelling); outcome must not change
            toks = name.split("_")
            how = rng.choice(SPELLINGS[1:])
            sp = [spell(int(t), how) if t != "" and all(ch in ASCII_DIGITS for ch in t) and len(t) < 9 else t for t in toks]
            if sp != toks:
                c = dict(c, name="_".join(sp), canon="_".join(str(int(t)) if a != t else t for a, t in zip(sp, toks)))
        yield c


# ---------------------------------------------------------------------------------------------------------------------
# implementation side
# ---------------------------------------------------------------------------------------------------------------------
def _jsonable(v):
    if v is None or isinstance(v, (bool, int, str)):
        return v
    try:
        import numpy as np
        if isinstance(v, np.integer):
            return int(v)
    except Exception:
        pass
    return {"repr": repr(v)[:80], "type": type(v).__name__}


def parse_impl(name, role):
    from molgri.naming import GridNameParser
    try:
        p = GridNameParser(name, role)          # (the parser prints nothing)
        return {"alg": _jsonable(p.get_alg()), "N": _jsonable(p.get_N()), "std": _jsonable(p.get_standard_grid_name())}
    except Exception as e:
        return {"err": core.errname(e)}


def construct(alg, n, dim, frep=None):
    frep = list(frep) if frep else frep_for(alg, n, dim)
    key = (alg, n, dim, tuple(frep))
    if key not in _construct_cache:
        from molgri.space.rotobj import SphereGridFactory
        try:
            a, nn, d = factory_args(alg, n, dim, frep)
            with core.quiet():
                g = SphereGridFactory.create(a, nn, d)
                arr = g.get_grid_as_array()
                r = {"cls": type(g).__name__, "points": int(len(arr)), "row_len": int(arr.shape[1]) if arr.ndim == 2 else -1,
                     "full_shape": [int(x) for x in g.grid.shape], "decl_N": _jsonable(g.N), "get_N": int(g.get_N())}
        except Exception as e:
            r = {"err": core.errname(e), "msg": str(e)[:120]}
        r["frep"] = frep
        _construct_cache[key] = r
    return _construct_cache[key]


def impl(case):
    kind = case.get("kind")
    if kind == "tables":
        import molgri.constants as C
        import molgri.naming as NM
        g = lambda mod: {"set3": list(mod.GRID_ALGORITHMS_3D), "set4": list(mod.GRID_ALGORITHMS_4D),
                         "zero3": mod.ZERO_ALGORITHM_3D, "zero4": mod.ZERO_ALGORITHM_4D,
                         "defO": mod.DEFAULT_ALGORITHM_O, "defB": mod.DEFAULT_ALGORITHM_B, "all": list(mod.ALL_GRID_ALGORITHMS)}
        return {"constants": g(C), "naming": g(NM)}
    if kind == "factory":
        return construct(case["alg"], case["N"], SPEC[case["role"]]["dim"], case.get("frep"))
    from molgri.naming import NameParser
    roles = case.get("roles", ["o", "b"])
    rrep = case.get("rrep") or ["lit"] * len(roles)
    name = name_in(case["name"], case.get("nrep", "str"))
    out = {}
    try:
        p = NameParser(name)
        out["scan"] = {"N": _jsonable(p.N), "algo": _jsonable(p.algo), "dim": _jsonable(p.dim)}
    except Exception as e:
        out["scan"] = {"err": core.errname(e)}
    nmax = 300 if case.get("construct_big") else _state["nmax"]
    for role, rr in zip(roles, rrep):
        robj = role_in(role, rr)
        r = parse_impl(name, robj)
        if "err" not in r:
            if isinstance(r["std"], str):
                r["reparse"] = parse_impl(name_in(r["std"], case.get("nrep", "str")), robj)
            if role in SPEC and isinstance(r["alg"], str) and isinstance(r["N"], int) and not isinstance(r["N"], bool) \
                    and 0 <= r["N"] <= nmax:
                r["construct"] = construct(str(r["alg"]), int(r["N"]), SPEC[role]["dim"], case.get("frep"))
        out[role] = r
    if "canon" in case:      # the same name with canonically spelled numbers, plain representation: the reference outcome
        out["canon"] = {role: parse_impl(case["canon"], role) for role in roles}
    return out


# ---------------------------------------------------------------------------------------------------------------------
# model side + correspondence
# ---------------------------------------------------------------------------------------------------------------------
def model_ops(case, out):
    kind = case.get("kind")
    if kind == "tables":
        tb = {k: v for k, v in out["naming"].items() if k != "all"}
        return [{"op": "shipped"}, {"op": "tables_ok", "tables": tb}]
    if kind == "factory":
        return [{"op": "factory", "alg": case["alg"], "N": case["N"], "role": case["role"]}]
    name = case["name"]
    if not in_model_scope(name):
        return []
    roles = case.get("roles", ["o", "b"])
    ops = [{"op": "all", "name": name, "roles": roles}]
    for role in roles:
        r = out[role]
        if "construct" in r:
            ops.append({"op": "factory", "alg": r["alg"], "N": r["N"], "role": role})
    return ops


def _same_parse(r, m):
    if "err" in r or "err" in m:
        return r.get("err") == m.get("err")
    mo = m["ok"]
    return r["alg"] == mo["alg"] and r["N"] == mo["N"] and r["std"] == mo["std"] and not isinstance(r["N"], bool)


def _same_factory(c, m):
    if "err" in c or "err" in m:
        return c.get("err") == m.get("err")
    return c["cls"] == m["ok"]


def compare(ctx, case, out, mouts):
    kind = case.get("kind")
    if kind == "tables":
        sh = mouts[0]["ok"]
        for which in ("constants", "naming"):
            if out[which] != sh["tables"]:
                ctx.corr(f"tables/{which} differ from the hard-wired tables of the model", case, out[which], sh["tables"])
        if sh["ok"] is not True:
            ctx.corr("tablesOk(shipped) is false", case, None, sh)
        if mouts[1].get("ok") is not True:
            ctx.corr("tablesOk is false for the tables of the running code (theorem hypothesis fails)", case, out["naming"], mouts[1])
        ctx.branch("tables_checked")
        return
    if kind == "factory":
        if not _same_factory(out, mouts[0]):
            ctx.corr("factory/dispatch", case, out, mouts[0])
        ctx.branch("frep:" + "/".join(out.get("frep", ["?"])))
        ctx.branch("factory:" + (out.get("err") or "ok"))
        ctx.nt(("factory", case["alg"], case["N"], case["role"]))
        return
    name = case["name"]
    ctx.branch("nrep:" + case.get("nrep", "str"))
    for rr in case.get("rrep") or []:
        ctx.branch("rrep:" + rr)
    if not mouts:
        ctx.branch("nonascii_numeric:excluded_from_correspondence")
        return
    it = iter(mouts)
    mall = next(it)
    if "ok" not in mall:
        raise core.HarnessError(f"driver op 'all' failed on {case}: {mall}")
    ms = mall["ok"]["scan"]
    mparse = iter(mall["ok"]["parse"])
    sc = out["scan"]
    if "err" in sc or "err" in ms:
        if sc.get("err") != ms.get("err"):
            ctx.corr("NameParser/outcome", case, sc, ms)
    elif sc != ms["ok"]:
        ctx.corr("NameParser/N,algo,dim", case, sc, ms["ok"])
    for role in case.get("roles", ["o", "b"]):
        r = out[role]
        m = next(mparse)
        if not _same_parse(r, m):
            ctx.corr(f"GridNameParser/{role}", case, r, m)
        if "construct" in r:
            mf = next(it)
            if not _same_factory(r["construct"], mf):
                ctx.corr(f"factory/{role}", case, r["construct"], mf)


# ---------------------------------------------------------------------------------------------------------------------
# oracle: the statement of C17 on the implementation
# ---------------------------------------------------------------------------------------------------------------------
def _pyint(t):
    try:
        return int(t)
    except ValueError:
        return None


def oracle(ctx, case, out):
    kind = case.get("kind")
    if kind == "tables":
        return
    if kind == "factory":
        # a valid (algorithm, role) pair must be constructible: N points or the documented fulldiv ValueError
        role, alg, n = case["role"], case["alg"], case["N"]
        sp = SPEC[role]
        if alg in sp["algs"] or (alg == sp["zero"] and n == 1):
            _judge_construct(ctx, dict(case, frep=out.get("frep")), role, alg, n, out)
        return
    name = case["name"]
    tokens = name.split("_")
    nums = [t for t in tokens if t.isnumeric()]
    algs = [t for t in tokens if t in SPEC_ALL]
    dimtag = any(len(t) == 2 and t[-1] == "d" and t[0].isnumeric() for t in tokens)
    has_zero = "zero" in name
    nontrivial = bool(nums or algs or has_zero)
    if nontrivial:
        ctx.nt(name)
    ascii_name = in_model_scope(name)
    if dimtag:
        ctx.branch("dimension_tag:clauses_unspecified")
    if len(nums) >= 2:
        ctx.branch("two_or_more_numbers")
    if len(algs) >= 2:
        ctx.branch("two_or_more_algorithm_tokens")
    if has_zero:
        ctx.branch("zero_keyword")
    roles = case.get("roles", ["o", "b"])
    rrep = case.get("rrep") or ["lit"] * len(roles)
    nrep = case.get("nrep", "str")
    for role, rr in zip(roles, rrep):
        if role not in SPEC:
            ctx.branch("other_role_string:correspondence_only")
            continue
        sp = SPEC[role]
        r = out[role]
        w = f"GridNameParser({name!r} [{nrep}], {role!r} [{rr}])"
        cc = {"name": name, "roles": [role], "rrep": [rr], "nrep": nrep}
        if "canon" in case:
            cc["canon"] = case["canon"]
            ref = out["canon"][role]
            ctx.branch("number_spelling:compared_with_canonical")
            if (ref.get("err"), ref.get("alg"), ref.get("N"), ref.get("std")) != (r.get("err"), r.get("alg"), r.get("N"), r.get("std")):
                ctx.fail("C17:number_spelling", f"{w}: outcome differs from that of the canonically spelled name {case['canon']!r}",
                         cc, ref, {k: r.get(k) for k in ("err", "alg", "N", "std")})
                continue
        if "err" in r:
            ctx.branch(f"{role}:{r['err']}")
            if r["err"] != "ValueError":
                ctx.fail("C17:not_valueerror", f"{w} raised {r['err']} instead of ValueError", cc, "ValueError", r["err"])
                continue
            # names that must be accepted
            if len(tokens) == 1 and name != "" and all(ch in ASCII_DIGITS for ch in name):
                v = int(name)
                if v > 1:
                    ctx.fail("C17:bare_number_rejected", f"{w}: a bare number N>1 must select the default algorithm", cc,
                             f"{sp['default']}_{v}", r)
                elif v == 1:
                    ctx.fail("C17:bare_number_rejected", f"{w}: N=1 must select the zero algorithm", cc, f"{sp['zero']}_1", r)
            if len(tokens) == 2 and tokens[1] != "" and all(ch in ASCII_DIGITS for ch in tokens[1]) \
                    and str(int(tokens[1])) == tokens[1]:
                v = int(tokens[1])
                if (tokens[0] in sp["algs"] and v >= 2) or (tokens[0] == sp["zero"] and v == 1):
                    ctx.fail("C17:standard_name_rejected", f"{w}: a standard name of this role is rejected", cc, name, r)
            continue
        alg, N, std = r["alg"], r["N"], r["std"]
        if not (isinstance(N, int) and not isinstance(N, bool) and N >= 1):
            ctx.fail("C17:N_not_positive_int", f"{w} accepted with N={N!r}", cc, "N>=1 or ValueError", r)
            continue
        if alg not in sp["algs"] + (sp["zero"],):
            ctx.fail("C17:alg_invalid_for_role", f"{w} gives algorithm {alg!r}, not valid for role {role}", cc,
                     list(sp["algs"] + (sp["zero"],)), r)
            continue
        kindr = "ok_zero" if alg == sp["zero"] else ("ok_default" if not algs else "ok_alg")
        ctx.branch(f"{role}:{kindr}")
        if std != f"{alg}_{N}":
            ctx.fail("C17:standard_name_format", f"{w}: standard name {std!r} is not '{alg}_{N}'", cc, f"{alg}_{N}", std)
            continue
        if (N == 1) != (alg == sp["zero"]):
            ctx.fail("C17:N1_iff_zero", f"{w} gives {std}: N=1 must go with the zero algorithm and only with it", cc, None, r)
            continue
        if not dimtag:
            if len(nums) >= 2:
                ctx.fail("C17:two_numbers_accepted", f"{w}: a name with two numbers is accepted as {std}", cc, "ValueError", r)
                continue
            if len(algs) >= 2:
                ctx.fail("C17:two_algs_accepted", f"{w}: a name with two algorithm tokens is accepted as {std}", cc, "ValueError", r)
                continue
            if len(nums) == 1:
                v = _pyint(nums[0])
                if v is not None and v != N:
                    ctx.fail("C17:N_changed", f"{w}: the name says {v}, the standard name {std}", cc, v, N)
                    continue
            elif N != 1:
                ctx.fail("C17:N_invented", f"{w}: no number in the name but N={N}", cc, 1, N)
                continue
            if N > 1:
                exp = algs[0] if algs else sp["default"]
                if alg != exp:
                    ctx.fail("C17:alg_changed" if algs else "C17:default_alg",
                             f"{w}: expected algorithm {exp!r}, got {alg!r}", cc, exp, alg)
                    continue
        # re-parsing the standard name
        rp = r.get("reparse")
        if rp is None or "err" in rp or (rp["alg"], rp["N"], rp["std"]) != (alg, N, std):
            ctx.fail("C17:reparse_changed", f"re-parsing the standard name {std!r} for role {role!r} does not give {std!r}", cc, r, rp)
            continue
        # constructing the grid
        if "construct" in r:
            _judge_construct(ctx, dict(cc, frep=r["construct"].get("frep")), role, alg, N, r["construct"])
        else:
            ctx.branch("construct:skipped_N_above_bound")
        if ascii_name and len(ctx.samples) < 6 and len(tokens) >= 3 and N > 1:
            ctx.sample({"name": name, "role": role, "result": std})


def _judge_construct(ctx, cc, role, alg, N, c):
    dim = SPEC[role]["dim"]
    w = f"SphereGridFactory.create({alg!r}, {N}, {dim}) [alg/N/dimensions as {'/'.join(c.get('frep') or ['?'])}]"
    if "err" in c:
        if c["err"] == "ValueError" and alg == "fulldiv" and N not in FULLDIV_DOCUMENTED:
            ctx.branch("construct:documented_ValueError_fulldiv")
            return
        ctx.fail("C17:construct_error", f"{w} raised {c['err']}: {c.get('msg', '')}", cc, f"{N} points", c)
        return
    full = [N, 3] if dim == 3 else [2 * N, 4]
    if c["points"] != N or c["get_N"] != N or c["decl_N"] != N or c["row_len"] != dim or c["full_shape"] != full:
        ctx.fail("C17:construct_wrong_size", f"{w} does not give exactly {N} points of dimension {dim}", cc,
                 {"points": N, "full_shape": full}, c)
        return
    ctx.branch(f"construct:ok_{alg}")
    ctx.nt(("construct", alg, N))
