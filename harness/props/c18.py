"""C18 - polytope subdivision produces exactly the lattice points of the solid's surface
(molgri.space.polytopes: IcosahedronPolytope, Cube3DPolytope, Cube4DPolytope).

Case kinds (all JSON-serialisable, all replayable on their own):
  {"type": "deep", "kind": K, "levels": L}         build the polytope, divide L times; after EVERY division compare the
                                                   complete graph with the Lean model and evaluate the statement of C18
  {"type": "history", "kind": K, "ops": [...]}     interleaved divide / get_nodes(N, projection) / get_half_of_hypercube(N, projection)
  {"type": "observe", "kind": K, "levels": L, "obs": [[level, name], ...]}
                                                   one object; at each level < L the named read-only methods, then divide_edges
  {"type": "lattice", "kind": K, "k": k}           the ideal lattice used on the right-hand side of the Lean theorems
                                                   against the oracle's own construction of the lattice
  {"type": "upper", "pts": [...]}                  q_in_upper_sphere on exact small-integer points

The numpy shuffle and the networkx enumeration order are parameters of the model (offset table sigma[level][position]);
they are read off the implementation's final index table, checked to be permutations, and fed to the model, which must
then reproduce the index of every node after every division.
"""
from __future__ import annotations

import functools
import itertools
import json
import math
from concurrent.futures import ThreadPoolExecutor

import numpy as np

import core

RULE = ("deep: each polytope class built and divided to its bound (icosahedron, cube3D: level 4; cube4D: level 2), every "
        "intermediate level compared node by node / edge by edge with the exact model and with the ideal lattice; "
        "history: random interleavings of divide_edges / get_nodes(N, projection) / get_half_of_hypercube(N, projection) "
        "with N in {0, 1, n-1, n, n+1, random} and read-only observer calls; observe: on ONE object per class every public "
        "read-only method (get_nodes variants, get_neighbours_of, get_polytope_adj_matrix, get_cdist_matrix, "
        "get_edges_of_categories, category counts, get_N_element_graph, __str__; cube4D also get_half_of_hypercube, "
        "get_all_cells with/without include_only, matrix/neighbour variants) is called at every level below the bound between "
        "the subdivisions (seed-chosen order; thorough adds seed-chosen subsets), the complete graph is compared before/after "
        "every call and with the model at every level, and the statement is evaluated after the whole history; a case is distinct by (class, op sequence); non-trivial = at least one "
        "division or one non-empty getter result")

PHI = (1 + math.sqrt(5)) / 2
KINDS = ("ico", "cube3", "cube4")
DIM = {"ico": 3, "cube3": 3, "cube4": 4}
# absolute value of a level-0 vertex coordinate unit (the solids are inscribed in the unit sphere)
H0 = {"ico": 1 / math.sqrt(1 + PHI * PHI), "cube3": 1 / math.sqrt(3), "cube4": 0.5}
TOL = 1e-12
_done_fail = set()


def _cls(kind):
    from molgri.space import polytopes as P
    return {"ico": P.IcosahedronPolytope, "cube3": P.Cube3DPolytope, "cube4": P.Cube4DPolytope}[kind]


def unit(kind, k):
    return H0[kind] / 2 ** k


def to_float(kind, pts, k):
    """exact model points (integer lists) -> float coordinates at level k"""
    a = np.array(pts, dtype=float)
    if kind == "ico":
        a = a[:, 0::2] + PHI * a[:, 1::2]
    return a * unit(kind, k)


# ----------------------------------------------------------------------------------------------
# the statement's own lattices, built independently of code and model
# ----------------------------------------------------------------------------------------------
@functools.lru_cache(maxsize=None)
def oracle_lattice(kind, k):
    """float coordinates of the ideal lattice after k divisions (read-only array)"""
    n = 2 ** k
    if kind in ("cube3", "cube4"):
        d = DIM[kind]
        pts = [p for p in itertools.product(range(n + 1), repeat=d) if any(c in (0, n) for c in p)]
        return np.array([[(-n + 2 * c) for c in p] for p in pts], dtype=float) / n / math.sqrt(d)
    # icosahedron: 12 vertices = cyclic permutations of (0, +-1, +-phi), faces = mutually nearest triples
    V = []
    for s1 in (-1, 1):
        for s2 in (-1, 1):
            V += [(0, s1, s2 * PHI), (s2 * PHI, 0, s1), (s1, s2 * PHI, 0)]
    V = np.array(V) / math.sqrt(1 + PHI * PHI)
    dmin = min(np.linalg.norm(V[i] - V[j]) for i in range(12) for j in range(i))
    near = lambda i, j: abs(np.linalg.norm(V[i] - V[j]) - dmin) < 1e-9
    faces = [(a, b, c) for a in range(12) for b in range(a) for c in range(b) if near(a, b) and near(b, c) and near(a, c)]
    assert len(faces) == 20
    seen = {}
    for (a, b, c) in faces:
        for i in range(n + 1):
            for j in range(n + 1 - i):
                l = n - i - j
                # canonical key: which vertices carry weight (shared edge / vertex points are the same point)
                key = tuple(sorted((v, w) for v, w in ((a, i), (b, j), (c, l)) if w))
                seen[key] = (i * V[a] + j * V[b] + l * V[c]) / n
    return np.array(list(seen.values()))


def match(A, B_, tol):
    """bijection between the rows of A and B within tol; returns (index array A->B) or None + reason"""
    from scipy.spatial import cKDTree
    B = B_
    if len(A) != len(B):
        return None, f"sizes differ: {len(A)} vs {len(B)}"
    d, i = cKDTree(B).query(A)
    if np.any(d > tol):
        w = int(np.argmax(d))
        return None, f"row {w} = {A[w].tolist()} has no partner within {tol} (nearest at {float(d[w]):.3g})"
    if len(set(i.tolist())) != len(A):
        return None, "two rows share one partner (a point occurs twice)"
    return i, None


# ----------------------------------------------------------------------------------------------
# input representations: the same flag / integer in every form the public API accepts on the unchanged tree; the
# result must not depend on the form (the model takes the denoted value)
# ----------------------------------------------------------------------------------------------
BOOL_FAMS = {
    "py": lambda b: bool(b),
    "np.True_/False_": lambda b: np.True_ if b else np.False_,
    "np.bool_": lambda b: np.bool_(b),
    "bool_array_element": lambda b: np.array([bool(b), not b])[0],
    "np.any": lambda b: np.any(np.array([bool(b), False])),
    "0d_bool_array": lambda b: np.array(bool(b)),
    "int": lambda b: 1 if b else 0,
    "np.int64": lambda b: np.int64(1 if b else 0),
}
INT_FAMS = {
    "py": lambda n: int(n),
    "np.int64": lambda n: np.int64(n),
    "np.int32": lambda n: np.int32(n),
    "np.uint16": lambda n: np.uint16(n),
    "0d_int_array": lambda n: np.array(int(n)),
}
# established on the unchanged tree (all three classes, levels 0-2): every family above is accepted by every flag /
# integer argument the harness passes and gives the same result as the plain Python value.  Left out:
REP_EXCLUDED = {
    "get_edges_of_categories(data=<non-bool>)": "the flag is handed to networkx, where anything but the bool True/False names an "
                                               "edge attribute (AttributeError / different tuples on the unchanged tree)",
    "negative N": "AssertionError on the unchanged tree for every representation (outside the model, N is a count)",
}


def B(rep, b):
    return BOOL_FAMS[(rep or {}).get("b", "py")](b)


def I(rep, n):
    return None if n is None else INT_FAMS[(rep or {}).get("i", "py")](n)


def draw_rep(rng):
    return {"b": rng.choice(list(BOOL_FAMS)), "i": rng.choice(list(INT_FAMS)), "pos": rng.random() < 0.5}


def call_get_nodes(p, N, proj, rep):
    if (rep or {}).get("pos"):
        return p.get_nodes(I(rep, N), B(rep, proj))
    return p.get_nodes(N=I(rep, N), projection=B(rep, proj))


def call_get_half(p, N, proj, rep):
    if (rep or {}).get("pos"):
        return p.get_half_of_hypercube(B(rep, proj), I(rep, N))
    return p.get_half_of_hypercube(projection=B(rep, proj), N=I(rep, N))


# ----------------------------------------------------------------------------------------------
# implementation side
# ----------------------------------------------------------------------------------------------
def snapshot(p, kind, rep=None):
    G = p.G
    nodes = list(G.nodes)
    snap = {
        "nodes": nodes,
        "arr": np.array(nodes, dtype=float).reshape(len(nodes), -1),
        "level": [G.nodes[n].get("level") for n in nodes],
        "face": [sorted(int(f) for f in G.nodes[n].get("face")) for n in nodes],
        "ci": [G.nodes[n].get("central_index") for n in nodes],
        "proj": np.array([G.nodes[n]["projection"] for n in nodes], dtype=float),
        "edges": list(G.edges()),
        "cur": p.current_level, "max_ci": p.current_max_ci, "side_len": p.side_len,
    }
    for name, fn in (("get", lambda: call_get_nodes(p, None, False, rep)), ("getp", lambda: call_get_nodes(p, None, True, rep)),
                     ("half", lambda: call_get_half(p, None, False, rep)), ("halfp", lambda: call_get_half(p, None, True, rep))):
        if name.startswith("half") and kind != "cube4":
            continue
        try:
            with core.quiet():
                snap[name] = np.array(fn())
        except Exception as e:
            snap[name] = None
            snap.setdefault("getter_errors", {})[name] = core.errname(e)
    return snap


def impl_deep(kind, levels, rep=None):
    """(snapshots after 0..j divisions, error or None): j < levels only when construction / divide_edges raised"""
    snaps = []
    try:
        with core.quiet():
            p = _cls(kind)()
        snaps.append(snapshot(p, kind, rep))
        for k in range(1, levels + 1):
            with core.quiet():
                p.divide_edges()
            snaps.append(snapshot(p, kind, rep))
            if p.G.number_of_nodes() != len(oracle_lattice(kind, k)):
                # already a reported violation of the statement; deeper levels of a broken graph only cost time
                return snaps, {"err": "stopped", "msg": "node count differs from the lattice size", "at": k + 1, "stopped": True}
        return snaps, None
    except Exception as e:  # the constructors / divide_edges are total on the unchanged tree
        return snaps, {"err": core.errname(e), "msg": str(e)[:300], "at": len(snaps)}


def rows2d(r, d):
    r = np.asarray(r, dtype=float)
    return r.reshape(len(r), d) if r.size else np.zeros((0, d))


def impl_history(case):
    kind = case["kind"]
    out = []
    try:
        with core.quiet():
            p = _cls(kind)()
    except Exception as e:
        return [{"err": core.errname(e)}]
    for op in case["ops"]:
        try:
            with core.quiet():
                if op[0] == "D":
                    p.divide_edges()
                    out.append({"ok": p.G.number_of_nodes()})
                elif op[0] == "O":
                    err, changed = call_observer(p, op[1], op[2] if len(op) > 2 else None)
                    if err:
                        out.append({"err": err})
                    else:
                        out.append({"ok": p.G.number_of_nodes(), "changed": changed})
                elif op[0] == "G":
                    r = np.array(call_get_nodes(p, op[1], bool(op[2]), op[3] if len(op) > 3 else None))
                    full = np.array(p.get_nodes(N=None, projection=bool(op[2])))
                    out.append({"rows": rows2d(r, DIM[kind]), "full": full, "raw": np.array(p.get_nodes()),
                                "ci_of": {n: p.G.nodes[n].get("central_index") for n in p.G.nodes}})
                elif op[0] == "H":
                    r = np.array(call_get_half(p, op[1], bool(op[2]), op[3] if len(op) > 3 else None))
                    out.append({"rows": rows2d(r, DIM[kind]), "raw_half": np.array(p.get_half_of_hypercube()),
                                "raw": np.array(p.get_nodes()),
                                "ci_of": {n: p.G.nodes[n].get("central_index") for n in p.G.nodes}})
        except Exception as e:
            out.append({"err": core.errname(e)})
    return out


# ----------------------------------------------------------------------------------------------
# failing-input search: the statement of C18 evaluated on the implementation (no model involved)
# ----------------------------------------------------------------------------------------------
class _Rec:
    """collects failures without reporting them (used to shrink an observer history before it is reported)"""
    dry = True

    def __init__(self):
        self.failures = []

    def fail(self, key, what, case, expected=None, observed=None):
        self.failures.append((key, what, case, expected, observed))


def fail_once(ctx, key, what, case, expected=None, observed=None):
    if getattr(ctx, "dry", False):
        ctx.fail(key, what, case, expected, observed)
        return
    k = (key, json.dumps(case, sort_keys=True))
    if k in _done_fail:
        return
    _done_fail.add(k)
    ctx.fail(key, what, case, expected, observed)


def oracle_snapshot(ctx, kind, k, snap, prev, base=None):
    """statement clauses on one snapshot (after k divisions); prev = snapshot after k-1 divisions or None"""
    case = dict(base, levels=k) if base else {"type": "deep", "kind": kind, "levels": k}
    A = snap["arr"]
    n = len(A)
    # (1) node set = ideal lattice, each point once
    L = oracle_lattice(kind, k)
    m, why = match(A, L, 1e-10)
    if m is None:
        # describe the difference
        from scipy.spatial import cKDTree
        extra = missing = None
        if len(A) and len(L):
            d1, _ = cKDTree(L).query(A)
            d2, _ = cKDTree(A).query(L)
            extra = A[d1 > 1e-10][:3].tolist()
            missing = L[d2 > 1e-10][:3].tolist()
        fail_once(ctx, "C18:lattice", f"{kind}: nodes after {k} division(s) are not exactly the ideal lattice ({why})", case,
                  {"lattice_size": len(L), "missing_examples": missing}, {"nodes": n, "not_on_lattice_examples": extra})
    # (2) projection = node scaled to unit length
    nr = np.linalg.norm(A, axis=1)
    P = snap["proj"]
    if P.shape != A.shape or not np.allclose(P, A / nr[:, None], rtol=0, atol=TOL) or \
            not np.allclose(np.linalg.norm(P, axis=1), 1, rtol=0, atol=TOL):
        bad = int(np.argmax(np.abs(P - A / nr[:, None]).max(axis=1))) if P.shape == A.shape else -1
        fail_once(ctx, "C18:projection", f"{kind}: projection of a node is not the node scaled to unit length (level {k})", case,
                  (A[bad] / nr[bad]).tolist() if bad >= 0 else None, P[bad].tolist() if bad >= 0 else list(P.shape))
    # (3) closed under negation
    m2, why2 = match(-A, A, 1e-10)
    if m2 is None:
        fail_once(ctx, "C18:negation", f"{kind}: node set after {k} division(s) not closed under negation ({why2})", case)
    # (4) indices are 0..n-1
    ci = snap["ci"]
    if any(c is None for c in ci) or sorted(ci) != list(range(n)):
        fail_once(ctx, "C18:index_range", f"{kind}: permanent indices after {k} division(s) are not exactly 0..n-1", case,
                  f"0..{n - 1}", sorted(ci, key=lambda c: (c is None, c))[:12])
        return
    # (5) earlier level below later level; (6) unchanged by the division
    if prev is not None:
        old = dict(zip(prev["nodes"], prev["ci"]))
        n_old = len(prev["nodes"])
        for nd, c, lv in zip(snap["nodes"], ci, snap["level"]):
            if nd in old:
                if old[nd] != c:
                    fail_once(ctx, "C18:index_stable", f"{kind}: index of an existing node changed in division {k}", case,
                              {"node": list(nd), "index_before": old[nd]}, {"index_after": c})
                    break
            elif c < n_old:
                fail_once(ctx, "C18:level_order", f"{kind}: node created in division {k} got an index below those of earlier levels",
                          case, f">= {n_old}", {"node": list(nd), "index": c})
                break
        now = set(snap["nodes"])
        missing = [nd for nd in old if nd not in now]
        if missing:
            fail_once(ctx, "C18:index_stable", f"{kind}: a node of level < {k} disappeared in division {k}", case, None, list(missing[0]))
    lv = np.array(snap["level"])[np.argsort(ci)]
    if np.any(np.diff(lv) < 0):
        fail_once(ctx, "C18:level_order", f"{kind}: level attribute not monotone in the index (level {k})", case)
    # (7) get_nodes rows are in index order
    order = np.argsort(ci)
    for name, en in snap.get("getter_errors", {}).items():
        fail_once(ctx, "C18:getter_error", f"{kind}: getter '{name}' raised {en} after {k} division(s)", case)
    if snap.get("getter_errors"):
        return
    if snap["get"].shape != A.shape or not np.array_equal(snap["get"], A[order]):
        fail_once(ctx, "C18:get_nodes_order", f"{kind}: get_nodes() row i is not the node with index i (level {k})", case)
    if snap["getp"].shape != A.shape or not np.allclose(snap["getp"], (A / nr[:, None])[order], rtol=0, atol=TOL):
        fail_once(ctx, "C18:projection", f"{kind}: get_nodes(projection=True) row i is not the unit-length node i (level {k})", case)
    # (8) half-hypercube: exactly one of every antipodal pair, in index order
    if kind == "cube4":
        oracle_half(ctx, case, snap["half"], snap["halfp"], A[order], f"level {k}")


def oracle_half(ctx, case, half, halfp, rows, where):
    """rows = all nodes in index order"""
    n = len(rows)
    key = {tuple(np.round(r * 2 ** 20).astype(int)): i for i, r in enumerate(rows)}  # coordinates are dyadic multiples of 1/2
    idx = [key.get(tuple(np.round(r * 2 ** 20).astype(int))) for r in rows2d(half, 4)]
    if any(i is None for i in idx):
        fail_once(ctx, "C18:half", f"half-hypercube contains a row that is not a node ({where})", case)
        return
    if idx != sorted(idx) or len(set(idx)) != len(idx):
        fail_once(ctx, "C18:half_order", f"half-hypercube rows are not in strictly increasing index order ({where})", case, None, idx[:20])
    sel = set(idx)
    for i, r in enumerate(rows):
        j = key.get(tuple(np.round(-r * 2 ** 20).astype(int)))
        if j is None or j == i:
            continue  # negation closure is reported separately
        if (i in sel) == (j in sel):
            fail_once(ctx, "C18:half", f"half-hypercube contains {'both' if i in sel else 'neither'} of an antipodal pair ({where})",
                      case, "exactly one of", {"node": r.tolist(), "indices": [i, j]})
            break
    if 2 * len(idx) != n and n % 2 == 0:
        fail_once(ctx, "C18:half", f"half-hypercube has {len(idx)} rows for {n} nodes ({where})", case, n // 2, len(idx))
    if halfp is not None:
        want = np.array([rows[i] / np.linalg.norm(rows[i]) for i in idx]).reshape(len(idx), -1)
        if halfp.shape != want.shape or not np.allclose(halfp, want, rtol=0, atol=TOL):
            fail_once(ctx, "C18:half", f"projected half-hypercube is not the projection of the selected nodes ({where})", case)


# ----------------------------------------------------------------------------------------------
# model side
# ----------------------------------------------------------------------------------------------
_SIGMA = {}    # kind -> list of per-level offset tables
_M1 = {}       # kind -> model states (identity offsets) of the deepest build so far


def derive_sigma(kind, mstates, snaps, maps):
    """offset tables from the implementation's final index table; None + reason when it is not a permutation family"""
    K = len(mstates) - 1
    mnodes = mstates[K]["nodes"]
    ci = snaps[K]["ci"]
    m2i = {int(mi): ii for ii, mi in enumerate(maps[K])}  # model position -> impl position
    tabs, base = [], 0
    for l in range(K + 1):
        pos = [j for j, nd in enumerate(mnodes) if nd[1] == l]
        offs = []
        for j in pos:
            c = ci[m2i[j]]
            if c is None:
                return None, f"node without index at level {l}"
            offs.append(c - base)
        if sorted(offs) != list(range(len(pos))):
            return None, f"indices of level {l} are not a permutation of {base}..{base + len(pos) - 1}"
        tabs.append(offs)
        base += len(pos)
    return tabs, None


def compare_deep(ctx, kind, levels, snaps, m1, base=None):
    """correspondence of every level; m1 = model states (full) with identity sigma.  Returns per-level node maps or None."""
    maps = []
    for k, (snap, ms) in enumerate(zip(snaps, m1)):
        case = dict(base, levels=k) if base else {"type": "deep", "kind": kind, "levels": k}
        mp = [nd[0] for nd in ms["nodes"]]
        MF = to_float(kind, mp, k)
        mp_, why = match(snap["arr"], MF, 1e-10)
        if mp_ is None:
            ctx.corr(f"{kind}/nodes level {k}: float nodes do not match the exact model nodes one-to-one ({why})", case,
                     {"n": len(snap["nodes"])}, {"n": len(mp)})
            return None
        maps.append(mp_)
        err = float(np.abs(snap["arr"] - MF[mp_]).max())
        if err > TOL:
            ctx.corr(f"{kind}/coordinates level {k}: a node is {err:.2e} away from its exact position (> {TOL})", case, err, TOL)
        lv_m = [ms["nodes"][j][1] for j in mp_]
        if lv_m != snap["level"]:
            w = next(i for i in range(len(lv_m)) if lv_m[i] != snap["level"][i])
            ctx.corr(f"{kind}/level attribute at level {k}", case, {"node": list(snap['nodes'][w]), "level": snap["level"][w]}, lv_m[w])
        fc_m = [sorted(ms["nodes"][j][2]) for j in mp_]
        if fc_m != snap["face"]:
            w = next(i for i in range(len(fc_m)) if fc_m[i] != snap["face"][i])
            ctx.corr(f"{kind}/face attribute at level {k}", case, {"node": list(snap['nodes'][w]), "face": snap["face"][w]}, fc_m[w])
        pos = {nd: i for i, nd in enumerate(snap["nodes"])}
        e_i = {frozenset((int(mp_[pos[u]]), int(mp_[pos[v]]))) for u, v in snap["edges"]}
        mpos = {tuple(p): j for j, p in enumerate(mp)}
        e_m = [frozenset((mpos[tuple(a)], mpos[tuple(b)])) for a, b in ms["edges"]]
        if len(set(e_m)) != len(e_m):
            ctx.corr(f"{kind}/model edge list has a repeated edge at level {k}", case, None, len(e_m) - len(set(e_m)))
        if e_i != set(e_m) or len(snap["edges"]) != len(e_m):
            only_i = [sorted(x) for x in list(e_i - set(e_m))[:3]]
            only_m = [sorted(x) for x in list(set(e_m) - e_i)[:3]]
            ctx.corr(f"{kind}/edge set at level {k}", case,
                     {"n_edges": len(snap["edges"]), "only_in_implementation": [[mp[a], mp[b]] for a, b in only_i]},
                     {"n_edges": len(e_m), "only_in_model": [[mp[a], mp[b]] for a, b in only_m]})
        if snap["cur"] != ms["cur"] or snap["max_ci"] != ms["maxCi"]:
            ctx.corr(f"{kind}/current_level, current_max_ci at level {k}", case, [snap["cur"], snap["max_ci"]], [ms["cur"], ms["maxCi"]])
        if not core.close(snap["side_len"], unit(kind, k), rel=1e-13, abs_=0):
            ctx.corr(f"{kind}/side_len at level {k}", case, snap["side_len"], unit(kind, k))
        # projection = exact point / sqrt(exact squared norm)
        nsq = np.array([ms["nodes"][j][4] for j in mp_], dtype=float)
        if kind == "ico":
            nsq = nsq[:, 0] + PHI * nsq[:, 1]
        want = MF[mp_] / (np.sqrt(nsq) * unit(kind, k))[:, None]
        if snap["proj"].shape != want.shape or not np.allclose(snap["proj"], want, rtol=0, atol=TOL):
            ctx.corr(f"{kind}/projection at level {k}", case, None, None)
        obsd = bool(base) and base.get("type") == "observe"
        ctx.nt(("deep" if not obsd else "observe:" + json.dumps(base.get("obs")), kind, k))
        ctx.branch(f"{kind}_level_{k}" if not obsd else f"observed_{kind}_level_{k}")
        ctx.branch("nodes_compared", len(mp))
        ctx.branch("edges_compared", len(e_m))
    return maps


def compare_indices(ctx, kind, snaps, m1, m2, maps):
    for k, (snap, ms, mi) in enumerate(zip(snaps, m1, m2)):
        case = {"type": "deep", "kind": kind, "levels": k}
        idx_m = [mi["idx"][j] for j in maps[k]]
        if idx_m != snap["ci"]:
            w = next(i for i in range(len(idx_m)) if idx_m[i] != snap["ci"][i])
            ctx.corr(f"{kind}/central_index at level {k} (model with the offset tables read off the final level)", case,
                     {"node": list(snap["nodes"][w]), "index": snap["ci"][w]}, idx_m[w])
        if kind == "cube4":
            # model half selection: list of indices
            by_ci = {c: i for i, c in enumerate(snap["ci"])}
            rows = snap["arr"][[by_ci[c] for c in mi["half"] if c in by_ci]]
            if snap["half"].shape != rows.shape or not np.array_equal(snap["half"], rows):
                ctx.corr(f"cube4/get_half_of_hypercube at level {k}", case, {"rows": len(snap["half"])}, {"rows": len(mi["half"]), "indices": mi["half"][:10]})
            ctx.branch("half_rows_compared", len(mi["half"]))


def deep_stage1(ctx, case, m1_future=None):
    """implementation + oracle + structural correspondence; returns the data phase 2 needs (or None)"""
    kind, levels = case["kind"], case["levels"]
    ctx.count()
    rep = case.get("rep")
    base = case if rep else None
    snaps, err = impl_deep(kind, levels, rep)
    if err is not None and not err.get("stopped"):
        what = "construction" if err["at"] == 0 else f"division {err['at']}"
        fail_once(ctx, "C18:exception", f"{kind}: {what} raised {err['err']}: {err.get('msg')}",
                  {"type": "deep", "kind": kind, "levels": err["at"]})
        if not snaps:
            return None
    prev = None
    for k, s in enumerate(snaps):
        oracle_snapshot(ctx, kind, k, s, prev, base=base)
        prev = s
    m1 = m1_future.result() if m1_future is not None else model_build(ctx, kind, levels, None, True)
    if len(m1) > len(_M1.get(kind, [])):
        _M1[kind] = m1
    if any(sn.get("getter_errors") for sn in snaps):
        ctx.corr(f"{kind}/getters raise where the model returns rows", case, [sn.get("getter_errors") for sn in snaps], "ok")
        return None
    if err is not None:
        if not err.get("stopped"):
            ctx.corr(f"{kind}/divide_edges raised where the model divides", case, err, "ok")
        m1 = m1[:len(snaps)]
        levels = len(snaps) - 1
        case = {"type": "deep", "kind": kind, "levels": levels}
    maps = compare_deep(ctx, kind, levels, snaps, m1, base=base)
    if maps is None:
        return None
    tabs, why = derive_sigma(kind, m1, snaps, maps)
    if tabs is None:
        ctx.corr(f"{kind}/index assignment is not level-wise a permutation: {why}", case, None, None)
        return None
    if kind not in _SIGMA or len(_SIGMA[kind]) < len(tabs):
        _SIGMA[kind] = tabs
    return {"case": case, "snaps": snaps, "m1": m1, "maps": maps, "tabs": tabs}


def deep_stage2(ctx, st, m2_future=None):
    case, kind = st["case"], st["case"]["kind"]
    m2 = m2_future.result() if m2_future is not None else model_build(ctx, kind, case["levels"], st["tabs"], False)
    compare_indices(ctx, kind, st["snaps"], st["m1"], m2, st["maps"])
    ctx.sample({"case": case, "nodes_per_level": [len(s["nodes"]) for s in st["snaps"]],
                "edges_per_level": [len(s["edges"]) for s in st["snaps"]]})


def check_deep(ctx, case):
    st = deep_stage1(ctx, case)
    if st is not None:
        deep_stage2(ctx, st)


def model_build(ctx, kind, levels, sigma, full):
    r = ctx.model([{"op": "build", "kind": kind, "levels": levels, "sigma": sigma, "full": full}])[0]
    if "ok" not in r:
        raise core.HarnessError(f"model build failed: {r}")
    return r["ok"]


def sigma_for(ctx, kind, levels):
    """offset tables for a history (needs the implementation's index table up to `levels`)"""
    if kind in _SIGMA and len(_SIGMA[kind]) > levels:
        return _SIGMA[kind]
    snaps, err = impl_deep(kind, levels)
    if err is not None:
        return None
    m1 = model_build(ctx, kind, levels, None, True)
    maps = []
    for k, (snap, ms) in enumerate(zip(snaps, m1)):
        mp_, _ = match(snap["arr"], to_float(kind, [nd[0] for nd in ms["nodes"]], k), 1e-10)
        if mp_ is None:
            return None
        maps.append(mp_)
    tabs, _ = derive_sigma(kind, m1, snaps, maps)
    if tabs is not None:
        _SIGMA[kind] = tabs
    return tabs


# ----------------------------------------------------------------------------------------------
# read-only observers ("every subdivision history": a public read-only method called between two subdivisions must not
# change what later subdivisions produce; in the model such a call is the identity step `observe`)
# ----------------------------------------------------------------------------------------------
def _half(p):
    return max(1, p.G.number_of_nodes() // 2)


# name -> (classes it exists for, highest level it is called at (cost), call)
OBSERVERS = {
    "str": (KINDS, 9, lambda p, r: str(p)),
    "get_nodes": (KINDS, 9, lambda p, r: p.get_nodes()),
    "get_nodes_proj": (KINDS, 9, lambda p, r: p.get_nodes(projection=B(r, True))),
    "get_nodes_N": (KINDS, 9, lambda p, r: p.get_nodes(N=I(r, _half(p)))),
    "get_nodes_N_proj": (KINDS, 9, lambda p, r: call_get_nodes(p, _half(p) // 2, True, r)),
    "get_neighbours_of": (KINDS, 9, lambda p, r: p.get_neighbours_of(I(r, 0))),
    "get_polytope_adj_matrix": (KINDS, 9, lambda p, r: p.get_polytope_adj_matrix()),
    "get_cdist_matrix": (KINDS, 9, lambda p, r: p.get_cdist_matrix()),
    "get_edges_of_categories": (KINDS, 9, lambda p, r: p.get_edges_of_categories()),
    "get_edges_of_categories_0": (KINDS, 9, lambda p, r: p.get_edges_of_categories(categories=[I(r, 0)], data=True)),
    "count_of_point_categories": (KINDS, 9, lambda p, r: p._get_count_of_point_categories()),
    "count_of_edge_categories": (KINDS, 9, lambda p, r: p._get_count_of_edge_categories()),
    "get_N_element_graph": (KINDS, 1, lambda p, r: p.get_N_element_graph(p.get_nodes(N=I(r, _half(p)), projection=B(r, True)))),
    "get_half_of_hypercube": (("cube4",), 9, lambda p, r: p.get_half_of_hypercube()),
    "get_half_of_hypercube_proj_N": (("cube4",), 9, lambda p, r: call_get_half(p, _half(p) // 2, True, r)),
    "get_all_cells": (("cube4",), 9, lambda p, r: p.get_all_cells()),
    "get_all_cells_include_only": (("cube4",), 9, lambda p, r: p.get_all_cells(include_only=p.get_half_of_hypercube())),
    "get_cdist_matrix_full_N": (("cube4",), 9, lambda p, r: p.get_cdist_matrix(only_half_of_cube=B(r, False), N=I(r, _half(p)))),
    "get_cdist_matrix_half_N": (("cube4",), 9, lambda p, r: p.get_cdist_matrix(only_half_of_cube=B(r, True), N=I(r, _half(p) // 2))),
    "get_polytope_adj_matrix_plain": (("cube4",), 9, lambda p, r: p.get_polytope_adj_matrix(
        include_opposing_neighbours=B(r, False), only_half_of_cube=B(r, False))),
    "get_polytope_adj_matrix_opposing": (("cube4",), 9, lambda p, r: p.get_polytope_adj_matrix(
        include_opposing_neighbours=B(r, True), only_half_of_cube=B(r, False))),
    "get_neighbours_of_plain": (("cube4",), 9, lambda p, r: p.get_neighbours_of(
        I(r, 0), include_opposing_neighbours=B(r, False), only_half_of_cube=B(r, False))),
}


def observers_for(kind, level):
    return [n for n, (kinds, maxl, _) in OBSERVERS.items() if kind in kinds and level <= maxl]


def fingerprint(p):
    """everything of the object that a later subdivision or getter reads"""
    G = p.G
    nodes = tuple((n, d.get("level"), frozenset(d.get("face") or ()), d.get("central_index"),
                   tuple(np.asarray(d.get("projection")).tolist())) for n, d in G.nodes(data=True))
    return {"nodes": nodes, "edges": frozenset(frozenset(e) for e in G.edges()), "current_level": p.current_level,
            "current_max_ci": p.current_max_ci, "side_len": p.side_len}


def fp_diff(a, b):
    for key in ("current_level", "current_max_ci", "side_len"):
        if a[key] != b[key]:
            return f"{key}: {a[key]} -> {b[key]}"
    if a["edges"] != b["edges"]:
        return f"edge set: {len(a['edges'])} -> {len(b['edges'])} edges"
    if len(a["nodes"]) != len(b["nodes"]):
        return f"node list: {len(a['nodes'])} -> {len(b['nodes'])} nodes"
    for x, y in zip(a["nodes"], b["nodes"]):
        if x != y:
            for nm, u, v in zip(("key", "level", "face", "central_index", "projection"), x, y):
                if u != v:
                    return f"node {list(x[0])}: {nm} {sorted(u) if nm == 'face' else u} -> {sorted(v) if nm == 'face' else v}"
    return None


def call_observer(p, name, rep=None):
    """returns (error name or None, description of a change of the object or None)"""
    before = fingerprint(p)
    err = None
    try:
        with core.quiet():
            OBSERVERS[name][2](p, rep)
    except Exception as e:
        err = core.errname(e)
    return err, fp_diff(before, fingerprint(p))


def impl_observe(case):
    """one object: at every level k < levels the observers listed for k, then divide_edges; snapshots of every level"""
    kind, levels = case["kind"], case["levels"]
    snaps, events = [], []
    try:
        with core.quiet():
            p = _cls(kind)()
        for k in range(levels + 1):
            snaps.append(snapshot(p, kind, case.get("rep")))
            if k == levels:
                break
            for ob in case["obs"]:
                lvl, name = ob[0], ob[1]
                orep = ob[2] if len(ob) > 2 else None
                if lvl == k and name in OBSERVERS and kind in OBSERVERS[name][0]:
                    err, changed = call_observer(p, name, orep)
                    events.append({"level": k, "name": name, "rep": orep, "err": err, "changed": changed})
            with core.quiet():
                p.divide_edges()
            if p.G.number_of_nodes() != len(oracle_lattice(kind, k + 1)):
                snaps.append(snapshot(p, kind, case.get("rep")))
                return snaps, {"err": "stopped", "at": k + 2, "stopped": True}, events
        return snaps, None, events
    except Exception as e:
        return snaps, {"err": core.errname(e), "msg": str(e)[:300], "at": len(snaps)}, events


def oracle_observe(ctx, case, snaps, err):
    """the statement after the history (every level reached), reported against the observer history"""
    kind = case["kind"]
    if err is not None and not err.get("stopped"):
        fail_once(ctx, "C18:exception", f"{kind}: division {err['at']} raised {err['err']} after read-only calls: {err.get('msg')}",
                  dict(case, levels=err["at"]))
    prev = None
    for k, sn in enumerate(snaps):
        oracle_snapshot(ctx, kind, k, sn, prev, base=case)
        prev = sn


def shrink_observe(case, failures, budget_s=150):
    """try to reproduce the failure with a single observer call; returns (case, failures)"""
    import time
    t0 = time.time()
    kf = min(f[2]["levels"] for f in failures)
    for ob in case["obs"]:
        if ob[0] >= kf or time.time() - t0 > budget_s:
            continue
        c2 = dict(case, levels=kf, obs=[ob])
        snaps, err, _ = impl_observe(c2)
        rec = _Rec()
        oracle_observe(rec, c2, snaps, err)
        if rec.failures:
            return c2, rec.failures
    return case, failures


def check_observe(ctx, case):
    kind = case["kind"]
    ctx.count()
    snaps, err, events = impl_observe(case)
    rec = _Rec()
    oracle_observe(rec, case, snaps, err)
    if rec.failures:
        _, fl = shrink_observe(case, rec.failures)
        for key, what, c, exp, obs in fl:
            fail_once(ctx, key, what + " [history with read-only calls between the subdivisions]", c, exp, obs)
    # correspondence: an observer is the identity step of the model
    for ev in events:
        sub = {"type": "observe", "kind": kind, "levels": ev["level"] + 1,
               "obs": [[ev["level"], ev["name"]] + ([ev["rep"]] if ev.get("rep") else [])]}
        if ev["changed"]:
            ctx.corr(f"{kind}/read-only call {ev['name']} at level {ev['level']} changed the polytope object "
                     f"(identity step `observe` of the model)", sub, ev["changed"], "unchanged")
        if ev["err"]:
            ctx.corr(f"{kind}/read-only call {ev['name']} at level {ev['level']} raised {ev['err']}", sub, ev["err"], "ok")
        ctx.branch("observer_" + ev["name"])
    ctx.branch("observer_calls", len(events))
    if not snaps:
        return
    m1 = _M1.get(kind, [])
    if len(m1) < len(snaps):
        m1 = model_build(ctx, kind, len(snaps) - 1, None, True)
        _M1[kind] = m1
    if any(sn.get("getter_errors") for sn in snaps):
        ctx.corr(f"{kind}/getters raise where the model returns rows", case, [sn.get("getter_errors") for sn in snaps], "ok")
        return
    compare_deep(ctx, kind, len(snaps) - 1, snaps, m1[:len(snaps)], base=case)
    ctx.sample({"case": dict(case, obs=case["obs"][:6] + (["..."] if len(case["obs"]) > 6 else [])),
                "observer_calls": len(events)})


# the calls of the representation sweep: name -> (classes, f(p, rep)); every flag / integer goes through B / I
def _rep_calls(kind, n):
    h = max(1, n // 2)
    calls = {}
    for N in (None, 0, 1, h, n, n + 1):
        for pr in (False, True):
            calls[f"get_nodes(N={N}, projection={pr})"] = (lambda p, r, N=N, pr=pr: call_get_nodes(p, N, pr, r), pr)
    calls["get_neighbours_of(3)"] = (lambda p, r: p.get_neighbours_of(I(r, 3)) if kind != "cube4" else
                                     p.get_neighbours_of(I(r, 3), B(r, False), B(r, False)), False)
    calls["get_edges_of_categories([0])"] = (lambda p, r: len(p.get_edges_of_categories(categories=[I(r, 0)])), False)
    if kind == "cube4":
        for N in (None, 0, 1, h // 2, h, h + 1):
            for pr in (False, True):
                calls[f"get_half_of_hypercube(projection={pr}, N={N})"] = (lambda p, r, N=N, pr=pr: call_get_half(p, N, pr, r), pr)
        for a in (False, True):
            for b_ in (False, True):
                calls[f"get_polytope_adj_matrix({a}, {b_})"] = (lambda p, r, a=a, b_=b_: p.get_polytope_adj_matrix(
                    include_opposing_neighbours=B(r, a), only_half_of_cube=B(r, b_)).toarray(), False)
                calls[f"get_neighbours_of(3, {a}, {b_})"] = (lambda p, r, a=a, b_=b_: p.get_neighbours_of(
                    I(r, 3), include_opposing_neighbours=B(r, a), only_half_of_cube=B(r, b_)), False)
            calls[f"get_cdist_matrix({a}, N={h // 2})"] = (lambda p, r, a=a: p.get_cdist_matrix(B(r, a), I(r, h // 2)), False)
    return calls


def _outcome(f):
    try:
        with core.quiet():
            return {"ok": np.asarray(f(), dtype=float)}
    except Exception as e:
        return {"err": core.errname(e)}


def rep_variants(case):
    if case.get("call"):
        return [(case["call"], case["rep"])]
    out = []
    for bf in BOOL_FAMS:
        for pos in (False, True):
            out.append((None, {"b": bf, "i": "py", "pos": pos}))
    for nf in INT_FAMS:
        for pos in (False, True):
            out.append((None, {"b": "py", "i": nf, "pos": pos}))
    return out


def check_rep(ctx, case):
    """{"type": "rep", "kind", "level" [, "call", "rep"]}: every call in every representation family against the plain Python
    call on the same object; projected rows must be unit-length nodes whatever the form of the flag"""
    kind, level = case["kind"], case["level"]
    try:
        with core.quiet():
            p = _cls(kind)()
            for _ in range(level):
                p.divide_edges()
    except Exception as e:
        fail_once(ctx, "C18:exception", f"{kind}: construction / division raised {core.errname(e)}", case)
        return
    n = p.G.number_of_nodes()
    calls = _rep_calls(kind, n)
    refs = {}
    for only, rep in rep_variants(case):
        for name, (f, projected) in calls.items():
            if only and name != only:
                continue
            ctx.count()
            if name not in refs:
                refs[name] = _outcome(lambda: f(p, None))
            ref = refs[name]
            got = _outcome(lambda: f(p, rep))
            sub = {"type": "rep", "kind": kind, "level": level, "call": name, "rep": rep}
            same = ("err" in ref and ref == got) or ("ok" in ref and "ok" in got and ref["ok"].shape == got["ok"].shape
                                                     and np.array_equal(ref["ok"], got["ok"], equal_nan=True))
            if projected and "ok" in got and got["ok"].size:
                nr = np.linalg.norm(got["ok"], axis=1)
                if not np.allclose(nr, 1, rtol=0, atol=TOL):
                    fail_once(ctx, "C18:projection", f"{kind}: {name} called with the flag / N as {rep} returns rows that are not "
                              f"scaled to unit length (level {level})", sub, 1.0, float(nr[np.argmax(np.abs(nr - 1))]))
                    continue
            if not same:
                fail_once(ctx, "C18:representation", f"{kind}: {name} depends on the representation of its arguments ({rep}) "
                          f"(level {level})", sub, ref.get("err") or ref["ok"].ravel()[:6].tolist(),
                          got.get("err") or got["ok"].ravel()[:6].tolist())
            ctx.nt(("rep", kind, level, name, json.dumps(rep, sort_keys=True)))
            ctx.branch("rep_bool_" + rep["b"] if rep["i"] == "py" else "rep_int_" + rep["i"])
    ctx.branch("rep_calls_" + kind, len(calls))



def gen_observe(ctx):
    """quick: per class one history to the deepest level with EVERY observer at EVERY level below it (seed-chosen order);
    thorough: additionally seed-chosen subsets / orders"""
    rng = ctx.rng
    lv = deep_levels(ctx)
    out = []
    for kind in KINDS:
        obs = []
        for k in range(lv[kind]):
            names = observers_for(kind, k)
            rng.shuffle(names)
            obs += [[k, n, draw_rep(rng)] for n in names]
        out.append({"type": "observe", "kind": kind, "levels": lv[kind], "obs": obs, "rep": draw_rep(rng)})
    if not ctx.quick:
        for kind, n, lmax in (("ico", 8, 3), ("cube3", 8, 3), ("cube4", 3, 2)):
            for _ in range(n):
                L = rng.randint(2, lmax)
                obs = []
                for k in range(L):
                    names = observers_for(kind, k)
                    obs += [[k, nm, draw_rep(rng)] for nm in rng.sample(names, rng.randint(1, min(4, len(names))))]
                out.append({"type": "observe", "kind": kind, "levels": L, "obs": obs, "rep": draw_rep(rng)})
    return out



def n_div(ops):
    return sum(1 for o in ops if o[0] == "D")


def check_histories(ctx, cases):
    """impl for each, one driver call for all, then compare + oracle"""
    todo = []
    for case in cases:
        ctx.count()
        kind = case["kind"]
        tabs = sigma_for(ctx, kind, n_div(case["ops"]))
        out = impl_history(case)
        oracle_history(ctx, case, out)
        if tabs is None:
            ctx.corr(f"{kind}/history: no permutation family could be read off the implementation", case, None, None)
            continue
        todo.append((case, out, tabs))
    res = ctx.model([{"op": "history", "kind": c["kind"], "sigma": t, "ops": [[o[0], o[1]] if o[0] != "D" else ["D"] for o in c["ops"]]}
                     for c, _, t in todo])
    for (case, out, _), r in zip(todo, res):
        if "ok" not in r:
            raise core.HarnessError(f"model history failed: {r}")
        compare_history(ctx, case, out, r["ok"])


def compare_history(ctx, case, out, mouts):
    kind = case["kind"]
    k = 0
    nontriv = False
    if len(out) != len(mouts):
        ctx.corr(f"{kind}/history length", case, len(out), len(mouts))
        return
    for step, (op, o, m) in enumerate(zip(case["ops"], out, mouts)):
        if "err" in o or "err" in m:
            if o.get("err") != m.get("err"):
                ctx.corr(f"{kind}/history step {step} {op}: outcome", case, o.get("err", "ok"), m.get("err", "ok"))
            ctx.branch("history_error_" + str(o.get("err")))
            continue
        if op[0] == "D":
            k += 1
            nontriv = True
            if o["ok"] != m["ok"]:
                ctx.corr(f"{kind}/history step {step}: node count after divide", case, o["ok"], m["ok"])
            continue
        if op[0] == "O":
            if o["ok"] != m["ok"] or o.get("changed"):
                ctx.corr(f"{kind}/history step {step}: read-only call {op[1]} changed the polytope object (identity step of "
                         f"the model)", case, o.get("changed") or o["ok"], m["ok"])
            ctx.branch("history_observer_" + op[1])
            continue
        rows = o["rows"]
        mi = [r[0] for r in m["ok"]]
        if len(rows) != len(mi):
            ctx.corr(f"{kind}/history step {step} {op}: number of rows", case, len(rows), len(mi))
            continue
        if len(mi) == 0:
            ctx.branch("history_empty_result")
            continue
        nontriv = True
        MF = to_float(kind, [r[1] for r in m["ok"]], k)
        if op[2]:
            MF = MF / np.linalg.norm(MF, axis=1)[:, None]
        if rows.shape != MF.shape or not np.allclose(rows, MF, rtol=0, atol=TOL):
            w = int(np.argmax(np.abs(rows - MF).max(axis=1))) if rows.shape == MF.shape else 0
            ctx.corr(f"{kind}/history step {step} {op}: row {w}", case, rows[w].tolist() if len(rows) else None, MF[w].tolist())
            continue
        # indices of the rows as the implementation stores them
        if not op[2]:
            ci = [o["ci_of"].get(tuple(r)) for r in rows]
            if ci != mi:
                ctx.corr(f"{kind}/history step {step} {op}: indices of the rows", case, ci[:10], mi[:10])
        ctx.branch("history_getter_" + op[0] + ("_proj" if op[2] else ""))
    if nontriv:
        ctx.nt(("hist", kind, json.dumps(case["ops"])))
    ctx.branch(f"history_{kind}_{n_div(case['ops'])}div")
    if len(case["ops"]) >= 4:
        ctx.sample(case)


def oracle_history(ctx, case, out):
    """getter clauses of the statement on every getter call of the history"""
    kind = case["kind"]
    k = 0
    for step, (op, o) in enumerate(zip(case["ops"], out)):
        where = f"history step {step} {op}"
        if op[0] == "D":
            if "err" in o:
                fail_once(ctx, "C18:exception", f"{kind}: divide_edges raised {o['err']} ({where})", case)
                return
            k += 1
            continue
        if op[0] == "O" or (op[0] == "H" and kind != "cube4"):
            continue
        if "err" in o:
            # ValueError exactly when more rows are requested than exist; n is not known here without the object,
            # so only the reverse direction is checked below (N <= available must succeed)
            n_av = len(oracle_lattice(kind, k)) // (2 if op[0] == "H" else 1)
            if op[1] is None or op[1] <= n_av or o["err"] != "ValueError":
                fail_once(ctx, "C18:getter_error", f"{kind}: {where} raised {o['err']} with {n_av} rows available", case)
            continue
        rows, raw = o["rows"], o["raw"]
        n_av = len(raw) // (2 if op[0] == "H" else 1)
        if op[1] is not None and op[1] > n_av:
            fail_once(ctx, "C18:getter_error", f"{kind}: {where} returned {len(rows)} rows although only {n_av} exist", case)
            continue
        want_n = n_av if op[1] is None else op[1]
        if len(rows) != want_n:
            fail_once(ctx, "C18:getter_rows", f"{kind}: {where} returned {len(rows)} rows, expected {want_n}", case, want_n, len(rows))
            continue
        ci = [o["ci_of"].get(tuple(r)) for r in raw]
        if ci != list(range(len(raw))):
            fail_once(ctx, "C18:get_nodes_order", f"{kind}: get_nodes() row i is not the node with index i ({where})", case, None, ci[:12])
            continue
        if len(raw) != len(oracle_lattice(kind, k)):
            fail_once(ctx, "C18:lattice", f"{kind}: getter sees {len(raw)} nodes after {k} division(s) ({where})", case,
                      len(oracle_lattice(kind, k)), len(raw))
            continue
        if op[0] == "G":
            want = raw[:want_n]
        else:
            oracle_half(ctx, case, o["raw_half"], None, raw, where)
            want = o["raw_half"][:want_n]
        if op[2] and len(want):
            want = want / np.linalg.norm(want, axis=1)[:, None]
        if want_n and (rows.shape != want.shape or not np.allclose(rows, want, rtol=0, atol=TOL)):
            fail_once(ctx, "C18:getter_rows", f"{kind}: {where} is not the first {want_n} rows of the full result"
                      + (" scaled to unit length" if op[2] else ""), case)


def check_lattice(ctx, cases):
    res = ctx.model([{"op": "lattice", "kind": c["kind"], "k": c["k"]} for c in cases])
    for c, r in zip(cases, res):
        ctx.count()
        if "ok" not in r:
            raise core.HarnessError(f"model lattice failed: {r}")
        MF = to_float(c["kind"], r["ok"], c["k"])
        L = oracle_lattice(c["kind"], c["k"])
        m, why = match(MF, L, 1e-10)
        if m is None:
            ctx.corr(f"{c['kind']}/ideal lattice of the theorems differs from the oracle's lattice at level {c['k']}: {why}", c, len(L), len(MF))
        ctx.nt(("lattice", c["kind"], c["k"]))
        ctx.branch("lattice_points_compared", len(L))


def check_upper(ctx, cases):
    from molgri.space.utils import q_in_upper_sphere
    res = ctx.model([{"op": "upper", "pts": c["pts"]} for c in cases])
    for c, r in zip(cases, res):
        ctx.count(len(c["pts"]))  # every point is one evaluation (it is also what ctx.nt counts below)
        for p, mv in zip(c["pts"], r["ok"]):
            q = np.array(p, dtype=float)
            nz = [x for x in p if x != 0]
            spec = bool(nz) and nz[0] > 0
            sub = {"type": "upper", "pts": [p]}
            for scale in (1.0, 1 / max(1e-300, float(np.linalg.norm(q)) or 1.0)):
                iv = bool(q_in_upper_sphere(q * scale))
                if iv != mv:
                    ctx.corr("q_in_upper_sphere", sub, iv, mv)
                if iv != spec:
                    fail_once(ctx, "C18:upper", "q_in_upper_sphere is not 'first non-zero coordinate is positive'", sub, spec, iv)
            ctx.nt(("upper", tuple(p)))
        ctx.branch("upper_points", len(c["pts"]))


# ----------------------------------------------------------------------------------------------
# generators
# ----------------------------------------------------------------------------------------------
def deep_levels(ctx):
    return {"ico": 4, "cube3": 4, "cube4": 2}


def gen_histories(ctx):
    rng = ctx.rng
    nh = 36 if ctx.quick else 400
    cap = {"ico": 2, "cube3": 2, "cube4": 1} if ctx.quick else {"ico": 3, "cube3": 3, "cube4": 1}
    sizes = {"ico": [12, 42, 162, 642], "cube3": [8, 26, 98, 386], "cube4": [16, 80, 544]}
    out = []
    for h in range(nh):
        kind = KINDS[h % 3]
        ops, k = [], 0
        L = rng.randint(2, 7)
        for _ in range(L):
            r = rng.random()
            if r < 0.35 and k < cap[kind]:
                ops.append(["D"])
                k += 1
                continue
            if r > 0.8:
                ops.append(["O", rng.choice(observers_for(kind, k)), draw_rep(rng)])
                continue
            half = kind == "cube4" and rng.random() < 0.5
            n = sizes[kind][k] // (2 if half else 1)
            N = rng.choice([None, None, 0, 1, n - 1, n, n + 1, rng.randint(0, n), rng.randint(0, n)])
            ops.append(["H" if half else "G", N, rng.random() < 0.4, draw_rep(rng)])
        out.append({"type": "history", "kind": kind, "ops": ops})
    if not ctx.quick:
        out.append({"type": "history", "kind": "cube4", "ops": [["H", None, False], ["D"], ["G", 80, True], ["D"], ["H", 272, True], ["H", 273, False], ["G", 544, False]]})
    return out


def gen_upper(ctx):
    rng = ctx.rng
    pts = [list(p) for p in itertools.product((-1, 0, 1), repeat=4)] + [list(p) for p in itertools.product((-2, 0, 3), repeat=3)]
    for _ in range(200 if ctx.quick else 3000):
        d = rng.choice([3, 4])
        pts.append([rng.choice([0, 0, 0, 1, -1, 2, -4, 8]) for _ in range(d)])
    return [{"type": "upper", "pts": pts}]


def dispatch(ctx, cases):
    deep = [c for c in cases if c.get("type") == "deep"]
    for c in deep:
        check_deep(ctx, c)
    for c in cases:
        if c.get("type") == "observe":
            check_observe(ctx, c)
        if c.get("type") == "rep":
            check_rep(ctx, c)
    hist = [c for c in cases if c.get("type") == "history"]
    if hist:
        check_histories(ctx, hist)
    lat = [c for c in cases if c.get("type") == "lattice"]
    if lat:
        check_lattice(ctx, lat)
    up = [c for c in cases if c.get("type") == "upper"]
    if up:
        check_upper(ctx, up)


def run(ctx):
    import time
    import run as runner
    T = {}
    t0 = time.time()
    corpus = list(runner.corpus_cases(ctx))
    if corpus:
        dispatch(ctx, corpus)
    lv = deep_levels(ctx)
    # phase 1 of the model (identity offsets) does not depend on the implementation: start the three builds now
    with ThreadPoolExecutor(max_workers=3) as ex:
        futs = {k: ex.submit(model_build, ctx, k, lv[k], None, True) for k in KINDS}
        stages = []
        for kind in KINDS:
            t1 = time.time()
            stages.append(deep_stage1(ctx, {"type": "deep", "kind": kind, "levels": lv[kind], "rep": draw_rep(ctx.rng)}, futs[kind]))
            T[f"deep_{kind}_impl_oracle_compare_s"] = round(time.time() - t1, 1)
        stages = [s for s in stages if s is not None]
        # phase 2: the same builds with the offset tables read off the implementation
        futs2 = [ex.submit(model_build, ctx, s["case"]["kind"], s["case"]["levels"], s["tabs"], False) for s in stages]
        t1 = time.time()
        hist = gen_histories(ctx)
        for s, f in zip(stages, futs2):
            deep_stage2(ctx, s, f)
        T["deep_phase2_wait_s"] = round(time.time() - t1, 1)
    t1 = time.time()
    for c in gen_observe(ctx):
        check_observe(ctx, c)
    T["observer_histories_s"] = round(time.time() - t1, 1)
    t1 = time.time()
    for c in ({"type": "rep", "kind": "ico", "level": 1}, {"type": "rep", "kind": "cube3", "level": 2},
              {"type": "rep", "kind": "cube4", "level": 1}):
        check_rep(ctx, c)
    T["representation_sweep_s"] = round(time.time() - t1, 1)
    ctx.extra_cov["representations"] = {"bool_families": list(BOOL_FAMS), "int_families": list(INT_FAMS),
                                        "passing": ["keyword", "positional"], "excluded": REP_EXCLUDED}
    t1 = time.time()
    check_histories(ctx, hist)
    T["histories_s"] = round(time.time() - t1, 1)
    t1 = time.time()
    check_lattice(ctx, [{"type": "lattice", "kind": k, "k": j} for k in KINDS for j in range(lv[k] + 1)])
    check_upper(ctx, gen_upper(ctx))
    T["lattice_upper_s"] = round(time.time() - t1, 1)
    T["total_s"] = round(time.time() - t0, 1)
    ctx.extra_cov["deep_levels"] = lv
    ctx.exhaustive = True
    ctx.extra_cov["exhaustive_scope"] = ("every polytope class at every subdivision level of the property's quantifier "
                                         "(icosahedron 0-4, cube 0-4, hypercube 0-2): complete node, edge, level, face, index tables; "
                                         "getter histories are sampled")
    ctx.extra_cov["timing"] = T
    ctx.note("floating-point node keys are compared with the exact model only up to the stated levels; beyond them nothing is claimed")
    ctx.note("the per-level offset tables (numpy shuffle x networkx enumeration order) are parameters of the model; they are read "
             "off the implementation at the deepest level, checked to be permutations, and the model must then reproduce every "
             "index at every earlier level")
    ctx.note("read-only observers (every public getter of the three classes, get_all_cells, adjacency / distance matrices, ...) are "
             "identity steps of the model (Molgri.Polytope.observe, theorem observe_id / history_state); on the implementation the "
             "complete graph is compared before and after every call and the statement is evaluated after the whole history")
    ctx.note("every flag / integer argument handed to the package is drawn per case from the representation families listed under "
             "'representations' (all accepted and equivalent on the unchanged tree); an exhaustive sweep of all families over three small "
             "fixed polytopes runs on every run; the model takes the denoted values")
    ctx.note("the only_seconds search filter of _add_edges_of_len is not modelled; complete edge sets are compared at every level")


def replay(ctx, cases):
    dispatch(ctx, cases)
