"""C19 - every valid grid specification yields all geometry or a deliberate ValueError
(molgri.space.fullgrid.FullGrid / PositionGrid, molgri.space.voronoi cell models, molgri.space.rotobj threshold)."""
from __future__ import annotations

import itertools
import json
import multiprocessing
import os
import traceback
from ast import literal_eval
from fractions import Fraction
from pathlib import Path

import numpy as np

import core

RULE = ("exhaustive box of FullGrid specifications: bare numbers n_b, n_o in 1..5 x n_t in 1..3 x both position modes "
        "(thorough: n_b, n_o in 1..8, n_t in 1..4), crossed with every algorithm reachable by name (cube4D/randomQ/fulldiv/zero x ico/cube3D/randomS/zero; "
        "quick: a reduced cross), all five getters; the radial text of every case is drawn from all spellings the radial parser accepts "
        "for the same radii (bare int/float/exponent number with spaces/parentheses/sign, list, tuple, bare comma list, trailing comma, "
        "nested, unsorted, linspace incl. n=1 and descending, range incl. default and negative step; arbitrary, equally spaced and "
        "integer nm values), every spelling family x both modes x n_t in 1..3 exhaustively on small grids, at random elsewhere, the "
        "model being fed the denoted radii, never the text; every argument handed to the package (names, algorithm names, roles, "
        "radial text as str / run-time-built str / np.str_ / str subclass; N as int / np.int64 / np.int32 / np.uint16 / 0-d integer array; "
        "flags as bool / np.bool_ / 0-1; factor as default / float / int / np.float64 / np.float32 / 0-d array; radii arrays as float64 / "
        "list / tuple / float32 / integer dtypes / non-contiguous / read-only) is given in a representation drawn per case from the seed, "
        "with an exhaustive one-at-a-time sweep on fixed small cases, the model being fed the denoted values; plus seed-dependent specs (random strictly ascending radii, "
        "sizes up to 12), cell-model method calls for every (dim, algorithm, N, method, only_upper), radial helper calls "
        "(incl. single, repeated, zero and empty radii) and name resolutions (incl. rejected names). A full-grid case is "
        "non-trivial when the constructor succeeded and all five getters were evaluated; distinct by (b, o, t, mode)")
CHUNK = 2000

GETTERS = ("get_full_grid_as_array", "get_total_volumes", "get_full_adjacency", "get_full_borders", "get_full_distances")
ALGS3 = ("randomS", "cube3D", "ico")
ALGS4 = ("randomQ", "cube4D", "fulldiv")
ALL_ALGS = ALGS3 + ALGS4 + ("zero3D", "zero4D")
T_BASE = {1: "[0.1]", 2: "[0.1, 0.2]", 3: "[0.1, 0.2, 0.35]", 4: "[0.1, 0.2, 0.35, 0.5]", 5: "[0.1, 0.2, 0.35, 0.5, 0.8]"}
CELL_METHS = ("_calculate_N_N_array", "get_voronoi_adjacency", "get_center_distances", "get_cell_borders",
              "get_voronoi_volumes")

_CACHE: dict = {}


# ----------------------------------------------------------------------------------------------
# the harness' own reading of names and radial strings (independent of molgri)
# ----------------------------------------------------------------------------------------------
def scan_name(name: str):
    """token scan of a grid name: ("zero" substring, the algorithm token, the number) or None when ambiguous"""
    parts = name.split("_")
    nums = [int(p) for p in parts if p.isascii() and p.isdigit()]
    algs = [p for p in parts if p in ALL_ALGS]
    if len(nums) > 1 or len(algs) > 1:
        return None
    return {"zero": "zero" in name, "algo": algs[0] if algs else None, "num": nums[0] if nums else None}


def requested_n(name: str):
    """number of points the name asks for (None = the name is not a valid request)"""
    s = scan_name(name)
    if s is None:
        return None
    if s["zero"]:
        return 1 if s["num"] in (None, 1) else None
    if s["num"] is None or s["num"] < 1:
        return None
    return s["num"]


def radii_of(t: str):
    """radii in Angstrom as TranslationParser keeps them: ascending, x10 (list literal and linspace forms only)"""
    if t.startswith("linspace"):
        args = literal_eval(t[len("linspace"):])
        arr = np.linspace(*args, dtype=float)
    else:
        arr = np.array(literal_eval(t), dtype=float)
    arr = np.sort(arr, axis=None) * 10
    return [float(x) for x in arr]


# ----------------------------------------------------------------------------------------------
# spellings of a radial grid: every way the radial parser accepts the SAME radii (values in nm, ascending)
# ----------------------------------------------------------------------------------------------
def _lit(x: float) -> str:
    """float literal that reads back as exactly x"""
    return repr(float(x))


def _int_lit(x: float):
    return str(int(x)) if float(x).is_integer() else None


def _exp_lit(x: float) -> str:
    """exponent spelling, e.g. 0.3 -> '3e-1' (reads back as exactly x)"""
    from decimal import Decimal
    d = Decimal(repr(float(x))).normalize()
    sign, digits, exp = d.as_tuple()
    txt = "".join(map(str, digits))
    out = f"{'-' if sign else ''}{txt}e{exp}"
    assert float(out) == float(x), (out, x)
    return out


def _mixed_lit(x: float) -> str:
    return _int_lit(x) or _lit(x)


def _uniform_step(v):
    """common step of an equally spaced grid (within rounding), else None"""
    if len(v) < 2:
        return None
    st = v[1] - v[0]
    if st <= 0 or any(abs(v[0] + i * st - x) > 1e-12 * max(1.0, abs(x)) for i, x in enumerate(v)):
        return None
    return st


def _num(x: float) -> str:
    """argument of linspace/range: short, integer literal where possible"""
    x = round(float(x), 12)
    return _int_lit(x) or _lit(x)


def _all_int(v):
    return all(float(x).is_integer() for x in v)


def _rot(v):
    """a fixed non-sorted order (descending for two, rotated-and-swapped for more)"""
    return list(v[::-1]) if len(v) < 3 else list(v[1:][::-1]) + [v[0]]


# family name -> function(values in nm, ascending) -> spelling, or None when the family cannot express these values.
# One-radius families (the bare-number ones give literal_eval a scalar, not a sequence):
FAMILIES_1 = {
    "bare_float": lambda v: _lit(v[0]),
    "bare_int": lambda v: _int_lit(v[0]),
    "bare_spaces": lambda v: f"  {_mixed_lit(v[0])} ",
    "bare_tab_newline": lambda v: f"\t{_lit(v[0])}\n",
    "bare_paren": lambda v: f"({_lit(v[0])})",
    "bare_plus": lambda v: f"+{_lit(v[0])}",
    "bare_exp": lambda v: _exp_lit(v[0]),
    "list": lambda v: f"[{_lit(v[0])}]",
    "list_int": lambda v: (f"[{_int_lit(v[0])}]" if _int_lit(v[0]) else None),
    "list_trailing_comma": lambda v: f"[{_lit(v[0])},]",
    "list_exp": lambda v: f"[{_exp_lit(v[0])}]",
    "tuple": lambda v: f"({_lit(v[0])},)",
    "comma": lambda v: f"{_mixed_lit(v[0])},",
    "nested": lambda v: f"[[{_lit(v[0])}]]",
    "linspace_n1": lambda v: f"linspace({_num(v[0])}, {_num(v[0] + 1)}, 1)",
    "range_default_step": lambda v: f"range({_num(v[0])}, {_num(v[0] + 0.5)})",
    "range_step": lambda v: f"range({_num(v[0])}, {_num(v[0] + 0.25)}, 0.5)",
    "range_negative_step": lambda v: f"range({_num(v[0])}, {_num(v[0] - 0.25)}, -0.5)",
}
# Families for two or more radii:
FAMILIES_N = {
    "list": lambda v: "[" + ", ".join(_lit(x) for x in v) + "]",
    "list_int": lambda v: ("[" + ", ".join(_int_lit(x) for x in v) + "]" if _all_int(v) else None),
    "list_mixed_int_float": lambda v: ("[" + ", ".join(_mixed_lit(x) for x in v) + "]"
                                       if any(_int_lit(x) for x in v) and not _all_int(v) else None),
    "list_spaces_trailing_comma": lambda v: "[ " + " ,".join(_lit(x) for x in v) + " , ]",
    "list_unsorted": lambda v: "[" + ", ".join(_lit(x) for x in _rot(v)) + "]",
    "list_exp": lambda v: "[" + ", ".join(_exp_lit(x) for x in v) + "]",
    "comma": lambda v: ", ".join(_mixed_lit(x) for x in v),
    "comma_trailing_unsorted": lambda v: ",".join(_lit(x) for x in _rot(v)) + ",",
    "tuple": lambda v: "(" + ", ".join(_lit(x) for x in v) + ")",
    "nested_row": lambda v: "[[" + ", ".join(_lit(x) for x in v) + "]]",
    "nested_column": lambda v: "[" + ", ".join(f"[{_lit(x)}]" for x in v) + "]",
    "linspace": lambda v: (f"linspace({_num(v[0])}, {_num(v[-1])}, {len(v)})" if _uniform_step(v) else None),
    "linspace_descending": lambda v: (f"linspace({_num(v[-1])}, {_num(v[0])}, {len(v)})" if _uniform_step(v) else None),
    "range": lambda v: (f"range({_num(v[0])}, {_num(v[-1] + _uniform_step(v) / 2)}, {_num(_uniform_step(v))})"
                        if _uniform_step(v) else None),
    "range_default_step": lambda v: (f"range({_num(v[0])}, {_num(v[-1] + 0.5)})"
                                     if _uniform_step(v) and abs(_uniform_step(v) - 1) < 1e-12 else None),
    "range_negative_step": lambda v: (f"range({_num(v[-1])}, {_num(v[0] - _uniform_step(v) / 2)}, {_num(-_uniform_step(v))})"
                                      if _uniform_step(v) else None),
}
# radii (nm) every family is tried on: arbitrary, equally spaced non-dyadic, integer (the parser multiplies by the int 10),
# and integers mixed with halves
PRESETS = {"general": (0.1, 0.2, 0.35, 0.5, 0.8, 1.3), "uniform": (0.3, 0.6, 0.9, 1.2, 1.5, 1.8), "integer": (1, 2, 3, 4, 5, 6),
           "mixed": (0.5, 1, 1.5, 2, 2.5, 3)}


def families(nt):
    return FAMILIES_1 if nt == 1 else FAMILIES_N


def spell(fam: str, nm):
    """spelling of the ascending nm values `nm` in family `fam` (None if not expressible)"""
    v = [float(x) for x in nm]
    return families(len(v))[fam](v)


def draw_spelling(rng, nm):
    """a random accepted spelling of the radii `nm`"""
    v = sorted(float(x) for x in nm)
    opts = [(f, fn(v)) for f, fn in families(len(v)).items()]
    opts = [(f, t) for f, t in opts if t is not None]
    return rng.choice(opts)


def intended_radii(case):
    """radii in Angstrom the specification denotes, independently of how it is spelled: the nm values, ascending, x10
    (cases without recorded values, e.g. stored witnesses: read from the list literal / linspace text)"""
    if case.get("radii_nm") is not None:
        arr = np.sort(np.array(case["radii_nm"], dtype=float), axis=None) * 10
        return [float(x) for x in arr]
    return radii_of(case["t"])


def _std_o_name(name: str) -> str:
    """standard name of a direction grid, e.g. "3" -> "ico_3" (ico is the default direction algorithm)"""
    s = scan_name(name)
    n = requested_n(name)
    if s is None or n is None:
        return name
    if n == 1:
        return "zero3D_1"
    return f"{s['algo'] or 'ico'}_{n}"


def strictly_positive_ascending(r):
    return len(r) >= 1 and r[0] > 0 and all(a < b for a, b in zip(r, r[1:]))


# ----------------------------------------------------------------------------------------------
# representations of the arguments handed to the package: the same denoted value as another Python / numpy object.
# A case records only the NAME of the representation of each argument (case["rep"]); the model is fed the denoted value.
# Established on the unchanged tree (every listed representation is accepted and gives results identical to the plain
# Python argument: FullGrid getters value by value, factories incl. grid, cell model class and all five cell methods,
# GridNameParser, get_increments / get_between_radii); the excluded ones are listed with the reason.
# ----------------------------------------------------------------------------------------------
class _StrSub(str):
    """a str subclass (what a str-mixin Enum member or numpy string scalar is)"""


STR_REPS = {
    "str": lambda s: s,
    "built_str": lambda s: "".join([c for c in s]),          # a fresh, non-interned object (identity differs)
    "np.str_": lambda s: np.str_(s),
    "str_subclass": lambda s: _StrSub(s),
}
INT_REPS = {
    "int": int,
    "np.int64": np.int64,
    "np.int32": np.int32,
    "np.uint16": np.uint16,
    "0d_int_array": lambda n: np.array(int(n)),
    "0d_uint16_array": lambda n: np.array(int(n), dtype=np.uint16),
}
FLAG_REPS = {
    "bool": bool,
    "np.bool_": np.bool_,
    "int01": int,
}
REAL_REPS = {                                                # used for FullGrid(factor=...), denoted value 2
    "default": None,                                         # argument not passed
    "float": float,
    "int": int,
    "np.float64": np.float64,
    "np.float32": np.float32,
    "0d_array": lambda x: np.array(float(x)),
}


def _noncontig(a):
    big = np.zeros(2 * len(a), dtype=float)
    big[::2] = a
    return big[::2]


def _readonly(a):
    b = np.array(a, dtype=float)
    b.setflags(write=False)
    return b


ARRAY_REPS = {                                               # used for get_increments / get_between_radii
    "float64": lambda v: np.array(v, dtype=float),
    "list": lambda v: [float(x) for x in v],
    "tuple": lambda v: tuple(float(x) for x in v),
    "list_of_np_scalars": lambda v: [np.float64(x) for x in v],
    "noncontiguous": lambda v: _noncontig(np.array(v, dtype=float)),
    "readonly": _readonly,
    "float32": lambda v: np.array(v, dtype=np.float32),      # only exactly representable values
    "int64": lambda v: np.array(v, dtype=float).astype(np.int64),      # only integer values
    "int_list": lambda v: [int(x) for x in v],                         # only integer values
    "uint16": lambda v: np.array(v, dtype=float).astype(np.uint16),    # only integer values, ascending
}
REPS_EXCLUDED = {
    "np.uint64 as N": "unchanged tree: SphereGrid4DFactory.create raises TypeError (2*N becomes float64 in numpy 1.26)",
    "unsigned integer array that is not ascending, as radii": "unchanged tree: get_increments wraps around (uint16 [2, 1] gives "
        "65535 and passes the assert) where the float array raises AssertionError; outside the quantifier (the radial parser "
        "always hands over an ascending float64 array), so left out rather than reported",
    "float32 for values that are not exactly representable": "denotes another number",
    "int / integer dtypes for non-integer values": "denotes another number",
}


def array_reps_for(v):
    """names of the array representations that denote exactly the values v"""
    v = [float(x) for x in v]
    names = ["float64", "list", "tuple", "list_of_np_scalars", "noncontiguous", "readonly"]
    if all(float(np.float32(x)) == x for x in v):
        names.append("float32")
    if all(x.is_integer() and abs(x) < 2 ** 31 for x in v):
        names += ["int64", "int_list"]
        if all(0 <= x < 2 ** 16 for x in v) and all(a <= b for a, b in zip(v, v[1:])):
            names.append("uint16")
    return names


def _rep(case, arg, table, value):
    """the object handed to the package for argument `arg` of `case`"""
    name = (case.get("rep") or {}).get(arg)
    if name is None:
        return value
    obj = table[name](value)
    # the representation must denote the same value
    if table is ARRAY_REPS:
        assert [float(x) for x in obj] == [float(x) for x in value], (arg, name, value)
    else:
        assert obj == value, (arg, name, value)
    return obj


# ----------------------------------------------------------------------------------------------
# implementation side
# ----------------------------------------------------------------------------------------------
def _err(e: BaseException):
    """exception class + where it was raised (molgri's own code or a library)"""
    tb = traceback.extract_tb(e.__traceback__)
    origin = "?"
    where = ""
    if tb:
        fn = tb[-1].filename
        where = f"{Path(fn).name}:{tb[-1].lineno}"
        if "/molgri/" in fn and "site-packages" not in fn:
            origin = "molgri"
        else:
            for lib in ("scipy", "numpy", "networkx", "pandas"):
                if f"/{lib}/" in fn:
                    origin = lib
                    break
            else:
                origin = Path(fn).name
    name = core.errname(e)
    if type(e).__name__ == "QhullError":
        name = "other:QhullError"
    return {"err": name, "origin": origin, "where": where, "msg": str(e)[:160].replace("\n", " ")}


def _shape(r):
    if hasattr(r, "shape"):
        return [int(x) for x in r.shape]
    return [int(x) for x in np.shape(r)]


def _impl_fullgrid(case):
    from molgri.space.fullgrid import FullGrid
    out = {}
    frep = (case.get("rep") or {}).get("factor")
    made = []

    def build():
        kw = {}
        if frep not in (None, "default"):
            kw["factor"] = REAL_REPS[frep](2)                # the default value, in another representation
            made.append(kw["factor"])
        return FullGrid(_rep(case, "b", STR_REPS, case["b"]), _rep(case, "o", STR_REPS, case["o"]),
                        _rep(case, "t", STR_REPS, case["t"]),
                        position_grid_cartesian=_rep(case, "cart", FLAG_REPS, case["cart"]), **kw)
    try:
        with core.quiet():
            fg = build()
    except Exception as e:
        out["ctor"] = _err(e)
        return out
    out["ctor"] = "ok"
    with core.quiet():
        try:
            out["n_b"] = int(fg.b_rotations.get_N())
            out["n_o"] = int(fg.position_grid.o_rotations.get_N())
            out["n_t"] = int(fg.position_grid.t_grid.get_N_trans())
            out["b_cell"] = type(fg.b_rotations.get_spherical_voronoi()).__name__
            out["o_cell"] = type(fg.position_grid.o_rotations.get_spherical_voronoi()).__name__
            out["radii"] = [core.rat(float(x)) for x in fg.position_grid.t_grid.get_trans_grid()]
            if case["cart"]:
                vc = fg.position_grid.voronoi_cells
                out["vor_points"] = int(len(vc.point_region))
                out["closed"] = [int(i) for i, reg in enumerate(vc.point_region) if -1 not in vc.regions[reg]]
                # the geometry library asked directly, on the same data: closed cells whose hull it cannot build
                from scipy.spatial import ConvexHull
                hf = []
                for i in out["closed"]:
                    try:
                        ConvexHull(vc.vertices[vc.regions[vc.point_region[i]]])
                    except Exception as e:
                        if type(e).__name__ != "QhullError":
                            raise
                        hf.append(i)
                out["hull_fails"] = hf
        except Exception as e:  # the observation points themselves broke
            out["observe"] = _err(e)
    order = case.get("order", "fwd")
    out["getters"] = _call_getters(fg, GETTERS if order != "rev" else GETTERS[::-1])
    if order == "both":
        # the same requests in the opposite order on a fresh object (no getter may depend on an earlier one)
        with core.quiet():
            fg2 = build()
        out["getters_rev"] = _call_getters(fg2, GETTERS[::-1])
    # neither the argument objects nor the stored scaling factor may have been modified by a getter
    try:
        vals = [float(np.asarray(x)) for x in made] + [float(np.asarray(fg.factor))]
        out["factor_after"] = vals
    except Exception as e:
        out["factor_after"] = _err(e)
    return out


def _call_getters(fg, names):
    gs = {}
    for g in names:
        try:
            with core.quiet():
                r = getattr(fg, g)()
            gs[g] = {"ok": _shape(r)}
            if g == "get_full_grid_as_array":
                gs[g]["finite"] = bool(np.all(np.isfinite(np.asarray(r, dtype=float))))
        except Exception as e:
            gs[g] = _err(e)
    return gs


def _impl_cell(case):
    from molgri.space.rotobj import SphereGrid3DFactory, SphereGrid4DFactory
    try:
        with core.quiet():
            fac = SphereGrid3DFactory if case["dim"] == 3 else SphereGrid4DFactory
            g = fac.create(alg_name=_rep(case, "alg", STR_REPS, case["alg"]), N=_rep(case, "n", INT_REPS, case["n"]))
    except Exception as e:
        return {"create": _err(e)}
    out = {"create": "ok", "cls": type(g.get_spherical_voronoi()).__name__}
    kw = {}
    if case.get("only_upper") is not None:
        kw = {"only_upper": _rep(case, "only_upper", FLAG_REPS, case["only_upper"]),
              "include_opposing_neighbours": _rep(case, "only_upper", FLAG_REPS, case["only_upper"])}
    try:
        with core.quiet():
            out["n"] = int(g.get_N())
            out["len"] = int(len(g))
            out["rows"] = int(len(g.get_grid_as_array()))
            r = getattr(g, case["meth"])(**kw)       # SphereGridNDim.__getattr__ forwards to the cell model
        out["out"] = {"ok": _shape(r)}
    except Exception as e:
        out["out"] = _err(e)
    return out


def _impl_radial(case):
    from molgri.space.translations import get_increments, get_between_radii
    out = {}
    for nm, f in (("increments", get_increments), ("between", get_between_radii)):
        arr = _rep(case, "arr", ARRAY_REPS, case["radii"]) if (case.get("rep") or {}).get("arr") else \
            np.array(case["radii"], dtype=float)
        try:
            with core.quiet():
                out[nm] = {"ok": [float(x) for x in f(arr)]}
        except Exception as e:
            out[nm] = _err(e)
        if [float(x) for x in arr] != [float(x) for x in case["radii"]]:
            out["argument_modified"] = nm
    return out


def _impl_resolve(case):
    from molgri.naming import GridNameParser
    try:
        with core.quiet():
            p = GridNameParser(_rep(case, "name", STR_REPS, case["name"]), _rep(case, "role", STR_REPS, case["role"]))
            return {"ok": [str(p.get_alg()), int(p.get_N())], "n_type": type(p.get_N()).__name__}
    except Exception as e:
        return _err(e)


_IMPLS = {"fullgrid": _impl_fullgrid, "cell": _impl_cell, "radial": _impl_radial, "resolve": _impl_resolve}


def _key(case):
    return json.dumps(case, sort_keys=True)


def _impl_real(case):
    try:
        return _IMPLS[case["kind"]](case)
    except Exception as e:  # should not happen: every library exception is caught above
        return {"harness_error": traceback.format_exc()[-800:]}


def impl(case):
    k = _key(case)
    if k in _CACHE:
        return _CACHE.pop(k)
    return _impl_real(case)


# ----------------------------------------------------------------------------------------------
# generators
# ----------------------------------------------------------------------------------------------
def _name(alg, n):
    return str(n) if alg == "" else ("zero" if alg == "zero" else f"{alg}_{n}")


def _swap(r, cart):
    """(t, nm, fam), cart -> emit's argument order (t, cart, nm, fam)"""
    t, nm, fam = r
    return t, cart, nm, fam


def _fullgrid_cases(ctx):
    quick = ctx.quick
    nmax = 5 if quick else 8
    tmax = 3 if quick else 4
    seen = set()

    rng = ctx.rng

    def emit(b, o, t, cart, nm=None, fam=None):
        c = {"kind": "fullgrid", "b": b, "o": o, "t": t, "cart": cart}
        k = _key(c)
        if k not in seen:
            seen.add(k)
            if nm is not None:
                c["radii_nm"] = [float(x) for x in nm]     # what the text denotes; the model is fed from this, not from t
                c["family"] = fam
            # order in which the five getters are requested: quick alternates, thorough does both (fresh objects)
            c["order"] = "both" if not quick else ("rev" if len(seen) % 2 else "fwd")
            return c
        return None

    def rad(nt):
        """(text, nm values, family): n_t radii from a random preset in a random accepted spelling"""
        nm = PRESETS[rng.choice(sorted(PRESETS))][:nt]
        fam, t = draw_spelling(rng, nm)
        return t, nm, fam

    out = []
    # 0. spellings: every family x every preset that it can express x n_t in 1..3 x both modes, for a few small grids
    pairs = [("2", "4"), ("3", "1")] if quick else [("2", "4"), ("3", "1"), ("1", "3"), ("4", "5"),
                                                    ("cube4D_5", "randomS_6"), ("zero", "cube3D_2")]
    fam_cov = {}
    for (b, o), cart, nt in itertools.product(pairs, (False, True), (1, 2, 3)):
        for fam in families(nt):
            for pname in sorted(PRESETS):
                nm = PRESETS[pname][:nt]
                t = spell(fam, nm)
                if t is None:
                    continue
                out.append(emit(b, o, t, cart, nm, fam))
                fam_cov.setdefault(fam, set()).add((1 if nt == 1 else 2, cart))
    missing = [(f, nt) for nt in (1, 2) for f in families(nt) for cart in (False, True) if (nt, cart) not in fam_cov.get(f, ())]
    if missing:
        raise core.HarnessError(f"spelling families not covered: {missing}")
    ctx.extra_cov["radial_spelling_families"] = {"n_t=1": sorted(FAMILIES_1), "n_t>=2": sorted(FAMILIES_N),
                                                 "covered": "every family x both modes x every preset it can express, "
                                                            f"grids {pairs}; all other cases draw family and preset at random"}
    # 1. the box of the property: bare numbers, exhaustively
    for cart in (False, True):
        for nb, no, nt in itertools.product(range(1, nmax + 1), range(1, nmax + 1), range(1, tmax + 1)):
            out.append(emit(str(nb), str(no), *_swap(rad(nt), cart)))
    # 2. every algorithm reachable by name
    b_forms = ("", "cube4D", "randomQ")
    o_forms = ("", "ico", "cube3D", "randomS")
    if quick:
        nbs, nos, nts = (1, 2, 3, 4), (1, 2, 3, 4, 5), (1, 2)
    else:
        nbs, nos, nts = range(1, 7), range(1, 7), range(1, tmax + 1)
    for ba, oa in itertools.product(b_forms, o_forms):
        if ba == "" and oa == "":
            continue
        for cart in (False, True):
            for nb, no, nt in itertools.product(nbs, nos, nts):
                if quick and (nb + no + nt + (ba != "") + 2 * (oa != "")) % 3 != 0:
                    # reduced cross in the quick tier: a third of the named box, every size still occurs with every algorithm
                    continue
                out.append(emit(_name(ba, nb), _name(oa, no), *_swap(rad(nt), cart)))
    # 3. zero names and fulldiv (documented ValueError unless 8, 40, ...)
    for cart in (False, True):
        for nt in (1, 2, 3):
            for no in (1, 2, 3, 4, 5):
                out.append(emit("zero", str(no), *_swap(rad(nt), cart)))
                out.append(emit("zero4D_1", f"ico_{no}", *_swap(rad(nt), cart)))
                out.append(emit("cube4D_1", f"cube3D_{no}", *_swap(rad(nt), cart)))
            for nb in (1, 2, 3, 4, 5):
                out.append(emit(str(nb), "zero", *_swap(rad(nt), cart)))
                out.append(emit(f"randomQ_{nb}", "zero3D", *_swap(rad(nt), cart)))
                out.append(emit(f"cube4D_{nb}", "ico_1", *_swap(rad(nt), cart)))
        for nb in (1, 2, 3, 4, 5, 7, 8, 9):
            for no in (1, 2, 3, 5):
                out.append(emit(f"fulldiv_{nb}", str(no), *_swap(rad(2), cart)))
                out.append(emit(f"fulldiv_{nb}", str(no), *_swap(rad(1), cart)))
    if not quick:
        out.append(emit("fulldiv_40", "4", T_BASE[2], False))
        out.append(emit("fulldiv_40", "ico_3", T_BASE[1], True))
    # 4. rejected names must be rejected with ValueError
    for b, o in (("0", "3"), ("3", "0"), ("ico_3", "3"), ("3", "cube4D_3"), ("zero_2", "3"), ("3", "zero_3"),
                 ("cube4D", "3"), ("3", "ico"), ("abc", "3"), ("3", "none"), ("randomQ_0", "4"), ("4", "randomS_0")):
        out.append(emit(b, o, T_BASE[2], False))
    # 5. radial grids outside the property's quantifier (kept for the correspondence; the oracle excludes them)
    for t in ("[0.1, 0.1]", "[0, 0.1]", "[0.2, 0.1, 0.2]", "[]", "[0.0]"):
        for cart in (False, True):
            if cart and t == "[0.0]":
                continue    # every point at the origin: qhull's answer is outside what the model assumes of it
            out.append(emit("2", "4", t, cart))
            out.append(emit("5", "5", t, cart))
    # 6. seed-dependent: random strictly ascending radii, unsorted input, linspace, larger sizes
    for _ in range(40 if quick else 400):
        nt = rng.choice((1, 1, 2, 2, 3, 4, 5, 6))
        rs = sorted({round(rng.uniform(0.05, 3.0), rng.choice((0, 1, 2, 3))) for _k in range(nt)})
        rs = [float(r) for r in rs if r > 0]
        if not rs:
            continue
        if rng.random() < 0.25:
            # an equally spaced grid, so that the linspace / range families apply
            k = rng.randint(1, 5)
            st = round(rng.uniform(0.1, 1.0), 2)
            rs = [round(rs[0] + i * st, 6) for i in range(k)]
        fam, t = draw_spelling(rng, rs)
        hi = 8 if quick else 12
        nb = rng.choice((1, 2, 3, 4, 5, rng.randint(1, hi)))
        no = rng.choice((1, 2, 3, 4, 5, rng.randint(1, hi)))
        ba = rng.choice(("", "", "cube4D", "randomQ"))
        oa = rng.choice(("", "", "ico", "cube3D", "randomS"))
        out.append(emit(_name(ba, nb), _name(oa, no), t, rng.random() < 0.5, rs, fam))
    return [c for c in out if c is not None]


def _cell_cases(ctx):
    out = []
    n3 = range(1, 9) if ctx.quick else range(1, 15)
    n4 = range(1, 7) if ctx.quick else range(1, 10)
    for alg in ALGS3:
        for n in n3:
            for m in CELL_METHS:
                for ou in ((None,) if m == "get_voronoi_volumes" else (None, False)):
                    out.append({"kind": "cell", "dim": 3, "alg": alg, "n": n, "meth": m, "only_upper": ou})
    for alg in ("cube4D", "randomQ"):
        for n in n4:
            for m in CELL_METHS:
                for ou in ((None,) if m == "get_voronoi_volumes" else (None, False, True)):
                    out.append({"kind": "cell", "dim": 4, "alg": alg, "n": n, "meth": m, "only_upper": ou})
    for n in (1, 2, 8, 9):
        out.append({"kind": "cell", "dim": 4, "alg": "fulldiv", "n": n, "meth": "_calculate_N_N_array", "only_upper": None})
    out.append({"kind": "cell", "dim": 3, "alg": "zero3D", "n": 1, "meth": "get_voronoi_adjacency", "only_upper": None})
    out.append({"kind": "cell", "dim": 4, "alg": "zero4D", "n": 1, "meth": "get_voronoi_volumes", "only_upper": None})
    out.append({"kind": "cell", "dim": 3, "alg": "cube4D", "n": 3, "meth": "get_voronoi_volumes", "only_upper": None})
    out.append({"kind": "cell", "dim": 4, "alg": "ico", "n": 3, "meth": "get_voronoi_volumes", "only_upper": None})
    return out


def _radial_cases(ctx):
    out = [{"kind": "radial", "radii": r} for r in
           ([], [1.0], [0.0], [1.0, 1.0], [1.0, 2.0], [2.0, 1.0], [0.0, 1.0], [1.0, 2.0, 3.5], [1.0, 2.0, 2.0],
            [0.5, 1.0, 3.0], [1.0, 2.0, 3.5, 5.0])]
    rng = ctx.rng
    for _ in range(60 if ctx.quick else 600):
        nt = rng.randint(1, 8)
        rs = sorted({round(rng.uniform(0.1, 40.0), rng.choice((0, 1, 2, 6))) for _k in range(nt)})
        rs = [r for r in rs if r > 0] or [1.0]
        if rng.random() < 0.1 and len(rs) > 1:
            rs[rng.randrange(1, len(rs))] = rs[0]     # a repeated / descending entry
        out.append({"kind": "radial", "radii": [float(r) for r in rs]})
    return out


def _resolve_cases(ctx):
    names = ["zero", "zero3D", "zero4D", "zero_1", "zero_2", "zero3D_1", "zero4D_1", "none", "abc", "", "7", "1", "0"]
    for a in ALL_ALGS:
        names += [a, f"{a}_0", f"{a}_1", f"{a}_2", f"{a}_17", f"17_{a}"]
    return [{"kind": "resolve", "name": nm, "role": role} for nm in names for role in ("o", "b")]


def _draw_reps(rng, case):
    """a seed-chosen representation for every argument of the case"""
    k = case["kind"]
    pick = lambda table: rng.choice(sorted(table))
    if k == "fullgrid":
        return {"b": pick(STR_REPS), "o": pick(STR_REPS), "t": pick(STR_REPS), "cart": pick(FLAG_REPS),
                "factor": pick(REAL_REPS)}
    if k == "cell":
        r = {"alg": pick(STR_REPS), "n": pick(INT_REPS)}
        if case.get("only_upper") is not None:
            r["only_upper"] = pick(FLAG_REPS)
        return r
    if k == "resolve":
        return {"name": pick(STR_REPS), "role": pick(STR_REPS)}
    if k == "radial":
        return {"arr": rng.choice(array_reps_for(case["radii"]))}
    return {}


def _rep_sweep_cases(ctx):
    """every representation family of every argument, one argument at a time (the others plain) and all arguments
    together, on small fixed cases"""
    out = []
    plain_fg = {"b": "str", "o": "str", "t": "str", "cart": "bool", "factor": "default"}
    tables = {"b": STR_REPS, "o": STR_REPS, "t": STR_REPS, "cart": FLAG_REPS, "factor": REAL_REPS}
    fixed = [("2", "4", "[0.1, 0.2]", False, [0.1, 0.2]), ("cube4D_4", "randomS_5", "linspace(0.3, 0.9, 3)", True, [0.3, 0.6, 0.9]),
             ("3", "5", "0.5", True, [0.5])]
    for i, (b, o, t, cart, nm) in enumerate(fixed):
        base = {"kind": "fullgrid", "b": b, "o": o, "t": t, "cart": cart, "radii_nm": nm, "family": "rep_sweep",
                "order": "both" if not ctx.quick else ("fwd" if i % 2 else "rev")}
        for arg, table in tables.items():
            for name in table:
                out.append(dict(base, rep=dict(plain_fg, **{arg: name})))
        for j in range(6):   # all arguments at once
            out.append(dict(base, rep={arg: sorted(table)[j % len(table)] for arg, table in tables.items()}))
    for dim, alg, n in ((4, "cube4D", 5), (3, "ico", 5), (4, "randomQ", 3), (3, "cube3D", 2)):
        for nrep in INT_REPS:
            for m in ("_calculate_N_N_array", "get_voronoi_volumes"):
                out.append({"kind": "cell", "dim": dim, "alg": alg, "n": n, "meth": m, "only_upper": None,
                            "rep": {"alg": "str", "n": nrep}})
        for arep in STR_REPS:
            out.append({"kind": "cell", "dim": dim, "alg": alg, "n": n, "meth": "get_cell_borders", "only_upper": None,
                        "rep": {"alg": arep, "n": "int"}})
        for frep in FLAG_REPS:
            for ou in ((False, True) if dim == 4 else (False,)):
                out.append({"kind": "cell", "dim": dim, "alg": alg, "n": n, "meth": "get_voronoi_adjacency", "only_upper": ou,
                            "rep": {"alg": "str", "n": "np.int64", "only_upper": frep}})
    for name, role in (("5", "o"), ("ico_7", "o"), ("cube4D_3", "b"), ("zero", "b"), ("1", "o"), ("cube4D_3", "o")):
        for nr in STR_REPS:
            for rr in STR_REPS:
                out.append({"kind": "resolve", "name": name, "role": role, "rep": {"name": nr, "role": rr}})
    for v in ([1.0, 2.0, 4.0], [0.5, 1.0, 3.0], [3.0], [2.0, 1.0], [1.0, 1.0], []):
        for ar in array_reps_for(v):
            out.append({"kind": "radial", "radii": v, "rep": {"arr": ar}})
    return out


def cases(ctx):
    groups = [_resolve_cases(ctx), _radial_cases(ctx), _cell_cases(ctx), _fullgrid_cases(ctx)]
    allc = [c for g in groups for c in g]
    for c in allc:
        c["rep"] = _draw_reps(ctx.rng, c)
    allc = _rep_sweep_cases(ctx) + allc
    ctx.extra_cov["argument_representations"] = {
        "str (grid names, algorithm names, roles, radial text)": sorted(STR_REPS), "int (N)": sorted(INT_REPS),
        "flag (position_grid_cartesian, only_upper, include_opposing_neighbours)": sorted(FLAG_REPS),
        "real (factor = 2)": sorted(REAL_REPS), "array (radii given to get_increments / get_between_radii)": sorted(ARRAY_REPS),
        "excluded": REPS_EXCLUDED,
        "coverage": "every case draws the representation of each argument from ctx.rng; every family of every argument is swept "
                    "one at a time and together on fixed small cases (3 full grids, 4 sphere grids, 6 names, 6 radii arrays)"}
    ctx.extra_cov["cases_by_kind"] = {k: sum(1 for c in allc if c["kind"] == k) for k in _IMPLS}
    ctx.exhaustive = True
    ctx.extra_cov["exhaustive_scope"] = (
        f"bare-number FullGrid specifications n_b, n_o in 1..{5 if ctx.quick else 8}, n_t in 1..{3 if ctx.quick else 4}, both position modes, "
        "five getters each: every point of the box; named algorithms: " + ("reduced cross" if ctx.quick else "full cross"))
    # the implementation is evaluated in parallel (independent objects), the results are consumed in order
    heavy = [c for c in allc if c["kind"] in ("fullgrid", "cell")]
    nproc = int(os.environ.get("VERIF_PROCS", "0") or 0) or min(16 if not ctx.quick else 8, os.cpu_count() or 1)
    if nproc > 1 and len(heavy) > 50:
        mp = multiprocessing.get_context("fork")
        with mp.Pool(nproc) as pool:
            res = pool.map(_impl_real, heavy, chunksize=8)
        for c, r in zip(heavy, res):
            _CACHE[_key(c)] = r
    for c in allc:
        yield c


# ----------------------------------------------------------------------------------------------
# model side
# ----------------------------------------------------------------------------------------------
def _scan_json(name):
    s = scan_name(name)
    return s


def model_ops(case, out):
    k = case["kind"]
    if k == "fullgrid":
        sb, so = scan_name(case["b"]), scan_name(case["o"])
        if sb is None or so is None:
            return []
        try:
            radii = [core.rat(x) for x in intended_radii(case)]
        except Exception:
            return []
        base = {"op": "fullgrid", "b": sb, "o": so, "radii": radii, "cartesian": case["cart"]}
        ops = [base]
        if case["cart"] and out.get("ctor") == "ok" and "hull_fails" in out:
            ops.append(dict(base, qhull_ok=True, closed=out["closed"], hull_fails=out["hull_fails"]))
        return ops
    if k == "cell":
        op = {"op": "cell", "dim": case["dim"], "alg": case["alg"], "n": case["n"], "meth": case["meth"]}
        if case.get("only_upper") is not None:
            op["only_upper"] = case["only_upper"]
        return [op]
    if k == "radial":
        return [{"op": "radial", "radii": [core.rat(x) for x in case["radii"]]}]
    if k == "resolve":
        s = scan_name(case["name"])
        if s is None:
            return []
        return [{"op": "resolve", "role4": case["role"] == "b", "scan": s}]
    return []


def _cls(o):
    """outcome class of an implementation observable / a model observable"""
    if isinstance(o, dict) and "err" in o:
        return ("err", o["err"])
    if isinstance(o, dict) and "ok" in o:
        return ("ok", list(o["ok"]))
    return ("?", o)


def compare(ctx, case, out, mouts):
    if "harness_error" in out:
        raise core.HarnessError(out["harness_error"])
    k = case["kind"]
    if not mouts:
        ctx.branch("no_model_op(ambiguous name)")
        return
    if k == "fullgrid":
        for idx, mo in enumerate(mouts):
            what = "fullgrid" if idx == 0 else "fullgrid(observed qhull cells)"
            if "ok" not in mo:
                ctx.corr(what + "/driver", case, out, mo)
                return
            m = mo["ok"]
            ictor = "ok" if out["ctor"] == "ok" else out["ctor"]["err"]
            if ictor != m["ctor"]:
                ctx.corr(what + "/constructor outcome", case, out["ctor"], m["ctor"])
                return
            if ictor != "ok":
                continue
            if "observe" in out:
                ctx.corr(what + "/observation points", case, out["observe"], "ok")
                return
            for f in ("n_b", "n_o", "n_t", "b_cell", "o_cell"):
                if out[f] != m[f]:
                    ctx.corr(f"{what}/{f}", case, out[f], m[f])
                    return
            if idx == 0 and case["cart"] and (out.get("hull_fails") or
                                              any(i >= out["n_o"] * out["n_t"] for i in out.get("closed", []))):
                # the geometry library did not behave as the model's default assumption says (a reported-closed cell
                # without a hull / in the outer shell): the getters are compared on the observed behaviour only (idx 1);
                # the oracle reports the resulting failure of the property
                ctx.branch("default_ext_assumption_broken")
                continue
            for tag in ("getters", "getters_rev"):
                if tag not in out:
                    continue
                for g in GETTERS:
                    a, b = _cls(out[tag][g]), _cls(m["getters"][g])
                    if a != b:
                        ctx.corr(f"{what}/{g}" + ("(reverse order)" if tag == "getters_rev" else ""), case,
                                 out[tag][g], m["getters"][g])
                        return
        # the scaling factor (argument object and stored attribute) is still the value that was passed
        fa = out.get("factor_after")
        if fa is not None and (isinstance(fa, dict) or any(v != 2.0 for v in fa)):
            ctx.corr("fullgrid/factor (argument or attribute) modified by a getter", case, fa, 2.0)
        # radii seen by the implementation = radii the harness computed for the model
        if out["ctor"] == "ok" and "radii" in out:
            mine = intended_radii(case)
            theirs = [float(core.unrat(x)) for x in out["radii"]]
            # linspace / range spellings are evaluated by numpy: equal up to rounding, never in number
            if len(mine) != len(theirs) or any(not core.close(a, b, rel=1e-12, abs_=1e-12) for a, b in zip(mine, theirs)):
                ctx.corr("fullgrid/radii", case, out["radii"], [core.rat(x) for x in mine])
        return
    m = mouts[0]
    if k == "cell":
        if out["create"] != "ok":
            if m.get("err") != out["create"]["err"]:
                ctx.corr("cell/create", case, out["create"], m)
            ctx.branch("cell_create_error:" + out["create"]["err"])
            return
        if "ok" not in m:
            ctx.corr("cell/create", case, "ok", m)
            return
        mm = m["ok"]
        if mm["cls"] != out["cls"]:
            ctx.corr("cell/class", case, out["cls"], mm["cls"])
            return
        for f in ("n", "len", "rows"):
            if f in out and mm["n"] != out[f]:
                ctx.corr({"n": "cell/get_N", "len": "cell/len", "rows": "cell/rows of get_grid_as_array"}[f], case, out[f], mm["n"])
                return
        if _cls(out["out"]) != _cls(mm["out"]):
            ctx.corr("cell/" + case["meth"], case, out["out"], mm["out"])
        return
    if k == "radial":
        if "ok" not in m:
            ctx.corr("radial/driver", case, out, m)
            return
        if "argument_modified" in out:
            ctx.corr("radial/argument modified in place by " + out["argument_modified"], case, "modified", case["radii"])
            return
        for nm in ("increments", "between"):
            a, b = out[nm], m["ok"][nm]
            if ("err" in a) != ("err" in b) or ("err" in a and a["err"] != b["err"]):
                ctx.corr("radial/" + nm, case, a, b)
                return
            if "ok" in a:
                bv = [float(core.unrat(x)) for x in b["ok"]]
                if len(bv) != len(a["ok"]) or any(not core.close(x, y, rel=1e-12, abs_=1e-12) for x, y in zip(a["ok"], bv)):
                    ctx.corr("radial/" + nm, case, a, bv)
                    return
        return
    if k == "resolve":
        a = ("err", out["err"]) if "err" in out else ("ok", out["ok"])
        b = ("err", m["err"]) if "err" in m else ("ok", m["ok"])
        if a != b:
            ctx.corr("resolve", case, out, m)
        return


# ----------------------------------------------------------------------------------------------
# oracle: the statement of C19 on the implementation
# ----------------------------------------------------------------------------------------------
def _allowed_error(e, cart, n_o):
    """`e` = error observable.  ValueError raised by molgri's own code is a deliberate rejection; the geometry library's
    own error is allowed only in the Cartesian mode with fewer than three directions."""
    if e["err"] == "ValueError":
        return e.get("origin") == "molgri"
    if e["err"] == "other:QhullError":
        return bool(cart) and n_o is not None and n_o < 3
    return False


def oracle(ctx, case, out):
    k = case["kind"]
    for arg, name in (case.get("rep") or {}).items():
        ctx.branch(f"rep:{k}.{arg}:{name}")
    if k == "fullgrid":
        nb, no = requested_n(case["b"]), requested_n(case["o"])
        sb, so = scan_name(case["b"]), scan_name(case["o"])
        try:
            radii = intended_radii(case)
        except Exception:
            radii = None
        # names the parser must reject (no valid request / algorithm of the wrong role)
        wrong_role = (sb and sb["algo"] in ALGS3 and not sb["zero"]) or (so and so["algo"] in ALGS4 and not so["zero"])
        if nb is None or no is None or wrong_role:
            ctx.branch("rejected_name")
            if out["ctor"] == "ok" or out["ctor"]["err"] != "ValueError":
                ctx.fail("C19:ctor:invalid-name-not-ValueError", "a name that is not a valid request was not rejected with ValueError",
                         case, "ValueError", out["ctor"])
            return
        if radii is None or not strictly_positive_ascending(radii):
            ctx.branch("excluded:radii_not_positive_strictly_ascending")
            return
        nt = len(radii)
        n = nt * no * nb
        ctx.branch(f"mode:{'cartesian' if case['cart'] else 'spherical'}")
        if case.get("family"):
            ctx.branch(f"spelling(n_t{'=1' if nt == 1 else '>=2'}):{case['family']}")
        ctx.branch(f"n_t={nt}")
        ctx.branch(f"n_b={'>=4' if nb >= 4 else nb}")
        ctx.branch(f"n_o={'>=4' if no >= 4 else no}")
        if out["ctor"] != "ok":
            e = out["ctor"]
            ctx.branch("ctor_error:" + e["err"])
            if not _allowed_error(e, case["cart"], no):
                ctx.fail(f"C19:ctor:{e['err']}" + ("" if e["err"] != "ValueError" else "@" + e.get("origin", "?")),
                         f"constructing FullGrid raised {e['err']} ({e.get('where')}: {e.get('msg')})", case,
                         "ok | ValueError raised by molgri | QhullError iff Cartesian and n_o<3", e)
            return
        if "observe" in out:
            # the size getters themselves raised; the five getters are still judged against the requested sizes below
            e = out["observe"]
            ctx.fail(f"C19:observe:{e['err']}", f"size/cell-model getters (get_N, get_N_trans, ...) raised {e['err']} "
                     f"({e.get('where')}: {e.get('msg')})", case, [nb, no, nt], e)
        else:
            if (out["n_b"], out["n_o"], out["n_t"]) != (nb, no, nt):
                ctx.fail("C19:sizes", "grid sizes differ from the requested ones", case, [nb, no, nt],
                         [out["n_b"], out["n_o"], out["n_t"]])
                return
            ctx.branch(f"cells:{out['b_cell']}/{out['o_cell']}")
        want = {"get_full_grid_as_array": [n, 7], "get_total_volumes": [n]}
        ctx.branch(f"order:{case.get('order', 'fwd')}")
        for tag in ("getters", "getters_rev"):
            if tag not in out:
                continue
            sfx = "" if tag == "getters" else ":reverse-order"
            for g in GETTERS:
                r = out[tag][g]
                if "err" in r:
                    ctx.branch(f"getter_error:{r['err']}")
                    if not _allowed_error(r, case["cart"], no):
                        key = f"C19:{g}:{r['err']}" + ("" if r["err"] != "ValueError" else "@" + r.get("origin", "?"))
                        if r["err"] == "other:QhullError":
                            # keyed by the direction grid: the open finding F13 is specific to a few of them
                            key = f"C19:{g}:QhullError:cartesian:o={_std_o_name(case['o'])}"
                        ctx.fail(key + sfx, f"{g} raised {r['err']} ({r.get('where')}: {r.get('msg')})", case,
                                 "array of the correct shape | ValueError raised by molgri", r)
                    continue
                w = want.get(g, [n, n])
                if r["ok"] != w:
                    ctx.fail(f"C19:{g}:shape" + sfx, f"{g} returned shape {r['ok']}", case, w, r["ok"])
                elif g == "get_full_grid_as_array" and not r.get("finite", True):
                    ctx.fail(f"C19:{g}:nan" + sfx, "rows of the full-grid array were left unwritten (NaN)", case, "finite", "NaN")
        ctx.nt((case["b"], case["o"], case["t"], case["cart"]))
        if nb in (2, 3) or nt == 1 or (case["cart"] and no == 3):
            ctx.sample(case, limit=8)
        return
    if k == "cell":
        if out["create"] != "ok":
            e = out["create"]
            if not (e["err"] == "ValueError" and e.get("origin") == "molgri"):
                ctx.fail(f"C19:cell-create:{e['err']}", f"factory raised {e['err']}", case, "ok | ValueError by molgri", e)
            return
        ctx.branch(f"cell:{out['cls']}")
        r = out["out"]
        if "err" in r:
            ctx.fail(f"C19:cell:{case['meth']}:{r['err']}", f"{out['cls']}.{case['meth']} raised {r['err']} ({r.get('where')})",
                     case, "array", r)
            return
        n = case["n"]
        for f, what in (("n", "get_N()"), ("len", "len(grid)"), ("rows", "rows of get_grid_as_array()")):
            if f in out and out[f] != n:
                ctx.fail(f"C19:cell:{f}", f"a grid requested with N = {n} reports {what} = {out[f]}", case, n, out[f])
                return
        if case["meth"] == "get_voronoi_volumes":
            if r["ok"] != [n]:
                ctx.fail(f"C19:cell:{case['meth']}:shape", "one volume per cell expected", case, [n], r["ok"])
        elif case.get("only_upper") is not False:
            if r["ok"] != [n, n]:
                ctx.fail(f"C19:cell:{case['meth']}:shape", "N x N matrix expected", case, [n, n], r["ok"])
        ctx.nt(("cell", case["dim"], case["alg"], n, case["meth"], case.get("only_upper")))
        return
    if k == "radial":
        r = case["radii"]
        if not strictly_positive_ascending(r):
            ctx.branch("radial:excluded(not positive strictly ascending)")
            return
        for nm in ("increments", "between"):
            o = out[nm]
            if "err" in o:
                ctx.fail(f"C19:radial:{nm}:{o['err']}", f"{nm} raised {o['err']} on accepted radii", case, None, o)
            elif len(o["ok"]) != len(r):
                ctx.fail(f"C19:radial:{nm}:length", f"{nm} has {len(o['ok'])} entries for {len(r)} radii", case)
        ctx.nt(("radial", tuple(r)))
        return
    if k == "resolve":
        if "err" in out and out["err"] != "ValueError":
            ctx.fail(f"C19:resolve:{out['err']}", f"GridNameParser raised {out['err']}", case, "(alg, N) | ValueError", out)
        elif "ok" in out:
            alg, n = out["ok"]
            valid = (ALGS3 + ("zero3D",)) if case["role"] == "o" else (ALGS4 + ("zero4D",))
            if alg not in valid or n < 1 or out.get("n_type") != "int":
                ctx.fail("C19:resolve:not-a-valid-request-of-the-role", f"accepted name resolved to ({alg}, {n}: {out.get('n_type')}) "
                         f"for role {case['role']}", case, f"algorithm in {valid}, int N >= 1", out)
            ctx.nt(("resolve", case["name"], case["role"]))
        return
