"""C20 - persisted grids and energy tables (molgri.io: GridWriter / GridReader, EnergyReader).

Correspondence (C): the Lean models `Molgri.Xvg` (column-name scan, pandas' tokenizer for `skiprows=13`, `comment='@'`,
`sep=r'\\s+'`, ragged rows, `to_csv` / `read_csv(index_col=0)`) and `Molgri.GridFiles` (which getter goes to which file,
appended extensions, overwriting, which loader accepts which file) are run on the same files / call histories as the
real code.
Failing-input search (S): the statement of C20 evaluated on the real code, independently of the model: the table that
the generator *meant* (legends, tokens) against what `load_energy` / `load_single_energy_column` return, csv round trip
of that frame, and bitwise comparison (class, format, shape, dtype, storage arrays in storage order) of everything
written by `GridWriter` with what `GridReader` returns.
"""
from __future__ import annotations

import atexit
import hashlib
import contextlib
import math
import os
import re
import shutil
import struct
import tempfile

import numpy as np

import core

RULE = ("energy files: header box sampled completely in the quick tier already (h '#' lines 0..13, '@' lines so that h+a >= 13 with "
        "emphasis on h+a = 13 and h = 13, 1..10 legends s0..s(m-1) interleaved with other '@' lines, legend texts from gmx energy "
        "and random quote-free texts incl. commas/@/#/unicode, long headers (legend texts up to 3000 characters, up to 400 extra '@' lines before and between the legends, up to 13 '#' lines of 500+ characters; header sizes around 512..65536 characters), 0..50 (thorough 0..300) rows, tokens of arbitrary finite doubles (incl. subnormals, extremes, random bit patterns) written as %.6f / %12.6f / %.10g / %e / "
        "ints / repr / %.17g / %.25g / %.40e / %.30f / %.60f / zero-padded, blank runs of spaces and tabs, with and without final newline); out-of-box files for the "
        "correspondence only (14+ '#' lines, short headers, 11-12 legends, duplicate / empty / unquoted legends, extra quotes, "
        "unbalanced quotes in skipped rows, ragged rows, '@' inside data, blank lines, other suffixes); grids: every buildable "
        "small FullGrid of a fixed sweep plus stub grids with arbitrary arrays and non-canonical sparse matrices (unsorted "
        "indices, duplicates, explicit zeros, csr/csc/coo, array/matrix, several dtypes) written through GridWriter, and random "
        "histories of save/load calls on colliding paths with and without extensions. one EnergyReader object through histories of load_energy / load_single_energy_column with every returned frame / array "
        "modified in place, the file rewritten (more / fewer rows) or path_energy re-pointed in between, for xvg and csv; every object "
        "GridReader returns is modified in place and the unchanged file re-read by the same and by a new GridReader. "
        "distinct by file content / by (grid, history); "
        "non-trivial = at least one data row with all columns, resp. at least one successful load")
CHUNK = 120

_TMP = tempfile.mkdtemp(prefix="verif_c20_")
atexit.register(lambda: shutil.rmtree(_TMP, ignore_errors=True))
_counter = [0]


def _fresh_dir():
    _counter[0] += 1
    d = os.path.join(_TMP, f"c{os.getpid()}_{_counter[0]}")
    os.makedirs(d, exist_ok=True)
    return d


# ------------------------------------------------------------------------------------------------------------------
# generators: energy files
# ------------------------------------------------------------------------------------------------------------------
GMX_HASH = [
    "# This file was created Mon Sep  2 14:11:53 2024",
    "# Created by:",
    "#                      :-) GROMACS - gmx energy, 2022 (-:",
    "# ",
    "# Executable:   /usr/local/gromacs/bin/gmx",
    "# Data prefix:  /usr/local/gromacs",
    "# Working dir:  /home/user/run",
    "# Command line:",
    "#   gmx energy -f full_energy.edr -o full_energy.xvg",
    "# gmx energy is part of G R O M A C S:",
    "#",
    "# Good ROcking Metal Altar for Chronical Sinners",
    "#",
]
GMX_AT = [
    '@    title "GROMACS Energies"',
    '@    xaxis  label "Time (ps)"',
    '@    yaxis  label "(kJ/mol)"',
    '@TYPE xy',
    '@ view 0.15, 0.15, 0.75, 0.85',
    '@ legend on',
    '@ legend box on',
    '@ legend loctype view',
    '@ legend 0.78, 0.8',
    '@ legend length 2',
]
GMX_TERMS = ["LJ (SR)", "Disper. corr.", "Coulomb (SR)", "Coul. recip.", "Potential", "Kinetic En.", "Total Energy",
             "Conserved En.", "Temperature", "Pres. DC (bar)", "Pressure", "Constr. rmsd", "Bond", "Angle", "Proper Dih.",
             "LJ-14", "Coulomb-14", "Box-X", "Volume", "Density", "pV", "Enthalpy", "Vir-XX", "Pres-XX", "#Surf*SurfTen",
             "T-Protein", "Lamb-System", "Position Rest."]
# characters of random header / legend texts (no double quote, no line terminators)
PLAIN = "abcdefghijklmnopqrstuvwxyzABCDEFGHIJKLMNOPQRSTUVWXYZ0123456789      .,;:()[]{}-+*/=_@#'%&!?<>|~^$\\\t"
EXOTIC = "éüßΔμ°²→𝛼"
# words pandas would turn into NaN / bool when a header line is (wrongly) read as data: never generated as a whole text
_NA = {"", "#N/A", "#N/A N/A", "#NA", "-1.#IND", "-1.#QNAN", "-NaN", "-nan", "1.#IND", "1.#QNAN", "<NA>", "N/A", "NA", "NULL",
       "NaN", "None", "n/a", "nan", "null"}


def _rtext(rng, lo, hi, exotic=0.1, alphabet=PLAIN):
    n = rng.randint(lo, hi)
    s = "".join(rng.choice(EXOTIC) if rng.random() < exotic * 0.3 else rng.choice(alphabet) for _ in range(n))
    return s


_LEG = re.compile(r"^@ s\d legend")


def _hash_line(rng):
    if rng.random() < 0.5:
        return rng.choice(GMX_HASH)
    return "#" + _rtext(rng, 0, 30)


def _at_line(rng):
    if rng.random() < 0.6:
        return rng.choice(GMX_AT)
    while True:
        l = "@" + _rtext(rng, 0, 25)
        if not _LEG.match(l):
            return l


def _legend_text(rng, used):
    for _ in range(100):
        k = rng.random()
        if k < 0.55:
            t = rng.choice(GMX_TERMS)
        elif k < 0.9:
            t = _rtext(rng, 1, 14)
        else:
            t = rng.choice(GMX_TERMS) + rng.choice([" ", ",", " [kJ/mol]", " @x", "#", "  "]) + _rtext(rng, 0, 3)
        if t not in used and t != "Time [ps]" and t != "":
            return t
    raise core.HarnessError("could not draw a distinct legend text")


def _rand_double(rng):
    """any finite double: ordinary magnitudes, the whole exponent range, subnormals, the extremes, random bit patterns"""
    k = rng.random()
    if k < 0.3:
        return rng.uniform(-1e4, 1e4)
    if k < 0.45:
        return rng.gauss(0, 1) * 10.0 ** rng.randint(-6, 6)
    if k < 0.6:
        return rng.gauss(0, 1) * 10.0 ** rng.randint(-320, 307)
    if k < 0.68:
        return float(rng.randint(-1000, 1000))
    if k < 0.73:
        return rng.choice([0.0, -0.0])
    if k < 0.8:
        return rng.choice([-1, 1]) * rng.uniform(1, 10) * 10.0 ** rng.choice([-320, -308, -300, -23, -22, -17, 15, 16, 22, 23, 300, 307])
    if k < 0.84:
        return rng.choice([-1, 1]) * rng.choice([5e-324, 2.2250738585072014e-308, 2.225073858507201e-308, 1.7976931348623157e308,
                                                 9007199254740993.0, 0.1, 1 / 3, 2.0 ** -1074 * rng.randint(1, 2 ** 52)])
    if k < 0.92:
        while True:
            x = struct.unpack("<d", struct.pack("<Q", rng.getrandbits(64)))[0]
            if x == x and abs(x) != float("inf"):
                return x
    return rng.uniform(-1, 1)


# number formats: gmx-like fixed / %g / %e, integers, shortest repr, 17 significant digits, and (since EnergyReader parses with
# float_precision="round_trip") long mantissas, many leading zeros, zero-padded tokens and the whole exponent range
STYLES = ["%.6f", "%12.6f", "%.10g", "%e", "%.8e", "int", "repr", "%.17g", "%.3f", "%.15g",
          "%.25g", "%.40e", "%.30f", "%.60f", "zeropad", "%.20e"]
_FIXED = ("%.6f", "%12.6f", "%.3f", "%.30f", "%.60f", "zeropad")


def _token(rng, style):
    if style == "int":
        return str(rng.choice([rng.randint(-10, 10), rng.randint(-10 ** 6, 10 ** 6), rng.randint(-2 ** 62, 2 ** 62)]))
    x = _rand_double(rng)
    if (style in _FIXED and abs(x) >= 1e18) or (style == "%.25g" and 1e18 <= abs(x) < 1e26):
        # positional notation with an integer part of 2^64 or more is the open finding
        # C20:xvg_long_fixed_point_token_read_as_text: stay below
        x = math.fmod(x, 1e18)
    if style == "repr":
        return repr(x)
    if style == "zeropad":
        t = "%.6f" % x
        sign, body = (t[0], t[1:]) if t[0] == "-" else ("", t)
        return sign + "0" * rng.randint(1, 25) + body
    t = (style % x).strip()
    if not math.isfinite(float(t)):       # the largest doubles round up to infinity in a short %g / %e: not a finite value
        return repr(x)
    return t


def _gap(rng, gromacs):
    if gromacs:
        return "  "
    return rng.choice([" ", "  ", "\t", " \t ", "    ", "\t\t"])


def _data_line(rng, toks, gromacs):
    lead = "" if not gromacs and rng.random() < 0.5 else rng.choice(["    ", " ", "\t", "  "])
    if gromacs:
        lead = "    "
    s = lead
    for i, t in enumerate(toks):
        if i:
            s += _gap(rng, gromacs)
        s += t
    if not gromacs and rng.random() < 0.2:
        s += rng.choice([" ", "\t", "   "])
    return s


def _legend_line(rng, i, text, plain):
    if plain or rng.random() < 0.8:
        return f'@ s{i} legend "{text}"'
    ws = rng.choice([" ", "  ", "\t", " \t"])
    tail = rng.choice(["", " ", "  x", "\t# c", " @"])
    return f'@ s{i} legend{ws}"{text}"{tail}'


def gen_box(rng, quick, h=None, extra=None, m=None, nrows=None):
    """a file inside the box of the property; returns the case with the intended table in case['box']"""
    if m is None:
        m = rng.choice([1, 1, 2, 3, 3, 4, 5, 6, 7, 8, 9, 10, 10, 10])
    if h is None:
        h = rng.choice([0, 1, 2, 3, 5, 8, 10, 11, 12, 12, 13, 13, 13, 13])
    need = max(0, 13 - h - m)
    if extra is None:
        extra = need + rng.choice([0, 0, 0, 1, 2, 5, 10])
    gromacs = rng.random() < 0.35
    if gromacs and h == 13:
        hashes = list(GMX_HASH)
    else:
        hashes = [_hash_line(rng) for _ in range(h)]
    used, legends = set(), []
    for _ in range(m):
        t = _legend_text(rng, used)
        used.add(t)
        legends.append(t)
    others = [_at_line(rng) for _ in range(extra)]
    if gromacs and extra == len(GMX_AT):
        others = list(GMX_AT)
    # interleave: legends keep their order
    if gromacs or rng.random() < 0.5:
        ats = others + [_legend_line(rng, i, t, gromacs) for i, t in enumerate(legends)]
    else:
        slots = sorted(rng.randint(0, len(others)) for _ in range(m))
        ats, k = [], 0
        for pos in range(len(others) + 1):
            while k < m and slots[k] == pos:
                ats.append(_legend_line(rng, k, legends[k], False))
                k += 1
            if pos < len(others):
                ats.append(others[pos])
    if nrows is None:
        nrows = rng.choice([0, 1, 1, 2, 3, 5, 10, 25, 50] if quick else [0, 1, 2, 3, 5, 10, 50, 100, 300])
    colstyle = [rng.choice(STYLES) for _ in range(m + 1)] if rng.random() < 0.5 else [rng.choice(STYLES)] * (m + 1)
    if gromacs:
        colstyle = ["%12.6f"] + ["%.10g"] * m
    rows, lines = [], []
    for r in range(nrows):
        toks = [_token(rng, colstyle[j]) for j in range(m + 1)]
        if colstyle[0] == "%12.6f" and gromacs:
            toks[0] = "%.6f" % (r * 0.5)
        rows.append(toks)
        lines.append(_data_line(rng, toks, gromacs))
    names = ["Time [ps]"] + legends
    col = rng.choice(names) if rng.random() < 0.9 else rng.choice(["Potential energy", "time", "s0", ""])
    return {"kind": "xvg", "name": "e.xvg", "lines": hashes + ats + lines, "nl": rng.random() < 0.85, "col": col, "csv": True,
            "tag": "box", "box": {"h": h, "a": len(ats), "legends": legends, "rows": rows}}


LONG_ALPHA = "abcdefghijklmnopqrstuvwxyzABCDEFGHIJKLMNOPQRSTUVWXYZ0123456789 .,;:()[]{}-+*/=_@#'%&!?<>|~^$\\\t"
HDR_POWERS = [512, 1024, 2048, 4096, 8192, 16384, 32768, 65536]


def _loguniform(rng, lo, hi):
    return int(round(math.exp(rng.uniform(math.log(lo), math.log(hi)))))


def _ltext(rng, n, exotic=0.0):
    """a quote-free text of exactly n characters"""
    if n <= 0:
        return ""
    if exotic and n > 2 and rng.random() < exotic:
        k = rng.randrange(n)
        return _ltext(rng, k) + rng.choice(EXOTIC) + _ltext(rng, n - k - 1)
    return "".join(rng.choice(LONG_ALPHA) for _ in range(n))


def _long_path(rng, n):
    """a '#' line of about n characters as gmx writes it for a deep working directory / long command line"""
    head = rng.choice(["# Working dir:  ", "# Command line:  gmx energy -f ", "# Executable:   ", "#   gmx energy -f ", "# Data prefix:  "])
    parts = []
    size = len(head)
    while size < n:
        w = "".join(rng.choice("abcdefghijklmnopqrstuvwxyz0123456789_-.") for _ in range(rng.randint(3, 24)))
        parts.append(w)
        size += len(w) + 1
    return (head + "/" + "/".join(parts))[:max(n, 1)].rstrip() or "#"


def _hdr_chars(lines):
    return sum(len(l) + 1 for l in lines)


def gen_long_header(rng, quick, target=None, mode=None, legends_last=None):
    """a file inside the box whose header (all '#' and '@' lines, line ends included) has `target` characters: long legend
    texts (lengths log-uniform 1..3000), hundreds of other '@' lines before and between the legend lines, up to 13 very long
    '#' lines.  One adjustable piece is sized so that the header ends exactly at `target` characters."""
    mode = mode or rng.choice(["legends", "ats", "hashes", "mixed"])
    free = target is None and mode in ("legends", "mixed") and rng.random() < 0.6     # legend lengths log-uniform 1..3000
    if target is None:
        target = _loguniform(rng, 400, 70000)
    m = rng.choice([1, 2, 3, 5, 8, 10, 10])
    h = rng.choice([0, 3, 12, 13, 13]) if mode != "hashes" else rng.choice([1, 5, 13, 13, 13])
    budget = target
    # '#' lines
    if mode in ("hashes", "mixed") and h:
        share = budget * (rng.uniform(0.6, 0.95) if mode == "hashes" else rng.uniform(0.1, 0.5))
        w = [rng.random() + 0.05 for _ in range(h)]
        hashes = [_long_path(rng, max(2, int(share * x / sum(w)))) for x in w]
    else:
        hashes = [_hash_line(rng) for _ in range(h)]
    # legend texts
    used, legends = set(), []
    if free:
        lens = [_loguniform(rng, 1, 3000) for _ in range(m)]
        target = budget = max(budget, _hdr_chars(hashes) + sum(lens) + 16 * m + 30 * max(0, 13 - h - m) + _loguniform(rng, 2, 3000))
    elif mode in ("legends", "mixed"):
        share = max(m, (budget - _hdr_chars(hashes)) * (rng.uniform(0.7, 0.98) if mode == "legends" else rng.uniform(0.2, 0.6)))
        w = [rng.random() ** 2 + 0.02 for _ in range(m)]
        lens = [max(1, min(3000, int(share * x / sum(w)) - 16)) for x in w]
    else:
        lens = [_loguniform(rng, 1, 60) for _ in range(m)]
    for n in lens:
        for _ in range(50):
            t = _ltext(rng, n, exotic=0.3) if n > 14 else _legend_text(rng, used)
            if t not in used and t != "Time [ps]":
                break
        used.add(t)
        legends.append(t)
    leg_lines = [f'@ s{i} legend "{t}"' for i, t in enumerate(legends)]
    # other '@' lines: enough to reach 13 header lines, then as many as the budget allows (up to a few hundred)
    need = max(0, 13 - h - m)
    others = [_at_line(rng) for _ in range(need)]
    room = budget - _hdr_chars(hashes) - _hdr_chars(leg_lines) - _hdr_chars(others)
    if mode in ("ats", "mixed") and room > 60:
        n_lines = min(400, max(1, room // rng.choice([15, 30, 80, 200])))
        per = room / n_lines
        for _ in range(n_lines):
            if room <= 60:
                break
            if per < 40 and rng.random() < 0.5:
                l = _at_line(rng)
            else:
                l = "@" + _ltext(rng, max(1, int(per * rng.uniform(0.5, 1.5)) - 2))
                if _LEG.match(l):
                    l = "@x" + l[2:]
            if len(l) + 1 > room - 2:
                break
            others.append(l)
            room -= len(l) + 1
    if room < 2 and hashes:
        # overshoot (or no room for another line): shorten the longest '#' line so that an adjustable line of >= 2 characters fits
        k = max(range(len(hashes)), key=lambda i: len(hashes[i]))
        cut = min(len(hashes[k]) - 1, 2 - room + rng.randint(0, 20))
        if cut > 0:
            hashes[k] = hashes[k][:len(hashes[k]) - cut].rstrip() or "#"
            room = budget - _hdr_chars(hashes) - _hdr_chars(leg_lines) - _hdr_chars(others)
    # the adjustable piece: one more '@' line of exactly the missing length (at least "@" + newline = 2 characters)
    if room >= 2:
        others.append("@" + _ltext(rng, room - 2).replace("@ s", "@ x"))
        if _LEG.match(others[-1]):
            others[-1] = "@x" + others[-1][2:]
    if legends_last is None:
        legends_last = rng.random() < 0.5
    if legends_last:
        rng.shuffle(others)
        ats = others + leg_lines
    else:
        rng.shuffle(others)
        slots = sorted(rng.randint(0, len(others)) for _ in range(m))
        ats, k = [], 0
        for pos in range(len(others) + 1):
            while k < m and slots[k] == pos:
                ats.append(leg_lines[k])
                k += 1
            if pos < len(others):
                ats.append(others[pos])
    rows, lines = _gen_rows(rng, m, rng.choice([1, 2, 3, 5]))
    names = ["Time [ps]"] + legends
    header = hashes + ats
    return {"kind": "xvg", "name": "e.xvg", "lines": header + lines, "nl": rng.random() < 0.85, "col": rng.choice(names), "csv": True,
            "tag": "box", "long": {"mode": mode, "chars": _hdr_chars(header), "target": target, "legends_last": bool(legends_last)},
            "box": {"h": h, "a": len(ats), "legends": legends, "rows": rows}}


def long_header_cases(rng, quick):
    """header sizes straddling the powers of two 512 .. 65536, every mode; then log-uniform sizes"""
    powers = [4096, 8192] if quick else HDR_POWERS
    deltas = [-3, 3] if quick else [-40, -1, 0, 1, 40]
    for p in powers:
        for mode in ("legends", "ats", "hashes", "mixed"):
            for d in deltas:
                yield gen_long_header(rng, quick, target=p + d, mode=mode, legends_last=True if quick else None)
    if quick:
        for p in (512, 1024, 2048, 16384, 32768, 65536):
            yield gen_long_header(rng, quick, target=p + rng.choice([2, 5]), legends_last=True)
    for _ in range(12 if quick else 400):
        yield gen_long_header(rng, quick)


MUT_FRAME = ["shift", "sort", "nan", "drop", "reverse", "none"]
MUT_ARR = ["shift", "sort", "nan", "reverse", "none"]


def _gen_rows(rng, m, nrows):
    colstyle = [rng.choice(STYLES) for _ in range(m + 1)] if rng.random() < 0.5 else [rng.choice(STYLES)] * (m + 1)
    rows, lines = [], []
    for _ in range(nrows):
        toks = [_token(rng, colstyle[j]) for j in range(m + 1)]
        rows.append(toks)
        lines.append(_data_line(rng, toks, False))
    return rows, lines


def add_session(rng, case):
    """a history on ONE EnergyReader object: repeated load_energy / load_single_energy_column, every returned frame / array
    modified in place by the caller, the file rewritten with other data (more / fewer rows) or path_energy re-pointed in between.
    version 0 is the file of the case; case['session']['versions'][k-1] is version k (same header, other data lines)"""
    b = case["box"]
    m = len(b["legends"])
    header = case["lines"][:b["h"] + b["a"]]
    n0 = len(b["rows"])
    versions = []
    for _ in range(rng.randint(1, 2)):
        n2 = rng.choice([n for n in (0, 1, 2, 3, 4, 6, 9, n0 + 1, n0 + 3, max(0, n0 - 1)) if n != n0])
        rows, lines = _gen_rows(rng, m, n2)
        versions.append({"lines": header + lines, "rows": rows, "nl": rng.random() < 0.85})
    names = ["Time [ps]"] + b["legends"]

    def query():
        if rng.random() < 0.35:
            return ["load", rng.choice(MUT_FRAME)]
        return ["col", rng.choice(names), rng.choice(MUT_ARR)]

    first = ["col", rng.choice(names), rng.choice(["shift", "sort", "nan"])] if rng.random() < 0.6 else ["load", rng.choice(["shift", "sort", "nan", "drop"])]
    ops = [first, ["col", first[1], "none"] if first[0] == "col" and rng.random() < 0.5 else query(), query()]
    ops.append([rng.choice(["rewrite", "rewrite", "repoint"]), rng.randint(1, len(versions))])
    ops += [query(), query()]
    for _ in range(rng.randint(0, 4)):
        ops.append(query() if rng.random() < 0.7 else [rng.choice(["rewrite", "repoint"]), rng.randint(0, len(versions))])
    ops.append(query())
    case["session"] = {"target": rng.choice(["xvg", "xvg", "csv"]), "versions": versions, "ops": ops}
    return case


def gen_out_of_box(rng, quick):
    """files outside the box: for the correspondence model <-> code only"""
    base = gen_box(rng, quick, nrows=rng.choice([0, 1, 2, 3, 6]))
    box = base.pop("box")
    h, a, legends, rows = box["h"], box["a"], box["legends"], box["rows"]
    lines = list(base["lines"])
    head, data = lines[:h + a], lines[h + a:]
    hashes, ats = head[:h], head[h:]
    m = len(legends)
    kind = rng.choice(["hash14", "short_header", "legends11", "dup_legend", "empty_legend", "unquoted_legend", "one_quote",
                       "extra_quotes", "skip_quotes", "ragged", "at_in_data", "blank_lines", "suffix", "blank_in_header",
                       "legend_order", "trailing_at", "wide_first_row", "too_wide_later", "plain_names", "s1_only"])
    case = dict(base)
    case["tag"] = kind
    case["csv"] = rng.random() < 0.3
    if kind == "hash14":
        extra = rng.randint(14 - min(h, 13), 16 - min(h, 13)) if h <= 13 else 1
        hs = hashes + [rng.choice(GMX_HASH + ["# a b c d e f g h i j k l m", "#", "# x"]) for _ in range(max(1, 14 - h) + rng.randint(0, 2))]
        case["lines"] = hs + ats + data
    elif kind == "short_header":
        keep = rng.randint(0, 12)
        hd = (hashes + ats)
        # keep the legend lines, drop others until fewer than 13 header lines remain
        leg = [l for l in hd if _LEG.match(l)]
        oth = [l for l in hd if not _LEG.match(l)]
        while len(leg) + len(oth) > keep and oth:
            oth.pop(rng.randrange(len(oth)))
        hd2 = [l for l in oth if l.startswith("#")] + [l for l in oth if l.startswith("@")] + leg
        case["lines"] = hd2 + data
    elif kind == "legends11":
        extra = rng.randint(1, 2)
        m2 = 10 + extra
        leg = [f'@ s{i} legend "L{i}"' for i in range(m2)]
        hd = [l for l in hashes + ats if not _LEG.match(l)]
        while len(hd) + m2 < 13:
            hd.append("@ filler")
        n = rng.randint(0, 4)
        case["lines"] = hd + leg + [" ".join(_token(rng, "%.6f") for _ in range(m2 + 1)) for _ in range(n)]
        case["col"] = rng.choice(["Time [ps]", "L0", "L9", "L10"])
    elif kind == "dup_legend":
        if m >= 2:
            i, j = rng.sample(range(m), 2)
            ats = [l.replace(f'"{legends[j]}"', f'"{legends[i]}"') if l.startswith(f"@ s{j} legend") else l for l in ats]
        else:
            ats = [l.replace(f'"{legends[0]}"', '"Time [ps]"') if l.startswith("@ s0 legend") else l for l in ats]
        case["lines"] = hashes + ats + data
    elif kind == "empty_legend":
        j = rng.randrange(m)
        ats = [f'@ s{j} legend ""' if l.startswith(f"@ s{j} legend") else l for l in ats]
        case["lines"] = hashes + ats + data
        case["csv"] = True
    elif kind == "unquoted_legend":
        j = rng.randrange(m)
        ats = [f'@ s{j} legend {legends[j]}' if l.startswith(f"@ s{j} legend") else l for l in ats]
        case["lines"] = hashes + ats + data
    elif kind == "one_quote":
        j = rng.randrange(m)
        ats = [f'@ s{j} legend "{legends[j]}' if l.startswith(f"@ s{j} legend") else l for l in ats]
        case["lines"] = hashes + ats + data
    elif kind == "extra_quotes":
        j = rng.randrange(m)
        pre = rng.choice(['"x" ', '"a b"', ''])
        post = rng.choice([' "y"', ' "p q" r', '"', ' ""'])
        ats = [f'@ s{j} legend {pre}"{legends[j]}"{post}' if l.startswith(f"@ s{j} legend") else l for l in ats]
        case["lines"] = hashes + ats + data
    elif kind == "skip_quotes":
        hd = hashes + ats
        for _ in range(rng.randint(1, 3)):
            if not hd:
                break
            k = rng.randrange(min(len(hd), 14))
            l = hd[k]
            if _LEG.match(l):
                continue
            pos = rng.randint(0 if rng.random() < 0.3 else 1, len(l)) if l else 0
            ins = rng.choice(['"', ' "', '" ', ' "x', '""', ' "a" "', '\t"'])
            hd[k] = l[:pos] + ins + l[pos:]
        if rng.random() < 0.2 and hd:
            hd[0] = '"' + hd[0]
        case["lines"] = hd + data
    elif kind == "ragged":
        d2 = []
        for toks in rows:
            k = rng.random()
            if k < 0.4 and len(toks) > 1:
                toks = toks[:rng.randint(1, len(toks) - 1)]
            elif k < 0.5 and d2:
                pass
            d2.append(_data_line(rng, toks, False))
        case["lines"] = hashes + ats + d2
    elif kind == "at_in_data":
        d2 = []
        for toks in rows:
            l = _data_line(rng, toks, False)
            k = rng.random()
            if k < 0.3:
                l = l + rng.choice([" @ c", "@c", " @", '@ "q" ', "\t@ 1 2 3"])
            elif k < 0.45:
                l = rng.choice(["  @ only comment", "\t@", " @ 1 2"])
            elif k < 0.6:
                p = rng.randint(0, len(l))
                l = l[:p] + "@" + l[p:]
            d2.append(l)
        case["lines"] = hashes + ats + d2
    elif kind == "blank_lines":
        d2 = []
        for toks in rows:
            if rng.random() < 0.5:
                d2.append(rng.choice(["", " ", "\t", "   \t "]))
            d2.append(_data_line(rng, toks, False))
        d2.append(rng.choice(["", "  "]))
        case["lines"] = hashes + ats + d2
    elif kind == "suffix":
        case["name"] = rng.choice(["e.txt", "exvg", "e.XVG", "e.xvg.bak", "e", "e.dat", "acsv", "e.xvg "])
        case["csv"] = False
    elif kind == "blank_in_header":
        hd = hashes + ats
        hd.insert(rng.randint(0, len(hd)), rng.choice(["", " "]))
        case["lines"] = hd + data
    elif kind == "legend_order":
        leg = [l for l in ats if _LEG.match(l)]
        oth = [l for l in ats if not _LEG.match(l)]
        rng.shuffle(leg)
        case["lines"] = hashes + oth + leg + data
    elif kind == "trailing_at":
        d2 = list(data)
        for _ in range(rng.randint(1, 3)):
            d2.insert(rng.randint(0, len(d2)), rng.choice(["@ s0 legend \"late\"", "@", "@ comment", "# late hash", "& x", "#"]))
        case["lines"] = hashes + ats + d2
    elif kind == "wide_first_row":
        d2 = []
        for k, toks in enumerate(rows):
            if k == 0:
                toks = toks + [_token(rng, "%.6f") for _ in range(rng.randint(1, 3))]
            elif rng.random() < 0.3:
                toks = toks[:rng.randint(1, len(toks))]
            d2.append(_data_line(rng, toks, False))
        case["lines"] = hashes + ats + d2
    elif kind == "too_wide_later":
        d2 = []
        for k, toks in enumerate(rows):
            if k == len(rows) - 1 and k > 0:
                toks = toks + ["1.0"] * rng.randint(1, 2)
            d2.append(_data_line(rng, toks, False))
        case["lines"] = hashes + ats + d2
    elif kind == "plain_names":
        # request columns that exist / do not exist
        case["col"] = rng.choice(legends + ["Time [ps]", "time [ps]", "Time [ps] ", legends[0] + " "])
    elif kind == "s1_only":
        # legends that do not start at s0 / skip numbers
        shift = rng.randint(1, 3)
        ats = [f"@ s{(int(l[3]) + shift) % 10} legend" + l[11:] if _LEG.match(l) else l for l in ats]
        case["lines"] = hashes + ats + data
    return case


# ------------------------------------------------------------------------------------------------------------------
# generators: grids
# ------------------------------------------------------------------------------------------------------------------
REAL_B = ["zero", "randomQ_1", "randomQ_2", "randomQ_3", "randomQ_4", "randomQ_5", "cube4D_8"]
REAL_O = ["zero", "ico_1", "ico_2", "ico_3", "randomS_4", "ico_5", "cube3D_6", "cube3D_8", "ico_12", "randomS_15"]
REAL_T = ["[1]", "[1,2]", "linspace(0.5,2,3)"]
SAVE = ["save_full_grid", "save_volumes", "save_borders_array", "save_distances_array", "save_adjacency_array"]
LOAD = ["load_full_grid", "load_volumes", "load_borders_array", "load_distances_array", "load_adjacency_array"]
PATHS = ["full_grid.npy", "volumes.npy", "borders_array.npz", "distances_array.npz", "adjacency_array.npz",
         "g", "g.npy", "g.npz", "x", "x.npy", "x.npz", "y.npy.npz", "y.npz.npy", "z.NPY", "npy", ".npz"]


def _history(rng):
    ops = []
    n = rng.randint(3, 14)
    pool = rng.sample(PATHS, rng.randint(2, 6))
    written = []
    if rng.random() < 0.4:
        # overwrite pattern: two writer methods of the same kind on one path, each followed by its reader
        kind = rng.choice([(0, 1), (1, 0), (2, 3), (3, 4), (4, 2), (2, 4)])
        p = rng.choice(pool)
        ext = ".npy" if kind[0] < 2 else ".npz"
        full = p if p.endswith(ext) else p + ext
        for k in kind + ((kind[0],) if rng.random() < 0.5 else ()):
            ops.append([SAVE[k], p])
            ops.append([LOAD[k], full])
            written.append((k, full))
    for _ in range(n):
        if rng.random() < 0.45 or not written:
            k = rng.randrange(5)
            p = rng.choice(pool)
            ext = ".npy" if k < 2 else ".npz"
            written.append((k, p if p.endswith(ext) else p + ext))
            ops.append([SAVE[k], p])
        else:
            k, p = rng.choice(written)
            r = rng.random()
            if r < 0.15:
                p = rng.choice(pool)                      # possibly never written / written without the extension
            if r < 0.75:
                meth = LOAD[k]                            # the matching reader
            else:
                meth = rng.choice(LOAD)                   # any reader (other kind of file, other getter)
            ops.append([meth, p])
    return ops


def gen_grid(rng, real=None):
    if real is not None:
        src = {"real": list(real)}
    else:
        src = {"stub": {"seed": rng.randrange(2 ** 32), "n": rng.choice([0, 1, 2, 3, 5, 8, 13, 40]),
                        "flavour": rng.choice(["like_real", "like_real", "wild", "wild", "noncanonical"])}}
    return {"kind": "grid", "src": src, "ops": _history(rng)}


# ------------------------------------------------------------------------------------------------------------------
# cases
# ------------------------------------------------------------------------------------------------------------------
def cases(ctx):
    rng = ctx.rng
    quick = ctx.quick
    ctx.note("lines contain no CR/LF; blanks are space and tab; files are UTF-8 and end with or without a final newline")
    ctx.note("generated legend texts are non-empty, pairwise different and different from 'Time [ps]' (duplicate and empty texts are "
             "the recorded findings C20:duplicate_legend_texts / C20:csv_empty_legend_renamed, replayed from findings/C20.json)")
    ctx.note("values are arbitrary finite doubles (subnormals, extremes, random bit patterns); tokens in positional notation keep "
             "|value| < 1e18 and integer tokens |value| <= 2^62 (a non-negative positional token with an integer part of 2^64 or more "
             "is read as text: open finding C20:xvg_long_fixed_point_token_read_as_text)")
    ctx.note("every numeric cell must equal float(token) exactly (EnergyReader parses with float_precision='round_trip' since fix "
             "2286dfe), zero keeps its sign, and the csv round trip must be bit-identical; no tolerance anywhere")
    ctx.note("which grid specifications build at all is C19's subject: unbuildable ones are skipped and counted")
    # 1. the whole header box, every (h, m) with the minimal and a larger number of '@' lines
    for h in range(0, 14):
        for m in (range(1, 11) if not quick else (1, 3, 10)):
            need = max(0, 13 - h - m)
            for extra in (need, need + 1, need + 4):
                yield gen_box(rng, quick, h=h, extra=extra, m=m, nrows=rng.choice([1, 2, 4]))
    ctx.extra_cov["header_box"] = ("every h in 0..13 x m in %s x {h+a = max(13, h+m), +1, +4} generated at least once"
                                   % ("1..10" if not quick else "{1,3,10}"))
    # 1b. long headers (still inside the box): header sizes around the powers of two 512 .. 65536
    for c in long_header_cases(rng, quick):
        yield c
    ctx.extra_cov["long_headers"] = ("header sizes p-3 / p+3 for p in {4096, 8192} x {long legend texts, hundreds of '@' lines, 13 long '#' "
                                     "lines, mixed}, one size next to each other power of two 512..65536, plus log-uniform sizes 400..70000"
                                     if quick else
                                     "header sizes p+d, p in {512..65536 powers of two}, d in {-40,-1,0,1,40} x {long legend texts, hundreds of "
                                     "'@' lines, 13 long '#' lines, mixed}, plus 400 log-uniform sizes 400..70000")
    n_box = 700 if quick else 5000
    n_out = 400 if quick else 2500
    for i in range(n_box):
        c = gen_box(rng, quick)
        if len(c["box"]["rows"]) <= 50 and rng.random() < (0.5 if quick else 0.7):
            add_session(rng, c)
        yield c
        if i % 2 == 0 and i // 2 < n_out:
            yield gen_out_of_box(rng, quick)
    # 2. grids
    reals = [(b, o, t) for b in REAL_B for o in REAL_O for t in REAL_T]
    if quick:
        reals = [r for r in reals if r[0] in ("zero", "randomQ_2", "randomQ_3", "randomQ_5")]
        reals = rng.sample(reals, 25)
    else:
        reals += [("cube4D_9", o, t) for o in REAL_O for t in REAL_T] + [("randomQ_12", o, "[1,2]") for o in REAL_O]
    for r in reals:
        yield gen_grid(rng, real=r)
    for _ in range(200 if quick else 1500):
        yield gen_grid(rng)


# ------------------------------------------------------------------------------------------------------------------
# implementation side
# ------------------------------------------------------------------------------------------------------------------
def _cell(x):
    if x is None:
        return None
    if isinstance(x, (bool, np.bool_)):
        return ["b", bool(x)]
    if isinstance(x, (int, np.integer)):
        return ["i", int(x)]
    if isinstance(x, (float, np.floating)):
        x = float(x)
        if x != x:
            return None
        return ["f", x.hex()]
    if isinstance(x, str):
        return ["s", x]
    return ["?", repr(x)]


def _frame(t):
    import pandas as pd
    cols = [t.iloc[:, j].tolist() for j in range(t.shape[1])]
    n = t.shape[0]
    cells = [[_cell(cols[j][r]) for j in range(len(cols))] for r in range(n)]
    idx = t.index
    if isinstance(idx, pd.RangeIndex) and idx.start == 0 and idx.step == 1:
        index = {"range": len(idx)}
    else:
        labs = []
        for lab in idx.tolist():
            labs.append([_cell(v) for v in (lab if isinstance(lab, tuple) else (lab,))])
        index = {"labels": labs}
    return {"names": [c if isinstance(c, str) else ["?", repr(c)] for c in t.columns], "index": index, "cells": cells,
            "dtypes": [str(d) for d in t.dtypes], "shape": list(t.shape)}


def _cellstr(c):
    """the string `to_csv` writes for a cell (float -> repr, NaN -> empty)"""
    if c is None:
        return ""
    if c[0] == "f":
        return repr(float.fromhex(c[1]))
    if c[0] == "i":
        return str(c[1])
    if c[0] == "b":
        return str(c[1])
    return c[1]


def impl_xvg(case):
    from molgri.io import EnergyReader
    d = _fresh_dir()
    try:
        p = os.path.join(d, case.get("name", "e.xvg"))
        lines = case["lines"]
        text = "\n".join(lines) + ("\n" if lines and case.get("nl", True) else "")
        with open(p, "w", encoding="utf-8", newline="\n") as f:
            f.write(text)
        out = {}
        try:
            with core.quiet():
                t = EnergyReader(p).load_energy()
        except Exception as e:
            return {"err": core.errname(e), "msg": str(e)[:200]}
        out["table"] = _frame(t)
        names = set()
        if case.get("col") is not None:
            names.add(case["col"])
        if case.get("box"):
            leg = case["box"]["legends"]
            names.update(["Time [ps]"] + leg[-1:] + leg[:1] + leg[len(leg) // 2:len(leg) // 2 + 1])
        out["cols"] = {}
        for nm in sorted(names):
            try:
                with core.quiet():
                    c = EnergyReader(p).load_single_energy_column(nm)
                if not isinstance(c, np.ndarray) or c.ndim != 1:
                    out["cols"][nm] = {"err": "not-a-1d-array:" + type(c).__name__}
                else:
                    out["cols"][nm] = {"ok": [_cell(v) for v in c.tolist()]}
            except Exception as e:
                out["cols"][nm] = {"err": core.errname(e)}
        if case.get("csv"):
            pc = os.path.join(d, "frame.csv")
            try:
                with core.quiet():
                    t.to_csv(pc)
                    with open(pc, "r", encoding="utf-8", newline="") as f:
                        ctext = f.read()
                    t2 = EnergyReader(pc).load_energy()
                clines = ctext.split("\n")
                if clines and clines[-1] == "":
                    clines.pop()
                out["csv"] = {"lines": clines, "table": _frame(t2), "index_name": None if t2.index.name is None else str(t2.index.name)}
            except Exception as e:
                out["csv"] = {"err": core.errname(e), "msg": str(e)[:200]}
        if case.get("session"):
            out["session"] = _run_session(case, d)
        return out
    finally:
        shutil.rmtree(d, ignore_errors=True)


def _mutate_frame(t, how):
    """what a caller may do to the frame it got back: all in place"""
    try:
        if how == "shift":
            t -= 1.5
        elif how == "sort":
            t.sort_values(by=list(t.columns)[-1], ascending=False, inplace=True)
            t.reset_index(drop=True, inplace=True)
        elif how == "nan":
            t.iloc[:, :] = np.nan
        elif how == "drop":
            t.drop(index=t.index[:1], inplace=True)
            t.rename(columns={list(t.columns)[-1]: "renamed"}, inplace=True)
        elif how == "reverse":
            t.iloc[:, :] = t.iloc[::-1].to_numpy()
    except Exception:
        pass


def _mutate_array(a, how):
    """what a caller may do to the column it got back (`e -= e.min()` before Boltzmann weighting, sorting, masking): in place"""
    try:
        if how == "shift":
            a -= (a.min() - 1)
        elif how == "sort":
            a[::-1].sort()
        elif how == "nan":
            a[:] = np.nan if a.dtype.kind == "f" else 0
        elif how == "reverse":
            a[:] = a[::-1].copy()
    except Exception:
        pass


def _run_session(case, d):
    """one EnergyReader object through case['session']['ops']; every query is recorded together with the version of the file
    that is on disk (and that path_energy points to) at that moment"""
    from molgri.io import EnergyReader
    sess = case["session"]
    versions = [{"lines": case["lines"], "nl": case.get("nl", True)}] + sess["versions"]
    csv = sess["target"] == "csv"

    def write_version(k, path):
        v = versions[k]
        px = os.path.join(d, "version.xvg") if csv else path
        with open(px, "w", encoding="utf-8", newline="\n") as f:
            f.write("\n".join(v["lines"]) + ("\n" if v["lines"] and v.get("nl", True) else ""))
        if csv:
            EnergyReader(px).load_energy().to_csv(path)      # a fresh reader, used once

    paths = [os.path.join(d, "session." + sess["target"]), os.path.join(d, "other_session." + sess["target"])]
    cur, where = 0, 0
    results = []
    try:
        with core.quiet():
            write_version(0, paths[0])
            reader = EnergyReader(paths[0])
            for i, op in enumerate(sess["ops"]):
                if op[0] == "rewrite":
                    cur = op[1]
                    write_version(cur, paths[where])
                elif op[0] == "repoint":
                    cur, where = op[1], 1 - where
                    write_version(cur, paths[where])
                    reader.path_energy = paths[where]
                elif op[0] == "load":
                    try:
                        t = reader.load_energy()
                        results.append({"step": i, "version": cur, "table": _frame(t)})
                        _mutate_frame(t, op[1])
                    except Exception as e:
                        results.append({"step": i, "version": cur, "err": core.errname(e)})
                else:
                    try:
                        a = reader.load_single_energy_column(op[1])
                        results.append({"step": i, "version": cur, "name": op[1], "col": [_cell(v) for v in a.tolist()]})
                        _mutate_array(a, op[2])
                    except Exception as e:
                        results.append({"step": i, "version": cur, "name": op[1], "err": core.errname(e)})
    except Exception as e:
        return {"target": sess["target"], "results": results, "crash": core.errname(e) + ": " + str(e)[:160]}
    return {"target": sess["target"], "results": results}


class StubGrid:
    """stands in for FullGrid: arbitrary arrays / sparse matrices behind the five getters GridWriter calls"""

    def __init__(self, spec):
        from scipy import sparse
        rng = np.random.default_rng(spec["seed"])
        n = spec["n"]
        fl = spec["flavour"]

        def dense(shape, dt):
            a = np.asarray(rng.normal(size=shape) * 10.0 ** rng.integers(-3, 4))
            if dt.startswith("f") or dt.startswith("<f") or dt.startswith(">f"):
                a = a.astype(dt)
                if a.size and rng.random() < 0.4:
                    flat = a.reshape(-1)
                    flat[rng.integers(0, a.size)] = rng.choice([0.0, -0.0, np.inf, -np.inf, np.nan, 5e-324, 1.7976931348623157e308])
                return a
            if dt == "bool":
                return a > 0
            if dt.startswith("c"):
                return (a + 1j * rng.normal(size=shape)).astype(dt)
            return (a * 100).astype(dt)

        def sp(kind):
            if fl == "like_real":
                fmt, arr, dt, canon = "csr", True, "float64", True
            else:
                fmt = str(rng.choice(["csr", "csr", "coo", "csc"]))
                arr = bool(rng.random() < 0.8)
                dt = str(rng.choice(["float64", "float64", "float32", "int64", "bool", "int32"]))
                canon = fl != "noncanonical" and rng.random() < 0.5
            nnz = int(rng.integers(0, 3 * n + 1)) if n else 0
            rows = rng.integers(0, max(n, 1), size=nnz)
            cols = rng.integers(0, max(n, 1), size=nnz)
            data = dense((nnz,), dt)
            if nnz and not canon and rng.random() < 0.5:
                data[rng.integers(0, nnz)] = 0  # explicit zero
            coo_cls = sparse.coo_array if arr else sparse.coo_matrix
            if fmt == "coo":
                m = coo_cls((data, (rows, cols)), shape=(n, n))
                if canon:
                    m.sum_duplicates()
                return m
            # compressed formats with the entries in the drawn (unsorted, possibly repeated) order inside each row / column
            major = rows if fmt == "csr" else cols
            minor = cols if fmt == "csr" else rows
            order = np.argsort(major, kind="stable")
            indptr = np.zeros(n + 1, dtype=np.int32)
            np.add.at(indptr, major + 1, 1)
            indptr = np.cumsum(indptr).astype(np.int32)
            cls = {("csr", True): sparse.csr_array, ("csr", False): sparse.csr_matrix,
                   ("csc", True): sparse.csc_array, ("csc", False): sparse.csc_matrix}[(fmt, arr)]
            m = cls((data[order], minor[order].astype(np.int32), indptr), shape=(n, n))
            if canon:
                m.sum_duplicates()
            return m

        if fl == "like_real":
            self.grid = dense((n, 7), "float64")
            self.vol = [float(v) for v in np.abs(dense((n,), "float64"))]
        else:
            dt = str(rng.choice(["float64", "float64", "float32", "int64", "bool", "complex128", ">f8", "int8"]))
            shapes = [(n, 7), (n,), (n, 3, 2), (7, n), ()]
            shape = shapes[int(rng.integers(0, len(shapes)))]
            self.grid = dense(shape, dt)
            if self.grid.ndim >= 2 and rng.random() < 0.3:
                self.grid = np.asfortranarray(self.grid)
            if self.grid.ndim >= 1 and self.grid.shape[0] > 1 and rng.random() < 0.2:
                self.grid = self.grid[::-1]  # a non-contiguous view
            v = dense((n,), str(rng.choice(["float64", "float32", "int64"])))
            self.vol = v.tolist() if rng.random() < 0.5 else v
        self.b, self.d, self.a = sp("b"), sp("d"), sp("a")

    def get_full_grid_as_array(self):
        return self.grid

    def get_total_volumes(self):
        return self.vol

    def get_full_borders(self):
        return self.b

    def get_full_distances(self):
        return self.d

    def get_full_adjacency(self):
        return self.a


_real_cache = {}


def _writer(src):
    from molgri.io import GridWriter
    if "real" in src:
        key = tuple(src["real"])
        if key not in _real_cache:
            try:
                with core.quiet():
                    gw = GridWriter(*key)
                    for g in GETTERS:
                        getattr(gw.fg, g)()
                _real_cache[key] = gw
            except Exception as e:  # which specifications build is C19's business
                _real_cache[key] = core.errname(e)
        return _real_cache[key]
    # a stub: a GridWriter built by its own constructor on the smallest valid grid (so that everything __init__ sets up exists,
    # on the writer and on its real FullGrid), whose five PUBLIC getters are then replaced by those of the stand-in
    gw = _construct_small_writer()
    stub = StubGrid(src["stub"])
    for g in GETTERS:
        setattr(gw.fg, g, getattr(stub, g))
    return gw


SMALL_SPECS = [("zero", "zero", "[1]"), ("zero", "ico_2", "[1]"), ("randomQ_2", "ico_3", "[1,2]")]


def _construct_small_writer():
    from molgri.io import GridWriter
    last = None
    for spec in SMALL_SPECS:
        try:
            with core.quiet():
                return GridWriter(*spec)
        except Exception as e:      # which specifications build is C19's business; try the next one
            last = e
    raise core.HarnessError(f"no small GridWriter could be constructed for the stub cases: {last!r}")


_PRIVATE_NAME = re.compile(r"(?<![A-Za-z0-9])_[A-Za-z][A-Za-z0-9_]*")
_probe_cache = {}


def _stub_plumbing_failure(e, meth):
    """an exception raised by a writer call on a STUB object that is about the stub, not about the property: AttributeError /
    TypeError naming a private attribute or helper, while the same call on a really constructed, unmodified GridWriter works"""
    if not isinstance(e, (AttributeError, TypeError)) or not _PRIVATE_NAME.search(str(e)):
        return False
    if meth not in _probe_cache:
        d = _fresh_dir()
        try:
            with core.quiet():
                real = _construct_small_writer()
                getattr(real, meth)(os.path.join(d, "probe.npy" if SAVE.index(meth) < 2 else "probe.npz"))
            _probe_cache[meth] = True
        except Exception:
            _probe_cache[meth] = False
        finally:
            shutil.rmtree(d, ignore_errors=True)
    return _probe_cache[meth]


GETTERS = ["get_full_grid_as_array", "get_total_volumes", "get_full_borders", "get_full_distances", "get_full_adjacency"]
_STORAGE = {"csr": ("data", "indices", "indptr"), "csc": ("data", "indices", "indptr"), "coo": ("data", "row", "col"),
            "bsr": ("data", "indices", "indptr"), "dia": ("data", "offsets")}


def _sig(x):
    """everything the property speaks about: class, format, shape, dtype, storage arrays in storage order (bitwise)"""
    from scipy import sparse
    if sparse.issparse(x):
        parts = [("class", type(x).__name__), ("format", x.format), ("shape", tuple(int(v) for v in x.shape)), ("dtype", x.dtype.str)]
        for nm in _STORAGE.get(x.format, ()):
            arr = np.asarray(getattr(x, nm))
            if nm == "data":
                parts.append((nm, arr.dtype.str, arr.shape, arr.tobytes()))
            else:
                parts.append((nm, tuple(int(v) for v in arr.reshape(-1))))
        return tuple(parts)
    if isinstance(x, np.ndarray):
        return (("class", type(x).__name__), ("shape", x.shape), ("dtype", x.dtype.str), ("bytes", x.tobytes()))
    return (("class", type(x).__name__), ("repr", repr(x)[:200]))


def _describe(sig):
    return [[p[0]] + [str(v)[:120] if not isinstance(v, bytes) else "bytes:" + v.hex()[:64] for v in p[1:]] for p in sig]


def _diff(a, b):
    for pa, pb in zip(a, b):
        if pa != pb:
            return f"{pa[0]}: written {str(pa[1:])[:160]} / read {str(pb[1:])[:160]}"
    return None if len(a) == len(b) else "different structure"


def _npz_sig(z):
    """an NpzFile (np.load of a sparse archive): identify the matrix it holds"""
    try:
        keys = set(z.files)
        fmt = z["format"].item()
        fmt = fmt.decode() if isinstance(fmt, bytes) else str(fmt)
        parts = [("format", fmt), ("shape", tuple(int(v) for v in z["shape"]))]
        for nm in _STORAGE.get(fmt, ()):
            arr = z[nm]
            parts.append((nm, arr.dtype.str, arr.tobytes()) if nm == "data" else (nm, tuple(int(v) for v in arr.reshape(-1))))
        return tuple(parts), keys
    finally:
        z.close()


def _sparse_as_npz_sig(x):
    parts = [("format", x.format), ("shape", tuple(int(v) for v in x.shape))]
    for nm in _STORAGE.get(x.format, ()):
        arr = np.asarray(getattr(x, nm))
        parts.append((nm, arr.dtype.str, arr.tobytes()) if nm == "data" else (nm, tuple(int(v) for v in arr.reshape(-1))))
    return tuple(parts)


def _mutate_loaded(x, salt=0):
    """what a caller may do to an object GridReader handed out (rescale borders, convert units of the grid columns, mask
    entries): everything in place.  returns True if something was changed"""
    from scipy import sparse
    try:
        if isinstance(x, np.lib.npyio.NpzFile):
            return False
        if sparse.issparse(x):
            d = x.data
            if d.size == 0:
                return False
            if d.dtype.kind == "b":
                d[:] = ~d
            elif salt % 2:
                d *= 2
                d += 1
            else:
                d[:] = 0
                d[: max(1, d.size // 2)] = 3
            for nm in ("indices", "row", "col"):
                arr = getattr(x, nm, None)
                if arr is not None and arr.size > 1:
                    arr[:] = arr[::-1].copy()
                    break
            return True
        if isinstance(x, np.ndarray):
            if x.size == 0 or not x.flags.writeable:
                return False
            if x.dtype.kind == "b":
                x[...] = ~x
            elif x.ndim == 0:
                x[...] = x + 1
            elif x.ndim >= 2 and salt % 2:
                x[..., :1] *= 10          # one column (nm -> angstrom)
                x[:1] = 0
                x[..., -1:] += 1
            else:
                x *= 2
                x += 1
            return True
    except Exception:
        return False
    return False


def _reread_after_mutation(load_name, path, got, want_sig, gr, kind, salt):
    """modify the object a loader returned, then read the unchanged file again with the same and with a new GridReader;
    both must equal what the writer wrote (signature taken from the writer's in-memory value) and a raw numpy / scipy read"""
    from molgri.io import GridReader
    from scipy import sparse
    if not _mutate_loaded(got, salt):
        return None
    raw = _sig(np.load(path) if kind < 2 else sparse.load_npz(path))
    for who, reader in (("the same GridReader", gr), ("a new GridReader", GridReader())):
        again = getattr(reader, load_name)(path)
        df = _diff(want_sig, _sig(again))
        if df:
            return f"after the caller modified the returned object in place, {who} reads the unchanged file differently: {df}"
        if _sig(again) != raw:
            return f"{who} and a raw numpy/scipy read of the same file differ: {_diff(raw, _sig(again))}"
        _mutate_loaded(again, salt + 1)
    return None


def impl_grid(case):
    from molgri.io import GridReader
    gw = _writer(case["src"])
    if isinstance(gw, str):
        return {"unbuildable": gw}
    with core.quiet():
        vals = [getattr(gw.fg, g)() for g in GETTERS]
    vals[0] = np.asanyarray(vals[0])
    vals[1] = np.asanyarray(vals[1])          # np.save stores asanyarray of the list of volumes
    sigs = [_sig(v) for v in vals]
    out = {"getter_sigs_distinct": len(set(sigs)) == 5, "sizes": [int(np.size(vals[0])), int(vals[2].nnz)]}
    # --- S: the statement, directly: each writer method, then its reader, in one directory with all five files present
    d = _fresh_dir()
    problems = []
    try:
        gr = GridReader()
        names = ["full_grid.npy", "volumes.npy", "borders_array.npz", "distances_array.npz", "adjacency_array.npz"]
        # a second, different grid overwrites the same five files in round 1 and is read through the same reader object
        seed2 = int(hashlib.sha256(repr(sorted(case["src"].items())).encode()).hexdigest()[:8], 16)
        gw2 = _writer({"stub": {"seed": seed2, "n": 4 + seed2 % 5, "flavour": "wild" if seed2 % 2 else "like_real"}})
        vals2 = [np.asanyarray(gw2.fg.get_full_grid_as_array()), np.asanyarray(gw2.fg.get_total_volumes()),
                 gw2.fg.get_full_borders(), gw2.fg.get_full_distances(), gw2.fg.get_full_adjacency()]
        sigs2 = [_sig(v) for v in vals2]
        is_stub = "stub" in case["src"]
        for rnd, (w, ss) in enumerate(((gw, sigs), (gw2, sigs2), (gw, sigs))):
            k = 0
            try:
                with core.quiet():
                    for k in range(5):
                        getattr(w, SAVE[k])(os.path.join(d, names[k]))
            except Exception as e:
                if (is_stub or rnd == 1) and _stub_plumbing_failure(e, SAVE[k]):
                    out.setdefault("stub_incompatible", []).append(f"round {rnd} {SAVE[k]}: {core.errname(e)}: {str(e)[:160]}")
                else:
                    problems.append({"method": "exception", "round": rnd, "diff": SAVE[k] + " raised " + core.errname(e) + ": " + str(e)[:160]})
                continue        # the next round writes all five files again with its own writer
            try:
                with core.quiet():
                    order = range(5) if rnd != 1 else reversed(range(5))
                    for k in order:
                        got = getattr(gr, LOAD[k])(os.path.join(d, names[k]))
                        df = _diff(ss[k], _sig(got))
                        if df:
                            problems.append({"method": SAVE[k], "round": rnd, "diff": df})
                            continue
                        df = _reread_after_mutation(LOAD[k], os.path.join(d, names[k]), got, ss[k], gr, k, rnd + k)
                        if df:
                            problems.append({"method": SAVE[k], "round": rnd, "diff": df, "reread": True})
            except Exception as e:
                problems.append({"method": "exception", "round": rnd, "diff": core.errname(e) + ": " + str(e)[:160]})
        out["roundtrip"] = problems
    finally:
        shutil.rmtree(d, ignore_errors=True)
    # --- C (+ S along the history): a history of calls on colliding paths
    d = _fresh_dir()
    answers, hist_problems = [], []
    try:
        gr = GridReader()
        for step, (meth, rel) in enumerate(case["ops"]):
            path = os.path.join(d, rel)
            if meth in SAVE:
                before = {f: os.stat(os.path.join(d, f)).st_mtime_ns for f in os.listdir(d)}
                try:
                    with core.quiet():
                        getattr(gw, meth)(path)
                except Exception as e:
                    if "stub" in case["src"] and _stub_plumbing_failure(e, meth):
                        out.setdefault("stub_incompatible", []).append(f"history step {step} {meth}: {core.errname(e)}: {str(e)[:160]}")
                        out["history_aborted"] = True
                        break
                    hist_problems.append({"step": step, "method": meth, "diff": "writer raised " + core.errname(e)})
                    continue
                # S along the history: the file just written, read with the matching reader
                k = SAVE.index(meth)
                ext = ".npy" if k < 2 else ".npz"
                written = path if path.endswith(ext) else path + ext
                if not os.path.exists(written):
                    hist_problems.append({"step": step, "method": meth, "diff": f"no file {os.path.basename(written)} after the call"})
                    continue
                try:
                    with core.quiet():
                        got = getattr(gr, LOAD[k])(written)
                    df = _diff(sigs[k], _sig(got))
                    if df:
                        hist_problems.append({"step": step, "method": meth, "diff": df})
                    _mutate_loaded(got, step)          # the caller works on what it got
                except Exception as e:
                    hist_problems.append({"step": step, "method": meth, "diff": "reader raised " + core.errname(e)})
            else:
                try:
                    with core.quiet():
                        got = getattr(gr, meth)(path)
                    if isinstance(got, np.lib.npyio.NpzFile):
                        s, _keys = _npz_sig(got)
                        ids = [i for i in (2, 3, 4) if _sparse_as_npz_sig(vals[i]) == s]
                        answers.append({"ok": {"npzfile": ids}})
                    else:
                        s = _sig(got)
                        ids = [i for i in range(5) if sigs[i] == s]
                        answers.append({"ok": {("array" if isinstance(got, np.ndarray) else "sparse"): ids}})
                        _mutate_loaded(got, step)      # the caller works on what it got
                except Exception as e:
                    answers.append({"err": core.errname(e)})
        out["answers"] = answers
        out["history_problems"] = hist_problems
    finally:
        shutil.rmtree(d, ignore_errors=True)
    return out


def impl(case):
    if case["kind"] == "xvg":
        return impl_xvg(case)
    return impl_grid(case)


# ------------------------------------------------------------------------------------------------------------------
# model side
# ------------------------------------------------------------------------------------------------------------------
def model_ops(case, out):
    if case["kind"] == "grid":
        return [{"op": "grid", "ops": case["ops"]}]
    ops = [{"op": "energy", "path": case.get("name", "e.xvg"), "lines": case["lines"], "col": case.get("col")}]
    csv = out.get("csv") if isinstance(out, dict) else None
    if csv and "lines" in csv and "table" in out and out["table"]["index"].get("range") is not None:
        t = out["table"]
        ops.append({"op": "csvwrite", "names": t["names"], "rows": [[_cellstr(c) for c in row] for row in t["cells"]]})
        ops.append({"op": "energy", "path": "frame.csv", "lines": csv["lines"], "col": None})
    sess = out.get("session") if isinstance(out, dict) else None
    if sess and sess["target"] == "xvg":
        for v in case["session"]["versions"]:
            ops.append({"op": "energy", "path": "session.xvg", "lines": v["lines"], "col": None})
    return ops


_NUM = re.compile(r"^([+-]?)(\d*)(?:\.(\d*))?(?:[eE]([+-]?\d+))?$")


def _is_num(tok):
    try:
        float(tok)
        return bool(_NUM.match(tok))
    except ValueError:
        return False


def cell_matches(tok, c, sign=False):
    """does the implementation's cell `c` (canonical) hold the token `tok` (None = missing)?  returns (ok, exact).
    sign=True (oracle, files inside the box): a float zero must also carry the sign of the token; outside the box pandas
    itself drops it (integer column cast to float because of a missing cell, index labels)"""
    if tok is None or tok in _NA:
        return c is None, True
    if c is None:
        return False, True
    if c[0] == "s":
        return c[1] == tok, True
    if c[0] == "i":
        try:
            return int(tok) == c[1], True
        except ValueError:
            try:
                return float(tok) == c[1], True
            except ValueError:
                return False, True
    if c[0] == "f":
        try:
            v = float(tok)
        except ValueError:
            return False, True
        x = float.fromhex(c[1])
        if not _is_num(tok):
            return (x == v) or (x != x and v != v), True
        # exact: the reader parses with float_precision="round_trip" (correctly rounded, like Python's float); -0 stays -0
        return x == v and (not sign or math.copysign(1.0, x) == math.copysign(1.0, v)), True
    return False, True


def _cmp_xvg_frame(ctx, case, t, mt, pre="load_energy"):
    """a frame returned by the implementation against the model's Table; returns the number of implicit index columns, or
    None after reporting a disagreement"""
    if t["names"] != mt["names"]:
        ctx.corr(pre + "/column names", case, t["names"], mt["names"])
        return None
    lead = mt["lead"]
    if len(t["cells"]) != len(mt["rows"]):
        ctx.corr(pre + "/number of rows", case, len(t["cells"]), len(mt["rows"]))
        return None
    # index
    if lead == 0:
        if t["index"] != {"range": len(mt["rows"])}:
            ctx.corr(pre + "/index", case, t["index"], {"range": len(mt["rows"])})
            return None
    else:
        labs = t["index"].get("labels")
        if labs is None or len(labs) != len(mt["rows"]):
            ctx.corr(pre + "/implicit index", case, t["index"], {"lead": lead})
            return None
        for r, (lab, row) in enumerate(zip(labs, mt["rows"])):
            if len(lab) != lead or not all(cell_matches(tok, c)[0] for tok, c in zip(row[:lead], lab)):
                ctx.corr(pre + "/implicit index labels", case, {"row": r, "labels": lab}, row[:lead])
                return None
        ctx.branch("xvg:implicit_index")
    for r, (irow, mrow) in enumerate(zip(t["cells"], mt["rows"])):
        mrow = mrow[lead:]
        if len(irow) != len(mrow):
            ctx.corr(pre + "/row width", case, {"row": r, "cells": irow}, mrow)
            return None
        for j, (c, tok) in enumerate(zip(irow, mrow)):
            ok, exact = cell_matches(tok, c)
            if not ok:
                ctx.corr(pre + "/cell", case, {"row": r, "col": j, "cell": c}, tok)
                return None
            if not exact:   # cannot happen any more: every comparison is exact
                ctx.branch("xvg:cell_compared_with_tolerance")
    return lead


def compare(ctx, case, out, mouts):
    if case["kind"] == "grid":
        return compare_grid(ctx, case, out, mouts)
    m = mouts[0]
    tag = case.get("tag", "?")
    ctx.branch("xvg:" + tag)
    if "err" in m and m["err"] == "OutOfModel":
        ctx.branch("xvg:out_of_model(quoted data field / csv reader on a non-csv file)")
        return
    if "err" in out or "err" in m:
        if out.get("err") != m.get("err"):
            ctx.corr("load_energy/outcome", case, out, m)
        ctx.branch("xvg:error:" + str(out.get("err")))
        return
    t, mt = out["table"], m["ok"]
    if mt.get("kind") == "csv":       # a file name ending in "csv": the csv reader is applied to whatever the file contains
        if _cmp_csv(ctx, case, t, mt):
            ctx.branch("xvg:read_as_csv_agrees")
        return
    if mt.get("kind") != "xvg":
        ctx.corr("load_energy/branch", case, "xvg table", mt.get("kind"))
        return
    lead = _cmp_xvg_frame(ctx, case, t, mt)
    if lead is None:
        return
    # load_single_energy_column
    col = case.get("col")
    if col is not None:
        ic, mc = out["cols"].get(col), mt.get("col")
        if ic is None or mc is None:
            ctx.corr("load_single_energy_column/missing", case, ic, mc)
        elif "err" in ic or "err" in mc:
            if ic.get("err") != mc.get("err"):
                ctx.corr("load_single_energy_column/outcome", case, ic, mc)
            ctx.branch("col:error:" + str(ic.get("err")))
        else:
            if len(ic["ok"]) != len(mc["ok"]) or not all(cell_matches(tok, c)[0] for tok, c in zip(mc["ok"], ic["ok"])):
                ctx.corr("load_single_energy_column/values", case, ic["ok"], mc["ok"])
    # csv
    csv = out.get("csv")
    sess = out.get("session")
    nsess = len(case["session"]["versions"]) if sess and sess["target"] == "xvg" else 0
    if csv and len(mouts) - nsess == 3:
        if "err" in csv:
            ctx.branch("csv:impl_error:" + csv["err"])
        else:
            mw, mr = mouts[1], mouts[2]
            if "ok" in mw and mw["ok"] != csv["lines"]:
                k = next((i for i, (a, b) in enumerate(zip(mw["ok"], csv["lines"])) if a != b), min(len(mw["ok"]), len(csv["lines"])))
                ctx.corr("to_csv/lines", case, {"line": k, "text": csv["lines"][k:k + 1]}, mw["ok"][k:k + 1])
            if "err" in mr:
                if mr["err"] == "OutOfModel":
                    ctx.branch("csv:out_of_model(empty/duplicate label, ragged)")
                else:
                    ctx.corr("read_csv/outcome", case, csv["table"]["shape"], mr)
            elif _cmp_csv(ctx, case, csv["table"], mr["ok"]):
                ctx.branch("csv:model_agrees")
    # one reader object, many questions: every answer against the model's table of the file as it is at that moment
    if nsess:
        tables = [mt] + [mo.get("ok") for mo in mouts[len(mouts) - nsess:]]
        for res in sess["results"]:
            mtk = tables[res["version"]]
            if mtk is None or mtk.get("kind") != "xvg":
                ctx.corr("reader history/model", case, res.get("err"), mtk)
                break
            if "err" in res:
                if not ("name" in res and res["name"] not in mtk["names"] and res["err"] == "KeyError"):
                    ctx.corr("reader history/outcome", case, res, "ok")
                    break
            elif "table" in res:
                if _cmp_xvg_frame(ctx, case, res["table"], mtk, pre=f"reader history step {res['step']} load_energy") is None:
                    break
            else:
                jn = mtk["names"].index(res["name"]) if res["name"] in mtk["names"] else None
                want = None if jn is None else [row[mtk["lead"] + jn] for row in mtk["rows"]]
                if want is None or len(want) != len(res["col"]) or not all(cell_matches(tok, c)[0] for tok, c in zip(want, res["col"])):
                    ctx.corr(f"reader history step {res['step']} load_single_energy_column", case, res["col"], want)
                    break
        else:
            ctx.branch("session:model_agrees")
    # evidence
    n = len(t["cells"])
    if n and lead == 0 and all(c is not None for row in t["cells"] for c in row):
        ctx.nt(("xvg", "\n".join(case["lines"]), case.get("nl", True)))
    b = case.get("box")
    if case.get("long"):
        lg = case["long"]
        ctx.branch("longhdr:mode=" + lg["mode"])
        ctx.branch("longhdr:chars<=%d" % next((p for p in HDR_POWERS + [1 << 20] if lg["chars"] <= p)))
        ctx.branch("longhdr:legend_chars_max<=%d" % next(p for p in (16, 64, 256, 1024, 4096) if max(map(len, b["legends"])) <= p))
        ctx.branch("longhdr:at_lines<=%d" % next(p for p in (16, 64, 256, 1024, 4096) if b["a"] <= p))
    if b:
        ctx.branch(f"box:h={b['h']}")
        ctx.branch(f"box:legends={len(b['legends'])}")
        ctx.branch("box:h+a=13" if b["h"] + b["a"] == 13 else "box:h+a>13")
        ctx.branch("box:rows=" + ("0" if n == 0 else "1" if n == 1 else "2-9" if n < 10 else "10-99" if n < 100 else "100+"))
        if n and b["h"] + b["a"] == 13 and len(ctx.samples) < 3:
            ctx.sample({k: case[k] for k in ("lines", "col")})


def _cmp_csv(ctx, case, ct, mt2):
    """frame read by `read_csv(index_col=0)` against the model's CsvTable"""
    if mt2.get("kind") != "csv" or ct["names"] != mt2["names"]:
        ctx.corr("read_csv/column names", case, ct["names"], mt2.get("names"))
        return False
    if len(ct["cells"]) != len(mt2["rows"]):
        ctx.corr("read_csv/number of rows", case, len(ct["cells"]), len(mt2["rows"]))
        return False
    labs = ct["index"].get("labels") or [[["i", k]] for k in range(ct["index"].get("range", 0))]
    for r, (irow, mrow) in enumerate(zip(ct["cells"], mt2["rows"])):
        if len(labs[r]) != 1 or not cell_matches(mt2["index"][r], labs[r][0])[0]:
            ctx.corr("read_csv/index label", case, {"row": r, "label": labs[r]}, mt2["index"][r])
            return False
        if len(irow) != len(mrow) or not all(cell_matches(tok, c)[0] for tok, c in zip(mrow, irow)):
            ctx.corr("read_csv/cells", case, {"row": r, "cells": irow}, mrow)
            return False
    return True


_noted_stub = False


def compare_grid(ctx, case, out, mouts):
    m = mouts[0]
    if "unbuildable" in out:
        ctx.branch("grid:unbuildable:" + out["unbuildable"])
        return
    src = "real" if "real" in case["src"] else "stub:" + case["src"]["stub"]["flavour"]
    ctx.branch("grid:" + src)
    if out.get("stub_incompatible"):
        global _noted_stub
        ctx.branch("stub_incompatible", len(out["stub_incompatible"]))
        if not _noted_stub:
            _noted_stub = True
            msg = ("a writer call on a synthetic (stub) GridWriter failed on a private attribute / helper although the same call on a "
                   "really constructed GridWriter works; such cases are counted as stub_incompatible and are neither a failing input "
                   "nor a correspondence break (all checks on really constructed objects stay as they are). first: "
                   + out["stub_incompatible"][0])
            ctx.note(msg)
            print("NOTE: property=C20 " + msg)
    if out.get("history_aborted"):
        return
    if "err" in m:
        ctx.corr("grid history/model error", case, out.get("answers"), m)
        return
    ia, ma = out["answers"], m["ok"]
    if len(ia) != len(ma):
        ctx.corr("grid history/number of answers", case, ia, ma)
        return
    good = 0
    for k, (a, b) in enumerate(zip(ia, ma)):
        if "err" in a or "err" in b:
            if a.get("err") != b.get("err"):
                ctx.corr("grid history/load outcome", case, {"answer": k, "impl": a}, b)
                return
            ctx.branch("grid:load_error:" + str(a.get("err")))
            continue
        (kind, ids), = a["ok"].items()
        (mkind, mid), = b["ok"].items()
        if kind != mkind or mid not in ids:
            ctx.corr("grid history/which value is read", case, {"answer": k, "impl": a}, b)
            return
        good += 1
        ctx.branch("grid:load_ok:" + kind)
    if good and out.get("getter_sigs_distinct"):
        ctx.nt(("grid", str(case["src"]), str(case["ops"])))
    if "real" in case["src"]:
        ctx.branch("grid:real_cells=%d" % (out["sizes"][0] // 7))
        if len(ctx.samples) < 5:
            ctx.sample(case)


# ------------------------------------------------------------------------------------------------------------------
# failing-input search: the statement of C20 on the implementation
# ------------------------------------------------------------------------------------------------------------------
def _table_problem(names, rows, t, label_index=False):
    """the statement of C20 for one returned frame: `names` = 'Time [ps]' ++ legends, `rows` = the tokens of the data lines.
    returns None or (key, what, expected, observed).  label_index: a frame read from csv carries the labels 0..n-1 as Index"""
    if t["names"] != names:
        return ("xvg_columns", "columns are not 'Time [ps]' followed by the legends in legend order", names, t["names"])
    if t["shape"] != [len(rows), len(names)] or len(t["cells"]) != len(rows):
        return ("xvg_row_count", "not one row per data line", [len(rows), len(names)], t["shape"])
    idx_ok = t["index"] == {"range": len(rows)}
    if not idx_ok and label_index and t["index"].get("labels") is not None:
        idx_ok = [l for l in t["index"]["labels"]] == [[["i", k]] for k in range(len(rows))]
    if not idx_ok:
        return ("xvg_index", "rows are not labelled 0..n-1 (a data column was taken as index)", {"range": len(rows)}, t["index"])
    for r, (toks, cells) in enumerate(zip(rows, t["cells"])):
        for j, (tok, c) in enumerate(zip(toks, cells)):
            ok, _ = cell_matches(tok, c, sign=True)
            mm = re.match(r"^\+?(\d{20,})(\.\d*)?$", tok)
            if ok and c is not None and c[0] == "s" and mm and int(mm.group(1)) >= 2 ** 64:
                return ("xvg_long_fixed_point_token_read_as_text", f"row {r}, column {names[j]!r}: a non-negative number written in "
                        "positional notation with an integer part of 2^64 or more is returned as text", float(tok), c)
            if not ok or c is None or c[0] not in ("f", "i"):
                return ("xvg_cell", f"row {r}, column {names[j]!r}: value differs from the number written in data line {r}", tok, c)
    return None


def _col_problem(rows, j, nm, cells):
    if len(cells) != len(rows) or not all(cell_matches(rows[r][j], cells[r], sign=True)[0] for r in range(len(rows))):
        return ("single_column_order", f"load_single_energy_column({nm!r}) is not column {j} in row order",
                [rows[r][j] for r in range(len(rows))], cells)
    return None


def _session_oracle(ctx, case, out, names):
    """S for histories on one reader object: after every step the answer must be what the file says *now*"""
    sess = out.get("session")
    if not sess:
        return False
    spec = case["session"]
    vrows = [case["box"]["rows"]] + [v["rows"] for v in spec["versions"]]
    if "crash" in sess:
        ctx.fail("C20:reader_history_exception", "the history on one EnergyReader crashed: " + sess["crash"], case, None, sess["crash"])
        return True
    ops = spec["ops"]
    for res in sess["results"]:
        i = res["step"]
        rows = vrows[res["version"]]
        before = "; ".join("%s(%s)" % (o[0], ", ".join(map(str, o[1:]))) for o in ops[:i]) or "nothing"
        ctxt = (f"one EnergyReader on a {sess['target']} file, step {i} {ops[i][0]}({ops[i][1]!r}) after [{before}] "
                f"(each returned object modified in place as named; the file now holds version {res['version']} with {len(rows)} data lines): ")
        if "err" in res:
            if "name" in res and res["name"] not in names and res["err"] == "KeyError":
                continue
            ctx.fail("C20:reader_history_exception", ctxt + "raised " + res["err"], case, "an answer", res["err"])
            return True
        if "table" in res:
            prob = _table_problem(names, rows, res["table"], label_index=sess["target"] == "csv")
        else:
            if res["name"] not in names:
                prob = ("single_column_order", "a column that is not in the file was returned", "KeyError", res["col"])
            else:
                prob = _col_problem(rows, names.index(res["name"]), res["name"], res["col"])
        if prob:
            ctx.fail("C20:reader_history:" + prob[0], ctxt + prob[1], case, prob[2], prob[3])
            return True
    ctx.branch("session:oracle_ok:" + sess["target"])
    ctx.branch("session:queries", len(sess["results"]))
    return False


def oracle(ctx, case, out):
    if case["kind"] == "grid":
        if "unbuildable" in out:
            return
        for p in out.get("roundtrip", [])[:1]:
            if p.get("reread"):
                ctx.fail("C20:grid_reread_after_mutation:" + p["method"], f"file written by {p['method']}: {p['diff']}",
                         case, "identical to what the writer wrote", p)
            else:
                ctx.fail("C20:grid_roundtrip:" + p["method"], f"{p['method']} then its reader does not return the written value: {p['diff']}",
                         case, "identical class/format/shape/dtype/storage arrays", p)
        for p in out.get("history_problems", [])[:1]:
            ctx.fail("C20:grid_history:" + p["method"], f"step {p['step']} ({p['method']}): file read back differs from what was written: {p['diff']}",
                     case, "identical", p)
        return
    b = case.get("box")
    if not b:
        ctx.branch("oracle:excluded(out of the property's box)")
        return
    legends, rows = b["legends"], b["rows"]
    names = ["Time [ps]"] + legends
    dup = len(set(names)) != len(names)
    if "err" in out:
        if dup and out["err"] == "ValueError":
            ctx.fail("C20:duplicate_legend_texts", "two series carry the same legend text (or 'Time [ps]'): load_energy raises ValueError "
                     "(pandas: Duplicate names are not allowed)", case, names, out)
        else:
            ctx.fail("C20:xvg_exception", f"load_energy raised {out['err']} on a file inside the box", case, names, out)
        return
    t = out["table"]
    prob = _table_problem(names, rows, t)
    if prob:
        ctx.fail("C20:" + prob[0], prob[1], case, prob[2], prob[3])
        return
    for j, nm in enumerate(names):
        got = out["cols"].get(nm)
        want = [cells[j] for cells in t["cells"]]
        if got is None and nm != case.get("col"):
            continue          # time column, first, middle and last legend and the requested one are read per file
        if got is None or "err" in got:
            ctx.fail("C20:single_column_exception", f"load_single_energy_column({nm!r}) failed", case, "column", got)
            return
        prob = _col_problem(rows, j, nm, got["ok"])
        if prob:
            ctx.fail("C20:" + prob[0], prob[1], case, prob[2], prob[3])
            return
        if [(_numval(a)) for a in got["ok"]] != [(_numval(a)) for a in want]:
            ctx.fail("C20:single_column_vs_table", f"load_single_energy_column({nm!r}) differs from the table's column", case, want, got["ok"])
            return
    if _session_oracle(ctx, case, out, names):
        return
    csv = out.get("csv")
    if csv is None:
        return
    if "err" in csv:
        ctx.fail("C20:csv_exception", f"writing/reading the csv raised {csv['err']}", case, None, csv)
        return
    ct = csv["table"]
    if ct["names"] != t["names"]:
        if "" in legends and [n for n in ct["names"] if not n.startswith("Unnamed: ")] == [n for n in t["names"] if n != ""]:
            ctx.fail("C20:csv_empty_legend_renamed", "an empty legend text comes back from csv as 'Unnamed: k'", case, t["names"], ct["names"])
        else:
            ctx.fail("C20:csv_columns", "csv round trip changes the column names", case, t["names"], ct["names"])
        return
    if ct["shape"] != t["shape"]:
        ctx.fail("C20:csv_shape", "csv round trip changes the shape", case, t["shape"], ct["shape"])
        return
    labs = ct["index"].get("labels")
    idx = list(range(ct["index"]["range"])) if labs is None else [l[0][1] if len(l) == 1 and l[0] and l[0][0] == "i" else l for l in labs]
    if idx != list(range(len(rows))) or csv.get("index_name") is not None:
        ctx.fail("C20:csv_index", "csv round trip changes the row labels", case, list(range(len(rows))), idx)
        return
    if rows and ct["dtypes"] != t["dtypes"]:
        ctx.fail("C20:csv_dtypes", "csv round trip changes the column dtypes", case, t["dtypes"], ct["dtypes"])
        return
    for r, (a_row, b_row) in enumerate(zip(t["cells"], ct["cells"])):
        for j, (a, c) in enumerate(zip(a_row, b_row)):
            if a == c:          # canonical cells: floats as hex strings, so this is bit identity (sign of zero included)
                continue
            ctx.fail("C20:csv_value", f"csv round trip changes the value in row {r}, column {names[j]!r} (written as {_cellstr(a)})",
                     case, a, c)
            return
    ctx.branch("oracle:box_ok")


def _numval(c):
    if c is None:
        return None
    if c[0] == "f":
        return float.fromhex(c[1])
    return c[1]
