#!/usr/bin/env python3
"""
Run the registered checks against the behaviour-preserving refactorings kept under /verif/refactors/<id>/
(patch.diff + meta.json {"properties": [...]}): every listed check must exit 0 with no VIOLATION line
(a check that raises an alarm on code where the property holds is broken).

    python3 harness/refactors.py [--tier quick] [id ...]
"""
import argparse, json, os, shutil, subprocess, sys
from pathlib import Path

VERIF = Path(__file__).resolve().parent.parent
REF = VERIF / "refactors"
PY = "/venv/bin/python"


def main():
    ap = argparse.ArgumentParser()
    ap.add_argument("ids", nargs="*")
    ap.add_argument("--tier", default="quick")
    a = ap.parse_args()
    ids = a.ids or sorted(p.name for p in REF.iterdir() if (p / "patch.diff").exists())
    allok = True
    for rid in ids:
        d = REF / rid
        meta = json.loads((d / "meta.json").read_text())
        tag = f"{rid}_{os.getpid()}"      # unique per run: several runs may go on in parallel
        tmp = Path(f"/tmp/refrun_{tag}")
        subprocess.run(["git", "-C", "/repo", "worktree", "remove", "--force", str(tmp)], capture_output=True)
        subprocess.run(["git", "-C", "/repo", "worktree", "add", "-q", "--detach", str(tmp), "HEAD"], check=True)
        try:
            subprocess.run(["git", "-C", str(tmp), "apply", str(d / "patch.diff")], check=True)
            env = dict(os.environ, MOLGRI_REPO=str(tmp), VERIF_EVIDENCE_DIR=f"/tmp/refrun_{tag}_ev", VERIF_REPLAY_DIR=f"/tmp/refrun_{tag}_rp")
            for prop in meta["properties"]:
                r = subprocess.run([PY, "harness/run.py", prop, "--tier", a.tier], cwd=VERIF, env=env, capture_output=True, text=True)
                vio = [l for l in r.stdout.splitlines() if l.startswith("VIOLATION")]
                ok = r.returncode == 0 and not vio
                allok &= ok
                print(f"{rid:14s} {prop} rc={r.returncode} {'quiet' if ok else 'ALARM'} {vio[0] if vio else ''}")
                if not ok:
                    rp = Path(f"/tmp/refrun_{tag}_rp/{prop}_{a.tier}_0.json")
                    if rp.exists():
                        rep = json.loads(rp.read_text())
                        print("    ", json.dumps(rep.get("failing_inputs", [])[:1] or rep.get("broken", [])[:1], default=str)[:1500])
        finally:
            subprocess.run(["git", "-C", "/repo", "worktree", "remove", "--force", str(tmp)], capture_output=True)
            shutil.rmtree(f"/tmp/refrun_{tag}_ev", ignore_errors=True)
            shutil.rmtree(f"/tmp/refrun_{tag}_rp", ignore_errors=True)
    return 0 if allok else 1


if __name__ == "__main__":
    sys.exit(main())
