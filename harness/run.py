#!/venv/bin/python
"""
Entry point of every check:   /venv/bin/python harness/run.py C12 --tier quick
                              /venv/bin/python harness/run.py C12 --replay replays/C12_quick_0.json

A property module (harness/props/cXX.py) provides
    RULE            text: how cases are generated and what makes one distinct / non-trivial
    cases(ctx)      generator of JSON-serialisable cases (corpus first, then generated; must honour ctx.tier, ctx.rng)
    impl(case)      run the IMPLEMENTATION (in-process, /repo working tree) -> canonical JSON-able observable
    model_ops(case, impl_out)   list of driver ops (dicts) for the Lean model of this case
    compare(ctx, case, impl_out, model_outs)   correspondence (C): call ctx.corr(...) on a disagreement
    oracle(ctx, case, impl_out)                failing-input search (S): call ctx.fail(key, ...) when the property
                                               itself fails on the implementation
or, alternatively, a custom run(ctx).
"""
from __future__ import annotations

import argparse
import importlib
import json
import os
import signal
import sys
import time
import traceback
import warnings
from pathlib import Path

sys.path.insert(0, str(Path(__file__).resolve().parent))
warnings.filterwarnings("ignore")
os.environ.setdefault("PYTHONHASHSEED", "0")

import core  # noqa: E402

# the implementation under test: /repo's working tree (MOLGRI_REPO overrides it for development on a scratch worktree)
if os.environ.get("MOLGRI_REPO"):
    sys.path.insert(0, os.environ["MOLGRI_REPO"])

CHUNK = 400


def process(ctx, mod, case_iter):
    """generic C + S loop over cases, model evaluated in batches"""
    chunk = []

    def flush():
        if not chunk:
            return
        ops, spans = [], []
        for case, out in chunk:
            o = mod.model_ops(case, out)
            spans.append((len(ops), len(ops) + len(o)))
            ops.extend(o)
        outs = ctx.model(ops)
        for (case, out), (a, b) in zip(chunk, spans):
            try:
                mod.compare(ctx, case, out, outs[a:b])
                mod.oracle(ctx, case, out)
            except core.HarnessError:
                raise
            except Exception as e:  # a crash of comparison code is harness trouble, not a violation
                raise core.HarnessError(f"compare/oracle crashed on {case}: {traceback.format_exc()}")
        chunk.clear()

    nproc = getattr(mod, "PARALLEL", 0) if ctx.tier == "thorough" else 0
    if nproc:
        # thorough tier: the implementation is evaluated by a fork pool (molgri is already imported in the parent)
        import itertools
        import multiprocessing as mp
        size = getattr(mod, "CHUNK", CHUNK)
        with mp.get_context("fork").Pool(nproc) as pool:
            it = iter(case_iter)
            while True:
                batch = list(itertools.islice(it, size))
                if not batch:
                    break
                outs = pool.map(mod.impl, batch, chunksize=max(1, len(batch) // (4 * nproc)))
                ctx.count(len(batch))
                chunk.extend(zip(batch, outs))
                flush()
                if ctx.time_left() < 0:
                    ctx.note("time budget reached; generation stopped early")
                    break
        return
    for case in case_iter:
        ctx.count()
        out = mod.impl(case)
        chunk.append((case, out))
        if len(chunk) >= getattr(mod, "CHUNK", CHUNK):
            flush()
        if ctx.time_left() < 0:
            ctx.note("time budget reached; generation stopped early")
            break
    flush()


def corpus_cases(ctx):
    for f in ctx.open_findings + ctx.fixed_findings:
        for c in f.get("cases", []):
            yield c


def main():
    ap = argparse.ArgumentParser()
    ap.add_argument("prop")
    ap.add_argument("--tier", default=os.environ.get("VERIF_TIER", "quick"), choices=["quick", "thorough"])
    ap.add_argument("--replay", default=None)
    ap.add_argument("--no-audit", action="store_true", help="debugging only: skip lake build / axiom audit")
    a = ap.parse_args()
    seed = int(os.environ.get("VERIF_SEED", "0") or 0)
    prop = a.prop.upper()
    limit = int(os.environ.get("VERIF_TIMEOUT_S", "0") or 0)
    if limit:
        signal.signal(signal.SIGALRM, lambda *_: (print(f"[{prop}] harness timeout after {limit}s", file=sys.stderr), os._exit(2)))
        signal.alarm(limit)
    try:
        ctx = core.Ctx(prop, a.tier, seed)
        if a.no_audit:
            thms = core.load_theorems(prop)
            audit = {"ok": True, "problems": [], "obligations": len(thms), "discharged": len(thms), "theorems": thms}
        else:
            audit = core.build_and_audit(prop, a.tier)
        with core.quiet():
            core.assert_repo()
        mod = importlib.import_module(f"props.{prop.lower()}")
        ctx.rule = getattr(mod, "RULE", "")
        if a.replay:
            rep = json.loads(Path(a.replay).read_text())
            cases = [f["input"] for f in rep.get("failing_inputs", [])]
            for b in rep.get("broken", []):
                if b["kind"] == "correspondence":
                    cases += [b["first"]["input"]] + [m["input"] for m in b.get("more", [])]
            print(f"replaying {len(cases)} stored input(s) on the implementation and on the model")
            if hasattr(mod, "replay"):
                mod.replay(ctx, cases)
            else:
                process(ctx, mod, cases)
            for f in ctx.failures:
                print("PROPERTY FAILS ON IMPLEMENTATION:", json.dumps(f, default=str)[:3000])
            for c in ctx.corr_breaks:
                print("MODEL != IMPLEMENTATION:", json.dumps(c, default=str)[:3000])
            if not ctx.failures and not ctx.corr_breaks:
                print("stored inputs no longer fail")
            return 1 if (ctx.failures or ctx.corr_breaks) else 0
        if hasattr(mod, "run"):
            mod.run(ctx)
        else:
            def all_cases():
                yield from corpus_cases(ctx)
                yield from mod.cases(ctx)
            process(ctx, mod, all_cases())
        return ctx.finish(audit)
    except core.HarnessError as e:
        print(f"[{prop}] harness error: {e}", file=sys.stderr)
        return 2
    except subprocess_timeout() as e:  # pragma: no cover
        print(f"[{prop}] timeout: {e}", file=sys.stderr)
        return 2
    except Exception:
        print(f"[{prop}] harness crashed:\n{traceback.format_exc()}", file=sys.stderr)
        return 2


def subprocess_timeout():
    import subprocess
    return subprocess.TimeoutExpired


if __name__ == "__main__":
    sys.exit(main())
