#!/usr/bin/env python3
"""
Run the registered checks against the seeded changes kept under /verif/seeded/<id>/ (patch.diff + meta.json).

    python3 harness/seeded.py [--tier quick] [--in-repo] [id ...]

Default: each patch is applied to a scratch git worktree of /repo's HEAD under /tmp (removed afterwards) and the
check of the property it breaks is run with MOLGRI_REPO pointing there, evidence and replays redirected to /tmp, so
that /repo and the committed evidence are not touched.  With --in-repo the patch is applied to /repo itself
(git -C /repo apply) and undone straight afterwards (git -C /repo checkout -- .), exactly as the checks will be used.
Prints one line per seeded change: id, property, exit code, the VIOLATION line if any.  Exit 0 iff every change was
reported (exit code 1 with a VIOLATION line).
"""
import argparse
import json
import os
import shutil
import subprocess
import sys
from pathlib import Path

VERIF = Path(__file__).resolve().parent.parent
SEEDED = VERIF / "seeded"
PY = "/venv/bin/python"


def run_check(prop, tier, env):
    r = subprocess.run([PY, "harness/run.py", prop, "--tier", tier], cwd=VERIF, env=env, capture_output=True, text=True)
    vio = [l for l in r.stdout.splitlines() if l.startswith("VIOLATION")]
    return r.returncode, vio, r.stdout[-1500:] + r.stderr[-1500:]


def main():
    ap = argparse.ArgumentParser()
    ap.add_argument("ids", nargs="*")
    ap.add_argument("--tier", default="quick")
    ap.add_argument("--in-repo", action="store_true")
    ap.add_argument("--also", default="", help="comma separated extra properties to run against each change")
    a = ap.parse_args()
    ids = a.ids or sorted(p.name for p in SEEDED.iterdir() if (p / "patch.diff").exists())
    allok = True
    results = {}
    for sid in ids:
        d = SEEDED / sid
        meta = json.loads((d / "meta.json").read_text())
        # meta["checks"]: the registered checks expected to report this change (default: the check of the property it was
        # seeded against; a change placed in a shared helper may be reported by the check of the property that owns the helper)
        expected = meta.get("checks", [meta["property"]])
        props = list(dict.fromkeys(expected + [x for x in a.also.split(",") if x]))
        patch = d / "patch.diff"
        env = dict(os.environ)
        tag = f"{sid}_{os.getpid()}"      # unique per run: several runs may go on in parallel
        tmp = Path(f"/tmp/seedrun_{tag}")
        try:
            if a.in_repo:
                st = subprocess.run(["git", "-C", "/repo", "status", "--porcelain"], capture_output=True, text=True).stdout
                if st.strip():
                    print(f"{sid}: /repo is not clean, refusing", file=sys.stderr)
                    return 2
                subprocess.run(["git", "-C", "/repo", "apply", str(patch)], check=True)
            else:
                if tmp.exists():
                    subprocess.run(["git", "-C", "/repo", "worktree", "remove", "--force", str(tmp)])
                subprocess.run(["git", "-C", "/repo", "worktree", "add", "-q", "--detach", str(tmp), "HEAD"], check=True)
                subprocess.run(["git", "-C", str(tmp), "apply", str(patch)], check=True)
                env.update(MOLGRI_REPO=str(tmp), VERIF_EVIDENCE_DIR=f"/tmp/seedrun_{tag}_ev", VERIF_REPLAY_DIR=f"/tmp/seedrun_{tag}_rp")
            detected_by_expected = False
            for prop in props:
                rc, vio, tail = run_check(prop, a.tier, env)
                ok = rc == 1 and bool(vio)
                if prop in expected:
                    detected_by_expected = detected_by_expected or ok
                results[f"{sid}/{prop}"] = {"rc": rc, "violation": vio}
                print(f"{sid:28s} {prop} rc={rc} {'DETECTED' if ok else 'MISSED  '} {vio[0] if vio else ''}")
                if not ok and prop in expected:
                    print("    " + tail.replace("\n", "\n    ")[-800:])
            allok &= detected_by_expected
        finally:
            if a.in_repo:
                subprocess.run(["git", "-C", "/repo", "checkout", "--", "."])
            else:
                subprocess.run(["git", "-C", "/repo", "worktree", "remove", "--force", str(tmp)])
                shutil.rmtree(f"/tmp/seedrun_{tag}_ev", ignore_errors=True)
                shutil.rmtree(f"/tmp/seedrun_{tag}_rp", ignore_errors=True)
    print(json.dumps(results))
    return 0 if allok else 1


if __name__ == "__main__":
    sys.exit(main())
