/-
Line-protocol driver: one JSON object per input line {"p": "C12", "op": ..., ...};
one JSON line out: {"ok": value} or {"err": "ValueError" | ...}.
Run with `lake env lean --run Driver.lean < ops.jsonl`.
-/
import Molgri.Drv.All
open Lean Molgri.Drv

def handleLine (line : String) : String :=
  let r : R Json := do
    let j ← match Json.parse line with
      | .ok j => pure j
      | .error e => throw s!"parse: {e}"
    let p ← asStr (← getField j "p")
    let op ← asStr (← getField j "op")
    Molgri.Drv.dispatch p op j
  match r with
  | .ok v => (Json.mkObj [("ok", v)]).compress
  | .error e => (Json.mkObj [("err", Json.str e)]).compress

partial def loop (h : IO.FS.Stream) (out : IO.FS.Stream) : IO Unit := do
  let line ← h.getLine
  if line.isEmpty then return ()
  let t := line.trimAscii.toString
  if t.isEmpty then loop h out else
  out.putStrLn (handleLine t)
  loop h out

def main : IO Unit := do
  let out ← IO.getStdout
  loop (← IO.getStdin) out
  out.flush
