-- Root of the `Molgri` library: models, driver handlers, property theorems.
import Molgri.Drv.All
import Molgri.Props.C12
