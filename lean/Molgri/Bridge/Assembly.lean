/-
Bridge B, part 1 — the full-grid assembly: the C14 model (`Molgri.Pipeline`: `posEntries`, `rotEntries`, `addCsr`,
`full`, `totalVolumes`, `fullArray`) agrees with the C02 model (`Molgri.FullGrid`) of the same code
(`FullGrid._get_N_N`, `get_total_volumes`, `get_full_grid_as_array`).

Representation differences that the statements make explicit:

* a stored entry is a triple `Nat × Nat × K` in C02 and a structure `Ent K` in C14 (`toEnt`, `toMat`);
* the selector type exists twice (`selOf`);
* the truthiness / zero tests are `if x = 0` (C02, `DecidableEq`) and `if x == 0` (C14, `BEq`); the theorems are stated for
  the `BEq` instance that comes from `DecidableEq` (the one every C14 theorem uses);
* the rotation matrix is a *dense function* in C02 (the model assumes that the rotation getter builds its `coo_array`
  from a dense array, i.e. canonical row-major order, zeros skipped) and an *arbitrary list of stored entries* in C14
  (any storage order, duplicates allowed).  Hence two kinds of statement:
    - `full_canonical`   : on a rotation input in canonical form the two models return the same list, for **all** sizes
                           (`n_P ≤ 1`, `n_B ≤ 1` included), no hypothesis;
    - `full_of_dense`    : for `n_P > 1` and any C14 rotation input whose stored indices are inside `n_B × n_B`, the C14
                           result is the C02 result on the dense view of that input (the csr sum canonicalises);
    - `full_single_position_iff` : for `n_P ≤ 1` the C14 model returns the rotation input *as stored*; it equals the
                           C02 result iff that input is in canonical form — this is the only place where the C14 model is
                           strictly more general than the C02 model (no disagreement: C02 cannot express the input).
-/
import Molgri.Props.C02
import Molgri.Props.C14

namespace Molgri.Bridge.Assembly
open Molgri

/-! ### translation of the data types -/

/-- a C02 stored entry as a C14 stored entry -/
def toEnt {K : Type} (e : FullGrid.Entry K) : Pipeline.Ent K := ⟨e.1, e.2.1, e.2.2⟩

/-- a C14 stored entry as a C02 stored entry -/
def ofEnt {K : Type} (e : Pipeline.Ent K) : FullGrid.Entry K := (e.row, e.col, e.val)

/-- a C02 entry list (storage order kept) as a C14 matrix -/
def toMat {K : Type} (es : List (FullGrid.Entry K)) : Pipeline.Mat K := es.map toEnt

/-- a C14 matrix (storage order kept) as a C02 entry list -/
def ofMat {K : Type} (m : Pipeline.Mat K) : List (FullGrid.Entry K) := m.map ofEnt

/-- the selector of C14 as the selector of C02 -/
def selOf : Pipeline.Sel → FullGrid.Sel
  | .adjacency => .adjacency
  | .borders => .borders
  | .distances => .distances

theorem ofEnt_toEnt {K : Type} (e : FullGrid.Entry K) : ofEnt (toEnt e) = e := rfl
theorem toEnt_ofEnt {K : Type} (e : Pipeline.Ent K) : toEnt (ofEnt e) = e := rfl

/-- the two translations are inverse bijections (nothing is lost in either direction) -/
theorem ofMat_toMat {K : Type} (es : List (FullGrid.Entry K)) : ofMat (toMat es) = es := by
  unfold ofMat toMat
  rw [List.map_map]
  exact List.map_id' _

theorem toMat_ofMat {K : Type} (m : Pipeline.Mat K) : toMat (ofMat m) = m := by
  unfold ofMat toMat
  rw [List.map_map]
  exact List.map_id' _

theorem toMat_injective {K : Type} {a b : List (FullGrid.Entry K)} (h : toMat a = toMat b) : a = b := by
  rw [← ofMat_toMat a, ← ofMat_toMat b, h]

/-- **stored order**: the `(row, col)` sequence is the same object in both models -/
theorem idx_toMat {K : Type} (es : List (FullGrid.Entry K)) : Pipeline.idx (toMat es) = FullGrid.keys es := by
  unfold Pipeline.idx FullGrid.keys toMat
  rw [List.map_map]
  rfl

/-- the stored values -/
theorem dataOf_toMat {K : Type} (es : List (FullGrid.Entry K)) : Pipeline.dataOf (toMat es) = es.map (·.2.2) := by
  unfold Pipeline.dataOf toMat
  rw [List.map_map]
  rfl

theorem mem_toMat {K : Type} {es : List (FullGrid.Entry K)} {a b : Nat} {v : K} :
    (⟨a, b, v⟩ : Pipeline.Ent K) ∈ toMat es ↔ (a, b, v) ∈ es := by
  unfold toMat
  constructor
  · intro h
    obtain ⟨e, he, h⟩ := List.mem_map.mp h
    have : e = (a, b, v) := congrArg ofEnt h
    rw [← this]; exact he
  · intro h
    exact List.mem_map.mpr ⟨(a, b, v), h, rfl⟩

theorem selOf_posValue {K : Type} [Mul K] [One K] (sel : Pipeline.Sel) (f el : K) :
    Pipeline.posValue sel f el = FullGrid.posValue (selOf sel) f el := by
  cases sel <;> rfl

section field
variable {K : Type} [Field K] [DecidableEq K]

/-! ### the dense view (`toarray()`) -/

/-- `toarray()` of the same stored entries is the same array in both models -/
theorem dense_toMat (es : List (FullGrid.Entry K)) (r c : Nat) :
    Pipeline.dense (toMat es) r c = FullGrid.dense es r c := by
  rw [FullGrid.dense_eq_sum]
  induction es with
  | nil => simp [toMat]
  | cons e es ih =>
    have : toMat (e :: es) = toEnt e :: toMat es := rfl
    rw [this, Pipeline.dense_cons, ih, List.map_cons, List.sum_cons]
    rfl

theorem dense_ofMat (m : Pipeline.Mat K) (r c : Nat) : FullGrid.dense (ofMat m) r c = Pipeline.dense m r c := by
  rw [← dense_toMat, toMat_ofMat]

/-! ### canonical scan, csr sum -/

/-- the canonical row-major scan (`coo_array(dense)`, and the layout of every csr sum) is one list in both models -/
theorem scan_eq (n : Nat) (g : Nat → Nat → K) : Pipeline.scan n g = toMat (FullGrid.scan n g) := by
  unfold Pipeline.scan FullGrid.scan Pipeline.pairs toMat
  rw [List.filterMap_flatMap, List.map_flatMap]
  apply List.flatMap_congr
  intro r _
  rw [List.filterMap_map, List.map_filterMap]
  apply List.filterMap_congr
  intro c _
  by_cases h : g r c = 0
  · simp [h]
  · simp [h, toEnt]

/-- `A + B` (csr sum) commutes with the translation: for **all** operands -/
theorem addCsr_toMat (n : Nat) (A B : List (FullGrid.Entry K)) :
    Pipeline.addCsr n (toMat A) (toMat B) = toMat (FullGrid.addCsr n A B) := by
  rw [Pipeline.addCsr_eq_scan, FullGrid.addCsr_eq_scan, scan_eq]
  simp only [dense_toMat]

/-! ### the two families of entries and the assembly -/

/-- lines 241-247, 262 (the position loop with its truthiness filter): same list, all inputs -/
theorem posEntries_eq (nP nB : Nat) (sel : Pipeline.Sel) (f : K) (P : Nat → Nat → K) :
    Pipeline.posEntries nP nB sel f P = toMat (FullGrid.posEntries nP nB (selOf sel) f P) := by
  unfold Pipeline.posEntries FullGrid.posEntries toMat
  rw [List.map_flatMap]
  apply List.flatMap_congr
  intro i _
  rw [List.map_flatMap]
  apply List.flatMap_congr
  intro j _
  by_cases h : P i j = 0
  · simp [h]
  · simp [h, toEnt, selOf_posValue]

omit [Field K] [DecidableEq K] in
/-- lines 266-273 (`bmat` of the diagonal blocks): same list, all inputs -/
theorem rotEntries_toMat (nP nB : Nat) (Rc : List (FullGrid.Entry K)) :
    Pipeline.rotEntries nP nB (toMat Rc) = toMat (FullGrid.rotEntries nP nB Rc) := by
  unfold Pipeline.rotEntries FullGrid.rotEntries toMat
  rw [List.map_flatMap]
  apply List.flatMap_congr
  intro p _
  rw [List.map_map, List.map_map]
  rfl

/-- lines 232-235: the rotation input (`coo_array([[False]])` when `n_b = 1`), on a canonical `coo_array` -/
theorem rotInput_canonical (nB : Nat) (R : Nat → Nat → K) :
    Pipeline.rotInput nB (Pipeline.scan nB R) = toMat (FullGrid.rotInput nB R) := by
  unfold Pipeline.rotInput FullGrid.rotInput FullGrid.cooOfDense
  by_cases h : nB > 1
  · simp only [h, if_true]; exact scan_eq nB R
  · simp only [h, if_false]
    simp [FullGrid.scan, toMat]

/-- **Assembly, all inputs.**  With the rotation `coo_array` in the canonical form the C02 model assumes, `_get_N_N`
returns the same list of stored entries — same entries, same storage order — in the C14 model and in the C02 model, for
every `n_P`, `n_B` (the shortcuts `n_P ≤ 1`, `n_B ≤ 1` included), every selector, factor, position matrix. -/
theorem full_canonical (nP nB : Nat) (sel : Pipeline.Sel) (f : K) (P R : Nat → Nat → K) :
    Pipeline.full nP nB sel f P (Pipeline.scan nB R) = toMat (FullGrid.full nP nB (selOf sel) f P R) := by
  unfold Pipeline.full FullGrid.full
  simp only [rotInput_canonical]
  by_cases h : nP > 1
  · simp only [h, if_true]
    rw [rotEntries_toMat, posEntries_eq, addCsr_toMat]
  · simp only [h, if_false]

/-- the stored `(row, col)` sequences coincide -/
theorem full_canonical_idx (nP nB : Nat) (sel : Pipeline.Sel) (f : K) (P R : Nat → Nat → K) :
    Pipeline.idx (Pipeline.full nP nB sel f P (Pipeline.scan nB R))
      = FullGrid.keys (FullGrid.full nP nB (selOf sel) f P R) := by
  rw [full_canonical, idx_toMat]

/-- … and so do the dense views -/
theorem full_canonical_dense (nP nB : Nat) (sel : Pipeline.Sel) (f : K) (P R : Nat → Nat → K) (a b : Nat) :
    Pipeline.dense (Pipeline.full nP nB sel f P (Pipeline.scan nB R)) a b
      = FullGrid.dense (FullGrid.full nP nB (selOf sel) f P R) a b := by
  rw [full_canonical, dense_toMat]

/-! ### arbitrary stored rotation input (C14) versus its dense view (C02) -/

theorem scan_congr {n : Nat} {g g' : Nat → Nat → K} (h : ∀ a < n, ∀ b < n, g a b = g' a b) :
    Pipeline.scan n g = Pipeline.scan n g' := by
  unfold Pipeline.scan
  apply List.filterMap_congr
  rintro ⟨a, b⟩ hp
  obtain ⟨ha, hb⟩ := Pipeline.mem_pairs.mp hp
  simp only [h a ha b hb]

/-- the stored indices of a rotation input lie inside the `n_B × n_B` matrix (true of every scipy matrix of that shape) -/
def Bounded (nB : Nat) (R : Pipeline.Mat K) : Prop := ∀ e ∈ R, e.row < nB ∧ e.col < nB

theorem bounded_scan (nB : Nat) (g : Nat → Nat → K) : Bounded nB (Pipeline.scan nB g) :=
  fun _ he => ⟨(Pipeline.mem_scan.mp he).1, (Pipeline.mem_scan.mp he).2.1⟩

omit [DecidableEq K] in
theorem dense_rotInput (nB : Nat) (R : Pipeline.Mat K) (k l : Nat) :
    Pipeline.dense (Pipeline.rotInput nB R) k l = if nB > 1 then Pipeline.dense R k l else 0 := by
  unfold Pipeline.rotInput; split <;> simp

/-- for `n_P > 1` the C14 assembly sees its rotation input only through the dense view: two inputs with the same
`toarray()` (whatever their storage order and duplicates) give the same stored result -/
theorem full_congr_dense (nP nB : Nat) (sel : Pipeline.Sel) (f : K) (P : Nat → Nat → K) (R R' : Pipeline.Mat K)
    (hP : 1 < nP) (hR : Bounded nB R) (hR' : Bounded nB R')
    (hd : ∀ k < nB, ∀ l < nB, Pipeline.dense R k l = Pipeline.dense R' k l) :
    Pipeline.full nP nB sel f P R = Pipeline.full nP nB sel f P R' := by
  rw [Pipeline.full_eq_scan _ _ _ _ _ _ hP, Pipeline.full_eq_scan _ _ _ _ _ _ hP]
  apply scan_congr
  intro a ha b _
  have hpos : 0 < nB := by
    rcases Nat.eq_zero_or_pos nB with h | h
    · subst h; simp at ha
    · exact h
  congr 1
  rw [Pipeline.dense_rotEntries nP nB _ (Pipeline.rotInput_bounds hR),
    Pipeline.dense_rotEntries nP nB _ (Pipeline.rotInput_bounds hR'), dense_rotInput, dense_rotInput,
    hd _ (Nat.mod_lt _ hpos) _ (Nat.mod_lt _ hpos)]

/-- **Assembly for `n_P > 1`, arbitrary stored rotation input.**  Whatever the storage order of the rotation
`coo_array` (pair order, duplicates, stored zeros), as long as its indices are inside `n_B × n_B`, the C14 result is the
C02 result on the dense view of that input: same entries, same storage order. -/
theorem full_of_dense (nP nB : Nat) (sel : Pipeline.Sel) (f : K) (P : Nat → Nat → K) (R : Pipeline.Mat K)
    (hP : 1 < nP) (hR : Bounded nB R) :
    Pipeline.full nP nB sel f P R = toMat (FullGrid.full nP nB (selOf sel) f P (Pipeline.dense R)) := by
  rw [← full_canonical]
  apply full_congr_dense nP nB sel f P R _ hP hR (bounded_scan nB _)
  intro k hk l hl
  rw [Pipeline.dense_scan, if_pos ⟨hk, hl⟩]

theorem full_of_dense_idx (nP nB : Nat) (sel : Pipeline.Sel) (f : K) (P : Nat → Nat → K) (R : Pipeline.Mat K)
    (hP : 1 < nP) (hR : Bounded nB R) :
    Pipeline.idx (Pipeline.full nP nB sel f P R)
      = FullGrid.keys (FullGrid.full nP nB (selOf sel) f P (Pipeline.dense R)) := by
  rw [full_of_dense nP nB sel f P R hP hR, idx_toMat]

/-- **The `n_P ≤ 1` shortcut.**  The C14 model returns the rotation input *as stored* (`n_B > 1`), the C02 model the
canonical `coo_array` of the dense rotation matrix; they are the same list exactly when the stored input is canonical.
(The C02 model has no way to express a non-canonical rotation input, so this is a difference of generality, not a
disagreement; `full_canonical` is the agreement on the common domain.) -/
theorem full_single_position_iff (nP nB : Nat) (sel : Pipeline.Sel) (f : K) (P : Nat → Nat → K) (R : Pipeline.Mat K)
    (hP : ¬ 1 < nP) (hB : 1 < nB) :
    Pipeline.full nP nB sel f P R = toMat (FullGrid.full nP nB (selOf sel) f P (Pipeline.dense R))
      ↔ R = Pipeline.scan nB (Pipeline.dense R) := by
  rw [← full_canonical]
  unfold Pipeline.full Pipeline.rotInput
  have hP' : ¬ nP > 1 := hP
  have hB' : nB > 1 := hB
  simp only [hP', hB', if_true, if_false]

/-- **Entries for every size**: the dense views agree at every pair of cells, also through the `n_P ≤ 1` shortcut, for
any bounded stored rotation input. -/
theorem full_dense_agree (nP nB : Nat) (sel : Pipeline.Sel) (f : K) (P : Nat → Nat → K) (R : Pipeline.Mat K)
    (hR : Bounded nB R) (a b : Nat) :
    Pipeline.dense (Pipeline.full nP nB sel f P R) a b
      = FullGrid.dense (FullGrid.full nP nB (selOf sel) f P (Pipeline.dense R)) a b := by
  by_cases hP : 1 < nP
  · rw [full_of_dense nP nB sel f P R hP hR, dense_toMat]
  · rw [← dense_toMat, ← full_canonical]
    unfold Pipeline.full
    have hP' : ¬ nP > 1 := hP
    simp only [hP', if_false]
    rw [dense_rotInput, dense_rotInput, Pipeline.dense_scan]
    by_cases hB : nB > 1
    · simp only [hB, if_true]
      by_cases hab : a < nB ∧ b < nB
      · rw [if_pos hab]
      · rw [if_neg hab]
        apply Pipeline.dense_eq_zero_of_not_mem
        intro hm
        obtain ⟨e, he, hix⟩ := List.mem_map.mp hm
        simp only [Pipeline.ix, Prod.mk.injEq] at hix
        have := hR e he
        exact hab ⟨hix.1 ▸ this.1, hix.2 ▸ this.2⟩
    · simp only [hB, if_false]

/-! ### the entry rule (`specVal`) of the two property files is one function -/

/-- the value the C14 statement (`Pipeline.specVal`, used by `C14.full_entry`) assigns to a pair of cells is the value the
C02 statement (`FullGrid.specVal`, used by `C02.full_entry` / `C02.full_dense`) assigns to it -/
theorem specVal_eq (nB : Nat) (sel : Pipeline.Sel) (f : K) (P : Nat → Nat → K) (R : Pipeline.Mat K) (a b : Nat) :
    Pipeline.specVal nB sel f P R a b
      = FullGrid.specVal (selOf sel) nB f P (FullGrid.rotDense nB (Pipeline.dense R)) a b := by
  unfold Pipeline.specVal FullGrid.specVal FullGrid.rotDense
  rw [dense_rotInput, selOf_posValue]
  congr 1
  by_cases h1 : a % nB = b % nB <;> by_cases h2 : P (a / nB) (b / nB) = 0 <;> simp [h1, h2]

/-! ### volumes, grid rows -/

omit [DecidableEq K] in
/-- `get_total_volumes`: one function -/
theorem totalVolumes_eq (f : K) (Vpos Vrot : List K) :
    Pipeline.totalVolumes f Vpos Vrot = FullGrid.totalVolumes f Vpos Vrot := rfl

omit [Field K] [DecidableEq K] in
/-- `get_full_grid_as_array`: the C14 rows are the C02 rows `(position, quaternion)` with the two parts concatenated -/
theorem fullArray_eq (positions quats : List (List K)) :
    Pipeline.fullArray positions quats = (FullGrid.fullArray positions quats).map fun pq => pq.1 ++ pq.2 := by
  unfold Pipeline.fullArray FullGrid.fullArray
  rw [List.map_flatMap]
  apply List.flatMap_congr
  intro p _
  rw [List.map_map]
  rfl

/-! ### what `GridWriter` saves (`SubGrids.toGrid`), in terms of the C02 model -/

/-- the rotation inputs of a C14 sub-grid description are inside their matrix -/
structure WellFormed (s : Pipeline.SubGrids K) : Prop where
  nP_gt : 1 < s.nP
  Ra : Bounded s.nB s.Ra
  Rb : Bounded s.nB s.Rb
  Rd : Bounded s.nB s.Rd

/-- **The saved geometry is the C02 geometry**: the three sparse matrices the writer saves (entries in storage order)
and the volumes are the C02 model's `full` / `totalVolumes` on the dense views of the rotation inputs. -/
theorem toGrid_eq (s : Pipeline.SubGrids K) (hw : WellFormed s) :
    s.toGrid.borders.entries = toMat (FullGrid.full s.nP s.nB .borders s.f s.Pb (Pipeline.dense s.Rb))
    ∧ s.toGrid.distances.entries = toMat (FullGrid.full s.nP s.nB .distances s.f s.Pd (Pipeline.dense s.Rd))
    ∧ s.toGrid.adjacency.entries = toMat (FullGrid.full s.nP s.nB .adjacency s.f s.Pa (Pipeline.dense s.Ra))
    ∧ s.toGrid.volumes = FullGrid.totalVolumes s.f s.Vpos s.Vrot :=
  ⟨full_of_dense _ _ .borders _ _ _ hw.nP_gt hw.Rb, full_of_dense _ _ .distances _ _ _ hw.nP_gt hw.Rd,
    full_of_dense _ _ .adjacency _ _ _ hw.nP_gt hw.Ra, rfl⟩

end field

/-! ### non-vacuity -/

/-- the hypotheses of `full_of_dense` / `toGrid_eq` hold for the example geometry of C14 (whose rotation inputs are given
in storage order `(0,1),(1,0)`), and the two models indeed return the same 8 stored border entries -/
example : WellFormed C14.Example.ex :=
  ⟨C14.Example.ex_valid.nP_gt, C14.Example.ex_valid.Ra_bounds, C14.Example.ex_valid.Rb_bounds,
    C14.Example.ex_valid.Rd_bounds⟩
example : ofMat (Pipeline.full 2 2 .borders (2 : Rat) C14.Example.ex.Pb C14.Example.ex.Rb)
    = FullGrid.full 2 2 .borders 2 C14.Example.ex.Pb (Pipeline.dense C14.Example.ex.Rb) ∧
    (FullGrid.full 2 2 .borders (2 : Rat) C14.Example.ex.Pb (Pipeline.dense C14.Example.ex.Rb)).length = 8 := by
  decide +kernel

/-- `full_single_position_iff`: one position, the rotation `coo_array` stored in *pair order* `(1,0),(0,1)` — the C14
model returns it as stored, the C02 model (which only knows the dense matrix) row-major: the lists differ, the dense views
agree (`full_dense_agree`) -/
example :
    let R : Pipeline.Mat Rat := [⟨1, 0, 5⟩, ⟨0, 1, 5⟩]
    ofMat (Pipeline.full 1 2 .borders (2 : Rat) (fun _ _ => 0) R) = [(1, 0, 5), (0, 1, 5)]
    ∧ FullGrid.full 1 2 .borders (2 : Rat) (fun _ _ => 0) (Pipeline.dense R) = [(0, 1, 5), (1, 0, 5)] := by
  decide +kernel

end Molgri.Bridge.Assembly
