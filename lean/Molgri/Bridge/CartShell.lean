/-
Bridge D (3) — the extra outer shell of the Cartesian position mode (C06) uses the radial helpers of C16 / C05.

`PositionGrid.__init__(…, position_grid_cartesian=True)` (`fullgrid.py:298-307`):

    t_additional = list(self.t_grid.trans_grid)
    increments = self.t_grid.get_increments()
    t_additional.append(self.t_grid.trans_grid[-1] + increments[-1])

C06 models this as `Molgri.Polygon.extendedRadii` with its own copies `incrementsOf`, `lastIncrement`, `incrementsOk`; C16 (`Molgri.Trans.getIncrements`) and C05 (`Molgri.PositionGrid.getIncrements`) model `get_increments`
itself (they are one function: `Bridge/Radial.lean`, `getIncrements_pg`).

Results
* `incrementsOf_eq`, `lastIncrement_eq`   C06's increment list is C05's, its "last increment" is the last element of it;
* `extendedRadii_eq`                      on EVERY input (a zero first radius included, accepted by `get_increments` since
                                          commit cae935f), C06's `extendedRadii` is the code transcribed with C05's
                                          `get_increments` (`extendedVia`), error results included;
* `extendedRadii_trans`                   the same against C16's `get_increments` (ℚ, exception names through `nameE`);
* `zero_first_extended`                   instance: `[0, 1] ↦ [0, 1, 2]` in all three models (the real code:
                                          `PositionGrid("ico_12", "[0, 0.1]", position_grid_cartesian=True)` builds a 36-point
                                          diagram with radii 0, 1, 2);
* `extendedRadii_valid`, `extendedPositions_valid`, `cart_extended_parsed`   C06's `cart_extended` for every valid radial
  grid in one statement, its hypothesis "all increments positive" discharged from `ValidRadii`, resp. from C16's parser;
* `outer_boundary_midway`, `boundaries_midway_extended`, `single_boundary_is_extra`   C05's shell boundaries are the
  midpoints of consecutive radii of C06's EXTENDED radial grid — including the outermost one (`T ≥ 2`); for a single radius
  the boundary `2r` coincides with the extra shell itself.
-/
import Molgri.Props.C06
import Molgri.Bridge.Radial

set_option linter.unusedSectionVars false

namespace Molgri.Bridge.CartShell
open Molgri.PositionGrid

variable {K : Type} [Field K] [LinearOrder K] [IsStrictOrderedRing K]

/-! ### one increment list -/

/-- C06's copy of the increment list is C05's. -/
theorem incrementsOf_eq (t : List K) : Polygon.incrementsOf t = incrementsOf t := by
  cases t <;> rfl

/-- … and C11's (`Bridge/Radial.lean`: `increments_eq_incrementsOf`). -/
theorem incrementsOf_eq_assign (t : List Rat) : Polygon.incrementsOf t = Assign.increments t := by
  rw [incrementsOf_eq, Radial.increments_eq_incrementsOf]

theorem incrementsOf_cons_cons (a b : K) (t : List K) :
    incrementsOf (a :: b :: t) = a :: (b - a) :: (incrementsOf (b :: t)).tail := by
  simp [incrementsOf]

/-- C06's `lastIncrement` (`increments[-1]` computed by its own recursion) is the last element of the increment list. -/
theorem lastIncrement_eq (t : List K) : Polygon.lastIncrement t = (incrementsOf t).getLast? := by
  induction t with
  | nil => rfl
  | cons a t ih =>
    cases t with
    | nil => rfl
    | cons b t' =>
      cases t' with
      | nil => simp [Polygon.lastIncrement, incrementsOf]
      | cons c u =>
        have h1 : Polygon.lastIncrement (a :: b :: c :: u) = Polygon.lastIncrement (b :: c :: u) := by
          simp [Polygon.lastIncrement]
        rw [h1, ih, incrementsOf_cons_cons a b (c :: u), incrementsOf_cons_cons b c u]
        simp [List.getLast?_cons_cons]

/-! ### the extended radial grid -/

/-- `fullgrid.py:299-302` transcribed with a given model `getInc` of `get_increments`:
`trans_grid ++ [trans_grid[-1] + increments[-1]]` (both `[-1]` are defined whenever `get_increments` returned). -/
def extendedVia {ε : Type} (getInc : List K → Except ε (List K)) (t : List K) : Except ε (List K) :=
  match getInc t with
  | .error e => .error e
  | .ok inc => .ok (t ++ [t.getLastD 0 + inc.getLastD 0])

/-- the radius of the extra shell: `t[-1] + increments[-1]` -/
def extraRadius (t : List K) : K := t.getLastD 0 + (incrementsOf t).getLastD 0

/-- C06's copy of the assertion of `get_increments` is C05's. -/
theorem incrementsOk_eq (inc : List K) : Polygon.incrementsOk inc = incrementsOk inc := rfl

/-- **C06 = C05 on every input.**  `Polygon.extendedRadii` is the code transcribed with C05's `get_increments`, error
results included (`IndexError` on the empty grid, `AssertionError` on a non-increasing or negative one); a zero first
radius is accepted by both. -/
theorem extendedRadii_eq (t : List K) : Polygon.extendedRadii t = extendedVia getIncrements t := by
  cases t with
  | nil => rfl
  | cons a rs =>
    have hne : incrementsOf (a :: rs) ≠ [] := by simp [incrementsOf]
    have hl : (a :: rs).getLast? = some ((a :: rs).getLast (by simp)) := List.getLast?_eq_some_getLast (by simp)
    have hi : Polygon.lastIncrement (a :: rs) = some ((incrementsOf (a :: rs)).getLast hne) := by
      rw [lastIncrement_eq, List.getLast?_eq_some_getLast hne]
    unfold Polygon.extendedRadii
    rw [hl, hi, incrementsOf_eq, incrementsOk_eq]
    unfold extendedVia getIncrements
    simp only [List.isEmpty_cons, Bool.false_eq_true, if_false]
    by_cases hok : incrementsOk (incrementsOf (a :: rs)) = true
    · simp only [hok, if_true, pure, Except.pure]
      rw [List.getLastD_eq_getLast?, hl, List.getLastD_eq_getLast?, List.getLast?_eq_some_getLast hne]
      rfl
    · simp only [hok, Bool.false_eq_true, if_false]
      rfl

/-- **C06 = C16** for the extra shell: against C16's `get_increments`, for every rational grid. -/
theorem extendedRadii_trans (t : List Rat) :
    Polygon.extendedRadii t = Radial.nameE (extendedVia Trans.getIncrements t) := by
  rw [extendedRadii_eq]
  unfold extendedVia
  rw [Radial.getIncrements_pg]
  cases Trans.getIncrements t <;> rfl

/-- A radial grid that starts at 0 (accepted by `get_increments` since commit cae935f): the radial text `[0, 0.1]`
(`[0, 1]` in Å) is extended to `[0, 1, 2]` by C06's model and by the code transcribed with C16's `get_increments`. -/
theorem zero_first_extended :
    Polygon.extendedRadii ([0, 1] : List Rat) = .ok [0, 1, 2] ∧
    Radial.nameE (extendedVia Trans.getIncrements ([0, 1] : List Rat)) = .ok [0, 1, 2] := by
  have h : Radial.nameE (extendedVia Trans.getIncrements ([0, 1] : List Rat)) = .ok [0, 1, 2] := by
    have : Trans.getIncrements ([0, 1] : List Rat) = .ok [0, 1] := by
      simp [Trans.getIncrements]
    unfold extendedVia
    rw [this]
    norm_num [Radial.nameE, Except.mapError]
  exact ⟨by rw [extendedRadii_trans]; exact h, h⟩

/-- On every valid radial grid (C05's quantifier) the extended grid exists and is the grid plus `extraRadius`. -/
theorem extendedRadii_valid (t : List K) (h : ValidRadii t) :
    Polygon.extendedRadii t = .ok (t ++ [extraRadius t]) := by
  rw [extendedRadii_eq]
  unfold extendedVia
  rw [getIncrements_ok h.accepted]
  rfl

/-- **C06 `cart_extended`, one statement for every valid radial grid** (any length `T ≥ 1`), its hypothesis "all
increments are positive" discharged: the input of scipy's `Voronoi` is the position grid followed by all directions at
`extraRadius t`. -/
theorem extendedPositions_valid (o : List (Polygon.V3 K)) (t : List K) (h : ValidRadii t) :
    Polygon.extendedPositions o t =
      .ok (Polygon.positions o t ++ o.map (Polygon.V3.smul (extraRadius t))) := by
  unfold Polygon.extendedPositions
  rw [extendedRadii_valid t h]
  simp only [bind, Except.bind, pure, Except.pure]
  rw [Polygon.positions_append]

/-- … in particular for every radial text C16's parser accepts with distinct non-zero radii: C06's `cart_extended`
with its hypothesis discharged by C16. -/
theorem cart_extended_parsed (s : List Char) (g : List Rat) (hs : Trans.parseTrans s = .ok g) (hd : g.Nodup)
    (hne : g ≠ []) (h0 : (0 : Rat) ∉ g) (o : List (Polygon.V3 Rat)) :
    Polygon.extendedPositions o g = .ok (Polygon.positions o g ++ o.map (Polygon.V3.smul (extraRadius g))) :=
  extendedPositions_valid o g (Radial.parsed_radiiOk s g hs hd hne h0).2

/-! ### the extra shell and C05's shell boundaries -/

theorem getLastD_eq_getD (l : List K) : l.getLastD 0 = l.getD (l.length - 1) 0 := by
  rw [List.getLastD_eq_getLast?, List.getLast?_eq_getElem?, List.getD_eq_getElem?_getD]

theorem extraRadius_single (a : K) : extraRadius [a] = a + a := rfl

/-- the extra shell repeats the last increment: `r_T + (r_T − r_{T−1})` -/
theorem extraRadius_last (t : List K) (k : Nat) (hk : k + 2 = t.length) :
    extraRadius t = rad t (k + 1) + (rad t (k + 1) - rad t k) := by
  unfold extraRadius
  rw [getLastD_eq_getD, getLastD_eq_getD, incrementsOf_length, ← hk]
  simp only [show k + 2 - 1 = k + 1 from rfl]
  rw [incrementsOf_succ t k (by omega)]

/-- **The outermost shell boundary of C05 is midway between the last radius and C06's extra shell** (`T ≥ 2`): the
spherical-shell cells and the Cartesian cells are cut at the same radii, the outer one included. -/
theorem outer_boundary_midway (t : List K) (k : Nat) (hk : k + 2 = t.length) :
    Rab t (k + 1) = (rad t (k + 1) + extraRadius t) / 2 := by
  rw [between_last t k hk, extraRadius_last t k hk]
  ring

/-- **All shell boundaries of C05 are the midpoints of consecutive radii of C06's extended radial grid**
(`T ≥ 2`; `te = t ++ [extraRadius t]` is what `extendedRadii` returns, `extendedRadii_valid`). -/
theorem boundaries_midway_extended (t : List K) (hT : 2 ≤ t.length) (k : Nat) (hk : k < t.length) :
    Rab t k = (rad (t ++ [extraRadius t]) k + rad (t ++ [extraRadius t]) (k + 1)) / 2 := by
  have hleft : ∀ i, i < t.length → rad (t ++ [extraRadius t]) i = rad t i := by
    intro i hi
    simp [rad, List.getD_eq_getElem?_getD, List.getElem?_append_left hi]
  have hright : rad (t ++ [extraRadius t]) t.length = extraRadius t := by
    simp [rad, List.getD_eq_getElem?_getD]
  by_cases hlast : k + 1 < t.length
  · rw [hleft k hk, hleft (k + 1) hlast]
    exact between_inner t k hlast
  · have hk1 : k + 1 = t.length := by omega
    obtain ⟨j, rfl⟩ : ∃ j, k = j + 1 := ⟨k - 1, by omega⟩
    rw [hleft (j + 1) hk, hk1, hright]
    exact outer_boundary_midway t j (by omega)

/-- A single radius: the only boundary `2r` *is* the extra shell (`boundary_single`), not a midpoint. -/
theorem single_boundary_is_extra (a : K) : Rab [a] 0 = extraRadius [a] := by
  rw [extraRadius_single]
  have := between_single a
  simp only [Rab, this, List.getD_cons_zero]
  ring

/-! ### non-vacuity -/

/-- `[1, 5/2, 3]` (C05's example of a valid radial grid): the extended grid is `[1, 5/2, 3, 7/2]`, and the outer
boundary `13/4` of C05 is the midpoint of `3` and `7/2`. -/
example : extraRadius ([1, 5/2, 3] : List ℚ) = 7/2 ∧ Rab ([1, 5/2, 3] : List ℚ) 2 = 13/4 := by
  constructor
  · norm_num [extraRadius, incrementsOf]
  · rw [outer_boundary_midway _ 1 rfl]
    norm_num [extraRadius, incrementsOf, rad]

end Molgri.Bridge.CartShell
