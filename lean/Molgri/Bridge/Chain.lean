/-
Bridge B, part 3 — one chain of theorems  C02 ⇒ C01 ⇒ C14  about the C02 / C01 models.

The object:   `Q = Sqra.rate … (cooOf S) (cooOf H) vol E`   — C01's model of `SQRA.get_rate_matrix`, fed with
`S = FullGrid.full … borders`, `H = FullGrid.full … distances` and `vol = FullGrid.totalVolumes …` — C02's model of what
`FullGrid` hands over.  No definition of the C14 model occurs in it.

The chain (every arrow is an existing theorem, now *used* instead of assumed):

  sub-grid facts (`Geometry`: symmetric, one support per family, empty diagonals, `f ≠ 0`, volumes ≠ 0)
    ─ `C02.borders_distances_aligned` (⇐ `C02.full_common_pattern_order`, `C02.full_storage_order`, `C02.full_diag_empty`)
        ⇒ `hpat`, `hnd` of `C01.sqra_entry`, `C01.sqra_detailed_balance(_rnd)`, `C01.sqra_offdiag_pos`; `hoff` of `C01.sqra_diag_nonpos`
    ─ `C02.full_symm` (+ `C02.full_entry`, `C02.full_dense`)            ⇒ `hS`, `hh` of `C01.sqra_detailed_balance`
    ─ `C02.full_entry`                                                  ⇒ `hcols` of `C01.sqra_row_sum_zero`
    ─ `C02.full_positive`                                               ⇒ sign hypotheses of `C01.sqra_offdiag_nonneg` / `_pos`
    ─ `C01.sqra_detailed_balance`, `C01.sqra_row_sum_zero`              ⇒ `hdb`, `hrs` of `C14.stationary_of_db`, `C14.eigenvalue_real`,
                                                                          `C14.eigenvalue_nonpos`, `C14.left_null_proportional`, `C14.left_*`
    ─ `C01.sqra_offdiag_nonneg`, `C01.sqra_entry`                       ⇒ `hQ`, `hconn` of the same

and, by parts 1 and 2 (`Assembly.full_of_dense`, `Rate.rate_toCoo`), `Q` *is* the C14 pipeline matrix
(`pipelineQ_eq`), so that `C14.pipeline_spectrum` is re-obtained through the C02 and C01 theorems
(`pipeline_spectrum_via_C02_C01`), and the C01 theorems C14 did not have (shift invariance, linearity in `D`, diagonal
sign, the C01 exceptions on the saved files) hold of the C14 pipeline matrix.
-/
import Molgri.Bridge.Assembly
import Molgri.Bridge.Rate

namespace Molgri.Bridge.Chain
open Molgri Molgri.Reversible

set_option linter.unusedSectionVars false

variable {F : Type} [Field F] [LinearOrder F] [IsStrictOrderedRing F]

/-! ### C02 output as C01 input -/

/-- a C02 entry list (storage order kept) as the `coo_array` C01 talks about -/
def cooOf (n : Nat) (es : List (FullGrid.Entry F)) : Sqra.Coo F := Rate.toCoo n (Assembly.toMat es)

theorem idx_cooOf (n : Nat) (es : List (FullGrid.Entry F)) : (cooOf n es).idx = FullGrid.keys es := by
  unfold cooOf; rw [Rate.idx_toCoo, Assembly.idx_toMat]

theorem dense_cooOf (n : Nat) (es : List (FullGrid.Entry F)) (i j : Nat) :
    (cooOf n es).dense i j = FullGrid.dense es i j := by
  unfold cooOf; rw [Rate.dense_toCoo, Assembly.dense_toMat]

theorem mem_cooOf {n : Nat} {es : List (FullGrid.Entry F)} {e : Sqra.Ent F} :
    e ∈ (cooOf n es).entries ↔ (e.row, e.col, e.val) ∈ es := by
  unfold cooOf; rw [Rate.mem_toCoo]; exact Assembly.mem_toMat

theorem mem_data_cooOf {n : Nat} {es : List (FullGrid.Entry F)} {x : F} (hx : x ∈ (cooOf n es).data) :
    ∃ a b, (a, b, x) ∈ es := by
  unfold Sqra.Coo.data at hx
  obtain ⟨e, he, rfl⟩ := List.mem_map.mp hx
  exact ⟨e.row, e.col, mem_cooOf.mp he⟩

theorem mem_keys {es : List (FullGrid.Entry F)} {a b : Nat} : (a, b) ∈ FullGrid.keys es ↔ ∃ v, (a, b, v) ∈ es := by
  unfold FullGrid.keys FullGrid.key
  simp only [List.mem_map, Prod.mk.injEq]
  constructor
  · rintro ⟨⟨a', b', v⟩, h, rfl, rfl⟩; exact ⟨v, h⟩
  · rintro ⟨v, h⟩; exact ⟨(a, b, v), h, rfl, rfl⟩

/-- what `FullGrid` is built from (the inputs of the C02 model): sizes, factor, the three dense position matrices, the
three dense rotation matrices, the sub-grid volumes -/
structure Inputs (F : Type) where
  nP : Nat
  nB : Nat
  f : F
  Pa : Nat → Nat → F
  Pb : Nat → Nat → F
  Pd : Nat → Nat → F
  Ra : Nat → Nat → F
  Rb : Nat → Nat → F
  Rd : Nat → Nat → F
  Vpos : List F
  Vrot : List F

namespace Inputs
/-- number of cells -/
def n (g : Inputs F) : Nat := g.nP * g.nB
/-- `get_full_adjacency()` (C02 model) -/
def A (g : Inputs F) : List (FullGrid.Entry F) := FullGrid.full g.nP g.nB .adjacency g.f g.Pa g.Ra
/-- `get_full_borders()` (C02 model) -/
def S (g : Inputs F) : List (FullGrid.Entry F) := FullGrid.full g.nP g.nB .borders g.f g.Pb g.Rb
/-- `get_full_distances()` (C02 model) -/
def H (g : Inputs F) : List (FullGrid.Entry F) := FullGrid.full g.nP g.nB .distances g.f g.Pd g.Rd
/-- `get_total_volumes()[i]` (C02 model) -/
def vol (g : Inputs F) (i : Nat) : F := (FullGrid.totalVolumes g.f g.Vpos g.Vrot).getD i 0
end Inputs

/-- **C01's rate matrix on C02's geometry** -/
def Q (exp rnd : F → F) (kB NA T D : F) (g : Inputs F) (E : Nat → F) (i j : Nat) : F :=
  Sqra.rate exp rnd kB NA T D (cooOf g.n g.S) (cooOf g.n g.H) g.vol E i j

/-- `π_i = V_i · exp(−E_i/RT)` -/
def pi (exp : F → F) (kB NA T : F) (g : Inputs F) (E : Nat → F) (i : Nat) : F :=
  g.vol i * exp (-(2 * C01.beta kB NA T) * E i)

/-- the hypotheses of the C02 theorems used below: facts about the *sub-grid* matrices (owned by C03–C06, evaluated on the
implementation on every run by the C02 and C14 checks) -/
structure Geometry (g : Inputs F) : Prop where
  nP_gt : 1 < g.nP
  nB_pos : 0 < g.nB
  f_ne : g.f ≠ 0
  Pab : ∀ i j, i < g.nP → j < g.nP → (g.Pa i j ≠ 0 ↔ g.Pb i j ≠ 0)
  Pad : ∀ i j, i < g.nP → j < g.nP → (g.Pa i j ≠ 0 ↔ g.Pd i j ≠ 0)
  Rab : ∀ k l, k < g.nB → l < g.nB → (g.Ra k l ≠ 0 ↔ g.Rb k l ≠ 0)
  Rad : ∀ k l, k < g.nB → l < g.nB → (g.Ra k l ≠ 0 ↔ g.Rd k l ≠ 0)
  Pa_diag : ∀ i, i < g.nP → g.Pa i i = 0
  Ra_diag : ∀ k, k < g.nB → g.Ra k k = 0
  Pb_symm : ∀ i j, i < g.nP → j < g.nP → g.Pb i j = g.Pb j i
  Pd_symm : ∀ i j, i < g.nP → j < g.nP → g.Pd i j = g.Pd j i
  Rb_symm : ∀ k l, k < g.nB → l < g.nB → g.Rb k l = g.Rb l k
  Rd_symm : ∀ k l, k < g.nB → l < g.nB → g.Rd k l = g.Rd l k
  Vpos_len : g.Vpos.length = g.nP
  Vrot_len : g.Vrot.length = g.nB
  Vpos_ne : ∀ v ∈ g.Vpos, v ≠ 0
  Vrot_ne : ∀ v ∈ g.Vrot, v ≠ 0

/-- signs of a physical geometry -/
structure Positive (g : Inputs F) : Prop where
  f_pos : 0 < g.f
  Pb_nonneg : ∀ i j, i < g.nP → j < g.nP → 0 ≤ g.Pb i j
  Pd_nonneg : ∀ i j, i < g.nP → j < g.nP → 0 ≤ g.Pd i j
  Rb_nonneg : ∀ k l, k < g.nB → l < g.nB → 0 ≤ g.Rb k l
  Rd_nonneg : ∀ k l, k < g.nB → l < g.nB → 0 ≤ g.Rd k l
  Vpos_pos : ∀ v ∈ g.Vpos, 0 < v
  Vrot_pos : ∀ v ∈ g.Vrot, 0 < v

/-! ### step 1: C02 ⇒ the hypotheses of C01 -/

/-- `C02.full_symm` (a statement about stored triples) gives the symmetry of the dense view that C01 asks for -/
theorem dense_symm_of_full_symm (nP nB : Nat) (sel : FullGrid.Sel) (f : F) (P R : Nat → Nat → F) (hP : 1 < nP)
    (hB : 0 < nB)
    (hsymm : ∀ a b v, (a, b, v) ∈ FullGrid.full nP nB sel f P R ↔ (b, a, v) ∈ FullGrid.full nP nB sel f P R)
    {a b : Nat} (ha : a < nP * nB) (hb : b < nP * nB) :
    FullGrid.dense (FullGrid.full nP nB sel f P R) a b = FullGrid.dense (FullGrid.full nP nB sel f P R) b a := by
  rw [C02.full_dense nP nB sel f P R hP hB a b ha hb, C02.full_dense nP nB sel f P R hP hB b a hb ha]
  by_cases hv : FullGrid.specVal sel nB f P (FullGrid.rotDense nB R) a b = 0
  · by_cases hw : FullGrid.specVal sel nB f P (FullGrid.rotDense nB R) b a = 0
    · rw [hv, hw]
    · have h1 := (C02.full_entry nP nB sel f P R hP hB b a _).mpr ⟨hb, ha, rfl, hw⟩
      have h2 := (C02.full_entry nP nB sel f P R hP hB a b _).mp ((hsymm b a _).mp h1)
      exact absurd (h2.2.2.1.trans hv) hw
  · have h1 := (C02.full_entry nP nB sel f P R hP hB a b _).mpr ⟨ha, hb, rfl, hv⟩
    have h2 := (C02.full_entry nP nB sel f P R hP hB b a _).mp ((hsymm a b _).mp h1)
    exact h2.2.2.1

namespace Geometry
variable {g : Inputs F} (hg : Geometry g)
include hg

/-- **`hpat`, `hnd`, `hoff` of C01** from `C02.borders_distances_aligned`: borders and distances store one index sequence,
without repetition and without diagonal positions -/
theorem aligned : (cooOf g.n g.S).idx = (cooOf g.n g.H).idx ∧ (cooOf g.n g.S).idx.Nodup
    ∧ ∀ p ∈ (cooOf g.n g.S).idx, p.1 ≠ p.2 := by
  simp only [idx_cooOf]
  exact C02.borders_distances_aligned g.nP g.nB g.f g.Pa g.Pb g.Pd g.Ra g.Rb g.Rd hg.nP_gt hg.nB_pos hg.f_ne
    hg.Pab hg.Pad hg.Rab hg.Rad hg.Pa_diag hg.Ra_diag

/-- adjacency, borders and distances: one stored sequence (`C02.full_common_pattern_order`) -/
theorem pattern : FullGrid.keys g.A = FullGrid.keys g.S ∧ FullGrid.keys g.A = FullGrid.keys g.H :=
  C02.full_common_pattern_order g.nP g.nB g.f g.Pa g.Pb g.Pd g.Ra g.Rb g.Rd hg.nP_gt hg.nB_pos hg.f_ne
    hg.Pab hg.Pad hg.Rab hg.Rad hg.Pa_diag hg.Ra_diag

/-- **`hS` of C01** from `C02.full_symm` -/
theorem S_symm {i j : Nat} (hi : i < g.n) (hj : j < g.n) : (cooOf g.n g.S).dense i j = (cooOf g.n g.S).dense j i := by
  rw [dense_cooOf, dense_cooOf]
  exact dense_symm_of_full_symm g.nP g.nB .borders g.f g.Pb g.Rb hg.nP_gt hg.nB_pos
    (C02.full_symm g.nP g.nB .borders g.f g.Pb g.Rb hg.nP_gt hg.nB_pos hg.Pb_symm hg.Rb_symm) hi hj

/-- **`hh` of C01** from `C02.full_symm` -/
theorem H_symm {i j : Nat} (hi : i < g.n) (hj : j < g.n) : (cooOf g.n g.H).dense i j = (cooOf g.n g.H).dense j i := by
  rw [dense_cooOf, dense_cooOf]
  exact dense_symm_of_full_symm g.nP g.nB .distances g.f g.Pd g.Rd hg.nP_gt hg.nB_pos
    (C02.full_symm g.nP g.nB .distances g.f g.Pd g.Rd hg.nP_gt hg.nB_pos hg.Pd_symm hg.Rd_symm) hi hj

/-- **`hcols` of `C01.sqra_row_sum_zero`** (and the row bound) from `C02.full_entry` -/
theorem S_bounds : ∀ p ∈ (cooOf g.n g.S).idx, p.1 < g.n ∧ p.2 < g.n := by
  rintro ⟨a, b⟩ hp
  rw [idx_cooOf, mem_keys] at hp
  obtain ⟨v, hv⟩ := hp
  have := (C02.full_entry g.nP g.nB .borders g.f g.Pb g.Rb hg.nP_gt hg.nB_pos a b v).mp hv
  exact ⟨this.1, this.2.1⟩

theorem vol_length : (FullGrid.totalVolumes g.f g.Vpos g.Vrot).length = g.n := by
  rw [(C02.volume_order g.f g.Vpos g.Vrot 0).1, hg.Vpos_len, hg.Vrot_len]; rfl

/-- **`hVi`, `hVj` of C01**: the 6-D volumes are non-zero -/
theorem vol_ne {i : Nat} (hi : i < g.n) : g.vol i ≠ 0 := by
  unfold Inputs.vol
  apply Pipeline.totalVolumes_ne g.f g.Vpos g.Vrot hg.f_ne hg.Vpos_ne hg.Vrot_ne
  apply Pipeline.getD_mem_of_lt
  have := hg.vol_length
  rw [← Assembly.totalVolumes_eq] at this
  rw [this]; exact hi

end Geometry

/-! ### step 2: C01 on C02's matrices, hypotheses discharged -/

/-- **`C01.sqra_entry` without `hpat`, `hnd`**: entry formula of the rate matrix of a full grid -/
theorem entry (exp rnd : F → F) (kB NA T D : F) (g : Inputs F) (hg : Geometry g) (E : Nat → F) (i j : Nat)
    (hij : i ≠ j) :
    Q exp rnd kB NA T D g E i j =
      if (i, j) ∈ FullGrid.keys g.S then
        D * FullGrid.dense g.S i j / (FullGrid.dense g.H i j * g.vol i)
          * exp (C01.beta kB NA T * rnd (Sqra.capf (E i - E j)))
      else 0 := by
  unfold Q
  rw [C01.sqra_entry exp rnd kB NA T D _ _ g.vol E i j hg.aligned.1 hg.aligned.2.1 hij]
  simp only [idx_cooOf, dense_cooOf]

/-- **`C01.sqra_row_sum_zero` without `hcols`** -/
theorem row_sum_zero (exp rnd : F → F) (kB NA T D : F) (g : Inputs F) (hg : Geometry g) (E : Nat → F) {i : Nat}
    (hi : i < g.n) : ∑ j ∈ Finset.range g.n, Q exp rnd kB NA T D g E i j = 0 :=
  C01.sqra_row_sum_zero exp rnd kB NA T D _ _ g.vol E g.n i (fun p hp => (hg.S_bounds p hp).2) hi

/-- **`C01.sqra_detailed_balance` without `hpat`, `hnd`, `hS`, `hh`, `hVi`, `hVj`**: for every pair of cells of a full
grid whose energy difference is below the cap and left unchanged by the rounding,
`V_i·exp(−E_i/RT)·Q_ij = V_j·exp(−E_j/RT)·Q_ji`. -/
theorem detailed_balance (exp rnd : F → F) (kB NA T D : F) (g : Inputs F) (hg : Geometry g) (E : Nat → F)
    (hexp : ∀ a b, exp (a + b) = exp a * exp b) (hexp0 : exp 0 = 1) {i j : Nat} (hi : i < g.n) (hj : j < g.n)
    (hcap1 : E i - E j < 500) (hcap2 : E j - E i < 500)
    (hr1 : rnd (E i - E j) = E i - E j) (hr2 : rnd (E j - E i) = E j - E i) :
    pi exp kB NA T g E i * Q exp rnd kB NA T D g E i j = pi exp kB NA T g E j * Q exp rnd kB NA T D g E j i := by
  by_cases hij : i = j
  · subst hij; rfl
  · exact C01.sqra_detailed_balance exp rnd kB NA T D _ _ g.vol E i j hexp hexp0 hg.aligned.1 hg.aligned.2.1 hij
      (hg.S_symm hi hj) (hg.H_symm hi hj) (hg.vol_ne hi) (hg.vol_ne hj) hcap1 hcap2 hr1 hr2

/-- the same with the rounding defect explicit (`C01.sqra_detailed_balance_rnd`, hypotheses discharged) -/
theorem detailed_balance_rnd (exp rnd : F → F) (kB NA T D : F) (g : Inputs F) (hg : Geometry g) (E : Nat → F)
    (hexp : ∀ a b, exp (a + b) = exp a * exp b) {i j : Nat} (hi : i < g.n) (hj : j < g.n) (hij : i ≠ j)
    (hcap1 : E i - E j < 500) (hcap2 : E j - E i < 500) :
    pi exp kB NA T g E i * Q exp rnd kB NA T D g E i j * exp (C01.beta kB NA T * ((E i - E j) - rnd (E i - E j)))
      = pi exp kB NA T g E j * Q exp rnd kB NA T D g E j i * exp (C01.beta kB NA T * ((E j - E i) - rnd (E j - E i))) :=
  C01.sqra_detailed_balance_rnd exp rnd kB NA T D _ _ g.vol E i j hexp hg.aligned.1 hg.aligned.2.1 hij
    (hg.S_symm hi hj) (hg.H_symm hi hj) (hg.vol_ne hi) (hg.vol_ne hj) hcap1 hcap2

/-- all energy differences are below the cap and unchanged by the rounding -/
def BelowCap (rnd : F → F) (E : Nat → F) (n : Nat) : Prop :=
  ∀ i < n, ∀ j < n, E i - E j < 500 ∧ rnd (E i - E j) = E i - E j

/-- **`hdb` of the C14 spectral theorems** -/
theorem isDB (exp rnd : F → F) (kB NA T D : F) (g : Inputs F) (hg : Geometry g) (E : Nat → F)
    (hexp : ∀ a b, exp (a + b) = exp a * exp b) (hexp0 : exp 0 = 1) (hcap : BelowCap rnd E g.n) :
    DB g.n (pi exp kB NA T g E) (Q exp rnd kB NA T D g E) := fun i hi j hj =>
  detailed_balance exp rnd kB NA T D g hg E hexp hexp0 hi hj (hcap i hi j hj).1 (hcap j hj i hi).1
    (hcap i hi j hj).2 (hcap j hj i hi).2

/-- **`hrs` of the C14 spectral theorems** -/
theorem isRowSumZero (exp rnd : F → F) (kB NA T D : F) (g : Inputs F) (hg : Geometry g) (E : Nat → F) :
    RowSumZero g.n (Q exp rnd kB NA T D g E) := fun _ hi => row_sum_zero exp rnd kB NA T D g hg E hi

/-! ### step 3: C14's spectral theorems for C01's matrix on C02's geometry -/

/-- **`C14.stationary_of_db` without `hdb`, `hrs`**: `V·exp(−E/RT)` is a left null vector of the SqRA matrix of a full
grid. -/
theorem stationary (exp rnd : F → F) (kB NA T D : F) (g : Inputs F) (hg : Geometry g) (E : Nat → F)
    (hexp : ∀ a b, exp (a + b) = exp a * exp b) (hexp0 : exp 0 = 1) (hcap : BelowCap rnd E g.n) :
    ∀ j < g.n, ∑ i ∈ Finset.range g.n, pi exp kB NA T g E i * Q exp rnd kB NA T D g E i j = 0 :=
  C14.stationary_of_db (isDB exp rnd kB NA T D g hg E hexp hexp0 hcap) (isRowSumZero exp rnd kB NA T D g hg E)

namespace Positive
variable {g : Inputs F} (hp : Positive g) (hg : Geometry g)
include hp hg

/-- stored borders are positive (`C02.full_positive`) -/
theorem S_pos : ∀ e ∈ (cooOf g.n g.S).entries, 0 < e.val := fun _ he =>
  C02.full_positive g.nP g.nB .borders g.f g.Pb g.Rb hg.nP_gt hg.nB_pos hp.f_pos hp.Pb_nonneg hp.Rb_nonneg _ _ _
    (mem_cooOf.mp he)

/-- stored distances are positive (`C02.full_positive`) -/
theorem H_pos : ∀ e ∈ (cooOf g.n g.H).entries, 0 < e.val := fun _ he =>
  C02.full_positive g.nP g.nB .distances g.f g.Pd g.Rd hg.nP_gt hg.nB_pos hp.f_pos hp.Pd_nonneg hp.Rd_nonneg _ _ _
    (mem_cooOf.mp he)

theorem vol_pos {i : Nat} (hi : i < g.n) : 0 < g.vol i := by
  unfold Inputs.vol
  have hm : (FullGrid.totalVolumes g.f g.Vpos g.Vrot).getD i 0 ∈ FullGrid.totalVolumes g.f g.Vpos g.Vrot :=
    Pipeline.getD_mem_of_lt _ (by rw [hg.vol_length]; exact hi)
  revert hm
  generalize (FullGrid.totalVolumes g.f g.Vpos g.Vrot).getD i 0 = x
  intro hm
  unfold FullGrid.totalVolumes at hm
  rw [List.mem_flatMap] at hm
  obtain ⟨a, ha, hm⟩ := hm
  rw [List.mem_map] at hm
  obtain ⟨b, hb, rfl⟩ := hm
  have := hp.f_pos
  exact mul_pos (mul_pos (hp.Vpos_pos a ha) (by positivity)) (hp.Vrot_pos b hb)

theorem vol_nonneg (k : Nat) : 0 ≤ g.vol k := by
  by_cases hk : k < g.n
  · exact (hp.vol_pos hg hk).le
  · unfold Inputs.vol
    rw [List.getD_eq_getElem?_getD, List.getElem?_eq_none (by rw [hg.vol_length]; omega)]
    exact le_rfl

end Positive

/-- `π > 0` -/
theorem pi_pos (exp : F → F) (kB NA T : F) (g : Inputs F) (hg : Geometry g) (hp : Positive g) (E : Nat → F)
    (hexp : ∀ x, 0 < exp x) {i : Nat} (hi : i < g.n) : 0 < pi exp kB NA T g E i :=
  mul_pos (hp.vol_pos hg hi) (hexp _)

/-- **`hQ` of the C14 spectral theorems** from `C01.sqra_offdiag_nonneg` and `C02.full_positive` -/
theorem offdiag_nonneg (exp rnd : F → F) (kB NA T D : F) (g : Inputs F) (hg : Geometry g) (hp : Positive g)
    (E : Nat → F) (hexp : ∀ x, 0 < exp x) (hD : 0 ≤ D) {i j : Nat} (hij : i ≠ j) :
    0 ≤ Q exp rnd kB NA T D g E i j := by
  apply C01.sqra_offdiag_nonneg exp rnd kB NA T D _ _ g.vol E i j hexp hD
    (fun e he => (hp.S_pos hg e he).le) _ (hp.vol_nonneg hg) hij
  intro x hx
  obtain ⟨a, b, hm⟩ := mem_data_cooOf hx
  exact (C02.full_positive g.nP g.nB .distances g.f g.Pd g.Rd hg.nP_gt hg.nB_pos hp.f_pos hp.Pd_nonneg hp.Rd_nonneg
    _ _ _ hm).le

/-- the diagonal is non-positive (`C01.sqra_diag_nonpos`, `hoff` discharged by C02) -/
theorem diag_nonpos (exp rnd : F → F) (kB NA T D : F) (g : Inputs F) (hg : Geometry g) (hp : Positive g)
    (E : Nat → F) (hexp : ∀ x, 0 < exp x) (hD : 0 ≤ D) (i : Nat) : Q exp rnd kB NA T D g E i i ≤ 0 := by
  apply C01.sqra_diag_nonpos exp rnd kB NA T D _ _ g.vol E i hexp hD
    (fun e he => (hp.S_pos hg e he).le) _ (hp.vol_nonneg hg) hg.aligned.2.2
  intro x hx
  obtain ⟨a, b, hm⟩ := mem_data_cooOf hx
  exact (C02.full_positive g.nP g.nB .distances g.f g.Pd g.Rd hg.nP_gt hg.nB_pos hp.f_pos hp.Pd_nonneg hp.Rd_nonneg
    _ _ _ hm).le

/-- a stored position of a full-grid matrix carries its (positive) stored value in the dense view -/
theorem dense_pos_of_mem_keys (nP nB : Nat) (sel : FullGrid.Sel) (f : F) (P R : Nat → Nat → F) (hP : 1 < nP)
    (hB : 0 < nB) (hf : 0 < f) (hPn : ∀ i j, i < nP → j < nP → 0 ≤ P i j) (hRn : ∀ k l, k < nB → l < nB → 0 ≤ R k l)
    {a b : Nat} (hm : (a, b) ∈ FullGrid.keys (FullGrid.full nP nB sel f P R)) :
    0 < FullGrid.dense (FullGrid.full nP nB sel f P R) a b := by
  obtain ⟨v, hv⟩ := mem_keys.mp hm
  have h := (C02.full_entry nP nB sel f P R hP hB a b v).mp hv
  rw [C02.full_dense nP nB sel f P R hP hB a b h.1 h.2.1, ← h.2.2.1]
  exact C02.full_positive nP nB sel f P R hP hB hf hPn hRn a b v hv

/-- on the common pattern the rate is strictly positive (from `C01.sqra_entry` and `C02.full_positive`) -/
theorem pos_on_pattern (exp rnd : F → F) (kB NA T D : F) (g : Inputs F) (hg : Geometry g) (hp : Positive g)
    (E : Nat → F) (hexp : ∀ x, 0 < exp x) (hD : 0 < D) {i j : Nat} (hm : (i, j) ∈ FullGrid.keys g.S) :
    0 < Q exp rnd kB NA T D g E i j := by
  have hb := hg.S_bounds (i, j) (by rw [idx_cooOf]; exact hm)
  have hij : i ≠ j := hg.aligned.2.2 (i, j) (by rw [idx_cooOf]; exact hm)
  rw [entry exp rnd kB NA T D g hg E i j hij, if_pos hm]
  have hmH : (i, j) ∈ FullGrid.keys g.H := by rw [← hg.pattern.2, hg.pattern.1]; exact hm
  have h1 : 0 < FullGrid.dense g.S i j :=
    dense_pos_of_mem_keys g.nP g.nB .borders g.f g.Pb g.Rb hg.nP_gt hg.nB_pos hp.f_pos hp.Pb_nonneg hp.Rb_nonneg hm
  have h2 : 0 < FullGrid.dense g.H i j :=
    dense_pos_of_mem_keys g.nP g.nB .distances g.f g.Pd g.Rd hg.nP_gt hg.nB_pos hp.f_pos hp.Pd_nonneg hp.Rd_nonneg hmH
  exact mul_pos (div_pos (mul_pos hD h1) (mul_pos h2 (hp.vol_pos hg hb.1))) (hexp _)

/-- the adjacency matrix of the full grid (C02 model) makes the grid connected -/
def AdjConnected (g : Inputs F) : Prop :=
  ∀ i < g.n, ∀ j < g.n, Relation.ReflTransGen (fun a b => (a, b) ∈ FullGrid.keys g.A) i j

/-- **`hconn` of `C14.left_null_proportional`**: adjacency-connected ⇒ the graph of positive rates is connected -/
theorem connected (exp rnd : F → F) (kB NA T D : F) (g : Inputs F) (hg : Geometry g) (hp : Positive g)
    (E : Nat → F) (hexp : ∀ x, 0 < exp x) (hD : 0 < D) (hc : AdjConnected g) :
    Connected g.n (Q exp rnd kB NA T D g E) := by
  intro i hi j hj
  refine Relation.ReflTransGen.mono ?_ i j (hc i hi j hj)
  intro a b hab
  rw [hg.pattern.1] at hab
  have hb := hg.S_bounds (a, b) (by rw [idx_cooOf]; exact hab)
  exact ⟨hb.1, hb.2, pos_on_pattern exp rnd kB NA T D g hg hp E hexp hD hab⟩

/-- **Spectrum of the SqRA matrix of a full grid, as one chain C02 ⇒ C01 ⇒ C14** (no C14 model involved):
1. every complex eigenvalue is real (`C14.eigenvalue_real`); 2. every real eigenvalue is `≤ 0` (`C14.eigenvalue_nonpos`);
3. `0` is an eigenvalue with right eigenvector `1` (`C14.zero_eigenvalue`) and left eigenvector `π = V·exp(−E/RT)`
(`C14.stationary_of_db`); 4. on an adjacency-connected grid every left null vector is proportional to `π`
(`C14.left_null_proportional`). -/
theorem spectrum (exp rnd : F → F) (kB NA T D : F) (g : Inputs F) (hg : Geometry g) (hp : Positive g) (E : Nat → F)
    (hexp : ∀ a b, exp (a + b) = exp a * exp b) (hexp0 : exp 0 = 1) (hexpp : ∀ x, 0 < exp x) (hD : 0 < D)
    (hcap : BelowCap rnd E g.n) :
    let n := g.n
    let Q := Q exp rnd kB NA T D g E
    let π := pi exp kB NA T g E
    (∀ (u v : Nat → F) (a b : F),
        (∀ i < n, ∑ j ∈ Finset.range n, Q i j * u j = a * u i - b * v i) →
        (∀ i < n, ∑ j ∈ Finset.range n, Q i j * v j = b * u i + a * v i) →
        ((∃ i < n, u i ≠ 0) ∨ (∃ i < n, v i ≠ 0)) → b = 0)
    ∧ (∀ (f : Nat → F) (lam : F), (∀ i < n, ∑ j ∈ Finset.range n, Q i j * f j = lam * f i) →
        (∃ i < n, f i ≠ 0) → lam ≤ 0)
    ∧ (∀ i < n, ∑ j ∈ Finset.range n, Q i j * 1 = 0)
    ∧ (∀ j < n, ∑ i ∈ Finset.range n, π i * Q i j = 0)
    ∧ (AdjConnected g → ∀ x : Nat → F, (∀ j < n, ∑ i ∈ Finset.range n, x i * Q i j = 0) →
        ∀ i < n, ∀ j < n, x i * π j = x j * π i) := by
  intro n Q' π
  have hdb : DB n π Q' := isDB exp rnd kB NA T D g hg E hexp hexp0 hcap
  have hrs : RowSumZero n Q' := isRowSumZero exp rnd kB NA T D g hg E
  have hπ : ∀ i < n, 0 < π i := fun i hi => pi_pos exp kB NA T g hg hp E hexpp hi
  have hQ : ∀ i < n, ∀ j < n, i ≠ j → 0 ≤ Q' i j :=
    fun i _ j _ hij => offdiag_nonneg exp rnd kB NA T D g hg hp E hexpp hD.le hij
  exact ⟨fun u v a b hu hv' hne => C14.eigenvalue_real hdb hπ u v a b hu hv' hne,
    fun f lam heig hf => C14.eigenvalue_nonpos hdb hrs hπ hQ f lam heig hf,
    C14.zero_eigenvalue hrs 1, C14.stationary_of_db hdb hrs,
    fun hc x hx => C14.left_null_proportional hdb hrs hπ hQ
      (connected exp rnd kB NA T D g hg hp E hexpp hD hc) x hx⟩

/-- **Left spectrum** (what the solver is asked for): every complex left eigenvalue is real, every left eigenvalue `≤ 0`
(`C14.left_eigenvalue_real`, `C14.left_eigenvalue_nonpos`, hypotheses discharged through C02 and C01). -/
theorem left_spectrum (exp rnd : F → F) (kB NA T D : F) (g : Inputs F) (hg : Geometry g) (hp : Positive g)
    (E : Nat → F) (hexp : ∀ a b, exp (a + b) = exp a * exp b) (hexp0 : exp 0 = 1) (hexpp : ∀ x, 0 < exp x)
    (hD : 0 < D) (hcap : BelowCap rnd E g.n) :
    let n := g.n
    let Q := Q exp rnd kB NA T D g E
    (∀ (u w : Nat → F) (a b : F),
        (∀ j < n, ∑ i ∈ Finset.range n, u i * Q i j = a * u j - b * w j) →
        (∀ j < n, ∑ i ∈ Finset.range n, w i * Q i j = b * u j + a * w j) →
        ((∃ i < n, u i ≠ 0) ∨ (∃ i < n, w i ≠ 0)) → b = 0)
    ∧ (∀ (x : Nat → F) (lam : F), (∀ j < n, ∑ i ∈ Finset.range n, x i * Q i j = lam * x j) →
        (∃ i < n, x i ≠ 0) → lam ≤ 0) := by
  intro n Q'
  have hdb : DB n (pi exp kB NA T g E) Q' := isDB exp rnd kB NA T D g hg E hexp hexp0 hcap
  have hrs : RowSumZero n Q' := isRowSumZero exp rnd kB NA T D g hg E
  have hπ : ∀ i < n, 0 < pi exp kB NA T g E i := fun i hi => pi_pos exp kB NA T g hg hp E hexpp hi
  have hQ : ∀ i < n, ∀ j < n, i ≠ j → 0 ≤ Q' i j :=
    fun i _ j _ hij => offdiag_nonneg exp rnd kB NA T D g hg hp E hexpp hD.le hij
  exact ⟨fun u w a b hu hw hne => C14.left_eigenvalue_real hdb hπ u w a b hu hw hne,
    fun x lam heig hx => C14.left_eigenvalue_nonpos hdb hrs hπ hQ x lam heig hx⟩

/-! ## The same matrix is the C14 pipeline matrix

`inputsOf s` reads a C14 sub-grid description as the inputs of the C02 model (rotation matrices through their dense
view); under `C14.Valid s` the C14 geometry is the C02 geometry (`geom_eq`), the C14 pipeline matrix is `Q`
(`pipelineQ_eq`) and the hypotheses of C14 imply the hypotheses of C02 (`geometry_of_valid`). -/

/-- a C14 sub-grid description as the inputs of the C02 model -/
def inputsOf (s : Pipeline.SubGrids F) : Inputs F :=
  ⟨s.nP, s.nB, s.f, s.Pa, s.Pb, s.Pd, Pipeline.dense s.Ra, Pipeline.dense s.Rb, Pipeline.dense s.Rd, s.Vpos, s.Vrot⟩

theorem wellFormed_of_valid {s : Pipeline.SubGrids F} (hv : C14.Valid s) : Assembly.WellFormed s :=
  ⟨hv.nP_gt, hv.Ra_bounds, hv.Rb_bounds, hv.Rd_bounds⟩

/-- **The three matrices of C14 are the three matrices of C02** (entries and storage order) -/
theorem geom_eq (s : Pipeline.SubGrids F) (hw : Assembly.WellFormed s) :
    C14.geomS s = Assembly.toMat (inputsOf s).S ∧ C14.geomH s = Assembly.toMat (inputsOf s).H
    ∧ C14.geomA s = Assembly.toMat (inputsOf s).A :=
  ⟨Assembly.full_of_dense _ _ .borders _ _ _ hw.nP_gt hw.Rb, Assembly.full_of_dense _ _ .distances _ _ _ hw.nP_gt hw.Rd,
    Assembly.full_of_dense _ _ .adjacency _ _ _ hw.nP_gt hw.Ra⟩

/-- the volumes of C14 are the volumes of C02 -/
theorem volOf_eq (s : Pipeline.SubGrids F) : C14.volOf s = (inputsOf s).vol := rfl

/-- **The C14 pipeline matrix is C01's `rate` on C02's `full`** -/
theorem pipelineQ_eq (exp rnd : F → F) (kB NA T D : F) (s : Pipeline.SubGrids F) (hw : Assembly.WellFormed s)
    (E : List F) (i j : Nat) :
    C14.pipelineQ exp rnd kB NA T D s E i j = Q exp rnd kB NA T D (inputsOf s) (fun k => E.getD k 0) i j := by
  unfold C14.pipelineQ Q cooOf
  rw [Rate.rate_toCoo, (geom_eq s hw).1, (geom_eq s hw).2.1]
  rfl

/-- `π` of C14 is `π` of the chain -/
theorem pipelinePi_eq (exp : F → F) (kB NA T : F) (s : Pipeline.SubGrids F) (E : List F) (i : Nat) :
    C14.pipelinePi exp kB NA T s E i = pi exp kB NA T (inputsOf s) (fun k => E.getD k 0) i := rfl

/-- without any hypothesis: the C14 pipeline matrix is C01's `rate` on the C14 geometry -/
theorem pipelineQ_eq_sqra (exp rnd : F → F) (kB NA T D : F) (s : Pipeline.SubGrids F) (E : List F) (i j : Nat) :
    C14.pipelineQ exp rnd kB NA T D s E i j
      = Sqra.rate exp rnd kB NA T D (Rate.toCoo (s.nP * s.nB) (C14.geomS s)) (Rate.toCoo (s.nP * s.nB) (C14.geomH s))
          (C14.volOf s) (fun k => E.getD k 0) i j := by
  unfold C14.pipelineQ
  rw [Rate.rate_toCoo]

/-- **C14's hypotheses imply C02's hypotheses** -/
theorem geometry_of_valid {s : Pipeline.SubGrids F} (hv : C14.Valid s) : Geometry (inputsOf s) where
  nP_gt := hv.nP_gt
  nB_pos := hv.nB_pos
  f_ne := hv.f_ne
  Pab := fun i j hi hj => (hv.P_supp_a i hi j hj).trans (hv.P_supp_b i hi j hj).symm
  Pad := fun i j hi hj => hv.P_supp_a i hi j hj
  Rab := fun k l hk hl => (hv.R_supp_a k hk l hl).trans (hv.R_supp_b k hk l hl).symm
  Rad := fun k l hk hl => hv.R_supp_a k hk l hl
  Pa_diag := fun i hi => hv.Pa_diag i hi
  Ra_diag := fun k hk => hv.Ra_diag k hk
  Pb_symm := fun i j hi hj => hv.Pb_symm i hi j hj
  Pd_symm := fun i j hi hj => hv.Pd_symm i hi j hj
  Rb_symm := fun k l hk hl => hv.Rb_symm k hk l hl
  Rd_symm := fun k l hk hl => hv.Rd_symm k hk l hl
  Vpos_len := hv.Vpos_len
  Vrot_len := hv.Vrot_len
  Vpos_ne := hv.Vpos_ne
  Vrot_ne := hv.Vrot_ne

theorem positive_of_positive {s : Pipeline.SubGrids F} (hp : C14.Positive s) : Positive (inputsOf s) where
  f_pos := hp.f_pos
  Pb_nonneg := fun i j _ _ => hp.Pb_nonneg i j
  Pd_nonneg := fun i j _ _ => hp.Pd_nonneg i j
  Rb_nonneg := fun k l _ _ => C14.dense_nonneg hp.Rb_nonneg k l
  Rd_nonneg := fun k l _ _ => C14.dense_nonneg hp.Rd_nonneg k l
  Vpos_pos := hp.Vpos_pos
  Vrot_pos := hp.Vrot_pos

theorem belowCap_of (rnd : F → F) (E : List F) (n : Nat) (h : C14.BelowCap rnd E n) :
    BelowCap rnd (fun k => E.getD k 0) n := h

theorem adjConnected_of {s : Pipeline.SubGrids F} (hw : Assembly.WellFormed s) (hc : C14.AdjConnected s) :
    AdjConnected (inputsOf s) := by
  intro i hi j hj
  have := hc i hi j hj
  rw [(geom_eq s hw).2.2, Assembly.idx_toMat] at this
  exact this

/-- **C14's alignment theorem re-obtained from C02** (`C14.Valid.aligned_SH` is `C02.borders_distances_aligned`) -/
theorem aligned_SH_via_C02 {s : Pipeline.SubGrids F} (hv : C14.Valid s) :
    Pipeline.idx (C14.geomS s) = Pipeline.idx (C14.geomH s) ∧ (Pipeline.idx (C14.geomS s)).Nodup
    ∧ ∀ p ∈ Pipeline.idx (C14.geomS s), p.1 ≠ p.2 := by
  have hw := wellFormed_of_valid hv
  have h := (geometry_of_valid hv).aligned
  simp only [idx_cooOf] at h
  rw [(geom_eq s hw).1, (geom_eq s hw).2.1, Assembly.idx_toMat, Assembly.idx_toMat]
  exact h

/-- **`C14.pipeline_spectrum` through the C02 and C01 theorems**: the same statement, proved by `spectrum` (the chain
`C02.borders_distances_aligned`, `C02.full_symm`, `C02.full_positive` ⇒ `C01.sqra_detailed_balance`,
`C01.sqra_row_sum_zero`, `C01.sqra_offdiag_nonneg`, `C01.sqra_entry` ⇒ `C14.stationary_of_db`, `C14.eigenvalue_real`,
`C14.eigenvalue_nonpos`, `C14.left_null_proportional`) and the identification `pipelineQ_eq`. -/
theorem pipeline_spectrum_via_C02_C01 (exp rnd : F → F) (kB NA T D : F) (s : Pipeline.SubGrids F) (hv : C14.Valid s)
    (hp : C14.Positive s) (E : List F) (hexp : ∀ a b, exp (a + b) = exp a * exp b) (hexp0 : exp 0 = 1)
    (hexpp : ∀ x, 0 < exp x) (hD : 0 < D) (hcap : C14.BelowCap rnd E (s.nP * s.nB)) :
    let n := s.nP * s.nB
    let Q := C14.pipelineQ exp rnd kB NA T D s E
    let π := C14.pipelinePi exp kB NA T s E
    (∀ (u v : Nat → F) (a b : F),
        (∀ i < n, ∑ j ∈ Finset.range n, Q i j * u j = a * u i - b * v i) →
        (∀ i < n, ∑ j ∈ Finset.range n, Q i j * v j = b * u i + a * v i) →
        ((∃ i < n, u i ≠ 0) ∨ (∃ i < n, v i ≠ 0)) → b = 0)
    ∧ (∀ (f : Nat → F) (lam : F), (∀ i < n, ∑ j ∈ Finset.range n, Q i j * f j = lam * f i) →
        (∃ i < n, f i ≠ 0) → lam ≤ 0)
    ∧ (∀ i < n, ∑ j ∈ Finset.range n, Q i j * 1 = 0)
    ∧ (∀ j < n, ∑ i ∈ Finset.range n, π i * Q i j = 0)
    ∧ (C14.AdjConnected s → ∀ x : Nat → F, (∀ j < n, ∑ i ∈ Finset.range n, x i * Q i j = 0) →
        ∀ i < n, ∀ j < n, x i * π j = x j * π i) := by
  intro n Q' π
  have hw := wellFormed_of_valid hv
  have hQ : Q' = Q exp rnd kB NA T D (inputsOf s) (fun k => E.getD k 0) := by
    funext i j; exact pipelineQ_eq exp rnd kB NA T D s hw E i j
  have hπ : π = pi exp kB NA T (inputsOf s) (fun k => E.getD k 0) := rfl
  have h := spectrum exp rnd kB NA T D (inputsOf s) (geometry_of_valid hv) (positive_of_positive hp)
    (fun k => E.getD k 0) hexp hexp0 hexpp hD hcap
  simp only [] at h
  rw [hQ, hπ]
  exact ⟨h.1, h.2.1, h.2.2.1, h.2.2.2.1, fun hc => h.2.2.2.2 (adjConnected_of hw hc)⟩

/-- **`C14.pipeline_left_spectrum` through the C02 and C01 theorems** -/
theorem pipeline_left_spectrum_via_C02_C01 (exp rnd : F → F) (kB NA T D : F) (s : Pipeline.SubGrids F)
    (hv : C14.Valid s) (hp : C14.Positive s) (E : List F) (hexp : ∀ a b, exp (a + b) = exp a * exp b)
    (hexp0 : exp 0 = 1) (hexpp : ∀ x, 0 < exp x) (hD : 0 < D) (hcap : C14.BelowCap rnd E (s.nP * s.nB)) :
    let n := s.nP * s.nB
    let Q := C14.pipelineQ exp rnd kB NA T D s E
    (∀ (u w : Nat → F) (a b : F),
        (∀ j < n, ∑ i ∈ Finset.range n, u i * Q i j = a * u j - b * w j) →
        (∀ j < n, ∑ i ∈ Finset.range n, w i * Q i j = b * u j + a * w j) →
        ((∃ i < n, u i ≠ 0) ∨ (∃ i < n, w i ≠ 0)) → b = 0)
    ∧ (∀ (x : Nat → F) (lam : F), (∀ j < n, ∑ i ∈ Finset.range n, x i * Q i j = lam * x j) →
        (∃ i < n, x i ≠ 0) → lam ≤ 0) := by
  intro n Q'
  have hQ : Q' = Q exp rnd kB NA T D (inputsOf s) (fun k => E.getD k 0) := by
    funext i j; exact pipelineQ_eq exp rnd kB NA T D s (wellFormed_of_valid hv) E i j
  rw [hQ]
  exact left_spectrum exp rnd kB NA T D (inputsOf s) (geometry_of_valid hv) (positive_of_positive hp)
    (fun k => E.getD k 0) hexp hexp0 hexpp hD hcap

/-! ## C01 theorems that C14 did not have, for the C14 pipeline matrix -/

/-- **Shift invariance of the pipeline matrix**: adding a constant to every energy of the list changes nothing -/
theorem pipeline_shift (exp rnd : F → F) (kB NA T D : F) (s : Pipeline.SubGrids F) (hv : C14.Valid s) (E : List F)
    (hE : E.length = s.nP * s.nB) (c : F) (i j : Nat) :
    C14.pipelineQ exp rnd kB NA T D s (E.map (· + c)) i j = C14.pipelineQ exp rnd kB NA T D s E i j := by
  unfold C14.pipelineQ
  apply Rate.rate_shift_list
  intro e he
  have := C14.full_stored _ _ _ _ _ _ hv.nP_gt hv.Rb_bounds he
  rw [hE]; exact ⟨this.1, this.2.1⟩

/-- **Linearity in `D` of the pipeline matrix**, all inputs, diagonal included -/
theorem pipeline_linear_D (exp rnd : F → F) (kB NA T D : F) (s : Pipeline.SubGrids F) (E : List F) (i j : Nat) :
    C14.pipelineQ exp rnd kB NA T D s E i j = D * C14.pipelineQ exp rnd kB NA T 1 s E i j :=
  Rate.rate_linear_D exp rnd kB NA T D _ _ _ _ i j

theorem pipeline_add_D (exp rnd : F → F) (kB NA T D₁ D₂ : F) (s : Pipeline.SubGrids F) (E : List F) (i j : Nat) :
    C14.pipelineQ exp rnd kB NA T (D₁ + D₂) s E i j
      = C14.pipelineQ exp rnd kB NA T D₁ s E i j + C14.pipelineQ exp rnd kB NA T D₂ s E i j :=
  Rate.rate_add_D exp rnd kB NA T D₁ D₂ _ _ _ _ i j

/-- **Entry formula of the pipeline matrix in C01's form**, the cap included (`C01.sqra_entry`, hypotheses discharged by
`C02.borders_distances_aligned`) -/
theorem pipeline_entry (exp rnd : F → F) (kB NA T D : F) (s : Pipeline.SubGrids F) (hv : C14.Valid s) (E : List F)
    (i j : Nat) (hij : i ≠ j) :
    C14.pipelineQ exp rnd kB NA T D s E i j
      = if (i, j) ∈ Pipeline.idx (C14.geomS s) then
          D * Pipeline.dense (C14.geomS s) i j / (Pipeline.dense (C14.geomH s) i j * C14.volOf s i)
            * exp (C01.beta kB NA T * rnd (Pipeline.capf (E.getD i 0 - E.getD j 0)))
        else 0 :=
  Rate.rate_entry exp rnd kB NA T D _ _ _ _ i j (aligned_SH_via_C02 hv).1 (aligned_SH_via_C02 hv).2.1 hij

/-- **The diagonal of the pipeline matrix is non-positive** (`C01.sqra_diag_nonpos` through the chain) -/
theorem pipeline_diag_nonpos (exp rnd : F → F) (kB NA T D : F) (s : Pipeline.SubGrids F) (hv : C14.Valid s)
    (hp : C14.Positive s) (E : List F) (hexp : ∀ x, 0 < exp x) (hD : 0 ≤ D) (i : Nat) :
    C14.pipelineQ exp rnd kB NA T D s E i i ≤ 0 := by
  rw [pipelineQ_eq exp rnd kB NA T D s (wellFormed_of_valid hv) E i i]
  exact diag_nonpos exp rnd kB NA T D _ (geometry_of_valid hv) (positive_of_positive hp) _ hexp hD i

/-- **The exceptions of the real `get_rate_matrix` cannot occur in the pipeline, and C01's model returns the array of C14's
result.**  For any C01 sparse inputs `dist`, `surf` (coo or csr, any `indptr`) whose `.tocoo()` entries are what the writer
saved and whose shape is the number of cells, C01's `getRateMatrix` with the saved volumes returns `toarray()` of the csr
matrix of `C14.pipeline_ok`. -/
theorem pipeline_sqra_ok (exp rnd : F → F) (kB NA T D : F) (s : Pipeline.SubGrids F) (hv : C14.Valid s) (E : List F)
    (hE : E.length = s.nP * s.nB) (dist surf : Sqra.Sp F)
    (hdist : Rate.ofCoo dist.tocoo = s.toGrid.distances.entries)
    (hsurf : Rate.ofCoo surf.tocoo = s.toGrid.borders.entries) (hn : surf.n = s.nP * s.nB) :
    Sqra.getRateMatrix exp rnd kB NA E s.toGrid.volumes dist surf D T
      = .ok (Rate.toArray (s.nP * s.nB) (Pipeline.rateMat exp rnd kB NA T D (s.nP * s.nB) (C14.geomS s)
          (Pipeline.dataOf (C14.geomH s)) (C14.volOf s) (fun k => E.getD k 0))) := by
  have hd : C14.Distinct (Pipeline.Paths.targets ⟨"g", "v", "b", "d", "a"⟩) := by
    unfold C14.Distinct; decide +kernel
  have hok := C14.pipeline_ok exp rnd kB NA T D s hv ⟨"g", "v", "b", "d", "a"⟩ [] hd E hE
  rw [C14.pipeline_eq _ _ _ _ _ _ _ _ _ _ hd] at hok
  rw [Rate.getRateMatrix_gap exp rnd kB NA E _ dist surf D T _
    (by rw [Rate.getRateMatrix_entries_only exp rnd kB NA E _ (Rate.spP dist) s.toGrid.distances (Rate.spP surf)
          s.toGrid.borders D T hdist hsurf]; exact hok)]
  have hlen : s.toGrid.volumes.length = s.nP * s.nB := hv.vol_length
  have hent : ∀ e ∈ surf.tocoo.entries, e.row < s.nP * s.nB ∧ e.col < s.nP * s.nB := by
    intro e he
    have hm : Rate.entP e ∈ C14.geomS s := by
      have : Rate.ofCoo surf.tocoo = C14.geomS s := hsurf
      rw [← this]
      exact List.mem_map.mpr ⟨e, he, rfl⟩
    have := C14.full_stored _ _ _ _ _ _ hv.nP_gt hv.Rb_bounds hm
    exact ⟨this.1, this.2.1⟩
  have hg : Rate.guardError E s.toGrid.volumes surf = none := by
    unfold Rate.guardError
    have a1 : surf.tocoo.entries.any (fun e => decide (s.toGrid.volumes.length ≤ e.row)) = false := by
      rw [List.any_eq_false]; intro e he; have := (hent e he).1; simp; omega
    have a2 : surf.tocoo.entries.any (fun e => decide (E.length ≤ e.col)) = false := by
      rw [List.any_eq_false]; intro e he; have := (hent e he).2; simp; omega
    have hn1 : ¬ (surf.n ≠ s.toGrid.volumes.length ∨ surf.n = 1) := by
      have h2 : 2 ≤ s.nP * s.nB := Nat.mul_le_mul hv.nP_gt hv.nB_pos
      rw [hn, hlen]; omega
    simp only [a1, a2, hn1, Bool.false_eq_true, if_false]
  rw [hg]

/-! ## Non-vacuity: the concrete geometry of `C14.Example` satisfies the hypotheses of the chain -/

example : Geometry (inputsOf C14.Example.ex) := geometry_of_valid C14.Example.ex_valid
example : Positive (inputsOf C14.Example.ex) := positive_of_positive C14.Example.ex_positive
example : AdjConnected (inputsOf C14.Example.ex) :=
  adjConnected_of (wellFormed_of_valid C14.Example.ex_valid) C14.Example.ex_connected
example := spectrum (fun _ => (1 : Rat)) id 1 1 1 1 (inputsOf C14.Example.ex) (geometry_of_valid C14.Example.ex_valid)
  (positive_of_positive C14.Example.ex_positive) (fun k => C14.Example.exE.getD k 0) (fun _ _ => by norm_num) rfl
  (fun _ => by norm_num) (by norm_num) C14.Example.ex_belowCap
/-- the chain's matrix is not trivial on the example: C01's `rate` on C02's `full` gives `5/168` at `(0,1)` -/
example : Q (fun _ => 1) id 1 1 1 1 (inputsOf C14.Example.ex) (fun k => C14.Example.exE.getD k 0) 0 1 = 5 / 168 := by
  rw [← pipelineQ_eq (fun _ => 1) id 1 1 1 1 C14.Example.ex (wellFormed_of_valid C14.Example.ex_valid)]
  decide +kernel


/-- the hypotheses of `pipeline_sqra_ok` hold for the example's saved matrices given to C01 as `coo_array`s … -/
example : Rate.ofCoo (Sqra.Sp.coo (Rate.toCoo 4 (C14.geomS C14.Example.ex))).tocoo = C14.Example.ex.toGrid.borders.entries
    ∧ (Sqra.Sp.coo (Rate.toCoo 4 (C14.geomS C14.Example.ex))).n = C14.Example.ex.nP * C14.Example.ex.nB :=
  ⟨Rate.ofCoo_toCoo _ _, rfl⟩

/-- … and as csr matrices (`indptr`, `indices`, `data` of the canonical csr scipy builds for this geometry) -/
example :
    Rate.ofCoo (Sqra.Sp.csr ⟨4, [0, 2, 4, 6, 8], [1, 2, 0, 3, 0, 3, 1, 2], [5, 12, 5, 12, 12, 5, 12, 5]⟩).tocoo
      = C14.Example.ex.toGrid.borders.entries := by
  have h : Assembly.ofMat (Rate.ofCoo
        (Sqra.Sp.csr ⟨4, [0, 2, 4, 6, 8], [1, 2, 0, 3, 0, 3, 1, 2], [(5 : Rat), 12, 5, 12, 12, 5, 12, 5]⟩).tocoo)
      = Assembly.ofMat C14.Example.ex.toGrid.borders.entries := by decide +kernel
  rw [← Assembly.toMat_ofMat (Rate.ofCoo _), h, Assembly.toMat_ofMat]

end Molgri.Bridge.Chain
