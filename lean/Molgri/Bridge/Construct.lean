/-
Bridge I, part 1 — "constructing the grid yields exactly N points": the generator loops of `rotobj.py` terminate, on a
level that is a function of `(algorithm, N)` alone.

C17 (`Props/C17.lean`) leaves the clause "constructing the grid from it yields exactly N points" OPEN ("numerics").  The
generator loops ARE modelled, in C08's `Molgri.History` (`growUntil` with fuel `N + 1` and the artificial error `.loop`,
`genGrid`, `createGrid`), and `Bridge/PolyHistory`, `PolyIndex`, `PolyCounts` instantiate C08's abstract polytope with
C18's concrete graphs.  This file proves, for that canonical instance (`withPolytopes σ φ base`, ANY offset table `σ`,
any generator `rng` whose shuffle permutes):

* `leastFrom cnt N f d` — the first level `≥ d` (looking at `f + 1` levels) whose count is `≥ N`; `leastFrom_spec`;
* `growUntil_level` (any geometry `ext` with `Grows`): the `while len(count(polytope)) < N: divide_edges()` loop started
  on the canonical polytope of level `d` with fuel `f + 1` ends with `.ok ()` ON the canonical polytope of level
  `leastFrom cnt N f d`, provided level `d + f` has at least `N` rows — it never returns `.loop`;
* `nodeCount kind d` (C18's node count; the same for every offset table: `nodeCount_any`) is strictly increasing,
  `≥ d + 8`; the half count of the hypercube `halfCount4 d` is exactly half of it (`two_mul_halfCount4`), strictly
  increasing, `≥ d + 8`; tables `nodeCount_table`, `halfCount4_table`, `nodeCount_ico_table`, `nodeCount_cube3_table`;
* `levelFor alg N` — the number of subdivisions as a function of `(alg, N)` alone; `levelFor_spec`: it is the least
  level whose count is `≥ N`, and it is `≤ N`; `levelFor_unique`; explicit values `levelFor_ico_table` (`N ≤ 162`),
  `levelFor_cube3D_table` (`N ≤ 386`), `levelFor_cube4D_table` (`N ≤ 2080`);
* `canon_nodes_rows`, `canon_half_rows`: on the canonical polytope of every level `get_nodes()` returns `nodeCount` rows
  and `get_half_of_hypercube()` returns `halfCount4` rows — the latter under `Radial` and `UpperAt φ base d`, the
  hypothesis `UpperAgree` of `PolyIndex.half_eq_c18` restricted to the level in question (`half_eq_c18_at`);
* `growUntil_nodes_no_loop`, `growUntil_half_no_loop`: the two loops of `_gen_grid` with the fuel `N + 1` of `genGrid`
  end with `.ok ()` on level `levelFor alg N`, for every `N` and every generator state.

`Bridge/ConstructCount.lean` (part 1b) gives the counts of the cube and the hypercube in closed form for every level
(`6·4^d + 2`, `8·8^d + 8·2^d`, half: `4·8^d + 4·2^d`); `Bridge/ConstructGrid.lean` (part 2) derives the results about
`genGrid` / `createGrid` and the tie to C17's parser; `Bridge/ConstructReal.lean` (part 3) is the instance over `ℝ`.
-/
import Molgri.Bridge.PolyIndex
import Molgri.Bridge.PolyCounts

set_option linter.unusedSectionVars false

namespace Molgri.Bridge.Construct
open Molgri.History
open Molgri.Bridge.PolyKey
open Molgri.Bridge.PolyHistory
open Molgri.Bridge.PolyIndex
open Molgri.Polytope (Pt Kind St dbl mid)

/-! ### the first level whose count reaches `N` -/

/-- the first level among `d, d+1, …, d+f` whose count is at least `N` (`d + f` if none of the earlier ones is). -/
def leastFrom (cnt : Nat → Nat) (N : Nat) : Nat → Nat → Nat
  | 0, d => d
  | f + 1, d => if N ≤ cnt d then d else leastFrom cnt N f (d + 1)

/-- `leastFrom` is the LEAST level `≥ d` with at least `N` rows, whenever level `d + f` has at least `N` rows. -/
theorem leastFrom_spec (cnt : Nat → Nat) (N : Nat) (f d : Nat) (h : N ≤ cnt (d + f)) :
    d ≤ leastFrom cnt N f d ∧ leastFrom cnt N f d ≤ d + f ∧ N ≤ cnt (leastFrom cnt N f d) ∧
      ∀ j, d ≤ j → j < leastFrom cnt N f d → cnt j < N := by
  induction f generalizing d with
  | zero => exact ⟨Nat.le_refl _, Nat.le_refl _, h, fun j h1 h2 => absurd h2 (by simp only [leastFrom]; omega)⟩
  | succ f ih =>
    unfold leastFrom
    by_cases hd : N ≤ cnt d
    · rw [if_pos hd]
      exact ⟨Nat.le_refl _, by omega, hd, fun j h1 h2 => by omega⟩
    · rw [if_neg hd]
      obtain ⟨h1, h2, h3, h4⟩ := ih (d + 1) (by rw [show d + 1 + f = d + (f + 1) by omega]; exact h)
      refine ⟨by omega, by omega, h3, ?_⟩
      intro j hj hjl
      by_cases hjd : j = d
      · subst hjd; omega
      · exact h4 j (by omega) hjl

/-- the least level does not depend on how far one is prepared to look -/
theorem leastFrom_unique (cnt : Nat → Nat) (N L d : Nat) (hd : d ≤ L) (hL : N ≤ cnt L)
    (hmin : ∀ j, d ≤ j → j < L → cnt j < N) (f : Nat) (hf : L ≤ d + f) : leastFrom cnt N f d = L := by
  induction f generalizing d with
  | zero => simp only [leastFrom]; omega
  | succ f ih =>
    unfold leastFrom
    by_cases hdL : d = L
    · subst hdL; rw [if_pos hL]
    · have := hmin d (Nat.le_refl _) (by omega)
      rw [if_neg (by omega)]
      exact ih (d + 1) (by omega) (fun j h1 h2 => hmin j (by omega) h2) (by omega)

/-! ### the `while` loop on a canonical polytope (any geometry) -/

section Generic
variable {Γ Pt W O R : Type} [DecidableEq Pt]

/-- **The loop `while len(count(polytope)) < N: polytope.divide_edges()` never runs out of fuel.**  For any geometry
with `Grows`: if `count` is a getter (does not touch the core, keeps the cache usable) that returns `cnt d'` rows on the
canonical polytope of every level `d'` the loop visits (`d' ≤ leastFrom cnt N f d`), then the loop started on level `d`
with fuel `f + 1` returns `.ok ()` — never `.loop`, never an error of `count` — on the canonical polytope of level
`leastFrom cnt N f d`, provided `N ≤ cnt (d + f)`. -/
theorem growUntil_level (ext : Ext Γ Pt W O) (rng : Rng R W) (hg : Grows ext rng) (k : PolyKind)
    (count : Poly Γ Pt → Poly Γ Pt × Except Err (List Pt)) (cnt : Nat → Nat)
    (hcore : ∀ P, SameCore (count P).1 P) (hcache : ∀ P, CacheOk P → CacheOk (count P).1) (N : Nat) :
    ∀ (f d : Nat) (r : R) (P : Poly Γ Pt), SameCore P (canonPoly ext rng k d) → CacheOk P → N ≤ cnt (d + f) →
      (∀ P' d', d' ≤ leastFrom cnt N f d → SameCore P' (canonPoly ext rng k d') → CacheOk P' →
        ∃ rows, (count P').2 = .ok rows ∧ rows.length = cnt d') →
      ∃ r' P', growUntil ext rng count N (f + 1) r P = (r', P', .ok ()) ∧
        SameCore P' (canonPoly ext rng k (leastFrom cnt N f d)) ∧ CacheOk P' := by
  intro f
  induction f with
  | zero =>
    intro d r P hc hk hN hres
    obtain ⟨rows, hr, hl⟩ := hres P d (Nat.le_refl _) hc hk
    refine ⟨r, (count P).1, ?_, (hcore P).trans hc, hcache P hk⟩
    rw [Nat.add_zero] at hN
    simp only [growUntil, hr]
    rw [if_neg (by omega)]
  | succ f ih =>
    intro d r P hc hk hN hres
    obtain ⟨rows, hr, hl⟩ := hres P d (leastFrom_spec cnt N (f + 1) d hN).1 hc hk
    by_cases hd : N ≤ cnt d
    · refine ⟨r, (count P).1, ?_, ?_, hcache P hk⟩
      · simp only [growUntil, hr]
        rw [if_neg (by omega)]
      · unfold leastFrom; rw [if_pos hd]; exact (hcore P).trans hc
    · have hQ : SameCore (count P).1 (canonPoly ext rng k d) := (hcore P).trans hc
      have hQk : (count P).1.kind = k := by rw [hQ.1, canonPoly_kind]
      have hD : SameCore (divideEdges ext rng r (count P).1).2 (canonPoly ext rng k (d + 1)) :=
        divideEdges_core ext rng r (rng.seed 0) _ _ hQ
      obtain ⟨_, _, hDk⟩ := divide_ok ext rng hg r (count P).1 ⟨d, by rw [hQk]; exact hQ, hcache P hk⟩
      have hL : leastFrom cnt N (f + 1) d = leastFrom cnt N f (d + 1) := by
        conv => lhs; unfold leastFrom
        rw [if_neg hd]
      obtain ⟨r', P', h1, h2, h3⟩ := ih (d + 1) (divideEdges ext rng r (count P).1).1
        (divideEdges ext rng r (count P).1).2 hD hDk (by rw [show d + 1 + f = d + (f + 1) by omega]; exact hN)
        (fun P' d' hd' => hres P' d' (by rw [hL]; exact hd'))
      refine ⟨r', P', ?_, ?_, h3⟩
      · rw [← h1]
        conv => lhs; unfold growUntil
        simp only [hr]
        rw [if_pos (by omega)]
      · rw [hL]; exact h2

end Generic

/-! ### C18's node counts -/

/-- the offset table that does not shuffle -/
def idσ : Nat → Nat → Nat → Nat := fun _ _ j => j

/-- number of nodes of the polytope after `d` divisions (C18's model; no generator, no geometry parameter in it) -/
def nodeCount (kind : Kind) (d : Nat) : Nat := (Molgri.Polytope.iter idσ kind d).nodes.length

/-- the node count is the same for every offset table -/
theorem nodeCount_any (σ : Nat → Nat → Nat → Nat) (kind : Kind) (d : Nat) :
    (Molgri.Polytope.iter σ kind d).nodes.length = nodeCount kind d := by
  have h := (sim_iter σ idσ kind d).1
  have := congrArg List.length h
  simpa [nodeCount] using this

theorem nodeCount_zero : nodeCount .ico 0 = 12 ∧ nodeCount .cube3 0 = 8 ∧ nodeCount .cube4 0 = 16 := by
  have h : ∀ kind, nodeCount kind 0 = (vertices kind).length := by
    intro kind
    unfold nodeCount
    rw [← iter_zero_nodes idσ kind, List.length_map]
  refine ⟨?_, ?_, ?_⟩ <;> rw [h] <;> rfl

/-- **node counts are strictly increasing** (every division has an edge, every midpoint is a new node) -/
theorem nodeCount_lt (kind : Kind) (d : Nat) : nodeCount kind d < nodeCount kind (d + 1) := by
  unfold nodeCount
  have h := congrArg List.length (iter_succ_nodes idσ kind d)
  simp only [List.length_map, List.length_append] at h
  rw [h]
  have hne : (Molgri.Polytope.extraNodes (preDiv kind (Molgri.Polytope.iter idσ kind d))) ≠ [] := by
    intro he
    obtain ⟨e, hee⟩ := List.exists_mem_of_ne_nil _ (preDiv_edges_ne_nil idσ kind d)
    have := ((Molgri.Polytope.extraNodes_spec _).2.1 (mid e.1 e.2)).mpr ⟨e, hee, rfl⟩
    rw [he] at this
    cases this
  have := List.length_pos_of_ne_nil hne
  omega

theorem nodeCount_mono (kind : Kind) {a b : Nat} (h : a ≤ b) : nodeCount kind a ≤ nodeCount kind b := by
  induction h with
  | refl => exact Nat.le_refl _
  | step _ ih => exact Nat.le_trans ih (Nat.le_of_lt (nodeCount_lt kind _))

/-- **`nodeCount kind d ≥ d + 8`** (`d + 12` for the icosahedron, `d + 16` for the hypercube) -/
theorem nodeCount_ge (kind : Kind) (d : Nat) : d + 8 ≤ nodeCount kind d := by
  induction d with
  | zero =>
    obtain ⟨h1, h2, h3⟩ := nodeCount_zero
    cases kind <;> omega
  | succ d ih => have := nodeCount_lt kind d; omega

/-- number of rows of `get_half_of_hypercube()` after `d` divisions -/
def halfCount4 (d : Nat) : Nat := nodeCount .cube4 d / 2

theorem idσ_permFam : Molgri.Polytope.PermFam idσ := by
  intro l n
  show ((List.range n).map (fun j => j)).Perm (List.range n)
  rw [List.map_id']

/-- **the half selection has exactly half of the nodes**, every level -/
theorem two_mul_halfCount4 (d : Nat) : 2 * halfCount4 d = nodeCount .cube4 d := by
  have h := PolyCounts.half_length idσ idσ_permFam d _
    (Molgri.Polytope.getHalf_eq (Molgri.C18.good_iter idσ idσ_permFam .cube4 d))
  unfold halfCount4
  unfold nodeCount at h ⊢
  omega

theorem halfCount4_lt (d : Nat) : halfCount4 d < halfCount4 (d + 1) := by
  have := two_mul_halfCount4 d
  have := two_mul_halfCount4 (d + 1)
  have := nodeCount_lt .cube4 d
  omega

theorem halfCount4_ge (d : Nat) : d + 8 ≤ halfCount4 d := by
  induction d with
  | zero => have := two_mul_halfCount4 0; have := nodeCount_zero.2.2; omega
  | succ d ih => have := halfCount4_lt d; omega

/-- hypercube: 16, 80, 544, 4160 nodes after 0, 1, 2, 3 divisions -/
theorem nodeCount_table :
    nodeCount .cube4 0 = 16 ∧ nodeCount .cube4 1 = 80 ∧ nodeCount .cube4 2 = 544 ∧ nodeCount .cube4 3 = 4160 :=
  PolyCounts.hypercube_node_counts idσ

/-- half hypercube: 8, 40, 272, 2080 rows after 0, 1, 2, 3 divisions — the `fulldiv` table -/
theorem halfCount4_table : halfCount4 0 = 8 ∧ halfCount4 1 = 40 ∧ halfCount4 2 = 272 ∧ halfCount4 3 = 2080 := by
  obtain ⟨h0, h1, h2, h3⟩ := nodeCount_table
  have := two_mul_halfCount4 0
  have := two_mul_halfCount4 1
  have := two_mul_halfCount4 2
  have := two_mul_halfCount4 3
  omega

/-- `halfCount4 (fulldivAllowed.idxOf N) = N` for the four allowed sizes -/
theorem halfCount4_fulldiv (N : Nat) (hN : N ∈ fulldivAllowed) : halfCount4 (fulldivAllowed.idxOf N) = N := by
  obtain ⟨h0, h1, h2, h3⟩ := halfCount4_table
  simp only [fulldivAllowed, List.mem_cons, List.not_mem_nil, or_false] at hN
  rcases hN with rfl | rfl | rfl | rfl
  · exact h0
  · exact h1
  · exact h2
  · exact h3

/-! ### the number of subdivisions as a function of `(alg, N)` -/

/-- what the loop of `_gen_grid` counts: all nodes (`ico`, `cube3D`) or the rows of the half selection (`cube4D`) -/
def countFor : Alg → Nat → Nat
  | .ico => nodeCount .ico
  | .cube3D => nodeCount .cube3
  | .cube4D => halfCount4
  | .fulldiv => halfCount4
  | _ => fun _ => 0

/-- **The number of `divide_edges()` calls of the generator of `alg` for `N` points** — a function of `(alg, N)` alone:
the least level whose count is `≥ N` for the three loops, the position in the table for `fulldiv`, no polytope for the
random and zero generators. -/
def levelFor (alg : Alg) (N : Nat) : Nat :=
  match alg with
  | .ico | .cube3D | .cube4D => leastFrom (countFor alg) N N 0
  | .fulldiv => fulldivAllowed.idxOf N
  | _ => 0

theorem countFor_ge (alg : Alg) (h : alg = .ico ∨ alg = .cube3D ∨ alg = .cube4D) (d : Nat) : d + 8 ≤ countFor alg d := by
  rcases h with rfl | rfl | rfl
  · exact nodeCount_ge .ico d
  · exact nodeCount_ge .cube3 d
  · exact halfCount4_ge d

theorem countFor_lt (alg : Alg) (h : alg = .ico ∨ alg = .cube3D ∨ alg = .cube4D) (d : Nat) :
    countFor alg d < countFor alg (d + 1) := by
  rcases h with rfl | rfl | rfl
  · exact nodeCount_lt .ico d
  · exact nodeCount_lt .cube3 d
  · exact halfCount4_lt d

/-- **`levelFor` is the least level with at least `N` rows**, it is at most `N` (so the fuel `N + 1` of `genGrid` is
enough), and because the counts are strictly increasing every later level has at least `N` rows as well. -/
theorem levelFor_spec (alg : Alg) (h : alg = .ico ∨ alg = .cube3D ∨ alg = .cube4D) (N : Nat) :
    levelFor alg N ≤ N ∧ N ≤ countFor alg (levelFor alg N) ∧ (∀ j, j < levelFor alg N → countFor alg j < N) ∧
      ∀ j, levelFor alg N ≤ j → N ≤ countFor alg j := by
  have hN : N ≤ countFor alg (0 + N) := by rw [Nat.zero_add]; have := countFor_ge alg h N; omega
  have hl : levelFor alg N = leastFrom (countFor alg) N N 0 := by rcases h with rfl | rfl | rfl <;> rfl
  obtain ⟨_, h2, h3, h4⟩ := leastFrom_spec (countFor alg) N N 0 hN
  rw [hl]
  refine ⟨by omega, h3, fun j hj => h4 j (Nat.zero_le _) hj, ?_⟩
  intro j hj
  induction hj with
  | refl => exact h3
  | step _ ih => exact Nat.le_trans ih (Nat.le_of_lt (countFor_lt alg h _))

/-- a level with at least `N` rows all of whose predecessors have fewer IS `levelFor alg N` -/
theorem levelFor_unique (alg : Alg) (h : alg = .ico ∨ alg = .cube3D ∨ alg = .cube4D) (N L : Nat)
    (hL : N ≤ countFor alg L) (hmin : ∀ j, j < L → countFor alg j < N) : levelFor alg N = L := by
  have hl : levelFor alg N = leastFrom (countFor alg) N N 0 := by rcases h with rfl | rfl | rfl <;> rfl
  have hLN : L ≤ N := by
    by_contra hc
    have := hmin N (by omega)
    have := countFor_ge alg h N
    omega
  rw [hl]
  exact leastFrom_unique (countFor alg) N L 0 (Nat.zero_le _) hL (fun j _ hj => hmin j hj) N (by omega)

/-- icosahedron: 12, 42, 162 nodes after 0, 1, 2 divisions (C07's kernel table of the exact `ℤ[φ]` node lists, transferred
by `PolyLattice.icoExact_nodes_length`) -/
theorem nodeCount_ico_table : nodeCount .ico 0 = 12 ∧ nodeCount .ico 1 = 42 ∧ nodeCount .ico 2 = 162 := by
  have h := Molgri.C07.ico_exact_levels_table_partial.1
  simp only [Prod.mk.injEq] at h
  obtain ⟨h0, h1, h2⟩ := h
  unfold nodeCount
  rw [← PolyLattice.icoExact_nodes_length idσ 0, ← PolyLattice.icoExact_nodes_length idσ 1,
    ← PolyLattice.icoExact_nodes_length idσ 2]
  exact ⟨h0, h1, h2⟩

/-- cube: 8, 26, 98, 386 nodes after 0, 1, 2, 3 divisions (`‖p‖∞ = 2^(d-1)` lattice of C07, counted by the kernel) -/
theorem nodeCount_cube3_table :
    nodeCount .cube3 0 = 8 ∧ nodeCount .cube3 1 = 26 ∧ nodeCount .cube3 2 = 98 ∧ nodeCount .cube3 3 = 386 := by
  have hk : ∀ k, nodeCount .cube3 (k + 1) = (Molgri.Hemi.cubeLattice 3 (2 ^ k)).length := by
    intro k
    have := (PolyLattice.cube_nodes_perm_hemi_lattice idσ .cube3 (Or.inl rfl) k).length_eq
    rw [List.length_map, List.length_map] at this
    exact this
  have ht : (Molgri.Hemi.cubeLattice 3 1).length = 26 ∧ (Molgri.Hemi.cubeLattice 3 2).length = 98 ∧
      (Molgri.Hemi.cubeLattice 3 4).length = 386 := by decide +kernel
  refine ⟨nodeCount_zero.2.1, ?_, ?_, ?_⟩
  · rw [hk 0]; exact ht.1
  · rw [hk 1]; exact ht.2.1
  · rw [hk 2]; exact ht.2.2

/-- the levels of `ico` for every `N ≤ 162`, explicitly -/
theorem levelFor_ico_table (N : Nat) :
    (N ≤ 12 → levelFor .ico N = 0) ∧ (12 < N → N ≤ 42 → levelFor .ico N = 1) ∧
    (42 < N → N ≤ 162 → levelFor .ico N = 2) := by
  obtain ⟨h0, h1, h2⟩ := nodeCount_ico_table
  have key := levelFor_unique .ico (Or.inl rfl) N
  simp only [countFor] at key
  refine ⟨fun h => key 0 (by omega) (fun j hj => by omega), fun ha hb => key 1 (by omega) ?_,
    fun ha hb => key 2 (by omega) ?_⟩
  · intro j hj
    have : j = 0 := by omega
    subst this; omega
  · intro j hj
    have : j = 0 ∨ j = 1 := by omega
    rcases this with rfl | rfl <;> omega

/-- the levels of `cube3D` for every `N ≤ 386`, explicitly -/
theorem levelFor_cube3D_table (N : Nat) :
    (N ≤ 8 → levelFor .cube3D N = 0) ∧ (8 < N → N ≤ 26 → levelFor .cube3D N = 1) ∧
    (26 < N → N ≤ 98 → levelFor .cube3D N = 2) ∧ (98 < N → N ≤ 386 → levelFor .cube3D N = 3) := by
  obtain ⟨h0, h1, h2, h3⟩ := nodeCount_cube3_table
  have key := levelFor_unique .cube3D (Or.inr (Or.inl rfl)) N
  simp only [countFor] at key
  refine ⟨fun h => key 0 (by omega) (fun j hj => by omega), fun ha hb => key 1 (by omega) ?_,
    fun ha hb => key 2 (by omega) ?_, fun ha hb => key 3 (by omega) ?_⟩
  · intro j hj
    have : j = 0 := by omega
    subst this; omega
  · intro j hj
    have : j = 0 ∨ j = 1 := by omega
    rcases this with rfl | rfl <;> omega
  · intro j hj
    have : j = 0 ∨ j = 1 ∨ j = 2 := by omega
    rcases this with rfl | rfl | rfl <;> omega

/-- the levels of `cube4D` for every `N ≤ 2080`, explicitly -/
theorem levelFor_cube4D_table (N : Nat) :
    (N ≤ 8 → levelFor .cube4D N = 0) ∧ (8 < N → N ≤ 40 → levelFor .cube4D N = 1) ∧
    (40 < N → N ≤ 272 → levelFor .cube4D N = 2) ∧ (272 < N → N ≤ 2080 → levelFor .cube4D N = 3) := by
  obtain ⟨h0, h1, h2, h3⟩ := halfCount4_table
  have key := levelFor_unique .cube4D (Or.inr (Or.inr rfl)) N
  simp only [countFor] at key
  refine ⟨fun h => key 0 (by omega) (fun j hj => by omega), fun ha hb => key 1 (by omega) ?_,
    fun ha hb => key 2 (by omega) ?_, fun ha hb => key 3 (by omega) ?_⟩
  · intro j hj
    have : j = 0 := by omega
    subst this; omega
  · intro j hj
    have : j = 0 ∨ j = 1 := by omega
    rcases this with rfl | rfl <;> omega
  · intro j hj
    have : j = 0 ∨ j = 1 ∨ j = 2 := by omega
    rcases this with rfl | rfl | rfl <;> omega

/-! ### the counts on C08's canonical polytopes -/

section Concrete
variable {K : Type} [Field K] [LinearOrder K] [IsStrictOrderedRing K] {W O R : Type}
variable (σ : Nat → Nat → Nat → Nat) (φ : K) (base : Ext St (List K) W O) (rng : Rng R W)

/-- C08's canonical polytope has `nodeCount` nodes (every class, every level, every offset table) -/
theorem canon_nodes_length (hφ : φ * φ = φ + 1) (hs : ShufflePerm rng) (k : PolyKind) (d : Nat) :
    (canonPoly (withPolytopes σ φ base) rng k d).nodes.length = nodeCount (kindOf k) d := by
  rw [canonPoly_node_count σ φ base rng hφ hs k d, nodeCount_any]

/-- `get_nodes()` on the canonical polytope returns `nodeCount` rows — never an error. -/
theorem canon_nodes_rows (hφ : φ * φ = φ + 1) (hs : ShufflePerm rng) (k : PolyKind) (d : Nat) (proj : Bool) :
    ∃ rows, getNodesPure (canonPoly (withPolytopes σ φ base) rng k d).nodes none proj = .ok rows ∧
      rows.length = nodeCount (kindOf k) d := by
  have hinv := canonPoly_inv _ rng hs (concrete_fresh σ φ base rng hφ hs) k d
  refine ⟨_, getNodesPure_all _ hinv.nodupKeys (fun nd h => (hinv.ci nd h).imp fun _ h => h.1) proj, ?_⟩
  rw [← canon_nodes_length σ φ base rng hφ hs k d]
  cases proj
  · simp only [Bool.false_eq_true, if_false, sortedKeys_length]
  · simp only [if_true, projRows, List.length_map, (sortBy_perm ciKey _).length_eq]

/-- `get_nodes(N, projection=True)` on the canonical polytope, `N` not larger than the node count: exactly `N` rows. -/
theorem canon_nodes_take (hφ : φ * φ = φ + 1) (hs : ShufflePerm rng) (k : PolyKind) (d N : Nat)
    (hN : N ≤ nodeCount (kindOf k) d) :
    ∃ rows, getNodesPure (canonPoly (withPolytopes σ φ base) rng k d).nodes (some N) true = .ok rows ∧
      rows.length = N := by
  have hinv := canonPoly_inv _ rng hs (concrete_fresh σ φ base rng hφ hs) k d
  have hlen := canon_nodes_length σ φ base rng hφ hs k d
  rw [getNodesPure_eq _ hinv.nodupKeys (fun nd h => (hinv.ci nd h).imp fun _ h => h.1) (some N) true]
  simp only [Option.getD_some, if_true]
  rw [if_neg (by omega)]
  refine ⟨_, rfl, ?_⟩
  rw [List.length_take, projRows, List.length_map, (sortBy_perm ciKey _).length_eq]
  omega

/-- the half selection reads the geometry parameter only through `upper`, which `withPolytopes` does not replace -/
theorem halfPure_sigma (σ' : Nat → Nat → Nat → Nat) (nodes : List (Node (List K))) (N : Option Nat) (proj : Bool) :
    halfPure (withPolytopes σ φ base) .cube4D nodes N proj = halfPure (withPolytopes σ' φ base) .cube4D nodes N proj :=
  rfl

/-- `PolyIndex.UpperAgree` at ONE level `d`: on the hypercube lattice of level `d` the implementation's hemisphere test on
the projected row agrees with C18's exact test on the integer node.  (`UpperAgree φ base ↔ ∀ d, UpperAt φ base d`; the
all-levels statement is too strong for a test with a tolerance — `np.allclose(·, 0)` — because the non-zero projected
coordinates shrink like `2^-d`; the loops below only look at the levels `≤ levelFor alg N`.) -/
def UpperAt (d : Nat) : Prop :=
  ∀ p, LatOf .cube4 d p → base.upper (base.proj (keyAt φ .cube4 d p)) = Molgri.Polytope.inUpper p

/-- agreement on every level up to `L` -/
def UpperUpTo (L : Nat) : Prop := ∀ d, d ≤ L → UpperAt φ base d

theorem upperUpTo_of_agree (hup : UpperAgree φ base) (L : Nat) : UpperUpTo φ base L := fun d _ => hup d

theorem UpperUpTo.mono {L L' : Nat} (h : UpperUpTo φ base L) (hl : L' ≤ L) : UpperUpTo φ base L' :=
  fun d hd => h d (Nat.le_trans hd hl)

/-- `PolyIndex.half_eq_c18` with the hypothesis at level `d` only (same proof: the hemisphere test is applied to the
projected rows of level `d` and to nothing else). -/
theorem half_eq_c18_at (hφ : φ * φ = φ + 1) (hφ0 : 0 < φ) (hs : ShufflePerm rng) (hproj : Radial base.proj)
    (d : Nat) (hup : UpperAt φ base d) (N : Option Nat) (proj : Bool) :
    (halfOfHypercube (withPolytopes (inducedσ rng) φ base)
        (canonPoly (withPolytopes (inducedσ rng) φ base) rng .cube4D d) N proj).2 =
      match Molgri.Polytope.getHalf (Molgri.Polytope.iter (inducedσ rng) .cube4 d) N with
      | .ok rows => .ok (rows.map (rowOf φ base .cube4 d proj))
      | .error _ => .error .valueError := by
  have hsy := sync (inducedσ rng) φ base rng hφ hs .cube4D d
  have hf := concrete_fresh (inducedσ rng) φ base rng hφ hs
  have hpn := concrete_projNodup (inducedσ rng) φ base rng hφ hφ0 hs hproj
  have hg := Molgri.C18.good_iter (inducedσ rng) (induced_permFam rng hs) .cube4 d
  have hc : ∀ nd ∈ (canonPoly (withPolytopes (inducedσ rng) φ base) rng .cube4D d).nodes, ∃ c, nd.ci = some c :=
    fun nd hnd => (hsy.inv.ci nd hnd).imp fun c hc => hc.1
  have hnd : ((Molgri.Polytope.sortByIdx (Molgri.Polytope.iter (inducedσ rng) .cube4 d).nodes).map
      (rowOf φ base .cube4 d true)).Nodup := by
    have h1 := rows_sync φ base rng hφ hs .cube4D d true
    simp only [if_true] at h1
    rw [show kindOf .cube4D = Kind.cube4 from rfl] at h1
    rw [← h1]
    unfold projRows
    exact ((sortBy_perm ciKey _).map _).nodup_iff.mpr (canon_proj_nodup _ rng hs hf hpn .cube4D d)
  rw [half_res _ _ _ _ (canonPoly_cacheOk _ rng .cube4D d), canonPoly_kind,
    halfPure_of_rows _ _ hsy.inv.nodupKeys hc proj _ _ _
      (by have := rows_sync φ base rng hφ hs .cube4D d true; simp only [if_true] at this; exact this)
      (rows_sync φ base rng hφ hs .cube4D d proj) hnd N,
    getHalf_cases hg N]
  have hfil : (Molgri.Polytope.sortByIdx (Molgri.Polytope.iter (inducedσ rng) .cube4 d).nodes).filter
        (fun x => (withPolytopes (inducedσ rng) φ base).upper (rowOf φ base .cube4 d true x)) =
      (Molgri.Polytope.sortByIdx (Molgri.Polytope.iter (inducedσ rng) .cube4 d).nodes).filter
        (fun nd => Molgri.Polytope.inUpper nd.pt) := by
    apply List.filter_congr
    intro x hx
    have hx' : x.pt ∈ (Molgri.Polytope.iter (inducedσ rng) .cube4 d).nodes.map (·.pt) :=
      List.mem_map_of_mem ((Molgri.Polytope.sortByIdx_perm _).subset hx)
    exact hup x.pt ((iter_nodes_lat (inducedσ rng) .cube4 d x.pt).mp hx')
  rw [show kindOf .cube4D = Kind.cube4 from rfl, hfil]
  split
  · rfl
  · simp only [List.map_take]

/-- `get_half_of_hypercube()` on the canonical hypercube of level `d` returns `halfCount4 d` rows — never an error.
Hypotheses: radial normalisation and the agreement of the hemisphere tests AT LEVEL `d`. -/
theorem canon_half_rows (hφ : φ * φ = φ + 1) (hφ0 : 0 < φ) (hs : ShufflePerm rng) (hproj : Radial base.proj)
    (d : Nat) (hup : UpperAt φ base d) (proj : Bool) :
    ∃ rows, halfPure (withPolytopes σ φ base) .cube4D (canonPoly (withPolytopes σ φ base) rng .cube4D d).nodes none proj
        = .ok rows ∧ rows.length = halfCount4 d := by
  have hσ := induced_permFam rng hs
  have h1 := half_eq_c18_at φ base rng hφ hφ0 hs hproj d hup none proj
  rw [half_res _ _ _ _ (canonPoly_cacheOk _ rng .cube4D d), canonPoly_kind,
    Molgri.Polytope.getHalf_eq (Molgri.C18.good_iter (inducedσ rng) hσ .cube4 d)] at h1
  have h2 := PolyCounts.half_length (inducedσ rng) hσ d _
    (Molgri.Polytope.getHalf_eq (Molgri.C18.good_iter (inducedσ rng) hσ .cube4 d))
  rw [nodeCount_any, ← two_mul_halfCount4] at h2
  rw [(canonPoly_sigma_indep φ base rng hφ hs σ (inducedσ rng) .cube4D d).2.1, halfPure_sigma σ φ base (inducedσ rng), h1]
  exact ⟨_, rfl, by rw [List.length_map]; omega⟩

/-! ### the two loops of `_gen_grid` -/

/-- **`while len(self.polytope.get_nodes()) < self.N: self.polytope.divide_edges()` with the fuel of `genGrid`** ends with
`.ok ()` — not `.loop`, not an error — on the canonical polytope of level `levelFor alg N`, for every `N`, every generator
state `r`, every offset table. -/
theorem growUntil_nodes_no_loop (hφ : φ * φ = φ + 1) (hs : ShufflePerm rng) (a : Alg) (ha : a = .ico ∨ a = .cube3D)
    (r : R) (N : Nat) :
    ∃ r' P', growUntil (withPolytopes σ φ base) rng (fun P => getNodes P none false) N (N + 1)
        (newPoly (withPolytopes σ φ base) rng r (kindOf3 a)).1 (newPoly (withPolytopes σ φ base) rng r (kindOf3 a)).2
        = (r', P', .ok ()) ∧
      SameCore P' (canonPoly (withPolytopes σ φ base) rng (kindOf3 a) (levelFor a N)) ∧ CacheOk P' := by
  have hg := concrete_grows σ φ base rng hφ hs
  have hcnt : countFor a = nodeCount (kindOf (kindOf3 a)) := by rcases ha with rfl | rfl <;> rfl
  have hl : levelFor a N = leastFrom (countFor a) N N 0 := by rcases ha with rfl | rfl <;> rfl
  have ha' : a = .ico ∨ a = .cube3D ∨ a = .cube4D := by rcases ha with h | h <;> simp [h]
  rw [hl]
  refine growUntil_level _ rng hg (kindOf3 a) _ (countFor a) (fun P => getNodes_core P none false)
    (fun P h => getNodes_cacheOk P none false h) N N 0 _ _ (SameCore.refl _) (canonPoly_cacheOk _ rng _ 0) ?_ ?_
  · rw [Nat.zero_add]; have := countFor_ge a ha' N; omega
  · intro P d _ hc hk
    obtain ⟨rows, h1, h2⟩ := canon_nodes_rows σ φ base rng hφ hs (kindOf3 a) d false
    exact ⟨rows, by rw [getNodes_res P none false hk, hc.2.2.1]; exact h1, by rw [h2, hcnt]⟩

/-- **`while len(self.polytope.get_half_of_hypercube()) < self.N: self.polytope.divide_edges()` with the fuel of
`genGrid`** ends with `.ok ()` on the canonical hypercube of level `levelFor .cube4D N`; the hemisphere tests need to agree
only on the levels the loop visits (`≤ levelFor .cube4D N`). -/
theorem growUntil_half_no_loop (hφ : φ * φ = φ + 1) (hφ0 : 0 < φ) (hs : ShufflePerm rng) (hproj : Radial base.proj)
    (r : R) (N : Nat) (hup : UpperUpTo φ base (levelFor .cube4D N)) :
    ∃ r' P', growUntil (withPolytopes σ φ base) rng (fun P => halfOfHypercube (withPolytopes σ φ base) P none false) N
        (N + 1) (newPoly (withPolytopes σ φ base) rng r .cube4D).1 (newPoly (withPolytopes σ φ base) rng r .cube4D).2
        = (r', P', .ok ()) ∧
      SameCore P' (canonPoly (withPolytopes σ φ base) rng .cube4D (levelFor .cube4D N)) ∧ CacheOk P' := by
  have hg := concrete_grows σ φ base rng hφ hs
  refine growUntil_level _ rng hg .cube4D _ halfCount4 (fun P => half_core _ P none false)
    (fun P h => half_cacheOk _ P none false h) N N 0 _ _ (SameCore.refl _) (canonPoly_cacheOk _ rng _ 0) ?_ ?_
  · rw [Nat.zero_add]; have := halfCount4_ge N; omega
  · intro P d hd hc hk
    obtain ⟨rows, h1, h2⟩ := canon_half_rows σ φ base rng hφ hφ0 hs hproj d (hup d hd) false
    refine ⟨rows, ?_, h2⟩
    rw [half_res _ P none false hk, hc.1, canonPoly_kind, hc.2.2.1]
    exact h1

end Concrete

end Molgri.Bridge.Construct
