/-
Bridge I, part 4 — the hypothesis `UpperUpTo` of `Bridge/ConstructGrid.lean` discharged by bridge J
(`Bridge/UpperAgree.lean`): "constructing the grid yields exactly N points" under CONCRETE conditions on the hemisphere
test and the normalisation.

`ConstructGrid.genGrid_cube4D`, `genGrid_fulldiv`, `genGrid_exact`, `createGrid_exact`, `construct_parsed`,
`create_parsed` assume `UpperUpTo φ base L` (`L = levelFor alg N`): on the hypercube lattices of levels `0 … L` the
implementation's `q_in_upper_sphere` on the projected row agrees with C18's exact test on the integer node.  Bridge J
proves that agreement level by level (`UpperAgree.UpperAgreeAt`) from a specification of the test
(`UpperIs base tol`: `q_in_upper_sphere` with `np.allclose(·, 0)` read as `|x| ≤ tol`) and of the normalisation
(`Euclid base.proj`: `p / ‖p‖₂`): it holds at level `d` whenever `tol < euclidBound d` (`1/2, 1/2, 1/4, …, 2^-d`), for
numpy's `atol = 1e-8` at every level `d ≤ 26`, and for the exact test (`tol = 0`, any radial normalisation) at every level.

Here:
* (a) `upperAt_iff`, `upperUpTo_of_at`, `euclidBound_anti`, `upperUpTo_euclid`, `upperUpTo_numpy` (`L ≤ 26`),
  `upperUpTo_exact` (every `L`); `half_eq_c18_at_same`: the local copy `Construct.half_eq_c18_at` IS bridge J's
  `UpperAgree.half_eq_c18_at` (same statement; derived from it);
* level bounds: `levelFor_le_of_count`, `levelFor_cube4D_le_26` (`N ≤ 4·8^26 + 4·2^26 = halfCount4 26`),
  `levelFor_cube4D_le_3` (`N ≤ 2080`), `levelFor_fulldiv_le` (`≤ 4` always);
* (b) the six theorems with numpy's tolerance and the Euclidean normalisation (`…_numpy`; valid for every
  `N ≤ 4·8^26 + 4·2^26 ≈ 1.2·10^24` for `cube4D`, every `N` for the other algorithms), with any tolerance below the bound
  of the level reached (`genGrid_exact_euclid`, `construct_parsed_euclid`), and with the exact test
  (`genGrid_exact_exacttest`, `construct_parsed_exacttest`: every `N`);
* (c) the closed instance over `ℝ` with the CODE's test and normalisation (`numpyBase`: golden ratio, `p / √(p·p)`,
  `q_in_upper_sphere` with `atol = 1e-8`, random generators returning `N` rows, toy generator, identity offsets):
  `real_numpy_genGrid_exact`, `real_numpy_construct_parsed`, `real_numpy_names`.

What remains assumed in the closed form of `construct_parsed_numpy`: `φ² = φ + 1`, `0 < φ` (the golden ratio),
`ShufflePerm rng` (numpy's shuffle permutes), `Euclid base.proj` and `UpperIs base numpyAtol` (what `normalise_vectors`
and `q_in_upper_sphere` compute), `RandomRows base` (numpy's random generators return `N` rows), and the size bound for
`cube4D`.
-/
import Molgri.Bridge.ConstructGrid
import Molgri.Bridge.ConstructCount
import Molgri.Bridge.UpperAgree

set_option linter.unusedSectionVars false

namespace Molgri.Bridge.ConstructClosed
open Molgri.History
open Molgri.Bridge.PolyKey Molgri.Bridge.PolyHistory Molgri.Bridge.PolyIndex Molgri.Bridge.PolyReal
open Molgri.Bridge.Construct Molgri.Bridge.ConstructGrid
open Molgri.Bridge.UpperAgree (UpperAgreeAt UpperIs Euclid euclidBound numpyAtol)
open Molgri.Polytope (Pt Kind St)

/-! ### (a) `UpperUpTo` from bridge J -/

section Glue
variable {K : Type} [Field K] [LinearOrder K] [IsStrictOrderedRing K] {W O R : Type}
variable (σ : Nat → Nat → Nat → Nat) (φ : K) (base : Ext St (List K) W O) (rng : Rng R W)

/-- the level-wise hypothesis of `Construct.lean` is bridge J's `UpperAgreeAt` (the same proposition) -/
theorem upperAt_iff (d : Nat) : UpperAt φ base d ↔ UpperAgreeAt φ base d := Iff.rfl

/-- **`UpperUpTo φ base L` from `UpperAgreeAt` at each level `≤ L`** -/
theorem upperUpTo_of_at (L : Nat) (h : ∀ d, d ≤ L → UpperAgreeAt φ base d) : UpperUpTo φ base L := h

/-- the local copy of `half_eq_c18_at` and bridge J's are one statement: the former follows from the latter verbatim -/
theorem half_eq_c18_at_same (hφ : φ * φ = φ + 1) (hφ0 : 0 < φ) (hs : ShufflePerm rng) (hproj : Radial base.proj)
    (d : Nat) (hup : UpperAt φ base d) (N : Option Nat) (proj : Bool) :
    (halfOfHypercube (withPolytopes (inducedσ rng) φ base)
        (canonPoly (withPolytopes (inducedσ rng) φ base) rng .cube4D d) N proj).2 =
      match Molgri.Polytope.getHalf (Molgri.Polytope.iter (inducedσ rng) .cube4 d) N with
      | .ok rows => .ok (rows.map (rowOf φ base .cube4 d proj))
      | .error _ => .error .valueError :=
  Molgri.Bridge.UpperAgree.half_eq_c18_at φ base rng hφ hφ0 hs hproj d hup N proj

/-- the bound `1/2, 1/2, 1/4, …, 2^-d` does not increase with the level -/
theorem euclidBound_anti {d L : Nat} (h : d ≤ L) : euclidBound (K := K) L ≤ euclidBound d := by
  induction h with
  | refl => exact le_refl _
  | @step m _ ih =>
    refine le_trans ?_ ih
    cases m with
    | zero => simp only [euclidBound]; norm_num
    | succ m =>
      simp only [euclidBound]
      apply inv_anti₀ (two_pow_pos (m + 1))
      exact pow_le_pow_right₀ (by norm_num) (Nat.le_succ _)

/-- **`UpperUpTo` for a tolerance test with the Euclidean normalisation**: `tol < euclidBound L` (the smallest bound
among the levels `≤ L`) suffices. -/
theorem upperUpTo_euclid {tol : K} (ht : 0 ≤ tol) (hup : UpperIs base tol) (heu : Euclid base.proj) (L : Nat)
    (hb : tol < euclidBound L) : UpperUpTo φ base L :=
  fun d hd => Molgri.Bridge.UpperAgree.upperAgreeAt_euclid φ base ht hup heu d (lt_of_lt_of_le hb (euclidBound_anti hd))

/-- **`UpperUpTo` for numpy's `atol = 1e-8`, every `L ≤ 26`** -/
theorem upperUpTo_numpy (hup : UpperIs base numpyAtol) (heu : Euclid base.proj) (L : Nat) (hL : L ≤ 26) :
    UpperUpTo φ base L :=
  fun d hd => Molgri.Bridge.UpperAgree.upperAgreeAt_numpy φ base hup heu d (Nat.le_trans hd hL)

/-- **`UpperUpTo` for the exact test and any radial normalisation, every `L`** -/
theorem upperUpTo_exact (hup : UpperIs base 0) (hproj : Radial base.proj) (L : Nat) : UpperUpTo φ base L :=
  upperUpTo_of_agree φ base (Molgri.Bridge.UpperAgree.upperAgree_exact φ base hup hproj) L

end Glue

/-! ### how far the loops go -/

/-- a level with at least `N` rows bounds `levelFor` -/
theorem levelFor_le_of_count (alg : Alg) (h : alg = .ico ∨ alg = .cube3D ∨ alg = .cube4D) (N L : Nat)
    (hL : N ≤ countFor alg L) : levelFor alg N ≤ L := by
  by_contra hc
  have := (levelFor_spec alg h N).2.2.1 L (by omega)
  omega

/-- `halfCount4 26` written out -/
theorem halfCount4_26 : halfCount4 26 = 4 * 8 ^ 26 + 4 * 2 ^ 26 := ConstructCount.halfCount4_closed 26

/-- **`cube4D` needs at most 26 subdivisions for every `N ≤ 4·8^26 + 4·2^26`** (= 1 208 925 819 614 897 613 111 296) -/
theorem levelFor_cube4D_le_26 (N : Nat) (hN : N ≤ 4 * 8 ^ 26 + 4 * 2 ^ 26) : levelFor .cube4D N ≤ 26 :=
  levelFor_le_of_count .cube4D (Or.inr (Or.inr rfl)) N 26 (by show N ≤ halfCount4 26; rw [halfCount4_26]; exact hN)

/-- at most 3 subdivisions for `N ≤ 2080` -/
theorem levelFor_cube4D_le_3 (N : Nat) (hN : N ≤ 2080) : levelFor .cube4D N ≤ 3 :=
  levelFor_le_of_count .cube4D (Or.inr (Or.inr rfl)) N 3 (by show N ≤ halfCount4 3; rw [halfCount4_table.2.2.2]; exact hN)

/-- `fulldiv` subdivides at most 3 times (4 = "not in the table", refused before any subdivision) -/
theorem levelFor_fulldiv_le (N : Nat) : levelFor .fulldiv N ≤ 4 := by
  show fulldivAllowed.idxOf N ≤ 4
  exact List.idxOf_le_length

/-- the size condition under which numpy's tolerance is harmless: only `cube4D` has one -/
def SizeOk (alg : Alg) (N : Nat) : Prop := alg = .cube4D → N ≤ 4 * 8 ^ 26 + 4 * 2 ^ 26

theorem levelFor_le_26 (alg : Alg) (h4 : alg = .cube4D ∨ alg = .fulldiv) (N : Nat) (hN : SizeOk alg N) :
    levelFor alg N ≤ 26 := by
  rcases h4 with rfl | rfl
  · exact levelFor_cube4D_le_26 N (hN rfl)
  · have := levelFor_fulldiv_le N; omega

/-! ### (b) the theorems of `ConstructGrid` under concrete conditions -/

section Numpy
variable {K : Type} [Field K] [LinearOrder K] [IsStrictOrderedRing K] {W O R : Type}
variable (σ : Nat → Nat → Nat → Nat) (φ : K) (base : Ext St (List K) W O) (rng : Rng R W)

/-- **`cube4D` with the code's test and normalisation**: exactly `N` points for every `N ≤ 4·8^26 + 4·2^26`. -/
theorem genGrid_cube4D_numpy (hφ : φ * φ = φ + 1) (hφ0 : 0 < φ) (hs : ShufflePerm rng) (heu : Euclid base.proj)
    (hup : UpperIs base numpyAtol) (r : R) (N : Nat) (hN : N ≤ 4 * 8 ^ 26 + 4 * 2 ^ 26) :
    ∃ P half, (genGrid (withPolytopes σ φ base) rng r .cube4D N).2 = .ok (N, some P, half ++ half.map base.neg) ∧
      half.length = N ∧ SameCore P (canonPoly (withPolytopes σ φ base) rng .cube4D (levelFor .cube4D N)) :=
  genGrid_cube4D σ φ base rng hφ hφ0 hs heu.radial r N
    (upperUpTo_numpy φ base hup heu _ (levelFor_cube4D_le_26 N hN))

/-- **`fulldiv` with the code's test and normalisation**, `N ∈ {8, 40, 272, 2080}`: exactly `N` points. -/
theorem genGrid_fulldiv_numpy (hφ : φ * φ = φ + 1) (hφ0 : 0 < φ) (hs : ShufflePerm rng) (heu : Euclid base.proj)
    (hup : UpperIs base numpyAtol) (r : R) (N : Nat) (hN : N ∈ fulldivAllowed) :
    ∃ P half, (genGrid (withPolytopes σ φ base) rng r .fulldiv N).2 = .ok (N, some P, half ++ half.map base.neg) ∧
      half.length = N ∧ SameCore P (canonPoly (withPolytopes σ φ base) rng .cube4D (levelFor .fulldiv N)) :=
  genGrid_fulldiv σ φ base rng hφ hφ0 hs heu.radial r N hN
    (Molgri.Bridge.UpperAgree.upperAgreeAt_numpy φ base hup heu _ (by have := levelFor_fulldiv_le N; omega))

/-- **Every algorithm, the code's test and normalisation**: exactly `N` points (`1` for the zero algorithms) or `fulldiv`
with an unsupported size; no other error.  No hypothesis about agreement of tests is left. -/
theorem genGrid_exact_numpy (hφ : φ * φ = φ + 1) (hφ0 : 0 < φ) (hs : ShufflePerm rng) (heu : Euclid base.proj)
    (hup : UpperIs base numpyAtol) (hr : RandomRows base) (alg : Alg) (r : R) (N : Nat) (hN : SizeOk alg N) :
    (∃ poly grid, (genGrid (withPolytopes σ φ base) rng r alg N).2 = .ok (normN alg N, poly, grid) ∧
        ExactPoints base.neg (dimOf alg) (normN alg N) grid ∧ PolyAt (withPolytopes σ φ base) rng alg N poly) ∨
    (alg = .fulldiv ∧ N ∉ fulldivAllowed ∧
      (genGrid (withPolytopes σ φ base) rng r alg N).2 = .error .valueError) :=
  genGrid_exact σ φ base rng hφ hφ0 hs heu.radial hr alg r N
    (fun h4 => upperUpTo_numpy φ base hup heu _ (levelFor_le_26 alg h4 N hN))

/-- the factory, the code's test and normalisation -/
theorem createGrid_exact_numpy (hφ : φ * φ = φ + 1) (hφ0 : 0 < φ) (hs : ShufflePerm rng) (heu : Euclid base.proj)
    (hup : UpperIs base numpyAtol) (hr : RandomRows base) (alg : Alg) (r : R) (N : Nat) (hN : SizeOk alg N) :
    (∃ G, (createGrid (withPolytopes σ φ base) rng r alg N).2 = .ok G ∧ G.alg = alg ∧ G.N = normN alg N ∧
        G.dim = dimOf alg ∧ ExactPoints base.neg (dimOf alg) (normN alg N) G.grid ∧
        PolyAt (withPolytopes σ φ base) rng alg N G.poly) ∨
    (alg = .fulldiv ∧ N ∉ fulldivAllowed ∧
      (createGrid (withPolytopes σ φ base) rng r alg N).2 = .error .valueError) :=
  createGrid_exact σ φ base rng hφ hφ0 hs heu.radial hr alg r N
    (fun h4 => upperUpTo_numpy φ base hup heu _ (levelFor_le_26 alg h4 N hN))

/-- **C17's OPEN clause in closed form** ("constructing the grid from it yields exactly N points or a ValueError for a
size the chosen algorithm documents as unsupported").  Hypotheses, all of them: the golden ratio (`φ² = φ + 1`,
`0 < φ`); numpy's shuffle permutes; `normalise_vectors` is `p / ‖p‖₂`; `q_in_upper_sphere` is the first-non-zero test
with `np.allclose`'s `atol = 1e-8`; numpy's random generators return `N` rows; the name is accepted by the parser as
`(alg, N)`; and, for the token `cube4D` only, `N ≤ 4·8^26 + 4·2^26`.  Conclusion: the token denotes an algorithm of the
role's dimension, `1 ≤ N`, and from every generator state either C17's factory selects its class and the generator returns
`self.N = N` with EXACTLY `N` points on the canonical polytope after `levelFor a N` subdivisions, or it is `fulldiv`
with `N ∉ {8, 40, 272, 2080}` and both models raise `ValueError`. -/
theorem construct_parsed_numpy (hφ : φ * φ = φ + 1) (hφ0 : 0 < φ) (hs : ShufflePerm rng) (heu : Euclid base.proj)
    (hup : UpperIs base numpyAtol) (hr : RandomRows base) (name : List Char) (role : Molgri.Naming.Role)
    (alg : Molgri.Naming.Tok) (N : Nat) (hp : Molgri.Naming.parse Molgri.Naming.shipped name role = .ok (alg, N))
    (hN : histAlg alg = some .cube4D → N ≤ 4 * 8 ^ 26 + 4 * 2 ^ 26) (r : R) :
    ∃ a, histAlg alg = some a ∧ dimOf a = roleDim role ∧ 1 ≤ N ∧
      ((∃ b poly grid, Molgri.Naming.factory role alg N = .ok b ∧ ofBuild b = a ∧
          (genGrid (withPolytopes σ φ base) rng r a N).2 = .ok (N, poly, grid) ∧
          ExactPoints base.neg (roleDim role) N grid ∧ PolyAt (withPolytopes σ φ base) rng a N poly) ∨
       (role = .b ∧ a = .fulldiv ∧ N ∉ fulldivAllowed ∧ Molgri.Naming.factory role alg N = .error .valueError ∧
          (genGrid (withPolytopes σ φ base) rng r a N).2 = .error .valueError)) :=
  construct_parsed σ φ base rng hφ hφ0 hs heu.radial hr name role alg N hp
    (fun a ha h4 => upperUpTo_numpy φ base hup heu _
      (levelFor_le_26 a h4 N (fun hc => hN (by rw [ha, hc])))) r

/-- the same for the factory call -/
theorem create_parsed_numpy (hφ : φ * φ = φ + 1) (hφ0 : 0 < φ) (hs : ShufflePerm rng) (heu : Euclid base.proj)
    (hup : UpperIs base numpyAtol) (hr : RandomRows base) (name : List Char) (role : Molgri.Naming.Role)
    (alg : Molgri.Naming.Tok) (N : Nat) (hp : Molgri.Naming.parse Molgri.Naming.shipped name role = .ok (alg, N))
    (hN : histAlg alg = some .cube4D → N ≤ 4 * 8 ^ 26 + 4 * 2 ^ 26) (r : R) :
    ∃ a, histAlg alg = some a ∧
      ((∃ G, (createGrid (withPolytopes σ φ base) rng r a N).2 = .ok G ∧ G.alg = a ∧ G.N = N ∧ G.dim = roleDim role ∧
          ExactPoints base.neg (roleDim role) N G.grid ∧
          G.grid.length = (if role = .o then N else 2 * N)) ∨
       (role = .b ∧ a = .fulldiv ∧ N ∉ fulldivAllowed ∧
          (createGrid (withPolytopes σ φ base) rng r a N).2 = .error .valueError)) :=
  create_parsed σ φ base rng hφ hφ0 hs heu.radial hr name role alg N hp
    (fun a ha h4 => upperUpTo_numpy φ base hup heu _
      (levelFor_le_26 a h4 N (fun hc => hN (by rw [ha, hc])))) r

/-- the practically relevant sizes: every accepted name with `N ≤ 2080` (at most 3 subdivisions of the hypercube) -/
theorem construct_parsed_numpy_small (hφ : φ * φ = φ + 1) (hφ0 : 0 < φ) (hs : ShufflePerm rng) (heu : Euclid base.proj)
    (hup : UpperIs base numpyAtol) (hr : RandomRows base) (name : List Char) (role : Molgri.Naming.Role)
    (alg : Molgri.Naming.Tok) (N : Nat) (hp : Molgri.Naming.parse Molgri.Naming.shipped name role = .ok (alg, N))
    (hN : N ≤ 2080) (r : R) :
    ∃ a, histAlg alg = some a ∧ dimOf a = roleDim role ∧ 1 ≤ N ∧ (a = .cube4D → levelFor a N ≤ 3) ∧
      ((∃ b poly grid, Molgri.Naming.factory role alg N = .ok b ∧ ofBuild b = a ∧
          (genGrid (withPolytopes σ φ base) rng r a N).2 = .ok (N, poly, grid) ∧
          ExactPoints base.neg (roleDim role) N grid ∧ PolyAt (withPolytopes σ φ base) rng a N poly) ∨
       (role = .b ∧ a = .fulldiv ∧ N ∉ fulldivAllowed ∧ Molgri.Naming.factory role alg N = .error .valueError ∧
          (genGrid (withPolytopes σ φ base) rng r a N).2 = .error .valueError)) := by
  obtain ⟨a, h1, h2, h3, h4⟩ := construct_parsed_numpy σ φ base rng hφ hφ0 hs heu hup hr name role alg N hp
    (fun _ => by
      have : (2080 : Nat) ≤ 4 * 8 ^ 26 + 4 * 2 ^ 26 := by norm_num
      omega) r
  exact ⟨a, h1, h2, h3, fun ha => by rw [ha]; exact levelFor_cube4D_le_3 N hN, h4⟩

/-- **any tolerance below the bound of the level reached** (`tol < euclidBound (levelFor alg N)`, Euclidean normalisation) -/
theorem genGrid_exact_euclid {tol : K} (hφ : φ * φ = φ + 1) (hφ0 : 0 < φ) (hs : ShufflePerm rng)
    (heu : Euclid base.proj) (ht : 0 ≤ tol) (hup : UpperIs base tol) (hr : RandomRows base) (alg : Alg) (r : R) (N : Nat)
    (hb : alg = .cube4D ∨ alg = .fulldiv → tol < euclidBound (levelFor alg N)) :
    (∃ poly grid, (genGrid (withPolytopes σ φ base) rng r alg N).2 = .ok (normN alg N, poly, grid) ∧
        ExactPoints base.neg (dimOf alg) (normN alg N) grid ∧ PolyAt (withPolytopes σ φ base) rng alg N poly) ∨
    (alg = .fulldiv ∧ N ∉ fulldivAllowed ∧
      (genGrid (withPolytopes σ φ base) rng r alg N).2 = .error .valueError) :=
  genGrid_exact σ φ base rng hφ hφ0 hs heu.radial hr alg r N
    (fun h4 => upperUpTo_euclid φ base ht hup heu _ (hb h4))

theorem construct_parsed_euclid {tol : K} (hφ : φ * φ = φ + 1) (hφ0 : 0 < φ) (hs : ShufflePerm rng)
    (heu : Euclid base.proj) (ht : 0 ≤ tol) (hup : UpperIs base tol) (hr : RandomRows base) (name : List Char)
    (role : Molgri.Naming.Role) (alg : Molgri.Naming.Tok) (N : Nat)
    (hp : Molgri.Naming.parse Molgri.Naming.shipped name role = .ok (alg, N))
    (hb : ∀ a, histAlg alg = some a → a = .cube4D ∨ a = .fulldiv → tol < euclidBound (levelFor a N)) (r : R) :
    ∃ a, histAlg alg = some a ∧ dimOf a = roleDim role ∧ 1 ≤ N ∧
      ((∃ b poly grid, Molgri.Naming.factory role alg N = .ok b ∧ ofBuild b = a ∧
          (genGrid (withPolytopes σ φ base) rng r a N).2 = .ok (N, poly, grid) ∧
          ExactPoints base.neg (roleDim role) N grid ∧ PolyAt (withPolytopes σ φ base) rng a N poly) ∨
       (role = .b ∧ a = .fulldiv ∧ N ∉ fulldivAllowed ∧ Molgri.Naming.factory role alg N = .error .valueError ∧
          (genGrid (withPolytopes σ φ base) rng r a N).2 = .error .valueError)) :=
  construct_parsed σ φ base rng hφ hφ0 hs heu.radial hr name role alg N hp
    (fun a ha h4 => upperUpTo_euclid φ base ht hup heu _ (hb a ha h4)) r

/-- **the exact test (`tol = 0`), any radial normalisation: every `N`**, no size condition -/
theorem genGrid_exact_exacttest (hφ : φ * φ = φ + 1) (hφ0 : 0 < φ) (hs : ShufflePerm rng) (hproj : Radial base.proj)
    (hup : UpperIs base 0) (hr : RandomRows base) (alg : Alg) (r : R) (N : Nat) :
    (∃ poly grid, (genGrid (withPolytopes σ φ base) rng r alg N).2 = .ok (normN alg N, poly, grid) ∧
        ExactPoints base.neg (dimOf alg) (normN alg N) grid ∧ PolyAt (withPolytopes σ φ base) rng alg N poly) ∨
    (alg = .fulldiv ∧ N ∉ fulldivAllowed ∧
      (genGrid (withPolytopes σ φ base) rng r alg N).2 = .error .valueError) :=
  genGrid_exact σ φ base rng hφ hφ0 hs hproj hr alg r N (fun _ => upperUpTo_exact φ base hup hproj _)

theorem construct_parsed_exacttest (hφ : φ * φ = φ + 1) (hφ0 : 0 < φ) (hs : ShufflePerm rng)
    (hproj : Radial base.proj) (hup : UpperIs base 0) (hr : RandomRows base) (name : List Char)
    (role : Molgri.Naming.Role) (alg : Molgri.Naming.Tok) (N : Nat)
    (hp : Molgri.Naming.parse Molgri.Naming.shipped name role = .ok (alg, N)) (r : R) :
    ∃ a, histAlg alg = some a ∧ dimOf a = roleDim role ∧ 1 ≤ N ∧
      ((∃ b poly grid, Molgri.Naming.factory role alg N = .ok b ∧ ofBuild b = a ∧
          (genGrid (withPolytopes σ φ base) rng r a N).2 = .ok (N, poly, grid) ∧
          ExactPoints base.neg (roleDim role) N grid ∧ PolyAt (withPolytopes σ φ base) rng a N poly) ∨
       (role = .b ∧ a = .fulldiv ∧ N ∉ fulldivAllowed ∧ Molgri.Naming.factory role alg N = .error .valueError ∧
          (genGrid (withPolytopes σ φ base) rng r a N).2 = .error .valueError)) :=
  construct_parsed σ φ base rng hφ hφ0 hs hproj hr name role alg N hp
    (fun _ _ _ => upperUpTo_exact φ base hup hproj _) r

end Numpy

/-! ### (c) the closed instance over `ℝ` with the code's test and normalisation -/

/-- bridge J's `baseTol numpyAtol euclidNormalise` (the code's hemisphere test with `atol = 1e-8`, `p / √(p·p)`) with
random generators that honour numpy's contract (`N` rows) -/
noncomputable def numpyBase : Ext St (List ℝ) Unit (List (List ℝ)) :=
  { Molgri.Bridge.UpperAgree.baseTol (numpyAtol : ℝ) Molgri.Bridge.UpperAgree.euclidNormalise with
    sphere := fun _ n => List.replicate n [0, 0, 1]
    quat := fun _ n => List.replicate n [0, 0, 0, 1] }

theorem upperIs_numpyBase : UpperIs numpyBase (numpyAtol : ℝ) := fun _ => rfl

theorem euclid_numpyBase : Euclid numpyBase.proj := Molgri.Bridge.UpperAgree.euclid_real

theorem randomRows_numpyBase : RandomRows numpyBase :=
  ⟨fun _ _ => List.length_replicate, fun _ _ => List.length_replicate⟩

/-- the two tests agree on every level the generators can reach for `N ≤ 4·8^26 + 4·2^26` -/
theorem upperUpTo_numpyBase : UpperUpTo Real.goldenRatio numpyBase 26 :=
  upperUpTo_numpy _ _ upperIs_numpyBase euclid_numpyBase 26 (Nat.le_refl _)

/-- **`genGrid_exact` over `ℝ` with the code's test and normalisation — no hypothesis but the size bound of `cube4D`.** -/
theorem real_numpy_genGrid_exact (alg : Alg) (r : Nat) (N : Nat) (hN : SizeOk alg N) :
    (∃ poly grid, (genGrid (withPolytopes σ₀ Real.goldenRatio numpyBase) toyRng r alg N).2 = .ok (normN alg N, poly, grid) ∧
        ExactPoints numpyBase.neg (dimOf alg) (normN alg N) grid ∧
        PolyAt (withPolytopes σ₀ Real.goldenRatio numpyBase) toyRng alg N poly) ∨
    (alg = .fulldiv ∧ N ∉ fulldivAllowed ∧
      (genGrid (withPolytopes σ₀ Real.goldenRatio numpyBase) toyRng r alg N).2 = .error .valueError) :=
  genGrid_exact_numpy σ₀ _ numpyBase toyRng phi_real.1 phi_real.2 toy_shufflePerm euclid_numpyBase upperIs_numpyBase
    randomRows_numpyBase alg r N hN

/-- **`construct_parsed` over `ℝ` with the code's test and normalisation**: every accepted name (for the token `cube4D`:
`N ≤ 4·8^26 + 4·2^26`) constructs exactly `N` points or is `fulldiv` with an unsupported size — a closed statement. -/
theorem real_numpy_construct_parsed (name : List Char) (role : Molgri.Naming.Role) (alg : Molgri.Naming.Tok) (N : Nat)
    (hp : Molgri.Naming.parse Molgri.Naming.shipped name role = .ok (alg, N))
    (hN : histAlg alg = some .cube4D → N ≤ 4 * 8 ^ 26 + 4 * 2 ^ 26) (r : Nat) :
    ∃ a, histAlg alg = some a ∧ dimOf a = roleDim role ∧ 1 ≤ N ∧
      ((∃ b poly grid, Molgri.Naming.factory role alg N = .ok b ∧ ofBuild b = a ∧
          (genGrid (withPolytopes σ₀ Real.goldenRatio numpyBase) toyRng r a N).2 = .ok (N, poly, grid) ∧
          ExactPoints numpyBase.neg (roleDim role) N grid ∧
          PolyAt (withPolytopes σ₀ Real.goldenRatio numpyBase) toyRng a N poly) ∨
       (role = .b ∧ a = .fulldiv ∧ N ∉ fulldivAllowed ∧ Molgri.Naming.factory role alg N = .error .valueError ∧
          (genGrid (withPolytopes σ₀ Real.goldenRatio numpyBase) toyRng r a N).2 = .error .valueError)) :=
  construct_parsed_numpy σ₀ _ numpyBase toyRng phi_real.1 phi_real.2 toy_shufflePerm euclid_numpyBase upperIs_numpyBase
    randomRows_numpyBase name role alg N hp hN r

/-- concrete names with the code's test: `cube4D_9` → `2·9` rows after 1 subdivision, `fulldiv_2080` → `2·2080` rows after
3 subdivisions, `cube4D_2081` → `2·2081` rows (level 4, 16448 upper rows available). -/
theorem real_numpy_names (r : Nat) :
    (∃ poly grid, (genGrid (withPolytopes σ₀ Real.goldenRatio numpyBase) toyRng r .cube4D 9).2 = .ok (9, poly, grid) ∧
      grid.length = 18) ∧ levelFor .cube4D 9 = 1 ∧
    (∃ poly grid, (genGrid (withPolytopes σ₀ Real.goldenRatio numpyBase) toyRng r .fulldiv 2080).2 = .ok (2080, poly, grid) ∧
      grid.length = 4160) ∧ levelFor .fulldiv 2080 = 3 ∧
    (∃ poly grid, (genGrid (withPolytopes σ₀ Real.goldenRatio numpyBase) toyRng r .cube4D 2081).2 = .ok (2081, poly, grid) ∧
      grid.length = 4162) ∧ levelFor .cube4D 2081 = 4 := by
  obtain ⟨P1, h1, a1, a2, _⟩ := genGrid_cube4D_numpy σ₀ _ numpyBase toyRng phi_real.1 phi_real.2 toy_shufflePerm
    euclid_numpyBase upperIs_numpyBase r 9 (by norm_num)
  obtain ⟨P2, h2, b1, b2, _⟩ := genGrid_fulldiv_numpy σ₀ _ numpyBase toyRng phi_real.1 phi_real.2 toy_shufflePerm
    euclid_numpyBase upperIs_numpyBase r 2080 (by decide)
  obtain ⟨P3, h3, c1, c2, _⟩ := genGrid_cube4D_numpy σ₀ _ numpyBase toyRng phi_real.1 phi_real.2 toy_shufflePerm
    euclid_numpyBase upperIs_numpyBase r 2081 (by norm_num)
  refine ⟨⟨_, _, a1, by rw [List.length_append, List.length_map, a2]⟩,
    (levelFor_cube4D_table 9).2.1 (by omega) (by omega),
    ⟨_, _, b1, by rw [List.length_append, List.length_map, b2]⟩, by decide,
    ⟨_, _, c1, by rw [List.length_append, List.length_map, c2]⟩, ?_⟩
  rw [ConstructCount.levelFor_cube4D_iff]
  refine ⟨by norm_num, ?_⟩
  intro j hj
  have : j = 0 ∨ j = 1 ∨ j = 2 ∨ j = 3 := by omega
  rcases this with rfl | rfl | rfl | rfl <;> norm_num

end Molgri.Bridge.ConstructClosed
