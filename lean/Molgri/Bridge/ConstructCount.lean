/-
Bridge I, part 1b — closed forms for the node counts of the cube and the hypercube, every level.

`Bridge/Construct.lean` defines `levelFor alg N` as the least level whose count (`nodeCount`, `halfCount4`) is `≥ N`.
Here the counts of the two cube classes are computed for EVERY level, so that `levelFor .cube3D N` / `levelFor .cube4D N`
are least solutions of explicit inequalities:

* `length_boxPoints`      — `[-m, m]^d` has `(2m+1)^d` integer points;
* `length_cubeLattice`    — `{p ∈ ℤ^d : ‖p‖∞ = k+1}` has `(2k+3)^d − (2k+1)^d` points (C07's lattice list);
* `nodeCount_cube3_closed` — the cube after `d` divisions has `6·4^d + 2` nodes (8, 26, 98, 386, …);
* `nodeCount_cube4_closed` — the hypercube after `d` divisions has `8·8^d + 8·2^d` nodes (16, 80, 544, 4160, …);
* `halfCount4_closed`     — `get_half_of_hypercube()` has `4·8^d + 4·2^d` rows (8, 40, 272, 2080, 16448, …);
* `levelFor_cube3D_iff`, `levelFor_cube4D_iff` — `levelFor … N = L ↔ count (L-1) < N ≤ count L` in closed form.

NOT proved: the closed form `10·4^d + 2` of the icosahedron (the points shared by faces, edges and vertices of the
geodesic lattice have to be counted once); for the icosahedron `nodeCount_ico_table` gives levels 0, 1, 2 and
`nodeCount_lt` / `nodeCount_ge` hold at every level.
-/
import Molgri.Bridge.Construct

set_option linter.unusedSectionVars false

namespace Molgri.Bridge.ConstructCount
open Molgri.History
open Molgri.Bridge.Construct
open Molgri.Hemi (boxPoints cubeLattice supNorm)

/-! ### counting C07's lattice lists -/

theorem length_boxPoints (m : Nat) : ∀ d, (boxPoints m d).length = (2 * m + 1) ^ d
  | 0 => rfl
  | d + 1 => by
    simp only [boxPoints, List.length_flatMap, List.length_map, length_boxPoints m d, List.map_const',
      List.sum_replicate_nat, List.length_range]
    rw [Nat.pow_succ, Nat.mul_comm]

/-- the sup-norm of an integer point is below `M` iff every coordinate is -/
theorem supNorm_lt_iff (M : Int) (hM : 0 < M) : ∀ p : List Int, supNorm p < M ↔ ∀ x ∈ p, -M < x ∧ x < M
  | [] => by simp [supNorm, hM]
  | x :: xs => by
    have ih := supNorm_lt_iff M hM xs
    rw [List.forall_mem_cons, ← ih]
    simp only [supNorm, Molgri.Hemi.maxK, Molgri.Hemi.absK]
    generalize supNorm xs = s
    split <;> split <;> omega

/-- the points of the box that are NOT on its boundary are the points of the next smaller box -/
theorem inner_perm (k d : Nat) :
    ((boxPoints (k + 1) d).filter (fun p => !(supNorm p == ((k + 1 : Nat) : Int)))).Perm (boxPoints k d) := by
  rw [List.perm_ext_iff_of_nodup ((Molgri.Hemi.nodup_boxPoints (k + 1) d).filter _) (Molgri.Hemi.nodup_boxPoints k d)]
  intro p
  rw [List.mem_filter, Molgri.Hemi.mem_boxPoints, Molgri.Hemi.mem_boxPoints]
  simp only [Bool.not_eq_true', beq_eq_false_iff_ne, ne_eq]
  have h1 := supNorm_lt_iff ((k + 1 : Nat) : Int) (by omega) p
  have h2 := supNorm_lt_iff ((k + 1 : Nat) + 1 : Int) (by omega) p
  constructor
  · rintro ⟨⟨hl, hb⟩, hne⟩
    refine ⟨hl, ?_⟩
    have hlt : supNorm p < ((k + 1 : Nat) : Int) + 1 := h2.mpr (fun x hx => by have := hb x hx; omega)
    have := h1.mp (by omega)
    intro x hx
    have := this x hx
    omega
  · rintro ⟨hl, hb⟩
    have hlt : supNorm p < ((k + 1 : Nat) : Int) := h1.mpr (fun x hx => by have := hb x hx; omega)
    exact ⟨⟨hl, fun x hx => by have := hb x hx; omega⟩, by omega⟩

/-- **`{p ∈ ℤ^d : ‖p‖∞ = k+1}` has `(2k+3)^d − (2k+1)^d` points** -/
theorem length_cubeLattice (d k : Nat) : (cubeLattice d (k + 1)).length + (2 * k + 1) ^ d = (2 * k + 3) ^ d := by
  have h := List.length_eq_length_filter_add (l := boxPoints (k + 1) d) (fun p => supNorm p == ((k + 1 : Nat) : Int))
  rw [length_boxPoints, (inner_perm k d).length_eq, length_boxPoints] at h
  unfold cubeLattice
  rw [show 2 * (k + 1) + 1 = 2 * k + 3 by omega] at h
  omega

/-! ### the polytopes -/

theorem nodeCount_cube_succ (kind : Molgri.Polytope.Kind) (hk : kind = .cube3 ∨ kind = .cube4) (j : Nat) :
    nodeCount kind (j + 1) = (cubeLattice (Molgri.Polytope.cubeDim kind) (2 ^ j)).length := by
  have := (PolyLattice.cube_nodes_perm_hemi_lattice idσ kind hk j).length_eq
  rw [List.length_map, List.length_map] at this
  exact this

theorem two_pow_pred (j : Nat) : ∃ k, 2 ^ j = k + 1 := ⟨2 ^ j - 1, by have := Nat.one_le_two_pow (n := j); omega⟩

/-- **the cube after `d` divisions has `6·4^d + 2` nodes**, every level -/
theorem nodeCount_cube3_closed (d : Nat) : nodeCount .cube3 d = 6 * 4 ^ d + 2 := by
  cases d with
  | zero => exact nodeCount_zero.2.1
  | succ j =>
    rw [nodeCount_cube_succ .cube3 (Or.inl rfl) j]
    obtain ⟨k, hk⟩ := two_pow_pred j
    have h := length_cubeLattice 3 k
    have h4 : 4 ^ (j + 1) = 4 * ((k + 1) * (k + 1)) := by
      rw [← hk, Nat.pow_succ, show (4 : Nat) = 2 * 2 by rfl, Nat.mul_pow]
      ring
    show (cubeLattice 3 (2 ^ j)).length = _
    rw [hk, h4]
    have e : (2 * k + 3) ^ 3 = (2 * k + 1) ^ 3 + (6 * (4 * ((k + 1) * (k + 1))) + 2) := by ring
    omega

/-- **the hypercube after `d` divisions has `8·8^d + 8·2^d` nodes**, every level -/
theorem nodeCount_cube4_closed (d : Nat) : nodeCount .cube4 d = 8 * 8 ^ d + 8 * 2 ^ d := by
  cases d with
  | zero => exact nodeCount_zero.2.2
  | succ j =>
    rw [nodeCount_cube_succ .cube4 (Or.inr rfl) j]
    obtain ⟨k, hk⟩ := two_pow_pred j
    have h := length_cubeLattice 4 k
    have h8 : 8 ^ (j + 1) = 8 * ((k + 1) * (k + 1) * (k + 1)) := by
      rw [← hk, Nat.pow_succ, show (8 : Nat) = 2 * 2 * 2 by rfl, Nat.mul_pow, Nat.mul_pow]
      ring
    have h2 : 2 ^ (j + 1) = 2 * (k + 1) := by rw [← hk, Nat.pow_succ]; ring
    show (cubeLattice 4 (2 ^ j)).length = _
    rw [hk, h8, h2]
    have e : (2 * k + 3) ^ 4 = (2 * k + 1) ^ 4 + (8 * (8 * ((k + 1) * (k + 1) * (k + 1))) + 8 * (2 * (k + 1))) := by
      ring
    omega

/-- **`get_half_of_hypercube()` after `d` divisions has `4·8^d + 4·2^d` rows**, every level -/
theorem halfCount4_closed (d : Nat) : halfCount4 d = 4 * 8 ^ d + 4 * 2 ^ d := by
  have := two_mul_halfCount4 d
  have := nodeCount_cube4_closed d
  omega

/-- **`levelFor .cube3D N` in closed form**: it is the `L` with `6·4^(L-1) + 2 < N ≤ 6·4^L + 2` (`N ≤ 8` for `L = 0`). -/
theorem levelFor_cube3D_iff (N L : Nat) :
    levelFor .cube3D N = L ↔ (N ≤ 6 * 4 ^ L + 2 ∧ ∀ j, j < L → 6 * 4 ^ j + 2 < N) := by
  have hspec := levelFor_spec .cube3D (Or.inr (Or.inl rfl)) N
  simp only [countFor, nodeCount_cube3_closed] at hspec
  constructor
  · rintro rfl; exact ⟨hspec.2.1, hspec.2.2.1⟩
  · rintro ⟨h1, h2⟩
    apply levelFor_unique .cube3D (Or.inr (Or.inl rfl)) N L
    · simp only [countFor, nodeCount_cube3_closed]; exact h1
    · simp only [countFor, nodeCount_cube3_closed]; exact h2

/-- **`levelFor .cube4D N` in closed form**: the `L` with `4·8^(L-1) + 4·2^(L-1) < N ≤ 4·8^L + 4·2^L`. -/
theorem levelFor_cube4D_iff (N L : Nat) :
    levelFor .cube4D N = L ↔ (N ≤ 4 * 8 ^ L + 4 * 2 ^ L ∧ ∀ j, j < L → 4 * 8 ^ j + 4 * 2 ^ j < N) := by
  have hspec := levelFor_spec .cube4D (Or.inr (Or.inr rfl)) N
  simp only [countFor, halfCount4_closed] at hspec
  constructor
  · rintro rfl; exact ⟨hspec.2.1, hspec.2.2.1⟩
  · rintro ⟨h1, h2⟩
    apply levelFor_unique .cube4D (Or.inr (Or.inr rfl)) N L
    · simp only [countFor, halfCount4_closed]; exact h1
    · simp only [countFor, halfCount4_closed]; exact h2

end Molgri.Bridge.ConstructCount
