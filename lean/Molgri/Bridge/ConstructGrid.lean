/-
Bridge I, part 2 — "constructing the grid yields exactly N points": `genGrid` / `createGrid` of C08's model on C18's
polytopes, and the tie to C17's parser.

C17 `Props/C17.lean` keeps as OPEN: "constructing the grid from it yields exactly N points or a ValueError for a size the
chosen algorithm documents as unsupported", and proves only the dispatch (`factory_accepts_parsed`).  With part 1
(`Bridge/Construct.lean`: the two `while` loops end on level `levelFor alg N`, never `.loop`) this file proves the clause
for the model of the generators (`Molgri.History.genGrid`, C08) instantiated with C18's polytopes
(`withPolytopes σ φ base`, any offset table `σ`, any generator `rng`, any generator state `r`):

* `ExactPoints neg dim n grid` — "the array has exactly `n` points": `n` rows in 3-D; in 4-D `half ++ -half` with
  `half` of `n` rows (`ExactPoints.rows4`: `2n` rows, row `n+i` = `neg` of row `i`);
* `genGrid_3d`, `genGrid_cube4D`, `genGrid_fulldiv`, `genGrid_fulldiv_refused`, `genGrid_randomS`, `genGrid_randomQ`,
  `genGrid_zero3D`, `genGrid_zero4D` — each generator; for the polytope generators the returned polytope is the
  canonical polytope of level `levelFor alg N` (the number of subdivisions is a function of `(alg, N)` alone);
* `genGrid_exact` — all of them: `.ok (normN alg N, poly, grid)` with `ExactPoints`, or `fulldiv` with a size outside
  `{8, 40, 272, 2080}` and `ValueError`; NO other error (`.loop`, `KeyError`, `IndexError`, `TypeError`,
  `AttributeError`, the `ValueError` of `get_nodes(N)` / `get_half_of_hypercube(N)` / the double cover) is reachable;
  `createGrid_exact` — the same for the factory (`createGrid` = constructor + `gen_grid`);
* `histAlg` — the token → `History.Alg` map; `histAlg_total` (total on the valid tokens of each role, with the role's
  dimension), `histAlg_factory` (it is C17's `factory` dispatch), `factory_refuses_iff`, `histAlg_eq_algOf` (it is
  `Bridge/Names.lean`'s `algOf`, C19's name table, up to renaming the enumeration);
* `construct_parsed`, `create_parsed` — **the OPEN clause of C17**: for every name and role that `parse shipped` accepts
  as `(alg, N)`, constructing the grid with the algorithm the token denotes yields exactly `N` points, or it is
  `fulldiv` with `N ∉ {8, 40, 272, 2080}` and both C17's `factory` and C08's `genGrid` raise `ValueError`;
* `N = 0`: the parser never returns it (`parsed_N_pos`, `ico_0_rejected`: the guard the code has is
  `elif self.N <= 0: raise ValueError` in `GridNameParser`); the generators have no guard of their own: called directly
  with `N = 0`, `ico` / `cube3D` / `cube4D` / `randomS` return an empty array in the code and in the model
  (`genGrid_zero_points`, stated, not hidden).  ONE difference between C08's model and the code at `N = 0`, observed on
  `/repo` (`SphereGridFactory.create("randomQ", 0, 4)`): the code raises `ValueError` (numpy cannot broadcast the
  shape-`(0,)` result of `hemisphere_quaternion_set([])` into `zeros((0, 4))`), the model returns the empty double cover.
  `N = 0` is outside the domain on which C08's correspondence check ties `genGrid` to the code (`N ≥ 1`), and outside
  what any name can request; every statement below that is reached from a name has `1 ≤ N`.

Hypotheses (none new for the polytope part): `φ² = φ + 1`, `0 < φ`, `ShufflePerm rng` (numpy's shuffle permutes),
`Radial base.proj` and — only for `cube4D` / `fulldiv` — the hypothesis `UpperAgree` of `PolyIndex.half_eq_c18` WEAKENED
to the levels the generator looks at: `UpperUpTo φ base (levelFor alg N)` (the hemisphere test on the projected rows
agrees with C18's exact test on the levels `0 … levelFor alg N`; `UpperAgree φ base` implies it,
`Construct.upperUpTo_of_agree`; level 3 is enough for every `N ≤ 2080`, `levelFor_cube4D_table`).  The random
generators are external (`ext.sphere`, `ext.quat` are parameters of C08's model): their part is stated under the explicit
hypothesis `RandomRows base` — `random_sphere_points(N)` / `random_quaternions(N)` return `N` rows, numpy's contract
(`np.random.random((N, 3))`‑shaped draws), which no theorem here can supply.
-/
import Molgri.Bridge.Construct
import Molgri.Bridge.Names

set_option linter.unusedSectionVars false

namespace Molgri.Bridge.ConstructGrid
open Molgri.History
open Molgri.Bridge.PolyKey
open Molgri.Bridge.PolyHistory
open Molgri.Bridge.PolyIndex
open Molgri.Bridge.Construct
open Molgri.Polytope (Pt Kind St)

/-! ### "exactly `n` points" -/

/-- The grid array has exactly `n` points: `n` rows in 3-D; in 4-D it is the double cover `half ++ -half` of `n` rows
(shape `(2n, 4)`: what `gen_grid` asserts). -/
def ExactPoints {P : Type} (neg : P → P) (dim n : Nat) (grid : List P) : Prop :=
  if dim = 3 then grid.length = n else ∃ half : List P, half.length = n ∧ grid = half ++ half.map neg

/-- 4-D: `2n` rows, and row `n + i` is the negation of row `i` for every `i < n`. -/
theorem ExactPoints.rows4 {P : Type} {neg : P → P} {dim n : Nat} {grid : List P} (h : ExactPoints neg dim n grid)
    (hd : dim ≠ 3) : grid.length = 2 * n ∧ ∀ i, i < n → grid[n + i]? = (grid[i]?).map neg ∧ (grid[i]?).isSome := by
  unfold ExactPoints at h
  rw [if_neg hd] at h
  obtain ⟨half, hl, rfl⟩ := h
  refine ⟨by rw [List.length_append, List.length_map]; omega, ?_⟩
  intro i hi
  have h1 : (half ++ half.map neg)[n + i]? = (half.map neg)[i]? := by
    rw [List.getElem?_append_right (by omega)]
    congr 1; omega
  have h2 : (half ++ half.map neg)[i]? = half[i]? := List.getElem?_append_left (by omega)
  rw [h1, h2, List.getElem?_map]
  exact ⟨rfl, by rw [List.getElem?_eq_getElem (by omega)]; rfl⟩

theorem ExactPoints.rows3 {P : Type} {neg : P → P} {n : Nat} {grid : List P} (h : ExactPoints neg 3 n grid) :
    grid.length = n := by
  unfold ExactPoints at h
  simpa using h

/-- numpy's contract for the two external random generators: `N` rows are returned. -/
def RandomRows {Γ P W O : Type} (ext : Ext Γ P W O) : Prop :=
  (∀ w N, (ext.sphere w N).length = N) ∧ (∀ w N, (ext.quat w N).length = N)

/-! ### `for i in range(k): divide_edges()` on a canonical polytope -/

section Generic
variable {Γ Pt W O R : Type} [DecidableEq Pt]

theorem divideTimes_canon (ext : Ext Γ Pt W O) (rng : Rng R W) (k : PolyKind) :
    ∀ (m d : Nat) (r : R) (P : Poly Γ Pt), SameCore P (canonPoly ext rng k d) →
      SameCore (divideTimes ext rng m r P).2 (canonPoly ext rng k (d + m)) := by
  intro m
  induction m with
  | zero => intro d r P h; exact h
  | succ m ih =>
    intro d r P h
    simp only [divideTimes]
    have hD : SameCore (divideEdges ext rng r P).2 (canonPoly ext rng k (d + 1)) :=
      divideEdges_core ext rng r (rng.seed 0) _ _ h
    have := ih (d + 1) (divideEdges ext rng r P).1 (divideEdges ext rng r P).2 hD
    rw [show d + (m + 1) = d + 1 + m by omega]
    exact this

/-- the factory is `genGrid` plus the Voronoi object: its fields -/
theorem createGrid_of_genGrid (ext : Ext Γ Pt W O) (rng : Rng R W) (r : R) (a : Alg) (N n : Nat)
    (poly : Option (Poly Γ Pt)) (grid : List Pt) (h : (genGrid ext rng r a N).2 = .ok (n, poly, grid)) :
    ∃ G, (createGrid ext rng r a N).2 = .ok G ∧ G.alg = a ∧ G.N = n ∧ G.dim = dimOf a ∧ G.grid = grid ∧
      G.poly = poly := by
  unfold createGrid
  simp only [h]
  exact ⟨_, rfl, rfl, rfl, rfl, rfl, rfl⟩

theorem createGrid_of_genGrid_error (ext : Ext Γ Pt W O) (rng : Rng R W) (r : R) (a : Alg) (N : Nat) (e : Err)
    (h : (genGrid ext rng r a N).2 = .error e) : (createGrid ext rng r a N).2 = .error e := by
  unfold createGrid
  simp only [h]

end Generic

/-! ### every generator -/

section Concrete
variable {K : Type} [Field K] [LinearOrder K] [IsStrictOrderedRing K] {W O R : Type}
variable (σ : Nat → Nat → Nat → Nat) (φ : K) (base : Ext St (List K) W O) (rng : Rng R W)

/-- **`ico` / `cube3D`, every `N`**: `IcoAndCube3DRotations._gen_grid` returns exactly `N` rows; the polytope it leaves
behind is the canonical polytope after `levelFor alg N` subdivisions.  No error is possible.  Only `ShufflePerm`. -/
theorem genGrid_3d (hφ : φ * φ = φ + 1) (hs : ShufflePerm rng) (a : Alg) (ha : a = .ico ∨ a = .cube3D) (r : R)
    (N : Nat) :
    ∃ P rows, (genGrid (withPolytopes σ φ base) rng r a N).2 = .ok (N, some P, rows) ∧ rows.length = N ∧
      SameCore P (canonPoly (withPolytopes σ φ base) rng (kindOf3 a) (levelFor a N)) := by
  obtain ⟨r', P', h1, h2, h3⟩ := growUntil_nodes_no_loop σ φ base rng hφ hs a ha r N
  have ha' : a = .ico ∨ a = .cube3D ∨ a = .cube4D := by rcases ha with h | h <;> simp [h]
  have hcnt : countFor a = nodeCount (kindOf (kindOf3 a)) := by rcases ha with rfl | rfl <;> rfl
  have hN : N ≤ nodeCount (kindOf (kindOf3 a)) (levelFor a N) := by rw [← hcnt]; exact (levelFor_spec a ha' N).2.1
  obtain ⟨rows, h4, h5⟩ := canon_nodes_take σ φ base rng hφ hs (kindOf3 a) (levelFor a N) N hN
  have hres : (getNodes P' (some N) true).2 = .ok rows := by rw [getNodes_res P' (some N) true h3, h2.2.2.1]; exact h4
  have hgen : genGrid (withPolytopes σ φ base) rng r a N = gen3 (withPolytopes σ φ base) rng r (kindOf3 a) N := by
    rcases ha with rfl | rfl <;> rfl
  refine ⟨(getNodes P' (some N) true).1, rows, ?_, h5, (getNodes_core P' (some N) true).trans h2⟩
  rw [hgen]
  unfold gen3
  simp only [h1, hres]

/-- **`cube4D`, every `N`**: `Cube4DRotations._gen_grid` + the double cover return `half ++ -half` with exactly `N` rows
in `half`; the polytope is the canonical hypercube after `levelFor .cube4D N` subdivisions.  No error is possible. -/
theorem genGrid_cube4D (hφ : φ * φ = φ + 1) (hφ0 : 0 < φ) (hs : ShufflePerm rng) (hproj : Radial base.proj)
    (r : R) (N : Nat) (hup : UpperUpTo φ base (levelFor .cube4D N)) :
    ∃ P half, (genGrid (withPolytopes σ φ base) rng r .cube4D N).2 = .ok (N, some P, half ++ half.map base.neg) ∧
      half.length = N ∧ SameCore P (canonPoly (withPolytopes σ φ base) rng .cube4D (levelFor .cube4D N)) := by
  obtain ⟨r', P', h1, h2, h3⟩ := growUntil_half_no_loop σ φ base rng hφ hφ0 hs hproj r N hup
  have hN : N ≤ halfCount4 (levelFor .cube4D N) := (levelFor_spec .cube4D (Or.inr (Or.inr rfl)) N).2.1
  obtain ⟨rows, h4, h5⟩ := canon_half_rows σ φ base rng hφ hφ0 hs hproj (levelFor .cube4D N)
    (hup _ (Nat.le_refl _)) true
  have h6 := halfPure_none_take _ _ N true rows h4 (by omega)
  have hres : (halfOfHypercube (withPolytopes σ φ base) P' (some N) true).2 = .ok (rows.take N) := by
    rw [half_res _ P' (some N) true h3, h2.1, canonPoly_kind, h2.2.2.1]; exact h6
  have hlen : (rows.take N).length = N := by rw [List.length_take]; omega
  refine ⟨(halfOfHypercube (withPolytopes σ φ base) P' (some N) true).1, rows.take N, ?_, hlen,
    (half_core _ P' (some N) true).trans h2⟩
  rw [Molgri.History.genGrid_cube4D]
  unfold gen4
  simp only [h1, hres, doubleCover, hlen, if_true]
  rfl

/-- **`fulldiv`, `N ∈ {8, 40, 272, 2080}`**: `half ++ -half` with exactly `N` rows in `half`, on the canonical hypercube
after `fulldivAllowed.idxOf N` subdivisions (C08's OPEN "`fulldiv_N` succeeds" is a theorem here). -/
theorem genGrid_fulldiv (hφ : φ * φ = φ + 1) (hφ0 : 0 < φ) (hs : ShufflePerm rng) (hproj : Radial base.proj)
    (r : R) (N : Nat) (hN : N ∈ fulldivAllowed) (hup : UpperAt φ base (levelFor .fulldiv N)) :
    ∃ P half, (genGrid (withPolytopes σ φ base) rng r .fulldiv N).2 = .ok (N, some P, half ++ half.map base.neg) ∧
      half.length = N ∧ SameCore P (canonPoly (withPolytopes σ φ base) rng .cube4D (levelFor .fulldiv N)) := by
  have hg := concrete_grows σ φ base rng hφ hs
  have hc := divideTimes_canon (withPolytopes σ φ base) rng .cube4D (fulldivAllowed.idxOf N) 0
    (newPoly (withPolytopes σ φ base) rng r .cube4D).1 (newPoly (withPolytopes σ φ base) rng r .cube4D).2
    (SameCore.refl _)
  rw [Nat.zero_add] at hc
  obtain ⟨⟨_, _, hk⟩, _, _⟩ := divideTimes_ok (withPolytopes σ φ base) rng hg (fulldivAllowed.idxOf N)
    (newPoly (withPolytopes σ φ base) rng r .cube4D).1 (newPoly (withPolytopes σ φ base) rng r .cube4D).2
    (newPoly_ok _ rng r .cube4D)
  obtain ⟨rows, h4, h5⟩ := canon_half_rows σ φ base rng hφ hφ0 hs hproj (fulldivAllowed.idxOf N) hup true
  rw [halfCount4_fulldiv N hN] at h5
  generalize hdv : divideTimes (withPolytopes σ φ base) rng (fulldivAllowed.idxOf N)
    (newPoly (withPolytopes σ φ base) rng r .cube4D).1 (newPoly (withPolytopes σ φ base) rng r .cube4D).2 = dv
    at hc hk
  have hres : (halfOfHypercube (withPolytopes σ φ base) dv.2 none true).2 = .ok rows := by
    rw [half_res _ dv.2 none true hk, hc.1, canonPoly_kind, hc.2.2.1]; exact h4
  refine ⟨(halfOfHypercube (withPolytopes σ φ base) dv.2 none true).1, rows, ?_, h5, (half_core _ dv.2 none true).trans hc⟩
  rw [Molgri.History.genGrid_fulldiv]
  unfold genF
  rw [if_pos hN]
  simp only [hdv, hres, doubleCover, h5, if_true]
  rfl

/-- **`fulldiv`, any other `N`**: the documented `ValueError` of `FullDivCube4DRotations.__init__`; the generator state
is not touched. -/
theorem genGrid_fulldiv_refused (r : R) (N : Nat) (hN : N ∉ fulldivAllowed) :
    genGrid (withPolytopes σ φ base) rng r .fulldiv N = (r, .error .valueError) := by
  rw [Molgri.History.genGrid_fulldiv]
  unfold genF
  rw [if_neg hN]

/-- **`randomS`**: `N` rows — under numpy's contract for `random_sphere_points` (hypothesis, see the header). -/
theorem genGrid_randomS (hr : RandomRows base) (r : R) (N : Nat) :
    ∃ rows, (genGrid (withPolytopes σ φ base) rng r .randomS N).2 = .ok (N, none, rows) ∧ rows.length = N :=
  ⟨_, rfl, hr.1 _ N⟩

/-- **`randomQ`**: `half ++ -half`, `half` = the `N` quaternions of `random_quaternions(N)` each moved to the upper
hemisphere — under numpy's contract for `random_quaternions` (hypothesis). -/
theorem genGrid_randomQ (hr : RandomRows base) (r : R) (N : Nat) :
    ∃ half, (genGrid (withPolytopes σ φ base) rng r .randomQ N).2 = .ok (N, none, half ++ half.map base.neg) ∧
      half.length = N := by
  refine ⟨(base.quat (rng.draw (rng.seed 0) (N * 3)).2 N).map (fun q => if base.upper q then q else base.neg q), ?_,
    by rw [List.length_map]; exact hr.2 _ N⟩
  have hl : ((base.quat (rng.draw (rng.seed 0) (N * 3)).2 N).map
      (fun q => if base.upper q then q else base.neg q)).length = N := by rw [List.length_map]; exact hr.2 _ N
  show (genGrid (withPolytopes σ φ base) rng r .randomQ N).2 = _
  simp only [genGrid, doubleCover]
  rw [show (withPolytopes σ φ base).quat = base.quat from rfl, show (withPolytopes σ φ base).upper = base.upper from rfl,
    show (withPolytopes σ φ base).neg = base.neg from rfl, if_pos hl]

/-- **`zero3D`**: one row, `self.N = 1`, whatever `N` was given. -/
theorem genGrid_zero3D (r : R) (N : Nat) :
    genGrid (withPolytopes σ φ base) rng r .zero3D N = (r, .ok (1, none, [base.zero3])) := rfl

/-- **`zero4D`**: the identity rotation and its negation, `self.N = 1`, whatever `N` was given. -/
theorem genGrid_zero4D (r : R) (N : Nat) :
    genGrid (withPolytopes σ φ base) rng r .zero4D N = (r, .ok (1, none, [base.zero4] ++ [base.zero4].map base.neg)) := rfl

/-- which algorithms own a polytope -/
def polyOf : Alg → Option PolyKind
  | .ico => some .ico
  | .cube3D => some .cube3D
  | .cube4D => some .cube4D
  | .fulldiv => some .cube4D
  | _ => none

/-- the polytope a generator leaves behind: none for the random / zero generators, otherwise (up to the cache) the
canonical polytope of the algorithm's class after `levelFor alg N` subdivisions -/
def PolyAt (ext : Ext St (List K) W O) (rng : Rng R W) (alg : Alg) (N : Nat) (poly : Option (Poly St (List K))) : Prop :=
  match polyOf alg with
  | none => poly = none
  | some k => ∃ P, poly = some P ∧ SameCore P (canonPoly ext rng k (levelFor alg N))

/-- **Constructing the grid yields exactly `N` points — every algorithm, every `N`, every generator state.**
`genGrid` returns `.ok (N', poly, grid)` with `N' = N` (`1` for the zero algorithms: `normN`), `grid` has exactly `N'`
points (`ExactPoints`: `N'` rows in 3-D, `half ++ -half` with `N'` rows in `half` in 4-D), and `poly` is the canonical
polytope after `levelFor alg N` subdivisions; the ONLY other outcome is `fulldiv` with `N ∉ {8, 40, 272, 2080}`, which
raises `ValueError`.  In particular `.loop` and the errors of the getters are unreachable. -/
theorem genGrid_exact (hφ : φ * φ = φ + 1) (hφ0 : 0 < φ) (hs : ShufflePerm rng) (hproj : Radial base.proj)
    (hr : RandomRows base) (alg : Alg) (r : R) (N : Nat)
    (hup : alg = .cube4D ∨ alg = .fulldiv → UpperUpTo φ base (levelFor alg N)) :
    (∃ poly grid, (genGrid (withPolytopes σ φ base) rng r alg N).2 = .ok (normN alg N, poly, grid) ∧
        ExactPoints base.neg (dimOf alg) (normN alg N) grid ∧ PolyAt (withPolytopes σ φ base) rng alg N poly) ∨
    (alg = .fulldiv ∧ N ∉ fulldivAllowed ∧
      (genGrid (withPolytopes σ φ base) rng r alg N).2 = .error .valueError) := by
  cases alg with
  | ico =>
    obtain ⟨P, rows, h1, h2, h3⟩ := genGrid_3d σ φ base rng hφ hs .ico (Or.inl rfl) r N
    exact Or.inl ⟨_, _, h1, h2, P, rfl, h3⟩
  | cube3D =>
    obtain ⟨P, rows, h1, h2, h3⟩ := genGrid_3d σ φ base rng hφ hs .cube3D (Or.inr rfl) r N
    exact Or.inl ⟨_, _, h1, h2, P, rfl, h3⟩
  | randomS =>
    obtain ⟨rows, h1, h2⟩ := genGrid_randomS σ φ base rng hr r N
    exact Or.inl ⟨_, _, h1, h2, rfl⟩
  | zero3D => exact Or.inl ⟨_, _, rfl, rfl, rfl⟩
  | cube4D =>
    obtain ⟨P, half, h1, h2, h3⟩ := genGrid_cube4D σ φ base rng hφ hφ0 hs hproj r N (hup (Or.inl rfl))
    exact Or.inl ⟨_, _, h1, ⟨half, h2, rfl⟩, P, rfl, h3⟩
  | randomQ =>
    obtain ⟨half, h1, h2⟩ := genGrid_randomQ σ φ base rng hr r N
    exact Or.inl ⟨_, _, h1, ⟨half, h2, rfl⟩, rfl⟩
  | fulldiv =>
    by_cases hN : N ∈ fulldivAllowed
    · obtain ⟨P, half, h1, h2, h3⟩ := genGrid_fulldiv σ φ base rng hφ hφ0 hs hproj r N hN
        (hup (Or.inr rfl) _ (Nat.le_refl _))
      exact Or.inl ⟨_, _, h1, ⟨half, h2, rfl⟩, P, rfl, h3⟩
    · exact Or.inr ⟨rfl, hN, by rw [genGrid_fulldiv_refused σ φ base rng r N hN]⟩
  | zero4D => exact Or.inl ⟨_, _, rfl, ⟨[base.zero4], rfl, rfl⟩, rfl⟩

/-- the 3-D part needs nothing but `ShufflePerm` and numpy's contract for `random_sphere_points` -/
theorem genGrid_exact_3d (hφ : φ * φ = φ + 1) (hs : ShufflePerm rng)
    (hr : ∀ w N, (base.sphere w N).length = N) (alg : Alg) (h3 : dimOf alg = 3) (r : R) (N : Nat) :
    ∃ poly grid, (genGrid (withPolytopes σ φ base) rng r alg N).2 = .ok (normN alg N, poly, grid) ∧
      grid.length = normN alg N ∧ PolyAt (withPolytopes σ φ base) rng alg N poly := by
  cases alg with
  | ico =>
    obtain ⟨P, rows, h1, h2, h3⟩ := genGrid_3d σ φ base rng hφ hs .ico (Or.inl rfl) r N
    exact ⟨_, _, h1, h2, P, rfl, h3⟩
  | cube3D =>
    obtain ⟨P, rows, h1, h2, h3⟩ := genGrid_3d σ φ base rng hφ hs .cube3D (Or.inr rfl) r N
    exact ⟨_, _, h1, h2, P, rfl, h3⟩
  | randomS => exact ⟨_, _, rfl, hr _ N, rfl⟩
  | zero3D => exact ⟨_, _, rfl, rfl, rfl⟩
  | cube4D => cases h3
  | randomQ => cases h3
  | fulldiv => cases h3
  | zero4D => cases h3

/-- **The factory** (`SphereGrid3DFactory.create` / `SphereGrid4DFactory.create` = constructor + `gen_grid`): the object
has `N` = the requested `N` (`1` for the zero algorithms), the right dimension, and an array with exactly that many
points; or it is `fulldiv` with an unsupported size and `ValueError`. -/
theorem createGrid_exact (hφ : φ * φ = φ + 1) (hφ0 : 0 < φ) (hs : ShufflePerm rng) (hproj : Radial base.proj)
    (hr : RandomRows base) (alg : Alg) (r : R) (N : Nat)
    (hup : alg = .cube4D ∨ alg = .fulldiv → UpperUpTo φ base (levelFor alg N)) :
    (∃ G, (createGrid (withPolytopes σ φ base) rng r alg N).2 = .ok G ∧ G.alg = alg ∧ G.N = normN alg N ∧
        G.dim = dimOf alg ∧ ExactPoints base.neg (dimOf alg) (normN alg N) G.grid ∧
        PolyAt (withPolytopes σ φ base) rng alg N G.poly) ∨
    (alg = .fulldiv ∧ N ∉ fulldivAllowed ∧
      (createGrid (withPolytopes σ φ base) rng r alg N).2 = .error .valueError) := by
  rcases genGrid_exact σ φ base rng hφ hφ0 hs hproj hr alg r N hup with ⟨poly, grid, h1, h2, h3⟩ | ⟨h1, h2, h3⟩
  · left
    obtain ⟨G, c1, c2, c3, c4, c5, c6⟩ := createGrid_of_genGrid _ rng r alg N _ poly grid h1
    exact ⟨G, c1, c2, c3, c4, by rw [c5]; exact h2, by rw [c6]; exact h3⟩
  · right
    exact ⟨h1, h2, createGrid_of_genGrid_error _ rng r alg N _ h3⟩

/-- **`N = 0`** is not guarded by the generators (only by the parser, `parsed_N_pos` below): `ico`, `cube3D`, `cube4D`
with `N = 0` do not subdivide and return an empty array (`get_nodes(N=0)` / `[:0]`), as the code does (checked on
`/repo`: shapes `(0, 3)`, `(0, 3)`, `(0, 4)`).  (`randomQ` with `N = 0` is the one case where the code — a numpy
broadcasting `ValueError` — and C08's model — empty array — differ; see the header.) -/
theorem genGrid_zero_points (hφ : φ * φ = φ + 1) (hφ0 : 0 < φ) (hs : ShufflePerm rng) (hproj : Radial base.proj)
    (hup : UpperAt φ base 0) (r : R) :
    (∃ P, (genGrid (withPolytopes σ φ base) rng r .ico 0).2 = .ok (0, some P, [])) ∧
    (∃ P, (genGrid (withPolytopes σ φ base) rng r .cube3D 0).2 = .ok (0, some P, [])) ∧
    (∃ P, (genGrid (withPolytopes σ φ base) rng r .cube4D 0).2 = .ok (0, some P, [])) ∧
    levelFor .ico 0 = 0 ∧ levelFor .cube3D 0 = 0 ∧ levelFor .cube4D 0 = 0 := by
  obtain ⟨P1, rows1, h1, l1, _⟩ := genGrid_3d σ φ base rng hφ hs .ico (Or.inl rfl) r 0
  obtain ⟨P2, rows2, h2, l2, _⟩ := genGrid_3d σ φ base rng hφ hs .cube3D (Or.inr rfl) r 0
  obtain ⟨P3, half, h3, l3, _⟩ := genGrid_cube4D σ φ base rng hφ hφ0 hs hproj r 0
    (fun d hd => by
      have h0 : levelFor .cube4D 0 = 0 := rfl
      rw [h0] at hd
      obtain rfl : d = 0 := by omega
      exact hup)
  rw [List.length_eq_zero_iff] at l1 l2 l3
  subst l1 l2 l3
  exact ⟨⟨P1, h1⟩, ⟨P2, h2⟩, ⟨P3, h3⟩, rfl, rfl, rfl⟩

end Concrete

/-! ### the tie to C17: names → algorithms → exactly `N` points -/

/-- C17's factory classes as C08's algorithms -/
def ofBuild : Molgri.Naming.Build → Alg
  | .randomS => .randomS
  | .ico => .ico
  | .cube3D => .cube3D
  | .zero3D => .zero3D
  | .randomQ => .randomQ
  | .cube4D => .cube4D
  | .fulldiv => .fulldiv
  | .zero4D => .zero4D

/-- **the token → `History.Alg` map** (the eight literal names of `constants.py` / of the two factories) -/
def histAlg (t : Molgri.Naming.Tok) : Option Alg :=
  if t = ['r','a','n','d','o','m','S'] then some .randomS
  else if t = ['c','u','b','e','3','D'] then some .cube3D
  else if t = ['i','c','o'] then some .ico
  else if t = ['r','a','n','d','o','m','Q'] then some .randomQ
  else if t = ['c','u','b','e','4','D'] then some .cube4D
  else if t = ['f','u','l','l','d','i','v'] then some .fulldiv
  else if t = ['z','e','r','o','3','D'] then some .zero3D
  else if t = ['z','e','r','o','4','D'] then some .zero4D
  else none

/-- C19's enumeration of the eight algorithm names (`Totality.Alg`) as C08's (`History.Alg`) -/
def ofTotality : Molgri.Totality.Alg → Alg
  | .randomS => .randomS
  | .cube3D => .cube3D
  | .ico => .ico
  | .randomQ => .randomQ
  | .cube4D => .cube4D
  | .fulldiv => .fulldiv
  | .zero3D => .zero3D
  | .zero4D => .zero4D

/-- **one name table**: `histAlg` is `Bridge/Names.lean`'s `algOf` (C17's tokens as C19's enumeration) followed by the
renaming of the enumeration — so C17's tokens, C19's `Alg`, C17's `Build` and C08's `Alg` are one vocabulary. -/
theorem histAlg_eq_algOf (t : Molgri.Naming.Tok) : histAlg t = (Molgri.Bridge.Names.algOf t).map ofTotality := by
  unfold histAlg Molgri.Bridge.Names.algOf
  repeat' split
  all_goals rfl

theorem ofBuild_buildOf (a : Molgri.Totality.Alg) : ofBuild (Molgri.Bridge.Names.buildOf a) = ofTotality a := by
  cases a <;> rfl

/-- the role's dimension here is `Names.dimOf`, and the dimension of the algorithm is C19's `inRole` -/
theorem dimOf_ofTotality (a : Molgri.Totality.Alg) (role : Molgri.Naming.Role)
    (h : a.inRole (Molgri.Bridge.Names.role4 role) = true) :
    dimOf (ofTotality a) = Molgri.Bridge.Names.dimOf role := by
  cases a <;> cases role <;> first | rfl | (exact absurd h (by decide))

/-- `dimensions` of the role's factory -/
def roleDim : Molgri.Naming.Role → Nat
  | .o => 3
  | .b => 4

theorem roleDim_eq (role : Molgri.Naming.Role) : roleDim role = Molgri.Bridge.Names.dimOf role := by cases role <;> rfl

/-- the two models carry the same `fulldiv` table -/
theorem fulldivAllowed_eq : Molgri.Naming.fulldivAllowed = fulldivAllowed := rfl

/-- **`histAlg` is total on the valid algorithm tokens of each role**, and gives an algorithm of the role's dimension;
the role's zero token denotes the role's zero algorithm. -/
theorem histAlg_total (role : Molgri.Naming.Role) (t : Molgri.Naming.Tok)
    (ht : t ∈ Molgri.Naming.shipped.valid role) :
    ∃ a, histAlg t = some a ∧ dimOf a = roleDim role ∧
      (t = Molgri.Naming.shipped.zero role ↔ (a = .zero3D ∨ a = .zero4D)) := by
  cases role with
  | o =>
    simp only [Molgri.Naming.Tables.valid, Molgri.Naming.Tables.roleSet, Molgri.Naming.Tables.zero, Molgri.Naming.shipped,
      List.mem_append, List.mem_cons, List.not_mem_nil, or_false] at ht
    rcases ht with (h | h | h) | h <;> subst h
    · exact ⟨.randomS, by decide, rfl, by decide⟩
    · exact ⟨.cube3D, by decide, rfl, by decide⟩
    · exact ⟨.ico, by decide, rfl, by decide⟩
    · exact ⟨.zero3D, by decide, rfl, by decide⟩
  | b =>
    simp only [Molgri.Naming.Tables.valid, Molgri.Naming.Tables.roleSet, Molgri.Naming.Tables.zero, Molgri.Naming.shipped,
      List.mem_append, List.mem_cons, List.not_mem_nil, or_false] at ht
    rcases ht with (h | h | h) | h <;> subst h
    · exact ⟨.randomQ, by decide, rfl, by decide⟩
    · exact ⟨.cube4D, by decide, rfl, by decide⟩
    · exact ⟨.fulldiv, by decide, rfl, by decide⟩
    · exact ⟨.zero4D, by decide, rfl, by decide⟩

/-- **`histAlg` is C17's factory dispatch**: whenever the factory of the role accepts `(alg, N)`, the class it selects is
the algorithm the token denotes, and it has the role's dimension. -/
theorem histAlg_factory (role : Molgri.Naming.Role) (alg : Molgri.Naming.Tok) (N : Nat) (b : Molgri.Naming.Build)
    (h : Molgri.Naming.factory role alg N = .ok b) : histAlg alg = some (ofBuild b) ∧ dimOf (ofBuild b) = roleDim role := by
  cases role with
  | o =>
    simp only [Molgri.Naming.factory, Molgri.Naming.factory3] at h
    repeat' split at h
    all_goals first
      | (subst_vars; cases h; exact ⟨by decide, rfl⟩)
      | cases h
  | b =>
    simp only [Molgri.Naming.factory, Molgri.Naming.factory4] at h
    repeat' split at h
    all_goals first
      | (subst_vars; cases h; exact ⟨by decide, rfl⟩)
      | cases h

/-- on the valid tokens of a role, C17's factory refuses exactly `fulldiv` with a size outside the table -/
theorem factory_refuses_iff (role : Molgri.Naming.Role) (t : Molgri.Naming.Tok)
    (ht : t ∈ Molgri.Naming.shipped.valid role) (N : Nat) :
    Molgri.Naming.factory role t N = .error .valueError ↔ (histAlg t = some .fulldiv ∧ N ∉ fulldivAllowed) := by
  cases role with
  | o =>
    simp only [Molgri.Naming.Tables.valid, Molgri.Naming.Tables.roleSet, Molgri.Naming.Tables.zero, Molgri.Naming.shipped,
      List.mem_append, List.mem_cons, List.not_mem_nil, or_false] at ht
    rcases ht with (h | h | h) | h <;> subst h <;> simp [Molgri.Naming.factory, Molgri.Naming.factory3, histAlg]
  | b =>
    simp only [Molgri.Naming.Tables.valid, Molgri.Naming.Tables.roleSet, Molgri.Naming.Tables.zero, Molgri.Naming.shipped,
      List.mem_append, List.mem_cons, List.not_mem_nil, or_false] at ht
    rcases ht with (h | h | h) | h <;> subst h
    · simp [Molgri.Naming.factory, Molgri.Naming.factory4, histAlg]
    · simp [Molgri.Naming.factory, Molgri.Naming.factory4, histAlg]
    · by_cases hN : N ∈ fulldivAllowed
      · simp [Molgri.Naming.factory, Molgri.Naming.factory4, histAlg, fulldivAllowed_eq, hN]
      · simp [Molgri.Naming.factory, Molgri.Naming.factory4, histAlg, fulldivAllowed_eq, hN]
    · simp [Molgri.Naming.factory, Molgri.Naming.factory4, histAlg]

/-- **`N = 0` never leaves the parser**: every accepted name has `N ≥ 1` (C17 `ok_valid`; the code's guard is
`elif self.N <= 0: raise ValueError` in `GridNameParser`). -/
theorem parsed_N_pos (name : List Char) (role : Molgri.Naming.Role) (alg : Molgri.Naming.Tok) (N : Nat)
    (hp : Molgri.Naming.parse Molgri.Naming.shipped name role = .ok (alg, N)) : 1 ≤ N :=
  (Molgri.C17.ok_valid _ Molgri.C17.tablesOk_shipped name role alg N hp).1

/-- witnesses: `ico_0`, `cube4D_0` and the bare `0` are rejected with `ValueError` -/
theorem ico_0_rejected :
    Molgri.Naming.parse Molgri.Naming.shipped ['i','c','o','_','0'] .o = .error .valueError ∧
    Molgri.Naming.parse Molgri.Naming.shipped ['c','u','b','e','4','D','_','0'] .b = .error .valueError ∧
    Molgri.Naming.parse Molgri.Naming.shipped ['0'] .o = .error .valueError := by decide +kernel

section Parsed
variable {K : Type} [Field K] [LinearOrder K] [IsStrictOrderedRing K] {W O R : Type}
variable (σ : Nat → Nat → Nat → Nat) (φ : K) (base : Ext St (List K) W O) (rng : Rng R W)

/-- an accepted `(alg, N)`: the token denotes an algorithm of the role's dimension for which the generated `N` is the
parsed `N` (zero algorithm ⇔ `N = 1`) -/
theorem parsed_alg (name : List Char) (role : Molgri.Naming.Role) (alg : Molgri.Naming.Tok) (N : Nat)
    (hp : Molgri.Naming.parse Molgri.Naming.shipped name role = .ok (alg, N)) :
    ∃ a, histAlg alg = some a ∧ dimOf a = roleDim role ∧ normN a N = N := by
  obtain ⟨_, hv⟩ := Molgri.C17.ok_valid _ Molgri.C17.tablesOk_shipped name role alg N hp
  obtain ⟨a, h1, h2, h3⟩ := histAlg_total role alg hv
  refine ⟨a, h1, h2, ?_⟩
  have hz := Molgri.C17.n1_iff_zero _ Molgri.C17.tablesOk_shipped name role alg N hp
  by_cases hN : N = 1
  · subst hN; cases a <;> rfl
  · have : ¬ (a = .zero3D ∨ a = .zero4D) := fun h => hN (hz.mpr (h3.mpr h))
    cases a <;> first | rfl | exact absurd (Or.inl rfl) this | exact absurd (Or.inr rfl) this

/-- **C17's OPEN clause: "constructing the grid from it yields exactly N points or a ValueError for a size the chosen
algorithm documents as unsupported".**  For EVERY name and role with `parse shipped name role = .ok (alg, N)`: the token
`alg` denotes an algorithm `a` of the role's dimension (`histAlg`), and from any generator state
* either C17's `factory` selects the class of `a`, and the generator of `a` (C08's `genGrid` on C18's polytopes) returns
  `self.N = N` and an array with EXACTLY `N` points (`N` rows for the direction role; `half ++ -half` with `N` rows in
  `half` for the rotation role), leaving the canonical polytope after `levelFor a N` subdivisions;
* or `role = b`, `a = fulldiv`, `N ∉ {8, 40, 272, 2080}`, and both C17's `factory` and C08's `genGrid` raise `ValueError`.
This composes `factory_accepts_parsed` (C17) with `genGrid_exact`. -/
theorem construct_parsed (hφ : φ * φ = φ + 1) (hφ0 : 0 < φ) (hs : ShufflePerm rng) (hproj : Radial base.proj)
    (hr : RandomRows base) (name : List Char) (role : Molgri.Naming.Role)
    (alg : Molgri.Naming.Tok) (N : Nat) (hp : Molgri.Naming.parse Molgri.Naming.shipped name role = .ok (alg, N))
    (hup : ∀ a, histAlg alg = some a → a = .cube4D ∨ a = .fulldiv → UpperUpTo φ base (levelFor a N)) (r : R) :
    ∃ a, histAlg alg = some a ∧ dimOf a = roleDim role ∧ 1 ≤ N ∧
      ((∃ b poly grid, Molgri.Naming.factory role alg N = .ok b ∧ ofBuild b = a ∧
          (genGrid (withPolytopes σ φ base) rng r a N).2 = .ok (N, poly, grid) ∧
          ExactPoints base.neg (roleDim role) N grid ∧ PolyAt (withPolytopes σ φ base) rng a N poly) ∨
       (role = .b ∧ a = .fulldiv ∧ N ∉ fulldivAllowed ∧ Molgri.Naming.factory role alg N = .error .valueError ∧
          (genGrid (withPolytopes σ φ base) rng r a N).2 = .error .valueError)) := by
  obtain ⟨a, h1, h2, h3⟩ := parsed_alg name role alg N hp
  refine ⟨a, h1, h2, parsed_N_pos name role alg N hp, ?_⟩
  rcases Molgri.C17.factory_accepts_parsed name role alg N hp with ⟨b, hb⟩ | ⟨hrole, halg, hN, hf⟩
  · have hab : ofBuild b = a := by
      have := (histAlg_factory role alg N b hb).1
      rw [h1] at this
      exact (Option.some.inj this).symm
    rcases genGrid_exact σ φ base rng hφ hφ0 hs hproj hr a r N (hup a h1) with
      ⟨poly, grid, g1, g2, g3⟩ | ⟨g1, g2, g3⟩
    · left
      rw [h3] at g1 g2
      rw [h2] at g2
      exact ⟨b, poly, grid, hb, hab, g1, g2, g3⟩
    · -- the generator refuses, so does the factory: impossible here
      exfalso
      have hv := (Molgri.C17.ok_valid _ Molgri.C17.tablesOk_shipped name role alg N hp).2
      have := (factory_refuses_iff role alg hv N).mpr ⟨by rw [h1, g1], g2⟩
      rw [hb] at this
      cases this
  · right
    subst halg
    have ha : a = .fulldiv := by
      have : histAlg ['f','u','l','l','d','i','v'] = some .fulldiv := by decide
      rw [this] at h1
      exact (Option.some.inj h1).symm
    subst ha
    have hN' : N ∉ fulldivAllowed := by rw [← fulldivAllowed_eq]; exact hN
    exact ⟨hrole, rfl, hN', hf, by rw [genGrid_fulldiv_refused σ φ base rng r N hN']⟩

/-- the same for the factory call itself (`SphereGridFactory.create(alg, N, dimensions)`, C08's `createGrid`): the
object a parsed name produces has `N` = the parsed `N`, the role's dimension and an array of exactly `N` points. -/
theorem create_parsed (hφ : φ * φ = φ + 1) (hφ0 : 0 < φ) (hs : ShufflePerm rng) (hproj : Radial base.proj)
    (hr : RandomRows base) (name : List Char) (role : Molgri.Naming.Role)
    (alg : Molgri.Naming.Tok) (N : Nat) (hp : Molgri.Naming.parse Molgri.Naming.shipped name role = .ok (alg, N))
    (hup : ∀ a, histAlg alg = some a → a = .cube4D ∨ a = .fulldiv → UpperUpTo φ base (levelFor a N)) (r : R) :
    ∃ a, histAlg alg = some a ∧
      ((∃ G, (createGrid (withPolytopes σ φ base) rng r a N).2 = .ok G ∧ G.alg = a ∧ G.N = N ∧ G.dim = roleDim role ∧
          ExactPoints base.neg (roleDim role) N G.grid ∧
          G.grid.length = (if role = .o then N else 2 * N)) ∨
       (role = .b ∧ a = .fulldiv ∧ N ∉ fulldivAllowed ∧
          (createGrid (withPolytopes σ φ base) rng r a N).2 = .error .valueError)) := by
  obtain ⟨a, h1, h2, _, h⟩ := construct_parsed σ φ base rng hφ hφ0 hs hproj hr name role alg N hp hup r
  refine ⟨a, h1, ?_⟩
  rcases h with ⟨b, poly, grid, _, _, g1, g2, _⟩ | ⟨hrole, ha, hN, _, g⟩
  · left
    obtain ⟨G, c1, c2, c3, c4, c5, _⟩ := createGrid_of_genGrid _ rng r a N _ poly grid g1
    refine ⟨G, c1, c2, c3, by rw [c4, h2], by rw [c5]; exact g2, ?_⟩
    rw [c5]
    cases role with
    | o => simpa using g2.rows3
    | b => simpa using (g2.rows4 (by decide)).1
  · right
    exact ⟨hrole, ha, hN, createGrid_of_genGrid_error _ rng r a N _ g⟩

/-- the direction role needs neither `Radial` nor `UpperAgree` nor the quaternion contract -/
theorem construct_parsed_o (hφ : φ * φ = φ + 1) (hs : ShufflePerm rng) (hr : ∀ w N, (base.sphere w N).length = N)
    (name : List Char) (alg : Molgri.Naming.Tok) (N : Nat)
    (hp : Molgri.Naming.parse Molgri.Naming.shipped name .o = .ok (alg, N)) (r : R) :
    ∃ a poly grid, histAlg alg = some a ∧ (genGrid (withPolytopes σ φ base) rng r a N).2 = .ok (N, poly, grid) ∧
      grid.length = N ∧ PolyAt (withPolytopes σ φ base) rng a N poly := by
  obtain ⟨a, h1, h2, h3⟩ := parsed_alg name .o alg N hp
  obtain ⟨poly, grid, g1, g2, g3⟩ := genGrid_exact_3d σ φ base rng hφ hs hr a h2 r N
  rw [h3] at g1 g2
  exact ⟨a, poly, grid, h1, g1, g2, g3⟩

end Parsed

end Molgri.Bridge.ConstructGrid
