/-
Bridge I, part 3 — the hypotheses of `Bridge/ConstructGrid.lean` are jointly satisfiable: the instance over `ℝ`.

`K = ℝ` with the real golden ratio, the sup-norm normalisation of `Bridge/PolyReal.lean` (radial, like numpy's
`p / ‖p‖`), the exact hemisphere test (`Hemi.upper 0`, "first non-zero coordinate positive"), random generators that
return `N` rows, the toy generator of C08 (its shuffle reverses) and the identity offset table.  For this instance
`UpperAgree` holds at EVERY level (`upperAgree_realBase`: multiplying by a positive number changes neither the signs nor
the zeros of the coordinates), so `genGrid_exact`, `createGrid_exact`, `construct_parsed` are closed statements:
`real_genGrid_exact`, `real_construct_parsed`.  Concrete non-trivial inputs: `ico_7`, `cube4D_9`, `fulldiv_40`,
`fulldiv_9` (`real_names`).
-/
import Molgri.Bridge.ConstructGrid
import Molgri.Bridge.PolyReal

set_option linter.unusedSectionVars false

namespace Molgri.Bridge.ConstructReal
open Molgri.History
open Molgri.Bridge.PolyKey Molgri.Bridge.PolyHistory Molgri.Bridge.PolyIndex Molgri.Bridge.PolyReal
open Molgri.Bridge.Construct Molgri.Bridge.ConstructGrid
open Molgri.Polytope (Pt Kind St)
open Molgri.Hemi (scale castPt)

section
variable {K : Type} [Field K] [LinearOrder K] [IsStrictOrderedRing K]

/-- `PolyReal.baseOf` with random generators that honour numpy's contract (`N` rows) -/
def baseN (proj : List K → List K) : Ext St (List K) Unit (List (List K)) :=
  { baseOf proj with
    sphere := fun _ n => List.replicate n [0, 0, 1]
    quat := fun _ n => List.replicate n [0, 0, 0, 1] }

theorem randomRows_baseN (proj : List K → List K) : RandomRows (baseN proj) :=
  ⟨fun _ _ => List.length_replicate, fun _ _ => List.length_replicate⟩

/-- **`UpperAgree` for the exact test and any radial normalisation, every level**: the projected row of a lattice node
is a positive multiple of the integer node, and "first non-zero coordinate positive" is invariant under that. -/
theorem upperAgree_baseN (φ : K) (proj : List K → List K) (hproj : Radial proj) : UpperAgree φ (baseN proj) := by
  intro d p hp
  have hs := cube_key_supNorm φ .cube4 (Or.inr rfl) d hp
  have hnz : Molgri.Hemi.NonZero (keyAt φ .cube4 d p) :=
    nonZero_of_gauge_pos Molgri.Hemi.supNorm_homogeneous (by rw [hs]; exact zero_lt_one)
  obtain ⟨c, hc, e⟩ := hproj _ hnz
  show Molgri.Hemi.upper 0 (proj (keyAt φ .cube4 d p)) = _
  rw [e, show keyAt φ .cube4 d p = scale (((2 : K) ^ d)⁻¹) (castPt p) from rfl, Molgri.Hemi.scale_scale]
  exact Molgri.Bridge.PolyDistinct.upper_cast _ (mul_pos hc (two_pow_inv_pos d)) p

end

/-- the instance over `ℝ` -/
noncomputable def realBase : Ext St (List ℝ) Unit (List (List ℝ)) := baseN (supNormalise (K := ℝ))

theorem radial_realBase : Radial realBase.proj := radial_supNormalise

theorem upperAgree_realBase : UpperAgree Real.goldenRatio realBase :=
  upperAgree_baseN Real.goldenRatio _ radial_supNormalise

/-- **All hypotheses of `genGrid_exact` hold over `ℝ`**: for every algorithm, every `N` and every generator state the
model of the generators returns exactly `N` points (`1` for the zero algorithms) or it is `fulldiv` with a size outside
`{8, 40, 272, 2080}` — a closed statement. -/
theorem real_genGrid_exact (alg : Alg) (r : Nat) (N : Nat) :
    (∃ poly grid, (genGrid (withPolytopes σ₀ Real.goldenRatio realBase) toyRng r alg N).2 = .ok (normN alg N, poly, grid) ∧
        ExactPoints realBase.neg (dimOf alg) (normN alg N) grid ∧
        PolyAt (withPolytopes σ₀ Real.goldenRatio realBase) toyRng alg N poly) ∨
    (alg = .fulldiv ∧ N ∉ fulldivAllowed ∧
      (genGrid (withPolytopes σ₀ Real.goldenRatio realBase) toyRng r alg N).2 = .error .valueError) :=
  genGrid_exact σ₀ _ realBase toyRng phi_real.1 phi_real.2 toy_shufflePerm radial_realBase
    (randomRows_baseN _) alg r N (fun _ => upperUpTo_of_agree _ _ upperAgree_realBase _)

/-- … and of `construct_parsed`: every accepted name constructs exactly `N` points or is `fulldiv` with an unsupported
size — over `ℝ`, no hypothesis left. -/
theorem real_construct_parsed (name : List Char) (role : Molgri.Naming.Role) (alg : Molgri.Naming.Tok) (N : Nat)
    (hp : Molgri.Naming.parse Molgri.Naming.shipped name role = .ok (alg, N)) (r : Nat) :
    ∃ a, histAlg alg = some a ∧ dimOf a = roleDim role ∧ 1 ≤ N ∧
      ((∃ b poly grid, Molgri.Naming.factory role alg N = .ok b ∧ ofBuild b = a ∧
          (genGrid (withPolytopes σ₀ Real.goldenRatio realBase) toyRng r a N).2 = .ok (N, poly, grid) ∧
          ExactPoints realBase.neg (roleDim role) N grid ∧
          PolyAt (withPolytopes σ₀ Real.goldenRatio realBase) toyRng a N poly) ∨
       (role = .b ∧ a = .fulldiv ∧ N ∉ fulldivAllowed ∧ Molgri.Naming.factory role alg N = .error .valueError ∧
          (genGrid (withPolytopes σ₀ Real.goldenRatio realBase) toyRng r a N).2 = .error .valueError)) :=
  construct_parsed σ₀ _ realBase toyRng phi_real.1 phi_real.2 toy_shufflePerm radial_realBase
    (randomRows_baseN _) name role alg N hp (fun _ _ _ => upperUpTo_of_agree _ _ upperAgree_realBase _) r

/-- Non-vacuity of the hypothesis `parse … = .ok (alg, N)` together with the conclusions, on concrete names:
`ico_7` → 7 rows after `levelFor .ico 7 = 0` subdivisions; `cube4D_9` → `2·9` rows after 1 subdivision (level 0 has only
8 upper rows); `fulldiv_40` → `2·40` rows after 1 subdivision; `fulldiv_9` → `ValueError`. -/
theorem real_names (r : Nat) :
    (∃ poly grid, (genGrid (withPolytopes σ₀ Real.goldenRatio realBase) toyRng r .ico 7).2 = .ok (7, poly, grid) ∧
      grid.length = 7) ∧ levelFor .ico 7 = 0 ∧
    (∃ poly grid, (genGrid (withPolytopes σ₀ Real.goldenRatio realBase) toyRng r .cube4D 9).2 = .ok (9, poly, grid) ∧
      grid.length = 18) ∧ levelFor .cube4D 9 = 1 ∧
    (∃ poly grid, (genGrid (withPolytopes σ₀ Real.goldenRatio realBase) toyRng r .fulldiv 40).2 = .ok (40, poly, grid) ∧
      grid.length = 80) ∧ levelFor .fulldiv 40 = 1 ∧
    (genGrid (withPolytopes σ₀ Real.goldenRatio realBase) toyRng r .fulldiv 9).2 = .error .valueError := by
  have hup : ∀ L, UpperUpTo Real.goldenRatio realBase L := fun L => upperUpTo_of_agree _ _ upperAgree_realBase L
  obtain ⟨P1, rows1, a1, a2, _⟩ := genGrid_3d σ₀ _ realBase toyRng phi_real.1 toy_shufflePerm .ico (Or.inl rfl) r 7
  obtain ⟨P2, half2, b1, b2, _⟩ := genGrid_cube4D σ₀ _ realBase toyRng phi_real.1 phi_real.2 toy_shufflePerm
    radial_realBase r 9 (hup _)
  obtain ⟨P3, half3, c1, c2, _⟩ := genGrid_fulldiv σ₀ _ realBase toyRng phi_real.1 phi_real.2 toy_shufflePerm
    radial_realBase r 40 (by decide) (hup _ _ (Nat.le_refl _))
  have hico : levelFor .ico 7 = 0 := by
    have := nodeCount_zero.1
    show leastFrom (nodeCount .ico) 7 7 0 = 0
    unfold leastFrom
    rw [if_pos (by omega)]
  refine ⟨⟨_, _, a1, a2⟩, hico, ⟨_, _, b1, ?_⟩, ((levelFor_cube4D_table 9).2.1 (by omega) (by omega)),
    ⟨_, _, c1, ?_⟩, by decide, ?_⟩
  · rw [List.length_append, List.length_map, b2]
  · rw [List.length_append, List.length_map, c2]
  · rw [genGrid_fulldiv_refused σ₀ _ realBase toyRng r 9 (by decide)]

end Molgri.Bridge.ConstructReal
