/-
Bridge H (1) — the two models of `molgri.io.GridWriter` / `GridReader` are one model.

* C14  `Molgri.Pipeline` (`Model/Pipeline.lean`): paths are `String`s, `withExt` uses `String.endsWith`, a file holds
  `Blob K = npy (NpArray K) | sparse (Sp K)`, the five `save*` functions, `writeGrid`, `loadNpy`, `loadSparse`,
  `readGeometry`, `pipeline`; theorems `read_after_write`, `write_preserves_others`, `pipeline_eq`.
* C20  `Molgri.GridFiles` (`Model/GridFiles.lean`): paths are `List Char`, `withExt` uses `List.isSuffixOf`, a file holds
  `Blob A S = npy A | npz S` for arbitrary value types, `Save`, `run`, `npLoad`, `npzLoad`; theorems
  `grid_last_write_wins`, `grid_lookup_written`, `grid_files_read_back_partial`.  This is the model that the
  correspondence check of C20 runs against `molgri/io.py`.

Here C20's model is instantiated at `A = NpArray K`, `S = Sp K` and the two are related by `toFS` (paths
`String.toList`, blobs `toBlob`):

* same extension rule (`withExt_toList`), same look-up (`read_toFS`), same effect of every writer call (`step_agree`),
  hence of EVERY sequence of writer calls C14's model can express (`run_agree`, `writeGrid_agree`), same loaders
  (`loadNpy_agree`, `loadSparse_agree`) including the exceptions;
* C14's `read_after_write` and `write_preserves_others` are corollaries of C20's `grid_lookup_written` /
  `grid_last_write_wins` (`read_after_write_from_c20`, `write_preserves_others_from_c20`);
* `pipeline20` is C14's pipeline written on C20's file model (any directory of C20's model, any `List Char` paths);
  `pipeline_agree`: it equals C14's `pipeline` on the image of every C14 input (no hypothesis, error cases included);
  `pipeline_eq_files`, `pipeline_ok_files`: C14's `pipeline_eq` / `pipeline_ok` hold on C20's file model.

No disagreement between the two models was found: they agree on every input (paths, directory contents, sequences of
saves, loaders, exceptions).  The only difference is expressiveness: C14's loader reports numpy's `NpzFile` object as the
error `other:NpzFile`, C20's returns it as a value (`NpLoaded.npzFile`); `loadNpy_agree` states the translation.
-/
import Molgri.Props.C14
import Molgri.Props.C20

set_option linter.unusedSectionVars false

namespace Molgri.Bridge.Files
open Molgri
open Molgri.Pipeline (NpArray Sp Paths)

variable {K : Type}

/-! ### translation of C14's file system into C20's -/

/-- content of a file: C14's `Blob K` is C20's `Blob (NpArray K) (Sp K)` -/
def toBlob : Pipeline.Blob K → GridFiles.Blob (NpArray K) (Sp K)
  | .npy a => .npy a
  | .sparse s => .npz s

/-- a directory of C14's model as a directory of C20's model (same order: most recent write first) -/
def toFS (fs : Pipeline.FS K) : GridFiles.FS (NpArray K) (Sp K) := fs.map fun pb => (pb.1.toList, toBlob pb.2)

/-- the five getters: C20's `Grid` keeps arbitrary array values, C14's fixes the full grid to a 2-d and the volumes to
a 1-d array -/
def toGrid (g : Pipeline.Grid K) : GridFiles.Grid (NpArray K) (Sp K) :=
  ⟨.table g.fullGrid, .vec g.volumes, g.borders, g.distances, g.adjacency⟩

theorem toBlob_injective {a b : Pipeline.Blob K} (h : toBlob a = toBlob b) : a = b := by
  cases a <;> cases b <;> simp_all [toBlob]

/-! ### same path / extension rules -/

/-- `String.endsWith` (C14) is `List.isSuffixOf` on the characters (C20) -/
theorem endsWith_toList (p ext : String) : p.endsWith ext = ext.toList.isSuffixOf p.toList := by
  rw [Bool.eq_iff_iff, ← String.endsWith_toSlice, String.Slice.endsWith_string_iff, List.isSuffixOf_iff_suffix]
  simp

/-- **Same extension rule**, for every path and every extension: `if not file.endswith(ext): file = file + ext`. -/
theorem withExt_toList (ext p : String) :
    (Pipeline.withExt ext p).toList = GridFiles.withExt ext.toList p.toList := by
  unfold Pipeline.withExt GridFiles.withExt
  rw [endsWith_toList]
  split
  · rfl
  · exact String.toList_append

theorem extNpy_eq : ".npy".toList = GridFiles.extNpy := rfl
theorem extNpz_eq : ".npz".toList = GridFiles.extNpz := rfl

theorem withExt_npy (p : String) : (Pipeline.withExt ".npy" p).toList = GridFiles.withExt GridFiles.extNpy p.toList :=
  withExt_toList ".npy" p
theorem withExt_npz (p : String) : (Pipeline.withExt ".npz" p).toList = GridFiles.withExt GridFiles.extNpz p.toList :=
  withExt_toList ".npz" p

/-- **Same look-up**: reading a path in C14's directory is looking up its characters in the translated directory. -/
theorem read_toFS (fs : Pipeline.FS K) (p : String) :
    GridFiles.lookup p.toList (toFS fs) = (fs.read p).map toBlob := by
  induction fs with
  | nil => rfl
  | cons qb fs ih =>
    obtain ⟨q, b⟩ := qb
    show (if p.toList = q.toList then some (toBlob b) else GridFiles.lookup p.toList (toFS fs)) = _
    unfold Pipeline.FS.read
    by_cases h : p = q
    · subst h; simp
    · have h' : ¬ p.toList = q.toList := fun e => h (String.toList_inj.mp e)
      have h'' : (p == q) = false := by simpa using h
      rw [if_neg h', h'', ih]
      rfl

/-! ### every sequence of writer calls -/

/-- one writer call of C14's model -/
inductive Op
  | fullGrid (p : String)
  | volumes (p : String)
  | borders (p : String)
  | distances (p : String)
  | adjacency (p : String)
  deriving DecidableEq, Repr

/-- the same call in C20's model -/
def Op.toSave : Op → GridFiles.Save
  | .fullGrid p => .fullGrid p.toList
  | .volumes p => .volumes p.toList
  | .borders p => .borders p.toList
  | .distances p => .distances p.toList
  | .adjacency p => .adjacency p.toList

/-- the file the call creates or replaces, in C14's model -/
def Op.target : Op → String
  | .fullGrid p => Pipeline.withExt ".npy" p
  | .volumes p => Pipeline.withExt ".npy" p
  | .borders p => Pipeline.withExt ".npz" p
  | .distances p => Pipeline.withExt ".npz" p
  | .adjacency p => Pipeline.withExt ".npz" p

/-- C14's five `save*` functions as one step function -/
def step (g : Pipeline.Grid K) (fs : Pipeline.FS K) : Op → Pipeline.FS K
  | .fullGrid p => Pipeline.saveFullGrid g fs p
  | .volumes p => Pipeline.saveVolumes g fs p
  | .borders p => Pipeline.saveBorders g fs p
  | .distances p => Pipeline.saveDistances g fs p
  | .adjacency p => Pipeline.saveAdjacency g fs p

/-- any sequence of writer calls in C14's model -/
def run (g : Pipeline.Grid K) (fs : Pipeline.FS K) (ops : List Op) : Pipeline.FS K := ops.foldl (step g) fs

/-- **Same target file** of every writer call. -/
theorem target_agree (op : Op) : op.toSave.target = op.target.toList := by
  cases op <;> simp only [Op.toSave, Op.target, GridFiles.Save.target, withExt_npy, withExt_npz]

/-- **Same effect of every writer call**: C14's `save*` followed by the translation is C20's `write` on the translated
directory (same file, same content, other files untouched, same position in the directory). -/
theorem step_agree (g : Pipeline.Grid K) (fs : Pipeline.FS K) (op : Op) :
    toFS (step g fs op) = GridFiles.write (toGrid g) (toFS fs) op.toSave := by
  cases op <;>
    simp only [step, Pipeline.saveFullGrid, Pipeline.saveVolumes, Pipeline.saveBorders, Pipeline.saveDistances,
      Pipeline.saveAdjacency, Pipeline.FS.write, toFS, List.map_cons, GridFiles.write, Op.toSave,
      GridFiles.Save.target, GridFiles.Save.blob, toGrid, toBlob, withExt_npy, withExt_npz]

/-- **Same directory after every sequence of saves C14's model can express.** -/
theorem run_agree (g : Pipeline.Grid K) (fs : Pipeline.FS K) (ops : List Op) :
    toFS (run g fs ops) = GridFiles.run (toGrid g) (toFS fs) (ops.map Op.toSave) := by
  induction ops generalizing fs with
  | nil => rfl
  | cons op ops ih =>
    show toFS (run g (step g fs op) ops) = GridFiles.run (toGrid g) (GridFiles.write (toGrid g) (toFS fs) op.toSave) _
    rw [ih, step_agree]

/-- the five calls of `workflow/run_grid` in the order of C14's `writeGrid` -/
def workflowOps (p : Paths) : List Op :=
  [.fullGrid p.grid, .adjacency p.adjacency, .borders p.borders, .distances p.distances, .volumes p.volumes]

theorem writeGrid_eq_run (g : Pipeline.Grid K) (p : Paths) (fs : Pipeline.FS K) :
    Pipeline.writeGrid g p fs = run g fs (workflowOps p) := rfl

/-- C14's `writeGrid` is C20's `run` of the five `Save`s. -/
theorem writeGrid_agree (g : Pipeline.Grid K) (p : Paths) (fs : Pipeline.FS K) :
    toFS (Pipeline.writeGrid g p fs) = GridFiles.run (toGrid g) (toFS fs) ((workflowOps p).map Op.toSave) := by
  rw [writeGrid_eq_run, run_agree]

/-- **Same read-back result for every sequence of saves**: C20's `grid_last_write_wins` read through the bridge — in
C14's model a path holds what the last call that targeted it wrote, otherwise what it held before. -/
theorem run_read (g : Pipeline.Grid K) (fs : Pipeline.FS K) (ops : List Op) (q : String) :
    (run g fs ops).read q =
      match ops.reverse.find? (fun o => o.target = q) with
      | some (.fullGrid _) => some (.npy (.table g.fullGrid))
      | some (.volumes _) => some (.npy (.vec g.volumes))
      | some (.borders _) => some (.sparse g.borders)
      | some (.distances _) => some (.sparse g.distances)
      | some (.adjacency _) => some (.sparse g.adjacency)
      | none => fs.read q := by
  have h := Molgri.C20.grid_last_write_wins (toGrid g) (toFS fs) (ops.map Op.toSave) q.toList
  rw [← run_agree, read_toFS, read_toFS, ← List.map_reverse, List.find?_map] at h
  have hf : ((fun o : GridFiles.Save => decide (o.target = q.toList)) ∘ Op.toSave) =
      fun o : Op => decide (o.target = q) := by
    funext o
    simp only [Function.comp, target_agree, String.toList_inj]
  rw [hf] at h
  cases hfind : ops.reverse.find? (fun o => o.target = q) with
  | none =>
    rw [hfind] at h
    simp only [Option.map_none] at h
    cases hr : (run g fs ops).read q with
    | none => rw [hr] at h; cases hq : fs.read q with
      | none => rfl
      | some b => rw [hq] at h; cases h
    | some a => rw [hr] at h; cases hq : fs.read q with
      | none => rw [hq] at h; cases h
      | some b =>
        rw [hq] at h
        simp only [Option.map_some, Option.some.injEq] at h
        rw [toBlob_injective h]
  | some o =>
    rw [hfind] at h
    simp only [Option.map_some] at h
    cases hr : (run g fs ops).read q with
    | none => rw [hr] at h; cases h
    | some a =>
      rw [hr] at h
      simp only [Option.map_some, Option.some.injEq] at h
      cases o <;> cases a <;> simp_all [Op.toSave, GridFiles.Save.blob, toGrid, toBlob]

/-! ### same loaders -/

/-- `np.load`: C14's `loadNpy` is C20's `npLoad`; where C20 returns numpy's `NpzFile` object as a value, C14 reports
`other:NpzFile`; same `FileNotFoundError`. -/
theorem loadNpy_agree (fs : Pipeline.FS K) (p : String) :
    Pipeline.loadNpy fs p =
      match GridFiles.npLoad (toFS fs) p.toList with
      | .ok (.array a) => .ok a
      | .ok (.npzFile _) => .error "other:NpzFile"
      | .error e => .error e := by
  unfold Pipeline.loadNpy GridFiles.npLoad
  rw [read_toFS]
  cases fs.read p with
  | none => rfl
  | some b => cases b <;> rfl

/-- `scipy.sparse.load_npz`: C14's `loadSparse` is C20's `npzLoad`, exceptions included. -/
theorem loadSparse_agree (fs : Pipeline.FS K) (p : String) :
    Pipeline.loadSparse fs p = GridFiles.npzLoad (toFS fs) p.toList := by
  unfold Pipeline.loadSparse GridFiles.npzLoad
  rw [read_toFS]
  cases fs.read p with
  | none => rfl
  | some b => cases b <;> rfl

/-! ### C14's file theorems are corollaries of C20's -/

theorem targets_nodup {p : Paths} (hd : Molgri.C14.Distinct p.targets) :
    (((workflowOps p).map Op.toSave).map GridFiles.Save.target).Nodup := by
  have h1 : ((workflowOps p).map Op.toSave).map GridFiles.Save.target =
      [p.targets.grid, p.targets.adjacency, p.targets.borders, p.targets.distances, p.targets.volumes].map
        String.toList := by
    simp only [workflowOps, List.map_cons, List.map_nil, target_agree, Op.target, Paths.targets]
  rw [h1]
  apply List.Nodup.map (fun a b h => String.toList_inj.mp h)
  unfold Molgri.C14.Distinct at hd
  simp only [List.nodup_cons, List.mem_cons, List.not_mem_nil, or_false, not_or, List.nodup_nil, and_true] at hd ⊢
  obtain ⟨⟨h1, h2, h3, h4⟩, ⟨h5, h6, h7⟩, ⟨h8, h9⟩, h10, _⟩ := hd
  exact ⟨⟨h4, h2, h3, h1⟩, ⟨Ne.symm h9, Ne.symm h10, Ne.symm h7⟩, ⟨h8, Ne.symm h5⟩, Ne.symm h6, not_false⟩

/-- what a workflow file holds after `writeGrid`, from C20's `grid_lookup_written` -/
theorem writeGrid_read (g : Pipeline.Grid K) (p : Paths) (fs : Pipeline.FS K) (hd : Molgri.C14.Distinct p.targets)
    (o : Op) (ho : o ∈ workflowOps p) :
    ((Pipeline.writeGrid g p fs).read o.target).map toBlob = some (o.toSave.blob (toGrid g)) := by
  have h := Molgri.C20.grid_lookup_written (toGrid g) (toFS fs) ((workflowOps p).map Op.toSave) (targets_nodup hd)
    o.toSave (List.mem_map_of_mem ho)
  rw [← writeGrid_agree, target_agree, read_toFS] at h
  exact h

/-- **C14's `read_after_write` from C20's `grid_lookup_written`** (same statement as `Molgri.C14.read_after_write`, proved
without any C14 lemma about files). -/
theorem read_after_write_from_c20 (g : Pipeline.Grid K) (p : Paths) (fs : Pipeline.FS K)
    (hd : Molgri.C14.Distinct p.targets) :
    Pipeline.readGeometry (Pipeline.writeGrid g p fs) p.targets = .ok (g.volumes, g.borders, g.distances)
    ∧ Pipeline.loadSparse (Pipeline.writeGrid g p fs) p.targets.adjacency = .ok g.adjacency
    ∧ Pipeline.loadNpy (Pipeline.writeGrid g p fs) p.targets.grid = .ok (.table g.fullGrid) := by
  have rd : ∀ o ∈ workflowOps p, ∀ b, o.toSave.blob (toGrid g) = toBlob b →
      (Pipeline.writeGrid g p fs).read o.target = some b := by
    intro o ho b hb
    have h := writeGrid_read g p fs hd o ho
    rw [hb] at h
    cases hr : (Pipeline.writeGrid g p fs).read o.target with
    | none => rw [hr] at h; cases h
    | some a =>
      rw [hr] at h
      simp only [Option.map_some, Option.some.injEq] at h
      rw [toBlob_injective h]
  have hv := rd (.volumes p.volumes) (by simp [workflowOps]) (.npy (.vec g.volumes)) rfl
  have hb := rd (.borders p.borders) (by simp [workflowOps]) (.sparse g.borders) rfl
  have hdi := rd (.distances p.distances) (by simp [workflowOps]) (.sparse g.distances) rfl
  have ha := rd (.adjacency p.adjacency) (by simp [workflowOps]) (.sparse g.adjacency) rfl
  have hg := rd (.fullGrid p.grid) (by simp [workflowOps]) (.npy (.table g.fullGrid)) rfl
  simp only [Op.target] at hv hb hdi ha hg
  refine ⟨?_, ?_, ?_⟩
  · simp only [Pipeline.readGeometry, Pipeline.loadNpy, Pipeline.loadSparse, Paths.targets, hv, hb, hdi]
    rfl
  · simp only [Pipeline.loadSparse, Paths.targets, ha]
  · simp only [Pipeline.loadNpy, Paths.targets, hg]

/-- **C14's `write_preserves_others` from C20's `grid_last_write_wins`.** -/
theorem write_preserves_others_from_c20 (g : Pipeline.Grid K) (p : Paths) (fs : Pipeline.FS K) (q : String)
    (hq : q ∉ [p.targets.grid, p.targets.volumes, p.targets.borders, p.targets.distances, p.targets.adjacency]) :
    (Pipeline.writeGrid g p fs).read q = fs.read q := by
  rw [writeGrid_eq_run, run_read]
  simp only [Paths.targets, List.mem_cons, List.not_mem_nil, or_false, not_or] at hq
  obtain ⟨h1, h2, h3, h4, h5⟩ := hq
  have hfind : (workflowOps p).reverse.find? (fun o => o.target = q) = none := by
    rw [List.find?_eq_none]
    intro o ho
    simp only [workflowOps, List.reverse_cons, List.reverse_nil, List.nil_append, List.cons_append, List.mem_cons,
      List.not_mem_nil, or_false] at ho
    rcases ho with rfl | rfl | rfl | rfl | rfl <;> intro e <;> have e' := of_decide_eq_true e <;>
      simp only [Op.target] at e' <;>
      first | exact h1 e'.symm | exact h2 e'.symm | exact h3 e'.symm | exact h4 e'.symm | exact h5 e'.symm
  rw [hfind]

/-- **C20's `grid_files_read_back_partial` in C14's model**: for EVERY sequence of C14's writer calls with pairwise
different target files (not only the five calls of `writeGrid`), a path that carries the extension of its kind and was
given to a `save*` function yields, through C14's loader of that kind, exactly the value of the corresponding getter.
Derived from C20's theorem through `run_agree`, `loadNpy_agree`, `loadSparse_agree`. -/
theorem run_files_read_back (g : Pipeline.Grid K) (fs : Pipeline.FS K) (ops : List Op)
    (hd : (ops.map Op.target).Nodup) (p : String) :
    (p.endsWith ".npy" = true → Op.fullGrid p ∈ ops → Pipeline.loadNpy (run g fs ops) p = .ok (.table g.fullGrid)) ∧
    (p.endsWith ".npy" = true → Op.volumes p ∈ ops → Pipeline.loadNpy (run g fs ops) p = .ok (.vec g.volumes)) ∧
    (p.endsWith ".npz" = true → Op.borders p ∈ ops → Pipeline.loadSparse (run g fs ops) p = .ok g.borders) ∧
    (p.endsWith ".npz" = true → Op.distances p ∈ ops → Pipeline.loadSparse (run g fs ops) p = .ok g.distances) ∧
    (p.endsWith ".npz" = true → Op.adjacency p ∈ ops → Pipeline.loadSparse (run g fs ops) p = .ok g.adjacency) := by
  have hd' : ((ops.map Op.toSave).map GridFiles.Save.target).Nodup := by
    have : (ops.map Op.toSave).map GridFiles.Save.target = (ops.map Op.target).map String.toList := by
      simp only [List.map_map]
      apply List.map_congr_left
      intro o _
      exact target_agree o
    rw [this]
    exact List.Nodup.map (fun a b h => String.toList_inj.mp h) hd
  obtain ⟨c1, c2, c3, c4, c5⟩ :=
    Molgri.C20.grid_files_read_back_partial (toGrid g) (toFS fs) (ops.map Op.toSave) hd' p.toList
  rw [← run_agree] at c1 c2 c3 c4 c5
  refine ⟨?_, ?_, ?_, ?_, ?_⟩ <;> intro hp hm
  · rw [loadNpy_agree, c1 (by rw [← extNpy_eq, ← endsWith_toList]; exact hp) (List.mem_map_of_mem (f := Op.toSave) hm)]
    rfl
  · rw [loadNpy_agree, c2 (by rw [← extNpy_eq, ← endsWith_toList]; exact hp) (List.mem_map_of_mem (f := Op.toSave) hm)]
    rfl
  · rw [loadSparse_agree, c3 (by rw [← extNpz_eq, ← endsWith_toList]; exact hp)
      (List.mem_map_of_mem (f := Op.toSave) hm)]
    rfl
  · rw [loadSparse_agree, c4 (by rw [← extNpz_eq, ← endsWith_toList]; exact hp)
      (List.mem_map_of_mem (f := Op.toSave) hm)]
    rfl
  · rw [loadSparse_agree, c5 (by rw [← extNpz_eq, ← endsWith_toList]; exact hp)
      (List.mem_map_of_mem (f := Op.toSave) hm)]
    rfl

/-- **C20's `grid_extension_witness` in C14's model**: a grid saved under a name without `.npy` is found under
`name.npy` and not under `name` (`np.save` appends the suffix, `np.load` does not). -/
theorem extension_witness (g : Pipeline.Grid K) (p : String) (hp : p.endsWith ".npy" = false) :
    Pipeline.loadNpy (Pipeline.saveFullGrid g [] p) p = .error "other:FileNotFoundError" ∧
    Pipeline.loadNpy (Pipeline.saveFullGrid g [] p) (p ++ ".npy") = .ok (.table g.fullGrid) := by
  have h := Molgri.C20.grid_extension_witness (toGrid g) p.toList (by rw [← extNpy_eq, ← endsWith_toList]; exact hp)
  have hrun : GridFiles.run (toGrid g) [] [GridFiles.Save.fullGrid p.toList] =
      toFS (Pipeline.saveFullGrid g [] p) := (run_agree g [] [Op.fullGrid p]).symm
  rw [hrun] at h
  constructor
  · rw [loadNpy_agree, h.1]
  · rw [loadNpy_agree, String.toList_append, extNpy_eq, h.2]
    rfl

example : ("grids/full_grid" : String).endsWith ".npy" = false := by
  rw [endsWith_toList]; decide

/-! ### C14's pipeline on C20's file model -/

section pipeline
variable {F : Type} [Field F] [LinearOrder F]

/-- the five path arguments in C20's model -/
structure Paths20 where
  grid : GridFiles.Path
  volumes : GridFiles.Path
  borders : GridFiles.Path
  distances : GridFiles.Path
  adjacency : GridFiles.Path

/-- the five `Save`s of `workflow/run_grid`, in its order -/
def Paths20.ops (p : Paths20) : List GridFiles.Save :=
  [.fullGrid p.grid, .adjacency p.adjacency, .borders p.borders, .distances p.distances, .volumes p.volumes]

def toPaths (p : Paths) : Paths20 :=
  ⟨p.grid.toList, p.volumes.toList, p.borders.toList, p.distances.toList, p.adjacency.toList⟩

theorem toPaths_ops (p : Paths) : (toPaths p).ops = (workflowOps p).map Op.toSave := rfl

/-- what `workflow/run_sqra` loads, with C20's loaders: the volumes file must hold a 1-d array (C14's model
boundary `other:NotAVector`; numpy's `NpzFile` for an archive) -/
def readGeometry20 (fs : GridFiles.FS (NpArray F) (Sp F)) (volumes borders distances : GridFiles.Path) :
    Except String (List F × Sp F × Sp F) :=
  match GridFiles.npLoad fs volumes with
  | .error e => .error e
  | .ok (.npzFile _) => .error "other:NpzFile"
  | .ok (.array (.table _)) => .error "other:NotAVector"
  | .ok (.array (.vec v)) =>
    match GridFiles.npzLoad fs borders with
    | .error e => .error e
    | .ok b =>
      match GridFiles.npzLoad fs distances with
      | .error e => .error e
      | .ok d => .ok (v, b, d)

/-- C14's `pipeline` with the files handled by C20's model: `run` the five `Save`s on any directory, load the three
files under the names the writer gave them, build the rate matrix. -/
def pipeline20 (exp rnd : F → F) (kB NA : F) (g : GridFiles.Grid (NpArray F) (Sp F)) (p : Paths20)
    (fs : GridFiles.FS (NpArray F) (Sp F)) (E : List F) (D T : F) : Except String (Sp F) :=
  match readGeometry20 (GridFiles.run g fs p.ops) (GridFiles.Save.volumes p.volumes).target
      (GridFiles.Save.borders p.borders).target (GridFiles.Save.distances p.distances).target with
  | .error e => .error e
  | .ok (v, b, d) => Pipeline.getRateMatrix exp rnd kB NA E v d b D T

omit [Field F] [LinearOrder F] in
/-- C14's `readGeometry` is `readGeometry20` on the translated directory — every directory, every three paths, every
outcome (values and exceptions). -/
theorem readGeometry_agree (fs : Pipeline.FS F) (q : Paths) :
    Pipeline.readGeometry fs q = readGeometry20 (toFS fs) q.volumes.toList q.borders.toList q.distances.toList := by
  unfold readGeometry20
  rw [← loadSparse_agree, ← loadSparse_agree]
  unfold Pipeline.readGeometry
  rw [loadNpy_agree]
  cases GridFiles.npLoad (toFS fs) q.volumes.toList with
  | error e => rfl
  | ok l =>
    cases l with
    | npzFile s => rfl
    | array a =>
      cases a with
      | table t => rfl
      | vec v =>
        cases Pipeline.loadSparse fs q.borders with
        | error e => rfl
        | ok b =>
          cases Pipeline.loadSparse fs q.distances with
          | error e => rfl
          | ok d => rfl

/-- **The two pipelines are one function**: C14's `pipeline` equals `pipeline20` on the translated grid, paths and
directory — for every input, without any hypothesis (exceptions included). -/
theorem pipeline_agree (exp rnd : F → F) (kB NA : F) (g : Pipeline.Grid F) (p : Paths) (fs : Pipeline.FS F)
    (E : List F) (D T : F) :
    Pipeline.pipeline exp rnd kB NA g p fs E D T =
      pipeline20 exp rnd kB NA (toGrid g) (toPaths p) (toFS fs) E D T := by
  unfold Pipeline.pipeline pipeline20
  rw [toPaths_ops, ← writeGrid_agree, readGeometry_agree]
  have e1 : (GridFiles.Save.volumes (toPaths p).volumes).target = p.targets.volumes.toList :=
    target_agree (.volumes p.volumes)
  have e2 : (GridFiles.Save.borders (toPaths p).borders).target = p.targets.borders.toList :=
    target_agree (.borders p.borders)
  have e3 : (GridFiles.Save.distances (toPaths p).distances).target = p.targets.distances.toList :=
    target_agree (.distances p.distances)
  rw [e1, e2, e3]
  cases readGeometry20 (toFS (Pipeline.writeGrid g p fs)) p.targets.volumes.toList p.targets.borders.toList
      p.targets.distances.toList with
  | error e => rfl
  | ok r => obtain ⟨v, b, d⟩ := r; rfl

/-- **`pipeline_eq` on C20's file model.**  For every directory of C20's model, every five `List Char` paths whose
target files are pairwise different, and every grid whose volumes getter returns a 1-d array: the pipeline through the
files (C20's `run`, `npLoad`, `npzLoad`) is the rate matrix of the writer's own geometry.  Proved from C20's
`grid_lookup_written`. -/
theorem pipeline_eq_files (exp rnd : F → F) (kB NA : F) (g : GridFiles.Grid (NpArray F) (Sp F)) (v : List F)
    (hv : g.volumes = .vec v) (p : Paths20) (fs : GridFiles.FS (NpArray F) (Sp F)) (E : List F) (D T : F)
    (hd : (p.ops.map GridFiles.Save.target).Nodup) :
    pipeline20 exp rnd kB NA g p fs E D T = Pipeline.getRateMatrix exp rnd kB NA E v g.distances g.borders D T := by
  have h1 := Molgri.C20.grid_lookup_written g fs p.ops hd (.volumes p.volumes) (by simp [Paths20.ops])
  have h2 := Molgri.C20.grid_lookup_written g fs p.ops hd (.borders p.borders) (by simp [Paths20.ops])
  have h3 := Molgri.C20.grid_lookup_written g fs p.ops hd (.distances p.distances) (by simp [Paths20.ops])
  unfold pipeline20 readGeometry20 GridFiles.npLoad GridFiles.npzLoad
  rw [h1, h2, h3]
  simp only [GridFiles.Save.blob, hv]
  rfl

/-- **C14's `pipeline_eq`, through C20's file model** (same statement as `Molgri.C14.pipeline_eq`): the files of C14's
pipeline are handled by the model that C20's correspondence check ties to `molgri/io.py`. -/
theorem pipeline_eq_via_c20 (exp rnd : F → F) (kB NA : F) (g : Pipeline.Grid F) (p : Paths) (fs : Pipeline.FS F)
    (E : List F) (D T : F) (hd : Molgri.C14.Distinct p.targets) :
    Pipeline.pipeline exp rnd kB NA g p fs E D T =
      Pipeline.getRateMatrix exp rnd kB NA E g.volumes g.distances g.borders D T := by
  rw [pipeline_agree]
  exact pipeline_eq_files exp rnd kB NA (toGrid g) g.volumes rfl (toPaths p) (toFS fs) E D T
    (by rw [toPaths_ops]; exact targets_nodup hd)

/-- **C14's `pipeline_ok` on C20's file model**: for valid sub-grids and one energy per cell, the pipeline through
C20's files does not raise and returns the csr rate matrix of the writer's geometry — every directory, every paths
with pairwise different targets. -/
theorem pipeline_ok_files [IsStrictOrderedRing F] (exp rnd : F → F) (kB NA T D : F) (s : Pipeline.SubGrids F)
    (hv : Molgri.C14.Valid s) (p : Paths20) (fs : GridFiles.FS (NpArray F) (Sp F))
    (hd : (p.ops.map GridFiles.Save.target).Nodup) (E : List F) (hE : E.length = s.nP * s.nB) :
    pipeline20 exp rnd kB NA (toGrid s.toGrid) p fs E D T
      = .ok ⟨.csr, s.nP * s.nB, Pipeline.rateMat exp rnd kB NA T D (s.nP * s.nB) (Molgri.C14.geomS s)
          (Pipeline.dataOf (Molgri.C14.geomH s)) (Molgri.C14.volOf s) (fun k => E.getD k 0)⟩ := by
  rw [pipeline_eq_files exp rnd kB NA (toGrid s.toGrid) s.toGrid.volumes rfl p fs E D T hd]
  -- the value of `getRateMatrix` on the writer's geometry, read off C14's `pipeline_ok` at the workflow's file names
  have hdist : Molgri.C14.Distinct (Paths.targets ⟨"full_array.npy", "volumes.npy", "borders_array.npz",
      "distances_array.npz", "adjacency_array.npz"⟩) := by unfold Molgri.C14.Distinct; decide +kernel
  rw [← Molgri.C14.pipeline_ok exp rnd kB NA T D s hv _ [] hdist E hE, Molgri.C14.pipeline_eq _ _ _ _ _ _ _ _ _ _ hdist]
  rfl

/-- non-vacuity: the file names of `workflow/run_grid` have pairwise different targets in C20's model -/
example : ((toPaths ⟨"full_array.npy", "volumes.npy", "borders_array.npz", "distances_array.npz",
    "adjacency_array.npz"⟩).ops.map GridFiles.Save.target).Nodup := by
  decide +kernel

end pipeline

end Molgri.Bridge.Files
