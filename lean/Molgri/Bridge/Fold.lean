/-
Bridge C (2) — the antipode fold of the rotation-grid matrices is ONE function in C02 and C04.

`HalfRotobjVoronoi._calculate_N_N_array` (`voronoi.py:366-401`) is modelled twice:

* C04  `Molgri.HalfFold`  `foldStep / foldRow / foldMat / halfMatrix(Q)` on lists of rows, any value type, a truthiness
                           test as parameter, the antipode table computed from the grid (`ind2opp`, `upperIdx`);
* C02  `Molgri.FullGrid`  `foldStep / foldRow / foldAll / halfRows / halfDense` on a dense function `A i j`, truthiness
                           fixed to `≠ 0`, antipode map and upper indices as parameters.

Below: the loop bodies, the row loops and the folded matrices are equal on **all** inputs (`foldStep_eq`,
`foldRow_eq`, `foldAll_eq`, `halfDense_eq_ent`, `halfRows_eq_submatrix`), C04's end-to-end getter returns C02's
`halfRows` (`halfMatrixQ_eq_halfRows`), and the abstract hypotheses of C02's `half_*` theorems (an involution `o`
with `opp j = some (o j)`, upper = smaller index of each pair) are **theorems** for the antipode table and the upper
indices that C04 computes from a separated double cover (`c02_hyps_of_cover`), so that `half_entry`, `half_symm`,
`half_diag`, `full_symm_of_fold` can be restated without them (`*_cover`).
-/
import Molgri.Props.C02
import Molgri.Props.C04

set_option linter.unusedSectionVars false

namespace Molgri.Bridge.Fold

open Molgri.HalfFold

section
variable {K : Type} [Zero K] [DecidableEq K]

/-- the truthiness test of C02's fold (`if el:` on a number) as C04's parameter -/
def nz : K → Bool := fun x => decide (x ≠ 0)

/-- **Loop body.**  C02's `foldStep` is C04's `foldStep` with the truthiness test `≠ 0`, for every row (of any length)
and every column index (also past the end of the row). -/
theorem foldStep_eq (opp : Nat → Option Nat) (row : List K) (j : Nat) :
    FullGrid.foldStep opp row j = HalfFold.foldStep nz opp row j := by
  unfold FullGrid.foldStep HalfFold.foldStep nz
  by_cases hj : j < row.length
  · have h1 : row[j]? = some row[j] := List.getElem?_eq_getElem hj
    have h2 : row.getD j 0 = row[j] := by simp [List.getD_eq_getElem?_getD, hj]
    simp only [h1, h2]
    by_cases h0 : row[j] = 0
    · simp [h0]
    · simp only [h0, if_false, ne_eq, not_false_eq_true, decide_true, if_true]
      cases opp j <;> rfl
  · have h1 : row[j]? = none := List.getElem?_eq_none (Nat.le_of_not_lt hj)
    simp [h1]

/-- **Row loop.**  C02's `foldRow m` (columns `0 … m-1`) is C04's `foldUpTo … m`. -/
theorem foldRow_eq (m : Nat) (opp : Nat → Option Nat) (row : List K) :
    FullGrid.foldRow m opp row = HalfFold.foldUpTo nz opp m row := by
  unfold FullGrid.foldRow HalfFold.foldUpTo
  congr 1
  funext r j
  exact foldStep_eq opp r j

/-- … and on a row of length `m` it is C04's `foldRow`. -/
theorem foldRow_eq_self (opp : Nat → Option Nat) (row : List K) :
    FullGrid.foldRow row.length opp row = HalfFold.foldRow nz opp row :=
  foldRow_eq row.length opp row

/-- The dense function `A` of C02 as the list of rows C04 folds. -/
def denseRows (m : Nat) (A : Nat → Nat → K) : List (List K) :=
  (List.range m).map fun i => (List.range m).map (A i)

theorem denseRows_square (m : Nat) (A : Nat → Nat → K) : Square m (denseRows m A) := by
  refine ⟨by simp [denseRows], ?_⟩
  intro row hrow
  simp only [denseRows, List.mem_map] at hrow
  obtain ⟨i, _, rfl⟩ := hrow
  simp

theorem denseRows_getD (m : Nat) (A : Nat → Nat → K) (i : Nat) (hi : i < m) :
    (denseRows m A).getD i [] = (List.range m).map (A i) := by
  simp [denseRows, List.getD_eq_getElem?_getD, hi]

theorem denseRows_ent (m : Nat) (A : Nat → Nat → K) (i j : Nat) (hi : i < m) (hj : j < m) :
    ent (denseRows m A) 0 i j = A i j := by
  unfold ent
  rw [denseRows_getD m A i hi]
  simp [List.getD_eq_getElem?_getD, hj]

/-- **Folded row `i`.**  C02's `foldAll m opp A i` is row `i` of C04's `foldMat` of the same matrix. -/
theorem foldAll_eq (m : Nat) (opp : Nat → Option Nat) (A : Nat → Nat → K) (i : Nat) (hi : i < m) :
    FullGrid.foldAll m opp A i = (HalfFold.foldMat nz opp (denseRows m A)).getD i [] := by
  unfold FullGrid.foldAll
  rw [foldMat_getD, denseRows_getD m A i hi]
  have h := foldRow_eq_self opp ((List.range m).map (A i))
  simpa using h

/-- **Folded matrix, entry by entry.**  C02's `halfDense` (the function its `half_*` theorems speak about) is the
entry of C04's folded matrix (the function its `fold_*` theorems speak about) at the corresponding upper indices. -/
theorem halfDense_eq_ent (m : Nat) (opp : Nat → Option Nat) (upper : List Nat) (A : Nat → Nat → K) (a b : Nat)
    (ha : upper.getD a 0 < m) :
    FullGrid.halfDense m opp upper A a b =
      ent (HalfFold.foldMat nz opp (denseRows m A)) 0 (upper.getD a 0) (upper.getD b 0) := by
  unfold FullGrid.halfDense ent
  rw [foldAll_eq m opp A _ ha]

/-- the list-of-rows matrix C04 works on, seen through C02's `ofRows`, is the same matrix -/
theorem denseRows_ofRows {m : Nat} (A : List (List K)) (hA : Square m A) :
    denseRows m (FullGrid.ofRows A) = A := by
  apply List.ext_getElem
  · simp [denseRows, hA.1]
  · intro i h1 h2
    have hi : i < m := by simpa [denseRows] using h1
    have hrow : A[i].length = m := hA.2 _ (List.getElem_mem h2)
    simp only [denseRows, List.getElem_map, List.getElem_range]
    apply List.ext_getElem
    · simp [hrow]
    · intro j h3 h4
      have hj : j < m := by simpa using h3
      simp [FullGrid.ofRows, List.getD_eq_getElem?_getD, h2, h4]

/-- The same for a matrix given as rows (the form both drivers receive): C02's `halfDense` of `ofRows A` is the entry
of C04's `foldMat … A`. -/
theorem halfDense_ofRows {m : Nat} (opp : Nat → Option Nat) (upper : List Nat) (A : List (List K)) (hA : Square m A)
    (a b : Nat) (ha : upper.getD a 0 < m) :
    FullGrid.halfDense m opp upper (FullGrid.ofRows A) a b =
      ent (HalfFold.foldMat nz opp A) 0 (upper.getD a 0) (upper.getD b 0) := by
  rw [halfDense_eq_ent m opp upper _ a b ha, denseRows_ofRows A hA]

/-- **The returned dense array.**  C02's `halfRows` (the array handed to `coo_array`) is C04's `submatrix` of the folded
matrix at the upper indices (which `extract_eq_submatrix` proves to be what the NaN-masking extraction returns). -/
theorem halfRows_eq_submatrix {m : Nat} (opp : Nat → Option Nat) (upper : List Nat) (A : List (List K))
    (hA : Square m A) (hup : ∀ u ∈ upper, u < m) :
    (FullGrid.halfRows m opp upper (FullGrid.ofRows A)).map (fun row => row.map some) =
      HalfFold.submatrix upper (HalfFold.foldMat nz opp A) := by
  have hB := foldMat_square nz opp hA
  unfold FullGrid.halfRows HalfFold.submatrix
  rw [List.map_map]
  apply List.map_congr_left
  intro u hu
  have hum := hup u hu
  have huB : u < (HalfFold.foldMat nz opp A).length := by rw [hB.1]; exact hum
  simp only [Function.comp, List.map_map]
  apply List.map_congr_left
  intro c hc
  have hcm := hup c hc
  have hfold : FullGrid.foldAll m opp (FullGrid.ofRows A) u = (HalfFold.foldMat nz opp A)[u] := by
    rw [foldAll_eq m opp _ u hum, denseRows_ofRows A hA]
    simp [List.getD_eq_getElem?_getD, huB]
  have hrow : ((HalfFold.foldMat nz opp A)[u]).length = m := hB.2 _ (List.getElem_mem huB)
  rw [hfold]
  simp [List.getElem?_eq_getElem huB, List.getD_eq_getElem?_getD, hrow, hcm]

end

/-! ### the antipode table and the upper indices computed by C04 satisfy the hypotheses of C02 -/

/-- the antipode table of a double cover with `N` rows per half -/
def coverTable (N : Nat) : List (Option Nat) := (List.range (2 * N)).map fun d => some (oppIdx N d)

theorem oppFn_coverTable (N x : Nat) (hx : x < 2 * N) : oppFn (coverTable N) x = some (oppIdx N x) := by
  simp [oppFn, coverTable, hx]

/-- **C04 ⇒ hypotheses of C02.**  For a double cover `G ++ -G` whose rows are separated beyond `np.isclose` and whose
first half lies in the upper hemisphere (the hypotheses of C04's `half_matrix_symm`, validated on every explored grid
by `sepB`, `hupB`), the antipode table `ind2opp` and the upper indices `upperIdx` the code computes satisfy every
hypothesis C02's `half_entry / half_symm / half_diag / full_symm_of_fold` make about their parameters `opp`, `o`,
`upper`. -/
theorem c02_hyps_of_cover (G : List (List Rat)) (hsep : Sep (cover G))
    (hup : ∀ d, d < G.length → qInUpper (G.getD d []) = true ∧ qInUpper (negRow (G.getD d [])) = false) :
    ind2opp .len (cover G) = .ok (coverTable G.length) ∧
    upperIdx (cover G) = List.range G.length ∧
    (∀ j, j < 2 * G.length → oppFn (coverTable G.length) j = some (oppIdx G.length j)) ∧
    (∀ j, j < 2 * G.length → oppIdx G.length (oppIdx G.length j) = j) ∧
    (∀ j, j < 2 * G.length → oppIdx G.length j < 2 * G.length) ∧
    (∀ j, j < 2 * G.length → oppIdx G.length j ≠ j) ∧
    (∀ u ∈ upperIdx (cover G), u < 2 * G.length ∧ u < oppIdx G.length u) := by
  have hu := Molgri.C04.upper_cover G hup
  refine ⟨Molgri.C04.opp_cover G hsep, hu, fun j hj => oppFn_coverTable _ j hj, ?_, ?_, ?_, ?_⟩
  · intro j hj; unfold oppIdx; split <;> split <;> omega
  · intro j hj; unfold oppIdx; split <;> omega
  · intro j hj; unfold oppIdx; split <;> omega
  · intro u huu
    rw [hu] at huu
    have := List.mem_range.mp huu
    unfold oppIdx
    rw [if_pos this]
    omega

/-- C04's `Invol` is the bundle of hypotheses C02 states with an explicit involution `o`. -/
theorem invol_iff (n : Nat) (opp : Nat → Option Nat) :
    Invol n opp ↔ ∃ o : Nat → Nat, (∀ j, j < n → opp j = some (o j)) ∧ (∀ j, j < n → o (o j) = j) ∧
      (∀ j, j < n → o j < n) ∧ (∀ j, j < n → o j ≠ j) := by
  constructor
  · intro h
    refine ⟨fun j => (opp j).getD 0, ?_, ?_, ?_, ?_⟩
    · intro j hj; obtain ⟨k, hk, _⟩ := h j hj; simp [hk]
    · intro j hj; obtain ⟨k, hk, _, _, hkk⟩ := h j hj; simp [hk, hkk]
    · intro j hj; obtain ⟨k, hk, hkn, _⟩ := h j hj; simpa [hk] using hkn
    · intro j hj; obtain ⟨k, hk, _, hne, _⟩ := h j hj; simpa [hk] using hne
  · rintro ⟨o, ho, hinv, hlt, hne⟩ j hj
    refine ⟨o j, ho j hj, hlt j hj, hne j hj, ?_⟩
    rw [ho (o j) (hlt j hj), hinv j hj]

section
variable {K : Type} [Field K] [DecidableEq K]

/-- **The two entry formulas are the same formula.**  Under C04's hypothesis `Invol`, for an upper column `x` (smaller
index of its pair), C04's `fold_entry` at truthiness `≠ 0` reads as C02's `fnz`. -/
theorem fold_entry_fnz (opp : Nat → Option Nat) {n : Nat} (A : List (List K)) (hA : Square n A) (hinv : Invol n opp)
    (i x k : Nat) (hi : i < n) (hx : x < n) (hk : opp x = some k) (hxk : x < k) :
    ent (foldMat nz opp A) 0 i x = FullGrid.fnz (ent A 0 i x) (ent A 0 i k) := by
  rw [Molgri.C04.fold_entry nz opp A 0 hA hinv i x k hi hx hk, if_pos hxk]
  unfold FullGrid.fnz nz
  by_cases h1 : ent A 0 i x = 0
  · by_cases h2 : ent A 0 i k = 0
    · simp [h1, h2]
    · simp [h1, h2]
  · simp [h1]

/-- C02 `half_entry` for the table and the upper indices the code computes from a separated double cover
(no hypothesis on `opp`, `o`, `upper` left). -/
theorem half_entry_cover (G : List (List Rat)) (hsep : Sep (cover G))
    (hup : ∀ d, d < G.length → qInUpper (G.getD d []) = true ∧ qInUpper (negRow (G.getD d [])) = false)
    (A : Nat → Nat → K) (a b : Nat) (ha : a < G.length) (hb : b < G.length) :
    FullGrid.halfDense (2 * G.length) (oppFn (coverTable G.length)) (upperIdx (cover G)) A a b =
      FullGrid.fnz (A a b) (A a (b + G.length)) := by
  obtain ⟨_, hu, ho, hinv, hlt, hne, hupp⟩ := c02_hyps_of_cover G hsep hup
  have ha' : a < (upperIdx (cover G)).length := by rw [hu]; simpa using ha
  have hb' : b < (upperIdx (cover G)).length := by rw [hu]; simpa using hb
  rw [Molgri.C02.half_entry (2 * G.length) _ (oppIdx G.length) _ A ho hinv hlt hne hupp a b ha' hb']
  have ea : (upperIdx (cover G))[a] = a := by simp [hu]
  have eb : (upperIdx (cover G))[b] = b := by simp [hu]
  rw [ea, eb]
  unfold oppIdx
  rw [if_pos hb]

/-- C02 `half_symm` with its hypotheses on `opp`, `o`, `upper` discharged by C04. -/
theorem half_symm_cover (G : List (List Rat)) (hsep : Sep (cover G))
    (hup : ∀ d, d < G.length → qInUpper (G.getD d []) = true ∧ qInUpper (negRow (G.getD d [])) = false)
    (A : Nat → Nat → K)
    (hAs : ∀ i j, i < 2 * G.length → j < 2 * G.length → A i j = A j i)
    (hAa : ∀ i j, i < 2 * G.length → j < 2 * G.length → A (oppIdx G.length i) (oppIdx G.length j) = A i j)
    (a b : Nat) (ha : a < G.length) (hb : b < G.length) :
    FullGrid.halfDense (2 * G.length) (oppFn (coverTable G.length)) (upperIdx (cover G)) A a b =
      FullGrid.halfDense (2 * G.length) (oppFn (coverTable G.length)) (upperIdx (cover G)) A b a := by
  obtain ⟨_, hu, ho, hinv, hlt, hne, hupp⟩ := c02_hyps_of_cover G hsep hup
  have ha' : a < (upperIdx (cover G)).length := by rw [hu]; simpa using ha
  have hb' : b < (upperIdx (cover G)).length := by rw [hu]; simpa using hb
  exact Molgri.C02.half_symm (2 * G.length) _ (oppIdx G.length) _ A ho hinv hlt hne hupp hAs hAa a b ha' hb'

/-- C02 `half_diag` with its hypotheses on `opp`, `o`, `upper` discharged by C04. -/
theorem half_diag_cover (G : List (List Rat)) (hsep : Sep (cover G))
    (hup : ∀ d, d < G.length → qInUpper (G.getD d []) = true ∧ qInUpper (negRow (G.getD d [])) = false)
    (A : Nat → Nat → K)
    (hd : ∀ i, i < 2 * G.length → A i i = 0 ∧ A i (oppIdx G.length i) = 0) (a : Nat) (ha : a < G.length) :
    FullGrid.halfDense (2 * G.length) (oppFn (coverTable G.length)) (upperIdx (cover G)) A a a = 0 := by
  obtain ⟨_, hu, ho, hinv, hlt, hne, hupp⟩ := c02_hyps_of_cover G hsep hup
  have ha' : a < (upperIdx (cover G)).length := by rw [hu]; simpa using ha
  exact Molgri.C02.half_diag (2 * G.length) _ (oppIdx G.length) _ A ho hinv hlt hne hupp hd a ha'

/-- C02 `full_symm_of_fold` (the full-grid matrix is symmetric) with the rotation block folded by the table and
the upper indices the code computes: only the hypotheses on the *matrices* remain. -/
theorem full_symm_of_fold_cover (G : List (List Rat)) (hG : 0 < G.length) (hsep : Sep (cover G))
    (hup : ∀ d, d < G.length → qInUpper (G.getD d []) = true ∧ qInUpper (negRow (G.getD d [])) = false)
    (nP : Nat) (sel : FullGrid.Sel) (f : K) (P : Nat → Nat → K) (hP : 1 < nP) (A : Nat → Nat → K)
    (hAs : ∀ i j, i < 2 * G.length → j < 2 * G.length → A i j = A j i)
    (hAa : ∀ i j, i < 2 * G.length → j < 2 * G.length → A (oppIdx G.length i) (oppIdx G.length j) = A i j)
    (hPs : ∀ i j, i < nP → j < nP → P i j = P j i) (a b : Nat) (v : K) :
    (a, b, v) ∈ FullGrid.full nP (upperIdx (cover G)).length sel f P
        (FullGrid.halfDense (2 * G.length) (oppFn (coverTable G.length)) (upperIdx (cover G)) A) ↔
      (b, a, v) ∈ FullGrid.full nP (upperIdx (cover G)).length sel f P
        (FullGrid.halfDense (2 * G.length) (oppFn (coverTable G.length)) (upperIdx (cover G)) A) := by
  obtain ⟨_, hu, ho, hinv, hlt, hne, hupp⟩ := c02_hyps_of_cover G hsep hup
  have hU : 0 < (upperIdx (cover G)).length := by rw [hu]; simpa using hG
  exact Molgri.C02.full_symm_of_fold nP sel f P hP (2 * G.length) _ (oppIdx G.length) _ A hU ho hinv hlt hne hupp
    hAs hAa hPs a b v

end

/-! ### end to end: C04's getter returns C02's array -/

/-- **C04's `halfMatrixQ` = C02's `halfRows`.**  For a separated double cover with upper first half and a square
full-sphere matrix `A`, the getter as C04 models it (antipode table from `which_row_is_k`, guard, fold, NaN-masking
extraction) returns exactly the dense array C02 models (`halfRows` with the table and the upper indices as parameters).
So the rotation block that enters C02's `full` *is* the matrix C04's theorems are about. -/
theorem halfMatrixQ_eq_halfRows (G : List (List Rat)) (A : List (List Rat)) (hsep : Sep (cover G))
    (hup : ∀ d, d < G.length → qInUpper (G.getD d []) = true ∧ qInUpper (negRow (G.getD d [])) = false)
    (hA : Square (2 * G.length) A) :
    halfMatrixQ .len (cover G) A true true =
      .ok ((FullGrid.halfRows (2 * G.length) (oppFn (coverTable G.length)) (upperIdx (cover G)) (FullGrid.ofRows A)).map
        fun row => row.map some) := by
  have hu := Molgri.C04.upper_cover G hup
  have hupm : ∀ u ∈ upperIdx (cover G), u < 2 * G.length := by
    intro u huu; rw [hu] at huu; have := List.mem_range.mp huu; omega
  rw [halfRows_eq_submatrix (oppFn (coverTable G.length)) (upperIdx (cover G)) A hA hupm]
  unfold halfMatrixQ
  rw [if_pos rfl, ind2opp_cover G hsep, hu]
  have h1 : ((List.range (2 * G.length)).map fun d => some (oppIdx G.length d)).any
      (fun o => o.any fun k => decide (A.length ≤ k)) = false := by
    rw [Bool.eq_false_iff]
    intro h
    rw [List.any_eq_true] at h
    obtain ⟨o, ho, hok⟩ := h
    obtain ⟨x, hx, rfl⟩ := List.mem_map.mp ho
    have hx' := List.mem_range.mp hx
    have : oppIdx G.length x < 2 * G.length := by unfold oppIdx; split <;> omega
    rw [hA.1] at hok
    simp at hok; omega
  have h2 : (List.range G.length).any (fun i => decide (A.length ≤ i)) = false := by
    rw [Bool.eq_false_iff]
    intro h
    rw [List.any_eq_true] at h
    obtain ⟨x, hx, hok⟩ := h
    have hx' := List.mem_range.mp hx
    rw [hA.1] at hok
    simp at hok; omega
  simp only [bind, Except.bind, pure, Except.pure, h1, h2]
  simp only [Bool.false_eq_true, and_false, if_false]
  unfold halfMatrix
  simp only [if_true]
  congr 1
  have hfilt : List.range G.length = (List.range (2 * G.length)).filter (fun i => decide (i < G.length)) := by
    rw [Nat.two_mul, List.range_add, List.filter_append]
    have e1 : (List.range G.length).filter (fun i => decide (i < G.length)) = List.range G.length := by
      rw [List.filter_eq_self]; intro a ha; simpa using List.mem_range.mp ha
    have e2 : ((List.range G.length).map (G.length + ·)).filter (fun i => decide (i < G.length)) = [] := by
      rw [List.filter_eq_nil_iff]; intro a ha
      obtain ⟨b, _, rfl⟩ := List.mem_map.mp ha; simp
    rw [e1, e2, List.append_nil]
  rw [hfilt]
  exact extractUpper_eq_submatrix _ (foldMat_square _ _ hA) _ _ rfl

/-! ### non-vacuity -/

/-- The hypotheses of `c02_hyps_of_cover`, the `*_cover` corollaries and `halfMatrixQ_eq_halfRows` hold for the double
cover of `G = [(1,0,0,0), (0,1,0,0)]` and the symmetric, antipodally symmetric matrix with `0 ~ −1`. -/
example :
    let G : List (List Rat) := [[1, 0, 0, 0], [0, 1, 0, 0]]
    let A : List (List Rat) := [[0, 0, 0, 1], [0, 0, 1, 0], [0, 1, 0, 0], [1, 0, 0, 0]]
    0 < G.length ∧ Sep (cover G) ∧
    (∀ d, d < G.length → qInUpper (G.getD d []) = true ∧ qInUpper (negRow (G.getD d [])) = false) ∧
    Square (2 * G.length) A ∧
    (∀ i j, i < 2 * G.length → j < 2 * G.length → FullGrid.ofRows A i j = FullGrid.ofRows A j i) ∧
    (∀ i j, i < 2 * G.length → j < 2 * G.length →
      FullGrid.ofRows A (oppIdx G.length i) (oppIdx G.length j) = FullGrid.ofRows A i j) :=
  ⟨by decide, sep_of_sepB (by decide +kernel), hup_of_hupB (by decide +kernel), square_of_squareB (by decide +kernel),
   sym_of_symB (by decide +kernel), anti_of_antiB (by decide +kernel)⟩

/-- … and on it both models return the non-trivial array `[[0,1],[1,0]]` (rotation 0 and 1 are neighbours only through
the antipodal copy). -/
example :
    (FullGrid.halfRows 4 (oppFn (coverTable 2)) [0, 1]
      (FullGrid.ofRows ([[0, 0, 0, 1], [0, 0, 1, 0], [0, 1, 0, 0], [1, 0, 0, 0]] : List (List Int)))) = [[0, 1], [1, 0]] ∧
    submatrix [0, 1] (foldMat (nz (K := Int)) (oppFn (coverTable 2))
      [[0, 0, 0, 1], [0, 0, 1, 0], [0, 1, 0, 0], [1, 0, 0, 0]]) = [[some 0, some 1], [some 1, some 0]] := by
  decide +kernel

end Molgri.Bridge.Fold
