/-
Bridge G, part 2 — merging / deleting cells of the rate matrix **of a full grid**.

`Bridge/Chain.lean` builds C01's rate matrix on C02's geometry (`Chain.Q`) and proves, from facts about the sub-grid
matrices only (`Chain.Geometry`, `Chain.Positive`), zero row sums, detailed balance w.r.t. `π_i = V_i·exp(−E_i/RT)`
(`Chain.pi`) and the signs; it identifies `Chain.Q` with the C14 pipeline matrix.  `Bridge/MergeRate.lean` puts a
function `Q : Nat → Nat → K` into C13's model of `merge_matrix_cells` / `delete_rate_cells` / `SQRA.cut_and_merge`.
Here the two are composed: the hypotheses of the C13 theorems (`Square`, `ZeroRows`, `Inv`) and of the lumping theorems
of `MergeRate` (zero row sums, non-negative rates, detailed balance) are *theorems* for a full grid, so that

  sub-grid facts ⇒ (C02) ⇒ (C01) ⇒ (C13): for every history of merges and deletions the result is a generator whose
  off-diagonal entries are block sums of the SqRA rates, with a good index list, and whose lumped flux is symmetric.
-/
import Molgri.Bridge.MergeRate
import Molgri.Bridge.Chain

namespace Molgri.Bridge.MergeChain
open Molgri Molgri.Merge Molgri.C13 Molgri.Bridge.MergeRate Molgri.Bridge.Chain

variable {F : Type} [Field F] [LinearOrder F] [IsStrictOrderedRing F]

/-- the rate matrix of a full grid as C13's dense matrix: what `SQRA.get_rate_matrix` hands to `cut_and_merge` -/
def QMat (exp rnd : F → F) (kB NA T D : F) (g : Inputs F) (E : Nat → F) : Mat F :=
  toMat g.n (Chain.Q exp rnd kB NA T D g E)

/-- **`C13.zeroRows_run` for a full grid** (`Inv`, `ZeroRows` discharged by `Chain.isRowSumZero`, i.e. by
`C01.sqra_row_sum_zero` and `C02.full_entry`) -/
theorem zeroRows_run (exp rnd : F → F) (kB NA T D : F) (g : Inputs F) (hg : Geometry g) (E : Nat → F)
    (ops : List Op) {s' : State F} (h : run ⟨QMat exp rnd kB NA T D g E, none⟩ ops = .ok s') : ZeroRows s'.A :=
  zeroRows_all_histories g.n _ (isRowSumZero exp rnd kB NA T D g hg E) ops h

omit [IsStrictOrderedRing F] in
/-- **`C13.lumping_all_histories` + `C13.good_all_histories` for a full grid**: block sums of `Chain.Q` itself -/
theorem lumping_all_histories (exp rnd : F → F) (kB NA T D : F) (g : Inputs F) (E : Nat → F)
    (ops : List Op) {s' : State F} (h : run ⟨QMat exp rnd kB NA T D g E, none⟩ ops = .ok s') :
    Lumped g.n (Chain.Q exp rnd kB NA T D g E) s' :=
  lumped_all_histories g.n _ ops h

/-- **The merged / cut rate matrix of a physical full grid is a generator**, for every history -/
theorem generator_all_histories (exp rnd : F → F) (kB NA T D : F) (g : Inputs F) (hg : Geometry g) (hp : Positive g)
    (E : Nat → F) (hexp : ∀ x, 0 < exp x) (hD : 0 ≤ D) (ops : List Op) {s' : State F}
    (h : run ⟨QMat exp rnd kB NA T D g E, none⟩ ops = .ok s') :
    ZeroRows s'.A ∧ (∀ r c, r ≠ c → 0 ≤ entry s'.A r c) ∧ ∀ r, entry s'.A r r ≤ 0 :=
  MergeRate.generator_all_histories g.n _ (isRowSumZero exp rnd kB NA T D g hg E)
    (fun _ _ _ _ hij => offdiag_nonneg exp rnd kB NA T D g hg hp E hexp hD hij) ops h

/-- **The lumped flux of a full grid is symmetric**, for every history (detailed balance `Chain.isDB`, i.e.
`C01.sqra_detailed_balance` with all its hypotheses discharged by C02, transported through the merges). -/
theorem flux_all_histories (exp rnd : F → F) (kB NA T D : F) (g : Inputs F) (hg : Geometry g) (E : Nat → F)
    (hexp : ∀ a b, exp (a + b) = exp a * exp b) (hexp0 : exp 0 = 1) (hcap : BelowCap rnd E g.n)
    (ops : List Op) {s' : State F} (h : run ⟨QMat exp rnd kB NA T D g E, none⟩ ops = .ok s') :
    ∃ t', run ⟨toMat g.n (flux (Chain.pi exp kB NA T g E) (Chain.Q exp rnd kB NA T D g E)), none⟩ ops = .ok t' ∧
      idxOf t' = idxOf s' ∧ Symm t'.A ∧
      ∀ r c, r ≠ c → entry t'.A r c =
        blockSum (flux (Chain.pi exp kB NA T g E) (Chain.Q exp rnd kB NA T D g E))
          ((idxOf s').getD r []) ((idxOf s').getD c []) :=
  MergeRate.flux_all_histories (isDB exp rnd kB NA T D g hg E hexp hexp0 hcap) ops h

/-- **Detailed balance of the merged matrix when the Boltzmann weight is constant on the merged groups** (in
particular after deletions only) -/
theorem detailed_balance_const_all_histories (exp rnd : F → F) (kB NA T D : F) (g : Inputs F) (hg : Geometry g)
    (E : Nat → F) (hexp : ∀ a b, exp (a + b) = exp a * exp b) (hexp0 : exp 0 = 1) (hcap : BelowCap rnd E g.n)
    (ops : List Op) {s' : State F} (h : run ⟨QMat exp rnd kB NA T D g E, none⟩ ops = .ok s') {r c : Nat}
    (hrc : r ≠ c) {p q : F} (hp : ∀ i ∈ (idxOf s').getD r [], Chain.pi exp kB NA T g E i = p)
    (hq : ∀ j ∈ (idxOf s').getD c [], Chain.pi exp kB NA T g E j = q) :
    p * entry s'.A r c = q * entry s'.A c r :=
  MergeRate.detailed_balance_const_all_histories (isDB exp rnd kB NA T D g hg E hexp hexp0 hcap) ops h hrc hp hq

/-- **`SQRA.cut_and_merge` on the rate matrix of a physical full grid**, all four combinations of limits: a generator,
exactly lumped w.r.t. the returned index list. -/
theorem cutAndMerge_generator (exp rnd : F → F) (kB NA T D : F) (g : Inputs F) (hg : Geometry g) (hp : Positive g)
    (E : Nat → F) (hexp : ∀ x, 0 < exp x) (hD : 0 ≤ D) (toJoin : Option Groups) (tooHigh : Option (List Nat))
    {A : Mat F} {il : Option Groups}
    (h : cutAndMerge (QMat exp rnd kB NA T D g E) toJoin tooHigh = .ok (A, il)) :
    (ZeroRows A ∧ (∀ r c, r ≠ c → 0 ≤ entry A r c) ∧ ∀ r, entry A r r ≤ 0) ∧
      Lumped g.n (Chain.Q exp rnd kB NA T D g E) ⟨A, il⟩ :=
  ⟨generator_all_histories exp rnd kB NA T D g hg hp E hexp hD _ (run_of_cutAndMerge h),
    lumped_cutAndMerge g.n _ toJoin tooHigh h⟩

/-! ### the same for the C14 pipeline matrix (saved geometry files) -/

/-- the C14 pipeline matrix as C13's dense matrix is `QMat` of the C02 inputs -/
theorem pipelineMat_eq (exp rnd : F → F) (kB NA T D : F) (s : Pipeline.SubGrids F) (hv : C14.Valid s) (E : List F) :
    toMat (s.nP * s.nB) (C14.pipelineQ exp rnd kB NA T D s E)
      = QMat exp rnd kB NA T D (inputsOf s) (fun k => E.getD k 0) := by
  have : C14.pipelineQ exp rnd kB NA T D s E = Chain.Q exp rnd kB NA T D (inputsOf s) (fun k => E.getD k 0) := by
    funext i j; exact pipelineQ_eq exp rnd kB NA T D s (wellFormed_of_valid hv) E i j
  rw [this]; rfl

/-- **Pipeline end to end**: valid positive saved geometry ⇒ rate matrix ⇒ any history of merges / deletions ⇒ a
generator that is the exact lumping of the pipeline matrix, with a good index list. -/
theorem pipeline_generator_all_histories (exp rnd : F → F) (kB NA T D : F) (s : Pipeline.SubGrids F)
    (hv : C14.Valid s) (hp : C14.Positive s) (E : List F) (hexp : ∀ x, 0 < exp x) (hD : 0 ≤ D) (ops : List Op)
    {s' : State F} (h : run ⟨toMat (s.nP * s.nB) (C14.pipelineQ exp rnd kB NA T D s E), none⟩ ops = .ok s') :
    (ZeroRows s'.A ∧ (∀ r c, r ≠ c → 0 ≤ entry s'.A r c) ∧ ∀ r, entry s'.A r r ≤ 0) ∧
      Lumped (s.nP * s.nB) (C14.pipelineQ exp rnd kB NA T D s E) s' := by
  refine ⟨?_, lumped_all_histories _ _ ops h⟩
  rw [pipelineMat_eq exp rnd kB NA T D s hv E] at h
  exact generator_all_histories exp rnd kB NA T D (inputsOf s) (geometry_of_valid hv) (positive_of_positive hp)
    (fun k => E.getD k 0) hexp hD ops h

end Molgri.Bridge.MergeChain
