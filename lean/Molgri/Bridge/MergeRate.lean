/-
Bridge G — merging / deleting cells (C13) applied to the SqRA rate matrix (C01).

C13 (`Molgri/Model/Merge.lean`, `Molgri/Props/C13.lean`) models `merge_matrix_cells`, `delete_rate_cells`,
`SQRA.cut_and_merge` on dense matrices `Mat α = List (List α)` over any additive commutative group `α`;
C01 (`Molgri/Model/Sqra.lean`, `Molgri/Props/C01.lean`) produces the rate matrix as a function
`Sqra.rate … : Nat → Nat → K` over a field `K`, and `Sqra.getRateMatrix` returns its dense table.
This file puts the second into the first:

* `toMat n Q` — the dense table of `Q : Nat → Nat → α`; it *is* what `Sqra.getRateMatrix` returns
  (`getRateMatrix_eq_toMat`, every input on which the code does not raise — also the numpy-broadcast case).
* general facts (every `α`, every `Q`): `toMat` is square, has zero row sums iff `Q` has, is symmetric iff `Q` is;
  `SQRA.cut_and_merge` *is* a history of at most one merge and one delete (`cutAndMerge_eq_run`); the index
  bookkeeping of a history never looks at the matrix values (`run_idx_congr`, across scalar types); every history
  on `toMat n Q` ends in a `Lumped` state (`lumped_all_histories`): one group per row, good index list, cells `< n`,
  off-diagonal entries = block sums **of `Q` itself**; zero row sums are kept (`zeroRows_all_histories`), hence the
  diagonal is minus the sum of the block sums (`diag_all_histories`); non-negative off-diagonal entries stay
  non-negative (`offdiag_nonneg_all_histories`): a generator stays a generator.
* detailed balance: the lumped matrix `PᵀQP` of the code does **not** satisfy detailed balance w.r.t. the summed
  weights `π_A = Σ_{i∈A} π_i` (`lumped_db_summed_weights_fails`, a witness).  What is true: the lumped *flux*
  `Σ_{i∈A} π_i Σ_{j∈B} Q_ij` is symmetric (`blockSum_flux_symm`, `flux_all_histories`), and if `π` is constant on the
  merged groups the lumped matrix is in detailed balance w.r.t. that constant (`detailed_balance_const_all_histories`).
* C01: all of the above for `toMat n (Sqra.rate …)` with `C01.sqra_row_sum_zero` / `C01.sqra_offdiag_nonneg`
  discharging the hypotheses (`rate_zeroRows_run`, `rate_good_all_histories`, `rate_lumping_all_histories`,
  `rate_generator_all_histories`, `rate_cutAndMerge`), and for whatever `getRateMatrix` returns
  (`getRateMatrix_history`, `getRateMatrix_cutAndMerge`).

`Molgri/Bridge/MergeChain.lean` does the same for the pipeline matrix of `Bridge/Chain.lean`.
-/
import Molgri.Props.C13
import Molgri.Props.C01
import Molgri.Lemmas.Reversible
import Mathlib.Algebra.BigOperators.Ring.List
import Mathlib.Algebra.BigOperators.Group.Finset.Basic
import Mathlib.Algebra.Order.BigOperators.Group.List
import Mathlib.Algebra.Order.BigOperators.Group.Finset

namespace Molgri.Bridge.MergeRate
open Molgri Molgri.Merge Molgri.C13

/-- the dense table of a matrix given as a function: what `Sqra.getRateMatrix` returns, as a C13 matrix -/
def toMat {α : Type} (n : Nat) (Q : Nat → Nat → α) : Mat α :=
  (List.range n).map fun i => (List.range n).map (Q i)

@[simp] theorem length_toMat {α : Type} (n : Nat) (Q : Nat → Nat → α) : (toMat n Q).length = n := by simp [toMat]

theorem getD_toMat {α : Type} (n : Nat) (Q : Nat → Nat → α) (i : Nat) :
    (toMat n Q).getD i [] = if i < n then (List.range n).map (Q i) else [] := by
  unfold toMat
  split
  · rename_i h
    rw [List.getD_eq_getElem _ _ (by simpa using h)]; simp
  · rename_i h
    exact List.getD_eq_default _ _ (by simp; omega)

/-- **`toMat` is square** -/
theorem square_toMat {α : Type} (n : Nat) (Q : Nat → Nat → α) : Square (toMat n Q) := by
  intro row hrow
  unfold toMat at hrow ⊢
  obtain ⟨i, _, rfl⟩ := List.mem_map.mp hrow
  simp

/-- the entries of the table are the values of the function (and `0` outside) -/
theorem entry_toMat {α : Type} [Zero α] (n : Nat) (Q : Nat → Nat → α) (i j : Nat) :
    entry (toMat n Q) i j = if i < n ∧ j < n then Q i j else 0 := by
  unfold entry
  rw [getD_toMat]
  by_cases hi : i < n
  · by_cases hj : j < n
    · rw [if_pos hi, if_pos ⟨hi, hj⟩, List.getD_eq_getElem _ _ (by simpa using hj)]; simp
    · rw [if_pos hi, if_neg (fun h => hj h.2)]
      exact List.getD_eq_default _ _ (by simp; omega)
  · rw [if_neg hi, if_neg (fun h => hi h.1)]; simp

theorem entry_toMat_of_lt {α : Type} [Zero α] (n : Nat) (Q : Nat → Nat → α) {i j : Nat} (hi : i < n) (hj : j < n) :
    entry (toMat n Q) i j = Q i j := by
  rw [entry_toMat, if_pos ⟨hi, hj⟩]

section general
variable {α : Type} [AddCommGroup α]

/-- a list sum over `List.range` is the `Finset.range` sum C01 / C14 state their theorems with -/
theorem sum_map_range (n : Nat) (f : Nat → α) : ((List.range n).map f).sum = ∑ j ∈ Finset.range n, f j := by
  induction n with
  | zero => simp
  | succ n ih => rw [List.range_succ, List.map_append, List.sum_append, ih, Finset.sum_range_succ]; simp

/-- **`ZeroRows` of the table = zero row sums of the function** (C13's notion = C01's / C14's notion) -/
theorem zeroRows_toMat_iff (n : Nat) (Q : Nat → Nat → α) :
    ZeroRows (toMat n Q) ↔ ∀ i < n, ∑ j ∈ Finset.range n, Q i j = 0 := by
  unfold ZeroRows
  constructor
  · intro h i hi
    have := h i
    rwa [getD_toMat, if_pos hi, sum_map_range] at this
  · intro h r
    rw [getD_toMat]
    split
    · rename_i hr; rw [sum_map_range]; exact h r hr
    · simp

/-- **`Symm` of the table = symmetry of the function on `{0,…,n-1}`** -/
theorem symm_toMat_iff (n : Nat) (Q : Nat → Nat → α) :
    Symm (toMat n Q) ↔ ∀ i < n, ∀ j < n, Q i j = Q j i := by
  unfold Symm
  constructor
  · intro h i hi j hj
    have := h i j
    rwa [entry_toMat_of_lt n Q hi hj, entry_toMat_of_lt n Q hj hi] at this
  · intro h r c
    rw [entry_toMat, entry_toMat]
    by_cases hr : r < n
    · by_cases hc : c < n
      · rw [if_pos ⟨hr, hc⟩, if_pos ⟨hc, hr⟩]; exact h r hr c hc
      · rw [if_neg (fun h => hc h.2), if_neg (fun h => hc h.1)]
    · rw [if_neg (fun h => hr h.1), if_neg (fun h => hr h.2)]

/-! ### `SQRA.cut_and_merge` is a history -/

/-- the history `cut_and_merge` performs: a merge if the first limit is given, then a deletion if the second is -/
def cutOps (toJoin : Option Groups) (tooHigh : Option (List Nat)) : List Op :=
  toJoin.toList.map Op.merge ++ tooHigh.toList.map Op.delete

/-- **`cut_and_merge` = running that history from the matrix with no index list**, for all four combinations of
limits given / absent, errors included. -/
theorem cutAndMerge_eq_run (Q : Mat α) (toJoin : Option Groups) (tooHigh : Option (List Nat)) :
    cutAndMerge Q toJoin tooHigh = (run ⟨Q, none⟩ (cutOps toJoin tooHigh)).map fun s => (s.A, s.idx) := by
  unfold cutAndMerge cutOps
  cases toJoin with
  | none =>
    cases tooHigh with
    | none => rfl
    | some R => rfl
  | some J =>
    cases tooHigh with
    | none =>
      simp only [Option.toList_some, Option.toList_none, List.map_cons, List.map_nil, List.append_nil, run, step,
        bind, Except.bind, pure, Except.pure]
      cases mergeCells Q J none with
      | error e => rfl
      | ok res => rfl
    | some R =>
      simp only [Option.toList_some, List.map_cons, List.map_nil, List.cons_append, List.nil_append, run, step,
        bind, Except.bind, pure, Except.pure]
      cases mergeCells Q J none with
      | error e => rfl
      | ok res => rfl

theorem run_of_cutAndMerge {Q : Mat α} {toJoin : Option Groups} {tooHigh : Option (List Nat)} {A : Mat α}
    {il : Option Groups} (h : cutAndMerge Q toJoin tooHigh = .ok (A, il)) :
    run ⟨Q, none⟩ (cutOps toJoin tooHigh) = .ok ⟨A, il⟩ := by
  rw [cutAndMerge_eq_run] at h
  cases hr : run ⟨Q, none⟩ (cutOps toJoin tooHigh) with
  | error e => rw [hr] at h; cases h
  | ok s =>
    rw [hr] at h
    simp only [Except.map] at h
    cases h
    rfl

/-! ### the index bookkeeping never looks at the matrix values -/

/-- two states (possibly over different scalars) with the same index list and the same number of rows -/
def SameShape {α β : Type} (s : State α) (t : State β) : Prop := s.idx = t.idx ∧ s.A.length = t.A.length

/-- outcomes agree: the same error, or two states of the same shape -/
def SameOutcome {α β : Type} : Except Err (State α) → Except Err (State β) → Prop
  | .ok s, .ok t => SameShape s t
  | .error e, .error e' => e = e'
  | _, _ => False

theorem step_idx_congr {β : Type} [AddCommGroup β] {s : State α} {t : State β} (hst : SameShape s t) (op : Op) :
    SameOutcome (step s op) (step t op) := by
  obtain ⟨A, idx⟩ := s
  obtain ⟨B, idx'⟩ := t
  obtain ⟨h1, h2⟩ := hst
  simp only at h1 h2
  subst h1
  cases op with
  | merge J =>
    cases idx with
    | none =>
      simp only [step, mergeCells, h2, bind, Except.bind, pure, Except.pure]
      split_ifs <;> simp [SameOutcome, SameShape, h2]
    | some il =>
      simp only [step, mergeCells, h2, bind, Except.bind, pure, Except.pure]
      split_ifs <;> simp [SameOutcome, SameShape, h2]
  | delete R =>
    cases idx with
    | none => simp [step, deleteCells, SameOutcome, SameShape, h2, pure, Except.pure, normalize, subMat]
    | some il => simp [step, deleteCells, SameOutcome, SameShape, h2, pure, Except.pure, normalize, subMat]

/-- **The index bookkeeping of a history never looks at the matrix values**: two histories with the same operations,
started on matrices with the same number of rows (possibly over different scalars) and the same index list, fail with
the same error or end with the same index list and the same number of rows. -/
theorem run_idx_congr {β : Type} [AddCommGroup β] (ops : List Op) {s : State α} {t : State β} (hst : SameShape s t) :
    SameOutcome (run s ops) (run t ops) := by
  induction ops generalizing s t with
  | nil => exact hst
  | cons op ops ih =>
    have h := step_idx_congr hst op
    simp only [run, bind, Except.bind]
    cases h1 : step s op with
    | error e =>
      cases h2 : step t op with
      | error e' => rw [h1, h2] at h; exact h
      | ok t' => rw [h1, h2] at h; exact h.elim
    | ok s' =>
      cases h2 : step t op with
      | error e' => rw [h1, h2] at h; exact h.elim
      | ok t' => rw [h1, h2] at h; exact ih h

theorem idxOf_eq_of_sameShape {α β : Type} {s : State α} {t : State β} (h : SameShape s t) : idxOf s = idxOf t := by
  unfold idxOf; rw [h.1, h.2]

/-! ### the cells of the index list stay inside `{0,…,n-1}` -/

/-- every cell named by the index list is `< n` -/
def CellsLt (n : Nat) (il : Groups) : Prop := ∀ g ∈ il, ∀ x ∈ g, x < n

theorem cellsLt_singletons (n : Nat) : CellsLt n (singletons n) := by
  intro g hg x hx
  unfold singletons at hg
  obtain ⟨i, hi, rfl⟩ := List.mem_map.mp hg
  simp only [List.mem_singleton] at hx
  subst hx
  exact List.mem_range.mp hi

theorem cellsLt_getD {n : Nat} {il : Groups} (h : CellsLt n il) (r : Nat) : ∀ x ∈ il.getD r [], x < n := by
  by_cases hr : r < il.length
  · exact h _ (getD_mem_of_lt il hr)
  · rw [List.getD_eq_default _ _ (Nat.le_of_not_lt hr)]; simp

theorem cellsLt_step {n : Nat} {s s' : State α} (op : Op) (hl : (idxOf s).length = s.A.length)
    (hc : CellsLt n (idxOf s)) (h : step s op = .ok s') : CellsLt n (idxOf s') := by
  cases op with
  | merge J =>
    unfold step at h
    simp only [bind, Except.bind] at h
    split at h
    · cases h
    · rename_i res hres
      obtain ⟨A', il'⟩ := res
      cases h
      intro g hg x hx
      have hx' : x ∈ (idxOf s).flatten :=
        (merge_cells_preserved hres hl x).mp (List.mem_flatten.mpr ⟨g, hg, hx⟩)
      obtain ⟨g', hg', hxg'⟩ := List.mem_flatten.mp hx'
      exact hc g' hg' x hxg'
  | delete R =>
    unfold step at h
    simp only [pure, Except.pure] at h
    cases h
    intro g hg x hx
    simp only [idxOf, deleteCells, Option.getD_some] at hg
    obtain ⟨a, _, rfl⟩ := List.mem_map.mp hg
    exact cellsLt_getD hc a x hx

theorem cellsLt_run {n : Nat} (M : Nat → Nat → α) (ops : List Op) {s s' : State α} (hinv : Inv M s)
    (hc : CellsLt n (idxOf s)) (h : run s ops = .ok s') : CellsLt n (idxOf s') := by
  induction ops generalizing s with
  | nil => simp only [run, pure, Except.pure] at h; cases h; exact hc
  | cons op ops ih =>
    simp only [run, bind, Except.bind] at h
    split at h
    · cases h
    · rename_i s1 hs1
      exact ih (inv_step M op hinv hs1) (cellsLt_step op hinv.len hc hs1) h

/-! ### every history on `toMat n Q` lumps `Q` -/

theorem blockSum_congr {M M' : Nat → Nat → α} {g h : List Nat} (hM : ∀ c ∈ g, ∀ d ∈ h, M c d = M' c d) :
    blockSum M g h = blockSum M' g h := by
  unfold blockSum
  apply congrArg
  apply List.map_congr_left
  intro c hc
  apply congrArg
  apply List.map_congr_left
  intro d hd
  exact hM c hc d hd

/-- block sums of the table are block sums of the function, for groups of cells `< n` -/
theorem blockSum_entry_toMat (n : Nat) (Q : Nat → Nat → α) {g h : List Nat} (hg : ∀ x ∈ g, x < n)
    (hh : ∀ x ∈ h, x < n) : blockSum (entry (toMat n Q)) g h = blockSum Q g h :=
  blockSum_congr fun c hc d hd => entry_toMat_of_lt n Q (hg c hc) (hh d hd)

/-- what a history makes of the table of `Q`: one group per row, square, a good index list of cells `< n`, and every
off-diagonal entry is the sum of `Q` over the pair of groups -/
structure Lumped (n : Nat) (Q : Nat → Nat → α) (s : State α) : Prop where
  len : (idxOf s).length = s.A.length
  square : Square s.A
  good : Good (idxOf s)
  cells : CellsLt n (idxOf s)
  off : ∀ r c, r ≠ c → entry s.A r c = blockSum Q ((idxOf s).getD r []) ((idxOf s).getD c [])

/-- **Exact lumping of `Q` for every history** (`C13.lumping_all_histories` + `C13.good_all_histories` on the table of
any `Q`, with the block sums taken of `Q` itself). -/
theorem lumped_all_histories (n : Nat) (Q : Nat → Nat → α) (ops : List Op) {s' : State α}
    (h : run ⟨toMat n Q, none⟩ ops = .ok s') : Lumped n Q s' := by
  have hinv := lumping_all_histories (toMat n Q) (square_toMat n Q) ops h
  have hcells : CellsLt n (idxOf s') :=
    cellsLt_run _ ops (inv_init (toMat n Q) (square_toMat n Q))
      (by simpa [idxOf] using cellsLt_singletons n) h
  refine ⟨hinv.len, hinv.square, good_all_histories (toMat n Q) (square_toMat n Q) ops h, hcells, ?_⟩
  intro r c hrc
  rw [hinv.off r c hrc]
  exact blockSum_entry_toMat n Q (cellsLt_getD hcells r) (cellsLt_getD hcells c)

/-- **Zero row sums for every history** on the table of a `Q` with zero row sums (`C13.zeroRows_run`). -/
theorem zeroRows_all_histories (n : Nat) (Q : Nat → Nat → α) (hrs : ∀ i < n, ∑ j ∈ Finset.range n, Q i j = 0)
    (ops : List Op) {s' : State α} (h : run ⟨toMat n Q, none⟩ ops = .ok s') : ZeroRows s'.A :=
  zeroRows_run _ ops (inv_init (toMat n Q) (square_toMat n Q)) ((zeroRows_toMat_iff n Q).mpr hrs) h

/-- in a square matrix with zero row sums the diagonal entry is minus the sum of the others of its row -/
theorem diag_of_zeroRows {A : Mat α} (hsq : Square A) (hz : ZeroRows A) {r : Nat} (hr : r < A.length) :
    entry A r r = -∑ c ∈ (Finset.range A.length).erase r, entry A r c := by
  have h0 : ∑ c ∈ Finset.range A.length, entry A r c = 0 := by
    rw [← sum_map_range, sum_entries_row A hsq r]; exact hz r
  rw [← Finset.add_sum_erase _ _ (Finset.mem_range.mpr hr)] at h0
  exact eq_neg_of_add_eq_zero_left h0

/-- **The whole lumped matrix is determined by `Q` and the index list**: off the diagonal the block sums, on the
diagonal minus the sum of the block sums of the row. -/
theorem diag_all_histories (n : Nat) (Q : Nat → Nat → α) (hrs : ∀ i < n, ∑ j ∈ Finset.range n, Q i j = 0)
    (ops : List Op) {s' : State α} (h : run ⟨toMat n Q, none⟩ ops = .ok s') {r : Nat} (hr : r < s'.A.length) :
    entry s'.A r r =
      -∑ c ∈ (Finset.range s'.A.length).erase r, blockSum Q ((idxOf s').getD r []) ((idxOf s').getD c []) := by
  have hl := lumped_all_histories n Q ops h
  rw [diag_of_zeroRows hl.square (zeroRows_all_histories n Q hrs ops h) hr]
  congr 1
  apply Finset.sum_congr rfl
  intro c hc
  exact hl.off r c (Ne.symm (Finset.ne_of_mem_erase hc))

/-- the same three facts for `cut_and_merge` (all four combinations of limits) -/
theorem lumped_cutAndMerge (n : Nat) (Q : Nat → Nat → α) (toJoin : Option Groups) (tooHigh : Option (List Nat))
    {A : Mat α} {il : Option Groups} (h : cutAndMerge (toMat n Q) toJoin tooHigh = .ok (A, il)) :
    Lumped n Q ⟨A, il⟩ :=
  lumped_all_histories n Q _ (run_of_cutAndMerge h)

theorem zeroRows_cutAndMerge (n : Nat) (Q : Nat → Nat → α) (hrs : ∀ i < n, ∑ j ∈ Finset.range n, Q i j = 0)
    (toJoin : Option Groups) (tooHigh : Option (List Nat)) {A : Mat α} {il : Option Groups}
    (h : cutAndMerge (toMat n Q) toJoin tooHigh = .ok (A, il)) : ZeroRows A :=
  zeroRows_all_histories n Q hrs _ (run_of_cutAndMerge h)

/-- groups of different rows of a good index list have no common cell -/
theorem disj_getD_of_ne {il : Groups} (hd : il.Pairwise Disj) {r c : Nat} (hrc : r ≠ c) :
    Disj (il.getD r []) (il.getD c []) := by
  by_cases hr : r < il.length
  · by_cases hc : c < il.length
    · rw [List.getD_eq_getElem _ _ hr, List.getD_eq_getElem _ _ hc]
      rcases Nat.lt_or_gt_of_ne hrc with h | h
      · exact (List.pairwise_iff_getElem.mp hd) r c hr hc h
      · exact ((List.pairwise_iff_getElem.mp hd) c r hc hr h).symm
    · rw [List.getD_eq_default _ _ (Nat.le_of_not_lt hc)]; intro x _ hx; simp at hx
  · rw [List.getD_eq_default _ _ (Nat.le_of_not_lt hr)]; intro x hx; simp at hx

end general

/-! ### signs: a generator stays a generator -/
section ordered
variable {α : Type} [AddCommGroup α] [PartialOrder α] [IsOrderedAddMonoid α]

theorem blockSum_nonneg {M : Nat → Nat → α} {g h : List Nat} (hM : ∀ c ∈ g, ∀ d ∈ h, 0 ≤ M c d) :
    0 ≤ blockSum M g h := by
  unfold blockSum
  apply List.sum_nonneg
  intro x hx
  obtain ⟨c, hc, rfl⟩ := List.mem_map.mp hx
  apply List.sum_nonneg
  intro y hy
  obtain ⟨d, hd, rfl⟩ := List.mem_map.mp hy
  exact hM c hc d hd

/-- **Non-negative off-diagonal rates stay non-negative** along every history (block sums over disjoint groups only
contain off-diagonal entries of `Q`). -/
theorem offdiag_nonneg_all_histories (n : Nat) (Q : Nat → Nat → α)
    (hQ : ∀ i < n, ∀ j < n, i ≠ j → 0 ≤ Q i j) (ops : List Op) {s' : State α}
    (h : run ⟨toMat n Q, none⟩ ops = .ok s') {r c : Nat} (hrc : r ≠ c) : 0 ≤ entry s'.A r c := by
  have hl := lumped_all_histories n Q ops h
  rw [hl.off r c hrc]
  apply blockSum_nonneg
  intro x hx y hy
  exact hQ x (cellsLt_getD hl.cells r x hx) y (cellsLt_getD hl.cells c y hy)
    (fun hxy => disj_getD_of_ne hl.good.disj hrc x hx (hxy ▸ hy))

/-- **Generator in, generator out**: zero row sums, non-negative off-diagonal entries, non-positive diagonal, for every
history of merges and deletions. -/
theorem generator_all_histories (n : Nat) (Q : Nat → Nat → α) (hrs : ∀ i < n, ∑ j ∈ Finset.range n, Q i j = 0)
    (hQ : ∀ i < n, ∀ j < n, i ≠ j → 0 ≤ Q i j) (ops : List Op) {s' : State α}
    (h : run ⟨toMat n Q, none⟩ ops = .ok s') :
    ZeroRows s'.A ∧ (∀ r c, r ≠ c → 0 ≤ entry s'.A r c) ∧ ∀ r, entry s'.A r r ≤ 0 := by
  have hz := zeroRows_all_histories n Q hrs ops h
  have hoff : ∀ r c, r ≠ c → 0 ≤ entry s'.A r c := fun r c hrc => offdiag_nonneg_all_histories n Q hQ ops h hrc
  refine ⟨hz, hoff, ?_⟩
  intro r
  by_cases hr : r < s'.A.length
  · rw [diag_of_zeroRows (lumped_all_histories n Q ops h).square hz hr, neg_nonpos]
    exact Finset.sum_nonneg fun c hc => hoff r c (Ne.symm (Finset.ne_of_mem_erase hc))
  · rw [entry_of_row_ge (Nat.le_of_not_lt hr)]

end ordered

/-! ### detailed balance under lumping

`merge_matrix_cells` forms `PᵀQP` with the 0/1 merge matrix `P`: the plain block sums.  That matrix is **not** in
detailed balance with respect to the summed weights `π_A = Σ_{i∈A} π_i` (the π-weighted lumping
`Σ_{i∈A} π_i Σ_{j∈B} Q_ij / π_A` would be), see the witness below.  What detailed balance of `Q` does give:
the lumped *flux* is symmetric, and the lumped matrix is in detailed balance w.r.t. weights that are constant on the
merged groups. -/
section balance
open Molgri.Reversible
variable {K : Type} [Field K]

/-- the flux matrix `π_i Q_ij` -/
def flux (π : Nat → K) (Q : Nat → Nat → K) (i j : Nat) : K := π i * Q i j

/-- detailed balance = the flux matrix is symmetric (C14's `DB` = C13's `Symm` of the flux table) -/
theorem symm_flux_iff (n : Nat) (π : Nat → K) (Q : Nat → Nat → K) : Symm (toMat n (flux π Q)) ↔ DB n π Q :=
  symm_toMat_iff n (flux π Q)

/-- **Lumping lemma (block sums)**: under detailed balance the π-weighted block sums are symmetric,
`Σ_{i∈A} π_i Σ_{j∈B} Q_ij = Σ_{j∈B} π_j Σ_{i∈A} Q_ji`, for any two lists of cells. -/
theorem blockSum_flux_symm {n : Nat} {π : Nat → K} {Q : Nat → Nat → K} (hdb : DB n π Q) {g h : List Nat}
    (hg : ∀ x ∈ g, x < n) (hh : ∀ x ∈ h, x < n) : blockSum (flux π Q) g h = blockSum (flux π Q) h g := by
  unfold blockSum
  rw [sum_swap h g (fun c d => flux π Q d c)]
  apply congrArg
  apply List.map_congr_left
  intro c hc
  apply congrArg
  apply List.map_congr_left
  intro d hd
  exact hdb c (hg c hc) d (hh d hd)

/-- a weight that is constant on the group factors out of the weighted block sum -/
theorem blockSum_flux_const (π : Nat → K) (Q : Nat → Nat → K) {g : List Nat} {p : K} (hp : ∀ i ∈ g, π i = p)
    (h : List Nat) : blockSum (flux π Q) g h = p * blockSum Q g h := by
  unfold blockSum flux
  rw [← List.sum_map_mul_left]
  apply congrArg
  apply List.map_congr_left
  intro c hc
  rw [List.sum_map_mul_left, hp c hc]

/-- **Detailed balance of the lumped matrix for weights constant on the groups** (e.g. merging cells of equal
Boltzmann weight, or a history of deletions only): `p_A · Q̃_AB = p_B · Q̃_BA`, for every history. -/
theorem detailed_balance_const_all_histories {n : Nat} {π : Nat → K} {Q : Nat → Nat → K} (hdb : DB n π Q)
    (ops : List Op) {s' : State K} (h : run ⟨toMat n Q, none⟩ ops = .ok s') {r c : Nat} (hrc : r ≠ c) {p q : K}
    (hp : ∀ i ∈ (idxOf s').getD r [], π i = p) (hq : ∀ j ∈ (idxOf s').getD c [], π j = q) :
    p * entry s'.A r c = q * entry s'.A c r := by
  have hl := lumped_all_histories n Q ops h
  rw [hl.off r c hrc, hl.off c r (Ne.symm hrc), ← blockSum_flux_const π Q hp, ← blockSum_flux_const π Q hq]
  exact blockSum_flux_symm hdb (cellsLt_getD hl.cells r) (cellsLt_getD hl.cells c)

/-- **The lumped flux is symmetric, for every history**: the same operations applied to the flux table `π_i Q_ij`
succeed, carry the same index list, give a symmetric matrix, and its off-diagonal entries are the π-weighted block sums
of `Q` over the groups. -/
theorem flux_all_histories {n : Nat} {π : Nat → K} {Q : Nat → Nat → K} (hdb : DB n π Q)
    (ops : List Op) {s' : State K} (h : run ⟨toMat n Q, none⟩ ops = .ok s') :
    ∃ t', run ⟨toMat n (flux π Q), none⟩ ops = .ok t' ∧ idxOf t' = idxOf s' ∧ Symm t'.A ∧
      ∀ r c, r ≠ c → entry t'.A r c = blockSum (flux π Q) ((idxOf s').getD r []) ((idxOf s').getD c []) := by
  have hc := run_idx_congr ops (s := (⟨toMat n Q, none⟩ : State K)) (t := (⟨toMat n (flux π Q), none⟩ : State K))
    ⟨rfl, by simp⟩
  rw [h] at hc
  cases ht : run ⟨toMat n (flux π Q), none⟩ ops with
  | error e => rw [ht] at hc; exact hc.elim
  | ok t' =>
    rw [ht] at hc
    have hidx : idxOf t' = idxOf s' := (idxOf_eq_of_sameShape hc).symm
    refine ⟨t', rfl, hidx, ?_, ?_⟩
    · exact symm_run _ ops (inv_init _ (square_toMat n _)) ((symm_flux_iff n π Q).mpr hdb) ht
    · intro r c hrc
      rw [← hidx]
      exact (lumped_all_histories n (flux π Q) ops ht).off r c hrc

end balance

/-- **Witness: `PᵀQP` is not in detailed balance w.r.t. the summed weights.**  `Q` (3 cells) has zero row sums and is
in detailed balance w.r.t. `π = (1, 2, 2)`; merging cells `0` and `1` gives `[[-3, 3], [2, -2]]`; the summed weights
`(3, 2)` violate detailed balance (`3·3 ≠ 2·2`) and are not even stationary (`3·(-3) + 2·2 ≠ 0`) — the lumped matrix
has the stationary vector `(2, 3)` instead. -/
theorem lumped_db_summed_weights_fails :
    let Q : Mat Int := [[-4, 2, 2], [1, -2, 1], [1, 1, -2]]
    let π : List Int := [1, 2, 2]
    (∀ i < 3, ∀ j < 3, π.getD i 0 * entry Q i j = π.getD j 0 * entry Q j i) ∧
    (∀ i < 3, (Q.getD i []).sum = 0) ∧
    ∃ s', run ⟨Q, none⟩ [.merge [[0, 1]]] = .ok s' ∧ s'.A = [[-3, 3], [2, -2]] ∧ s'.idx = some [[0, 1], [2]] ∧
      (π.getD 0 0 + π.getD 1 0) * entry s'.A 0 1 ≠ π.getD 2 0 * entry s'.A 1 0 ∧
      (π.getD 0 0 + π.getD 1 0) * entry s'.A 0 0 + π.getD 2 0 * entry s'.A 1 0 ≠ 0 := by
  refine ⟨by decide +kernel, by decide +kernel, _, rfl, ?_⟩
  decide +kernel

/-! ### C01: the SqRA rate matrix under merging and deleting -/
section sqra
open Molgri.Sqra
variable {K : Type} [Field K] [LT K] [DecidableLT K]

/-- `hcols` of `C01.sqra_row_sum_zero` ⇒ `ZeroRows` of the rate table (C13's hypothesis) -/
theorem rate_zeroRows (exp rnd : K → K) (kB NA T D : K) (S h : Coo K) (V E : Nat → K) (n : Nat)
    (hcols : ∀ p ∈ S.idx, p.2 < n) : ZeroRows (toMat n (rate exp rnd kB NA T D S h V E)) :=
  (zeroRows_toMat_iff n _).mpr fun i hi => C01.sqra_row_sum_zero exp rnd kB NA T D S h V E n i hcols hi

/-- **`C13.zeroRows_run` on the SqRA rate matrix, hypotheses `Inv`, `ZeroRows` discharged**: every history of merges
and deletions applied to the rate matrix ends in a matrix with zero row sums. -/
theorem rate_zeroRows_run (exp rnd : K → K) (kB NA T D : K) (S h : Coo K) (V E : Nat → K) (n : Nat)
    (hcols : ∀ p ∈ S.idx, p.2 < n) (ops : List Op) {s' : State K}
    (hrun : run ⟨toMat n (rate exp rnd kB NA T D S h V E), none⟩ ops = .ok s') : ZeroRows s'.A :=
  zeroRows_all_histories n _ (fun i hi => C01.sqra_row_sum_zero exp rnd kB NA T D S h V E n i hcols hi) ops hrun

/-- **`C13.good_all_histories` on the SqRA rate matrix, hypothesis `Square` discharged** -/
theorem rate_good_all_histories (exp rnd : K → K) (kB NA T D : K) (S h : Coo K) (V E : Nat → K) (n : Nat)
    (ops : List Op) {s' : State K}
    (hrun : run ⟨toMat n (rate exp rnd kB NA T D S h V E), none⟩ ops = .ok s') : Good (idxOf s') :=
  (lumped_all_histories n _ ops hrun).good

/-- **`C13.lumping_all_histories` on the SqRA rate matrix**: one group per row, square, good index list of cells `< n`,
every off-diagonal entry is the sum of the original rates `Q_ij` over `i` in the row's group, `j` in the column's. -/
theorem rate_lumping_all_histories (exp rnd : K → K) (kB NA T D : K) (S h : Coo K) (V E : Nat → K) (n : Nat)
    (ops : List Op) {s' : State K}
    (hrun : run ⟨toMat n (rate exp rnd kB NA T D S h V E), none⟩ ops = .ok s') :
    Lumped n (rate exp rnd kB NA T D S h V E) s' :=
  lumped_all_histories n _ ops hrun

/-- … and the diagonal: minus the sum of the block sums of the row. -/
theorem rate_diag_all_histories (exp rnd : K → K) (kB NA T D : K) (S h : Coo K) (V E : Nat → K) (n : Nat)
    (hcols : ∀ p ∈ S.idx, p.2 < n) (ops : List Op) {s' : State K}
    (hrun : run ⟨toMat n (rate exp rnd kB NA T D S h V E), none⟩ ops = .ok s') {r : Nat} (hr : r < s'.A.length) :
    entry s'.A r r = -∑ c ∈ (Finset.range s'.A.length).erase r,
      blockSum (rate exp rnd kB NA T D S h V E) ((idxOf s').getD r []) ((idxOf s').getD c []) :=
  diag_all_histories n _ (fun i hi => C01.sqra_row_sum_zero exp rnd kB NA T D S h V E n i hcols hi) ops hrun hr

/-- **`SQRA.cut_and_merge` on the rate matrix, all four combinations of limits**: whenever it returns, the matrix has
zero row sums and is the exact lumping of the rate matrix w.r.t. the returned index list (`none` = identity list). -/
theorem rate_cutAndMerge (exp rnd : K → K) (kB NA T D : K) (S h : Coo K) (V E : Nat → K) (n : Nat)
    (hcols : ∀ p ∈ S.idx, p.2 < n) (toJoin : Option Groups) (tooHigh : Option (List Nat)) {A : Mat K}
    {il : Option Groups}
    (hcut : cutAndMerge (toMat n (rate exp rnd kB NA T D S h V E)) toJoin tooHigh = .ok (A, il)) :
    ZeroRows A ∧ Lumped n (rate exp rnd kB NA T D S h V E) ⟨A, il⟩ :=
  ⟨rate_zeroRows_run exp rnd kB NA T D S h V E n hcols _ (run_of_cutAndMerge hcut),
    lumped_cutAndMerge n _ toJoin tooHigh hcut⟩

/-- **Detailed balance of `Q` ⇒ symmetric lumped flux**, for the rate matrix (the hypothesis `hdb` is
`C01.sqra_detailed_balance` for all pairs; `Bridge/MergeChain.lean` discharges it for a full grid). -/
theorem rate_flux_all_histories (exp rnd : K → K) (kB NA T D : K) (S h : Coo K) (V E : Nat → K) (n : Nat)
    (π : Nat → K) (hdb : Reversible.DB n π (rate exp rnd kB NA T D S h V E)) (ops : List Op) {s' : State K}
    (hrun : run ⟨toMat n (rate exp rnd kB NA T D S h V E), none⟩ ops = .ok s') (r c : Nat) :
    blockSum (flux π (rate exp rnd kB NA T D S h V E)) ((idxOf s').getD r []) ((idxOf s').getD c [])
      = blockSum (flux π (rate exp rnd kB NA T D S h V E)) ((idxOf s').getD c []) ((idxOf s').getD r []) := by
  have hl := lumped_all_histories n _ ops hrun
  exact blockSum_flux_symm hdb (cellsLt_getD hl.cells r) (cellsLt_getD hl.cells c)

/-! #### what `get_rate_matrix` returns -/

/-- a coo matrix with the given `.data` (only the data of the distances enter the rate matrix) -/
def dataCoo (hd : List K) : Coo K := ⟨0, hd.map fun x => ⟨0, 0, x⟩⟩

omit [Field K] [LT K] [DecidableLT K] in
theorem data_dataCoo (hd : List K) : (dataCoo hd).data = hd := by
  unfold dataCoo Coo.data
  rw [List.map_map]
  exact List.map_id' _

/-- **Whatever `get_rate_matrix` returns is the table of `Sqra.rate`** — every input on which the code does not raise,
both storage forms, including the numpy broadcast of a single stored distance (`hd` is the broadcast data); and the
stored columns lie inside the matrix (`hcols` of `C01.sqra_row_sum_zero`). -/
theorem getRateMatrix_eq_toMat (exp rnd : K → K) (kB NA : K) (E V : List K) (dist surf : Sp K) (D T : K)
    {M : List (List K)} (hM : getRateMatrix exp rnd kB NA E V dist surf D T = .ok M) :
    ∃ hd, broadcastData surf.tocoo.entries.length dist.tocoo.data = some hd ∧
      M = toMat surf.n (rate exp rnd kB NA T D surf.tocoo (dataCoo hd) (fun k => V.getD k 0) (fun k => E.getD k 0)) ∧
      ∀ p ∈ surf.tocoo.idx, p.2 < surf.n := by
  unfold getRateMatrix at hM
  split at hM
  · cases hM
  · rename_i hlen
    have hl : (surf.smul D).tocoo.entries.length = surf.tocoo.entries.length := by
      rw [tocoo_smul]; simp [Coo.smul]
    simp only [hl] at hM
    split at hM
    · cases hM
    · rename_i hd hb
      split at hM
      · cases hM
      · split at hM
        · cases hM
        · rename_i hcol
          split at hM
          · cases hM
          · rename_i hn
            cases hM
            refine ⟨hd, hb, ?_, ?_⟩
            · unfold toMat rate offDiag
              rw [tocoo_smul, data_dataCoo]
            · intro p hp
              obtain ⟨e, he, rfl⟩ := List.mem_map.mp hp
              have hlt : ¬ E.length ≤ e.col := by
                intro hle
                apply hcol
                rw [List.any_eq_true]
                refine ⟨⟨e.row, e.col, D * e.val⟩, ?_, by simpa using hle⟩
                rw [tocoo_smul]
                exact List.mem_map.mpr ⟨e, he, rfl⟩
              have h1 : surf.n = V.length := by
                by_contra hne; exact hn (Or.inl hne)
              have h2 : E.length = V.length := by
                by_contra hne; exact hlen hne
              show e.col < surf.n
              omega

/-- **Every history on the returned matrix**: zero row sums, good index list, exact lumping — all inputs of
`get_rate_matrix`, all operation sequences. -/
theorem getRateMatrix_history (exp rnd : K → K) (kB NA : K) (E V : List K) (dist surf : Sp K) (D T : K)
    {M : List (List K)} (hM : getRateMatrix exp rnd kB NA E V dist surf D T = .ok M) (ops : List Op) {s' : State K}
    (hrun : run ⟨M, none⟩ ops = .ok s') :
    ZeroRows s'.A ∧ Good (idxOf s') ∧ Inv (entry M) s' := by
  obtain ⟨hd, _, rfl, hcols⟩ := getRateMatrix_eq_toMat exp rnd kB NA E V dist surf D T hM
  exact ⟨rate_zeroRows_run exp rnd kB NA T D _ _ _ _ _ hcols ops hrun,
    good_all_histories _ (square_toMat _ _) ops hrun, lumping_all_histories _ (square_toMat _ _) ops hrun⟩

/-- **`get_rate_matrix` followed by `cut_and_merge`** (the call sequence of `SQRA`), all inputs, all four limit
combinations. -/
theorem getRateMatrix_cutAndMerge (exp rnd : K → K) (kB NA : K) (E V : List K) (dist surf : Sp K) (D T : K)
    {M : List (List K)} (hM : getRateMatrix exp rnd kB NA E V dist surf D T = .ok M) (toJoin : Option Groups)
    (tooHigh : Option (List Nat)) {A : Mat K} {il : Option Groups}
    (hcut : cutAndMerge M toJoin tooHigh = .ok (A, il)) :
    ZeroRows A ∧ Good (idxOf ⟨A, il⟩) ∧ Inv (entry M) ⟨A, il⟩ :=
  getRateMatrix_history exp rnd kB NA E V dist surf D T hM _ (run_of_cutAndMerge hcut)

end sqra

section signs
open Molgri.Sqra
variable {F : Type} [Field F] [LinearOrder F] [IsStrictOrderedRing F]

/-- **The merged / cut SqRA matrix is again a generator** (`C01.sqra_row_sum_zero` + `C01.sqra_offdiag_nonneg` through
every history): zero row sums, non-negative off-diagonal entries, non-positive diagonal. -/
theorem rate_generator_all_histories (exp rnd : F → F) (kB NA T D : F) (S h : Coo F) (V E : Nat → F) (n : Nat)
    (hcols : ∀ p ∈ S.idx, p.2 < n)
    (hexp : ∀ x, 0 < exp x) (hD : 0 ≤ D) (hS : ∀ e ∈ S.entries, 0 ≤ e.val) (hh : ∀ x ∈ h.data, 0 ≤ x)
    (hV : ∀ k, 0 ≤ V k) (ops : List Op) {s' : State F}
    (hrun : run ⟨toMat n (rate exp rnd kB NA T D S h V E), none⟩ ops = .ok s') :
    ZeroRows s'.A ∧ (∀ r c, r ≠ c → 0 ≤ entry s'.A r c) ∧ ∀ r, entry s'.A r r ≤ 0 :=
  generator_all_histories n _ (fun i hi => C01.sqra_row_sum_zero exp rnd kB NA T D S h V E n i hcols hi)
    (fun i _ j _ hij => C01.sqra_offdiag_nonneg exp rnd kB NA T D S h V E i j hexp hD hS hh hV hij) ops hrun

end signs

end Molgri.Bridge.MergeRate
