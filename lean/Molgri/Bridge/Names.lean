/-
Bridge F — names, factory and sizes: ONE name resolution, ONE factory dispatch, ONE `fulldiv` table and ONE cell-model
threshold in C17, C19, C07 and C15.

* C17  `Molgri.Naming`    `parse` (token scan + decision table of `GridNameParser`), `factory`, `fulldivAllowed`
* C19  `Molgri.Totality`  `resolveName` (the decision table *after* the token scan, over the enumeration `Alg`),
                          `create3D`, `create4D`, `genGrid` (shape assertions, threshold `N ≥ 4`), `run`
* C07  `Molgri.Hemi`      `factoryClass`, `fulldivLevel`, `namedAlg`, `genCheck`
* C15  `Molgri.CellVol`   `dispatch` (which cell model `gen_grid` attaches), `mikroVolumes`

What connects them (all defined here, all total and computable):

* `tokOf : Totality.Alg → Naming.Tok` / `algOf` — the eight literal algorithm names of `constants.py` as C19's
  enumeration (a bijection between `Alg` and the entries of `shipped.all`: `algOf_tokOf`, `algOf_eq_some`,
  `algOf_isSome_iff`);
* `scanName` — C17's token scan (`nameParser` on the shipped tables) packaged as C19's `Scan`;
* `outcome` — C19's result read as C17's result (`Alg ↦` its name; C19's table can only raise `ValueError`,
  `Totality.resolveName_err`);
* `runNames` — C19's `run` on a grid given by NAMES (scan, then `run`).

EXACT DOMAIN of (1): C19's model starts after the token scan, so it covers exactly the names on which the three scans of
`NameParser.__init__` return (at most one number, at most one algorithm token, no dimension tag); on those names and
both roles `resolveName ∘ scanName` IS `parse` (`parse_eq_resolve`); on all other names `parse` raises `ValueError`
and there is no `Scan` (`scanName` raises the same error).  The decision table itself agrees on ALL of its inputs
(`roleBranch_eq_resolveName`), also on combinations that no name produces.  No disagreement between the models was found.
-/
import Molgri.Props.C07
import Molgri.Props.C15
import Molgri.Props.C17
import Molgri.Props.C19

namespace Molgri.Bridge.Names
open Molgri

/-! ## 0. the dictionary between the vocabularies -/

/-- the literal name (constants.py:37-46) of an algorithm of C19's enumeration -/
def tokOf : Totality.Alg → Naming.Tok
  | .randomS => ['r','a','n','d','o','m','S']
  | .cube3D => ['c','u','b','e','3','D']
  | .ico => ['i','c','o']
  | .randomQ => ['r','a','n','d','o','m','Q']
  | .cube4D => ['c','u','b','e','4','D']
  | .fulldiv => ['f','u','l','l','d','i','v']
  | .zero3D => ['z','e','r','o','3','D']
  | .zero4D => ['z','e','r','o','4','D']

/-- a token as an algorithm of C19's enumeration (`none`: not one of the eight names) -/
def algOf (t : Naming.Tok) : Option Totality.Alg :=
  if t = ['r','a','n','d','o','m','S'] then some .randomS
  else if t = ['c','u','b','e','3','D'] then some .cube3D
  else if t = ['i','c','o'] then some .ico
  else if t = ['r','a','n','d','o','m','Q'] then some .randomQ
  else if t = ['c','u','b','e','4','D'] then some .cube4D
  else if t = ['f','u','l','l','d','i','v'] then some .fulldiv
  else if t = ['z','e','r','o','3','D'] then some .zero3D
  else if t = ['z','e','r','o','4','D'] then some .zero4D
  else none

/-- the same name as the `String` C07's model uses -/
def algName : Totality.Alg → String
  | .randomS => "randomS"
  | .cube3D => "cube3D"
  | .ico => "ico"
  | .randomQ => "randomQ"
  | .cube4D => "cube4D"
  | .fulldiv => "fulldiv"
  | .zero3D => "zero3D"
  | .zero4D => "zero4D"

/-- C17's generator classes are C19's algorithms -/
def buildOf : Totality.Alg → Naming.Build
  | .randomS => .randomS
  | .cube3D => .cube3D
  | .ico => .ico
  | .randomQ => .randomQ
  | .cube4D => .cube4D
  | .fulldiv => .fulldiv
  | .zero3D => .zero3D
  | .zero4D => .zero4D

/-- C17's role as C19's flag `role4` -/
def role4 : Naming.Role → Bool
  | .o => false
  | .b => true

/-- `dimensions` of the role's factory -/
def dimOf : Naming.Role → Nat
  | .o => 3
  | .b => 4

/-- C19's factory of the role -/
def createOf : Naming.Role → Totality.Alg → Nat → Totality.M Totality.SphereGrid
  | .o => Totality.create3D
  | .b => Totality.create4D

/-- C15's cell-model kinds are C19's cell classes -/
def clsOf : CellVol.VorKind → Totality.Cls
  | .rotobj => .rotobj
  | .halfRotobj => .half
  | .mikro => .mikro

/-- C19's outcome of the name table read as C17's: the algorithm by its name; the only error C19's table raises is
`ValueError` (`Totality.resolveName_err`). -/
def outcome : Totality.M (Totality.Alg × Nat) → Except Naming.Err (Naming.Tok × Nat)
  | .ok (a, n) => .ok (tokOf a, n)
  | .error _ => .error .valueError

theorem algOf_tokOf (a : Totality.Alg) : algOf (tokOf a) = some a := by cases a <;> decide

theorem algOf_eq_some {t : Naming.Tok} {a : Totality.Alg} (h : algOf t = some a) : tokOf a = t := by
  unfold algOf at h
  repeat' split at h
  all_goals first | (cases h; subst_vars; rfl) | cases h

theorem tokOf_injective {a b : Totality.Alg} (h : tokOf a = tokOf b) : a = b := by
  have := algOf_tokOf a
  rw [h, algOf_tokOf] at this
  exact (Option.some.inj this).symm

/-- the eight names are exactly the entries of `ALL_GRID_ALGORITHMS` (shipped tables) -/
theorem algOf_isSome_iff (t : Naming.Tok) : (algOf t).isSome = true ↔ t ∈ Naming.shipped.all := by
  constructor
  · intro h
    obtain ⟨a, ha⟩ := Option.isSome_iff_exists.1 h
    rw [← algOf_eq_some ha]
    cases a <;> decide
  · intro h
    simp only [Naming.shipped, Naming.Tables.all, List.mem_append, List.mem_cons, List.not_mem_nil, or_false] at h
    rcases h with ((h | h | h) | (h | h | h)) | h | h <;> subst h <;> decide

theorem algName_eq (a : Totality.Alg) : algName a = String.ofList (tokOf a) := by cases a <;> rfl


/-! ## 1. name resolution: C19's `resolveName` after C17's token scan is C17's `parse` -/

theorem tablesOk : Naming.TablesOk Naming.shipped := (Naming.tablesOk_iff _).1 C17.tablesOk_shipped

/-- membership in the role's algorithm set is the same predicate in both models -/
theorem contains_tokOf (role : Naming.Role) (a : Totality.Alg) :
    (Naming.shipped.roleSet role).contains (tokOf a) = a.inRole (role4 role) := by
  cases role <;> cases a <;> decide

/-- the role's zero / default algorithm is the same in both models -/
theorem zero_dflt_eq (role : Naming.Role) :
    Naming.shipped.zero role = tokOf (if role4 role then .zero4D else .zero3D) ∧
    Naming.shipped.dflt role = tokOf (if role4 role then .cube4D else .ico) := by
  cases role <;> exact ⟨rfl, rfl⟩

/-- **(1a) the decision table is the same, on ALL its inputs**: for every role, every value of `"zero" in name`, every
scanned number (or none) and every scanned algorithm (or none), C17's `roleBranch` (the code as repaired, with the role's
constants of the shipped tables) and C19's `resolveName` return the same `(algorithm, N)` or both raise `ValueError`. -/
theorem roleBranch_eq_resolveName (role : Naming.Role) (zeroIn : Bool) (N : Option Nat) (algo : Option Totality.Alg) :
    Naming.roleBranch .valueError (Naming.shipped.roleSet role) (Naming.shipped.zero role) (Naming.shipped.dflt role)
        zeroIn N (algo.map tokOf)
      = outcome (Totality.resolveName (role4 role) ⟨zeroIn, algo, N⟩) := by
  unfold Naming.roleBranch
  rcases algo with _ | a
  · cases role <;> cases zeroIn <;> rcases N with _ | _ | _ | k <;>
      simp [Totality.resolveName, outcome, role4, Naming.shipped, Naming.Tables.zero, Naming.Tables.dflt, tokOf,
        pure, Except.pure, throw, throwThe, MonadExceptOf.throw]
  · simp only [Option.map_some, contains_tokOf]
    cases role <;> cases zeroIn <;> rcases N with _ | _ | _ | k <;> cases a <;>
      simp [Totality.resolveName, Totality.Alg.inRole, outcome, role4, Naming.shipped, Naming.Tables.zero,
        tokOf, pure, Except.pure, throw, throwThe, MonadExceptOf.throw]

/-- C17's token scan (`NameParser.__init__` on the shipped tables, plus `"zero" in name_string`) as the `Scan` C19's
model starts from.  It raises `ValueError` exactly when one of the three scans of `NameParser` does. -/
def scanName (name : List Char) : Except Naming.Err Totality.Scan :=
  match Naming.nameParser Naming.shipped name with
  | .ok s => .ok ⟨Naming.hasSub Naming.zeroKw name, s.algo.bind algOf, s.N⟩
  | .error e => .error e

/-- the three scans either all return (and then found no dimension tag) or `NameParser` raises `ValueError` -/
theorem nameParser_cases (name : List Char) :
    Naming.nameParser Naming.shipped name = .error .valueError ∨
    ∃ n a, Naming.findNumber name = .ok n ∧ Naming.findAlgorithm Naming.shipped name = .ok a ∧
      Naming.findDim name = .ok none ∧ Naming.nameParser Naming.shipped name = .ok ⟨n, a, none⟩ := by
  unfold Naming.nameParser
  rcases Naming.findNumber_total name with hn | ⟨n, hn⟩
  · left; simp only [hn, bind, Except.bind]
  rcases Naming.findAlgorithm_total Naming.shipped name with ha | ⟨a, ha⟩
  · left; simp only [hn, ha, bind, Except.bind]
  have hd := Naming.findDim_eq name
  split at hd
  · right; exact ⟨n, a, hn, ha, hd, by simp only [hn, ha, hd, bind, Except.bind, pure, Except.pure]⟩
  · left; simp only [hn, ha, hd, bind, Except.bind]

/-- the scan can only raise `ValueError` -/
theorem scanName_error {name : List Char} {e : Naming.Err} (h : scanName name = .error e) : e = .valueError := by
  unfold scanName at h
  rcases nameParser_cases name with he | ⟨n, a, _, _, _, hk⟩
  · rw [he] at h; cases h; rfl
  · rw [hk] at h; cases h

/-- **(1b) C19's name resolution = C17's `parse`**, for EVERY name and both roles: if the token scan returns, `parse` is
C19's `resolveName` applied to the scan (same algorithm and `N`, or both `ValueError`); if the scan raises, so does
`parse` (and C19's model, which starts after the scan, has no input). -/
theorem parse_eq_resolve (name : List Char) (role : Naming.Role) :
    Naming.parse Naming.shipped name role =
      match scanName name with
      | .ok sc => outcome (Totality.resolveName (role4 role) sc)
      | .error e => .error e := by
  unfold scanName Naming.parse
  rcases nameParser_cases name with he | ⟨n, a, hn, ha, hd, hk⟩
  · rw [he]
    show Naming.parseWith .valueError Naming.shipped name role = .error .valueError
    unfold Naming.parseWith
    simp only [he, bind, Except.bind]
  · rw [hk, Naming.parseWith_of_scans hn ha hd]
    show _ = outcome (Totality.resolveName (role4 role) ⟨Naming.hasSub Naming.zeroKw name, a.bind algOf, n⟩)
    rw [← roleBranch_eq_resolveName]
    congr 1
    rcases a with _ | t
    · rfl
    · have hmem := (Naming.findAlgorithm_some ha).1
      obtain ⟨x, hx⟩ := Option.isSome_iff_exists.1 ((algOf_isSome_iff t).2 hmem)
      simp [hx, algOf_eq_some hx]

theorem outcome_ok_iff (r : Totality.M (Totality.Alg × Nat)) (alg : Naming.Tok) (N : Nat) :
    outcome r = .ok (alg, N) ↔ ∃ a, r = .ok (a, N) ∧ tokOf a = alg := by
  rcases r with e | ⟨a, n⟩
  · simp [outcome]
  · simp only [outcome, Except.ok.injEq, Prod.mk.injEq]
    constructor
    · rintro ⟨h1, h2⟩; exact ⟨a, ⟨rfl, h2⟩, h1⟩
    · rintro ⟨a', ⟨h1, h2⟩, h3⟩; subst h1; exact ⟨h3, h2⟩

theorem outcome_error_iff (r : Totality.M (Totality.Alg × Nat)) :
    outcome r = .error .valueError ↔ ∃ e, r = .error e := by
  rcases r with e | ⟨a, n⟩ <;> simp [outcome]

/-- (1b), accepted names: `parse` accepts with `(alg, N)` iff the scan returns and C19 resolves it to the algorithm
named `alg` and the same `N`. -/
theorem parse_ok_iff (name : List Char) (role : Naming.Role) (alg : Naming.Tok) (N : Nat) :
    Naming.parse Naming.shipped name role = .ok (alg, N) ↔
      ∃ sc a, scanName name = .ok sc ∧ Totality.resolveName (role4 role) sc = .ok (a, N) ∧ tokOf a = alg := by
  rw [parse_eq_resolve]
  cases hs : scanName name with
  | error e => simp
  | ok sc =>
    show outcome _ = _ ↔ _
    rw [outcome_ok_iff]
    simp

/-- (1b), rejected names: `parse` raises `ValueError` iff the scan raises or C19's table rejects the scan. -/
theorem parse_error_iff (name : List Char) (role : Naming.Role) :
    Naming.parse Naming.shipped name role = .error .valueError ↔
      scanName name = .error .valueError ∨
      ∃ sc, scanName name = .ok sc ∧ Totality.resolveName (role4 role) sc = .error .valueError := by
  rw [parse_eq_resolve]
  cases hs : scanName name with
  | error e => simp
  | ok sc =>
    show outcome _ = _ ↔ _
    rw [outcome_error_iff]
    constructor
    · rintro ⟨e, he⟩; right; exact ⟨sc, rfl, by rw [he, Totality.resolveName_err he]⟩
    · rintro (h | ⟨sc', h1, h2⟩)
      · cases h
      · cases h1; exact ⟨_, h2⟩

/-- **(1c) C19's `Scan.bare n` is the scan of an actual name**: any all-digit name (`"5"`, `"007"`) scans to
`Scan.bare` of its value — the quantifier "every bare number" of C19's theorems ranges over real names. -/
theorem scanName_bare (name : List Char) (hnum : Naming.isNumeric name = true) :
    scanName name = .ok (Totality.Scan.bare (Naming.pyInt name)) := by
  have hT := tablesOk
  have hsplit : Naming.splitU name = [name] :=
    Naming.splitU_of_not_mem (Naming.not_mem_of_numeric hnum (by decide))
  have h1 : Naming.findNumber name = .ok (some (Naming.pyInt name)) := by
    unfold Naming.findNumber; rw [hsplit]; simp [List.filter, hnum, Naming.pick]
  have h2 : Naming.findAlgorithm Naming.shipped name = .ok none := by
    have : Naming.shipped.all.contains name = false := by simpa using Naming.numeric_not_mem_all hT hnum
    unfold Naming.findAlgorithm; rw [hsplit]; simp only [List.filter, this, Naming.pick]
  have h3 : Naming.findDim name = .ok none := by
    rw [Naming.findDim_eq, hsplit]; simp [List.filter, Naming.numeric_not_dimTag hnum]
  unfold scanName Naming.nameParser
  simp only [h1, h2, h3, bind, Except.bind, pure, Except.pure, Naming.numeric_no_zeroKw hnum]
  rfl

/-- (1c) for `str(n)` -/
theorem scanName_natStr (n : Nat) : scanName (Naming.natStr n) = .ok (Totality.Scan.bare n) := by
  rw [scanName_bare _ (Naming.natStr_numeric n), Naming.pyInt_natStr]

/-- **(1c) C19's `Scan.named a n` is the scan of the standard name `f"{alg}_{n}"`**. -/
theorem scanName_named (a : Totality.Alg) (n : Nat) :
    scanName (Naming.stdName (tokOf a) n) = .ok (Totality.Scan.named a n) := by
  have hmem : tokOf a ∈ Naming.shipped.all := (algOf_isSome_iff _).1 (by rw [algOf_tokOf]; rfl)
  obtain ⟨h1, h2, h3, h4⟩ := Naming.scans_stdName tablesOk hmem n
  have hz : Naming.hasSub Naming.zeroKw (tokOf a) = (a == .zero3D || a == .zero4D) := by cases a <;> decide
  unfold scanName Naming.nameParser
  simp only [h1, h2, h3, h4, hz, bind, Except.bind, pure, Except.pure, Option.bind_some, algOf_tokOf]
  rfl

/-! ## 2. factory dispatch and the `fulldiv` table: C17 = C19 = C07 -/

/-- The `(algorithm, size)` pairs the factory of a role builds a grid for: the algorithm belongs to the role (one of its
three generators or its zero algorithm) and, for `fulldiv`, the size is a full subdivision. -/
def Admissible (role : Naming.Role) (a : Totality.Alg) (N : Nat) : Prop :=
  (a.inRole (role4 role) = true ∨ a = Totality.zeroAlg (role4 role)) ∧ (a = .fulldiv → N ∈ Naming.fulldivAllowed)

instance (role : Naming.Role) (a : Totality.Alg) (N : Nat) : Decidable (Admissible role a N) := by
  unfold Admissible; infer_instance

/-- **(2a) one admissible-size table.**  C17's `fulldivAllowed`, the literal test of C19's `create4D` and the table of
C07's `fulldivLevel` are the same four sizes: for every `N` either all three accept (and C07's level `L` has exactly
`2N` nodes, `C07.fulldiv_table`) or all three raise `ValueError`. -/
theorem fulldiv_sizes_agree (N : Nat) :
    (N ∈ Naming.fulldivAllowed ∧ Naming.factory4 (tokOf .fulldiv) N = .ok .fulldiv ∧
      (∃ g, Totality.create4D .fulldiv N = .ok g ∧ Totality.Good4 g N) ∧
      ∃ L, Hemi.fulldivLevel N = .ok L ∧ 2 * N = Hemi.hypercubeCount L) ∨
    (N ∉ Naming.fulldivAllowed ∧ Naming.factory4 (tokOf .fulldiv) N = .error .valueError ∧
      Totality.create4D .fulldiv N = .error .valueError ∧ Hemi.fulldivLevel N = .error "ValueError") := by
  have hmem : N ∈ Naming.fulldivAllowed ↔ (N = 8 ∨ N = 40 ∨ N = 272 ∨ N = 2080) := by
    simp [Naming.fulldivAllowed]
  rcases C07.fulldiv_table N with ⟨h, hL⟩ | ⟨h, hL⟩
  · left
    have h' : N ∈ Naming.fulldivAllowed := h
    refine ⟨h', by simp [Naming.factory4, tokOf, h'], ?_, hL⟩
    simp only [Totality.create4D, hmem.1 h', if_true]
    exact Totality.genGrid4_good N
  · right
    have h' : N ∉ Naming.fulldivAllowed := h
    refine ⟨h', by simp [Naming.factory4, tokOf, h'], ?_, hL⟩
    simp only [Totality.create4D, mt hmem.2 h', if_false]
    rfl

/-- C07's class look-up on the eight names: exactly the algorithms of the role's dimension. -/
theorem factoryClass_algName (role : Naming.Role) (a : Totality.Alg) :
    Hemi.factoryClass (algName a) (dimOf role) =
      if a.inRole (role4 role) = true ∨ a = Totality.zeroAlg (role4 role) then .ok (algName a)
      else .error "ValueError" := by
  cases role <;> cases a <;> decide

local macro "fac" : tactic =>
  `(tactic| simp [Naming.factory, Naming.factory3, Naming.factory4, tokOf, buildOf])
local macro "adm" : tactic =>
  `(tactic| simp [Admissible, role4, Totality.Alg.inRole, Totality.zeroAlg])

/-- **(2b) one factory dispatch.**  For every role, every algorithm of the enumeration and every size: either the pair is
admissible and C17's `factory` picks the generator class of that name, C19's factory returns a grid of the role's
dimension, C07's `factoryClass` finds the class and (for `fulldiv`) C07's table has a level for the size — or it is not
and all raise `ValueError` (C07: from the class look-up, or for `fulldiv` from the table). -/
theorem dispatch_agree (role : Naming.Role) (a : Totality.Alg) (N : Nat) :
    (Admissible role a N ∧ Naming.factory role (tokOf a) N = .ok (buildOf a) ∧
      (∃ g, createOf role a N = .ok g ∧ g.dim = dimOf role) ∧
      Hemi.factoryClass (algName a) (dimOf role) = .ok (algName a) ∧
      (a = .fulldiv → ∃ L, Hemi.fulldivLevel N = .ok L ∧ 2 * N = Hemi.hypercubeCount L)) ∨
    (¬ Admissible role a N ∧ Naming.factory role (tokOf a) N = .error .valueError ∧
      createOf role a N = .error .valueError ∧
      (Hemi.factoryClass (algName a) (dimOf role) = .error "ValueError" ∨
        (role = .b ∧ a = .fulldiv ∧ Hemi.fulldivLevel N = .error "ValueError"))) := by
  have g3 : ∀ n, ∃ g, Totality.genGrid 3 n n = .ok g ∧ g.dim = dimOf .o := fun n => by
    obtain ⟨g, hg, hgood⟩ := Totality.genGrid3_good n; exact ⟨g, hg, hgood.dim⟩
  have g4 : ∀ n, ∃ g, Totality.genGrid 4 n (2 * n) = .ok g ∧ g.dim = dimOf .b := fun n => by
    obtain ⟨g, hg, hgood⟩ := Totality.genGrid4_good n; exact ⟨g, hg, hgood.dim⟩
  cases role with
  | o =>
    cases a
    case randomS => exact Or.inl ⟨by adm, by fac, g3 N, by decide, by simp⟩
    case cube3D => exact Or.inl ⟨by adm, by fac, g3 N, by decide, by simp⟩
    case ico => exact Or.inl ⟨by adm, by fac, g3 N, by decide, by simp⟩
    case zero3D => exact Or.inl ⟨by adm, by fac, g3 1, by decide, by simp⟩
    case randomQ => exact Or.inr ⟨by adm, by fac, rfl, Or.inl (by decide)⟩
    case cube4D => exact Or.inr ⟨by adm, by fac, rfl, Or.inl (by decide)⟩
    case fulldiv => exact Or.inr ⟨by adm, by fac, rfl, Or.inl (by decide)⟩
    case zero4D => exact Or.inr ⟨by adm, by fac, rfl, Or.inl (by decide)⟩
  | b =>
    cases a
    case randomQ => exact Or.inl ⟨by adm, by fac, g4 N, by decide, by simp⟩
    case cube4D => exact Or.inl ⟨by adm, by fac, g4 N, by decide, by simp⟩
    case zero4D => exact Or.inl ⟨by adm, by fac, g4 1, by decide, by simp⟩
    case fulldiv =>
      rcases fulldiv_sizes_agree N with ⟨h1, h2, ⟨g, hg, hgood⟩, h4⟩ | ⟨h1, h2, h3, h4⟩
      · exact Or.inl ⟨⟨by simp [role4, Totality.Alg.inRole], fun _ => h1⟩, h2, ⟨g, hg, hgood.dim⟩, by decide, fun _ => h4⟩
      · exact Or.inr ⟨fun h => h1 (h.2 rfl), h2, h3, Or.inr ⟨rfl, rfl, h4⟩⟩
    case randomS => exact Or.inr ⟨by adm, by fac, rfl, Or.inl (by decide)⟩
    case cube3D => exact Or.inr ⟨by adm, by fac, rfl, Or.inl (by decide)⟩
    case ico => exact Or.inr ⟨by adm, by fac, rfl, Or.inl (by decide)⟩
    case zero3D => exact Or.inr ⟨by adm, by fac, rfl, Or.inl (by decide)⟩

/-- (2b) as equivalences: C17's factory builds iff C19's does iff the pair is admissible iff C07's class look-up and
`fulldiv` table both succeed. -/
theorem factory_ok_iff (role : Naming.Role) (a : Totality.Alg) (N : Nat) :
    ((∃ b, Naming.factory role (tokOf a) N = .ok b) ↔ Admissible role a N) ∧
    ((∃ g, createOf role a N = .ok g) ↔ Admissible role a N) ∧
    ((Hemi.factoryClass (algName a) (dimOf role) = .ok (algName a) ∧
        (a = .fulldiv → ∃ L, Hemi.fulldivLevel N = .ok L)) ↔ Admissible role a N) := by
  rcases dispatch_agree role a N with ⟨h, h1, ⟨g, h2, _⟩, h3, h4⟩ | ⟨h, h1, h2, h3⟩
  · refine ⟨⟨fun _ => h, fun _ => ⟨_, h1⟩⟩, ⟨fun _ => h, fun _ => ⟨g, h2⟩⟩, ⟨fun _ => h, fun _ => ⟨h3, ?_⟩⟩⟩
    intro hf; obtain ⟨L, hL, _⟩ := h4 hf; exact ⟨L, hL⟩
  · refine ⟨⟨?_, fun h' => absurd h' h⟩, ⟨?_, fun h' => absurd h' h⟩, ⟨?_, fun h' => absurd h' h⟩⟩
    · rintro ⟨b, hb⟩; rw [h1] at hb; cases hb
    · rintro ⟨g, hg⟩; rw [h2] at hg; cases hg
    · rintro ⟨hc, hf⟩
      rcases h3 with h3 | ⟨_, ha, h3⟩
      · rw [h3] at hc; cases hc
      · obtain ⟨L, hL⟩ := hf ha; rw [h3] at hL; cases hL

/-- (2b) outside the enumeration: a token that is none of the eight names is refused by C17's factory and by C07's
class look-up alike (C19's `Alg` has no value for it). -/
theorem unknown_token_rejected (role : Naming.Role) (t : Naming.Tok) (N : Nat) (h : algOf t = none) :
    Naming.factory role t N = .error .valueError ∧
    Hemi.factoryClass (String.ofList t) (dimOf role) = .error "ValueError" := by
  have hne : ∀ a, t ≠ tokOf a := fun a ht => by rw [ht, algOf_tokOf] at h; cases h
  have e : ∀ a, String.ofList t = algName a ↔ t = tokOf a := fun a => by rw [algName_eq]; exact String.ofList_inj
  constructor
  · have h1 := hne .randomS; have h2 := hne .cube3D; have h3 := hne .ico; have h4 := hne .randomQ
    have h5 := hne .cube4D; have h6 := hne .fulldiv; have h7 := hne .zero3D; have h8 := hne .zero4D
    simp only [tokOf] at h1 h2 h3 h4 h5 h6 h7 h8
    cases role <;> simp [Naming.factory, Naming.factory3, Naming.factory4, *]
  · have n1 := (e .randomS).not.2 (hne _); have n2 := (e .cube3D).not.2 (hne _); have n3 := (e .ico).not.2 (hne _)
    have n4 := (e .randomQ).not.2 (hne _); have n5 := (e .cube4D).not.2 (hne _); have n6 := (e .fulldiv).not.2 (hne _)
    have n7 := (e .zero3D).not.2 (hne _); have n8 := (e .zero4D).not.2 (hne _)
    simp only [algName] at n1 n2 n3 n4 n5 n6 n7 n8
    cases role <;> simp [Hemi.factoryClass, dimOf, *] <;> rfl

/-- **(2c) C17's `factory_accepts_parsed` through C19's factory**: for every accepted name the pair `(alg, N)` the
parser returns is one C19's factory of the role builds a grid for — or it is `fulldiv` with a size outside the table, and
C17's, C19's and C07's models raise the same `ValueError`. -/
theorem create_accepts_parsed (name : List Char) (role : Naming.Role) (alg : Naming.Tok) (N : Nat)
    (hp : Naming.parse Naming.shipped name role = .ok (alg, N)) :
    ∃ a, tokOf a = alg ∧ 1 ≤ N ∧
      ((Naming.factory role alg N = .ok (buildOf a) ∧ ∃ g, createOf role a N = .ok g ∧ g.dim = dimOf role ∧ g.getN = N) ∨
       (role = .b ∧ a = .fulldiv ∧ N ∉ Naming.fulldivAllowed ∧ Naming.factory role alg N = .error .valueError ∧
         createOf role a N = .error .valueError ∧ Hemi.fulldivLevel N = .error "ValueError")) := by
  obtain ⟨sc, a, hsc, hres, ha⟩ := (parse_ok_iff name role alg N).1 hp
  subst ha
  refine ⟨a, rfl, ?_⟩
  cases role with
  | o =>
    obtain ⟨h1, g, hg, hgood⟩ := Totality.create3D_good hres
    refine ⟨h1, Or.inl ⟨?_, g, hg, hgood.dim, hgood.getN⟩⟩
    rcases dispatch_agree .o a N with ⟨_, hf, _⟩ | ⟨_, _, hc, _⟩
    · exact hf
    · rw [show createOf .o a N = Totality.create3D a N from rfl, hg] at hc; cases hc
  | b =>
    obtain ⟨h1, hc⟩ := Totality.create4D_cases hres
    refine ⟨h1, ?_⟩
    rcases dispatch_agree .b a N with ⟨_, hf, ⟨g, hg, _⟩, _⟩ | ⟨hna, hf, hce, hC07⟩
    · rcases hc with hc | ⟨g', hg', hgood⟩
      · rw [show createOf .b a N = Totality.create4D a N from rfl, hc] at hg; cases hg
      · exact Or.inl ⟨hf, g', hg', hgood.dim, hgood.getN⟩
    · right
      have hfd : a = .fulldiv := by
        by_contra hne
        obtain ⟨g, hg, _⟩ := Totality.create4D_ok_of_ne_fulldiv hres hne
        rw [show createOf .b a N = Totality.create4D a N from rfl, hg] at hce; cases hce
      subst hfd
      rcases fulldiv_sizes_agree N with ⟨_, h2, _⟩ | ⟨h1', _, _, h4⟩
      · rw [show Naming.factory .b (tokOf .fulldiv) N = Naming.factory4 (tokOf .fulldiv) N from rfl, h2] at hf; cases hf
      · exact ⟨rfl, rfl, h1', hf, hce, h4⟩

/-- **(2d) the `N = 1` clause of C07 is the parser's rule** (`C07.named_N1` takes `namedAlg` — "for `N = 1` the zero
algorithm is substituted" — as its model of `GridNameParser`): for every accepted name, whatever algorithm token the
name carried (`alg0`: the found token, or the role's default when there is none), the algorithm C17's parser returns
is C07's `namedAlg alg0 N dims`. -/
theorem namedAlg_is_parse (name : List Char) (role : Naming.Role) (alg : Naming.Tok) (N : Nat)
    (hp : Naming.parse Naming.shipped name role = .ok (alg, N)) (alg0 : Naming.Tok)
    (h0 : Naming.findAlgorithm Naming.shipped name = .ok (some alg0) ∨
      (Naming.findAlgorithm Naming.shipped name = .ok none ∧ alg0 = Naming.shipped.dflt role)) :
    Hemi.namedAlg (String.ofList alg0) N (dimOf role) = String.ofList alg := by
  rcases Naming.parse_ok_cases tablesOk hp with ⟨h1, h2⟩ | ⟨h2, _, _, _, ha⟩
  · subst h1 h2; cases role <;> rfl
  · have : alg0 = alg := by
      rcases h0 with h0 | ⟨h0, h0'⟩ <;> rcases ha with ha | ⟨ha, ha'⟩
      · rw [h0] at ha; cases ha; rfl
      · rw [h0] at ha; cases ha
      · rw [h0] at ha; cases ha
      · rw [h0', ha']
    subst this
    have : N ≠ 1 := by omega
    simp [Hemi.namedAlg, this]

/-- (2d) on standard names: `f"{alg}_{N}"` with an algorithm of the role and `N ≥ 1` is accepted by C17's parser, resolved
by C19's table, and the algorithm both return is the one C07's `namedAlg` names. -/
theorem named_resolves (role : Naming.Role) (a : Totality.Alg) (N : Nat) (ha : a.inRole (role4 role) = true)
    (hN : 1 ≤ N) :
    ∃ a', Totality.resolveName (role4 role) (Totality.Scan.named a N) = .ok (a', N) ∧
      Naming.parse Naming.shipped (Naming.stdName (tokOf a) N) role = .ok (tokOf a', N) ∧
      algName a' = Hemi.namedAlg (algName a) N (dimOf role) := by
  have hres : ∃ a', Totality.resolveName (role4 role) (Totality.Scan.named a N) = .ok (a', N) ∧
      algName a' = Hemi.namedAlg (algName a) N (dimOf role) := by
    rcases N with _ | _ | k
    · omega
    · refine ⟨Totality.zeroAlg (role4 role), ?_, by cases role <;> rfl⟩
      cases role <;> cases a <;> simp [Totality.Alg.inRole, role4] at ha <;>
        simp [Totality.resolveName, Totality.Scan.named, Totality.Alg.inRole, Totality.zeroAlg, role4, pure, Except.pure]
    · refine ⟨a, ?_, by simp [Hemi.namedAlg]⟩
      cases role <;> cases a <;> simp [Totality.Alg.inRole, role4] at ha <;>
        simp [Totality.resolveName, Totality.Scan.named, Totality.Alg.inRole, role4, pure, Except.pure]
  obtain ⟨a', h1, h2⟩ := hres
  exact ⟨a', h1, (parse_ok_iff _ role _ N).2 ⟨_, a', scanName_named a N, h1, rfl⟩, h2⟩

/-- what `gen_grid` returns when its assertions pass (C19's `genGrid`, unfolded once) -/
theorem genGrid_ok {dims N rows : Nat} {g : Totality.SphereGrid} (h : Totality.genGrid dims N rows = .ok g) :
    ¬ (dims = 3 ∧ rows ≠ N) ∧ ¬ (dims = 4 ∧ rows ≠ 2 * N) ∧
    g = ⟨dims, N, rows,
      if dims = 3 ∧ N ≥ 4 then ⟨.rotobj, 3, rows, Totality.upperCount rows, true⟩
      else if dims = 4 ∧ N ≥ 4 then ⟨.half, 4, rows, Totality.upperCount rows, true⟩
      else ⟨.mikro, dims, if dims = 4 then Totality.upperCount rows else rows, 0, false⟩⟩ := by
  unfold Totality.genGrid at h
  by_cases c1 : dims = 3 ∧ rows ≠ N
  · simp [c1, bind, Except.bind, throw, throwThe, MonadExceptOf.throw] at h
  by_cases c2 : dims = 4 ∧ rows ≠ 2 * N
  · simp [c2, bind, Except.bind, throw, throwThe, MonadExceptOf.throw] at h
  refine ⟨c1, c2, ?_⟩
  simp only [c1, c2, if_false, bind, Except.bind, pure, Except.pure] at h
  cases h
  rfl

/-- **(2e) the shape assertion of `gen_grid`** is the same test in C19 (`genGrid`, on the number of rows) and in C07
(`genCheck`, on the array; `C07.genCheck_spec`): an array that passes C07's assertions has a row count C19's `genGrid`
accepts, and a row count C19's `genGrid` refuses makes C07's `genCheck` raise the same `AssertionError`.  (C07 checks
in addition the row width and the unit norm, which a model over sizes cannot see.) -/
theorem genGrid_genCheck {K : Type} [Field K] [LinearOrder K] [IsStrictOrderedRing K]
    (dims N : Nat) (lo hi : K) (G : List (List K)) (hd : dims = 3 ∨ dims = 4) :
    (Totality.genGrid dims N G.length = .error .assertionError ↔ G.length ≠ (if dims = 3 then N else 2 * N)) ∧
    (Totality.genGrid dims N G.length = .error .assertionError →
      Hemi.genCheck dims N lo hi G = .error "AssertionError") ∧
    (Hemi.genCheck dims N lo hi G = .ok G →
      ∃ g, Totality.genGrid dims N G.length = .ok g ∧ g.dim = dims ∧ g.N = N ∧ g.rows = G.length) := by
  have key : (Totality.genGrid dims N G.length = .error .assertionError ∧
        G.length ≠ (if dims = 3 then N else 2 * N)) ∨
      ((∃ g, Totality.genGrid dims N G.length = .ok g ∧ g.dim = dims ∧ g.N = N ∧ g.rows = G.length) ∧
        G.length = (if dims = 3 then N else 2 * N)) := by
    rcases hd with rfl | rfl
    · by_cases h : G.length = N
      · right; simp [Totality.genGrid, h, pure, Except.pure]
      · left; simp [Totality.genGrid, h, bind, Except.bind, throw, throwThe, MonadExceptOf.throw]
    · by_cases h : G.length = 2 * N
      · right; simp [Totality.genGrid, h, pure, Except.pure]
      · left; simp [Totality.genGrid, h, bind, Except.bind, throw, throwThe, MonadExceptOf.throw]
  have spec := C07.genCheck_spec dims N lo hi G hd
  rcases key with ⟨h1, h2⟩ | ⟨⟨g, h1, h1'⟩, h2⟩
  · refine ⟨⟨fun _ => h2, fun _ => h1⟩, fun _ => ?_, fun hc => ?_⟩
    · rcases spec with ⟨_, hl, _⟩ | he
      · exact absurd hl h2
      · exact he
    · rcases spec with ⟨_, hl, _⟩ | he
      · exact absurd hl h2
      · rw [he] at hc; cases hc
  · refine ⟨⟨fun h => ?_, fun h => absurd h2 h⟩, fun h => ?_, fun _ => ⟨g, h1, h1'⟩⟩
    · rw [h1] at h; cases h
    · rw [h1] at h; cases h

/-! ## 3. the cell-model threshold: C19 = C15 -/

/-- **(3) one threshold.**  Whatever `gen_grid` is given (any dimension, any `N`, any row count that passes the shape
assertion), the class of the cell object in C19's model (`genGrid`, rotobj.py:97-104) is the kind C15's `dispatch`
selects: exact `RotobjVoronoi` for `N ≥ 4` directions, `HalfRotobjVoronoi` for `N ≥ 4` rotations, the equal-share
`MikroVoronoi` otherwise. -/
theorem threshold_agree (dims N rows : Nat) (g : Totality.SphereGrid) (h : Totality.genGrid dims N rows = .ok g) :
    g.cell.cls = clsOf (CellVol.dispatch dims N) := by
  obtain ⟨_, _, rfl⟩ := genGrid_ok h
  unfold CellVol.dispatch
  by_cases h3 : dims = 3 ∧ N ≥ 4
  · simp [h3, clsOf]
  · by_cases h4 : dims = 4 ∧ N ≥ 4
    · simp [h4, clsOf]
    · simp [h3, h4, clsOf]

/-- (3) restated with both properties' theorems: `C19.cell_model_threshold` and `C15.mikro_threshold` describe the same
switch — the estimated model is attached iff `N < 4`, in both models, for direction and rotation grids. -/
theorem mikro_iff (n : Nat) :
    (∃ g, Totality.genGrid 3 n n = .ok g ∧
      (g.cell.cls = .mikro ↔ CellVol.dispatch 3 n = .mikro) ∧ (g.cell.cls = .mikro ↔ n < 4) ∧
      (g.cell.cls = .rotobj ↔ 4 ≤ n)) ∧
    (∃ g, Totality.genGrid 4 n (2 * n) = .ok g ∧
      (g.cell.cls = .mikro ↔ CellVol.dispatch 4 n = .mikro) ∧ (g.cell.cls = .mikro ↔ n < 4) ∧
      (g.cell.cls = .half ↔ 4 ≤ n)) := by
  obtain ⟨⟨g3, hg3, hc3⟩, ⟨g4, hg4, hc4⟩⟩ := C19.cell_model_threshold n
  obtain ⟨m4, m3, _⟩ := C15.mikro_threshold n
  refine ⟨⟨g3, hg3, ?_, ?_, ?_⟩, ⟨g4, hg4, ?_, ?_, ?_⟩⟩
  · rw [m3, hc3]; by_cases h : n ≥ 4 <;> simp [h]; omega
  · rw [hc3]; by_cases h : n ≥ 4 <;> simp [h]; omega
  · rw [hc3]; by_cases h : n ≥ 4 <;> simp [h]
  · rw [m4, hc4]; by_cases h : n ≥ 4 <;> simp [h]; omega
  · rw [hc4]; by_cases h : n ≥ 4 <;> simp [h]; omega
  · rw [hc4]; by_cases h : n ≥ 4 <;> simp [h]

/-- (3) below the threshold the two models also agree on what the estimated model returns: C15's `mikroVolumes` is a list
with one entry per cell, C19's `MikroVoronoi.get_voronoi_volumes` a vector of that length (`get_N()` cells). -/
theorem mikro_volume_count {K : Type} [Mul K] [Div K] [NatCast K] (pi : K) (dims N rows : Nat)
    (g : Totality.SphereGrid) (hd : dims = 3 ∨ dims = 4) (hg : Totality.genGrid dims N rows = .ok g) (hN : N < 4)
    (h1 : 1 ≤ g.getN) :
    ∃ l, CellVol.mikroVolumes pi dims g.getN = .ok l ∧ l.length = g.getN ∧
      g.fwd Totality.current .volumes {} = .ok (.vec l.length) := by
  have hne : g.getN ≠ 0 := by omega
  have hcell : g.cell = ⟨.mikro, dims, g.getN, 0, false⟩ := by
    obtain ⟨_, _, rfl⟩ := genGrid_ok hg
    have hN' : ¬ N ≥ 4 := by omega
    simp [hN', Totality.SphereGrid.getN]
  have hv : ∃ l, CellVol.mikroVolumes pi dims g.getN = .ok l ∧ l.length = g.getN := by
    unfold CellVol.mikroVolumes
    rcases hd with rfl | rfl
    · exact ⟨_, by simp [hne, pure, Except.pure]; rfl, by simp⟩
    · exact ⟨_, by simp [hne, pure, Except.pure]; rfl, by simp⟩
  obtain ⟨l, hl, hlen⟩ := hv
  refine ⟨l, hl, hlen, ?_⟩
  unfold Totality.SphereGrid.fwd
  rw [hcell, hlen]
  exact Totality.cellCall_mikro dims g.getN 0 .volumes {}

/-! ## 4. the full grid given by NAMES: C17's parser composed with C19's getters -/

/-- `FullGrid(b_grid_name, o_grid_name, t_grid, position_grid_cartesian=…)` followed by one getter, for a grid given by
its two NAMES: the token scan of each name (`NameParser`, `ValueError`), then C19's `run` on the two scans. -/
def runNames (bName oName : List Char) (radii : List Rat) (cart : Bool) (ext : Totality.Ext) (g : Totality.Getter) :
    Totality.M Totality.Shape :=
  match scanName bName, scanName oName with
  | .ok sb, .ok so => Totality.run Totality.current ⟨sb, so, radii, cart⟩ ext g
  | _, _ => .error .valueError

/-- a name C17's parser rejects (either role's name) makes the construction raise `ValueError` -/
theorem runNames_of_parse_error (bName oName : List Char) (radii : List Rat) (cart : Bool) (ext : Totality.Ext)
    (g : Totality.Getter)
    (h : Naming.parse Naming.shipped bName .b = .error .valueError ∨
      Naming.parse Naming.shipped oName .o = .error .valueError) :
    runNames bName oName radii cart ext g = .error .valueError := by
  unfold runNames
  cases hsb : scanName bName with
  | error e => rfl
  | ok sb =>
    cases hso : scanName oName with
    | error e => rfl
    | ok so =>
      show Totality.run Totality.current ⟨sb, so, radii, cart⟩ ext g = _
      rcases h with h | h
      · rcases (parse_error_iff bName .b).1 h with h' | ⟨sc, h1, h2⟩
        · rw [hsb] at h'; cases h'
        · rw [hsb] at h1; cases h1
          simp [Totality.run, Totality.mkFullGrid, show Totality.resolveName true sb = _ from h2, bind, Except.bind]
      · rcases (parse_error_iff oName .o).1 h with h' | ⟨sc, h1, h2⟩
        · rw [hso] at h'; cases h'
        · rw [hso] at h1; cases h1
          have h2' : Totality.resolveName false so = .error .valueError := h2
          cases hrb : Totality.resolveName true sb with
          | error e =>
            rw [Totality.resolveName_err hrb] at hrb
            simp [Totality.run, Totality.mkFullGrid, hrb, bind, Except.bind]
          | ok p =>
            obtain ⟨ab, nB⟩ := p
            rcases (Totality.create4D_cases hrb).2 with hc | ⟨g4, hg4, _⟩
            · simp [Totality.run, Totality.mkFullGrid, hrb, hc, bind, Except.bind]
            · simp [Totality.run, Totality.mkFullGrid, Totality.mkPositionGrid, hrb, hg4, h2', bind, Except.bind]

/-- **(4) `C19.getters_total` for a grid given by names** (C17.parse_total ∘ C19.getters_total).  For EVERY pair of
names (rotation grid, direction grid), every accepted radial grid, both position modes, every getter and every behaviour
of the geometry library (closed cells not in the added outer shell): either the construction raises `ValueError` — in
particular whenever C17's parser rejects one of the names — or (Cartesian mode, qhull itself failed) the library's own
error, or both names are accepted by C17's parser with valid algorithms and sizes `n_b, n_o ≥ 1` and the getter returns
exactly the demanded shape for `n = n_t * n_o * n_b`.  No other exception. -/
theorem getters_total_names (bName oName : List Char) (radii : List Rat) (cart : Bool) (ext : Totality.Ext)
    (g : Totality.Getter) (hr : Totality.RadiiOk radii)
    (hclosed : ∀ a nO, Naming.parse Naming.shipped oName .o = .ok (a, nO) → ∀ i ∈ ext.closed, i < nO * radii.length) :
    runNames bName oName radii cart ext g = .error .valueError
    ∨ (cart = true ∧ (ext.qhullOk = false ∨ ∃ i ∈ ext.closed, i ∈ ext.hullFails)
        ∧ runNames bName oName radii cart ext g = .error .qhullError)
    ∨ ∃ ab nB ao nO, Naming.parse Naming.shipped bName .b = .ok (ab, nB) ∧
        Naming.parse Naming.shipped oName .o = .ok (ao, nO) ∧
        1 ≤ nB ∧ 1 ≤ nO ∧ ab ∈ Naming.shipped.valid .b ∧ ao ∈ Naming.shipped.valid .o ∧
        (nB = 1 ↔ ab = Naming.shipped.zero .b) ∧ (nO = 1 ↔ ao = Naming.shipped.zero .o) ∧
        runNames bName oName radii cart ext g = .ok (Totality.expected g (radii.length * nO * nB)) := by
  cases hsb : scanName bName with
  | error e => left; simp [runNames, hsb]
  | ok sb =>
    cases hso : scanName oName with
    | error e => left; simp [runNames, hsb, hso]
    | ok so =>
      have hrun : runNames bName oName radii cart ext g
          = Totality.run Totality.current ⟨sb, so, radii, cart⟩ ext g := by simp [runNames, hsb, hso]
      rw [hrun]
      have hcl : ∀ a nO, Totality.resolveName false so = .ok (a, nO) → ∀ i ∈ ext.closed, i < nO * radii.length :=
        fun a nO h => hclosed (tokOf a) nO ((parse_ok_iff oName .o _ nO).2 ⟨so, a, hso, h, rfl⟩)
      rcases C19.getters_total ⟨sb, so, radii, cart⟩ ext g hr hcl with h | h | ⟨ab, nB, ao, nO, hb, ho, _, _, hok⟩
      · exact Or.inl h
      · exact Or.inr (Or.inl h)
      · have pb := (parse_ok_iff bName .b (tokOf ab) nB).2 ⟨sb, ab, hsb, hb, rfl⟩
        have po := (parse_ok_iff oName .o (tokOf ao) nO).2 ⟨so, ao, hso, ho, rfl⟩
        rcases C17.parse_total Naming.shipped C17.tablesOk_shipped bName .b with he | ⟨a1, n1, hk1, hn1, hv1, hz1⟩
        · rw [he] at pb; cases pb
        rcases C17.parse_total Naming.shipped C17.tablesOk_shipped oName .o with he | ⟨a2, n2, hk2, hn2, hv2, hz2⟩
        · rw [he] at po; cases po
        rw [pb] at hk1; cases hk1
        rw [po] at hk2; cases hk2
        exact Or.inr (Or.inr ⟨_, _, _, _, pb, po, hn1, hn2, hv1, hv2, hz1, hz2, hok⟩)

/-- **(4, sharp) where each outcome comes from.**  The `ValueError` of `getters_total_names` has exactly two sources: a
name C17's parser rejects, or the rotation algorithm `fulldiv` with a size outside the table (the second alternative of
`C17.factory_accepts_parsed`).  In every other case both factories build (C17 `factory` = C19 `create…`, section 2) and
the getter returns the demanded shape or, in the Cartesian mode when qhull failed, the library's own error. -/
theorem getters_names_cases (bName oName : List Char) (radii : List Rat) (cart : Bool) (ext : Totality.Ext)
    (g : Totality.Getter) (hr : Totality.RadiiOk radii)
    (hclosed : ∀ a nO, Naming.parse Naming.shipped oName .o = .ok (a, nO) → ∀ i ∈ ext.closed, i < nO * radii.length) :
    ((Naming.parse Naming.shipped bName .b = .error .valueError ∨
        Naming.parse Naming.shipped oName .o = .error .valueError) ∧
      runNames bName oName radii cart ext g = .error .valueError)
    ∨ ∃ ab nB ao nO, Naming.parse Naming.shipped bName .b = .ok (tokOf ab, nB) ∧
        Naming.parse Naming.shipped oName .o = .ok (tokOf ao, nO) ∧ 1 ≤ nB ∧ 1 ≤ nO ∧
        Naming.factory .o (tokOf ao) nO = .ok (buildOf ao) ∧
        ((ab = .fulldiv ∧ nB ∉ Naming.fulldivAllowed ∧ Naming.factory .b (tokOf ab) nB = .error .valueError ∧
            runNames bName oName radii cart ext g = .error .valueError)
         ∨ (Naming.factory .b (tokOf ab) nB = .ok (buildOf ab) ∧
            ((cart = true ∧ (ext.qhullOk = false ∨ ∃ i ∈ ext.closed, i ∈ ext.hullFails) ∧
                runNames bName oName radii cart ext g = .error .qhullError)
             ∨ runNames bName oName radii cart ext g
                = .ok (Totality.expected g (radii.length * nO * nB))))) := by
  rcases C17.parse_total Naming.shipped C17.tablesOk_shipped bName .b with he | ⟨a1, nB, pb, _, _, _⟩
  · exact Or.inl ⟨Or.inl he, runNames_of_parse_error _ _ _ _ _ _ (Or.inl he)⟩
  rcases C17.parse_total Naming.shipped C17.tablesOk_shipped oName .o with he | ⟨a2, nO, po, _, _, _⟩
  · exact Or.inl ⟨Or.inr he, runNames_of_parse_error _ _ _ _ _ _ (Or.inr he)⟩
  right
  obtain ⟨sb, ab, hsb, hb, rfl⟩ := (parse_ok_iff bName .b a1 nB).1 pb
  obtain ⟨so, ao, hso, ho, rfl⟩ := (parse_ok_iff oName .o a2 nO).1 po
  have hb' : Totality.resolveName true sb = .ok (ab, nB) := hb
  have ho' : Totality.resolveName false so = .ok (ao, nO) := ho
  have hrun : runNames bName oName radii cart ext g
      = Totality.run Totality.current ⟨sb, so, radii, cart⟩ ext g := by simp [runNames, hsb, hso]
  obtain ⟨a3, ha3, h1o, hfo⟩ := create_accepts_parsed oName .o (tokOf ao) nO po
  have hfo' : Naming.factory .o (tokOf ao) nO = .ok (buildOf ao) := by
    rcases hfo with ⟨hf, _⟩ | ⟨hcontra, _⟩
    · rw [tokOf_injective ha3] at hf; exact hf
    · cases hcontra
  obtain ⟨a4, ha4, h1b, hfb⟩ := create_accepts_parsed bName .b (tokOf ab) nB pb
  have e4 := tokOf_injective ha4
  subst e4
  refine ⟨a4, nB, ao, nO, pb, po, h1b, h1o, hfo', ?_⟩
  rcases hfb with ⟨hf, g4, hg4, _, _⟩ | ⟨_, hfd, hna, hf, hce, _⟩
  · right
    refine ⟨hf, ?_⟩
    have hg4' : Totality.create4D a4 nB = .ok g4 := hg4
    have hgood : Totality.Good4 g4 nB := by
      rcases (Totality.create4D_cases hb').2 with hc | ⟨g', hg', hgood⟩
      · rw [hc] at hg4'; cases hg4'
      · rw [hg'] at hg4'; cases hg4'; exact hgood
    rw [hrun]
    rcases Totality.mkFullGrid_of_resolved (s := ⟨sb, so, radii, cart⟩) hb' hg4' hgood ho' ext hr
      with ⟨hc, hq, h⟩ | ⟨_, fg, hfg, hgoodfg⟩
    · left; exact ⟨hc, Or.inl hq, by simp [Totality.run, h, bind, Except.bind]⟩
    · have hcl : cart = true → ∀ i ∈ ext.closed, i < nO * radii.length := fun _ => hclosed _ _ po
      rcases Totality.getter_cases hgoodfg hr h1b h1o hcl g with hv | ⟨_, hc, hex, hv⟩
      · right; simp [Totality.run, hfg, hv, bind, Except.bind]
      · left; exact ⟨hc, Or.inr hex, by simp [Totality.run, hfg, hv, bind, Except.bind]⟩
  · left
    have hce' : Totality.create4D a4 nB = .error .valueError := hce
    refine ⟨hfd, hna, hf, ?_⟩
    rw [hrun]
    simp [Totality.run, Totality.mkFullGrid, hb', hce', bind, Except.bind]

/-- (4) for bare numbers: `C19.getters_ok_bare` is a statement about the actual names `str(n_b)`, `str(n_o)`. -/
theorem getters_ok_bare_names (nB nO : Nat) (radii : List Rat) (cart : Bool) (ext : Totality.Ext)
    (g : Totality.Getter) (hB : 1 ≤ nB) (hO : 1 ≤ nO) (hr : Totality.RadiiOk radii)
    (hclosed : ∀ i ∈ ext.closed, i < nO * radii.length)
    (hhull : ∀ i ∈ ext.closed, ¬ i ∈ ext.hullFails) :
    runNames (Naming.natStr nB) (Naming.natStr nO) radii cart ext g =
      if cart = true ∧ ext.qhullOk = false then .error .qhullError
      else .ok (Totality.expected g (radii.length * nO * nB)) := by
  have : runNames (Naming.natStr nB) (Naming.natStr nO) radii cart ext g
      = Totality.run Totality.current ⟨.bare nB, .bare nO, radii, cart⟩ ext g := by
    simp [runNames, scanName_natStr]
  rw [this]
  exact C19.getters_ok_bare nB nO radii cart ext g hB hO hr hclosed hhull

/-! ### witnesses (finite, labelled as such; non-vacuity of the hypotheses above) -/

/-- the scan of concrete names, and a name on which the scan itself raises (two numbers) -/
theorem scan_witnesses :
    scanName ['i','c','o','_','7'] = .ok ⟨false, some .ico, some 7⟩ ∧
    scanName ['1','2','_','r','a','n','d','o','m','Q'] = .ok ⟨false, some .randomQ, some 12⟩ ∧
    scanName ['z','e','r','o'] = .ok ⟨true, none, none⟩ ∧
    scanName ['a','b','c'] = .ok ⟨false, none, none⟩ ∧
    scanName ['i','c','o','_','7','_','8'] = .error .valueError ∧
    scanName ['i','c','o','_','7','_','3','d'] = .error .valueError := by decide +kernel

/-- hypotheses of `getters_total_names` / `getters_names_cases` on a concrete input (`cube4D_8`, `ico_5`, radii 1, 2,
Cartesian mode, qhull reports the cells 0, 3, 9 closed) -/
example : Totality.RadiiOk [1, 2] ∧
    ∀ a nO, Naming.parse Naming.shipped ['i','c','o','_','5'] .o = .ok (a, nO) →
      ∀ i ∈ (⟨true, [0, 3, 9], []⟩ : Totality.Ext).closed, i < nO * ([1, 2] : List Rat).length := by
  refine ⟨by decide, ?_⟩
  intro a nO h i hi
  have : Naming.parse Naming.shipped ['i','c','o','_','5'] .o = .ok (['i','c','o'], 5) := by decide +kernel
  rw [this] at h; cases h
  simp at hi; rcases hi with rfl | rfl | rfl <;> simp

/-- the four outcomes of `getters_names_cases` on the model, from names: a rejected name, `fulldiv` with a size outside
the table, the library's error (two directions, Cartesian mode), and the demanded shapes (8 · 5 · 2 = 80 cells;
the cell model switches at `N = 4`: `3`/`zero` are below, `cube4D_8`/`ico_5` above). -/
theorem names_witnesses :
    runNames ['i','c','o'] ['i','c','o','_','5'] [1, 2] false (Totality.defaultExt 5) .array = .error .valueError ∧
    runNames ['f','u','l','l','d','i','v','_','9'] ['i','c','o','_','5'] [1, 2] false (Totality.defaultExt 5) .array
      = .error .valueError ∧
    runNames ['3'] ['c','u','b','e','3','D','_','2'] [1, 2] true (Totality.defaultExt 2) .volumes
      = .error .qhullError ∧
    [Totality.Getter.array, .volumes, .adjacency, .borders, .distances].map
        (runNames ['c','u','b','e','4','D','_','8'] ['i','c','o','_','5'] [1, 2] false (Totality.defaultExt 5))
      = [.ok (.mat 80 7), .ok (.vec 80), .ok (.mat 80 80), .ok (.mat 80 80), .ok (.mat 80 80)] ∧
    [Totality.Getter.array, .volumes, .adjacency].map
        (runNames ['f','u','l','l','d','i','v','_','8'] ['z','e','r','o'] [1, 2, 3] false (Totality.defaultExt 1))
      = [.ok (.mat 24 7), .ok (.vec 24), .ok (.mat 24 24)] := by
  decide +kernel

end Molgri.Bridge.Names
