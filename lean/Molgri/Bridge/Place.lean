/-
Bridge E (1) — the rigid placement of C10 and the rigid placement of C11 are ONE model.

* C10  `Molgri.Rigid`  (`rotMat`, `Mat3.mulVec`, `com`, `placeAtom`, `place`, the generator's
                        `translate r.t (rotate (rotMat r.q) (com start) start)`), polymorphic in the scalar;
* C11  `Molgri.Assign` (`rotMat`, `rotH`, `M3.mulVec`, `centerOfMass`, `rigid`), written over `ℚ`.

C11's model exists at `ℚ` only, so the common generality is `ℚ` (C10's definitions instantiated at `K := ℚ`, which is
also the instance both drivers execute).  All statements hold for ALL inputs, including the zero quaternion and a
vanishing total mass (both sides then divide by zero in the same way).
-/
import Molgri.Props.C10
import Molgri.Props.C11

namespace Molgri.Bridge.Place
open Molgri

/-! ### the two vector / quaternion / matrix types carry the same data -/

def v3 (v : Rigid.V3 Rat) : Assign.V3 := ⟨v.x, v.y, v.z⟩
def q4 (q : Rigid.Quat Rat) : Assign.Q4 := ⟨q.x, q.y, q.z, q.w⟩
def m3 (M : Rigid.Mat3 Rat) : Assign.M3 := ⟨v3 M.r0, v3 M.r1, v3 M.r2⟩

def v3' (v : Assign.V3) : Rigid.V3 Rat := ⟨v.x, v.y, v.z⟩
def q4' (q : Assign.Q4) : Rigid.Quat Rat := ⟨q.x, q.y, q.z, q.w⟩
def m3' (M : Assign.M3) : Rigid.Mat3 Rat := ⟨v3' M.r0, v3' M.r1, v3' M.r2⟩

/-- the conversions are mutually inverse bijections (so every statement below can be read in either direction). -/
theorem conversions_inverse :
    (∀ v, v3' (v3 v) = v) ∧ (∀ v, v3 (v3' v) = v) ∧ (∀ q, q4' (q4 q) = q) ∧ (∀ q, q4 (q4' q) = q) ∧
    (∀ M, m3' (m3 M) = M) ∧ (∀ M, m3 (m3' M) = M) :=
  ⟨fun _ => rfl, fun _ => rfl, fun _ => rfl, fun _ => rfl, fun _ => rfl, fun _ => rfl⟩

/-! ### vector and matrix operations -/

theorem add_eq (a b : Rigid.V3 Rat) : v3 (a.add b) = Assign.V3.add (v3 a) (v3 b) := rfl
theorem sub_eq (a b : Rigid.V3 Rat) : v3 (a.sub b) = Assign.V3.sub (v3 a) (v3 b) := rfl
theorem dot_eq (a b : Rigid.V3 Rat) : a.dot b = Assign.V3.dot (v3 a) (v3 b) := rfl
theorem normSq_v_eq (a : Rigid.V3 Rat) : a.normSq = Assign.V3.normSq (v3 a) := rfl
theorem smul_eq (s : Rat) (a : Rigid.V3 Rat) : v3 (Rigid.V3.smul s a) = Assign.V3.smul s (v3 a) := rfl
theorem mulVec_eq (M : Rigid.Mat3 Rat) (v : Rigid.V3 Rat) : v3 (M.mulVec v) = Assign.M3.mulVec (m3 M) (v3 v) := rfl
theorem transpose_eq (M : Rigid.Mat3 Rat) : m3 M.transpose = Assign.M3.transpose (m3 M) := rfl
theorem det_eq (M : Rigid.Mat3 Rat) : M.det = Assign.M3.det (m3 M) := rfl

/-- the row-vector product `np.dot(x, R.T)` the generator performs is C11's matrix–vector product. -/
theorem vecMul_transpose_eq (v : Rigid.V3 Rat) (M : Rigid.Mat3 Rat) :
    v3 (Rigid.vecMul v M.transpose) = Assign.M3.mulVec (m3 M) (v3 v) := by
  rw [Rigid.vecMul_transpose]; rfl

/-! ### the quaternion → matrix map -/

theorem normSq_eq (q : Rigid.Quat Rat) : Assign.Q4.normSq (q4 q) = q.normSq := rfl

/-- **One rotation matrix.**  C10's `rotMat` (entries divided by `|q|²`) and C11's `rotMat` (`(1/|q|²) · rotH q`) are
the same matrix for EVERY quaternion — unit, non-unit or zero: same scalar-last convention, same normalisation. -/
theorem rotMat_eq (q : Rigid.Quat Rat) : m3 (Rigid.rotMat q) = Assign.rotMat (q4 q) := by
  obtain ⟨x, y, z, w⟩ := q
  simp only [m3, v3, q4, Rigid.rotMat, Rigid.Quat.normSq, Rigid.dbl, Assign.rotMat, Assign.rotH, Assign.M3.smul,
    Assign.V3.smul, Assign.Q4.normSq, Assign.Q4.dot, Assign.M3.mk.injEq, Assign.V3.mk.injEq]
  refine ⟨⟨?_, ?_, ?_⟩, ⟨?_, ?_, ?_⟩, ⟨?_, ?_, ?_⟩⟩ <;> ring

/-- the same read from C11's side. -/
theorem rotMat_eq' (p : Assign.Q4) : Assign.rotMat p = m3 (Rigid.rotMat (q4' p)) := (rotMat_eq (q4' p)).symm

/-- the homogeneous matrices agree as well: C10's `rotNum` is C11's `rotH`. -/
theorem rotNum_eq (q : Rigid.Quat Rat) : m3 (Rigid.rotNum q) = Assign.rotH (q4 q) := by
  obtain ⟨x, y, z, w⟩ := q
  simp only [m3, v3, q4, Rigid.rotNum, Rigid.dbl, Assign.rotH, Assign.M3.mk.injEq, Assign.V3.mk.injEq]
  refine ⟨⟨?_, ?_, ?_⟩, ⟨?_, ?_, ?_⟩, ⟨?_, ?_, ?_⟩⟩ <;> ring

/-! ### centre of mass -/

theorem foldl_moment (as : List (Rigid.Atom Rat)) (acc : Assign.V3) :
    (List.zipWith (fun m p => Assign.V3.smul m p) (as.map (·.mass)) (as.map fun a => v3 a.pos)).foldl Assign.V3.add acc
      = Assign.V3.add acc (v3 (Rigid.massMoment as)) := by
  induction as generalizing acc with
  | nil => simp [Rigid.massMoment, v3, Assign.V3.add]
  | cons a as ih =>
    simp only [List.map_cons, List.zipWith_cons_cons, List.foldl_cons, ih]
    simp only [Rigid.massMoment, v3, Assign.V3.add, Assign.V3.smul, List.map_cons, List.sum_cons, Assign.V3.mk.injEq]
    refine ⟨?_, ?_, ?_⟩ <;> ring

/-- **One centre of mass.**  MDAnalysis' `center_of_mass()` as modelled by C10 (`Σ mᵢxᵢ / Σ mᵢ` by component) and by C11
(a left fold over `zip(masses, positions)`) agree for EVERY molecule (any atom count, any masses). -/
theorem com_eq (as : List (Rigid.Atom Rat)) :
    v3 (Rigid.com as) = Assign.centerOfMass (as.map (·.mass)) (as.map fun a => v3 a.pos) := by
  unfold Assign.centerOfMass
  simp only [foldl_moment]
  simp only [Rigid.com, Rigid.totalMass, v3, Assign.V3.add, zero_add]

/-! ### the placement -/

/-- translation part of the placement `x ↦ R(q)(x − c) + c + t` written as `x ↦ R(q) x + T`. -/
def shiftOf (c : Rigid.V3 Rat) (r : Rigid.Row Rat) : Assign.V3 :=
  v3 ((c.sub ((Rigid.rotMat r.q).mulVec c)).add r.t)

/-- **One placement, atom by atom.**  C10's prescribed position of an atom (rotation about `c`, then the row's
translation) is C11's rigid motion `rigid (rotMat q) T` with `T = c − R(q)c + t`. -/
theorem placeAtom_eq_rigid (c : Rigid.V3 Rat) (r : Rigid.Row Rat) (a : Rigid.Atom Rat) :
    v3 (Rigid.placeAtom c r a).pos = Assign.rigid (Assign.rotMat (q4 r.q)) (shiftOf c r) (v3 a.pos) := by
  rw [Rigid.placeAtom_affine, ← rotMat_eq]
  rfl

/-- **One placement, whole molecule.**  The positions of `place start r` are the image of the positions of `start`
under C11's `rigid`, with C11's rotation matrix of the row's quaternion; masses, names and order are untouched. -/
theorem place_eq_rigid (start : List (Rigid.Atom Rat)) (r : Rigid.Row Rat) :
    (Rigid.place start r).map (fun a => v3 a.pos)
      = (start.map fun a => v3 a.pos).map (Assign.rigid (Assign.rotMat (q4 r.q)) (shiftOf (Rigid.com start) r)) ∧
    (Rigid.place start r).map (·.mass) = start.map (·.mass) := by
  constructor
  · simp only [Rigid.place, List.map_map]
    apply List.map_congr_left
    intro a _
    exact placeAtom_eq_rigid _ r a
  · simp [Rigid.place, Rigid.placeAtom, Rigid.Atom.setPos, List.map_map, Function.comp_def]

/-- … and that is what the generator's loop body computes (`rotate` about the centre of mass with `R.T` from the right,
then `translate`): the code path of C10, in C11's vocabulary. -/
theorem generator_step_eq_rigid (start : List (Rigid.Atom Rat)) (r : Rigid.Row Rat) :
    (Rigid.translate r.t (Rigid.rotate (Rigid.rotMat r.q) (Rigid.com start) start)).map (fun a => v3 a.pos)
      = (start.map fun a => v3 a.pos).map (Assign.rigid (Assign.rotMat (q4 r.q)) (shiftOf (Rigid.com start) r)) := by
  rw [Rigid.step_eq_place]; exact (place_eq_rigid start r).1

/-- C11's `rigid` applied to the centre of mass: the placed centre of mass is `com + t` (C10's `com_placed`, here
without the hypothesis on the total mass, because it is a statement about the map, not about the placed atoms). -/
theorem rigid_com (c : Rigid.V3 Rat) (r : Rigid.Row Rat) :
    Assign.rigid (Assign.rotMat (q4 r.q)) (shiftOf c r) (v3 c) = v3 (c.add r.t) := by
  rw [← rotMat_eq]
  simp only [Assign.rigid, shiftOf, v3, m3, Assign.V3.add, Assign.M3.mulVec, Assign.V3.dot, Rigid.V3.add, Rigid.V3.sub,
    Rigid.Mat3.mulVec, Rigid.V3.dot, Assign.V3.mk.injEq]
  refine ⟨?_, ?_, ?_⟩ <;> ring

/-- **C10's `com_placed` and C11's `center_of_mass_rigid` are one statement**: for a molecule with non-zero total mass
the centre of mass of the placed molecule, computed by C11's `centerOfMass`, is C10's `com start + t`. -/
theorem com_placed_eq (start : List (Rigid.Atom Rat)) (r : Rigid.Row Rat) (hM : Rigid.totalMass start ≠ 0) :
    Assign.centerOfMass (start.map (·.mass)) ((Rigid.place start r).map fun a => v3 a.pos)
      = v3 ((Rigid.com start).add r.t) := by
  rw [(place_eq_rigid start r).1,
    Molgri.C11.center_of_mass_rigid _ _ _ _ (by simp) (by simpa [Rigid.totalMass] using hM), ← com_eq, rigid_com]

/-- the same fact obtained from C10's theorem instead (the two properties prove the same thing). -/
theorem com_placed_eq_from_c10 (start : List (Rigid.Atom Rat)) (r : Rigid.Row Rat) (hM : Rigid.totalMass start ≠ 0) :
    Assign.centerOfMass (start.map (·.mass)) ((Rigid.place start r).map fun a => v3 a.pos)
      = v3 ((Rigid.com start).add r.t) := by
  have h := com_eq (Rigid.place start r)
  rw [(place_eq_rigid start r).2] at h
  rw [← h, Molgri.C10.com_placed start r hM]

/-! ### C10's rotation theorems, read for C11's matrix -/

/-- C11's `rotMat_orthogonal` / `det_rotMat` hypotheses-free counterpart from C10: the matrix C11 assigns with is the
conjugation `v ↦ q v q̄ / |q|²` of the Hamilton product (scalar last), a proper rotation. -/
theorem assign_rotMat_is_rotation (p : Assign.Q4) (hp : Assign.Q4.normSq p ≠ 0) :
    Assign.M3.det (Assign.rotMat p) = 1 ∧
    (∀ u v : Assign.V3, Assign.V3.dot (Assign.M3.mulVec (Assign.rotMat p) u) (Assign.M3.mulVec (Assign.rotMat p) v)
        = Assign.V3.dot u v) ∧
    (∀ v : Assign.V3, ((q4' p).mul (Rigid.Quat.ofVec (v3' v))).mul (q4' p).conj
        = Rigid.Quat.smul (Assign.Q4.normSq p) (Rigid.Quat.ofVec (v3' (Assign.M3.mulVec (Assign.rotMat p) v)))) := by
  have hq : (q4' p).normSq ≠ 0 := hp
  refine ⟨?_, ?_, ?_⟩
  · rw [rotMat_eq', ← det_eq]; exact Molgri.C10.R_det_one _ hq
  · intro u v
    rw [rotMat_eq']
    exact Molgri.C10.R_dot (q4' p) (v3' u) (v3' v) hq
  · intro v
    rw [rotMat_eq']
    exact Molgri.C10.R_is_conjugation (q4' p) (v3' v) hq

end Molgri.Bridge.Place
