/-
Bridge A — node counts of the hypercube and the `fulldiv` table, for every offset table.

C07 has the counts of ITS lattice lists by kernel evaluation (`hypercube_counts_table`: 16, 80, 544, 4160) and says that
`fulldiv` accepts `N ∈ {8, 40, 272, 2080}` because "the half-hypercube has exactly `N` nodes"; C08 lists
"`fulldiv_N` succeeds: the half selection after 0,1,2,3 subdivisions has exactly N rows" as OPEN; C18's subdivision model
is far too expensive to evaluate at level 3.  With `Bridge/PolyLattice.lean` (C18's node list is a rearrangement of
C07's lattice list) and `Bridge/PolyDistinct.lean` (the half selections agree; exactly one of each antipodal pair) the
counts transfer to the subdivision model: after 0, 1, 2, 3 divisions the hypercube has 16, 80, 544, 4160 nodes and
`get_half_of_hypercube()` returns 8, 40, 272, 2080 rows — for every family of permutations `σ`.
-/
import Molgri.Bridge.PolyDistinct
import Molgri.Bridge.PolyLattice

namespace Molgri.Bridge.PolyCounts
open Molgri.Bridge.PolyKey Molgri.Bridge.PolyDistinct Molgri.Bridge.PolyLattice

/-- the hypercube after `k+1` divisions has as many nodes as C07's lattice `‖q‖∞ = 2^k` has points (every level). -/
theorem hypercube_node_count_succ (σ : Nat → Nat → Nat → Nat) (k : Nat) :
    (Molgri.Polytope.iter σ .cube4 (k + 1)).nodes.length = (Molgri.Hemi.cubeLattice 4 (2 ^ k)).length := by
  have := (cube_nodes_perm_hemi_lattice σ .cube4 (Or.inr rfl) k).length_eq
  rw [List.length_map, List.length_map] at this
  exact this

/-- node counts of the hypercube polytope after 0, 1, 2, 3 divisions, for every offset table `σ`. -/
theorem hypercube_node_counts (σ : Nat → Nat → Nat → Nat) :
    (Molgri.Polytope.iter σ .cube4 0).nodes.length = 16 ∧ (Molgri.Polytope.iter σ .cube4 1).nodes.length = 80 ∧
    (Molgri.Polytope.iter σ .cube4 2).nodes.length = 544 ∧ (Molgri.Polytope.iter σ .cube4 3).nodes.length = 4160 := by
  obtain ⟨h0, h1, h2, h4, _⟩ := Molgri.C07.hypercube_counts_table
  refine ⟨?_, ?_, ?_, ?_⟩
  · have := (cube_nodes_perm_hemi_vertices σ .cube4 (Or.inr rfl)).length_eq
    rw [List.length_map] at this
    rw [this]; exact h0
  · rw [hypercube_node_count_succ σ 0]; exact h1
  · rw [hypercube_node_count_succ σ 1]; exact h2
  · rw [hypercube_node_count_succ σ 2]; exact h4

/-- the half selection has exactly half of the nodes (every level, every family of permutations). -/
theorem half_length (σ : Nat → Nat → Nat → Nat) (hσ : Molgri.Polytope.PermFam σ) (k : Nat)
    (half : List Molgri.Polytope.Node) (hh : Molgri.Polytope.getHalf (Molgri.Polytope.iter σ .cube4 k) none = .ok half) :
    2 * half.length = (Molgri.Polytope.iter σ .cube4 k).nodes.length := by
  obtain ⟨rows, half', hr, hh', heq⟩ := half_selection_agrees (K := ℚ) σ hσ k 1 zero_lt_one
  rw [hh] at hh'
  obtain rfl := Except.ok.inj hh'
  have h := (hypercube_rotations_distinct_every_level (K := ℚ) σ k rows hr 1 zero_lt_one id
    (fun p _ => ⟨1, zero_lt_one, (Molgri.Hemi.scale_one p).symm⟩) 0 (Nat.zero_le _)).2.2.2
  rw [← heq, List.length_map] at h
  rw [h, getNodes_none _ rows hr, (Molgri.Polytope.sortByIdx_perm _).length_eq]

/-- **The `fulldiv` table is the table of half-hypercube sizes**: after 0, 1, 2, 3 divisions `get_half_of_hypercube()`
returns exactly 8, 40, 272, 2080 rows (the values `FullDivCube4DRotations` accepts), for every family of permutations. -/
theorem fulldiv_half_counts (σ : Nat → Nat → Nat → Nat) (hσ : Molgri.Polytope.PermFam σ) :
    ∀ L N, (L, N) ∈ [(0, 8), (1, 40), (2, 272), (3, 2080)] →
      ∃ half, Molgri.Polytope.getHalf (Molgri.Polytope.iter σ .cube4 L) none = .ok half ∧ half.length = N := by
  intro L N hLN
  obtain ⟨c0, c1, c2, c3⟩ := hypercube_node_counts σ
  have hget := fun L => Molgri.Polytope.getHalf_eq (Molgri.C18.good_iter σ hσ .cube4 L)
  simp only [List.mem_cons, Prod.mk.injEq, List.not_mem_nil, or_false] at hLN
  rcases hLN with ⟨rfl, rfl⟩ | ⟨rfl, rfl⟩ | ⟨rfl, rfl⟩ | ⟨rfl, rfl⟩
  · refine ⟨_, hget 0, ?_⟩
    have := half_length σ hσ 0 _ (hget 0); omega
  · refine ⟨_, hget 1, ?_⟩
    have := half_length σ hσ 1 _ (hget 1); omega
  · refine ⟨_, hget 2, ?_⟩
    have := half_length σ hσ 2 _ (hget 2); omega
  · refine ⟨_, hget 3, ?_⟩
    have := half_length σ hσ 3 _ (hget 3); omega

end Molgri.Bridge.PolyCounts
