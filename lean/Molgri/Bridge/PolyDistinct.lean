/-
Bridge A, part 2 — C07's distinctness theorems with their lattice hypotheses discharged by C18, for every level.

C07 (`Props/C07.lean`) proves "the first `N` projected rows are pairwise distinct" (`polytope_rows_distinct`) and "no
two rows represent the same rotation" (`half_rows_distinct_rotations`) for ANY node list `P` that is duplicate-free,
lies on one level set of a positively homogeneous gauge and (for rotations) is closed under negation.  For the cube
lattices C07 discharges these facts from its own lattice list; for the icosahedron it has a kernel table up to level 2
and says "all levels follow from C18 as a hypothesis".  Here the node list is the one the subdivision model of C18
produces — `getNodes (iter σ kind k) none`, the rows of `get_nodes()` in central-index order — and the facts are C18's
theorems `ico_nodes_eq_lattice`, `ico_nodes_nodup`, `cube_nodes_eq_lattice`, `cube_nodes_nodup`,
`cube_nodes_neg_closed`: every level `k`, every offset table `σ`, every `N`.

The rows are taken over any ordered field `K` (for the icosahedron with a golden ratio `φ : K`, `φ² = φ + 1`, `0 < φ`)
in any positive multiple `c` of C18's unit: `c = 1` is C07's convention ("units of the node spacing"),
`c = (2^k)⁻¹` gives the level-independent keys of `Bridge/PolyHistory.lean`.
-/
import Molgri.Bridge.PolyKey

set_option linter.unusedSectionVars false

namespace Molgri.Bridge.PolyDistinct
open Molgri.Bridge.PolyKey
open Molgri.Polytope (Pt Kind St Node)
open Molgri.Hemi (scale castPt)

variable {K : Type} [Field K] [LinearOrder K] [IsStrictOrderedRing K]

/-- the rows of C18's `get_nodes()` as points over `K`, in `c` times C18's unit. -/
def rowsK (φ : K) (kind : Kind) (c : K) (rows : List Node) : List (List K) :=
  rows.map (fun nd => scale c (toK φ kind nd.pt))

theorem getNodes_none (s : St) (rows : List Node) (h : Molgri.Polytope.getNodes s none = .ok rows) :
    rows = Molgri.Polytope.sortByIdx s.nodes := (Except.ok.inj h).symm

/-- What C18 proves about the rows of `get_nodes()` at level `k`, in the form C07's theorems ask for: the rows are a
rearrangement of the node list, duplicate-free, and all on one level set (`c · 2^k · r₀ > 0`) of the class's gauge. -/
theorem rows_facts (σ : Nat → Nat → Nat → Nat) (φ : K) (hφ : φ * φ = φ + 1) (hφ0 : 0 < φ) (kind : Kind) (k : Nat)
    (rows : List Node) (hrows : Molgri.Polytope.getNodes (Molgri.Polytope.iter σ kind k) none = .ok rows)
    (c : K) (hc : 0 < c) :
    rows.Perm (Molgri.Polytope.iter σ kind k).nodes ∧ (rowsK φ kind c rows).Nodup ∧
    0 < c * ((2 : K) ^ k * radiusFor φ kind) ∧
    ∀ q ∈ rowsK φ kind c rows, gaugeFor φ kind q = c * ((2 : K) ^ k * radiusFor φ kind) := by
  have hperm : rows.Perm (Molgri.Polytope.iter σ kind k).nodes := by
    rw [getNodes_none _ rows hrows]; exact Molgri.Polytope.sortByIdx_perm _
  have hlat : ∀ nd ∈ rows, LatOf kind k nd.pt := by
    intro nd hnd
    exact (iter_nodes_lat σ kind k nd.pt).mp (List.mem_map_of_mem (hperm.subset hnd))
  refine ⟨hperm, ?_, ?_, ?_⟩
  · have hnd : (rows.map (·.pt)).Nodup := ((hperm.map _).nodup_iff).mpr (iter_nodes_nodup σ kind k)
    have : rowsK φ kind c rows = (rows.map (·.pt)).map (fun p => scale c (toK φ kind p)) := by
      unfold rowsK; rw [List.map_map]; rfl
    rw [this]
    apply List.Nodup.map_on _ hnd
    intro p hp q hq h
    obtain ⟨nd, hnd', rfl⟩ := List.mem_map.mp hp
    obtain ⟨nd2, hnd2, rfl⟩ := List.mem_map.mp hq
    exact toK_inj φ hφ kind (latOf_len (hlat nd hnd')) (latOf_len (hlat nd2 hnd2)) (scale_inj (ne_of_gt hc) h)
  · exact mul_pos hc (mul_pos (two_pow_pos k) (radiusFor_pos φ hφ0 kind))
  · intro q hq
    obtain ⟨nd, hnd, rfl⟩ := List.mem_map.mp hq
    rw [gaugeFor_homogeneous φ kind c hc, toK_on_surface φ hφ hφ0 kind k (hlat nd hnd)]

theorem radialOn_of_radial {proj : List K → List K} (hproj : Radial proj) {g : List K → K}
    (hg : Molgri.Hemi.Homogeneous g) {P : List (List K)} {r : K} (hr : 0 < r) (hP : ∀ p ∈ P, g p = r) :
    Molgri.Hemi.RadialOn proj P :=
  fun p hp => hproj p (nonZero_of_gauge_pos hg (by rw [hP p hp]; exact hr))

/-- **C07 `polytope_rows_distinct` for the node lists of C18, every class, every level.**  The first `N` projected rows
of `get_nodes()` are `N` pairwise different points (cube, hypercube, icosahedron; every number of divisions `k`; every
offset table `σ`, i.e. every shuffle; every `N` up to the node count).  The lattice facts are C18's theorems, no
longer hypotheses; the normalisation only has to scale every non-zero vector by a positive factor. -/
theorem rows_distinct_every_level (σ : Nat → Nat → Nat → Nat) (φ : K) (hφ : φ * φ = φ + 1) (hφ0 : 0 < φ)
    (kind : Kind) (k : Nat) (rows : List Node)
    (hrows : Molgri.Polytope.getNodes (Molgri.Polytope.iter σ kind k) none = .ok rows) (c : K) (hc : 0 < c)
    (proj : List K → List K) (hproj : Radial proj) (N : Nat) (hN : N ≤ rows.length) :
    Molgri.Hemi.getNodes ((rowsK φ kind c rows).map proj) (some N) = .ok (((rowsK φ kind c rows).take N).map proj) ∧
    (((rowsK φ kind c rows).take N).map proj).length = N ∧ (((rowsK φ kind c rows).take N).map proj).Nodup := by
  obtain ⟨_, hnd, hr, hP⟩ := rows_facts σ φ hφ hφ0 kind k rows hrows c hc
  exact Molgri.C07.polytope_rows_distinct (gaugeFor φ kind) (gaugeFor_homogeneous φ kind) _ _ hr hP hnd proj
    (radialOn_of_radial hproj (gaugeFor_homogeneous φ kind) hr hP) N (by simpa [rowsK] using hN)

/-- **The icosahedron, every level** (replaces the level-≤2 kernel table `ico_exact_levels_table_partial` and its OPEN
clause): the first `N` normalised nodes of the icosahedron polytope after `k` divisions are pairwise distinct, in C07's
unit (node coordinates `a + bφ` of C18's exact model). -/
theorem ico_rows_distinct_every_level (σ : Nat → Nat → Nat → Nat) (φ : K) (hφ : φ * φ = φ + 1) (hφ0 : 0 < φ) (k : Nat)
    (rows : List Node) (hrows : Molgri.Polytope.getNodes (Molgri.Polytope.iter σ .ico k) none = .ok rows)
    (proj : List K → List K) (hproj : Radial proj) (N : Nat) (hN : N ≤ rows.length) :
    let P := rows.map (fun nd => toK φ .ico nd.pt)
    Molgri.Hemi.getNodes (P.map proj) (some N) = .ok ((P.take N).map proj) ∧
    ((P.take N).map proj).length = N ∧ ((P.take N).map proj).Nodup := by
  intro P
  have h := rows_distinct_every_level σ φ hφ hφ0 .ico k rows hrows 1 zero_lt_one proj hproj N hN
  have hP : rowsK φ .ico 1 rows = P := by
    unfold rowsK
    apply List.map_congr_left
    intro nd _
    exact Molgri.Hemi.scale_one _
  rwa [hP] at h

/-- The hypothesis under which C07 stated the icosahedron claim ("every node lies on the same level set `2^L·g₀` of the
gauge `max_f (n_f · p)` of the 20 faces", checked by `IcoExact.onSurface` for `L ≤ 2`), now for every level: C07's
gauge takes the value `2^k · (2 + 3φ)` at every node of C18's icosahedron after `k` divisions. -/
theorem ico_on_surface_every_level (σ : Nat → Nat → Nat → Nat) (φ : K) (hφ : φ * φ = φ + 1) (hφ0 : 0 < φ) (k : Nat)
    (nd : Node) (hnd : nd ∈ (Molgri.Polytope.iter σ .ico k).nodes) :
    Molgri.Hemi.gaugeOf (Molgri.IcoExact.normals.map (List.map (evalφ φ))) (toK φ .ico nd.pt) =
      (2 : K) ^ k * (2 + 3 * φ) :=
  latI_gauge φ hφ hφ0 ((Molgri.C18.ico_nodes_eq_lattice σ k nd.pt).mp (List.mem_map_of_mem hnd))

/-- **Cube and hypercube, every level, from C18's node list** (C07's `cube_lattice_rows_distinct` takes the lattice
facts about its own list as hypotheses `hnd`, `hL`): the first `N` normalised nodes are pairwise distinct. -/
theorem cube_rows_distinct_every_level (σ : Nat → Nat → Nat → Nat) (kind : Kind) (hk : kind = .cube3 ∨ kind = .cube4)
    (k : Nat) (rows : List Node) (hrows : Molgri.Polytope.getNodes (Molgri.Polytope.iter σ kind k) none = .ok rows)
    (proj : List K → List K) (hproj : Molgri.Hemi.RadialOn proj ((rows.map (·.pt)).map castPt)) (N : Nat)
    (hN : N ≤ rows.length) :
    let P : List (List K) := (rows.map (·.pt)).map castPt
    Molgri.Hemi.getNodes (P.map proj) (some N) = .ok ((P.take N).map proj) ∧
    ((P.take N).map proj).length = N ∧ ((P.take N).map proj).Nodup := by
  intro P
  have hperm : rows.Perm (Molgri.Polytope.iter σ kind k).nodes := by
    rw [getNodes_none _ rows hrows]; exact Molgri.Polytope.sortByIdx_perm _
  have hnd : (rows.map (·.pt)).Nodup :=
    ((hperm.map _).nodup_iff).mpr (Molgri.C18.cube_nodes_nodup σ kind hk k)
  have hL : ∀ p ∈ rows.map (·.pt), Molgri.Hemi.supNorm p = ((2 ^ k : Nat) : Int) := by
    intro p hp
    have hp' : p ∈ (Molgri.Polytope.iter σ kind k).nodes.map (·.pt) := (hperm.map _).subset hp
    rw [lat_supNorm ((Molgri.C18.cube_nodes_eq_lattice σ kind hk k p).mp hp') (by positivity)]
    push_cast; rfl
  exact Molgri.C07.cube_lattice_rows_distinct (2 ^ k) (Nat.pos_of_ne_zero (by positivity)) (rows.map (·.pt)) hnd hL
    proj hproj N (by simpa using hN)

/-! ### the half selection of the hypercube: C18's `get_half_of_hypercube` is C07's filter -/

theorem upperRec_cast : ∀ p : Pt, Molgri.Hemi.upperRec (0 : K) (castPt p) = Molgri.Polytope.upperRec p
  | [] => rfl
  | x :: t => by
    have ih := upperRec_cast t
    simp only [castPt, List.map_cons, Molgri.Hemi.upperRec, Molgri.Polytope.upperRec] at ih ⊢
    rw [ih]
    by_cases h1 : 0 < x
    · have : (0 : K) < (x : K) := by exact_mod_cast h1
      simp [h1, this]
    · have h1' : ¬ (0 : K) < (x : K) := by exact_mod_cast h1
      by_cases h2 : x = 0
      · subst h2
        simp [Molgri.Hemi.small]
      · have h3 : Molgri.Hemi.small (0 : K) (x : K) = false := by
          rw [Bool.eq_false_iff, ne_eq, Molgri.Hemi.small_zero_iff]
          exact_mod_cast h2
        simp [h1, h1', h2, h3]

/-- the two models' hemisphere tests agree on exact nodes: C07's `upper 0` (any positive multiple of the node) is C18's
`inUpper`. -/
theorem upper_cast (c : K) (hc : 0 < c) (p : Pt) :
    Molgri.Hemi.upper (0 : K) (scale c (castPt p)) = Molgri.Polytope.inUpper p := by
  rw [Molgri.Hemi.upper_scale_of_gap (le_refl 0) hc (Molgri.Hemi.gap_zero _), Molgri.Hemi.upper_eq_rec, upperRec_cast,
    Molgri.Polytope.inUpper_eq_upperRec]

/-- **The half selections of C18 and C07 are the same rows**: for every family of permutations `σ` and every level,
the rows C18's `get_half_of_hypercube()` returns are, as points over `K`, exactly the rows of `get_nodes()` that pass
C07's test `upper 0` — the list C07's `selectHalf_all` / `half_rows_distinct_rotations` talk about. -/
theorem half_selection_agrees (σ : Nat → Nat → Nat → Nat) (hσ : Molgri.Polytope.PermFam σ) (k : Nat) (c : K)
    (hc : 0 < c) :
    ∃ rows half, Molgri.Polytope.getNodes (Molgri.Polytope.iter σ .cube4 k) none = .ok rows ∧
      Molgri.Polytope.getHalf (Molgri.Polytope.iter σ .cube4 k) none = .ok half ∧
      half.map (fun nd => scale c (castPt nd.pt)) =
        (rows.map (fun nd => scale c (castPt (K := K) nd.pt))).filter (Molgri.Hemi.upper 0) := by
  refine ⟨_, _, rfl, Molgri.Polytope.getHalf_eq (Molgri.C18.good_iter σ hσ .cube4 k), ?_⟩
  rw [List.filter_map]
  congr 1
  apply List.filter_congr
  intro nd _
  exact (upper_cast c hc nd.pt).symm

/-- **C07 `half_rows_distinct_rotations` for the hypercube of C18, every level**: the first `N` canonical nodes,
normalised, are `N` rows that are pairwise neither equal nor antipodal (no two represent the same rotation), all in the
canonical half; and the canonical nodes are exactly half of all nodes.  Duplicate-freeness, the level set and the
closure under negation are C18's theorems. -/
theorem hypercube_rotations_distinct_every_level (σ : Nat → Nat → Nat → Nat) (k : Nat) (rows : List Node)
    (hrows : Molgri.Polytope.getNodes (Molgri.Polytope.iter σ .cube4 k) none = .ok rows) (c : K) (hc : 0 < c)
    (proj : List K → List K) (hproj : Radial proj) (N : Nat)
    (hN : N ≤ ((rows.map (fun nd => scale c (castPt (K := K) nd.pt))).filter (Molgri.Hemi.upper 0)).length) :
    let P : List (List K) := rows.map (fun nd => scale c (castPt nd.pt))
    let out := ((P.filter (Molgri.Hemi.upper 0)).take N).map proj
    out.length = N ∧ out.Pairwise (fun a b => a ≠ b ∧ a ≠ Molgri.Hemi.neg b) ∧
      (∀ a ∈ out, Molgri.Hemi.upper 0 a = true) ∧ 2 * (P.filter (Molgri.Hemi.upper 0)).length = rows.length := by
  intro P out
  have hk : Kind.cube4 = .cube3 ∨ Kind.cube4 = .cube4 := Or.inr rfl
  have hperm : rows.Perm (Molgri.Polytope.iter σ .cube4 k).nodes := by
    rw [getNodes_none _ rows hrows]; exact Molgri.Polytope.sortByIdx_perm _
  have hlat : ∀ nd ∈ rows, Molgri.Polytope.Lat 4 ((2 : Int) ^ k) nd.pt := by
    intro nd hnd
    exact (Molgri.C18.cube_nodes_eq_lattice σ .cube4 hk k nd.pt).mp (List.mem_map_of_mem (hperm.subset hnd))
  have hr : (0 : K) < c * (2 : K) ^ k := mul_pos hc (two_pow_pos k)
  have hP : ∀ q ∈ P, Molgri.Hemi.supNorm q = c * (2 : K) ^ k := by
    intro q hq
    obtain ⟨nd, hnd, rfl⟩ := List.mem_map.mp hq
    rw [Molgri.Hemi.supNorm_scale (le_of_lt hc), Molgri.Hemi.supNorm_cast, lat_supNorm (hlat nd hnd) (by positivity)]
    push_cast; rfl
  have hndP : P.Nodup := by
    have hnd : (rows.map (·.pt)).Nodup :=
      ((hperm.map _).nodup_iff).mpr (Molgri.C18.cube_nodes_nodup σ .cube4 hk k)
    have : P = (rows.map (·.pt)).map (fun p => scale c (castPt p)) := by
      show rows.map _ = _; rw [List.map_map]; rfl
    rw [this]
    exact hnd.map (fun p q h => Molgri.Hemi.castPt_injective (scale_inj (ne_of_gt hc) h))
  have hneg : ∀ q ∈ P, Molgri.Hemi.neg q ∈ P := by
    intro q hq
    obtain ⟨nd, hnd, rfl⟩ := List.mem_map.mp hq
    have h1 := Molgri.C18.cube_nodes_neg_closed σ .cube4 hk k nd.pt (List.mem_map_of_mem (hperm.subset hnd))
    obtain ⟨nd', hnd', hpt⟩ := List.mem_map.mp h1
    refine List.mem_map.mpr ⟨nd', hperm.symm.subset hnd', ?_⟩
    rw [hpt, ← Molgri.Hemi.scale_neg]
    congr 1
    exact Molgri.Hemi.castPt_neg nd.pt
  have hgap : ∀ q ∈ P, Molgri.Hemi.Gap 0 q := fun q _ => Molgri.Hemi.gap_zero q
  have hRad := radialOn_of_radial hproj Molgri.Hemi.supNorm_homogeneous hr hP
  have h := Molgri.C07.half_rows_distinct_rotations (0 : K) (le_refl 0) Molgri.Hemi.supNorm
    Molgri.Hemi.supNorm_homogeneous Molgri.Hemi.supNorm_neg P _ hr hP hndP hneg hgap proj hRad N hN
  have hnz : ∀ q ∈ P, Molgri.Hemi.Gap 0 q ∧ Molgri.Hemi.NonZero q := fun q hq =>
    ⟨Molgri.Hemi.gap_zero q, nonZero_of_gauge_pos Molgri.Hemi.supNorm_homogeneous (by rw [hP q hq]; exact hr)⟩
  refine ⟨h.1, h.2.1, h.2.2, ?_⟩
  rw [(Molgri.C07.half_one_of_each (0 : K) (le_refl 0) P hndP hneg hnz).2.1]
  show (rows.map _).length = _
  rw [List.length_map]

end Molgri.Bridge.PolyDistinct
