/-
Bridge A, part 1 — C08's abstract polytope interface instantiated with C18's concrete polytopes.

C08 (`Molgri.History`, `Props/C08.lean`) proves history independence and prefix stability for ANY subdivision geometry
`ext : Ext Γ Pt W O` under the hypotheses `Grows`, `Fresh`, `ShufflePerm`, `ProjNodup`.  C18 (`Molgri.Polytope`,
`Props/C18.lean`) is the exact model of the real subdivision code and proves that its node sets are the lattices.
Here the two are connected:

* `withPolytopes σ φ base` is `base` with `init` / `divide` replaced by C18's `create` / `divide` (graph type
  `Γ = Molgri.Polytope.St`); a node is handed to C08's `_add_polytope_point` under the key `keyAt φ kind d p`, its
  coordinates over an ordered field `K` in the level-independent unit (`Bridge/PolyKey.lean`).  `σ` is C18's offset
  table (any), `φ : K` the golden ratio (`φ² = φ + 1`, `0 < φ`), `base` supplies every field that is not polytope
  geometry (normalisation, hemisphere test, scipy getters, …).
* `sync`: C08's canonical polytope after `d` divisions carries C18's graph `iter σ kind d`, and its node keys are
  exactly the keys of C18's nodes — for every level.
* `concrete_fresh`, `concrete_grows`, `concrete_projNodup`: the three geometric hypotheses of C08 are THEOREMS for the
  concrete polytopes (from `cube_nodes_eq_lattice`, `ico_nodes_eq_lattice`, the `Fresh`-ness of C18's midpoints,
  C07's `proj_injective_gauge`).  What remains assumed: `ShufflePerm rng` (numpy's shuffle permutes) and, for
  `ProjNodup`, that `normalise_vectors` scales every non-zero vector by a positive factor (`Radial`).
* the C08 theorems restated for the concrete polytopes without `Grows` / `Fresh` / `ProjNodup`.
-/
import Molgri.Bridge.PolyKey
import Molgri.Props.C08

set_option linter.unusedSectionVars false

namespace Molgri.Bridge.PolyHistory
open Molgri.History
open Molgri.Bridge.PolyKey
open Molgri.Polytope (Pt Kind St dbl mid)
open Molgri.Hemi (scale)

variable {K : Type} [Field K] [LinearOrder K] [IsStrictOrderedRing K] {W O R : Type}

/-! ### the concrete geometry -/

def kindOf : PolyKind → Kind
  | .ico => .ico
  | .cube3D => .cube3
  | .cube4D => .cube4

/-- the level-0 vertex tables of `polytopes.py`, in the order `_create_level0` hands them to `_add_polytope_point`. -/
def vertices : Kind → List Pt
  | .ico => Molgri.Polytope.icoVertices
  | .cube3 => Molgri.Polytope.cube3Vertices
  | .cube4 => Molgri.Polytope.cube4Vertices

/-- the graph in which `_add_mid_edge_nodes` inserts the midpoints: the icosahedron first completes the triangulation
of the newest level, the cubes divide the graph as it is. -/
def preDiv : Kind → St → St
  | .ico, s => Molgri.Polytope.addEdgesOfLen Molgri.Polytope.isPhiLen (s.cur - 1) true s
  | _, s => s

/-- `_create_level0`: C18's level-0 object and the vertices in call order. -/
def concInit (σ : Nat → Nat → Nat → Nat) (φ : K) (k : PolyKind) : St × List (List K) :=
  (Molgri.Polytope.create σ (kindOf k), (vertices (kindOf k)).map (keyAt φ (kindOf k) 0))

/-- `divide_edges`: C18's divided object and the midpoints of the edges in call order (one call per edge, repetitions
included), in the unit of the new level `s.cur`. -/
def concDivide (σ : Nat → Nat → Nat → Nat) (φ : K) (k : PolyKind) (s : St) : St × List (List K) :=
  (Molgri.Polytope.divide σ (kindOf k) s,
    (preDiv (kindOf k) s).edges.map (fun e => keyAt φ (kindOf k) s.cur (mid e.1 e.2)))

/-- C08's geometry parameter with the polytope part replaced by C18's model. -/
def withPolytopes (σ : Nat → Nat → Nat → Nat) (φ : K) (base : Ext St (List K) W O) : Ext St (List K) W O :=
  { base with init := concInit σ φ, divide := concDivide σ φ }

/-! ### C18 side: nodes of the next level, lattice membership, lengths -/

theorem preDiv_nodes (kind : Kind) (s : St) : (preDiv kind s).nodes = s.nodes := by
  cases kind <;> rfl

theorem preDiv_fresh (σ : Nat → Nat → Nat → Nat) (kind : Kind) (d : Nat) :
    Molgri.Polytope.Fresh (preDiv kind (Molgri.Polytope.iter σ kind d)) ∧
    ∀ nd ∈ (preDiv kind (Molgri.Polytope.iter σ kind d)).nodes,
      nd.level < (preDiv kind (Molgri.Polytope.iter σ kind d)).cur := by
  cases kind with
  | ico => exact ⟨(Molgri.Polytope.geoI_completed σ d).fresh, (Molgri.Polytope.geoI_completed σ d).lvl⟩
  | cube3 => exact ⟨(Molgri.Polytope.geo_iter σ .cube3 (Or.inl rfl) d).fresh,
      (Molgri.Polytope.geo_iter σ .cube3 (Or.inl rfl) d).lvl⟩
  | cube4 => exact ⟨(Molgri.Polytope.geo_iter σ .cube4 (Or.inr rfl) d).fresh,
      (Molgri.Polytope.geo_iter σ .cube4 (Or.inr rfl) d).lvl⟩

/-- nodes after one more division: the old nodes in the halved unit, then the midpoints of the edges. -/
theorem iter_succ_nodes (σ : Nat → Nat → Nat → Nat) (kind : Kind) (d : Nat) :
    (Molgri.Polytope.iter σ kind (d + 1)).nodes.map (·.pt) =
      ((Molgri.Polytope.iter σ kind d).nodes.map (·.pt)).map dbl ++
        (Molgri.Polytope.extraNodes (preDiv kind (Molgri.Polytope.iter σ kind d))).map (·.pt) := by
  obtain ⟨hf, hl⟩ := preDiv_fresh σ kind d
  have hdn := (Molgri.Polytope.divided_nodes σ _ hf hl).1
  have hnodes : (Molgri.Polytope.iter σ kind (d + 1)).nodes =
      (Molgri.Polytope.endOfDivision σ (Molgri.Polytope.addMidEdgeNodes
        (preDiv kind (Molgri.Polytope.iter σ kind d)))).nodes := by
    cases kind with
    | ico => rfl
    | cube3 =>
      show (Molgri.Polytope.divide σ .cube3 _).nodes = _
      rw [Molgri.Polytope.divide_cube σ .cube3 (Or.inl rfl), Molgri.Polytope.passes_nodes]; rfl
    | cube4 =>
      show (Molgri.Polytope.divide σ .cube4 _).nodes = _
      rw [Molgri.Polytope.divide_cube σ .cube4 (Or.inr rfl), Molgri.Polytope.passes_nodes]; rfl
  rw [hnodes, hdn, List.map_append, Molgri.Polytope.assignGo_map_pt, preDiv_nodes, List.map_map, List.map_map]
  rfl

theorem mem_iter_succ (σ : Nat → Nat → Nat → Nat) (kind : Kind) (d : Nat) (p : Pt) :
    p ∈ (Molgri.Polytope.iter σ kind (d + 1)).nodes.map (·.pt) ↔
      (∃ p0 ∈ (Molgri.Polytope.iter σ kind d).nodes.map (·.pt), p = dbl p0) ∨
      (∃ e ∈ (preDiv kind (Molgri.Polytope.iter σ kind d)).edges, p = mid e.1 e.2) := by
  rw [iter_succ_nodes, List.mem_append, (Molgri.Polytope.extraNodes_spec _).2.1 p]
  constructor
  · rintro (h | h)
    · obtain ⟨p0, hp0, rfl⟩ := List.mem_map.mp h
      exact Or.inl ⟨p0, hp0, rfl⟩
    · exact Or.inr h
  · rintro (⟨p0, hp0, rfl⟩ | h)
    · exact Or.inl (List.mem_map_of_mem hp0)
    · exact Or.inr h

theorem iter_zero_nodes (σ : Nat → Nat → Nat → Nat) (kind : Kind) :
    (Molgri.Polytope.iter σ kind 0).nodes.map (·.pt) = vertices kind := by
  show (Molgri.Polytope.create σ kind).nodes.map (·.pt) = _
  rw [Molgri.Polytope.create_eq]
  show (Molgri.Polytope.assignGo _ _ _ (Molgri.Polytope.pre kind).nodes 0).map (·.pt) = _
  rw [Molgri.Polytope.assignGo_map_pt]
  cases kind <;> rfl

/-- every division has at least one edge to divide. -/
theorem preDiv_edges_ne_nil (σ : Nat → Nat → Nat → Nat) (kind : Kind) (d : Nat) :
    (preDiv kind (Molgri.Polytope.iter σ kind d)).edges ≠ [] := by
  have hW : (1 : Int) ≤ 2 ^ d := by exact_mod_cast Nat.one_le_two_pow
  have key : ∃ p q, Molgri.Polytope.E (preDiv kind (Molgri.Polytope.iter σ kind d)) p q := by
    cases kind with
    | ico =>
      refine ⟨Molgri.Polytope.comb 0 11 5 (2 ^ d) 0 0, Molgri.Polytope.comb 0 11 5 (2 ^ d - 1) 1 0, ?_⟩
      apply ((Molgri.Polytope.geoI_completed σ d).edges _ _).2
      refine ⟨0, 11, 5, by unfold Molgri.Polytope.IsFace; decide, 2 ^ d, 0, 0, 2 ^ d - 1, 1, 0, by omega, by omega, by omega, by omega, by omega,
        by omega, by omega, by omega, rfl, rfl, ?_⟩
      unfold Molgri.Polytope.UnitStep
      omega
    | cube3 =>
      refine ⟨[2 ^ d, 2 ^ d, 2 ^ d], [2 ^ d, 2 ^ d, 2 ^ d - 2], ?_⟩
      apply ((Molgri.Polytope.geo_iter σ .cube3 (Or.inl rfl) d).edges _ _).2
      generalize (2 : Int) ^ d = W at hW
      have hco : ∀ (a b c : Int) (i : Nat), i < 3 → Molgri.Polytope.co [a, b, c] i = a ∨
          Molgri.Polytope.co [a, b, c] i = b ∨ Molgri.Polytope.co [a, b, c] i = c := by
        intro a b c i hi
        have : i = 0 ∨ i = 1 ∨ i = 2 := by omega
        rcases this with rfl | rfl | rfl <;> simp [Molgri.Polytope.co]
      refine ⟨⟨rfl, ?_, 0, by decide, Or.inl rfl⟩, ⟨rfl, ?_, 0, by decide, Or.inl rfl⟩, ?_, ?_, 0, by decide, rfl,
        Or.inl rfl⟩
      · intro i hi
        rcases hco W W W i hi with h | h | h <;> rw [h] <;> omega
      · intro i hi
        rcases hco W W (W - 2) i hi with h | h | h <;> rw [h] <;> omega
      · intro h
        have := congrArg (fun p => Molgri.Polytope.co p 2) h
        simp [Molgri.Polytope.co] at this
        omega
      · intro i hi
        have hi' : i < 3 := hi
        have : i = 0 ∨ i = 1 ∨ i = 2 := by omega
        rcases this with rfl | rfl | rfl <;> simp [Molgri.Polytope.co]
    | cube4 =>
      refine ⟨[2 ^ d, 2 ^ d, 2 ^ d, 2 ^ d], [2 ^ d, 2 ^ d, 2 ^ d, 2 ^ d - 2], ?_⟩
      apply ((Molgri.Polytope.geo_iter σ .cube4 (Or.inr rfl) d).edges _ _).2
      generalize (2 : Int) ^ d = W at hW
      have hco : ∀ (a b c e : Int) (i : Nat), i < 4 → Molgri.Polytope.co [a, b, c, e] i = a ∨
          Molgri.Polytope.co [a, b, c, e] i = b ∨ Molgri.Polytope.co [a, b, c, e] i = c ∨
          Molgri.Polytope.co [a, b, c, e] i = e := by
        intro a b c e i hi
        have : i = 0 ∨ i = 1 ∨ i = 2 ∨ i = 3 := by omega
        rcases this with rfl | rfl | rfl | rfl <;> simp [Molgri.Polytope.co]
      refine ⟨⟨rfl, ?_, 0, by decide, Or.inl rfl⟩, ⟨rfl, ?_, 0, by decide, Or.inl rfl⟩, ?_, ?_, 0, by decide, rfl,
        Or.inl rfl⟩
      · intro i hi
        rcases hco W W W W i hi with h | h | h | h <;> rw [h] <;> omega
      · intro i hi
        rcases hco W W W (W - 2) i hi with h | h | h | h <;> rw [h] <;> omega
      · intro h
        have := congrArg (fun p => Molgri.Polytope.co p 3) h
        simp [Molgri.Polytope.co] at this
        omega
      · intro i hi
        have hi' : i < 4 := hi
        have : i = 0 ∨ i = 1 ∨ i = 2 ∨ i = 3 := by omega
        rcases this with rfl | rfl | rfl | rfl <;> simp [Molgri.Polytope.co]
  obtain ⟨p, q, h⟩ := key
  intro hnil
  unfold Molgri.Polytope.E at h
  rw [hnil] at h
  simp at h

/-! ### C08 side: the keys of a freshly constructed polytope -/

theorem newPoly_keys (ext : Ext St (List K) W O) (rng : Rng R W) (hs : ShufflePerm rng) (r : R) (k : PolyKind)
    (q : List K) : q ∈ keys (newPoly ext rng r k).2.nodes ↔ q ∈ (ext.init k).2 := by
  obtain ⟨extra, h1, h2, h3⟩ := foldl_addNode_new ext 0 [] (ext.init k).2 [] (fun _ _ h => by cases h)
    (NewOk.nil ext 0)
  rw [List.append_nil, List.nil_append] at h1
  obtain ⟨extra', h4, h5, _, _⟩ := endOfDivision_spec ext rng hs r k (ext.init k).1 [] extra
    0 0 (none, 0) (fun _ h => by cases h) h2 (fun _ _ h => by cases h)
  have hnp : (newPoly ext rng r k).2 =
      { kind := k, g := (ext.init k).1, nodes := [] ++ extra',
        level := 0 + 1, maxCi := 0 + extra.length, cache := (none, 0) } := by
    unfold newPoly
    simp only [h1]
    rw [← h4, List.nil_append]
  rw [hnp]
  simp only [List.nil_append, h5, h3]
  constructor
  · rintro (h | h)
    · cases h
    · exact h
  · exact Or.inr

/-! ### the two models carry the same polytope at every level -/

section Sync
variable (σ : Nat → Nat → Nat → Nat) (φ : K) (base : Ext St (List K) W O) (rng : Rng R W)

/-- C08's canonical polytope and C18's polytope after `d` divisions are the same object: same graph, and the node
table of the former holds exactly the keys of the nodes of the latter (and satisfies C08's table invariant). -/
structure Sync (k : PolyKind) (d : Nat) : Prop where
  g : (canonPoly (withPolytopes σ φ base) rng k d).g = Molgri.Polytope.iter σ (kindOf k) d
  inv : PolyInv (canonPoly (withPolytopes σ φ base) rng k d)
  keys : ∀ q, q ∈ keys (canonPoly (withPolytopes σ φ base) rng k d).nodes ↔
    ∃ p ∈ (Molgri.Polytope.iter σ (kindOf k) d).nodes.map (·.pt), q = keyAt φ (kindOf k) d p

theorem cur_iter' (kind : Kind) (d : Nat) : (Molgri.Polytope.iter σ kind d).cur = d + 1 :=
  Molgri.C18.cur_iter σ kind d

/-- the midpoints handed over by a division are new keys. -/
theorem divide_points_fresh (hφ : φ * φ = φ + 1) (k : PolyKind) (d : Nat) (h : Sync σ φ base rng k d) :
    ∀ p ∈ ((withPolytopes σ φ base).divide k (canonPoly (withPolytopes σ φ base) rng k d).g).2,
      p ∉ keys (canonPoly (withPolytopes σ φ base) rng k d).nodes := by
  intro p hp hmem
  rw [h.g] at hp
  change p ∈ (preDiv (kindOf k) (Molgri.Polytope.iter σ (kindOf k) d)).edges.map
    (fun e => keyAt φ (kindOf k) (Molgri.Polytope.iter σ (kindOf k) d).cur (mid e.1 e.2)) at hp
  rw [cur_iter'] at hp
  obtain ⟨e, he, rfl⟩ := List.mem_map.mp hp
  obtain ⟨p0, hp0, hq⟩ := (h.keys _).mp hmem
  rw [← keyAt_succ_dbl φ (kindOf k) d p0] at hq
  have hmid : mid e.1 e.2 ∈ (Molgri.Polytope.iter σ (kindOf k) (d + 1)).nodes.map (·.pt) :=
    (mem_iter_succ σ (kindOf k) d _).mpr (Or.inr ⟨e, he, rfl⟩)
  have hdbl : dbl p0 ∈ (Molgri.Polytope.iter σ (kindOf k) (d + 1)).nodes.map (·.pt) :=
    (mem_iter_succ σ (kindOf k) d _).mpr (Or.inl ⟨p0, hp0, rfl⟩)
  have heq := keyAt_inj φ hφ (kindOf k) (d + 1)
    (latOf_len ((iter_nodes_lat σ (kindOf k) (d + 1) _).mp hmid))
    (latOf_len ((iter_nodes_lat σ (kindOf k) (d + 1) _).mp hdbl)) hq
  obtain ⟨nd, hnd, rfl⟩ := List.mem_map.mp hp0
  exact (preDiv_fresh σ (kindOf k) d).1 e he nd (by rw [preDiv_nodes]; exact hnd) heq

theorem sync (hφ : φ * φ = φ + 1) (hs : ShufflePerm rng) (k : PolyKind) (d : Nat) : Sync σ φ base rng k d := by
  induction d with
  | zero =>
    refine ⟨rfl, newPoly_inv _ rng hs _ k, ?_⟩
    intro q
    show q ∈ keys (newPoly (withPolytopes σ φ base) rng (rng.seed 0) k).2.nodes ↔ _
    rw [newPoly_keys _ rng hs, iter_zero_nodes]
    show q ∈ (vertices (kindOf k)).map (keyAt φ (kindOf k) 0) ↔ _
    rw [List.mem_map]
    constructor
    · rintro ⟨p, hp, rfl⟩; exact ⟨p, hp, rfl⟩
    · rintro ⟨p, hp, rfl⟩; exact ⟨p, hp, rfl⟩
  | succ d ih =>
    have hk := canonPoly_kind (withPolytopes σ φ base) rng k d
    have hfresh := divide_points_fresh σ φ base rng hφ k d ih
    obtain ⟨extra', h1, h2, _, _, h5, _⟩ := divideEdges_spec (withPolytopes σ φ base) rng hs (rng.seed 0)
      (canonPoly (withPolytopes σ φ base) rng k d) ih.inv (by rw [hk]; exact hfresh)
    refine ⟨?_, h2, ?_⟩
    · show ((withPolytopes σ φ base).divide (canonPoly (withPolytopes σ φ base) rng k d).kind
        (canonPoly (withPolytopes σ φ base) rng k d).g).1 = _
      rw [hk, ih.g]; rfl
    · intro q
      have hn : (canonPoly (withPolytopes σ φ base) rng k (d + 1)).nodes =
          (canonPoly (withPolytopes σ φ base) rng k d).nodes ++ extra' := h1
      rw [hn, keys_append, List.mem_append, ih.keys, h5, hk, ih.g]
      change _ ∨ q ∈ (preDiv (kindOf k) (Molgri.Polytope.iter σ (kindOf k) d)).edges.map
        (fun e => keyAt φ (kindOf k) (Molgri.Polytope.iter σ (kindOf k) d).cur (mid e.1 e.2)) ↔ _
      rw [cur_iter']
      constructor
      · rintro (⟨p0, hp0, rfl⟩ | h)
        · exact ⟨dbl p0, (mem_iter_succ σ (kindOf k) d _).mpr (Or.inl ⟨p0, hp0, rfl⟩),
            (keyAt_succ_dbl φ (kindOf k) d p0).symm⟩
        · obtain ⟨e, he, rfl⟩ := List.mem_map.mp h
          exact ⟨mid e.1 e.2, (mem_iter_succ σ (kindOf k) d _).mpr (Or.inr ⟨e, he, rfl⟩), rfl⟩
      · rintro ⟨p, hp, rfl⟩
        rcases (mem_iter_succ σ (kindOf k) d p).mp hp with ⟨p0, hp0, rfl⟩ | ⟨e, he, rfl⟩
        · exact Or.inl ⟨p0, hp0, keyAt_succ_dbl φ (kindOf k) d p0⟩
        · exact Or.inr (List.mem_map.mpr ⟨e, he, rfl⟩)

end Sync

/-! ### the hypotheses of C08 are theorems for the concrete polytopes -/

section Main
variable (σ : Nat → Nat → Nat → Nat) (φ : K) (base : Ext St (List K) W O) (rng : Rng R W)

/-- **`Fresh` discharged** ("each division creates only new keys, and at least one"): for C18's cube, hypercube and
icosahedron, every level, every offset table `σ` — because C18's midpoints never coincide with an existing node
(`Geo.fresh`, `GeoI.fresh`), the key map is injective (irrationality of `φ`) and every level has an edge. -/
theorem concrete_fresh (hφ : φ * φ = φ + 1) (hs : ShufflePerm rng) : Fresh (withPolytopes σ φ base) rng where
  fresh := fun k d => divide_points_fresh σ φ base rng hφ k d (sync σ φ base rng hφ hs k d)
  nonempty := by
    intro k d
    rw [(sync σ φ base rng hφ hs k d).g]
    show (preDiv (kindOf k) (Molgri.Polytope.iter σ (kindOf k) d)).edges.map _ ≠ []
    intro h
    exact preDiv_edges_ne_nil σ (kindOf k) d (List.map_eq_nil_iff.mp h)

/-- **`Grows` discharged** ("each division adds at least one node"). -/
theorem concrete_grows (hφ : φ * φ = φ + 1) (hs : ShufflePerm rng) : Grows (withPolytopes σ φ base) rng :=
  fresh_grows _ rng hs (concrete_fresh σ φ base rng hφ hs)

/-- **`ProjNodup` discharged** ("distinct nodes have distinct projections"): C07's `proj_injective_gauge` applied to
the node keys, which by C18's lattice theorems all lie on one level set of the gauge.  The only assumption about the
normalisation is that it scales every non-zero vector by a positive factor. -/
theorem concrete_projNodup (hφ : φ * φ = φ + 1) (hφ0 : 0 < φ) (hs : ShufflePerm rng) (hproj : Radial base.proj) :
    ProjNodup (withPolytopes σ φ base) rng := by
  intro k d
  have hsy := sync σ φ base rng hφ hs k d
  apply List.Nodup.map_on _ hsy.inv.nodupKeys
  intro x hx y hy hxy
  obtain ⟨p, hp, rfl⟩ := (hsy.keys x).mp hx
  obtain ⟨q, hq, rfl⟩ := (hsy.keys y).mp hy
  have hgx := key_on_surface φ hφ hφ0 (kindOf k) d ((iter_nodes_lat σ (kindOf k) d p).mp hp)
  have hgy := key_on_surface φ hφ hφ0 (kindOf k) d ((iter_nodes_lat σ (kindOf k) d q).mp hq)
  have hpos := radiusFor_pos φ hφ0 (kindOf k)
  have hg := gaugeFor_homogeneous φ (kindOf k)
  obtain ⟨a, ha, hax⟩ := hproj _ (nonZero_of_gauge_pos hg (by rw [hgx]; exact hpos))
  obtain ⟨b, hb, hby⟩ := hproj _ (nonZero_of_gauge_pos hg (by rw [hgy]; exact hpos))
  have hxy' : base.proj (keyAt φ (kindOf k) d p) = base.proj (keyAt φ (kindOf k) d q) := hxy
  rw [hax, hby] at hxy'
  exact Molgri.C07.proj_injective_gauge (gaugeFor φ (kindOf k)) hg _ _ a b ha hb hxy' (by rw [hgx, hgy])
    (by rw [hgy]; exact hpos)

/-! ### C08's theorems for the concrete polytopes, without `Grows` / `Fresh` / `ProjNodup` -/

/-- C08 `output_history_independent` for the concrete polytopes: for every history, every initial generator state and
every position, the output is the fresh value; `Grows` is no longer a hypothesis. -/
theorem output_history_independent_concrete (hφ : φ * φ = φ + 1) (hs : ShufflePerm rng) (r₀ : R) (ops : List Op)
    (t : Nat) (ht : t < ops.length) :
    (run (withPolytopes σ φ base) rng r₀ ops).2[t]? =
      some (Molgri.C08.freshOut (withPolytopes σ φ base) rng
        (Molgri.C08.historySpecs (withPolytopes σ φ base) rng (ops.take t)) ops[t]) :=
  Molgri.C08.output_history_independent _ rng (concrete_grows σ φ base rng hφ hs) r₀ ops t ht

/-- C08 `cache_valid` for the concrete polytopes. -/
theorem cache_valid_concrete (hφ : φ * φ = φ + 1) (hs : ShufflePerm rng) (r₀ : R) (ops : List Op)
    (P : Poly St (List K)) (hP : P ∈ (run (withPolytopes σ φ base) rng r₀ ops).1.polys) (c : Option (List (List K)))
    (hc : P.cache = (c, P.nodes.length)) (hn : P.nodes.length ≠ 0) :
    ∃ s, c = some s ∧ sortByCi P.nodes = .ok s :=
  Molgri.C08.cache_valid _ rng (concrete_grows σ φ base rng hφ hs) r₀ ops P hP c hc hn

/-- C08 `prefix_stable_3d` for the concrete icosahedron and cube: the `N`-point grid is the first `N` rows of the
`(N+M)`-point grid whenever both constructions succeed; only `ShufflePerm` is assumed. -/
theorem prefix_stable_3d_concrete (hφ : φ * φ = φ + 1) (hs : ShufflePerm rng) (a : Alg) (ha : a = .ico ∨ a = .cube3D)
    (r r' : R) (N M : Nat) (G₁ G₂ : Grid St (List K))
    (h₁ : (createGrid (withPolytopes σ φ base) rng r a N).2 = .ok G₁)
    (h₂ : (createGrid (withPolytopes σ φ base) rng r' a (N + M)).2 = .ok G₂) :
    G₁.grid = G₂.grid.take N :=
  Molgri.C08.prefix_stable_3d _ rng hs (concrete_fresh σ φ base rng hφ hs) a ha r r' N M G₁ G₂ h₁ h₂

/-- C08 `polytope_prefix_stable` (`get_nodes`: "the first 15 will be the same") for the concrete polytopes. -/
theorem polytope_prefix_stable_concrete (hφ : φ * φ = φ + 1) (hs : ShufflePerm rng) (k : PolyKind) (d m N : Nat)
    (proj : Bool) (hN : N ≤ (canonPoly (withPolytopes σ φ base) rng k d).nodes.length) :
    (getNodes (canonPoly (withPolytopes σ φ base) rng k (d + m)) (some N) proj).2 =
      (getNodes (canonPoly (withPolytopes σ φ base) rng k d) (some N) proj).2 :=
  Molgri.C08.polytope_prefix_stable _ rng hs (concrete_fresh σ φ base rng hφ hs) k d m N proj hN

/-- C08 `prefix_stable_hypercube` for the concrete hypercube (`cube4D` / `fulldiv` in any combination): only
`ShufflePerm` and the radial normalisation are assumed. -/
theorem prefix_stable_hypercube_concrete (hφ : φ * φ = φ + 1) (hφ0 : 0 < φ) (hs : ShufflePerm rng)
    (hproj : Radial base.proj) (a₁ a₂ : Alg) (ha₁ : a₁ = .cube4D ∨ a₁ = .fulldiv)
    (ha₂ : a₂ = .cube4D ∨ a₂ = .fulldiv) (r r' : R) (N M : Nat) (G₁ G₂ : Grid St (List K))
    (h₁ : (createGrid (withPolytopes σ φ base) rng r a₁ N).2 = .ok G₁)
    (h₂ : (createGrid (withPolytopes σ φ base) rng r' a₂ (N + M)).2 = .ok G₂) :
    ∃ rows₁ rows₂, G₁.grid = rows₁ ++ rows₁.map base.neg ∧ G₂.grid = rows₂ ++ rows₂.map base.neg ∧
      rows₁.length = N ∧ rows₂.length = N + M ∧ rows₁ = rows₂.take N :=
  Molgri.C08.prefix_stable_hypercube _ rng hs (concrete_fresh σ φ base rng hφ hs)
    (concrete_projNodup σ φ base rng hφ hφ0 hs hproj) a₁ a₂ ha₁ ha₂ r r' N M G₁ G₂ h₁ h₂

/-- C08 `prefix_stable_cube4D` for the concrete hypercube. -/
theorem prefix_stable_cube4D_concrete (hφ : φ * φ = φ + 1) (hφ0 : 0 < φ) (hs : ShufflePerm rng)
    (hproj : Radial base.proj) (r r' : R) (N M : Nat) (G₁ G₂ : Grid St (List K))
    (h₁ : (createGrid (withPolytopes σ φ base) rng r .cube4D N).2 = .ok G₁)
    (h₂ : (createGrid (withPolytopes σ φ base) rng r' .cube4D (N + M)).2 = .ok G₂) :
    ∃ rows₁ rows₂, G₁.grid = rows₁ ++ rows₁.map base.neg ∧ G₂.grid = rows₂ ++ rows₂.map base.neg ∧
      rows₁.length = N ∧ rows₂.length = N + M ∧ rows₁ = rows₂.take N :=
  prefix_stable_hypercube_concrete σ φ base rng hφ hφ0 hs hproj .cube4D .cube4D (Or.inl rfl) (Or.inl rfl)
    r r' N M G₁ G₂ h₁ h₂

/-- The two models agree on the number of nodes: C08's canonical polytope has as many nodes as C18's. -/
theorem canonPoly_node_count (hφ : φ * φ = φ + 1) (hs : ShufflePerm rng) (k : PolyKind) (d : Nat) :
    (canonPoly (withPolytopes σ φ base) rng k d).nodes.length = (Molgri.Polytope.iter σ (kindOf k) d).nodes.length := by
  have hsy := sync σ φ base rng hφ hs k d
  have hnd : ((Molgri.Polytope.iter σ (kindOf k) d).nodes.map (·.pt)).Nodup := by
    cases k with
    | ico => exact Molgri.C18.ico_nodes_nodup σ d
    | cube3D => exact Molgri.C18.cube_nodes_nodup σ .cube3 (Or.inl rfl) d
    | cube4D => exact Molgri.C18.cube_nodes_nodup σ .cube4 (Or.inr rfl) d
  have hinj : ∀ p ∈ (Molgri.Polytope.iter σ (kindOf k) d).nodes.map (·.pt),
      ∀ q ∈ (Molgri.Polytope.iter σ (kindOf k) d).nodes.map (·.pt),
      keyAt φ (kindOf k) d p = keyAt φ (kindOf k) d q → p = q := by
    intro p hp q hq h
    exact keyAt_inj φ hφ (kindOf k) d (latOf_len ((iter_nodes_lat σ (kindOf k) d p).mp hp))
      (latOf_len ((iter_nodes_lat σ (kindOf k) d q).mp hq)) h
  have hperm : (keys (canonPoly (withPolytopes σ φ base) rng k d).nodes).Perm
      (((Molgri.Polytope.iter σ (kindOf k) d).nodes.map (·.pt)).map (keyAt φ (kindOf k) d)) := by
    rw [List.perm_ext_iff_of_nodup hsy.inv.nodupKeys (List.Nodup.map_on hinj hnd)]
    intro q
    rw [hsy.keys q, List.mem_map]
    constructor
    · rintro ⟨p, hp, rfl⟩; exact ⟨p, hp, rfl⟩
    · rintro ⟨p, hp, rfl⟩; exact ⟨p, hp, rfl⟩
  have := hperm.length_eq
  simpa [keys] using this

end Main

end Molgri.Bridge.PolyHistory
