/-
Bridge H (2) — index agreement between C08's and C18's polytope models.

`Bridge/PolyHistory.lean` proves `sync`: C08's canonical polytope (`Molgri.History.canonPoly`, instantiated with C18's
geometry by `withPolytopes`) carries C18's graph and has C18's key SET at every level.  Here the remaining gap is
closed: the two models assign the same permanent `central_index` to every node.

* C18 (`Molgri.Polytope.endOfDivision`) parametrises the shuffle of the new nodes of a level by an offset table `σ`:
  the `j`-th new node (in node-table order) receives `current_max_ci + σ level n j`.
* C08 (`Molgri.History.endOfDivision`) applies `rng.shuffle (rng.seed 15) n` to the list of new nodes (in node-table
  order): `shuffled[i] = new[π[i]]`, and `shuffled[i]` receives `current_max_ci + i`.

So the `j`-th new node receives `current_max_ci + π.idxOf j`: the induced offset table is the INVERSE of the
permutation numpy applies, `inducedσ rng level n j = (rng.shuffle (rng.seed 15) n).2.idxOf j`.  Because the generator
is re-seeded with 15 at every `_end_of_divison`, it depends on `n` only, not on the level.

Enumeration order of the new nodes: BOTH models enumerate them in node-table (insertion) order — the order in which
`_add_mid_edge_nodes` walks the edge list, first occurrence of each midpoint (`extraNodes_pts`, `foldl_addNode_mk`:
both tables are `old ++ dedup(midpoints in edge order)`), at level 0 the order of the vertex table.  No re-ordering
permutation is needed between the two models; the node TABLES are equal as lists (`index_sync`), not only as sets.

Results (`ext := withPolytopes (inducedσ rng) φ base`, hypotheses `φ² = φ + 1`, `ShufflePerm rng`):
* `induced_permFam`     — `inducedσ rng` is a level-wise permutation (`PermFam`) when `ShufflePerm rng`;
* `index_sync`          — node table of C08's canonical polytope = node table of `iter (inducedσ rng) kind d` mapped by
                          `back` (key, level, projection, `central_index = some idx`), and equal `current_max_ci`;
* `ci_bijection`, `ci_level_monotone`, `ci_stable`, `getNodes_rows`, `getNodes_prefix` — C18's `index_bijection`,
  `level_monotone`, `index_stable`, `get_nodes_rows`, `get_nodes_prefix` transferred to C08's polytopes;
* `getNodes_eq_c18`     — C08's `get_nodes(N, projection)` = C18's `get_nodes(N)` row by row (same rows, same order,
                          same `ValueError`);
* `grid_rows_3d`, `prefix_stable_3d_rows` — the ico / cube3D grid array of C08 is the first `N` rows of C18's
  `sortByIdx` order (projected), so C08's `prefix_stable_3d_concrete` is stated with C18's row order;
* `history_index_sync`, `history_nodes_output` — the same for every live polytope and every `get_nodes` output of
  EVERY history (through C08's `output_history_independent`);
* `half_eq_c18`, `grid_rows_hypercube`, `prefix_stable_hypercube_rows` — C08's `get_half_of_hypercube` = C18's `getHalf`
  row by row, and C08's `prefix_stable_hypercube_concrete` with C18's row order.  Extra hypotheses: `Radial base.proj`
  (as in `PolyHistory`) and `UpperAgree`: the implementation's hemisphere test on a projected row agrees with C18's
  exact test on the integer node (C08 takes the test as a parameter `ext.upper`; `Bridge/Upper.lean`
  `inUpper_eq_hemi` / `upper_of_signs` relate the tolerance test and the exact test under a gap condition — that
  condition for the projected lattice is NOT derived here, it stays a hypothesis);
* `sim_iter`, `canonPoly_sigma_indep`, `index_sync_any`, `getNodes_eq_c18_any` — C18's nodes and edges do not depend
  on the offset table (only `idx` does), hence C08's node table is the same for every `σ` used in `withPolytopes`,
  and the index agreement holds for every instantiation.
-/
import Molgri.Bridge.PolyHistory

set_option linter.unusedSectionVars false

namespace Molgri.Bridge.PolyIndex
open Molgri.History
open Molgri.Bridge.PolyKey
open Molgri.Bridge.PolyHistory
open Molgri.Polytope (Pt Kind St dbl mid)

/-! ### first occurrences in order (what an insert-or-update table keeps of a list of keys) -/

section Dedup
variable {α β : Type} [DecidableEq α] [DecidableEq β]

/-- insert `p` at the end unless present -/
def ddStep (acc : List α) (p : α) : List α := if p ∈ acc then acc else acc ++ [p]

/-- the distinct elements of a list in order of first occurrence -/
def dd (l : List α) : List α := l.foldl ddStep []

theorem mem_foldl_ddStep (l acc : List α) (x : α) : x ∈ l.foldl ddStep acc ↔ x ∈ acc ∨ x ∈ l := by
  induction l generalizing acc with
  | nil => simp
  | cons a l ih =>
    rw [List.foldl_cons, ih]
    unfold ddStep
    split
    · rename_i h
      constructor
      · rintro (h' | h')
        · exact Or.inl h'
        · exact Or.inr (List.mem_cons_of_mem _ h')
      · rintro (h' | h')
        · exact Or.inl h'
        · rcases List.mem_cons.mp h' with rfl | h''
          · exact Or.inl h
          · exact Or.inr h''
    · simp only [List.mem_append, List.mem_cons, List.not_mem_nil, or_false]
      constructor
      · rintro ((h' | h') | h')
        · exact Or.inl h'
        · exact Or.inr (Or.inl h')
        · exact Or.inr (Or.inr h')
      · rintro (h' | h' | h')
        · exact Or.inl (Or.inl h')
        · exact Or.inl (Or.inr h')
        · exact Or.inr h'

theorem mem_dd (l : List α) (x : α) : x ∈ dd l ↔ x ∈ l := by
  unfold dd; rw [mem_foldl_ddStep]; simp

theorem nodup_foldl_ddStep (l acc : List α) (h : acc.Nodup) : (l.foldl ddStep acc).Nodup := by
  induction l generalizing acc with
  | nil => exact h
  | cons a l ih =>
    rw [List.foldl_cons]
    apply ih
    unfold ddStep
    split
    · exact h
    · rename_i hn
      rw [List.nodup_append]
      refine ⟨h, List.nodup_singleton a, ?_⟩
      intro x hx y hy
      rw [List.mem_singleton] at hy
      subst hy
      intro e
      exact hn (e ▸ hx)

theorem nodup_dd (l : List α) : (dd l).Nodup := nodup_foldl_ddStep l [] List.nodup_nil

theorem foldl_ddStep_of_nodup (l acc : List α) (h : (acc ++ l).Nodup) : l.foldl ddStep acc = acc ++ l := by
  induction l generalizing acc with
  | nil => simp
  | cons a l ih =>
    rw [List.foldl_cons]
    have ha : a ∉ acc := by
      intro hm
      rw [List.nodup_append] at h
      exact h.2.2 a hm a List.mem_cons_self rfl
    have : ddStep acc a = acc ++ [a] := by unfold ddStep; rw [if_neg ha]
    rw [this, ih _ (by simpa using h)]
    simp

theorem dd_of_nodup (l : List α) (h : l.Nodup) : dd l = l := by
  unfold dd; rw [foldl_ddStep_of_nodup l [] (by simpa using h)]; rfl

/-- first occurrences commute with a map that is injective on the elements involved -/
theorem foldl_ddStep_map (f : α → β) (l acc : List α)
    (hinj : ∀ a ∈ acc ++ l, ∀ b ∈ acc ++ l, f a = f b → a = b) :
    (l.map f).foldl ddStep (acc.map f) = (l.foldl ddStep acc).map f := by
  induction l generalizing acc with
  | nil => rfl
  | cons a l ih =>
    rw [List.map_cons, List.foldl_cons, List.foldl_cons]
    have hstep : ddStep (acc.map f) (f a) = (ddStep acc a).map f := by
      unfold ddStep
      by_cases ha : a ∈ acc
      · rw [if_pos ha, if_pos (List.mem_map_of_mem ha)]
      · have : f a ∉ acc.map f := by
          intro hm
          obtain ⟨b, hb, hfb⟩ := List.mem_map.mp hm
          have := hinj b (by simp [hb]) a (by simp) hfb
          exact ha (this ▸ hb)
        rw [if_neg ha, if_neg this]
        simp
    rw [hstep]
    apply ih
    intro x hx y hy hxy
    have sub : ∀ z, z ∈ ddStep acc a ++ l → z ∈ acc ++ a :: l := by
      intro z hz
      rcases List.mem_append.mp hz with h | h
      · unfold ddStep at h
        split at h
        · exact List.mem_append_left _ h
        · rcases List.mem_append.mp h with h | h
          · exact List.mem_append_left _ h
          · rw [List.mem_singleton] at h; subst h; simp
      · simp [h]
    exact hinj x (sub x hx) y (sub y hy) hxy

theorem dd_map (f : α → β) (l : List α) (hinj : ∀ a ∈ l, ∀ b ∈ l, f a = f b → a = b) :
    dd (l.map f) = (dd l).map f := by
  unfold dd
  exact foldl_ddStep_map f l [] (by simpa using hinj)

end Dedup

/-! ### C08 side: the node table after the insertions and after `_end_of_divison`, exactly -/

section C08
variable {Γ Pt W O R : Type} [DecidableEq Pt]

theorem node_ext {a b : Node Pt} (h1 : a.key = b.key) (h2 : a.level = b.level) (h3 : a.proj = b.proj)
    (h4 : a.ci = b.ci) : a = b := by
  cases a; cases b; simp_all

theorem keys_map_mk (ext : Ext Γ Pt W O) (lvl : Nat) (ks : List Pt) : keys (ks.map (mkNode ext lvl)) = ks := by
  simp [keys, mkNode, Function.comp_def]

/-- `_add_polytope_point` for a point that is no old key: only the part appended at this level is touched, and that
part is the list of first occurrences. -/
theorem addNode_mk (ext : Ext Γ Pt W O) (lvl : Nat) (old : List (Node Pt)) (acc : List Pt) (p : Pt)
    (hp : p ∉ keys old) :
    addNode ext lvl (old ++ acc.map (mkNode ext lvl)) p = old ++ (ddStep acc p).map (mkNode ext lvl) := by
  unfold addNode ddStep
  by_cases hpa : p ∈ acc
  · have hany : (old ++ acc.map (mkNode ext lvl)).any (fun nd => nd.key == p) = true := by
      rw [any_key, keys_append, keys_map_mk]; exact List.mem_append_right _ hpa
    rw [if_pos hany, if_pos hpa, List.map_append]
    congr 1
    · conv => rhs; rw [← List.map_id old]
      apply List.map_congr_left
      intro nd hnd
      have : nd.key ≠ p := fun h => hp (h ▸ List.mem_map_of_mem (f := fun n : Node Pt => n.key) hnd)
      simp [this]
    · rw [List.map_map]
      apply List.map_congr_left
      intro q _
      by_cases hq : q = p
      · subst hq; simp [mkNode]
      · simp [mkNode, hq]
  · have hany : ¬ (old ++ acc.map (mkNode ext lvl)).any (fun nd => nd.key == p) = true := by
      rw [any_key, keys_append, keys_map_mk]
      intro h
      rcases List.mem_append.mp h with h | h
      · exact hp h
      · exact hpa h
    rw [if_neg hany, if_neg hpa, List.map_append, List.append_assoc]
    rfl

theorem foldl_addNode_mk (ext : Ext Γ Pt W O) (lvl : Nat) (old : List (Node Pt)) (pts : List Pt)
    (hp : ∀ p ∈ pts, p ∉ keys old) (acc : List Pt) :
    pts.foldl (addNode ext lvl) (old ++ acc.map (mkNode ext lvl)) =
      old ++ (pts.foldl ddStep acc).map (mkNode ext lvl) := by
  induction pts generalizing acc with
  | nil => rfl
  | cons p pts ih =>
    rw [List.foldl_cons, List.foldl_cons, addNode_mk ext lvl old acc p (hp p List.mem_cons_self)]
    exact ih (fun q hq => hp q (List.mem_cons_of_mem _ hq)) _

/-- the node table after the insertions of one level: the old table, then the new keys in order of first
occurrence, each as created. -/
theorem foldl_addNode_dd (ext : Ext Γ Pt W O) (lvl : Nat) (old : List (Node Pt)) (pts : List Pt)
    (hp : ∀ p ∈ pts, p ∉ keys old) :
    pts.foldl (addNode ext lvl) old = old ++ (dd pts).map (mkNode ext lvl) := by
  have := foldl_addNode_mk ext lvl old pts hp []
  simpa [dd] using this

/-- `shuffled[i] = new[π[i]]` -/
theorem applyPerm_getElem? {α : Type} (π : List Nat) (l : List α) (h : ∀ x ∈ π, x < l.length) (i : Nat) :
    (applyPerm π l)[i]? = π[i]?.bind (fun x => l[x]?) := by
  unfold applyPerm
  induction π generalizing i with
  | nil => simp
  | cons x t ih =>
    have hx : x < l.length := h x List.mem_cons_self
    rw [List.filterMap_cons]
    rw [List.getElem?_eq_getElem hx]
    cases i with
    | zero => simp [List.getElem?_eq_getElem hx]
    | succ i =>
      simp only [List.getElem?_cons_succ]
      exact ih (fun y hy => h y (List.mem_cons_of_mem _ hy)) i

/-- the permanent index a new node receives: position of its table position `j` in the permutation numpy applied -/
def withCi (π : List Nat) (base : Nat) (p : Node Pt × Nat) : Node Pt := { p.1 with ci := some (base + π.idxOf p.2) }

/-- **`_end_of_divison`, exactly** (C08's model): the old nodes are untouched, the `j`-th new node (table order)
receives `current_max_ci + π.idxOf j` where `π = shuffle (seed 15) n` is the permutation numpy applies to the list of
the `n` new nodes. -/
theorem endOfDivision_exact (ext : Ext Γ Pt W O) (rng : Rng R W) (hs : ShufflePerm rng) (r : R)
    (kind : PolyKind) (g : Γ) (nodes : List (Node Pt)) (ks : List Pt) (lvl base : Nat)
    (cache : Option (List Pt) × Nat)
    (hlv : ∀ nd ∈ nodes, nd.level < lvl) (hnd : ks.Nodup) (hdis : ∀ p ∈ ks, p ∉ keys nodes) :
    (endOfDivision rng r { kind := kind, g := g, nodes := nodes ++ ks.map (mkNode ext lvl), level := lvl,
                           maxCi := base, cache := cache }).2 =
      { kind := kind, g := g,
        nodes := nodes ++ (ks.map (mkNode ext lvl)).zipIdx.map (withCi (rng.shuffle (rng.seed 15) ks.length).2 base),
        level := lvl + 1, maxCi := base + ks.length, cache := cache } := by
  have hnew : ((nodes ++ ks.map (mkNode ext lvl)).filter (fun nd => nd.level == lvl)).map (·.key) = ks := by
    rw [List.filter_append]
    have h1 : nodes.filter (fun nd => nd.level == lvl) = [] := by
      rw [List.filter_eq_nil_iff]
      intro nd hnd'
      have := hlv nd hnd'
      simp only [beq_iff_eq]; omega
    have h2 : (ks.map (mkNode ext lvl)).filter (fun nd => nd.level == lvl) = ks.map (mkNode ext lvl) := by
      rw [List.filter_eq_self]
      intro e hee
      obtain ⟨q, _, rfl⟩ := List.mem_map.mp hee
      simp [mkNode]
    rw [h1, h2, List.nil_append]
    exact keys_map_mk ext lvl ks
  have hπ := hs (rng.seed 15) ks.length
  unfold endOfDivision
  simp only [hnew]
  generalize (rng.shuffle (rng.seed 15) ks.length) = shr at hπ ⊢
  obtain ⟨r', π⟩ := shr
  simp only at hπ
  have hπlt : ∀ x ∈ π, x < ks.length := fun x hx => List.mem_range.mp (hπ.subset hx)
  have hshp : (applyPerm π ks).Perm ks := applyPerm_perm π ks hπ
  have hshn : (applyPerm π ks).Nodup := hshp.nodup_iff.mpr hnd
  have hl1 : ((applyPerm π ks).zipIdx).map Prod.fst = applyPerm π ks := List.zipIdx_map_fst 0 _
  have hl1n : (((applyPerm π ks).zipIdx).map Prod.fst).Nodup := by rw [hl1]; exact hshn
  have hnodes : nodes.map (updAll base (applyPerm π ks).zipIdx) = nodes := by
    conv => rhs; rw [← List.map_id nodes]
    apply List.map_congr_left
    intro nd hnd'
    apply updAll_notMem
    rw [hl1]
    intro hmem
    exact hdis nd.key (hshp.subset hmem) (List.mem_map_of_mem (f := fun n : Node Pt => n.key) hnd')
  have hextra : (ks.map (mkNode ext lvl)).map (updAll base (applyPerm π ks).zipIdx) =
      (ks.map (mkNode ext lvl)).zipIdx.map (withCi π base) := by
    conv => lhs; rw [← List.zipIdx_map_fst 0 (ks.map (mkNode ext lvl)), List.map_map]
    apply List.map_congr_left
    rintro ⟨e, j⟩ hej
    have hget : (ks.map (mkNode ext lvl))[j]? = some e := List.mk_mem_zipIdx_iff_getElem?.mp hej
    rw [List.getElem?_map] at hget
    obtain ⟨q, hq, rfl⟩ := Option.map_eq_some_iff.mp hget
    have hj : j < ks.length := by
      by_contra hc
      rw [List.getElem?_eq_none (by omega)] at hq
      cases hq
    have hjπ : j ∈ π := hπ.symm.subset (List.mem_range.mpr hj)
    have hsh : (applyPerm π ks)[π.idxOf j]? = some q := by
      rw [applyPerm_getElem? π ks hπlt, List.getElem?_idxOf hjπ]
      exact hq
    have hkey := updAll_key base (applyPerm π ks).zipIdx (mkNode ext lvl q)
    apply node_ext
    · exact hkey.1
    · exact hkey.2.1
    · exact hkey.2.2
    · exact updAll_mem base _ hl1n (mkNode ext lvl q) (π.idxOf j)
        (List.mk_mem_zipIdx_iff_getElem?.mpr hsh)
  rw [assignCi_eq_map, List.map_append, hnodes, hextra]
  congr 1
  rw [hshp.length_eq]

end C08

/-! ### C18 side: the new nodes in table order and their offsets, exactly -/

section C18

theorem addNode18_pts (l : List Molgri.Polytope.Node) (nd : Molgri.Polytope.Node) :
    (Molgri.Polytope.addNode l nd).map (·.pt) = ddStep (l.map (·.pt)) nd.pt := by
  rw [Molgri.Polytope.addNode_pts]
  by_cases h : nd.pt ∈ l.map (·.pt) <;> simp [ddStep, h]

theorem foldl_addNode18_pts {α : Type} (f : α → Molgri.Polytope.Node) (es : List α)
    (ex : List Molgri.Polytope.Node) :
    (es.foldl (fun acc e => Molgri.Polytope.addNode acc (f e)) ex).map (·.pt) =
      (es.map (fun e => (f e).pt)).foldl ddStep (ex.map (·.pt)) := by
  induction es generalizing ex with
  | nil => rfl
  | cons e t ih =>
    rw [List.foldl_cons, ih, addNode18_pts]
    rfl

/-- the new nodes of a division in C18's model: the midpoints of the edges in edge order, first occurrences -/
theorem extraNodes_pts (s : St) :
    (Molgri.Polytope.extraNodes s).map (·.pt) = dd (s.edges.map (fun e => mid e.1 e.2)) := by
  unfold Molgri.Polytope.extraNodes dd
  rw [foldl_addNode18_pts]
  rfl

/-- **the enumerate loop of C18's `_end_of_divison`, exactly**: the `j`-th node of the level receives `base + σ j`. -/
theorem assignGo_exact (σ : Nat → Nat) (lvl base : Nat) (l : List Molgri.Polytope.Node) (j : Nat)
    (h : ∀ nd ∈ l, nd.level = lvl) :
    Molgri.Polytope.assignGo σ lvl base l j =
      (l.zipIdx j).map (fun p => { p.1 with idx := base + σ p.2 }) := by
  induction l generalizing j with
  | nil => rfl
  | cons a t ih =>
    rw [Molgri.Polytope.assignGo, if_pos (h a List.mem_cons_self), List.zipIdx_cons, List.map_cons,
      ih _ (fun nd hnd => h nd (List.mem_cons_of_mem _ hnd))]

theorem preDiv_cur (kind : Kind) (s : St) : (preDiv kind s).cur = s.cur := by cases kind <;> rfl
theorem preDiv_maxCi (kind : Kind) (s : St) : (preDiv kind s).maxCi = s.maxCi := by cases kind <;> rfl

/-- node table and `current_max_ci` after one more division, for each class -/
theorem iter_succ_eq (σ : Nat → Nat → Nat → Nat) (kind : Kind) (d : Nat) :
    (Molgri.Polytope.iter σ kind (d + 1)).nodes =
      (Molgri.Polytope.endOfDivision σ (Molgri.Polytope.addMidEdgeNodes
        (preDiv kind (Molgri.Polytope.iter σ kind d)))).nodes ∧
    (Molgri.Polytope.iter σ kind (d + 1)).maxCi =
      (Molgri.Polytope.endOfDivision σ (Molgri.Polytope.addMidEdgeNodes
        (preDiv kind (Molgri.Polytope.iter σ kind d)))).maxCi := by
  cases kind with
  | ico => exact ⟨rfl, rfl⟩
  | cube3 =>
    refine ⟨?_, ?_⟩
    · show (Molgri.Polytope.divide σ .cube3 _).nodes = _
      rw [Molgri.Polytope.divide_cube σ .cube3 (Or.inl rfl), Molgri.Polytope.passes_nodes]; rfl
    · show (Molgri.Polytope.divide σ .cube3 _).maxCi = _
      rw [Molgri.Polytope.divide_cube σ .cube3 (Or.inl rfl), Molgri.Polytope.passes_maxCi]; rfl
  | cube4 =>
    refine ⟨?_, ?_⟩
    · show (Molgri.Polytope.divide σ .cube4 _).nodes = _
      rw [Molgri.Polytope.divide_cube σ .cube4 (Or.inr rfl), Molgri.Polytope.passes_nodes]; rfl
    · show (Molgri.Polytope.divide σ .cube4 _).maxCi = _
      rw [Molgri.Polytope.divide_cube σ .cube4 (Or.inr rfl), Molgri.Polytope.passes_maxCi]; rfl

/-- the node table of C18's model after one more division, exactly: old nodes in the halved unit, then the new
nodes in table order with their offsets. -/
theorem iter_succ_exact (σ : Nat → Nat → Nat → Nat) (kind : Kind) (d : Nat) :
    (Molgri.Polytope.iter σ kind (d + 1)).nodes =
      (Molgri.Polytope.iter σ kind d).nodes.map Molgri.Polytope.dblNode ++
        Molgri.Polytope.assignGo
          (σ (d + 1) (Molgri.Polytope.extraNodes (preDiv kind (Molgri.Polytope.iter σ kind d))).length) (d + 1)
          (Molgri.Polytope.iter σ kind d).maxCi
          (Molgri.Polytope.extraNodes (preDiv kind (Molgri.Polytope.iter σ kind d))) 0 ∧
    (Molgri.Polytope.iter σ kind (d + 1)).maxCi = (Molgri.Polytope.iter σ kind d).maxCi +
      (Molgri.Polytope.extraNodes (preDiv kind (Molgri.Polytope.iter σ kind d))).length := by
  obtain ⟨hf, hl⟩ := preDiv_fresh σ kind d
  obtain ⟨h1, h2⟩ := Molgri.Polytope.divided_nodes σ _ hf hl
  obtain ⟨e1, e2⟩ := iter_succ_eq σ kind d
  rw [e1, e2, h1, h2, preDiv_nodes, preDiv_cur, preDiv_maxCi, Molgri.C18.cur_iter]
  exact ⟨rfl, rfl⟩

/-- the level-0 graph before `_end_of_divison`: vertex table in order, level 0, no index yet -/
theorem pre_facts (kind : Kind) :
    (Molgri.Polytope.pre kind).cur = 0 ∧ (Molgri.Polytope.pre kind).maxCi = 0 ∧
    (∀ nd ∈ (Molgri.Polytope.pre kind).nodes, nd.level = 0) ∧
    (Molgri.Polytope.pre kind).nodes.map (·.pt) = vertices kind := by
  cases kind <;> refine ⟨rfl, rfl, by decide +kernel, rfl⟩

theorem iter_zero_exact (σ : Nat → Nat → Nat → Nat) (kind : Kind) :
    (Molgri.Polytope.iter σ kind 0).nodes =
      Molgri.Polytope.assignGo (σ 0 (Molgri.Polytope.pre kind).nodes.length) 0 0 (Molgri.Polytope.pre kind).nodes 0 ∧
    (Molgri.Polytope.iter σ kind 0).maxCi = (Molgri.Polytope.pre kind).nodes.length := by
  obtain ⟨hc, hm, hl, _⟩ := pre_facts kind
  have h := Molgri.Polytope.endOfDivision_nodes σ (Molgri.Polytope.pre kind) [] (Molgri.Polytope.pre kind).nodes
    (by simp) (by simp) (by rw [hc]; exact hl)
  rw [show Molgri.Polytope.iter σ kind 0 = Molgri.Polytope.create σ kind from rfl, Molgri.Polytope.create_eq]
  rw [h.1, h.2, hc, hm]
  simp

end C18

/-! ### the offset table induced by the shuffle -/

section Induced
variable {K : Type} [Field K] [LinearOrder K] [IsStrictOrderedRing K] {W O R : Type}

/-- **The offset table C08's shuffle induces in C18's parametrisation.**  `π = rng.shuffle (rng.seed 15) n` is the
permutation numpy applies to the list of the `n` new nodes (`shuffled[i] = new[π[i]]`); the new node at table position
`j` lands at position `π.idxOf j` of the shuffled list and receives `current_max_ci + π.idxOf j`.  So `σ = π⁻¹`,
whatever the level (the generator is re-seeded with 15 at every `_end_of_divison`). -/
def inducedσ (rng : Rng R W) : Nat → Nat → Nat → Nat :=
  fun _ n j => (rng.shuffle (rng.seed 15) n).2.idxOf j

theorem map_idxOf_self (π : List Nat) (h : π.Nodup) : π.map (fun j => π.idxOf j) = List.range π.length := by
  apply List.ext_getElem (by simp)
  intro i h1 h2
  simp only [List.getElem_map, List.getElem_range]
  exact h.idxOf_getElem i (by simpa using h1)

/-- **The induced offset table is a level-wise permutation** whenever numpy's shuffle permutes. -/
theorem induced_permFam (rng : Rng R W) (hs : ShufflePerm rng) : Molgri.Polytope.PermFam (inducedσ rng) := by
  intro l n
  have hπ := hs (rng.seed 15) n
  have hnd : (rng.shuffle (rng.seed 15) n).2.Nodup := hπ.nodup_iff.mpr List.nodup_range
  have h1 := (hπ.symm.map (fun j => (rng.shuffle (rng.seed 15) n).2.idxOf j))
  rw [map_idxOf_self _ hnd, hπ.length_eq, List.length_range] at h1
  exact h1

/-- a node of C18's model as a node of C08's table: key in the level-independent unit, same level, projection of the
key, `central_index = idx` -/
def back (φ : K) (base : Ext St (List K) W O) (kind : Kind) (d : Nat) (nd : Molgri.Polytope.Node) : Node (List K) :=
  { key := keyAt φ kind d nd.pt, level := nd.level, proj := base.proj (keyAt φ kind d nd.pt), ci := some nd.idx }

variable (φ : K) (base : Ext St (List K) W O) (rng : Rng R W)

theorem back_dblNode (kind : Kind) (d : Nat) (nd : Molgri.Polytope.Node) :
    back φ base kind (d + 1) (Molgri.Polytope.dblNode nd) = back φ base kind d nd := by
  unfold back Molgri.Polytope.dblNode
  simp only [keyAt_succ_dbl]

/-- the new nodes of one level, matched: C18's enumerate loop with the induced offsets gives, node by node, what
C08's shuffle gives. -/
theorem match_new (σ : Nat → Nat → Nat → Nat) (kind : Kind) (X : List Molgri.Polytope.Node) (lvl d' b : Nat)
    (hX : ∀ x ∈ X, x.level = lvl) :
    (Molgri.Polytope.assignGo (inducedσ rng lvl X.length) lvl b X 0).map (back φ base kind d') =
      ((((X.map (·.pt)).map (keyAt φ kind d')).map (mkNode (withPolytopes σ φ base) lvl)).zipIdx.map
        (withCi (rng.shuffle (rng.seed 15) ((X.map (·.pt)).map (keyAt φ kind d')).length).2 b)) := by
  rw [assignGo_exact _ _ _ _ _ hX, List.map_map, List.map_map, List.map_map, List.zipIdx_map, List.map_map]
  apply List.map_congr_left
  rintro ⟨x, j⟩ hxj
  have hx : x ∈ X := by
    have := List.mk_mem_zipIdx_iff_getElem?.mp hxj
    exact List.mem_of_getElem? this
  simp only [Function.comp, back, withCi, mkNode, Prod.map, id, inducedσ, List.length_map, hX x hx]
  rfl

/-- the key map is injective on the nodes of a level -/
theorem keyAt_injOn (hφ : φ * φ = φ + 1) (σ : Nat → Nat → Nat → Nat) (kind : Kind) (d : Nat) :
    ∀ p ∈ (Molgri.Polytope.iter σ kind d).nodes.map (·.pt), ∀ q ∈ (Molgri.Polytope.iter σ kind d).nodes.map (·.pt),
      keyAt φ kind d p = keyAt φ kind d q → p = q := by
  intro p hp q hq h
  exact keyAt_inj φ hφ kind d (latOf_len ((iter_nodes_lat σ kind d p).mp hp))
    (latOf_len ((iter_nodes_lat σ kind d q).mp hq)) h

/-- **Index agreement (node tables are equal).**  For every polytope class and every number of divisions, the node
table of C08's canonical polytope — keys, levels, projections and permanent indices, in table order — is the node table
of C18's polytope for the induced offset table, and the two `current_max_ci` agree.  Hypotheses: `φ² = φ + 1`, numpy's
shuffle permutes. -/
theorem index_sync (hφ : φ * φ = φ + 1) (hs : ShufflePerm rng) (k : PolyKind) (d : Nat) :
    (canonPoly (withPolytopes (inducedσ rng) φ base) rng k d).nodes =
      (Molgri.Polytope.iter (inducedσ rng) (kindOf k) d).nodes.map (back φ base (kindOf k) d) ∧
    (canonPoly (withPolytopes (inducedσ rng) φ base) rng k d).maxCi =
      (Molgri.Polytope.iter (inducedσ rng) (kindOf k) d).maxCi := by
  induction d with
  | zero =>
    obtain ⟨hc, hm, hl, hv⟩ := pre_facts (kindOf k)
    obtain ⟨e1, e2⟩ := iter_zero_exact (inducedσ rng) (kindOf k)
    -- C08: the vertex table, inserted in order
    have hinj : ∀ a ∈ vertices (kindOf k), ∀ b ∈ vertices (kindOf k),
        keyAt φ (kindOf k) 0 a = keyAt φ (kindOf k) 0 b → a = b := by
      intro a ha b hb
      rw [← iter_zero_nodes (inducedσ rng) (kindOf k)] at ha hb
      exact keyAt_injOn φ hφ (inducedσ rng) (kindOf k) 0 a ha b hb
    have hvnd : (vertices (kindOf k)).Nodup := by
      rw [← iter_zero_nodes (inducedσ rng) (kindOf k)]
      exact iter_nodes_nodup (inducedσ rng) (kindOf k) 0
    have hks : dd ((vertices (kindOf k)).map (keyAt φ (kindOf k) 0)) =
        (((Molgri.Polytope.pre (kindOf k)).nodes.map (·.pt)).map (keyAt φ (kindOf k) 0)) := by
      rw [dd_map _ _ hinj, dd_of_nodup _ hvnd, hv]
    have hfold := foldl_addNode_dd (withPolytopes (inducedσ rng) φ base) 0 []
      ((vertices (kindOf k)).map (keyAt φ (kindOf k) 0)) (fun _ _ h => by cases h)
    rw [hks, List.nil_append] at hfold
    have hexact := endOfDivision_exact (withPolytopes (inducedσ rng) φ base) rng hs (rng.seed 0) k
      (Molgri.Polytope.create (inducedσ rng) (kindOf k)) []
      (((Molgri.Polytope.pre (kindOf k)).nodes.map (·.pt)).map (keyAt φ (kindOf k) 0)) 0 0 (none, 0)
      (fun _ h => by cases h)
      (by
        rw [hv]
        exact List.Nodup.map_on hinj hvnd)
      (fun _ _ h => by cases h)
    rw [List.nil_append, List.nil_append] at hexact
    have hcanon : canonPoly (withPolytopes (inducedσ rng) φ base) rng k 0 =
        (endOfDivision rng (rng.seed 0)
          { kind := k, g := Molgri.Polytope.create (inducedσ rng) (kindOf k),
            nodes := (((Molgri.Polytope.pre (kindOf k)).nodes.map (·.pt)).map (keyAt φ (kindOf k) 0)).map
              (mkNode (withPolytopes (inducedσ rng) φ base) 0),
            level := 0, maxCi := 0, cache := (none, 0) }).2 := by
      show (newPoly (withPolytopes (inducedσ rng) φ base) rng (rng.seed 0) k).2 = _
      unfold newPoly
      simp only
      rw [← hfold]
      rfl
    rw [hcanon, hexact, e1, e2]
    refine ⟨?_, by simp⟩
    exact (match_new φ base rng (inducedσ rng) (kindOf k) _ 0 0 0 hl).symm
  | succ d ih =>
    obtain ⟨ih1, ih2⟩ := ih
    have hsy := sync (inducedσ rng) φ base rng hφ hs k d
    have hk := canonPoly_kind (withPolytopes (inducedσ rng) φ base) rng k d
    have hlev := canonPoly_level (withPolytopes (inducedσ rng) φ base) rng k d
    obtain ⟨e1, e2⟩ := iter_succ_exact (inducedσ rng) (kindOf k) d
    have hspec := Molgri.Polytope.extraNodes_spec (preDiv (kindOf k) (Molgri.Polytope.iter (inducedσ rng) (kindOf k) d))
    -- the points handed over by the division
    have hpts : ((withPolytopes (inducedσ rng) φ base).divide (canonPoly (withPolytopes (inducedσ rng) φ base) rng k d).kind
        (canonPoly (withPolytopes (inducedσ rng) φ base) rng k d).g).2 =
        ((preDiv (kindOf k) (Molgri.Polytope.iter (inducedσ rng) (kindOf k) d)).edges.map
          (fun e => mid e.1 e.2)).map (keyAt φ (kindOf k) (d + 1)) := by
      rw [hk, hsy.g]
      show (preDiv (kindOf k) (Molgri.Polytope.iter (inducedσ rng) (kindOf k) d)).edges.map
        (fun e => keyAt φ (kindOf k) (Molgri.Polytope.iter (inducedσ rng) (kindOf k) d).cur (mid e.1 e.2)) = _
      rw [Molgri.C18.cur_iter, List.map_map]
      rfl
    have hg : ((withPolytopes (inducedσ rng) φ base).divide (canonPoly (withPolytopes (inducedσ rng) φ base) rng k d).kind
        (canonPoly (withPolytopes (inducedσ rng) φ base) rng k d).g).1 =
        Molgri.Polytope.iter (inducedσ rng) (kindOf k) (d + 1) := by
      rw [hk, hsy.g]; rfl
    have hfresh : ∀ p ∈ ((preDiv (kindOf k) (Molgri.Polytope.iter (inducedσ rng) (kindOf k) d)).edges.map
          (fun e => mid e.1 e.2)).map (keyAt φ (kindOf k) (d + 1)),
        p ∉ keys (canonPoly (withPolytopes (inducedσ rng) φ base) rng k d).nodes := by
      have h := divide_points_fresh (inducedσ rng) φ base rng hφ k d hsy
      rw [← hpts, hk]
      exact h
    -- midpoints are nodes of the next level, on which the key map is injective
    have hmid : ∀ a ∈ (preDiv (kindOf k) (Molgri.Polytope.iter (inducedσ rng) (kindOf k) d)).edges.map
        (fun e => mid e.1 e.2), a ∈ (Molgri.Polytope.iter (inducedσ rng) (kindOf k) (d + 1)).nodes.map (·.pt) := by
      intro a ha
      obtain ⟨e, he, rfl⟩ := List.mem_map.mp ha
      exact (mem_iter_succ (inducedσ rng) (kindOf k) d _).mpr (Or.inr ⟨e, he, rfl⟩)
    have hinj : ∀ a ∈ (preDiv (kindOf k) (Molgri.Polytope.iter (inducedσ rng) (kindOf k) d)).edges.map
        (fun e => mid e.1 e.2), ∀ b ∈ (preDiv (kindOf k) (Molgri.Polytope.iter (inducedσ rng) (kindOf k) d)).edges.map
        (fun e => mid e.1 e.2), keyAt φ (kindOf k) (d + 1) a = keyAt φ (kindOf k) (d + 1) b → a = b :=
      fun a ha b hb => keyAt_injOn φ hφ (inducedσ rng) (kindOf k) (d + 1) a (hmid a ha) b (hmid b hb)
    have hks : dd (((preDiv (kindOf k) (Molgri.Polytope.iter (inducedσ rng) (kindOf k) d)).edges.map
          (fun e => mid e.1 e.2)).map (keyAt φ (kindOf k) (d + 1))) =
        ((Molgri.Polytope.extraNodes (preDiv (kindOf k) (Molgri.Polytope.iter (inducedσ rng) (kindOf k) d))).map
          (·.pt)).map (keyAt φ (kindOf k) (d + 1)) := by
      rw [dd_map _ _ hinj, extraNodes_pts]
    have hfold := foldl_addNode_dd (withPolytopes (inducedσ rng) φ base) (d + 1)
      (canonPoly (withPolytopes (inducedσ rng) φ base) rng k d).nodes _ hfresh
    rw [hks] at hfold
    have hksnd : (((Molgri.Polytope.extraNodes (preDiv (kindOf k) (Molgri.Polytope.iter (inducedσ rng) (kindOf k) d))).map
          (·.pt)).map (keyAt φ (kindOf k) (d + 1))).Nodup := by
      rw [← hks]; exact nodup_dd _
    have hdis : ∀ p ∈ ((Molgri.Polytope.extraNodes (preDiv (kindOf k) (Molgri.Polytope.iter (inducedσ rng) (kindOf k) d))).map
          (·.pt)).map (keyAt φ (kindOf k) (d + 1)),
        p ∉ keys (canonPoly (withPolytopes (inducedσ rng) φ base) rng k d).nodes := by
      intro p hp
      rw [← hks, mem_dd] at hp
      exact hfresh p hp
    have hexact := endOfDivision_exact (withPolytopes (inducedσ rng) φ base) rng hs (rng.seed 0) k
      (Molgri.Polytope.iter (inducedσ rng) (kindOf k) (d + 1))
      (canonPoly (withPolytopes (inducedσ rng) φ base) rng k d).nodes _ (d + 1)
      (canonPoly (withPolytopes (inducedσ rng) φ base) rng k d).maxCi
      (canonPoly (withPolytopes (inducedσ rng) φ base) rng k d).cache
      (by intro nd hnd; have := hsy.inv.lvl nd hnd; rw [hlev] at this; exact this) hksnd hdis
    have hcanon : canonPoly (withPolytopes (inducedσ rng) φ base) rng k (d + 1) =
        (endOfDivision rng (rng.seed 0)
          { kind := k, g := Molgri.Polytope.iter (inducedσ rng) (kindOf k) (d + 1),
            nodes := (canonPoly (withPolytopes (inducedσ rng) φ base) rng k d).nodes ++
              (((Molgri.Polytope.extraNodes (preDiv (kindOf k) (Molgri.Polytope.iter (inducedσ rng) (kindOf k) d))).map
                (·.pt)).map (keyAt φ (kindOf k) (d + 1))).map (mkNode (withPolytopes (inducedσ rng) φ base) (d + 1)),
            level := d + 1, maxCi := (canonPoly (withPolytopes (inducedσ rng) φ base) rng k d).maxCi,
            cache := (canonPoly (withPolytopes (inducedσ rng) φ base) rng k d).cache }).2 := by
      show (divideEdges (withPolytopes (inducedσ rng) φ base) rng (rng.seed 0)
        (canonPoly (withPolytopes (inducedσ rng) φ base) rng k d)).2 = _
      unfold divideEdges
      simp only
      rw [hpts, hg, hlev, hfold, hk]
    rw [hcanon, hexact, e1, e2, List.map_append]
    dsimp only
    refine ⟨?_, ?_⟩
    · congr 1
      · rw [ih1, List.map_map]
        apply List.map_congr_left
        intro nd _
        exact (back_dblNode φ base (kindOf k) d nd).symm
      · rw [ih2]
        refine (match_new φ base rng (inducedσ rng) (kindOf k) _ (d + 1) (d + 1) _ ?_).symm
        intro x hx
        rw [(hspec.1 x hx).1, preDiv_cur, Molgri.C18.cur_iter]
    · simp only [List.length_map]
      rw [ih2]

end Induced

/-! ### sorting: C08's stable sort by `central_index` and C18's `sortByIdx` give the same rows -/

section Sorting
variable {Γ Pt W O R : Type} [DecidableEq Pt]

theorem insertBy_map {α β : Type} (key : β → Nat) (f : α → β) (a : α) (l : List α) :
    insertBy key (f a) (l.map f) = (insertBy (fun x => key (f x)) a l).map f := by
  induction l with
  | nil => rfl
  | cons b l ih =>
    simp only [List.map_cons, insertBy]
    split
    · rfl
    · rw [ih]; rfl

theorem sortBy_map {α β : Type} (key : β → Nat) (f : α → β) (l : List α) :
    sortBy key (l.map f) = (sortBy (fun x => key (f x)) l).map f := by
  induction l with
  | nil => rfl
  | cons a l ih =>
    simp only [List.map_cons, sortBy]
    rw [ih, insertBy_map]

/-- with pairwise different indices, C08's `sorted(..., key=central_index)` (stable insertion sort) and C18's
`sortByIdx` are the same list -/
theorem sortBy_idx_eq (L : List Molgri.Polytope.Node) (hnd : (L.map (·.idx)).Nodup) :
    sortBy (fun nd : Molgri.Polytope.Node => nd.idx) L = Molgri.Polytope.sortByIdx L :=
  sortBy_unique _ L _ (Molgri.Polytope.sortByIdx_perm L) (Molgri.Polytope.sortByIdx_sorted L)
    (fun _ ha _ hb h => List.inj_on_of_nodup_map hnd ha hb h)

/-- `get_nodes(N, projection)` as a function of the node table, when keys are distinct and every node has an index -/
theorem getNodesPure_eq (nodes : List (Node Pt)) (hn : (keys nodes).Nodup)
    (hc : ∀ nd ∈ nodes, ∃ c, nd.ci = some c) (N : Option Nat) (proj : Bool) :
    getNodesPure nodes N proj =
      if N.getD nodes.length > nodes.length then .error .valueError
      else .ok ((if proj then projRows nodes else sortedKeys nodes).take (N.getD nodes.length)) := by
  unfold getNodesPure
  simp only
  by_cases hN : N.getD nodes.length > nodes.length
  · rw [if_pos hN, if_pos hN]
  · rw [if_neg hN, if_neg hN, sortedPure_eq, sortByCi_ok nodes hc]
    simp only
    cases proj
    · simp only [Bool.false_eq_true, if_false]
    · simp only [if_true]
      unfold sortedKeys
      rw [mapE_lookup nodes hn _ (fun nd h => (sortBy_perm ciKey nodes).subset h)]
      rfl

end Sorting

/-! ### C18's index theorems on C08's polytopes -/

section Transfer
variable {K : Type} [Field K] [LinearOrder K] [IsStrictOrderedRing K] {W O R : Type}
variable (φ : K) (base : Ext St (List K) W O) (rng : Rng R W)

/-- **C18 `index_bijection` on C08's polytopes** ("permanent indices are 0..n-1"): the `central_index` attributes of
the node table of C08's canonical polytope are a rearrangement of `0, …, n-1`. -/
theorem ci_bijection (hφ : φ * φ = φ + 1) (hs : ShufflePerm rng) (k : PolyKind) (d : Nat) :
    ((canonPoly (withPolytopes (inducedσ rng) φ base) rng k d).nodes.map (·.ci)).Perm
      ((List.range (canonPoly (withPolytopes (inducedσ rng) φ base) rng k d).nodes.length).map some) := by
  obtain ⟨h1, _⟩ := index_sync φ base rng hφ hs k d
  rw [h1, List.map_map, List.length_map]
  have := (Molgri.C18.index_bijection (inducedσ rng) (induced_permFam rng hs) (kindOf k) d).map some
  rw [List.map_map] at this
  exact this

/-- **C18 `level_monotone` on C08's polytopes** ("all indices of an earlier level below those of a later one"). -/
theorem ci_level_monotone (hφ : φ * φ = φ + 1) (hs : ShufflePerm rng) (k : PolyKind) (d : Nat)
    (a b : Node (List K)) (ha : a ∈ (canonPoly (withPolytopes (inducedσ rng) φ base) rng k d).nodes)
    (hb : b ∈ (canonPoly (withPolytopes (inducedσ rng) φ base) rng k d).nodes) (hab : a.level < b.level) :
    ∃ ca cb, a.ci = some ca ∧ b.ci = some cb ∧ ca < cb := by
  obtain ⟨h1, _⟩ := index_sync φ base rng hφ hs k d
  rw [h1] at ha hb
  obtain ⟨a', ha', rfl⟩ := List.mem_map.mp ha
  obtain ⟨b', hb', rfl⟩ := List.mem_map.mp hb
  exact ⟨a'.idx, b'.idx, rfl, rfl,
    Molgri.C18.level_monotone (inducedσ rng) (induced_permFam rng hs) (kindOf k) d a' b' ha' hb' hab⟩

/-- **C18 `index_stable` on C08's polytopes** ("… and unchanged by later subdivisions"): every entry of the node
table — key, level, projection and permanent index — is still in the table after any number of further divisions. -/
theorem ci_stable (hφ : φ * φ = φ + 1) (hs : ShufflePerm rng) (k : PolyKind) (d m : Nat) (nd : Node (List K))
    (hnd : nd ∈ (canonPoly (withPolytopes (inducedσ rng) φ base) rng k d).nodes) :
    nd ∈ (canonPoly (withPolytopes (inducedσ rng) φ base) rng k (d + m)).nodes := by
  obtain ⟨h1, _⟩ := index_sync φ base rng hφ hs k d
  obtain ⟨h2, _⟩ := index_sync φ base rng hφ hs k (d + m)
  rw [h1] at hnd
  rw [h2]
  obtain ⟨x, hx, rfl⟩ := List.mem_map.mp hnd
  obtain ⟨x', hx', hpt, hidx, hlvl, _⟩ := Molgri.C18.index_stable (inducedσ rng) (kindOf k) d m x hx
  refine List.mem_map.mpr ⟨x', hx', ?_⟩
  unfold back
  rw [hpt, hidx, hlvl, keyAt_smul_pow]

/-- … and conversely C18's node `x` of level `d` is found in C08's table `m` divisions later under the key of `x`
with `central_index = x.idx`. -/
theorem ci_of_c18_node (hφ : φ * φ = φ + 1) (hs : ShufflePerm rng) (k : PolyKind) (d m : Nat)
    (x : Molgri.Polytope.Node) (hx : x ∈ (Molgri.Polytope.iter (inducedσ rng) (kindOf k) d).nodes) :
    back φ base (kindOf k) d x ∈ (canonPoly (withPolytopes (inducedσ rng) φ base) rng k (d + m)).nodes := by
  apply ci_stable φ base rng hφ hs k d m
  rw [(index_sync φ base rng hφ hs k d).1]
  exact List.mem_map_of_mem hx

/-- the row C08's `get_nodes` returns for a node of C18's model -/
def rowOf (kind : Kind) (d : Nat) (proj : Bool) (nd : Molgri.Polytope.Node) : List K :=
  if proj then base.proj (keyAt φ kind d nd.pt) else keyAt φ kind d nd.pt

theorem sorted_sync (hφ : φ * φ = φ + 1) (hs : ShufflePerm rng) (k : PolyKind) (d : Nat) :
    sortBy ciKey (canonPoly (withPolytopes (inducedσ rng) φ base) rng k d).nodes =
      (Molgri.Polytope.sortByIdx (Molgri.Polytope.iter (inducedσ rng) (kindOf k) d).nodes).map
        (back φ base (kindOf k) d) := by
  obtain ⟨h1, _⟩ := index_sync φ base rng hφ hs k d
  have hg := Molgri.C18.good_iter (inducedσ rng) (induced_permFam rng hs) (kindOf k) d
  rw [h1, sortBy_map]
  have : (fun x : Molgri.Polytope.Node => ciKey (back φ base (kindOf k) d x)) = fun x => x.idx := rfl
  rw [this, sortBy_idx_eq _ (hg.perm.nodup_iff.mpr List.nodup_range)]

/-- **C08's `get_nodes` = C18's `get_nodes`, row by row.**  On the canonical polytope of every class and level,
`get_nodes(N, projection)` of C08's model returns the rows of C18's `getNodes` (C18's row order: `sortByIdx`), each
as its key (or the projection of its key), and raises `ValueError` exactly when C18's does. -/
theorem getNodes_eq_c18 (hφ : φ * φ = φ + 1) (hs : ShufflePerm rng) (k : PolyKind) (d : Nat) (N : Option Nat)
    (proj : Bool) :
    (getNodes (canonPoly (withPolytopes (inducedσ rng) φ base) rng k d) N proj).2 =
      match Molgri.Polytope.getNodes (Molgri.Polytope.iter (inducedσ rng) (kindOf k) d) N with
      | .ok rows => .ok (rows.map (rowOf φ base (kindOf k) d proj))
      | .error _ => .error .valueError := by
  have hsy := sync (inducedσ rng) φ base rng hφ hs k d
  obtain ⟨h1, _⟩ := index_sync φ base rng hφ hs k d
  have hlen : (canonPoly (withPolytopes (inducedσ rng) φ base) rng k d).nodes.length =
      (Molgri.Polytope.iter (inducedσ rng) (kindOf k) d).nodes.length := by rw [h1, List.length_map]
  have hslen : (Molgri.Polytope.sortByIdx (Molgri.Polytope.iter (inducedσ rng) (kindOf k) d).nodes).length =
      (Molgri.Polytope.iter (inducedσ rng) (kindOf k) d).nodes.length :=
    (Molgri.Polytope.sortByIdx_perm _).length_eq
  rw [getNodes_res _ _ _ (canonPoly_cacheOk _ rng k d),
    getNodesPure_eq _ hsy.inv.nodupKeys (fun nd hnd => (hsy.inv.ci nd hnd).imp fun c hc => hc.1) N proj]
  have hrows : (if proj then projRows (canonPoly (withPolytopes (inducedσ rng) φ base) rng k d).nodes
        else sortedKeys (canonPoly (withPolytopes (inducedσ rng) φ base) rng k d).nodes) =
      (Molgri.Polytope.sortByIdx (Molgri.Polytope.iter (inducedσ rng) (kindOf k) d).nodes).map
        (rowOf φ base (kindOf k) d proj) := by
    unfold projRows sortedKeys
    rw [sorted_sync φ base rng hφ hs k d, List.map_map, List.map_map]
    cases proj <;> rfl
  rw [hrows, hlen]
  unfold Molgri.Polytope.getNodes
  cases N with
  | none =>
    simp only [Option.getD_none, gt_iff_lt, Nat.lt_irrefl, if_false]
    rw [List.take_of_length_le (by rw [List.length_map, hslen])]
  | some n =>
    simp only [Option.getD_some, hslen]
    by_cases hn : n > (Molgri.Polytope.iter (inducedσ rng) (kindOf k) d).nodes.length
    · rw [if_pos hn, if_pos hn]
    · rw [if_neg hn, if_neg hn, ← List.map_take]

/-- **C18 `get_nodes_rows` on C08's polytopes**: row `i` of `get_nodes()` is the key of the node with permanent
index `i` — the rows are the keys of C18's rows, whose indices are `0, …, n-1` in order. -/
theorem getNodes_rows (hφ : φ * φ = φ + 1) (hs : ShufflePerm rng) (k : PolyKind) (d : Nat) (proj : Bool) :
    ∃ rows, Molgri.Polytope.getNodes (Molgri.Polytope.iter (inducedσ rng) (kindOf k) d) none = .ok rows ∧
      rows.Perm (Molgri.Polytope.iter (inducedσ rng) (kindOf k) d).nodes ∧
      rows.map (·.idx) = List.range (canonPoly (withPolytopes (inducedσ rng) φ base) rng k d).nodes.length ∧
      (getNodes (canonPoly (withPolytopes (inducedσ rng) φ base) rng k d) none proj).2 =
        .ok (rows.map (rowOf φ base (kindOf k) d proj)) := by
  obtain ⟨rows, h1, h2, h3⟩ := Molgri.C18.get_nodes_rows (inducedσ rng) (induced_permFam rng hs) (kindOf k) d
  refine ⟨rows, h1, h2, ?_, ?_⟩
  · rw [h3, (index_sync φ base rng hφ hs k d).1, List.length_map]
  · rw [getNodes_eq_c18 φ base rng hφ hs k d none proj, h1]

/-- **C18 `get_nodes_prefix` on C08's polytopes**: `get_nodes(N)` is the prefix of length `N` of `get_nodes()`, or
`ValueError` when `N` exceeds the number of nodes. -/
theorem getNodes_prefix (hφ : φ * φ = φ + 1) (hs : ShufflePerm rng) (k : PolyKind) (d N : Nat) (proj : Bool) :
    (getNodes (canonPoly (withPolytopes (inducedσ rng) φ base) rng k d) (some N) proj).2 =
      if N > (canonPoly (withPolytopes (inducedσ rng) φ base) rng k d).nodes.length then .error .valueError
      else match (getNodes (canonPoly (withPolytopes (inducedσ rng) φ base) rng k d) none proj).2 with
        | .ok rows => .ok (rows.take N)
        | .error e => .error e := by
  rw [getNodes_eq_c18 φ base rng hφ hs k d (some N) proj, getNodes_eq_c18 φ base rng hφ hs k d none proj,
    Molgri.C18.get_nodes_prefix, (index_sync φ base rng hφ hs k d).1, List.length_map]
  by_cases hN : N > (Molgri.Polytope.iter (inducedσ rng) (kindOf k) d).nodes.length
  · rw [if_pos hN, if_pos hN]
  · rw [if_neg hN, if_neg hN]
    cases Molgri.Polytope.getNodes (Molgri.Polytope.iter (inducedσ rng) (kindOf k) d) none with
    | error e => rfl
    | ok rows => simp only [Except.map, List.map_take]

end Transfer

/-! ### C08's grid arrays and prefix stability in C18's row order -/

section Grids
variable {K : Type} [Field K] [LinearOrder K] [IsStrictOrderedRing K] {W O R : Type}
variable (φ : K) (base : Ext St (List K) W O) (rng : Rng R W)

/-- **The ico / cube3D grid array in C18's row order.**  Whenever C08's construction of an `N`-point icosahedron or
cube grid succeeds (any generator state), there is a subdivision level `d` with at least `N` nodes such that the array
is: the first `N` rows of C18's `get_nodes()` order (`sortByIdx`, i.e. by permanent index) of `iter (inducedσ rng) kind d`,
each row the projection of the node's key. -/
theorem grid_rows_3d (hφ : φ * φ = φ + 1) (hs : ShufflePerm rng) (a : Alg) (ha : a = .ico ∨ a = .cube3D)
    (r : R) (N : Nat) (G : Grid St (List K))
    (h : (createGrid (withPolytopes (inducedσ rng) φ base) rng r a N).2 = .ok G) :
    ∃ d, N ≤ (Molgri.Polytope.iter (inducedσ rng) (kindOf (kindOf3 a)) d).nodes.length ∧
      G.grid = ((Molgri.Polytope.sortByIdx (Molgri.Polytope.iter (inducedσ rng) (kindOf (kindOf3 a)) d).nodes).take N).map
        (fun nd => base.proj (keyAt φ (kindOf (kindOf3 a)) d nd.pt)) := by
  have hg := concrete_grows (inducedσ rng) φ base rng hφ hs
  have key : ∃ d, N ≤ (canonPoly (withPolytopes (inducedσ rng) φ base) rng (kindOf3 a) d).nodes.length ∧
      getNodesPure (canonPoly (withPolytopes (inducedσ rng) φ base) rng (kindOf3 a) d).nodes (some N) true
        = .ok G.grid := by
    unfold createGrid at h
    generalize hx : genGrid (withPolytopes (inducedσ rng) φ base) rng r a N = x at h
    obtain ⟨x1, x2⟩ := x
    cases x2 with
    | error e => simp at h
    | ok v =>
      obtain ⟨n, p, g⟩ := v
      simp only [Except.ok.injEq] at h
      subst h
      have hgen : (genGrid (withPolytopes (inducedσ rng) φ base) rng r a N).2 = .ok (n, p, g) := by rw [hx]
      simp only
      rcases ha with rfl | rfl
      · rw [genGrid_ico] at hgen; exact gen3_spec _ rng hg _ r N n p g hgen
      · rw [genGrid_cube3D] at hgen; exact gen3_spec _ rng hg _ r N n p g hgen
  obtain ⟨d, hN, hq⟩ := key
  have hlen : (canonPoly (withPolytopes (inducedσ rng) φ base) rng (kindOf3 a) d).nodes.length =
      (Molgri.Polytope.iter (inducedσ rng) (kindOf (kindOf3 a)) d).nodes.length := by
    rw [(index_sync φ base rng hφ hs (kindOf3 a) d).1, List.length_map]
  have hslen : (Molgri.Polytope.sortByIdx (Molgri.Polytope.iter (inducedσ rng) (kindOf (kindOf3 a)) d).nodes).length =
      (Molgri.Polytope.iter (inducedσ rng) (kindOf (kindOf3 a)) d).nodes.length :=
    (Molgri.Polytope.sortByIdx_perm _).length_eq
  rw [hlen] at hN
  refine ⟨d, hN, ?_⟩
  have h2 := getNodes_eq_c18 φ base rng hφ hs (kindOf3 a) d (some N) true
  rw [getNodes_res _ _ _ (canonPoly_cacheOk _ rng (kindOf3 a) d), hq] at h2
  unfold Molgri.Polytope.getNodes at h2
  simp only [hslen, if_neg (Nat.not_lt.mpr hN)] at h2
  exact Except.ok.inj h2

/-- **C08's `prefix_stable_3d` with C18's row order.**  If the `N`-point and the `(N+M)`-point grid of the icosahedron
or cube algorithm are both constructed (any two generator states), then for one subdivision level `d` with at least
`N+M` nodes both arrays are prefixes of ONE list — C18's `get_nodes()` rows of `iter (inducedσ rng) kind d` in
permanent-index order, projected: the larger grid its first `N+M` rows, the smaller its first `N` rows. -/
theorem prefix_stable_3d_rows (hφ : φ * φ = φ + 1) (hs : ShufflePerm rng) (a : Alg) (ha : a = .ico ∨ a = .cube3D)
    (r r' : R) (N M : Nat) (G₁ G₂ : Grid St (List K))
    (h₁ : (createGrid (withPolytopes (inducedσ rng) φ base) rng r a N).2 = .ok G₁)
    (h₂ : (createGrid (withPolytopes (inducedσ rng) φ base) rng r' a (N + M)).2 = .ok G₂) :
    ∃ d, N + M ≤ (Molgri.Polytope.iter (inducedσ rng) (kindOf (kindOf3 a)) d).nodes.length ∧
      G₂.grid = ((Molgri.Polytope.sortByIdx (Molgri.Polytope.iter (inducedσ rng) (kindOf (kindOf3 a)) d).nodes).take
        (N + M)).map (fun nd => base.proj (keyAt φ (kindOf (kindOf3 a)) d nd.pt)) ∧
      G₁.grid = ((Molgri.Polytope.sortByIdx (Molgri.Polytope.iter (inducedσ rng) (kindOf (kindOf3 a)) d).nodes).take
        N).map (fun nd => base.proj (keyAt φ (kindOf (kindOf3 a)) d nd.pt)) := by
  obtain ⟨d, hN, hG₂⟩ := grid_rows_3d φ base rng hφ hs a ha r' (N + M) G₂ h₂
  refine ⟨d, hN, hG₂, ?_⟩
  rw [prefix_stable_3d_concrete (inducedσ rng) φ base rng hφ hs a ha r r' N M G₁ G₂ h₁ h₂, hG₂, ← List.map_take,
    List.take_take, Nat.min_eq_left (Nat.le_add_right N M)]

end Grids

/-! ### every history -/

section Histories
variable {K : Type} [Field K] [LinearOrder K] [IsStrictOrderedRing K] {W O R : Type}
variable (φ : K) (base : Ext St (List K) W O) (rng : Rng R W)

/-- **Index agreement for every polytope of every history.**  After ANY history (any interleaving of reseeding,
draws, constructions, subdivisions, getters, grid constructions) from any generator state, every live polytope object
of C08's model carries C18's graph, C18's node table (keys, levels, projections, permanent indices, in table order) and
C18's `current_max_ci`, for its kind and its number of divisions `current_level - 1`. -/
theorem history_index_sync (hφ : φ * φ = φ + 1) (hs : ShufflePerm rng) (r₀ : R) (ops : List Op)
    (P : Poly St (List K)) (hP : P ∈ (run (withPolytopes (inducedσ rng) φ base) rng r₀ ops).1.polys) :
    P.g = Molgri.Polytope.iter (inducedσ rng) (kindOf P.kind) (P.level - 1) ∧
    P.nodes = (Molgri.Polytope.iter (inducedσ rng) (kindOf P.kind) (P.level - 1)).nodes.map
      (back φ base (kindOf P.kind) (P.level - 1)) ∧
    P.maxCi = (Molgri.Polytope.iter (inducedσ rng) (kindOf P.kind) (P.level - 1)).maxCi := by
  obtain ⟨d, hc, _⟩ := run_polysOk _ rng (concrete_grows (inducedσ rng) φ base rng hφ hs) r₀ ops P hP
  have hl : P.level - 1 = d := by rw [PolyOk.level hc]; rfl
  obtain ⟨_, h2, h3, _, h5⟩ := hc
  obtain ⟨e1, e2⟩ := index_sync φ base rng hφ hs P.kind d
  rw [hl, h2, h3, h5]
  exact ⟨(sync (inducedσ rng) φ base rng hφ hs P.kind d).g, e1, e2⟩

/-- **Every `get_nodes` output of every history is C18's rows.**  If the `t`-th op of a history is
`get_nodes(N, projection)` on a live polytope of kind `k` that has been divided `l - 1` times so far, its output is
the list of rows of C18's `getNodes (iter (inducedσ rng) k (l-1)) N` (C18's row order), or `ValueError` when C18's
model raises. -/
theorem history_nodes_output (hφ : φ * φ = φ + 1) (hs : ShufflePerm rng) (r₀ : R) (ops : List Op) (t : Nat)
    (ht : t < ops.length) (h : Nat) (N : Option Nat) (proj : Bool) (hop : ops[t] = .nodes h N proj)
    (k : PolyKind) (l : Nat)
    (hsp : (Molgri.C08.historySpecs (withPolytopes (inducedσ rng) φ base) rng (ops.take t)).polys[h]? = some (k, l)) :
    (run (withPolytopes (inducedσ rng) φ base) rng r₀ ops).2[t]? = some
      (match Molgri.Polytope.getNodes (Molgri.Polytope.iter (inducedσ rng) (kindOf k) (l - 1)) N with
       | .ok rows => .pts (rows.map (rowOf φ base (kindOf k) (l - 1) proj))
       | .error _ => .err .valueError) := by
  rw [output_history_independent_concrete (inducedσ rng) φ base rng hφ hs r₀ ops t ht, hop]
  simp only [Molgri.C08.freshOut, hsp]
  rw [getNodes_eq_c18 φ base rng hφ hs k (l - 1) N proj]
  cases Molgri.Polytope.getNodes (Molgri.Polytope.iter (inducedσ rng) (kindOf k) (l - 1)) N <;> rfl

end Histories

/-! ### the half selection of the hypercube in C18's row order -/

section HalfGeneric
variable {Γ Pt W O R : Type} [DecidableEq Pt]

theorem sortBy_of_sorted {α : Type} (key : α → Nat) (l : List α) (hs : l.Pairwise (fun x y => key x ≤ key y))
    (hinj : ∀ a ∈ l, ∀ b ∈ l, key a = key b → a = b) : sortBy key l = l :=
  sortBy_unique key l l (List.Perm.refl _) hs hinj

theorem findIdx_of_nodup (P : List Pt) (hP : P.Nodup) (u : Pt) (i : Nat) (h : P[i]? = some u) :
    P.findIdx (fun q => q == u) = i := by
  have hi : i < P.length := by
    by_contra hc
    rw [List.getElem?_eq_none (by omega)] at h
    cases h
  have hu : P[i] = u := by
    rw [List.getElem?_eq_getElem hi] at h
    exact Option.some.inj h
  rw [List.findIdx_eq hi]
  refine ⟨by simp [hu], ?_⟩
  intro j hji
  simp only [beq_eq_false_iff_ne, ne_eq]
  intro he
  have : j = i := (List.Nodup.getElem_inj_iff hP).1 (he.trans hu.symm)
  omega

/-- `all_ci` of `get_half_of_hypercube` when the projected rows are pairwise different: the row numbers of the upper
rows, ascending. -/
theorem halfIdx_map {α : Type} (ext : Ext Γ Pt W O) (X : List α) (g : α → Pt) (hg : (X.map g).Nodup) :
    halfIdx ext (X.map g) = (X.zipIdx.filter (fun p => ext.upper (g p.1))).map (·.2) := by
  unfold halfIdx
  have h1 : ((X.map g).filter ext.upper).map (fun u => (X.map g).findIdx (fun q => q == u)) =
      (X.zipIdx.filter (fun p => ext.upper (g p.1))).map (·.2) := by
    have hX : X.map g = X.zipIdx.map (fun p => g p.1) := by
      conv => lhs; rw [← List.zipIdx_map_fst 0 X, List.map_map]
      rfl
    conv => lhs; arg 2; rw [hX, List.filter_map]
    rw [List.map_map]
    apply List.map_congr_left
    rintro ⟨x, i⟩ hxi
    have hmem := (List.mem_filter.mp hxi).1
    have hget : X[i]? = some x := List.mk_mem_zipIdx_iff_getElem?.mp hmem
    apply findIdx_of_nodup _ hg
    rw [List.getElem?_map, hget]
    rfl
  rw [h1]
  apply sortBy_of_sorted
  · have hsub : ((X.zipIdx.filter (fun p => ext.upper (g p.1))).map (·.2)).Sublist (X.zipIdx.map (·.2)) :=
      List.filter_sublist.map _
    have hsnd : X.zipIdx.map (·.2) = List.range' 0 X.length := List.zipIdx_map_snd 0 X
    rw [hsnd] at hsub
    exact (List.Pairwise.sublist hsub (List.pairwise_lt_range' 1)).imp (fun h => Nat.le_of_lt h)
  · intro a _ b _ h; exact h

/-- numpy fancy indexing with row numbers taken from the table itself -/
theorem pick_sub {α β : Type} (X : List α) (f : α → β) (S : List (α × Nat)) (hS : ∀ p ∈ S, p ∈ X.zipIdx) :
    pick (X.map f) (S.map (·.2)) = .ok (S.map (fun p => f p.1)) := by
  unfold pick
  induction S with
  | nil => rfl
  | cons p S ih =>
    obtain ⟨x, i⟩ := p
    have hget : X[i]? = some x := List.mk_mem_zipIdx_iff_getElem?.mp (hS (x, i) List.mem_cons_self)
    have hm : (List.map f X)[i]? = some (f x) := by rw [List.getElem?_map, hget]; rfl
    simp only [List.map_cons, mapE, hm]
    rw [ih (fun q hq => hS q (List.mem_cons_of_mem _ hq))]

/-- `get_half_of_hypercube(N, projection)` when the rows of `get_nodes` are `X.map f` (requested) and `X.map g`
(projected, pairwise different): the upper rows in row order, or `ValueError`. -/
theorem halfPure_of_rows {α : Type} (ext : Ext Γ Pt W O) (nodes : List (Node Pt)) (hn : (keys nodes).Nodup)
    (hc : ∀ nd ∈ nodes, ∃ c, nd.ci = some c) (proj : Bool) (X : List α) (f g : α → Pt)
    (hg : projRows nodes = X.map g) (hf : (if proj then projRows nodes else sortedKeys nodes) = X.map f)
    (hnd : (X.map g).Nodup) (N : Option Nat) :
    halfPure ext .cube4D nodes N proj =
      if N.getD (X.filter (fun x => ext.upper (g x))).length > (X.filter (fun x => ext.upper (g x))).length
      then .error .valueError
      else .ok (((X.filter (fun x => ext.upper (g x))).map f).take
        (N.getD (X.filter (fun x => ext.upper (g x))).length)) := by
  have hfilt : (X.zipIdx.filter (fun p => ext.upper (g p.1))).map (fun p => p.1) =
      X.filter (fun x => ext.upper (g x)) := by
    have : (fun p : α × Nat => ext.upper (g p.1)) = (fun x => ext.upper (g x)) ∘ Prod.fst := rfl
    rw [this, ← List.filter_map, List.zipIdx_map_fst]
  have hlen : ((X.zipIdx.filter (fun p => ext.upper (g p.1))).map (·.2)).length =
      (X.filter (fun x => ext.upper (g x))).length := by
    rw [← hfilt, List.length_map, List.length_map]
  unfold halfPure
  simp only [ne_eq, not_true_eq_false, if_false]
  rw [getNodesPure_all nodes hn hc true, getNodesPure_all nodes hn hc proj]
  simp only [if_true]
  have hidx0 : sortBy id (List.map (fun u => List.findIdx (fun q => q == u) (projRows nodes))
      (List.filter ext.upper (projRows nodes))) = halfIdx ext (projRows nodes) := rfl
  rw [hidx0, hf, hg, halfIdx_map ext X g hnd, hlen,
    pick_sub X f _ (fun p hp => (List.mem_filter.mp hp).1)]
  simp only
  rw [← hfilt, List.map_map]
  rfl

end HalfGeneric

section C18Half

theorem insertNat_length (n : Nat) (l : List Nat) : (Molgri.Polytope.insertNat n l).length = l.length + 1 := by
  induction l with
  | nil => rfl
  | cons a t ih =>
    unfold Molgri.Polytope.insertNat
    split
    · rfl
    · simp [ih]

theorem sortNat_length (l : List Nat) : (Molgri.Polytope.sortNat l).length = l.length := by
  unfold Molgri.Polytope.sortNat
  induction l with
  | nil => rfl
  | cons a t ih => simp only [List.foldr_cons, insertNat_length, ih, List.length_cons]

/-- C18's `get_half_of_hypercube(N)` for every `N`: the upper rows of `get_nodes()` in row order, `ValueError` when
more are requested than exist (extends `Molgri.Polytope.getHalf_eq`, which is the case `N = None`). -/
theorem getHalf_cases {s : St} (h : Molgri.Polytope.Good s) (N : Option Nat) :
    Molgri.Polytope.getHalf s N =
      if N.getD ((Molgri.Polytope.sortByIdx s.nodes).filter (fun nd => Molgri.Polytope.inUpper nd.pt)).length >
          ((Molgri.Polytope.sortByIdx s.nodes).filter (fun nd => Molgri.Polytope.inUpper nd.pt)).length
      then .error "ValueError"
      else .ok (((Molgri.Polytope.sortByIdx s.nodes).filter (fun nd => Molgri.Polytope.inUpper nd.pt)).take
        (N.getD ((Molgri.Polytope.sortByIdx s.nodes).filter (fun nd => Molgri.Polytope.inUpper nd.pt)).length)) := by
  have h0 := Molgri.Polytope.getHalf_eq h
  unfold Molgri.Polytope.getHalf at h0 ⊢
  simp only at h0 ⊢
  have hsel := Except.ok.inj h0
  have hlen : (Molgri.Polytope.sortNat (((Molgri.Polytope.sortByIdx s.nodes).filter
      (fun nd => Molgri.Polytope.inUpper nd.pt)).map
        (fun nd => Molgri.Polytope.rowOf (Molgri.Polytope.sortByIdx s.nodes) nd.pt))).length =
      ((Molgri.Polytope.sortByIdx s.nodes).filter (fun nd => Molgri.Polytope.inUpper nd.pt)).length := by
    rw [sortNat_length, List.length_map]
  cases N with
  | none =>
    simp only [Option.getD_none, gt_iff_lt, Nat.lt_irrefl, if_false]
    rw [hsel, List.take_of_length_le (Nat.le_refl _)]
  | some n =>
    simp only [Option.getD_some]
    rw [hlen, hsel]

end C18Half

section Half
variable {K : Type} [Field K] [LinearOrder K] [IsStrictOrderedRing K] {W O R : Type}
variable (φ : K) (base : Ext St (List K) W O) (rng : Rng R W)

/-- the rows of C08's `get_nodes()` (projected or not) are the rows of C18's `sortByIdx` order -/
theorem rows_sync (hφ : φ * φ = φ + 1) (hs : ShufflePerm rng) (k : PolyKind) (d : Nat) (proj : Bool) :
    (if proj then projRows (canonPoly (withPolytopes (inducedσ rng) φ base) rng k d).nodes
        else sortedKeys (canonPoly (withPolytopes (inducedσ rng) φ base) rng k d).nodes) =
      (Molgri.Polytope.sortByIdx (Molgri.Polytope.iter (inducedσ rng) (kindOf k) d).nodes).map
        (rowOf φ base (kindOf k) d proj) := by
  unfold projRows sortedKeys
  rw [sorted_sync φ base rng hφ hs k d, List.map_map, List.map_map]
  cases proj <;> rfl

/-- the hemisphere test of the implementation (on the projected float row) agrees with C18's exact test (first
non-zero integer coordinate positive) on the hypercube lattice; `Bridge/Upper.lean` relates the two tests -/
def UpperAgree : Prop :=
  ∀ d p, LatOf .cube4 d p → base.upper (base.proj (keyAt φ .cube4 d p)) = Molgri.Polytope.inUpper p

/-- **C08's `get_half_of_hypercube` = C18's, row by row.**  On the canonical hypercube of every level,
`get_half_of_hypercube(N, projection)` of C08's model returns the rows of C18's `getHalf` (upper rows of `get_nodes()`
in permanent-index order), each as its key or projected key, and raises `ValueError` exactly when C18's does.
Hypotheses beyond `ShufflePerm`: radial normalisation (`Radial`, for distinct projections) and `UpperAgree`. -/
theorem half_eq_c18 (hφ : φ * φ = φ + 1) (hφ0 : 0 < φ) (hs : ShufflePerm rng) (hproj : Radial base.proj)
    (hup : UpperAgree φ base) (d : Nat) (N : Option Nat) (proj : Bool) :
    (halfOfHypercube (withPolytopes (inducedσ rng) φ base)
        (canonPoly (withPolytopes (inducedσ rng) φ base) rng .cube4D d) N proj).2 =
      match Molgri.Polytope.getHalf (Molgri.Polytope.iter (inducedσ rng) .cube4 d) N with
      | .ok rows => .ok (rows.map (rowOf φ base .cube4 d proj))
      | .error _ => .error .valueError := by
  have hsy := sync (inducedσ rng) φ base rng hφ hs .cube4D d
  have hf := concrete_fresh (inducedσ rng) φ base rng hφ hs
  have hpn := concrete_projNodup (inducedσ rng) φ base rng hφ hφ0 hs hproj
  have hg := Molgri.C18.good_iter (inducedσ rng) (induced_permFam rng hs) .cube4 d
  have hc : ∀ nd ∈ (canonPoly (withPolytopes (inducedσ rng) φ base) rng .cube4D d).nodes, ∃ c, nd.ci = some c :=
    fun nd hnd => (hsy.inv.ci nd hnd).imp fun c hc => hc.1
  have hnd : ((Molgri.Polytope.sortByIdx (Molgri.Polytope.iter (inducedσ rng) .cube4 d).nodes).map
      (rowOf φ base .cube4 d true)).Nodup := by
    have h1 := rows_sync φ base rng hφ hs .cube4D d true
    simp only [if_true] at h1
    rw [show kindOf .cube4D = Kind.cube4 from rfl] at h1
    rw [← h1]
    unfold projRows
    exact ((sortBy_perm ciKey _).map _).nodup_iff.mpr (canon_proj_nodup _ rng hs hf hpn .cube4D d)
  rw [half_res _ _ _ _ (canonPoly_cacheOk _ rng .cube4D d), canonPoly_kind,
    halfPure_of_rows _ _ hsy.inv.nodupKeys hc proj _ _ _
      (by have := rows_sync φ base rng hφ hs .cube4D d true; simp only [if_true] at this; exact this)
      (rows_sync φ base rng hφ hs .cube4D d proj) hnd N,
    getHalf_cases hg N]
  have hfil : (Molgri.Polytope.sortByIdx (Molgri.Polytope.iter (inducedσ rng) .cube4 d).nodes).filter
        (fun x => (withPolytopes (inducedσ rng) φ base).upper (rowOf φ base .cube4 d true x)) =
      (Molgri.Polytope.sortByIdx (Molgri.Polytope.iter (inducedσ rng) .cube4 d).nodes).filter
        (fun nd => Molgri.Polytope.inUpper nd.pt) := by
    apply List.filter_congr
    intro x hx
    have hx' : x.pt ∈ (Molgri.Polytope.iter (inducedσ rng) .cube4 d).nodes.map (·.pt) :=
      List.mem_map_of_mem ((Molgri.Polytope.sortByIdx_perm _).subset hx)
    exact hup d x.pt ((iter_nodes_lat (inducedσ rng) .cube4 d x.pt).mp hx')
  rw [show kindOf .cube4D = Kind.cube4 from rfl, hfil]
  split
  · rfl
  · simp only [List.map_take]

/-- **The cube4D / fulldiv grid array in C18's row order.**  Whenever C08's construction of an `N`-point hypercube
grid succeeds, there is a level `d` whose half selection has at least `N` rows such that the array is `half ++ -half`
with `half` = the first `N` upper rows of C18's `get_nodes()` order of `iter (inducedσ rng) cube4 d`, projected. -/
theorem grid_rows_hypercube (hφ : φ * φ = φ + 1) (hφ0 : 0 < φ) (hs : ShufflePerm rng) (hproj : Radial base.proj)
    (hup : UpperAgree φ base) (a : Alg) (ha : a = .cube4D ∨ a = .fulldiv) (r : R) (N : Nat) (G : Grid St (List K))
    (h : (createGrid (withPolytopes (inducedσ rng) φ base) rng r a N).2 = .ok G) :
    ∃ d, N ≤ ((Molgri.Polytope.sortByIdx (Molgri.Polytope.iter (inducedσ rng) .cube4 d).nodes).filter
        (fun nd => Molgri.Polytope.inUpper nd.pt)).length ∧
      G.grid =
        (((Molgri.Polytope.sortByIdx (Molgri.Polytope.iter (inducedσ rng) .cube4 d).nodes).filter
          (fun nd => Molgri.Polytope.inUpper nd.pt)).take N).map (fun nd => base.proj (keyAt φ .cube4 d nd.pt)) ++
        ((((Molgri.Polytope.sortByIdx (Molgri.Polytope.iter (inducedσ rng) .cube4 d).nodes).filter
          (fun nd => Molgri.Polytope.inUpper nd.pt)).take N).map (fun nd => base.proj (keyAt φ .cube4 d nd.pt))).map
          base.neg := by
  have hf := concrete_fresh (inducedσ rng) φ base rng hφ hs
  have hg := Molgri.C18.good_iter (inducedσ rng) (induced_permFam rng hs) .cube4
  obtain ⟨d, rows, _, hq, hl, hgrid⟩ := Molgri.C08.half_family_spec _ rng hs hf a ha r N G h
  have h2 := half_eq_c18 φ base rng hφ hφ0 hs hproj hup d (some N) true
  rw [half_res _ _ _ _ (canonPoly_cacheOk _ rng .cube4D d), canonPoly_kind, hq, getHalf_cases (hg d)] at h2
  simp only [Option.getD_some] at h2
  by_cases hN : N > ((Molgri.Polytope.sortByIdx (Molgri.Polytope.iter (inducedσ rng) .cube4 d).nodes).filter
      (fun nd => Molgri.Polytope.inUpper nd.pt)).length
  · rw [if_pos hN] at h2
    cases h2
  · rw [if_neg hN] at h2
    refine ⟨d, Nat.not_lt.mp hN, ?_⟩
    rw [hgrid, Except.ok.inj h2]
    rfl

/-- **C08's `prefix_stable_hypercube` with C18's row order.**  If an `N`-point and an `(N+M)`-point grid of the
hypercube family (`cube4D` / `fulldiv` in any combination) are both constructed, then for one level `d` both upper
halves are prefixes of ONE list — the upper rows of C18's `get_nodes()` of `iter (inducedσ rng) cube4 d` in
permanent-index order, projected: the larger grid its first `N+M`, the smaller its first `N`. -/
theorem prefix_stable_hypercube_rows (hφ : φ * φ = φ + 1) (hφ0 : 0 < φ) (hs : ShufflePerm rng)
    (hproj : Radial base.proj) (hup : UpperAgree φ base) (a₁ a₂ : Alg) (ha₁ : a₁ = .cube4D ∨ a₁ = .fulldiv)
    (ha₂ : a₂ = .cube4D ∨ a₂ = .fulldiv) (r r' : R) (N M : Nat) (G₁ G₂ : Grid St (List K))
    (h₁ : (createGrid (withPolytopes (inducedσ rng) φ base) rng r a₁ N).2 = .ok G₁)
    (h₂ : (createGrid (withPolytopes (inducedσ rng) φ base) rng r' a₂ (N + M)).2 = .ok G₂) :
    ∃ d half, half = ((Molgri.Polytope.sortByIdx (Molgri.Polytope.iter (inducedσ rng) .cube4 d).nodes).filter
        (fun nd => Molgri.Polytope.inUpper nd.pt)).map (fun nd => base.proj (keyAt φ .cube4 d nd.pt)) ∧
      N + M ≤ half.length ∧
      G₂.grid = half.take (N + M) ++ (half.take (N + M)).map base.neg ∧
      G₁.grid = half.take N ++ (half.take N).map base.neg := by
  obtain ⟨d, hN, hG₂⟩ := grid_rows_hypercube φ base rng hφ hφ0 hs hproj hup a₂ ha₂ r' (N + M) G₂ h₂
  obtain ⟨rows₁, rows₂, e1, e2, l1, l2, hpre⟩ := prefix_stable_hypercube_concrete (inducedσ rng) φ base rng hφ hφ0 hs
    hproj a₁ a₂ ha₁ ha₂ r r' N M G₁ G₂ h₁ h₂
  refine ⟨d, _, rfl, by rw [List.length_map]; exact hN, ?_, ?_⟩
  · rw [hG₂, List.map_take]
  · -- the upper half of the larger grid, from its two descriptions
    have hrows₂ : rows₂ = (((Molgri.Polytope.sortByIdx (Molgri.Polytope.iter (inducedσ rng) .cube4 d).nodes).filter
        (fun nd => Molgri.Polytope.inUpper nd.pt)).take (N + M)).map (fun nd => base.proj (keyAt φ .cube4 d nd.pt)) := by
      have := hG₂
      rw [e2] at this
      have hlen : rows₂.length = ((((Molgri.Polytope.sortByIdx (Molgri.Polytope.iter (inducedσ rng) .cube4 d).nodes).filter
          (fun nd => Molgri.Polytope.inUpper nd.pt)).take (N + M)).map
            (fun nd => base.proj (keyAt φ .cube4 d nd.pt))).length := by
        rw [l2, List.length_map, List.length_take, Nat.min_eq_left hN]
      exact (List.append_inj this hlen).1
    rw [e1, hpre, hrows₂, ← List.map_take, List.take_take, Nat.min_eq_left (Nat.le_add_right N M), List.map_take]

end Half

/-! ### the offset table does not influence C18's graph or C08's node table

`withPolytopes σ φ base` carries C18's state for an arbitrary offset table `σ` in its graph component.  C18's nodes
(coordinates, levels, faces, table order) and edges do not depend on `σ` — only the `idx` attributes do — so C08's node
table is the same for every `σ`, and the index agreement holds whatever `σ` was used to instantiate the graph. -/

section SigmaIndep
open Molgri.Polytope in
/-- forget the `central_index` -/
def clrN (nd : Molgri.Polytope.Node) : Molgri.Polytope.Node := { nd with idx := 0 }

/-- two C18 states that differ at most in the `idx` attributes -/
def Sim (s s' : St) : Prop :=
  s.nodes.map clrN = s'.nodes.map clrN ∧ s.edges = s'.edges ∧ s.cur = s'.cur ∧ s.maxCi = s'.maxCi

theorem Sim.refl (s : St) : Sim s s := ⟨rfl, rfl, rfl, rfl⟩

theorem pairs_map {α β : Type} (f : α → β) (l : List α) :
    Molgri.Polytope.pairs (l.map f) = (Molgri.Polytope.pairs l).map (Prod.map f f) := by
  induction l with
  | nil => rfl
  | cons a t ih =>
    simp only [List.map_cons, Molgri.Polytope.pairs, ih, List.map_append, List.map_map]
    rfl

/-- the candidate edges of `_add_edges_of_len` as a function of the node table -/
def candPts (test : Pt → Pt → Bool) (lvl : Nat) (onlyFace : Bool) (es : List (Pt × Pt))
    (L : List Molgri.Polytope.Node) : List (Pt × Pt) :=
  ((Molgri.Polytope.pairs (L.filter (fun nd => nd.level == lvl))).filter (fun ab =>
    (!onlyFace || !(Molgri.Polytope.interFace ab.1.face ab.2.face).isEmpty) && test ab.1.pt ab.2.pt
      && !Molgri.Polytope.hasEdge es ab.1.pt ab.2.pt)).map (fun ab => (ab.1.pt, ab.2.pt))

theorem candPts_clr (test : Pt → Pt → Bool) (lvl : Nat) (onlyFace : Bool) (es : List (Pt × Pt))
    (L : List Molgri.Polytope.Node) : candPts test lvl onlyFace es (L.map clrN) = candPts test lvl onlyFace es L := by
  unfold candPts
  rw [List.filter_map, pairs_map, List.filter_map, List.map_map]
  rfl

theorem sim_addEdgesOfLen (test : Pt → Pt → Bool) (lvl : Nat) (onlyFace : Bool) {s s' : St} (h : Sim s s') :
    Sim (Molgri.Polytope.addEdgesOfLen test lvl onlyFace s) (Molgri.Polytope.addEdgesOfLen test lvl onlyFace s') := by
  obtain ⟨h1, h2, h3, h4⟩ := h
  refine ⟨h1, ?_, h3, h4⟩
  show s.edges ++ candPts test lvl onlyFace s.edges s.nodes = s'.edges ++ candPts test lvl onlyFace s'.edges s'.nodes
  rw [← candPts_clr _ _ _ _ s.nodes, ← candPts_clr _ _ _ _ s'.nodes, h1, h2]

theorem hasNode_clr (L : List Molgri.Polytope.Node) (p : Pt) :
    Molgri.Polytope.hasNode (L.map clrN) p = Molgri.Polytope.hasNode L p := by
  unfold Molgri.Polytope.hasNode
  rw [List.any_map]
  rfl

theorem addNode_clr (acc : List Molgri.Polytope.Node) (nd : Molgri.Polytope.Node) :
    (Molgri.Polytope.addNode acc nd).map clrN = Molgri.Polytope.addNode (acc.map clrN) (clrN nd) := by
  unfold Molgri.Polytope.addNode
  rw [show (clrN nd).pt = nd.pt from rfl, hasNode_clr]
  split
  · rw [List.map_map, List.map_map]
    apply List.map_congr_left
    intro n _
    by_cases hn : n.pt = nd.pt
    · simp [clrN, hn]
    · simp [clrN, hn]
  · simp

theorem faceOf_clr (L : List Molgri.Polytope.Node) (p : Pt) :
    Molgri.Polytope.faceOf (L.map clrN) p = Molgri.Polytope.faceOf L p := by
  unfold Molgri.Polytope.faceOf
  rw [List.find?_map]
  have : ((fun nd : Molgri.Polytope.Node => nd.pt == p) ∘ clrN) = fun nd => nd.pt == p := rfl
  rw [this]
  cases List.find? (fun nd => nd.pt == p) L <;> rfl

theorem foldl_addNode_clr {α : Type} (F : α → Molgri.Polytope.Node) (hF : ∀ e, clrN (F e) = F e) (es : List α)
    (acc : List Molgri.Polytope.Node) :
    (es.foldl (fun a e => Molgri.Polytope.addNode a (F e)) acc).map clrN =
      es.foldl (fun a e => Molgri.Polytope.addNode a (F e)) (acc.map clrN) := by
  induction es generalizing acc with
  | nil => rfl
  | cons e t ih => rw [List.foldl_cons, List.foldl_cons, ih, addNode_clr, hF]

theorem sim_addMidEdgeNodes {s s' : St} (h : Sim s s') :
    Sim (Molgri.Polytope.addMidEdgeNodes s) (Molgri.Polytope.addMidEdgeNodes s') := by
  obtain ⟨h1, h2, h3, h4⟩ := h
  have hface : ∀ p, Molgri.Polytope.faceOf s.nodes p = Molgri.Polytope.faceOf s'.nodes p := by
    intro p; rw [← faceOf_clr s.nodes, ← faceOf_clr s'.nodes, h1]
  have h0 : (s.nodes.map (fun nd => { nd with pt := dbl nd.pt })).map clrN =
      (s'.nodes.map (fun nd => { nd with pt := dbl nd.pt })).map clrN := by
    have e : ∀ L : List Molgri.Polytope.Node, (L.map (fun nd => { nd with pt := dbl nd.pt })).map clrN =
        (L.map clrN).map (fun nd => { nd with pt := dbl nd.pt }) := by
      intro L; rw [List.map_map, List.map_map]; rfl
    rw [e, e, h1]
  refine ⟨?_, ?_, h3, h4⟩
  · show (s.edges.foldl (fun acc e => Molgri.Polytope.addNode acc
        ⟨mid e.1 e.2, s.cur, Molgri.Polytope.interFace (Molgri.Polytope.faceOf s.nodes e.1)
          (Molgri.Polytope.faceOf s.nodes e.2), 0⟩) _).map clrN =
      (s'.edges.foldl (fun acc e => Molgri.Polytope.addNode acc
        ⟨mid e.1 e.2, s'.cur, Molgri.Polytope.interFace (Molgri.Polytope.faceOf s'.nodes e.1)
          (Molgri.Polytope.faceOf s'.nodes e.2), 0⟩) _).map clrN
    rw [foldl_addNode_clr _ (fun _ => rfl), foldl_addNode_clr _ (fun _ => rfl), h0, h2, h3]
    simp only [hface]
  · show s.edges.flatMap _ = s'.edges.flatMap _
    rw [h2]

theorem assignGo_clr (σ : Nat → Nat) (lvl base : Nat) (L : List Molgri.Polytope.Node) (j : Nat) :
    (Molgri.Polytope.assignGo σ lvl base L j).map clrN = L.map clrN := by
  induction L generalizing j with
  | nil => rfl
  | cons a t ih =>
    unfold Molgri.Polytope.assignGo
    split
    · rw [List.map_cons, List.map_cons, ih]; rfl
    · rw [List.map_cons, List.map_cons, ih]

theorem newCount_sim {s s' : St} (h : Sim s s') : Molgri.Polytope.newCount s = Molgri.Polytope.newCount s' := by
  obtain ⟨h1, _, h3, _⟩ := h
  unfold Molgri.Polytope.newCount
  have e : ∀ (L : List Molgri.Polytope.Node) (c : Nat), (L.filter (fun nd => nd.level == c)).length =
      ((L.map clrN).filter (fun nd => nd.level == c)).length := by
    intro L c; rw [List.filter_map, List.length_map]; rfl
  rw [e s.nodes, e s'.nodes, h1, h3]

theorem sim_endOfDivision (σ σ' : Nat → Nat → Nat → Nat) {s s' : St} (h : Sim s s') :
    Sim (Molgri.Polytope.endOfDivision σ s) (Molgri.Polytope.endOfDivision σ' s') := by
  have hn := newCount_sim h
  obtain ⟨h1, h2, h3, h4⟩ := h
  refine ⟨?_, h2, ?_, ?_⟩
  · show (Molgri.Polytope.assignGo _ _ _ s.nodes 0).map clrN = (Molgri.Polytope.assignGo _ _ _ s'.nodes 0).map clrN
    rw [assignGo_clr, assignGo_clr, h1]
  · show s.cur + 1 = s'.cur + 1
    rw [h3]
  · show s.maxCi + Molgri.Polytope.newCount s = s'.maxCi + Molgri.Polytope.newCount s'
    rw [h4, hn]

theorem sim_create (σ σ' : Nat → Nat → Nat → Nat) (kind : Kind) :
    Sim (Molgri.Polytope.create σ kind) (Molgri.Polytope.create σ' kind) := by
  rw [Molgri.Polytope.create_eq, Molgri.Polytope.create_eq]
  exact sim_endOfDivision σ σ' (Sim.refl _)

theorem sim_divide (σ σ' : Nat → Nat → Nat → Nat) (kind : Kind) {s s' : St} (h : Sim s s') :
    Sim (Molgri.Polytope.divide σ kind s) (Molgri.Polytope.divide σ' kind s') := by
  cases kind with
  | ico =>
    show Sim (Molgri.Polytope.endOfDivision σ (Molgri.Polytope.addMidEdgeNodes
        (Molgri.Polytope.addEdgesOfLen Molgri.Polytope.isPhiLen (s.cur - 1) true s)))
      (Molgri.Polytope.endOfDivision σ' (Molgri.Polytope.addMidEdgeNodes
        (Molgri.Polytope.addEdgesOfLen Molgri.Polytope.isPhiLen (s'.cur - 1) true s')))
    rw [h.2.2.1]
    exact sim_endOfDivision σ σ' (sim_addMidEdgeNodes (sim_addEdgesOfLen _ _ _ h))
  | cube3 =>
    have h1 := sim_endOfDivision σ σ' (sim_addMidEdgeNodes h)
    show Sim (Molgri.Polytope.addEdgesOfLen (Molgri.Polytope.isLen 8) ((Molgri.Polytope.endOfDivision σ _).cur - 1) true
        (Molgri.Polytope.addEdgesOfLen (Molgri.Polytope.isLen 4) ((Molgri.Polytope.endOfDivision σ _).cur - 1) true _))
      (Molgri.Polytope.addEdgesOfLen (Molgri.Polytope.isLen 8) ((Molgri.Polytope.endOfDivision σ' _).cur - 1) true
        (Molgri.Polytope.addEdgesOfLen (Molgri.Polytope.isLen 4) ((Molgri.Polytope.endOfDivision σ' _).cur - 1) true _))
    rw [h1.2.2.1]
    exact sim_addEdgesOfLen _ _ _ (sim_addEdgesOfLen _ _ _ h1)
  | cube4 =>
    have h1 := sim_endOfDivision σ σ' (sim_addMidEdgeNodes h)
    show Sim (Molgri.Polytope.addEdgesOfLen (Molgri.Polytope.isLen 12) ((Molgri.Polytope.endOfDivision σ _).cur - 1) true
        (Molgri.Polytope.addEdgesOfLen (Molgri.Polytope.isLen 8) ((Molgri.Polytope.endOfDivision σ _).cur - 1) true
          (Molgri.Polytope.addEdgesOfLen (Molgri.Polytope.isLen 4) ((Molgri.Polytope.endOfDivision σ _).cur - 1) true _)))
      (Molgri.Polytope.addEdgesOfLen (Molgri.Polytope.isLen 12) ((Molgri.Polytope.endOfDivision σ' _).cur - 1) true
        (Molgri.Polytope.addEdgesOfLen (Molgri.Polytope.isLen 8) ((Molgri.Polytope.endOfDivision σ' _).cur - 1) true
          (Molgri.Polytope.addEdgesOfLen (Molgri.Polytope.isLen 4) ((Molgri.Polytope.endOfDivision σ' _).cur - 1) true _)))
    rw [h1.2.2.1]
    exact sim_addEdgesOfLen _ _ _ (sim_addEdgesOfLen _ _ _ (sim_addEdgesOfLen _ _ _ h1))

/-- **C18's polytope does not depend on the offset table, up to the `idx` attributes**: same nodes (coordinates,
levels, faces) in the same table order, same edges in the same order, for any two offset tables, every class, every
level. -/
theorem sim_iter (σ σ' : Nat → Nat → Nat → Nat) (kind : Kind) (d : Nat) :
    Sim (Molgri.Polytope.iter σ kind d) (Molgri.Polytope.iter σ' kind d) := by
  induction d with
  | zero => exact sim_create σ σ' kind
  | succ d ih => exact sim_divide σ σ' kind ih

theorem sim_preDiv (kind : Kind) {s s' : St} (h : Sim s s') : Sim (preDiv kind s) (preDiv kind s') := by
  cases kind with
  | ico =>
    show Sim (Molgri.Polytope.addEdgesOfLen Molgri.Polytope.isPhiLen (s.cur - 1) true s)
      (Molgri.Polytope.addEdgesOfLen Molgri.Polytope.isPhiLen (s'.cur - 1) true s')
    rw [h.2.2.1]
    exact sim_addEdgesOfLen _ _ _ h
  | cube3 => exact h
  | cube4 => exact h

variable {K : Type} [Field K] [LinearOrder K] [IsStrictOrderedRing K] {W O R : Type}
variable (φ : K) (base : Ext St (List K) W O) (rng : Rng R W)

/-- equality of two C08 polytope objects up to the graph component -/
def SameButG (P Q : Poly St (List K)) : Prop :=
  P.kind = Q.kind ∧ P.nodes = Q.nodes ∧ P.level = Q.level ∧ P.maxCi = Q.maxCi ∧ P.cache = Q.cache

/-- **C08's canonical polytope does not depend on the offset table used for the graph component**: node table, level,
`current_max_ci` and cache are the same for `withPolytopes σ φ base` and `withPolytopes σ' φ base`. -/
theorem canonPoly_sigma_indep (hφ : φ * φ = φ + 1) (hs : ShufflePerm rng) (σ σ' : Nat → Nat → Nat → Nat)
    (k : PolyKind) (d : Nat) :
    SameButG (canonPoly (withPolytopes σ φ base) rng k d) (canonPoly (withPolytopes σ' φ base) rng k d) := by
  induction d with
  | zero => exact ⟨rfl, rfl, rfl, rfl, rfl⟩
  | succ d ih =>
    have hg := (sync σ φ base rng hφ hs k d).g
    have hg' := (sync σ' φ base rng hφ hs k d).g
    have hk := canonPoly_kind (withPolytopes σ φ base) rng k d
    have hk' := canonPoly_kind (withPolytopes σ' φ base) rng k d
    have hsim := sim_preDiv (kindOf k) (sim_iter σ σ' (kindOf k) d)
    have hcur := (sim_iter σ σ' (kindOf k) d).2.2.1
    have hpts : ((withPolytopes σ φ base).divide (canonPoly (withPolytopes σ φ base) rng k d).kind
          (canonPoly (withPolytopes σ φ base) rng k d).g).2 =
        ((withPolytopes σ' φ base).divide (canonPoly (withPolytopes σ' φ base) rng k d).kind
          (canonPoly (withPolytopes σ' φ base) rng k d).g).2 := by
      rw [hk, hk', hg, hg']
      show (preDiv (kindOf k) (Molgri.Polytope.iter σ (kindOf k) d)).edges.map
          (fun e => keyAt φ (kindOf k) (Molgri.Polytope.iter σ (kindOf k) d).cur (mid e.1 e.2)) =
        (preDiv (kindOf k) (Molgri.Polytope.iter σ' (kindOf k) d)).edges.map
          (fun e => keyAt φ (kindOf k) (Molgri.Polytope.iter σ' (kindOf k) d).cur (mid e.1 e.2))
      rw [hsim.2.1, hcur]
    show SameButG (divideEdges (withPolytopes σ φ base) rng (rng.seed 0) (canonPoly (withPolytopes σ φ base) rng k d)).2
      (divideEdges (withPolytopes σ' φ base) rng (rng.seed 0) (canonPoly (withPolytopes σ' φ base) rng k d)).2
    generalize canonPoly (withPolytopes σ φ base) rng k d = P at ih hpts ⊢
    generalize canonPoly (withPolytopes σ' φ base) rng k d = Q at ih hpts ⊢
    obtain ⟨k1, g1, n1, l1, m1, c1⟩ := P
    obtain ⟨k2, g2, n2, l2, m2, c2⟩ := Q
    obtain ⟨e1, e2, e3, e4, e5⟩ := ih
    simp only at e1 e2 e3 e4 e5 hpts
    subst e1 e2 e3 e4 e5
    unfold divideEdges
    simp only [hpts]
    exact ⟨rfl, rfl, rfl, rfl, rfl⟩

/-- **Index agreement for every instantiation**: whatever offset table `σ` the graph component of C08's geometry was
built with, the node table of C08's canonical polytope is the node table of C18's polytope for the INDUCED offset
table, and the two `current_max_ci` agree. -/
theorem index_sync_any (hφ : φ * φ = φ + 1) (hs : ShufflePerm rng) (σ : Nat → Nat → Nat → Nat) (k : PolyKind)
    (d : Nat) :
    (canonPoly (withPolytopes σ φ base) rng k d).nodes =
      (Molgri.Polytope.iter (inducedσ rng) (kindOf k) d).nodes.map (back φ base (kindOf k) d) ∧
    (canonPoly (withPolytopes σ φ base) rng k d).maxCi =
      (Molgri.Polytope.iter (inducedσ rng) (kindOf k) d).maxCi := by
  obtain ⟨_, h2, _, h4, _⟩ := canonPoly_sigma_indep φ base rng hφ hs σ (inducedσ rng) k d
  rw [h2, h4]
  exact index_sync φ base rng hφ hs k d

/-- … and so is every `get_nodes` output: for every `σ`, C08's rows are C18's rows for the induced offset table. -/
theorem getNodes_eq_c18_any (hφ : φ * φ = φ + 1) (hs : ShufflePerm rng) (σ : Nat → Nat → Nat → Nat) (k : PolyKind)
    (d : Nat) (N : Option Nat) (proj : Bool) :
    (getNodes (canonPoly (withPolytopes σ φ base) rng k d) N proj).2 =
      match Molgri.Polytope.getNodes (Molgri.Polytope.iter (inducedσ rng) (kindOf k) d) N with
      | .ok rows => .ok (rows.map (rowOf φ base (kindOf k) d proj))
      | .error _ => .error .valueError := by
  rw [← getNodes_eq_c18 φ base rng hφ hs k d N proj, getNodes_res _ _ _ (canonPoly_cacheOk _ rng k d),
    getNodes_res _ _ _ (canonPoly_cacheOk _ rng k d),
    (canonPoly_sigma_indep φ base rng hφ hs σ (inducedσ rng) k d).2.1]

end SigmaIndep

end Molgri.Bridge.PolyIndex
