/-
Bridge A (helper file) — the coordinates of C18's exact polytope nodes as points over an ordered field.

C18 (`Molgri.Polytope`) stores a node after `d` divisions as a list of integers in the unit `h / 2^d`
(icosahedron: pairs `a, b` for `a + b·φ`).  C07 (`Molgri.Hemi`) and C08 (`Molgri.History`) talk about points whose
coordinates do not change when the polytope is divided again.  This file defines the translation

  `toK φ kind p`      — the integer point as a point over `K` (`φ : K` with `φ² = φ + 1`, `0 < φ` for the icosahedron),
  `keyAt φ kind d p`  — the same point in the level-independent unit `h`: `toK φ kind p / 2^d`,

and proves what the bridges need: `keyAt (d+1) (dbl p) = keyAt d p`, injectivity (for the icosahedron this is the
irrationality of `φ`), and that the lattices of C18 lie on one level set of C07's gauges (sup-norm for the cubes,
`IcoExact.normals` for the icosahedron) at every level.
-/
import Molgri.Props.C18
import Molgri.Props.C07
import Mathlib.Tactic.LinearCombination

set_option linter.unusedSectionVars false

namespace Molgri.Bridge.PolyKey
open Molgri.Polytope (Pt Kind St co dbl mid)
open Molgri.IcoExact (Zphi)
open Molgri.Hemi (scale dot supNorm castPt gaugeOf Homogeneous)

variable {K : Type} [Field K] [LinearOrder K] [IsStrictOrderedRing K]

/-! ### `5` is not a square of a rational: `x² = 5y²` has only the trivial integer solution -/

theorem five_dvd_of_sq (x : Int) (h : (x * x) % 5 = 0) : x % 5 = 0 := by
  have h1 := Int.mul_emod x x 5
  have h2 : 0 ≤ x % 5 := Int.emod_nonneg x (by decide)
  have h3 : x % 5 < 5 := Int.emod_lt_of_pos x (by decide)
  rw [h] at h1
  generalize x % 5 = r at h1 h2 h3 ⊢
  have : r = 0 ∨ r = 1 ∨ r = 2 ∨ r = 3 ∨ r = 4 := by omega
  rcases this with rfl | rfl | rfl | rfl | rfl <;> first | rfl | (exfalso; revert h1; decide)

theorem sq_eq_five_sq : ∀ (n : Nat) (x y : Int), y.natAbs = n → x * x = 5 * (y * y) → y = 0 := by
  intro n
  induction n using Nat.strong_induction_on with
  | _ n ih =>
    intro x y hy h
    have hx5 : x % 5 = 0 := five_dvd_of_sq x (by omega)
    have hx : x = 5 * (x / 5) := by omega
    have h' : 25 * ((x / 5) * (x / 5)) = 5 * (y * y) := by
      rw [← h]; conv_rhs => rw [hx]
      ring
    have h2 : y * y = 5 * ((x / 5) * (x / 5)) := by omega
    have hy5 : y % 5 = 0 := five_dvd_of_sq y (by omega)
    have hyy : y = 5 * (y / 5) := by omega
    have h3 : 25 * ((y / 5) * (y / 5)) = 5 * ((x / 5) * (x / 5)) := by
      rw [← h2]; conv_rhs => rw [hyy]
      ring
    have h4 : (x / 5) * (x / 5) = 5 * ((y / 5) * (y / 5)) := by omega
    by_contra hne
    have hlt : (y / 5).natAbs < n := by omega
    have := ih _ hlt (x / 5) (y / 5) rfl h4
    omega

/-! ### `ℤ[φ]` inside an ordered field -/

/-- `a + b·φ`. -/
def evalφ (φ : K) (z : Zphi) : K := (z.a : K) + (z.b : K) * φ

theorem evalφ_add (φ : K) (x y : Zphi) : evalφ φ (x + y) = evalφ φ x + evalφ φ y := by
  show ((x.a + y.a : Int) : K) + ((x.b + y.b : Int) : K) * φ = _
  unfold evalφ; push_cast; ring

theorem evalφ_mul (φ : K) (hφ : φ * φ = φ + 1) (x y : Zphi) : evalφ φ (x * y) = evalφ φ x * evalφ φ y := by
  show ((x.a * y.a + x.b * y.b : Int) : K) + ((x.a * y.b + x.b * y.a + x.b * y.b : Int) : K) * φ = _
  unfold evalφ; push_cast
  linear_combination (-(x.b : K) * (y.b : K)) * hφ

theorem evalφ_zero (φ : K) : evalφ φ (0 : Zphi) = 0 := by
  show ((0 : Int) : K) + ((0 : Int) : K) * φ = 0
  simp

/-- `φ` is irrational: `a + bφ` determines `a` and `b`. -/
theorem evalφ_inj (φ : K) (hφ : φ * φ = φ + 1) {z w : Zphi} (h : evalφ φ z = evalφ φ w) : z = w := by
  obtain ⟨a, b⟩ := z
  obtain ⟨a', b'⟩ := w
  unfold evalφ at h
  simp only at h
  have h0 : ((a - a' : Int) : K) + ((b - b' : Int) : K) * φ = 0 := by push_cast; linear_combination h
  generalize hu : a - a' = u at h0
  generalize hv : b - b' = v at h0
  have hK : (u : K) * u + u * v - v * v = 0 := by
    linear_combination ((u : K) - v * φ + v) * h0 + ((v : K) * v) * hφ
  have hZ : u * u + u * v - v * v = 0 := by exact_mod_cast hK
  have h5 : (2 * u + v) * (2 * u + v) = 5 * (v * v) := by linear_combination 4 * hZ
  have hv0 : v = 0 := sq_eq_five_sq _ _ v rfl h5
  subst hv0
  have hu0 : u = 0 := by
    have : (u : K) = 0 := by simpa using h0
    exact_mod_cast this
  subst hu0
  have e1 : a = a' := by omega
  have e2 : b = b' := by omega
  rw [e1, e2]

/-! ### the translation of a node -/

/-- `[a₁,b₁,a₂,b₂,a₃,b₃]` ↦ `[a₁+b₁φ, a₂+b₂φ, a₃+b₃φ]` as elements of C07's `ℤ[φ]`. -/
def unflat : Pt → List Zphi
  | a :: b :: t => ⟨a, b⟩ :: unflat t
  | _ => []

/-- an exact node of C18 as a point over `K` (unit `h / 2^d`). -/
def toK (φ : K) : Kind → Pt → List K
  | .ico, p => (unflat p).map (evalφ φ)
  | _, p => castPt p

/-- the node in the level-independent unit `h`: coordinates divided by `2^d`. -/
def keyAt (φ : K) (kind : Kind) (d : Nat) (p : Pt) : List K := scale (((2 : K) ^ d)⁻¹) (toK φ kind p)

theorem len6 {p : Pt} (h : p.length = 6) : ∃ a b c d e f, p = [a, b, c, d, e, f] := by
  match p, h with
  | [a, b, c, d, e, f], _ => exact ⟨a, b, c, d, e, f, rfl⟩

theorem toK_cube (φ : K) (kind : Kind) (hk : kind = .cube3 ∨ kind = .cube4) (p : Pt) : toK φ kind p = castPt p := by
  rcases hk with rfl | rfl <;> rfl

theorem unflat_dbl : ∀ p : Pt, unflat (dbl p) = (unflat p).map (fun z => ⟨2 * z.a, 2 * z.b⟩)
  | [] => rfl
  | [_] => rfl
  | a :: b :: t => by
    have ih := unflat_dbl t
    simp only [dbl, List.map_cons, unflat] at ih ⊢
    rw [ih]

theorem toK_dbl (φ : K) (kind : Kind) (p : Pt) : toK φ kind (dbl p) = scale 2 (toK φ kind p) := by
  cases kind with
  | ico =>
    simp only [toK, unflat_dbl, scale, List.map_map]
    apply List.map_congr_left
    intro z _
    simp only [Function.comp, evalφ]; push_cast; ring
  | cube3 =>
    simp only [toK, castPt, dbl, scale, List.map_map]
    apply List.map_congr_left
    intro z _
    simp only [Function.comp]; push_cast; ring
  | cube4 =>
    simp only [toK, castPt, dbl, scale, List.map_map]
    apply List.map_congr_left
    intro z _
    simp only [Function.comp]; push_cast; ring

theorem two_pow_ne (d : Nat) : ((2 : K) ^ d) ≠ 0 := pow_ne_zero _ (by norm_num)
theorem two_pow_pos (d : Nat) : (0 : K) < (2 : K) ^ d := pow_pos (by norm_num) _
theorem two_pow_inv_pos (d : Nat) : (0 : K) < ((2 : K) ^ d)⁻¹ := inv_pos.mpr (two_pow_pos d)

/-- a division doubles the integer coordinates and halves the unit: the key does not change. -/
theorem keyAt_succ_dbl (φ : K) (kind : Kind) (d : Nat) (p : Pt) :
    keyAt φ kind (d + 1) (dbl p) = keyAt φ kind d p := by
  unfold keyAt
  rw [toK_dbl, Molgri.Hemi.scale_scale]
  congr 1
  rw [pow_succ]
  field_simp

theorem keyAt_smul_pow (φ : K) (kind : Kind) (d m : Nat) (p : Pt) :
    keyAt φ kind (d + m) (Molgri.Polytope.smul ((2 : Int) ^ m) p) = keyAt φ kind d p := by
  induction m with
  | zero => simp [Molgri.Polytope.smul]
  | succ m ih =>
    rw [← ih, pow_succ, mul_comm, ← Molgri.Polytope.dbl_smul, ← Nat.add_assoc, keyAt_succ_dbl]

theorem scale_inj {c : K} (hc : c ≠ 0) {x y : List K} (h : scale c x = scale c y) : x = y := by
  have := congrArg (scale c⁻¹) h
  rwa [Molgri.Hemi.scale_scale, Molgri.Hemi.scale_scale, inv_mul_cancel₀ hc, Molgri.Hemi.scale_one,
    Molgri.Hemi.scale_one] at this

theorem unflat_inj6 {p q : Pt} (hp : p.length = 6) (hq : q.length = 6) (h : unflat p = unflat q) : p = q := by
  obtain ⟨a, b, c, d, e, f, rfl⟩ := len6 hp
  obtain ⟨a', b', c', d', e', f', rfl⟩ := len6 hq
  simp only [unflat, List.cons.injEq, Zphi.mk.injEq, and_true] at h
  obtain ⟨⟨rfl, rfl⟩, ⟨rfl, rfl⟩, ⟨rfl, rfl⟩⟩ := h
  rfl

/-- the dimension of the stored integer list. -/
def dimOf : Kind → Nat
  | .ico => 6
  | .cube3 => 3
  | .cube4 => 4

theorem toK_inj (φ : K) (hφ : φ * φ = φ + 1) (kind : Kind) {p q : Pt} (hp : p.length = dimOf kind)
    (hq : q.length = dimOf kind) (h : toK φ kind p = toK φ kind q) : p = q := by
  cases kind with
  | ico =>
    apply unflat_inj6 hp hq
    exact (List.map_injective_iff.mpr (fun z w hzw => evalφ_inj φ hφ hzw)) h
  | cube3 => exact Molgri.Hemi.castPt_injective h
  | cube4 => exact Molgri.Hemi.castPt_injective h

theorem keyAt_inj (φ : K) (hφ : φ * φ = φ + 1) (kind : Kind) (d : Nat) {p q : Pt} (hp : p.length = dimOf kind)
    (hq : q.length = dimOf kind) (h : keyAt φ kind d p = keyAt φ kind d q) : p = q :=
  toK_inj φ hφ kind hp hq (scale_inj (inv_ne_zero (two_pow_ne d)) h)

/-! ### cube / hypercube: C18's lattice lies on the unit sphere of the sup-norm -/

theorem supNorm_int_le (W : Int) (hW : 0 ≤ W) : ∀ p : List Int, (∀ x ∈ p, -W ≤ x ∧ x ≤ W) → supNorm p ≤ W
  | [], _ => hW
  | x :: xs, h => by
    have ih := supNorm_int_le W hW xs (fun y hy => h y (List.mem_cons_of_mem _ hy))
    have hx := h x List.mem_cons_self
    simp only [supNorm, Molgri.Hemi.maxK, Molgri.Hemi.absK]
    split <;> split <;> omega

theorem supNorm_int_ge (W : Int) : ∀ p : List Int, (∃ x ∈ p, x = W ∨ x = -W) → W ≤ supNorm p
  | [], h => by obtain ⟨x, hx, _⟩ := h; cases hx
  | x :: xs, h => by
    simp only [supNorm, Molgri.Hemi.maxK, Molgri.Hemi.absK]
    obtain ⟨y, hy, hyW⟩ := h
    rcases List.mem_cons.mp hy with rfl | hy
    · split <;> split <;> omega
    · have ih := supNorm_int_ge W xs ⟨y, hy, hyW⟩
      split <;> split <;> omega

/-- C18's boundary lattice of half width `W` is the sphere of radius `W` of C07's sup-norm. -/
theorem lat_supNorm {d : Nat} {W : Int} {p : Pt} (h : Molgri.Polytope.Lat d W p) (hW : 0 ≤ W) : supNorm p = W := by
  obtain ⟨hl, hb, i, hi, hiW⟩ := h
  apply le_antisymm
  · apply supNorm_int_le W hW
    rw [Molgri.Polytope.forall_mem_iff_co (fun x => -W ≤ x ∧ x ≤ W)]
    intro j hj
    have := hb j (by omega)
    exact ⟨this.1, this.2.1⟩
  · apply supNorm_int_ge
    rw [Molgri.Polytope.exists_mem_iff_co (fun x => x = W ∨ x = -W)]
    exact ⟨i, by omega, hiW⟩

theorem lat_len {d : Nat} {W : Int} {p : Pt} (h : Molgri.Polytope.Lat d W p) : p.length = d := h.1

/-- every node key of the cube / hypercube has sup-norm exactly 1 (every level). -/
theorem cube_key_supNorm (φ : K) (kind : Kind) (hk : kind = .cube3 ∨ kind = .cube4) (d : Nat) {p : Pt}
    (h : Molgri.Polytope.Lat (Molgri.Polytope.cubeDim kind) ((2 : Int) ^ d) p) :
    supNorm (keyAt φ kind d p) = 1 := by
  unfold keyAt
  rw [toK_cube φ kind hk, Molgri.Hemi.supNorm_scale (le_of_lt (two_pow_inv_pos d)), Molgri.Hemi.supNorm_cast,
    lat_supNorm h (by positivity)]
  push_cast
  exact inv_mul_cancel₀ (two_pow_ne d)

/-! ### icosahedron: C18's lattice lies on one level set of C07's gauge `IcoExact.normals` -/

/-- C07's face functionals of the icosahedron, evaluated in `K`. -/
def icoNormalsK (φ : K) : List (List K) := Molgri.IcoExact.normals.map (List.map (evalφ φ))

/-- the gauge of the icosahedron over `K`: `max_f (n_f · p)`. -/
def icoGauge (φ : K) : List K → K := gaugeOf (icoNormalsK φ)

/-- the value of the gauge at a vertex: `2 + 3φ`. -/
def icoC (φ : K) : K := 2 + 3 * φ

theorem icoGauge_homogeneous (φ : K) : Homogeneous (icoGauge φ) :=
  Molgri.Hemi.gaugeOf_homogeneous (icoNormalsK φ)

theorem dot_eval (φ : K) (hφ : φ * φ = φ + 1) : ∀ n p : List Zphi,
    dot (n.map (evalφ φ)) (p.map (evalφ φ)) = evalφ φ (dot n p)
  | [], _ => by simp [dot, evalφ_zero]
  | _ :: _, [] => by simp [dot, evalφ_zero]
  | x :: xs, y :: ys => by
    simp only [List.map_cons, dot]
    rw [dot_eval φ hφ xs ys, evalφ_add, evalφ_mul φ hφ]

/-- table: C18's vertex table is C07's vertex table. -/
theorem vtx_table : ∀ V, V < 12 → unflat (Molgri.Polytope.vtx V) = Molgri.IcoExact.vtx V := by decide

/-- table (ℤ[φ] arithmetic): every face functional has three components and takes at every vertex a value
`a + bφ` with `a ≤ 2`, `b ≤ 3`. -/
theorem normals_table : ∀ n ∈ Molgri.IcoExact.normals, n.length = 3 ∧
    ∀ V, V < 12 → (dot n (Molgri.IcoExact.vtx V)).a ≤ 2 ∧ (dot n (Molgri.IcoExact.vtx V)).b ≤ 3 := by decide

/-- table: the functional of a face takes the value `2 + 3φ` at the three vertices of the face. -/
theorem faces_table : ∀ F ∈ Molgri.Polytope.icoFaces, ∃ n ∈ Molgri.IcoExact.normals,
    ∀ V ∈ F, dot n (Molgri.IcoExact.vtx V) = ⟨2, 3⟩ := by decide

theorem toK_vtx (φ : K) (V : Nat) (hV : V < 12) :
    toK φ .ico (Molgri.Polytope.vtx V) = (Molgri.IcoExact.vtx V).map (evalφ φ) := by
  show (unflat (Molgri.Polytope.vtx V)).map (evalφ φ) = _
  rw [vtx_table V hV]

theorem dot_lincomb (φ : K) (n : List K) (hn : n.length = 3) (p q r : Pt) (hp : p.length = 6) (hq : q.length = 6)
    (hr : r.length = 6) (i j l : Int) :
    dot n (toK φ .ico (Molgri.Polytope.add3 (Molgri.Polytope.smul i p) (Molgri.Polytope.smul j q)
      (Molgri.Polytope.smul l r))) =
      (i : K) * dot n (toK φ .ico p) + (j : K) * dot n (toK φ .ico q) + (l : K) * dot n (toK φ .ico r) := by
  obtain ⟨p0, p1, p2, p3, p4, p5, rfl⟩ := len6 hp
  obtain ⟨q0, q1, q2, q3, q4, q5, rfl⟩ := len6 hq
  obtain ⟨r0, r1, r2, r3, r4, r5, rfl⟩ := len6 hr
  match n, hn with
  | [n0, n1, n2], _ =>
    simp only [toK, unflat, evalφ, Molgri.Polytope.add3, Molgri.Polytope.smul, dot, List.map_cons, List.map_nil,
      List.zipWith_cons_cons, List.zipWith_nil_right]
    push_cast
    ring

theorem foldl_max_eq (f : List K → K) (r : K) : ∀ (rest : List (List K)) (acc : K), acc ≤ r →
    (∀ n ∈ rest, f n ≤ r) → (acc = r ∨ ∃ n ∈ rest, f n = r) →
    rest.foldl (fun m n' => Molgri.Hemi.maxK m (f n')) acc = r
  | [], acc, _, _, h => by
    rcases h with h | ⟨n, hn, _⟩
    · exact h
    · cases hn
  | x :: xs, acc, ha, hall, h => by
    simp only [List.foldl_cons]
    have hx := hall x List.mem_cons_self
    apply foldl_max_eq f r xs
    · rw [Molgri.Hemi.maxK_eq]; exact max_le ha hx
    · intro n hn; exact hall n (List.mem_cons_of_mem _ hn)
    · rcases h with h | ⟨n, hn, hnr⟩
      · left; rw [Molgri.Hemi.maxK_eq, h]; exact max_eq_left hx
      · rcases List.mem_cons.mp hn with rfl | hn
        · left; rw [Molgri.Hemi.maxK_eq, hnr]; exact max_eq_right ha
        · right; exact ⟨n, hn, hnr⟩

/-- the maximum of the functionals is `r` when all are `≤ r` and one equals `r`. -/
theorem gaugeOf_eq (ns : List (List K)) (p : List K) (r : K) (hall : ∀ n ∈ ns, dot n p ≤ r)
    (hex : ∃ n ∈ ns, dot n p = r) : gaugeOf ns p = r := by
  cases ns with
  | nil => obtain ⟨n, hn, _⟩ := hex; cases hn
  | cons n rest =>
    simp only [gaugeOf]
    apply foldl_max_eq (fun n' => dot n' p) r rest
    · exact hall n List.mem_cons_self
    · intro m hm; exact hall m (List.mem_cons_of_mem _ hm)
    · obtain ⟨m, hm, hmr⟩ := hex
      rcases List.mem_cons.mp hm with rfl | hm
      · left; exact hmr
      · right; exact ⟨m, hm, hmr⟩

theorem icoC_pos (φ : K) (hφ0 : 0 < φ) : 0 < icoC φ := by unfold icoC; linarith

/-- C18's geodesic lattice of frequency `2^k` lies on the level set `2^k · (2 + 3φ)` of C07's icosahedron gauge —
every level `k`. -/
theorem latI_gauge (φ : K) (hφ : φ * φ = φ + 1) (hφ0 : 0 < φ) {k : Nat} {p : Pt} (h : Molgri.Polytope.LatI k p) :
    icoGauge φ (toK φ .ico p) = (2 : K) ^ k * icoC φ := by
  obtain ⟨A, B, C, hF, i, j, l, hi, hj, hl, hsum, rfl⟩ := h
  obtain ⟨hA, hB, hC, _, _, _⟩ := Molgri.Polytope.isFace_lt hF
  have lA := Molgri.Polytope.vtx_len A hA
  have lB := Molgri.Polytope.vtx_len B hB
  have lC := Molgri.Polytope.vtx_len C hC
  have hsumK : (i : K) + j + l = (2 : K) ^ k := by exact_mod_cast hsum
  have hiK : (0 : K) ≤ i := by exact_mod_cast hi
  have hjK : (0 : K) ≤ j := by exact_mod_cast hj
  have hlK : (0 : K) ≤ l := by exact_mod_cast hl
  have hval : ∀ n0 ∈ Molgri.IcoExact.normals, ∀ V, V < 12 →
      dot (n0.map (evalφ φ)) (toK φ .ico (Molgri.Polytope.vtx V)) = evalφ φ (dot n0 (Molgri.IcoExact.vtx V)) := by
    intro n0 _ V hV
    rw [toK_vtx φ V hV, dot_eval φ hφ]
  have hle : ∀ n0 ∈ Molgri.IcoExact.normals, ∀ V, V < 12 →
      dot (n0.map (evalφ φ)) (toK φ .ico (Molgri.Polytope.vtx V)) ≤ icoC φ := by
    intro n0 hn0 V hV
    rw [hval n0 hn0 V hV]
    obtain ⟨ha, hb⟩ := (normals_table n0 hn0).2 V hV
    have haK : ((dot n0 (Molgri.IcoExact.vtx V)).a : K) ≤ 2 := by exact_mod_cast ha
    have hbK : ((dot n0 (Molgri.IcoExact.vtx V)).b : K) ≤ 3 := by exact_mod_cast hb
    unfold evalφ icoC
    have := mul_le_mul_of_nonneg_right hbK (le_of_lt hφ0)
    linarith
  unfold icoGauge Molgri.Polytope.comb
  apply gaugeOf_eq
  · intro n hn
    obtain ⟨n0, hn0, rfl⟩ := List.mem_map.mp hn
    rw [dot_lincomb φ _ (by simpa using (normals_table n0 hn0).1) _ _ _ lA lB lC]
    have h1 := mul_le_mul_of_nonneg_left (hle n0 hn0 A hA) hiK
    have h2 := mul_le_mul_of_nonneg_left (hle n0 hn0 B hB) hjK
    have h3 := mul_le_mul_of_nonneg_left (hle n0 hn0 C hC) hlK
    calc _ ≤ (i : K) * icoC φ + j * icoC φ + l * icoC φ := by linarith
      _ = ((i : K) + j + l) * icoC φ := by ring
      _ = _ := by rw [hsumK]
  · obtain ⟨n0, hn0, hv⟩ := faces_table [A, B, C] hF
    refine ⟨n0.map (evalφ φ), List.mem_map.mpr ⟨n0, hn0, rfl⟩, ?_⟩
    rw [dot_lincomb φ _ (by simpa using (normals_table n0 hn0).1) _ _ _ lA lB lC,
      hval n0 hn0 A hA, hval n0 hn0 B hB, hval n0 hn0 C hC, hv A (by simp), hv B (by simp), hv C (by simp)]
    have : evalφ φ (⟨2, 3⟩ : Zphi) = icoC φ := by unfold evalφ icoC; push_cast; ring
    rw [this, ← hsumK]; ring

theorem latI_len {k : Nat} {p : Pt} (h : Molgri.Polytope.LatI k p) : p.length = 6 := by
  obtain ⟨A, B, C, hF, i, j, l, _, _, _, _, rfl⟩ := h
  exact Molgri.Polytope.len_comb hF i j l

/-- every node key of the icosahedron has gauge exactly `2 + 3φ` (every level). -/
theorem ico_key_gauge (φ : K) (hφ : φ * φ = φ + 1) (hφ0 : 0 < φ) (d : Nat) {p : Pt}
    (h : Molgri.Polytope.LatI d p) : icoGauge φ (keyAt φ .ico d p) = icoC φ := by
  unfold keyAt
  rw [icoGauge_homogeneous φ _ (two_pow_inv_pos d), latI_gauge φ hφ hφ0 h, ← mul_assoc,
    inv_mul_cancel₀ (two_pow_ne d), one_mul]

/-! ### the three classes uniformly -/

/-- `normalise_vectors` scales every non-zero vector by a positive factor. -/
def Radial (proj : List K → List K) : Prop :=
  ∀ p : List K, Molgri.Hemi.NonZero p → ∃ c : K, 0 < c ∧ proj p = scale c p

/-- the lattice of the statement of C18 for each class. -/
def LatOf (kind : Kind) (d : Nat) (p : Pt) : Prop :=
  match kind with
  | .ico => Molgri.Polytope.LatI d p
  | _ => Molgri.Polytope.Lat (Molgri.Polytope.cubeDim kind) ((2 : Int) ^ d) p

theorem iter_nodes_lat (σ : Nat → Nat → Nat → Nat) (kind : Kind) (d : Nat) (p : Pt) :
    p ∈ (Molgri.Polytope.iter σ kind d).nodes.map (·.pt) ↔ LatOf kind d p := by
  cases kind with
  | ico => exact Molgri.C18.ico_nodes_eq_lattice σ d p
  | cube3 => exact Molgri.C18.cube_nodes_eq_lattice σ .cube3 (Or.inl rfl) d p
  | cube4 => exact Molgri.C18.cube_nodes_eq_lattice σ .cube4 (Or.inr rfl) d p

theorem latOf_len {kind : Kind} {d : Nat} {p : Pt} (h : LatOf kind d p) : p.length = dimOf kind := by
  cases kind with
  | ico => exact latI_len h
  | cube3 => exact lat_len h
  | cube4 => exact lat_len h

/-- the gauge on whose unit level set all node keys of a class lie: sup-norm (C07's `proj_injective_cube`) for the
cubes, the maximum of C07's twenty face functionals for the icosahedron. -/
def gaugeFor (φ : K) : Kind → List K → K
  | .ico => icoGauge φ
  | _ => Molgri.Hemi.supNorm

def radiusFor (φ : K) : Kind → K
  | .ico => icoC φ
  | _ => 1

theorem gaugeFor_homogeneous (φ : K) (kind : Kind) : Molgri.Hemi.Homogeneous (gaugeFor φ kind) := by
  cases kind with
  | ico => exact icoGauge_homogeneous φ
  | cube3 => exact Molgri.Hemi.supNorm_homogeneous
  | cube4 => exact Molgri.Hemi.supNorm_homogeneous

theorem radiusFor_pos (φ : K) (hφ0 : 0 < φ) (kind : Kind) : 0 < radiusFor φ kind := by
  cases kind with
  | ico => exact icoC_pos φ hφ0
  | cube3 => exact zero_lt_one
  | cube4 => exact zero_lt_one

/-- every node key of every level lies on the level set `radiusFor` of `gaugeFor` (C18's lattice theorems). -/
theorem key_on_surface (φ : K) (hφ : φ * φ = φ + 1) (hφ0 : 0 < φ) (kind : Kind) (d : Nat) {p : Pt}
    (h : LatOf kind d p) : gaugeFor φ kind (keyAt φ kind d p) = radiusFor φ kind := by
  cases kind with
  | ico => exact ico_key_gauge φ hφ hφ0 d h
  | cube3 => exact cube_key_supNorm φ .cube3 (Or.inl rfl) d h
  | cube4 => exact cube_key_supNorm φ .cube4 (Or.inr rfl) d h

theorem nonZero_of_gauge_pos {g : List K → K} (hg : Molgri.Hemi.Homogeneous g) {p : List K} (h : 0 < g p) :
    Molgri.Hemi.NonZero p := by
  by_contra hc
  have hz : ∀ x ∈ p, x = 0 := by
    intro x hx; by_contra h0; exact hc ⟨x, hx, h0⟩
  have : scale 2 p = scale 1 p := by
    unfold Molgri.Hemi.scale; apply List.map_congr_left; intro x hx; rw [hz x hx]; simp
  have h2 := hg 2 (by norm_num) p
  rw [this, hg 1 (by norm_num) p] at h2
  linarith


/-- the node in C18's own unit lies on the level set `2^d · radiusFor`. -/
theorem toK_on_surface (φ : K) (hφ : φ * φ = φ + 1) (hφ0 : 0 < φ) (kind : Kind) (d : Nat) {p : Pt}
    (h : LatOf kind d p) : gaugeFor φ kind (toK φ kind p) = (2 : K) ^ d * radiusFor φ kind := by
  have hk := key_on_surface φ hφ hφ0 kind d h
  unfold keyAt at hk
  rw [gaugeFor_homogeneous φ kind _ (two_pow_inv_pos d)] at hk
  rw [← hk, ← mul_assoc, mul_inv_cancel₀ (two_pow_ne d), one_mul]

theorem iter_nodes_nodup (σ : Nat → Nat → Nat → Nat) (kind : Kind) (d : Nat) :
    ((Molgri.Polytope.iter σ kind d).nodes.map (·.pt)).Nodup := by
  cases kind with
  | ico => exact Molgri.C18.ico_nodes_nodup σ d
  | cube3 => exact Molgri.C18.cube_nodes_nodup σ .cube3 (Or.inl rfl) d
  | cube4 => exact Molgri.C18.cube_nodes_nodup σ .cube4 (Or.inr rfl) d

end Molgri.Bridge.PolyKey
