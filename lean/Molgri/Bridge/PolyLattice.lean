/-
Bridge A, part 3 — the lattice lists of C07 and C18 are the same lattices.

C07 (`Molgri.Hemi.cubeLattice d m`, `cubeVertices d`, `Molgri.IcoExact.nodes L`) and C18
(`Molgri.Polytope.cubeLattice d k`, `icoLattice k`) each carry their own executable list of "the nodes of level k".
They use different units (C07: node spacing 1, half width `m = 2^(L-1)`; C18: node spacing 2, half width `2^k`) and
different encodings of `ℤ[φ]` (C07: a structure `Zphi`; C18: a flat list of six integers).  This file proves that
they describe the same point sets at every level, and hence that the node list of C18's subdivision model is a
rearrangement of C07's lattice list — the hypothesis `hperm` of C07's `hypercube_lattice_distinct_rotations` and the
unproved remark "the nodes are the barycentric lattice points" in `Model/IcoExact.lean`.
-/
import Molgri.Bridge.PolyKey

set_option linter.unusedSectionVars false

namespace Molgri.Bridge.PolyLattice
open Molgri.Bridge.PolyKey
open Molgri.Polytope (Pt Kind St co dbl)
open Molgri.IcoExact (Zphi)

/-! ### cube / hypercube -/

theorem supNorm_attained : ∀ p : List Int, 0 < Molgri.Hemi.supNorm p →
    ∃ x ∈ p, x = Molgri.Hemi.supNorm p ∨ x = -Molgri.Hemi.supNorm p
  | [], h => by simp [Molgri.Hemi.supNorm] at h
  | x :: xs, h => by
    have e : Molgri.Hemi.supNorm (x :: xs) =
        Molgri.Hemi.maxK (Molgri.Hemi.absK x) (Molgri.Hemi.supNorm xs) := rfl
    rw [e] at h ⊢
    unfold Molgri.Hemi.maxK at h ⊢
    by_cases hlt : Molgri.Hemi.absK x < Molgri.Hemi.supNorm xs
    · rw [if_pos hlt] at h ⊢
      obtain ⟨y, hy, hyv⟩ := supNorm_attained xs h
      exact ⟨y, List.mem_cons_of_mem _ hy, hyv⟩
    · rw [if_neg hlt]
      refine ⟨x, List.mem_cons_self, ?_⟩
      unfold Molgri.Hemi.absK
      split <;> omega

theorem two_pow_even (k : Nat) : (2 : Int) ^ (k + 1) % 2 = 0 := by
  rw [pow_succ]; omega

/-- the point with halved coordinates. -/
def halfPt (p : Pt) : Pt := p.map (· / 2)

theorem halfPt_dbl (q : Pt) : halfPt (dbl q) = q := by
  unfold halfPt dbl
  rw [List.map_map]
  conv_rhs => rw [← List.map_id q]
  apply List.map_congr_left
  intro x _
  simp only [Function.comp, id]; omega

theorem dbl_halfPt (p : Pt) (h : ∀ x ∈ p, x % 2 = 0) : dbl (halfPt p) = p := by
  unfold halfPt dbl
  rw [List.map_map]
  conv_rhs => rw [← List.map_id p]
  apply List.map_congr_left
  intro x hx
  have := h x hx
  simp only [Function.comp, id]; omega

/-- **The cube lattices agree (levels ≥ 1).**  C18's boundary lattice after `k+1` divisions (half width `2^(k+1)`,
spacing 2) is C07's lattice `{q ∈ ℤ^d : ‖q‖∞ = 2^k}` (spacing 1) with doubled coordinates — every dimension `d`,
every `k`. -/
theorem cubeLattice_succ_iff (d k : Nat) (p : Pt) :
    p ∈ Molgri.Polytope.cubeLattice d (k + 1) ↔ ∃ q ∈ Molgri.Hemi.cubeLattice d (2 ^ k), p = dbl q := by
  have hW : (1 : Int) ≤ 2 ^ k := by exact_mod_cast Nat.one_le_two_pow
  have hcast : (((2 ^ k : Nat) : Int)) = (2 : Int) ^ k := by push_cast; rfl
  rw [Molgri.Polytope.mem_cubeLattice]
  constructor
  · rintro ⟨hl, hb, i, hi, hiW⟩
    have hev : ∀ x ∈ p, x % 2 = 0 := by
      rw [Molgri.Polytope.forall_mem_iff_co (fun x => x % 2 = 0)]
      intro j hj
      have := (hb j (by omega)).2.2
      rw [two_pow_even] at this
      exact this
    have hbd : ∀ x ∈ p, -(2 * (2 : Int) ^ k) ≤ x ∧ x ≤ 2 * (2 : Int) ^ k := by
      rw [Molgri.Polytope.forall_mem_iff_co (fun x => -(2 * (2 : Int) ^ k) ≤ x ∧ x ≤ 2 * (2 : Int) ^ k)]
      intro j hj
      have := hb j (by omega)
      rw [pow_succ] at this
      omega
    refine ⟨halfPt p, ?_, (dbl_halfPt p hev).symm⟩
    rw [Molgri.Hemi.mem_cubeLattice, hcast]
    have hb' : ∀ x ∈ halfPt p, -((2 : Int) ^ k) ≤ x ∧ x ≤ (2 : Int) ^ k := by
      intro y hy
      obtain ⟨x, hx, rfl⟩ := List.mem_map.mp hy
      have := hbd x hx
      omega
    refine ⟨⟨by simp [halfPt, hl], hb'⟩, ?_⟩
    apply le_antisymm
    · exact supNorm_int_le _ (by omega) _ hb'
    · apply supNorm_int_ge
      have hmem : co p i ∈ p := by
        unfold co
        rw [List.getD_eq_getElem (hn := by omega)]
        exact List.getElem_mem _
      refine ⟨co p i / 2, List.mem_map.mpr ⟨_, hmem, rfl⟩, ?_⟩
      rw [pow_succ] at hiW
      omega
  · rintro ⟨q, hq, rfl⟩
    rw [Molgri.Hemi.mem_cubeLattice, hcast] at hq
    obtain ⟨⟨hl, hb⟩, hs⟩ := hq
    obtain ⟨x, hx, hxW⟩ := supNorm_attained q (by rw [hs]; omega)
    rw [hs] at hxW
    refine ⟨by simpa using hl, ?_, ?_⟩
    · intro i hi
      rw [Molgri.Polytope.co_dbl, two_pow_even, pow_succ]
      have := (Molgri.Polytope.forall_mem_iff_co (fun x => -((2 : Int) ^ k) ≤ x ∧ x ≤ (2 : Int) ^ k) q).mp hb i
        (by omega)
      omega
    · obtain ⟨i, hi, hiW⟩ := (Molgri.Polytope.exists_mem_iff_co
        (fun x => x = (2 : Int) ^ k ∨ x = -(2 : Int) ^ k) q).mp ⟨x, hx, hxW⟩
      refine ⟨i, by omega, ?_⟩
      rw [Molgri.Polytope.co_dbl, pow_succ]
      omega

/-- the same as a statement about the two executable lists. -/
theorem cubeLattice_succ_perm (d k : Nat) :
    (Molgri.Polytope.cubeLattice d (k + 1)).Perm ((Molgri.Hemi.cubeLattice d (2 ^ k)).map dbl) := by
  have h1 : (Molgri.Polytope.cubeLattice d (k + 1)).Nodup := by
    unfold Molgri.Polytope.cubeLattice
    apply List.Nodup.filter
    have : ∀ (d w : Nat), (Molgri.Polytope.boxPts d w).Nodup := by
      intro d w
      induction d with
      | zero => simp [Molgri.Polytope.boxPts]
      | succ d ih =>
        simp only [Molgri.Polytope.boxPts]
        rw [List.nodup_flatMap]
        constructor
        · intro x _
          exact List.Nodup.map (fun a b h => by simpa using h) ih
        · have hax : (Molgri.Polytope.axisVals w).Nodup := by
            unfold Molgri.Polytope.axisVals
            apply List.Nodup.map _ List.nodup_range
            intro a b h; simp only at h; omega
          apply List.Pairwise.imp _ hax
          intro a b hab
          simp only [Function.onFun]
          rw [List.disjoint_left]
          intro p hp hq
          obtain ⟨q1, _, rfl⟩ := List.mem_map.mp hp
          obtain ⟨q2, _, h⟩ := List.mem_map.mp hq
          injection h with h1 _
          exact hab h1.symm
    exact this d _
  have h2 : ((Molgri.Hemi.cubeLattice d (2 ^ k)).map dbl).Nodup :=
    (Molgri.Hemi.nodup_cubeLattice d (2 ^ k)).map (fun _ _ h => Molgri.Polytope.dbl_inj h)
  rw [List.perm_ext_iff_of_nodup h1 h2]
  intro p
  rw [cubeLattice_succ_iff, List.mem_map]
  constructor
  · rintro ⟨q, hq, rfl⟩; exact ⟨q, hq, rfl⟩
  · rintro ⟨q, hq, rfl⟩; exact ⟨q, hq, rfl⟩

/-- **The node list of C18's cube / hypercube is a rearrangement of C07's lattice list** (after `k+1 ≥ 1` divisions;
coordinates halved to C07's unit) — the hypothesis `hperm` of C07's `hypercube_lattice_distinct_rotations`, for every
level and every offset table. -/
theorem cube_nodes_perm_hemi_lattice (σ : Nat → Nat → Nat → Nat) (kind : Kind) (hk : kind = .cube3 ∨ kind = .cube4)
    (k : Nat) :
    (((Molgri.Polytope.iter σ kind (k + 1)).nodes.map (·.pt)).map halfPt).Perm
      (Molgri.Hemi.cubeLattice (Molgri.Polytope.cubeDim kind) (2 ^ k)) := by
  have hnd := Molgri.C18.cube_nodes_nodup σ kind hk (k + 1)
  have h2 : ((Molgri.Hemi.cubeLattice (Molgri.Polytope.cubeDim kind) (2 ^ k)).map dbl).Nodup :=
    (Molgri.Hemi.nodup_cubeLattice _ _).map (fun _ _ h => Molgri.Polytope.dbl_inj h)
  have hp : ((Molgri.Polytope.iter σ kind (k + 1)).nodes.map (·.pt)).Perm
      ((Molgri.Hemi.cubeLattice (Molgri.Polytope.cubeDim kind) (2 ^ k)).map dbl) := by
    rw [List.perm_ext_iff_of_nodup hnd h2]
    intro p
    rw [Molgri.C18.cube_nodes_eq_lattice σ kind hk, ← Molgri.C18.cube_lattice_list, cubeLattice_succ_iff, List.mem_map]
    constructor
    · rintro ⟨q, hq, rfl⟩; exact ⟨q, hq, rfl⟩
    · rintro ⟨q, hq, rfl⟩; exact ⟨q, hq, rfl⟩
  have h3 : ((Molgri.Hemi.cubeLattice (Molgri.Polytope.cubeDim kind) (2 ^ k)).map dbl).map halfPt =
      Molgri.Hemi.cubeLattice (Molgri.Polytope.cubeDim kind) (2 ^ k) := by
    rw [List.map_map]
    conv_rhs => rw [← List.map_id (Molgri.Hemi.cubeLattice (Molgri.Polytope.cubeDim kind) (2 ^ k))]
    apply List.map_congr_left
    intro q _
    exact halfPt_dbl q
  have := hp.map halfPt
  rwa [h3] at this

/-- level 0: the node list is a rearrangement of C07's vertex list `(±1, …, ±1)` (finite tables). -/
theorem cube_nodes_perm_hemi_vertices (σ : Nat → Nat → Nat → Nat) (kind : Kind) (hk : kind = .cube3 ∨ kind = .cube4) :
    ((Molgri.Polytope.iter σ kind 0).nodes.map (·.pt)).Perm (Molgri.Hemi.cubeVertices (Molgri.Polytope.cubeDim kind)) := by
  have h0 : (Molgri.Polytope.iter σ kind 0).nodes.map (·.pt) = (Molgri.Polytope.pre kind).nodes.map (·.pt) := by
    show (Molgri.Polytope.create σ kind).nodes.map (·.pt) = _
    rw [Molgri.Polytope.create_eq]
    show (Molgri.Polytope.assignGo _ _ _ (Molgri.Polytope.pre kind).nodes 0).map (·.pt) = _
    rw [Molgri.Polytope.assignGo_map_pt]
  rw [h0]
  rcases hk with rfl | rfl <;> decide

/-- **C07 `hypercube_lattice_distinct_rotations` with `hperm` discharged by C18**: `L` is the node list of C18's
hypercube after `k+1` divisions in central-index order (coordinates in C07's unit); it is a rearrangement of C07's
lattice, so the first `N` canonical nodes, normalised, are pairwise neither equal nor antipodal, and the canonical nodes
are exactly half of C07's lattice — every level `k+1 ≥ 1`, every offset table. -/
theorem hypercube_distinct_rotations_from_nodes {K : Type} [Field K] [LinearOrder K] [IsStrictOrderedRing K]
    (σ : Nat → Nat → Nat → Nat) (k : Nat) (rows : List Molgri.Polytope.Node)
    (hrows : Molgri.Polytope.getNodes (Molgri.Polytope.iter σ .cube4 (k + 1)) none = .ok rows)
    (proj : List K → List K)
    (hproj : Molgri.Hemi.RadialOn proj (((rows.map (·.pt)).map halfPt).map Molgri.Hemi.castPt)) (N : Nat)
    (hN : N ≤ ((((rows.map (·.pt)).map halfPt).map (Molgri.Hemi.castPt (K := K))).filter
      (Molgri.Hemi.upper 0)).length) :
    let L := (rows.map (·.pt)).map halfPt
    let out := (((L.map Molgri.Hemi.castPt).filter (Molgri.Hemi.upper (0 : K))).take N).map proj
    out.length = N ∧ out.Pairwise (fun a b => a ≠ b ∧ a ≠ Molgri.Hemi.neg b) ∧
      (∀ a ∈ out, Molgri.Hemi.upper 0 a = true) ∧
      2 * ((L.map (Molgri.Hemi.castPt (K := K))).filter (Molgri.Hemi.upper 0)).length =
        (Molgri.Hemi.cubeLattice 4 (2 ^ k)).length := by
  have hrw : rows = Molgri.Polytope.sortByIdx (Molgri.Polytope.iter σ .cube4 (k + 1)).nodes :=
    (Except.ok.inj hrows).symm
  have hperm : ((rows.map (·.pt)).map halfPt).Perm (Molgri.Hemi.cubeLattice 4 (2 ^ k)) := by
    refine List.Perm.trans ?_ (cube_nodes_perm_hemi_lattice σ .cube4 (Or.inr rfl) k)
    rw [hrw]
    exact ((Molgri.Polytope.sortByIdx_perm _).map _).map _
  exact Molgri.C07.hypercube_lattice_distinct_rotations 4 (2 ^ k) (Nat.pos_of_ne_zero (by positivity)) _ hperm proj
    hproj N hN

/-! ### icosahedron -/

instance : LawfulBEq Zphi where
  eq_of_beq {x y} h := by
    cases x; cases y
    simp only [BEq.beq, Molgri.IcoExact.instBEqZphi.beq, Bool.and_eq_true, decide_eq_true_eq] at h
    obtain ⟨rfl, rfl⟩ := h
    rfl
  rfl {x} := by cases x; simp [BEq.beq, Molgri.IcoExact.instBEqZphi.beq]

theorem unflat_smul (n : Nat) : ∀ p : Pt,
    unflat (Molgri.Polytope.smul (Int.ofNat n) p) = Molgri.IcoExact.smul n (unflat p)
  | [] => rfl
  | [_] => rfl
  | a :: b :: t => by
    have ih := unflat_smul n t
    simp only [Molgri.Polytope.smul, Molgri.IcoExact.smul, List.map_cons, unflat] at ih ⊢
    rw [ih]
    congr 1
    show (⟨_, _⟩ : Zphi) = ⟨(n : Int) * a + 0 * b, (n : Int) * b + 0 * a + 0 * b⟩
    simp

theorem unflat_add3 (p q r : Pt) (hp : p.length = 6) (hq : q.length = 6) (hr : r.length = 6) :
    unflat (Molgri.Polytope.add3 p q r) =
      Molgri.IcoExact.addV (Molgri.IcoExact.addV (unflat p) (unflat q)) (unflat r) := by
  obtain ⟨p0, p1, p2, p3, p4, p5, rfl⟩ := len6 hp
  obtain ⟨q0, q1, q2, q3, q4, q5, rfl⟩ := len6 hq
  obtain ⟨r0, r1, r2, r3, r4, r5, rfl⟩ := len6 hr
  rfl

theorem triLattice_unflat (n A B C : Nat) (hA : A < 12) (hB : B < 12) (hC : C < 12) :
    (Molgri.Polytope.triLattice n (Molgri.Polytope.vtx A) (Molgri.Polytope.vtx B) (Molgri.Polytope.vtx C)).map unflat =
      Molgri.IcoExact.faceNodes n (A, B, C) := by
  unfold Molgri.Polytope.triLattice Molgri.IcoExact.faceNodes
  rw [List.map_flatMap]
  apply List.flatMap_congr
  intro i _
  rw [List.map_map]
  apply List.map_congr_left
  intro j _
  simp only [Function.comp]
  rw [unflat_add3 _ _ _ (by rw [Molgri.Polytope.len_smul]; exact Molgri.Polytope.vtx_len A hA)
    (by rw [Molgri.Polytope.len_smul]; exact Molgri.Polytope.vtx_len B hB)
    (by rw [Molgri.Polytope.len_smul]; exact Molgri.Polytope.vtx_len C hC),
    unflat_smul, unflat_smul, unflat_smul, vtx_table A hA, vtx_table B hB, vtx_table C hC]

theorem faces_table_eq : Molgri.Polytope.icoFaces = Molgri.IcoExact.faces.map (fun f => [f.1, f.2.1, f.2.2]) ∧
    ∀ f ∈ Molgri.IcoExact.faces, f.1 < 12 ∧ f.2.1 < 12 ∧ f.2.2 < 12 := by decide

/-- **The icosahedron lattice lists agree.**  C18's executable geodesic lattice `icoLattice k`, re-encoded in C07's
`ℤ[φ]`, is literally the list of barycentric lattice points that C07's `IcoExact.nodes k` de-duplicates — every level. -/
theorem icoLattice_unflat (k : Nat) :
    (Molgri.Polytope.icoLattice k).map unflat =
      Molgri.IcoExact.faces.flatMap (Molgri.IcoExact.faceNodes (2 ^ k)) := by
  unfold Molgri.Polytope.icoLattice
  rw [faces_table_eq.1, List.flatMap_map, List.map_flatMap]
  apply List.flatMap_congr
  intro f hf
  obtain ⟨h1, h2, h3⟩ := faces_table_eq.2 f hf
  exact triLattice_unflat (2 ^ k) f.1 f.2.1 f.2.2 h1 h2 h3

/-- **C07's exact node list is C18's node set**: a point of `ℤ[φ]³` is in `IcoExact.nodes k` iff it is (the re-encoding
of) a node of C18's icosahedron after `k` divisions — every level, every offset table.  (C07 only had the node counts
and the level-set check for `k ≤ 2`, by kernel evaluation.) -/
theorem icoExact_nodes_iff (σ : Nat → Nat → Nat → Nat) (k : Nat) (q : List Zphi) :
    q ∈ Molgri.IcoExact.nodes k ↔ ∃ nd ∈ (Molgri.Polytope.iter σ .ico k).nodes, q = unflat nd.pt := by
  unfold Molgri.IcoExact.nodes
  rw [List.mem_eraseDups, ← icoLattice_unflat, List.mem_map]
  constructor
  · rintro ⟨p, hp, rfl⟩
    obtain ⟨nd, hnd, rfl⟩ := List.mem_map.mp ((Molgri.C18.ico_nodes_eq_lattice_list σ k p).mpr hp)
    exact ⟨nd, hnd, rfl⟩
  · rintro ⟨nd, hnd, rfl⟩
    exact ⟨nd.pt, (Molgri.C18.ico_nodes_eq_lattice_list σ k nd.pt).mp (List.mem_map_of_mem hnd), rfl⟩

theorem eraseDups_nodup {α : Type} [BEq α] [LawfulBEq α] : ∀ (n : Nat) (l : List α), l.length = n → l.eraseDups.Nodup := by
  intro n
  induction n using Nat.strong_induction_on with
  | _ n ih =>
    intro l hl
    cases l with
    | nil => simp
    | cons a as =>
      rw [List.eraseDups_cons, List.nodup_cons]
      constructor
      · intro hmem
        rw [List.mem_eraseDups, List.mem_filter] at hmem
        simpa using hmem.2
      · apply ih (List.filter (fun b => !b == a) as).length _ _ rfl
        have := List.length_filter_le (fun b => !b == a) as
        simp only [List.length_cons] at hl
        omega

/-- **The node counts agree at every level**: C07's exact list `IcoExact.nodes k` has exactly as many points as C18's
icosahedron has nodes (C07: table `12, 42, 162` for `k ≤ 2`). -/
theorem icoExact_nodes_length (σ : Nat → Nat → Nat → Nat) (k : Nat) :
    (Molgri.IcoExact.nodes k).length = (Molgri.Polytope.iter σ .ico k).nodes.length := by
  have h1 : (Molgri.IcoExact.nodes k).Nodup := eraseDups_nodup _ _ rfl
  have hinj : ∀ p ∈ (Molgri.Polytope.iter σ .ico k).nodes.map (·.pt),
      ∀ q ∈ (Molgri.Polytope.iter σ .ico k).nodes.map (·.pt), unflat p = unflat q → p = q := by
    intro p hp q hq h
    exact unflat_inj6 (latI_len ((Molgri.C18.ico_nodes_eq_lattice σ k p).mp hp))
      (latI_len ((Molgri.C18.ico_nodes_eq_lattice σ k q).mp hq)) h
  have h2 : (((Molgri.Polytope.iter σ .ico k).nodes.map (·.pt)).map unflat).Nodup :=
    List.Nodup.map_on hinj (Molgri.C18.ico_nodes_nodup σ k)
  have hperm : (Molgri.IcoExact.nodes k).Perm (((Molgri.Polytope.iter σ .ico k).nodes.map (·.pt)).map unflat) := by
    rw [List.perm_ext_iff_of_nodup h1 h2]
    intro q
    rw [icoExact_nodes_iff σ k q]
    simp only [List.mem_map, exists_exists_and_eq_and]
    constructor
    · rintro ⟨nd, hnd, rfl⟩; exact ⟨nd, hnd, rfl⟩
    · rintro ⟨nd, hnd, h⟩; exact ⟨nd, hnd, h.symm⟩
  simpa using hperm.length_eq

end Molgri.Bridge.PolyLattice
