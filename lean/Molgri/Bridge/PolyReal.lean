/-
Bridge A — the hypotheses of the bridge theorems are satisfiable: the instance over `ℝ`.

`Bridge/PolyHistory.lean`, `PolyDistinct.lean` and `PolyLattice.lean` are stated over any ordered field `K` with an
element `φ`, `φ² = φ + 1`, `0 < φ`, for any normalisation that is `Radial`, any generator whose shuffle permutes.
Here: `K = ℝ` with the real golden ratio, a normalisation that is radial (division by the sup-norm; the Euclidean
normalisation `p / ‖p‖` of numpy is radial in the same way), the toy generator of C08 whose shuffle reverses, and the
identity offset table.  With these the theorems are closed statements about concrete objects.
-/
import Molgri.Bridge.PolyHistory
import Molgri.Bridge.PolyDistinct
import Molgri.Bridge.PolyLattice
import Mathlib.NumberTheory.Real.GoldenRatio

set_option linter.unusedSectionVars false

namespace Molgri.Bridge.PolyReal
open Molgri.Bridge.PolyKey Molgri.Bridge.PolyHistory Molgri.History
open Molgri.Polytope (St)

/-- the golden ratio of `ℝ` satisfies the two hypotheses on `φ`. -/
theorem phi_real : Real.goldenRatio * Real.goldenRatio = Real.goldenRatio + 1 ∧ 0 < Real.goldenRatio := by
  refine ⟨?_, Real.goldenRatio_pos⟩
  have := Real.goldenRatio_sq
  rwa [sq] at this

section
variable {K : Type} [Field K] [LinearOrder K] [IsStrictOrderedRing K]

/-- division by the sup-norm — a normalisation onto the cube surface. -/
def supNormalise (p : List K) : List K := Molgri.Hemi.scale (Molgri.Hemi.supNorm p)⁻¹ p

/-- `Radial` is satisfiable (over every ordered field): `supNormalise` scales every non-zero vector by a positive
factor. -/
theorem radial_supNormalise : Radial (supNormalise (K := K)) := by
  intro p hp
  refine ⟨(Molgri.Hemi.supNorm p)⁻¹, inv_pos.mpr ?_, rfl⟩
  rcases lt_or_eq_of_le (Molgri.Hemi.supNorm_nonneg p) with h | h
  · exact h
  · exfalso
    obtain ⟨x, hx, hx0⟩ := hp
    have hall : ∀ (q : List K), Molgri.Hemi.supNorm q = 0 → ∀ y ∈ q, y = 0 := by
      intro q
      induction q with
      | nil => intro _ y hy; cases hy
      | cons a t ih =>
        intro hq y hy
        simp only [Molgri.Hemi.supNorm, Molgri.Hemi.maxK_eq, Molgri.Hemi.absK_eq] at hq
        have h1 : |a| ≤ 0 := by rw [← hq]; exact le_max_left _ _
        have h2 : Molgri.Hemi.supNorm t ≤ 0 := by rw [← hq]; exact le_max_right _ _
        rcases List.mem_cons.mp hy with rfl | hy
        · exact abs_nonpos_iff.mp h1
        · exact ih (le_antisymm h2 (Molgri.Hemi.supNorm_nonneg t)) y hy
    exact hx0 (hall p h.symm x hx)

/-- a geometry parameter whose non-polytope fields are simple placeholders (they play no role in the hypotheses). -/
def baseOf (proj : List K → List K) : Ext St (List K) Unit (List (List K)) where
  init := fun _ => (Molgri.Polytope.emptySt [], [])
  divide := fun _ g => (g, [])
  proj := proj
  upper := Molgri.Hemi.upper 0
  neg := Molgri.Hemi.neg
  sphere := fun _ _ => []
  quat := fun _ _ => []
  zero3 := [0, 0, 1]
  zero4 := [0, 0, 0, 1]
  dense3 := fun _ _ => []
  dense4 := fun _ => []
  arr := id
  areas := id
  hullVol := fun _ g _ => g
  hulls := fun _ g _ => g
  nn := fun _ _ g => g
  mikroVol := fun _ _ => []
  mikroNN := fun _ => []

end

/-- the identity offset table (C18's example of a family of permutations). -/
def σ₀ : Nat → Nat → Nat → Nat := fun _ _ j => j

/-- **All hypotheses of C08 hold for the concrete polytopes over `ℝ`** with the toy generator (`shuffle` reverses):
`ShufflePerm`, `Fresh`, `Grows`, `ProjNodup` — no hypothesis left. -/
theorem real_instance :
    ShufflePerm toyRng ∧
    Fresh (withPolytopes σ₀ Real.goldenRatio (baseOf (supNormalise (K := ℝ)))) toyRng ∧
    Grows (withPolytopes σ₀ Real.goldenRatio (baseOf (supNormalise (K := ℝ)))) toyRng ∧
    ProjNodup (withPolytopes σ₀ Real.goldenRatio (baseOf (supNormalise (K := ℝ)))) toyRng :=
  ⟨toy_shufflePerm,
   concrete_fresh σ₀ _ _ toyRng phi_real.1 toy_shufflePerm,
   concrete_grows σ₀ _ _ toyRng phi_real.1 toy_shufflePerm,
   concrete_projNodup σ₀ _ _ toyRng phi_real.1 phi_real.2 toy_shufflePerm radial_supNormalise⟩

/-- non-vacuity of `polytope_prefix_stable_concrete` (hypothesis `hN`): the level-0 cube has 8 nodes in both models, so
`get_nodes(8)` of the cube after any number of further divisions returns the 8 rows of level 0. -/
theorem real_cube_prefix (m : Nat) (proj : Bool) :
    (getNodes (canonPoly (withPolytopes σ₀ Real.goldenRatio (baseOf (supNormalise (K := ℝ)))) toyRng .cube3D (0 + m))
      (some 8) proj).2 =
    (getNodes (canonPoly (withPolytopes σ₀ Real.goldenRatio (baseOf (supNormalise (K := ℝ)))) toyRng .cube3D 0)
      (some 8) proj).2 := by
  apply polytope_prefix_stable_concrete σ₀ _ _ toyRng phi_real.1 toy_shufflePerm
  rw [canonPoly_node_count σ₀ _ _ toyRng phi_real.1 toy_shufflePerm]
  have : (Molgri.Polytope.iter σ₀ .cube3 0).nodes.length = 8 := by decide +kernel
  show 8 ≤ (Molgri.Polytope.iter σ₀ (kindOf .cube3D) 0).nodes.length
  rw [show kindOf .cube3D = .cube3 from rfl, this]

/-- non-vacuity of `ico_rows_distinct_every_level` / `rows_distinct_every_level`: over `ℝ`, level 1 of the icosahedron
has 42 nodes; the first 42 sup-normalised rows are pairwise distinct. -/
theorem real_ico_level1 :
    ∃ rows, Molgri.Polytope.getNodes (Molgri.Polytope.iter σ₀ .ico 1) none = .ok rows ∧ rows.length = 42 ∧
      (((rows.map (fun nd => toK Real.goldenRatio .ico nd.pt)).take 42).map (supNormalise (K := ℝ))).Nodup := by
  refine ⟨_, rfl, ?_, ?_⟩
  · rw [(Molgri.Polytope.sortByIdx_perm _).length_eq]; decide +kernel
  · exact (Molgri.Bridge.PolyDistinct.ico_rows_distinct_every_level σ₀ Real.goldenRatio phi_real.1 phi_real.2 1 _ rfl
      supNormalise radial_supNormalise 42
      (by rw [(Molgri.Polytope.sortByIdx_perm _).length_eq]; decide +kernel)).2.2

end Molgri.Bridge.PolyReal
