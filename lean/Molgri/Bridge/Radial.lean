/-
Bridge C (1) — the radial-grid helpers are ONE function in all the models that re-implement them.

`molgri/space/translations.py` is modelled five times:

* C16  `Molgri.Trans`         parser tail `finish` (sort, `>= 0`, `* 10`), `getIncrements`, `getBetweenRadii`  (`Except Trans.Err`)
* C05  `Molgri.PositionGrid`  `parsedRadii`, `getIncrements`, `getBetweenRadii` (polymorphic scalar, `Except String`)
* C11  `Molgri.Assign`        `increments`, `betweenRadii`                      (`Except String`)
* C19  `Molgri.Totality`      `getIncrements`, `getBetweenRadii` with numpy broadcasting (`Except Totality.Err`)
* C09  `Molgri.Order`         `transGrid`, `sortK`

Every theorem below is an equality of functions **on all inputs** (error results included, the exception classes
related by the name map `nameE` / the class map `toTot`).  C16's model is taken as the reference.
-/
import Molgri.Lemmas.Trans
import Molgri.Lemmas.PositionGrid
import Molgri.Lemmas.Assign
import Molgri.Lemmas.Totality
import Molgri.Lemmas.Order
import Molgri.Props.C16
import Molgri.Props.C05
import Molgri.Props.C11
import Molgri.Props.C19

namespace Molgri.Bridge.Radial

/-- An `Except Trans.Err` result as the `Except String` the other models use: the exception's Python name. -/
def nameE {α : Type} (x : Except Trans.Err α) : Except String α := x.mapError Trans.Err.name

/-- The exception classes of C16's model as those of C19's model (only `IndexError` and `AssertionError` can leave the
radial helpers: `radial_errors`). -/
def toTot : Trans.Err → Totality.Err
  | .indexError => .indexError
  | .assertionError => .assertionError
  | .typeError => .typeError
  | _ => .valueError

@[simp] theorem nameE_ok {α : Type} (a : α) : nameE (.ok a : Except Trans.Err α) = .ok a := rfl
@[simp] theorem nameE_error {α : Type} (e : Trans.Err) : nameE (.error e : Except Trans.Err α) = .error e.name := rfl

/-! ### `np.sort` -/

/-- C09's `np.sort` is C16's. -/
theorem sortK_eq (xs : List Rat) : Order.sortK xs = Trans.sortAsc xs := rfl

theorem leB_eq : (fun a b : Rat => !decide (b < a)) = (fun a b : Rat => decide (a ≤ b)) := by
  funext a b
  by_cases h : a ≤ b
  · simp [h, not_lt.mpr h]
  · simp [h, not_le.mp h]

/-- C05's `np.sort` (comparison written `¬ b < a`) is C16's. -/
theorem sortPG_eq (xs : List Rat) : xs.mergeSort (fun a b => !decide (b < a)) = Trans.sortAsc xs := by
  unfold Trans.sortAsc
  rw [leB_eq]

/-! ### parser tail: sort, non-negativity assertion, `* NM2ANGSTROM` -/

theorem all_nonneg_iff_not_any_neg (s : List Rat) :
    (s.any fun x => decide (x < 0)) = !(s.all fun x => decide (0 ≤ x)) := by
  induction s with
  | nil => rfl
  | cons a t ih =>
    simp only [List.any_cons, List.all_cons, ih, Bool.not_and]
    congr 1
    by_cases h : 0 ≤ a
    · simp [h, not_lt.mpr h]
    · simp [h, not_le.mp h]

/-- **C05 = C16**: `PositionGrid.parsedRadii` (at `ℚ`) is `Trans.finish`. -/
theorem parsedRadii_eq (xs : List Rat) : PositionGrid.parsedRadii xs = nameE (Trans.finish xs) := by
  unfold PositionGrid.parsedRadii Trans.finish
  simp only [sortPG_eq, all_nonneg_iff_not_any_neg]
  by_cases h : ((Trans.sortAsc xs).all fun x => decide (0 ≤ x)) = true
  · simp only [h, Bool.not_true, Bool.false_eq_true, if_false, if_true]; rfl
  · simp only [Bool.not_eq_true] at h
    simp only [h, Bool.not_false, if_true, Bool.false_eq_true, if_false]; rfl

/-- **C09 = C16**: `Order.transGrid` (at `ℚ`) is `Trans.finish`. -/
theorem transGrid_eq (xs : List Rat) : Order.transGrid xs = nameE (Trans.finish xs) := by
  have key : ∀ s : List Rat,
      (if (s.all fun x => decide ((0 : Rat) ≤ x)) = true then (Except.ok (s.map (· * 10)) : Except String (List Rat))
        else .error "AssertionError") =
      nameE (if (s.all fun x => decide (0 ≤ x)) = true then .ok (s.map (· * Trans.nm2angstrom))
        else .error .assertionError) := by
    intro s
    by_cases h : (s.all fun x => decide ((0 : Rat) ≤ x)) = true
    · rw [if_pos h, if_pos h]; rfl
    · rw [if_neg h, if_neg h]; rfl
  exact key (Trans.sortAsc xs)

/-- Hence C05's and C09's readings of the constructor coincide. -/
theorem parsedRadii_eq_transGrid (xs : List Rat) : PositionGrid.parsedRadii xs = Order.transGrid xs := by
  rw [parsedRadii_eq, transGrid_eq]

/-- The constructor as a whole: for a radial text whose values are `v` (C16's `transValues`), C05's `parsedRadii v` and
C09's `transGrid v` are what C16's `parseTrans` returns for the text. -/
theorem parsed_of_text (s : List Char) (v : List Rat) (hv : Trans.transValues s = .ok v) :
    PositionGrid.parsedRadii v = nameE (Trans.parseTrans s) ∧ Order.transGrid v = nameE (Trans.parseTrans s) := by
  have : Trans.parseTrans s = Trans.finish v := by unfold Trans.parseTrans; rw [hv]; rfl
  rw [this]
  exact ⟨parsedRadii_eq v, transGrid_eq v⟩

/-- C09's whole pipeline `fullGrid` reads its radii through C16's parser tail. -/
theorem fullGrid_radii (dirs quats : List (List Rat)) (nm : List Rat) :
    Order.fullGrid dirs quats nm =
      match Trans.finish nm with
      | .error e => .error e.name
      | .ok radii =>
        Order.fullArrayLoop (Order.fullLen quats.length dirs.length radii.length) (Order.positions dirs radii) quats := by
  unfold Order.fullGrid
  rw [transGrid_eq]
  cases Trans.finish nm <;> rfl

/-! ### `get_increments` -/

/-- C11's and C05's increment lists are the same list. -/
theorem increments_eq_incrementsOf (r : List Rat) : Assign.increments r = PositionGrid.incrementsOf r := by
  cases r <;> rfl

theorem not_lt_zero_eq (x : Rat) : (!decide (x < 0)) = decide (0 ≤ x) := by
  by_cases h : 0 ≤ x
  · simp [h, not_lt.mpr h]
  · simp [h, not_le.mp h]

/-- **C05 = C16**: `get_increments`. -/
theorem getIncrements_pg (r : List Rat) : PositionGrid.getIncrements r = nameE (Trans.getIncrements r) := by
  cases r with
  | nil => rfl
  | cons r0 rs =>
    unfold PositionGrid.getIncrements Trans.getIncrements PositionGrid.incrementsOk PositionGrid.incrementsOf
    simp only [List.isEmpty_cons, Bool.false_eq_true, if_false, List.getD_cons_zero, List.tail_cons, not_lt_zero_eq]
    split
    · rename_i h; simp only [h, ↓reduceIte]; rfl
    · rename_i h; simp only [h]; rfl

/-- **C19 = C16**: `get_increments`. -/
theorem getIncrements_tot (r : List Rat) : Totality.getIncrements r = (Trans.getIncrements r).mapError toTot := by
  cases r with
  | nil => rfl
  | cons r0 rs =>
    unfold Totality.getIncrements Trans.getIncrements
    simp only [List.tail_cons]
    split
    · rename_i h; simp only [h, ↓reduceIte]; rfl
    · rename_i h; simp only [h]; rfl

/-- **C11 = C16**: on every accepted grid `Assign.increments` is the list `get_increments` returns (C11's `increments`
has no assertion of its own; `betweenRadii_assign` covers the asserting caller). -/
theorem increments_assign (r inc : List Rat) (h : Trans.getIncrements r = .ok inc) : Assign.increments r = inc := by
  cases r with
  | nil => simp [Trans.getIncrements] at h
  | cons r0 rs =>
    unfold Trans.getIncrements at h
    simp only at h
    split at h
    · simp only [Except.ok.injEq] at h; rw [← h]; rfl
    · simp at h

/-- Only `IndexError` (empty grid) and `AssertionError` leave the radial helpers. -/
theorem radial_errors (r : List Rat) (e : Trans.Err) (h : Trans.getIncrements r = .error e) :
    e = .indexError ∨ e = .assertionError := by
  cases r with
  | nil =>
    simp only [Trans.getIncrements, Except.error.injEq] at h
    exact Or.inl h.symm
  | cons r0 rs =>
    unfold Trans.getIncrements at h
    simp only at h
    split at h
    · simp at h
    · simp only [Except.error.injEq] at h
      exact Or.inr h.symm


/-! ### `get_between_radii` -/

/-- the middle of `get_between_radii` as C16 writes it -/
def half (inc : List Rat) : List Rat :=
  if inc.length > 1 then (inc.tail ++ [inc.tail.getLastD 0]).map (· / 2) else inc

theorem trans_between_eq (r : List Rat) (z : Bool) :
    Trans.getBetweenRadii r z =
      (Trans.getIncrements r).map fun inc =>
        if z then 0 :: List.zipWith (· + ·) r (half inc) else List.zipWith (· + ·) r (half inc) := by
  unfold Trans.getBetweenRadii
  cases Trans.getIncrements r <;> rfl

theorem trans_between_false (r : List Rat) :
    Trans.getBetweenRadii r false = (Trans.getIncrements r).map fun inc => List.zipWith (· + ·) r (half inc) := by
  rw [trans_between_eq]
  cases Trans.getIncrements r <;> rfl

theorem singleton_getLastD {t : List Rat} (h : t ≠ []) : [t.getLastD 0] = t.getLast?.toList := by
  rw [List.getLastD_eq_getLast?, List.getLast?_eq_some_getLast h]; rfl

theorem halfIncrements_eq (inc : List Rat) : PositionGrid.halfIncrements inc = half inc := by
  unfold PositionGrid.halfIncrements half
  split
  · rename_i h
    have hne : inc.tail ≠ [] := by
      intro h0
      have := congrArg List.length h0
      simp at this; omega
    simp only [singleton_getLastD hne]
  · rfl

/-- **C05 = C16**: `get_between_radii` (`include_zero=False`). -/
theorem getBetweenRadii_pg (r : List Rat) :
    PositionGrid.getBetweenRadii r = nameE (Trans.getBetweenRadii r false) := by
  unfold PositionGrid.getBetweenRadii
  rw [getIncrements_pg, trans_between_false]
  cases Trans.getIncrements r with
  | error e => rfl
  | ok inc =>
    show Except.ok _ = Except.ok _
    rw [halfIncrements_eq]

theorem half_getLast (inc : List Rat) :
    (if inc.length > 1 then (inc.drop 1 ++ [(inc.drop 1).getLast?.getD 0]).map (fun v => v / 2) else inc) = half inc := by
  unfold half
  split
  · simp only [List.drop_one, List.getLastD_eq_getLast?]
  · rfl

theorem assign_core (r0 : Rat) (rs D : List Rat) :
    (if (decide (r0 < 0) || D.any (fun v => decide (v ≤ 0))) = true then (throw "AssertionError" : Except String (List Rat))
      else pure (List.zipWith (fun a b => a + b) (r0 :: rs)
        (if (r0 :: D).length > 1 then
            (((r0 :: D).drop 1 ++ [((r0 :: D).drop 1).getLast?.getD 0]).map (fun v => v / 2))
          else r0 :: D))) =
    nameE (((if (decide (0 ≤ r0) && D.all (fun x => decide (0 < x))) = true then
        (Except.ok (r0 :: D) : Except Trans.Err (List Rat)) else .error .assertionError)).map
      fun inc => List.zipWith (· + ·) (r0 :: rs) (half inc)) := by
  rw [half_getLast]
  by_cases h2 : (decide (0 ≤ r0) && D.all fun x => decide (0 < x)) = true
  · have h1 : ¬ (decide (r0 < 0) || D.any fun v => decide (v ≤ 0)) = true := by
      intro h1
      simp only [Bool.or_eq_true, Bool.and_eq_true, decide_eq_true_eq, List.any_eq_true, List.all_eq_true] at h1 h2
      obtain ⟨h0, ha⟩ := h2
      rcases h1 with h1 | ⟨v, hv, hle⟩
      · exact absurd h0 (not_le.mpr h1)
      · exact absurd (ha v hv) (not_lt.mpr hle)
    rw [if_neg h1, if_pos h2]
    rfl
  · have h1 : (decide (r0 < 0) || D.any fun v => decide (v ≤ 0)) = true := by
      by_contra h1
      apply h2
      simp only [Bool.or_eq_true, Bool.and_eq_true, decide_eq_true_eq, List.any_eq_true, List.all_eq_true, not_or,
        not_exists, not_and, not_lt, not_le] at h1 ⊢
      exact ⟨h1.1, fun v hv => h1.2 v hv⟩
    rw [if_pos h1, if_neg h2]
    rfl

/-- **C11 = C16**: `Assign.betweenRadii` is `get_between_radii` (`include_zero=False`), on every input. -/
theorem betweenRadii_assign (r : List Rat) :
    Assign.betweenRadii r = nameE (Trans.getBetweenRadii r false) := by
  cases r with
  | nil => rfl
  | cons r0 rs =>
    rw [trans_between_false]
    exact assign_core r0 rs (List.zipWith (fun start stop => stop - start) (r0 :: rs) rs)

/-- **C19 = C16**: `Totality.getBetweenRadii` (with numpy's broadcasting rule and the guarded `increments[-1]`) is
`get_between_radii`: the broadcasting branch and the `IndexError` of `increments[-1]` are never taken. -/
theorem getBetweenRadii_tot (r : List Rat) :
    Totality.getBetweenRadii r = (Trans.getBetweenRadii r false).mapError toTot := by
  unfold Totality.getBetweenRadii
  rw [getIncrements_tot, trans_between_false]
  cases hinc : Trans.getIncrements r with
  | error e => rfl
  | ok inc =>
    have hlen : inc.length = r.length := (Molgri.C16.increments_getElem r inc hinc).1
    show (if inc.length > 1 then
            (match inc.tail.getLast? with
              | some l => Totality.npBin (fun a b => a + b) r ((inc.tail ++ [l]).map (fun v => v / 2))
              | none => Except.error Totality.Err.indexError)
          else Totality.npBin (fun a b => a + b) r inc) = Except.ok (List.zipWith (· + ·) r (half inc))
    unfold half
    by_cases hl : inc.length > 1
    · have hne : inc.tail ≠ [] := by
        intro h0
        have := congrArg List.length h0
        simp at this; omega
      simp only [hl, ↓reduceIte, List.getLast?_eq_some_getLast hne, List.getLastD_eq_getLast?, Option.getD_some]
      unfold Totality.npBin
      rw [if_pos (by simp; omega)]
      rfl
    · simp only [hl, ↓reduceIte]
      unfold Totality.npBin
      rw [if_pos hlen.symm]
      rfl

/-! ### `_t_and_o_2_positions` for per-direction scalars (C05 = C09) -/

/-- C05's `tAndO` and C09's `positionsScalar` are the same tile/repeat product. -/
theorem tAndO_eq_positionsScalar {K : Type} [Mul K] (o t : List K) :
    PositionGrid.tAndO o t = Order.positionsScalar o t := by
  rw [Order.positionsScalar_eq_flatMap]; rfl

/-! ### the three "radii are fine" predicates are one predicate -/

theorem ascFrom_iff (lo : Rat) (l : List Rat) : Totality.ascFrom lo l = true ↔ (lo :: l).IsChain (· < ·) := by
  induction l generalizing lo with
  | nil => simp [Totality.ascFrom]
  | cons x xs ih => simp [Totality.ascFrom, ih]

/-- C19's hypothesis on radii in plain words: non-empty, positive, strictly ascending. -/
theorem radiiOk_iff (r : List Rat) : Totality.RadiiOk r ↔ r ≠ [] ∧ (0 :: r).Pairwise (· < ·) := by
  unfold Totality.RadiiOk
  rw [ascFrom_iff, List.isChain_iff_pairwise]

/-- C05's `AcceptedRadii` is exactly "C16's `get_increments` returns". -/
theorem accepted_iff (r : List Rat) : PositionGrid.AcceptedRadii r ↔ ∃ inc, Trans.getIncrements r = .ok inc := by
  constructor
  · intro h
    have h1 : nameE (Trans.getIncrements r) = .ok (PositionGrid.incrementsOf r) :=
      (getIncrements_pg r).symm.trans (PositionGrid.getIncrements_ok h)
    cases hh : Trans.getIncrements r with
    | ok inc => exact ⟨inc, rfl⟩
    | error e => rw [hh] at h1; simp at h1
  · rintro ⟨inc, h⟩
    by_contra hn
    rcases PositionGrid.getIncrements_error_of_not_accepted hn with h1 | h1
    · have h2 := (getIncrements_pg r).symm.trans h1
      rw [h] at h2; simp at h2
    · have h2 := (getIncrements_pg r).symm.trans h1
      rw [h] at h2; simp at h2

/-- … and in plain words (C16's `increments_spec`): non-empty, first radius not negative, strictly ascending. -/
theorem accepted_iff_pairwise (r : List Rat) :
    PositionGrid.AcceptedRadii r ↔ r ≠ [] ∧ (∀ x ∈ r.head?, 0 ≤ x) ∧ r.Pairwise (· < ·) := by
  rw [accepted_iff]
  constructor
  · rintro ⟨inc, h⟩
    obtain ⟨r0, rs, rfl, h0, hs, _⟩ := (Molgri.C16.increments_spec _ inc).mp h
    exact ⟨by simp, by simpa using h0, hs⟩
  · rintro ⟨hne, h0, hs⟩
    cases r with
    | nil => exact absurd rfl hne
    | cons r0 rs =>
      exact ⟨_, (Molgri.C16.increments_spec _ _).mpr ⟨r0, rs, rfl, by simpa using h0, hs, rfl⟩⟩

theorem pairwise_zero_cons (r : List Rat) :
    (0 :: r).Pairwise (· < ·) ↔ (∀ x ∈ r, 0 < x) ∧ r.Pairwise (· < ·) := List.pairwise_cons

/-- C05's quantifier `ValidRadii` (at `ℚ`) is C19's `RadiiOk`. -/
theorem valid_iff_radiiOk (r : List Rat) : PositionGrid.ValidRadii r ↔ Totality.RadiiOk r := by
  rw [radiiOk_iff]
  constructor
  · intro h
    have hne : r ≠ [] := List.length_pos_iff.mp h.nonempty
    refine ⟨hne, ?_⟩
    rw [← List.isChain_iff_pairwise, List.isChain_iff_getElem]
    intro i hi
    cases i with
    | zero =>
      have := h.pos
      simp only [List.length_cons, Nat.add_lt_add_iff_right] at hi
      simpa [PositionGrid.rad, List.getD_eq_getElem?_getD, hi] using this
    | succ k =>
      simp only [List.length_cons, Nat.add_lt_add_iff_right] at hi
      have := h.incr k hi
      simpa [PositionGrid.rad, List.getD_eq_getElem?_getD, hi, Nat.lt_of_succ_lt hi] using this
  · rintro ⟨hne, hp⟩
    rw [← List.isChain_iff_pairwise, List.isChain_iff_getElem] at hp
    have hlen : 0 < r.length := List.length_pos_iff.mpr hne
    refine ⟨hlen, ?_, ?_⟩
    · have := hp 0 (by simpa using hlen)
      simpa [PositionGrid.rad, List.getD_eq_getElem?_getD, hlen] using this
    · intro k hk
      have := hp (k + 1) (by simpa using hk)
      simpa [PositionGrid.rad, List.getD_eq_getElem?_getD, hk, Nat.lt_of_succ_lt hk] using this

/-! ### what the parser returns satisfies the hypotheses of C05, C11, C19 -/

/-- A grid the parser (C16) returns, with distinct radii, is accepted by `get_increments` in C05's sense. -/
theorem parsed_accepted (s : List Char) (g : List Rat) (h : Trans.parseTrans s = .ok g) (hd : g.Nodup) (hne : g ≠ []) :
    PositionGrid.AcceptedRadii g := by
  obtain ⟨r0, rs, hg, hinc, _⟩ := Molgri.C16.grid_increments s g h hd hne
  exact (accepted_iff g).mpr ⟨_, hinc⟩

/-- The parser's output is strictly ascending as soon as its radii are distinct. -/
theorem parsed_strict (s : List Char) (g : List Rat) (h : Trans.parseTrans s = .ok g) (hd : g.Nodup) :
    g.Pairwise (· < ·) :=
  (List.pairwise_and_iff.mpr ⟨Molgri.C16.trans_sorted s g h, hd⟩).imp (fun hab => lt_of_le_of_ne hab.1 hab.2)

/-- … and with no zero radius it satisfies C19's `RadiiOk` and C05's `ValidRadii`. -/
theorem parsed_radiiOk (s : List Char) (g : List Rat) (h : Trans.parseTrans s = .ok g) (hd : g.Nodup) (hne : g ≠ [])
    (h0 : (0 : Rat) ∉ g) : Totality.RadiiOk g ∧ PositionGrid.ValidRadii g := by
  have hr : Totality.RadiiOk g := by
    rw [radiiOk_iff, pairwise_zero_cons]
    refine ⟨hne, ?_, parsed_strict s g h hd⟩
    intro x hx
    have := Molgri.C16.trans_nonneg s g h x hx
    exact lt_of_le_of_ne this (fun he => h0 (he ▸ hx))
  exact ⟨hr, (valid_iff_radiiOk g).mpr hr⟩

/-! ### corollaries: theorems of C05 / C11 / C19 with their radii hypotheses discharged by C16 -/

/-- One set of shell boundaries: on a parsed grid with at least two distinct radii, C16's `get_between_radii`,
C05's `betweenOf` / `getBetweenRadii`, C11's `betweenRadii` / `shellUpper` and C19's `getBetweenRadii` return the same
list. -/
theorem boundaries_agree (s : List Char) (g : List Rat) (h : Trans.parseTrans s = .ok g) (hd : g.Nodup)
    (hT : 2 ≤ g.length) :
    Trans.getBetweenRadii g false = .ok (PositionGrid.betweenOf g) ∧
    PositionGrid.getBetweenRadii g = .ok (PositionGrid.betweenOf g) ∧
    Assign.betweenRadii g = .ok (PositionGrid.betweenOf g) ∧
    Totality.getBetweenRadii g = .ok (PositionGrid.betweenOf g) ∧
    PositionGrid.betweenOf g = (List.range g.length).map (Assign.shellUpper g) := by
  have hne : g ≠ [] := by intro h0; rw [h0] at hT; simp at hT
  have hacc := parsed_accepted s g h hd hne
  have h1 : PositionGrid.getBetweenRadii g = .ok (PositionGrid.betweenOf g) := PositionGrid.getBetweenRadii_ok hacc
  have h2 : nameE (Trans.getBetweenRadii g false) = .ok (PositionGrid.betweenOf g) :=
    (getBetweenRadii_pg g).symm.trans h1
  have h3 : Trans.getBetweenRadii g false = .ok (PositionGrid.betweenOf g) := by
    cases hh : Trans.getBetweenRadii g false with
    | ok b => rw [hh] at h2; simpa using h2
    | error e => rw [hh] at h2; simp at h2
  have h4 : Assign.betweenRadii g = .ok (PositionGrid.betweenOf g) := by rw [betweenRadii_assign, h3]; rfl
  refine ⟨h3, h1, h4, by rw [getBetweenRadii_tot, h3]; rfl, ?_⟩
  have h5 := Molgri.C11.between_radii_spec g (parsed_strict s g h hd) hT (Molgri.C16.trans_nonneg s g h)
  rw [h4] at h5
  exact Except.ok.inj h5

/-- C11 `nearest_radius_iff_shell` for a parsed radial text: the hypotheses "strictly increasing" is a theorem of C16. -/
theorem nearest_radius_iff_shell_parsed (s : List Char) (g : List Rat) (h : Trans.parseTrans s = .ok g) (hd : g.Nodup)
    (hT : 2 ≤ g.length) (d : Rat) (k : Nat) :
    Assign.tAssign g d false = .ok (some k) ↔
      k < g.length ∧ (k = 0 ∨ Assign.shellUpper g (k - 1) < d) ∧ d ≤ Assign.shellUpper g k :=
  Molgri.C11.nearest_radius_iff_shell g (parsed_strict s g h hd) hT d k

/-- C19 `getters_total` with `RadiiOk` discharged: for every radial text the parser of C16 accepts, whose radii are
distinct and non-zero, every getter is total in the sense of C19. -/
theorem getters_total_parsed (txt : List Char) (sp : Totality.Spec) (ext : Totality.Ext) (gt : Totality.Getter)
    (h : Trans.parseTrans txt = .ok sp.radii) (hd : sp.radii.Nodup) (hne : sp.radii ≠ []) (h0 : (0 : Rat) ∉ sp.radii)
    (hclosed : ∀ a nO, Totality.resolveName false sp.o = .ok (a, nO) → ∀ i ∈ ext.closed, i < nO * sp.radii.length) :
    Totality.run Totality.current sp ext gt = .error .valueError
    ∨ (sp.cartesian = true ∧ (ext.qhullOk = false ∨ ∃ i ∈ ext.closed, i ∈ ext.hullFails)
        ∧ Totality.run Totality.current sp ext gt = .error .qhullError)
    ∨ ∃ ab nB ao nO, Totality.resolveName true sp.b = .ok (ab, nB) ∧ Totality.resolveName false sp.o = .ok (ao, nO)
        ∧ 1 ≤ nB ∧ 1 ≤ nO ∧
        Totality.run Totality.current sp ext gt = .ok (Totality.expected gt (sp.radii.length * nO * nB)) :=
  Molgri.C19.getters_total sp ext gt (parsed_radiiOk txt sp.radii h hd hne h0).1 hclosed

/-- C05's theorems are stated for `ValidRadii`; every parsed grid with distinct non-zero radii is one, e.g. the
interleaving `r_k < R_k < r_{k+1}` of C05 (`rad_lt_Rab`, `Rab_lt_rad_succ`) holds for it. -/
theorem parsed_interleave (s : List Char) (g : List Rat) (h : Trans.parseTrans s = .ok g) (hd : g.Nodup) (hne : g ≠ [])
    (h0 : (0 : Rat) ∉ g) (k : Nat) (hk : k < g.length) :
    PositionGrid.rad g k < PositionGrid.Rab g k ∧ (k + 1 < g.length → PositionGrid.Rab g k < PositionGrid.rad g (k + 1)) :=
  ⟨PositionGrid.rad_lt_Rab (parsed_radiiOk s g h hd hne h0).2 k hk,
   fun hk1 => PositionGrid.Rab_lt_rad_succ (parsed_radiiOk s g h hd hne h0).2 k hk1⟩

/-! ### non-vacuity: concrete radial texts satisfy the hypotheses used above -/

/-- the text `linspace(5, 1, 3)` parses to `[10, 30, 50]` (C16 `f9_sorted`): distinct, non-zero, three radii — the
hypotheses of `boundaries_agree`, `parsed_radiiOk`, `getters_total_parsed`, `parsed_interleave`,
`nearest_radius_iff_shell_parsed`. -/
example : ∃ (s : List Char) (g : List Rat), Trans.parseTrans s = .ok g ∧ g.Nodup ∧ g ≠ [] ∧ (0 : Rat) ∉ g ∧ 2 ≤ g.length :=
  ⟨"linspace(5, 1, 3)".toList, [10, 30, 50], Molgri.C16.f9_sorted.1, by simp, by simp, by simp, by simp⟩

/-- … and the text `[0,1]` (C16 `zero_radius_witness`) is accepted (`parsed_accepted`) although its first radius is
zero, which `RadiiOk` / `ValidRadii` exclude. -/
example : ∃ (s : List Char) (g : List Rat), Trans.parseTrans s = .ok g ∧ g.Nodup ∧ g ≠ [] ∧ (0 : Rat) ∈ g :=
  ⟨"[0,1]".toList, [0, 10], Molgri.C16.zero_radius_witness.1, by simp, by simp, by simp⟩

end Molgri.Bridge.Radial
