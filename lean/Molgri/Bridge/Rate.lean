/-
Bridge B, part 2 — `SQRA.get_rate_matrix`: the C14 model (`Molgri.Pipeline`: `offDiag`, `rate`, `rateMat`,
`getRateMatrix`) agrees with the C01 model (`Molgri.Sqra`) of the same code, and the C01 theorems therefore hold of the
C14 pipeline matrix.

Representation differences that the statements make explicit:

* both models have their own structure `Ent` for a stored entry (`entS`, `entP`);
* C01: a sparse matrix is `Sp.coo ⟨n, entries⟩` or `Sp.csr ⟨n, indptr, indices, data⟩` and the code's `.tocoo()` is a function;
  C14: a sparse matrix *is* the list of its entries in `.tocoo()` order plus a format tag (`toCoo`, `ofCoo`, `spP`);
* C01 sums in storage order with a left fold (`condSum`), C14 with `filter` + `List.sum` — equal in a field;
* C01 returns the dense table of the result, C14 the canonical csr entry list of the result (`toArray`);
* C01 models three more exceptions of the real code (`IndexError` for a stored row/column outside `volumes`/`energies`,
  `ValueError` for a surface matrix whose shape is not `len(volumes)` or is `1 × 1`).  The C14 model has none of them: on
  such inputs the two models DISAGREE (C14 returns a matrix, C01 the exception).  `getRateMatrix_refines` is the exact
  relation for all inputs, `getRateMatrix_disagree` a concrete witness (on it the real code raises `IndexError`, as the
  C01 model says).  Inside the pipeline of C14 the guard always holds (`Chain.pipeline_sqra_ok`), so no theorem of C14 is
  affected.
-/
import Molgri.Props.C01
import Molgri.Props.C14
import Molgri.Bridge.Assembly

namespace Molgri.Bridge.Rate
open Molgri

/-! ### translation of the data types -/

/-- a C14 stored entry as a C01 stored entry -/
def entS {K : Type} (e : Pipeline.Ent K) : Sqra.Ent K := ⟨e.row, e.col, e.val⟩

/-- a C01 stored entry as a C14 stored entry -/
def entP {K : Type} (e : Sqra.Ent K) : Pipeline.Ent K := ⟨e.row, e.col, e.val⟩

/-- a C14 matrix (entries in `.tocoo()` order) as the C01 `coo_array` of shape `n × n` -/
def toCoo {K : Type} (n : Nat) (m : Pipeline.Mat K) : Sqra.Coo K := ⟨n, m.map entS⟩

/-- a C01 `coo_array` as a C14 matrix -/
def ofCoo {K : Type} (a : Sqra.Coo K) : Pipeline.Mat K := a.entries.map entP

theorem ofCoo_toCoo {K : Type} (n : Nat) (m : Pipeline.Mat K) : ofCoo (toCoo n m) = m := by
  unfold ofCoo toCoo
  rw [List.map_map]
  exact List.map_id' _

theorem toCoo_ofCoo {K : Type} (a : Sqra.Coo K) : toCoo a.n (ofCoo a) = a := by
  unfold ofCoo toCoo
  rw [List.map_map]
  cases a
  simp only [Sqra.Coo.mk.injEq, true_and]
  exact List.map_id' _

/-- **stored order**: the index sequence is the same object -/
theorem idx_toCoo {K : Type} (n : Nat) (m : Pipeline.Mat K) : (toCoo n m).idx = Pipeline.idx m := by
  unfold Sqra.Coo.idx Pipeline.idx toCoo
  rw [List.map_map]
  rfl

/-- `.data` -/
theorem data_toCoo {K : Type} (n : Nat) (m : Pipeline.Mat K) : (toCoo n m).data = Pipeline.dataOf m := by
  unfold Sqra.Coo.data Pipeline.dataOf toCoo
  rw [List.map_map]
  rfl

theorem idx_ofCoo {K : Type} (a : Sqra.Coo K) : Pipeline.idx (ofCoo a) = a.idx := by
  rw [← idx_toCoo a.n, toCoo_ofCoo]

theorem data_ofCoo {K : Type} (a : Sqra.Coo K) : Pipeline.dataOf (ofCoo a) = a.data := by
  rw [← data_toCoo a.n, toCoo_ofCoo]

theorem mem_toCoo {K : Type} {n : Nat} {m : Pipeline.Mat K} {e : Sqra.Ent K} :
    e ∈ (toCoo n m).entries ↔ entP e ∈ m := by
  unfold toCoo
  constructor
  · intro h
    obtain ⟨a, ha, rfl⟩ := List.mem_map.mp h
    exact ha
  · intro h
    exact List.mem_map.mpr ⟨entP e, h, rfl⟩

section field
variable {K : Type} [Field K]

/-! ### dense view and row sums: fold in storage order (C01) = filter and sum (C14) -/

/-- `toarray()[i, j]` -/
theorem dense_toCoo (n : Nat) (m : Pipeline.Mat K) (i j : Nat) : (toCoo n m).dense i j = Pipeline.dense m i j := by
  unfold Sqra.Coo.dense toCoo
  induction m with
  | nil => simp
  | cons e m ih =>
    rw [List.map_cons, Sqra.condSum_cons, Pipeline.dense_cons, ih]
    congr 1
    by_cases h1 : e.row = i <;> by_cases h2 : e.col = j <;> simp [entS, h1, h2]

/-- `sum(axis=1)[i]` -/
theorem rowSum_toCoo (n : Nat) (m : Pipeline.Mat K) (i : Nat) : (toCoo n m).rowSum i = Pipeline.rowSum m i := by
  unfold Sqra.Coo.rowSum toCoo
  induction m with
  | nil => simp [Pipeline.rowSum, Pipeline.rowOf]
  | cons e m ih =>
    rw [List.map_cons, Sqra.condSum_cons, Pipeline.rowSum_cons, ih]
    congr 1
    by_cases h1 : e.row = i <;> simp [entS, h1]

theorem dense_ofCoo (a : Sqra.Coo K) (i j : Nat) : Pipeline.dense (ofCoo a) i j = a.dense i j := by
  rw [← dense_toCoo a.n, toCoo_ofCoo]

section sqra
variable [LT K] [DecidableLT K]

/-! ### the off-diagonal part, line by line -/

/-- the value written at one stored position is the same expression in both models -/
theorem entryVal_eq (exp rnd : K → K) (kB NA T D : K) (V E : Nat → K) (r c : Nat) (s x : K) :
    Sqra.entryVal exp rnd kB NA T D V E r c s x = Pipeline.entryVal exp rnd kB NA T D V E r c s x := rfl

/-- the cap and the `β` of the two property files -/
theorem capf_eq (x : K) : Sqra.capf x = Pipeline.capf x := rfl

/-- **Off-diagonal part, all inputs**: scaling by `D`, the zip with the distance data, the division by the row volume
and the Boltzmann factor give the same stored entries in the same order (any `S`, any data list `hd`, also of a
different length). -/
theorem offDiag_toCoo (exp rnd : K → K) (kB NA T D : K) (n : Nat) (S : Pipeline.Mat K) (hd : List K) (V E : Nat → K) :
    Sqra.offDiag exp rnd kB NA T D (toCoo n S) hd V E = toCoo n (Pipeline.offDiag exp rnd kB NA T D S hd V E) := by
  have hn : (Sqra.offDiag exp rnd kB NA T D (toCoo n S) hd V E).n = n := rfl
  have he := Sqra.offDiag_entries exp rnd kB NA T D (toCoo n S) hd V E
  rw [Pipeline.offDiag_eq]
  cases hq : Sqra.offDiag exp rnd kB NA T D (toCoo n S) hd V E with
  | mk n' es =>
    rw [hq] at hn he
    simp only at hn he
    subst hn
    unfold toCoo
    simp only [Sqra.Coo.mk.injEq, true_and]
    rw [he]
    simp only [toCoo, List.zipWith_map_left, List.map_zipWith]
    rfl

/-- **The rate matrix read at `(i, j)`, all inputs.**  `Sqra.addDiag ∘ Sqra.offDiag` (C01) is `Pipeline.rate` (C14). -/
theorem addDiag_toCoo (exp rnd : K → K) (kB NA T D : K) (n : Nat) (S : Pipeline.Mat K) (hd : List K) (V E : Nat → K)
    (i j : Nat) :
    Sqra.addDiag (Sqra.offDiag exp rnd kB NA T D (toCoo n S) hd V E) i j
      = Pipeline.rate exp rnd kB NA T D S hd V E i j := by
  unfold Sqra.addDiag Pipeline.rate
  rw [offDiag_toCoo, dense_toCoo, rowSum_toCoo]

/-- **`rate` = `rate`**, all inputs: C01's `rate` on the C14 matrices `S`, `h` (as `coo_array`s of any shapes) is C14's
`rate` on `S` and the data of `h`. -/
theorem rate_toCoo (exp rnd : K → K) (kB NA T D : K) (n n' : Nat) (S h : Pipeline.Mat K) (V E : Nat → K) (i j : Nat) :
    Sqra.rate exp rnd kB NA T D (toCoo n S) (toCoo n' h) V E i j
      = Pipeline.rate exp rnd kB NA T D S (Pipeline.dataOf h) V E i j := by
  unfold Sqra.rate
  rw [data_toCoo, addDiag_toCoo]

/-- the same, starting from C01 inputs -/
theorem rate_ofCoo (exp rnd : K → K) (kB NA T D : K) (S h : Sqra.Coo K) (V E : Nat → K) (i j : Nat) :
    Pipeline.rate exp rnd kB NA T D (ofCoo S) (Pipeline.dataOf (ofCoo h)) V E i j
      = Sqra.rate exp rnd kB NA T D S h V E i j := by
  rw [← rate_toCoo exp rnd kB NA T D S.n h.n, toCoo_ofCoo, toCoo_ofCoo]

/-- a C14 data list as the data of some C01 `coo_array` (C01's `rate` takes the distance *matrix*, C14's the data list) -/
def cooOfData (hd : List K) : Sqra.Coo K := ⟨0, hd.map fun x => ⟨0, 0, x⟩⟩

omit [Field K] [LT K] [DecidableLT K] in
theorem data_cooOfData (hd : List K) : (cooOfData hd).data = hd := by
  unfold Sqra.Coo.data cooOfData
  rw [List.map_map]
  exact List.map_id' _

/-- `rate` = `rate` for an arbitrary data list -/
theorem rate_cooOfData (exp rnd : K → K) (kB NA T D : K) (n : Nat) (S : Pipeline.Mat K) (hd : List K) (V E : Nat → K)
    (i j : Nat) :
    Sqra.rate exp rnd kB NA T D (toCoo n S) (cooOfData hd) V E i j = Pipeline.rate exp rnd kB NA T D S hd V E i j := by
  unfold Sqra.rate
  rw [data_cooOfData, addDiag_toCoo]

/-! ### the function with its exceptions -/

section getRateMatrix
variable [DecidableEq K]

/-- a C01 sparse matrix (either storage form) as the C14 record: format tag, shape, entries in `.tocoo()` order -/
def spP (s : Sqra.Sp K) : Pipeline.Sp K :=
  ⟨match s with | .coo _ => .coo | .csr _ => .csr, s.n, ofCoo s.tocoo⟩

/-- `Q.toarray()` for a C14 result of shape `n × n`, as the list of rows C01 returns -/
def toArray (n : Nat) (m : Pipeline.Mat K) : List (List K) :=
  (List.range n).map fun i => (List.range n).map fun j => Pipeline.dense m i j

/-- the returned csr matrix read at `(i, j)` is `rate` (general-field version of `C14.rateMat_dense`) -/
theorem rateMat_dense (exp rnd : K → K) (kB NA T D : K) (n : Nat) (S : Pipeline.Mat K) (hd : List K) (V E : Nat → K)
    {i j : Nat} (hi : i < n) (hj : j < n) :
    Pipeline.dense (Pipeline.rateMat exp rnd kB NA T D n S hd V E) i j = Pipeline.rate exp rnd kB NA T D S hd V E i j := by
  unfold Pipeline.rateMat Pipeline.rate
  simp only []
  rw [Pipeline.addCsr_eq_scan, Pipeline.dense_scan, if_pos ⟨hi, hj⟩, Pipeline.dense_diagEntries]
  congr 1
  by_cases h : i = j
  · rw [if_pos ⟨h, hi⟩, if_pos h]
  · rw [if_neg (fun hh => h hh.1), if_neg h]

omit [DecidableEq K] [LT K] [DecidableLT K] in
theorem broadcastData_eq (len : Nat) (d : List K) : Sqra.broadcastData len d = Pipeline.broadcastData len d := rfl

/-- the three exceptions of the real code that only the C01 model has, as a function of the inputs -/
def guardError (E V : List K) (surf : Sqra.Sp K) : Option String :=
  if surf.tocoo.entries.any (fun e => decide (V.length ≤ e.row)) then some "IndexError"
  else if surf.tocoo.entries.any (fun e => decide (E.length ≤ e.col)) then some "IndexError"
  else if surf.n ≠ V.length ∨ surf.n = 1 then some "ValueError"
  else none

/-- **`get_rate_matrix` with its exceptions, all inputs.**  The C01 model is the C14 model followed by the three checks the
C14 model does not make: the `AssertionError` and the broadcasting `ValueError` are raised by both on the same inputs; when
the C14 model returns a csr matrix `Q`, the C01 model raises `IndexError` / `ValueError` if the guard fails and otherwise
returns exactly `Q.toarray()`. -/
theorem getRateMatrix_refines (exp rnd : K → K) (kB NA : K) (E V : List K) (dist surf : Sqra.Sp K) (D T : K) :
    Sqra.getRateMatrix exp rnd kB NA E V dist surf D T
      = (Pipeline.getRateMatrix exp rnd kB NA E V (spP dist) (spP surf) D T).bind fun Q =>
          match guardError E V surf with
          | some err => .error err
          | none => .ok (toArray Q.n Q.entries) := by
  unfold Sqra.getRateMatrix Pipeline.getRateMatrix
  by_cases hlen : E.length ≠ V.length
  · rw [if_pos hlen, if_pos hlen]; rfl
  rw [if_neg hlen, if_neg hlen]
  have hl : (surf.smul D).tocoo.entries.length = (spP surf).entries.length := by
    rw [Sqra.tocoo_smul]; simp [Sqra.Coo.smul, spP, ofCoo]
  have hdat : Pipeline.dataOf (spP dist).entries = dist.tocoo.data := data_ofCoo _
  simp only []
  rw [hl, hdat, broadcastData_eq]
  cases hb : Pipeline.broadcastData (spP surf).entries.length dist.tocoo.data with
  | none => rfl
  | some hd =>
    simp only [Except.bind]
    have hany1 : (surf.smul D).tocoo.entries.any (fun e => decide (V.length ≤ e.row))
        = surf.tocoo.entries.any (fun e => decide (V.length ≤ e.row)) := by
      rw [Sqra.tocoo_smul]; simp [Sqra.Coo.smul, List.any_map, Function.comp_def]
    have hany2 : (surf.smul D).tocoo.entries.any (fun e => decide (E.length ≤ e.col))
        = surf.tocoo.entries.any (fun e => decide (E.length ≤ e.col)) := by
      rw [Sqra.tocoo_smul]; simp [Sqra.Coo.smul, List.any_map, Function.comp_def]
    rw [hany1, hany2]
    unfold guardError
    by_cases h1 : surf.tocoo.entries.any (fun e => decide (V.length ≤ e.row)) = true
    · simp only [h1, if_true]
    simp only [h1, if_false, Bool.false_eq_true]
    by_cases h2 : surf.tocoo.entries.any (fun e => decide (E.length ≤ e.col)) = true
    · simp only [h2, if_true]
    simp only [h2, if_false, Bool.false_eq_true]
    by_cases h3 : surf.n ≠ V.length ∨ surf.n = 1
    · simp only [h3, if_true]
    simp only [h3, if_false]
    have hn : surf.n = V.length := by
      by_contra hc; exact h3 (Or.inl hc)
    congr 1
    unfold toArray
    simp only [hn]
    apply List.map_congr_left
    intro i hi
    apply List.map_congr_left
    intro j hj
    rw [List.mem_range] at hi hj
    rw [rateMat_dense _ _ _ _ _ _ _ _ _ _ _ hi hj]
    have : Sqra.offDiagFrom exp rnd kB NA T (surf.smul D).tocoo hd (fun i => V.getD i 0) (fun i => E.getD i 0)
        = Sqra.offDiag exp rnd kB NA T D surf.tocoo hd (fun i => V.getD i 0) (fun i => E.getD i 0) := by
      rw [Sqra.tocoo_smul]; rfl
    rw [this, ← toCoo_ofCoo surf.tocoo, addDiag_toCoo]
    rfl

/-- **Agreement under the guard**: whenever the C01 model returns, the C14 model returns a csr matrix of the same shape
whose `toarray()` is the C01 result. -/
theorem getRateMatrix_ok_agree (exp rnd : K → K) (kB NA : K) (E V : List K) (dist surf : Sqra.Sp K) (D T : K)
    (tbl : List (List K)) (h : Sqra.getRateMatrix exp rnd kB NA E V dist surf D T = .ok tbl) :
    ∃ Q, Pipeline.getRateMatrix exp rnd kB NA E V (spP dist) (spP surf) D T = .ok Q
      ∧ Q.fmt = .csr ∧ Q.n = surf.n ∧ tbl = toArray Q.n Q.entries := by
  rw [getRateMatrix_refines] at h
  cases hq : Pipeline.getRateMatrix exp rnd kB NA E V (spP dist) (spP surf) D T with
  | error e => rw [hq] at h; simp [Except.bind] at h
  | ok Q =>
    rw [hq] at h
    simp only [Except.bind] at h
    cases hg : guardError E V surf with
    | some err => rw [hg] at h; simp at h
    | none =>
      rw [hg] at h
      simp only [Except.ok.injEq] at h
      refine ⟨Q, rfl, ?_, ?_, h.symm⟩
      · unfold Pipeline.getRateMatrix at hq
        split at hq
        · simp at hq
        · split at hq
          · simp at hq
          · simp only [Except.ok.injEq] at hq; rw [← hq]
      · unfold Pipeline.getRateMatrix at hq
        unfold guardError at hg
        split at hq
        · simp at hq
        · split at hq
          · simp at hq
          · simp only [Except.ok.injEq] at hq
            rw [← hq]
            simp only
            split at hg
            · simp at hg
            · split at hg
              · simp at hg
              · split at hg
                · simp at hg
                · rename_i hh
                  by_contra hc
                  exact hh (Or.inl (fun e => hc e.symm))

/-- every exception of the C14 model is the exception of the C01 model -/
theorem getRateMatrix_error_agree (exp rnd : K → K) (kB NA : K) (E V : List K) (dist surf : Sqra.Sp K) (D T : K)
    (err : String) (h : Pipeline.getRateMatrix exp rnd kB NA E V (spP dist) (spP surf) D T = .error err) :
    Sqra.getRateMatrix exp rnd kB NA E V dist surf D T = .error err := by
  rw [getRateMatrix_refines, h]; rfl

/-- the C14 model reads its two sparse arguments only through their stored entries (format tag and recorded shape are not
used) -/
theorem getRateMatrix_entries_only (exp rnd : K → K) (kB NA : K) (E V : List K) (d d' b b' : Pipeline.Sp K) (D T : K)
    (hd : d.entries = d'.entries) (hb : b.entries = b'.entries) :
    Pipeline.getRateMatrix exp rnd kB NA E V d b D T = Pipeline.getRateMatrix exp rnd kB NA E V d' b' D T := by
  unfold Pipeline.getRateMatrix
  rw [hd, hb]

/-- the exact form of the gap: whenever the C14 model returns `Q`, the C01 model returns the guard's exception if there is
one, and `Q.toarray()` otherwise -/
theorem getRateMatrix_gap (exp rnd : K → K) (kB NA : K) (E V : List K) (dist surf : Sqra.Sp K) (D T : K)
    (Q : Pipeline.Sp K) (h : Pipeline.getRateMatrix exp rnd kB NA E V (spP dist) (spP surf) D T = .ok Q) :
    Sqra.getRateMatrix exp rnd kB NA E V dist surf D T
      = match guardError E V surf with
        | some err => .error err
        | none => .ok (toArray Q.n Q.entries) := by
  rw [getRateMatrix_refines, h]; rfl

end getRateMatrix

end sqra
end field

/-- **The two models disagree outside the guard** (a concrete witness, not a theorem about all inputs): two cells, a
`3 × 3` surface matrix with one stored entry in row 2.  The real code raises `IndexError` at
`self.volumes[transition_matrix.row]`; the C01 model says so; the C14 model returns a matrix. -/
theorem getRateMatrix_disagree :
    let surf : Sqra.Sp Rat := .coo ⟨3, [⟨2, 0, 1⟩]⟩
    Sqra.getRateMatrix (fun x => x) (fun x => x) 1 1 [1, 1] [1, 1] surf surf 1 1 = .error "IndexError"
    ∧ ∃ Q, Pipeline.getRateMatrix (fun x => x) (fun x => x) 1 1 [1, 1] [1, 1] (spP surf) (spP surf) 1 1 = .ok Q := by
  intro surf
  have hQ : ∃ Q, Pipeline.getRateMatrix (fun x => x) (fun x => x) (1 : Rat) 1 [1, 1] [1, 1] (spP surf) (spP surf) 1 1
      = .ok Q := ⟨_, rfl⟩
  refine ⟨?_, hQ⟩
  obtain ⟨Q, hQ⟩ := hQ
  rw [getRateMatrix_gap _ _ _ _ _ _ _ _ _ _ Q hQ]
  rfl


/-! ## C01's theorems hold of the C14 rate matrix

Every theorem of `Molgri/Props/C01.lean` about `Sqra.rate`, transported along `rate_toCoo` / `rate_cooOfData` to
`Pipeline.rate` (the matrix every C14 theorem is about).  `rate_shift`, `rate_linear_D`, `rate_add_D`, `rate_diag_nonpos`,
`rate_offdiag_pos` and the alignment-free `rate_offdiag_nonneg` are new facts about the C14 model; the entry formula, the
row sums and detailed balance re-derive `C14.rate_entry`, `C14.rate_row_sum_zero`, `C14.rate_detailed_balance` from C01. -/

section corollaries
variable {K : Type} [Field K] [LT K] [DecidableLT K]

/-- `C01.beta` and `C14.beta` are one constant -/
theorem beta_eq {F : Type} [Field F] [LinearOrder F] [IsStrictOrderedRing F] (kB NA T : F) :
    C01.beta kB NA T = C14.beta kB NA T := rfl

/-- `C01.sqra_entry` for the C14 matrix -/
theorem rate_entry (exp rnd : K → K) (kB NA T D : K) (S h : Pipeline.Mat K) (V E : Nat → K) (i j : Nat)
    (hpat : Pipeline.idx S = Pipeline.idx h) (hnd : (Pipeline.idx S).Nodup) (hij : i ≠ j) :
    Pipeline.rate exp rnd kB NA T D S (Pipeline.dataOf h) V E i j
      = if (i, j) ∈ Pipeline.idx S then
          D * Pipeline.dense S i j / (Pipeline.dense h i j * V i)
            * exp (C01.beta kB NA T * rnd (Pipeline.capf (E i - E j)))
        else 0 := by
  rw [← rate_toCoo exp rnd kB NA T D 0 0,
    C01.sqra_entry exp rnd kB NA T D _ _ V E i j (by rw [idx_toCoo, idx_toCoo]; exact hpat)
      (by rw [idx_toCoo]; exact hnd) hij]
  simp only [idx_toCoo, dense_toCoo]
  rfl

/-- `C01.sqra_entry_capped` for the C14 matrix -/
theorem rate_entry_capped (exp rnd : K → K) (kB NA T D : K) (S h : Pipeline.Mat K) (V E : Nat → K) (i j : Nat)
    (hpat : Pipeline.idx S = Pipeline.idx h) (hnd : (Pipeline.idx S).Nodup) (hij : i ≠ j)
    (hmem : (i, j) ∈ Pipeline.idx S) (hcap : ¬ E i - E j < 500) :
    Pipeline.rate exp rnd kB NA T D S (Pipeline.dataOf h) V E i j
      = D * Pipeline.dense S i j / (Pipeline.dense h i j * V i) * exp (C01.beta kB NA T * rnd 500) := by
  rw [← rate_toCoo exp rnd kB NA T D 0 0,
    C01.sqra_entry_capped exp rnd kB NA T D _ _ V E i j (by rw [idx_toCoo, idx_toCoo]; exact hpat)
      (by rw [idx_toCoo]; exact hnd) hij (by rw [idx_toCoo]; exact hmem) hcap]
  simp only [dense_toCoo]

/-- `C01.sqra_row_sum_zero` for the C14 matrix (any data list) -/
theorem rate_row_sum_zero (exp rnd : K → K) (kB NA T D : K) (S : Pipeline.Mat K) (hd : List K) (V E : Nat → K) (n i : Nat)
    (hc : ∀ e ∈ S, e.col < n) (hi : i < n) :
    ∑ j ∈ Finset.range n, Pipeline.rate exp rnd kB NA T D S hd V E i j = 0 := by
  simp only [← rate_cooOfData exp rnd kB NA T D 0]
  apply C01.sqra_row_sum_zero exp rnd kB NA T D _ _ V E n i _ hi
  intro p hp
  rw [idx_toCoo] at hp
  obtain ⟨e, he, rfl⟩ := List.mem_map.mp hp
  exact hc e he

/-- `C01.sqra_detailed_balance_rnd` for the C14 matrix -/
theorem rate_detailed_balance_rnd (exp rnd : K → K) (kB NA T D : K) (S h : Pipeline.Mat K) (V E : Nat → K) (i j : Nat)
    (hexp : ∀ a b, exp (a + b) = exp a * exp b)
    (hpat : Pipeline.idx S = Pipeline.idx h) (hnd : (Pipeline.idx S).Nodup) (hij : i ≠ j)
    (hS : Pipeline.dense S i j = Pipeline.dense S j i) (hh : Pipeline.dense h i j = Pipeline.dense h j i)
    (hVi : V i ≠ 0) (hVj : V j ≠ 0) (hcap1 : E i - E j < 500) (hcap2 : E j - E i < 500) :
    V i * exp (-(2 * C01.beta kB NA T) * E i) * Pipeline.rate exp rnd kB NA T D S (Pipeline.dataOf h) V E i j
        * exp (C01.beta kB NA T * ((E i - E j) - rnd (E i - E j)))
      = V j * exp (-(2 * C01.beta kB NA T) * E j) * Pipeline.rate exp rnd kB NA T D S (Pipeline.dataOf h) V E j i
        * exp (C01.beta kB NA T * ((E j - E i) - rnd (E j - E i))) := by
  simp only [← rate_toCoo exp rnd kB NA T D 0 0]
  exact C01.sqra_detailed_balance_rnd exp rnd kB NA T D _ _ V E i j hexp (by rw [idx_toCoo, idx_toCoo]; exact hpat)
    (by rw [idx_toCoo]; exact hnd) hij (by rw [dense_toCoo, dense_toCoo]; exact hS)
    (by rw [dense_toCoo, dense_toCoo]; exact hh) hVi hVj hcap1 hcap2

/-- `C01.sqra_detailed_balance` for the C14 matrix -/
theorem rate_detailed_balance (exp rnd : K → K) (kB NA T D : K) (S h : Pipeline.Mat K) (V E : Nat → K) (i j : Nat)
    (hexp : ∀ a b, exp (a + b) = exp a * exp b) (hexp0 : exp 0 = 1)
    (hpat : Pipeline.idx S = Pipeline.idx h) (hnd : (Pipeline.idx S).Nodup) (hij : i ≠ j)
    (hS : Pipeline.dense S i j = Pipeline.dense S j i) (hh : Pipeline.dense h i j = Pipeline.dense h j i)
    (hVi : V i ≠ 0) (hVj : V j ≠ 0) (hcap1 : E i - E j < 500) (hcap2 : E j - E i < 500)
    (hr1 : rnd (E i - E j) = E i - E j) (hr2 : rnd (E j - E i) = E j - E i) :
    V i * exp (-(2 * C01.beta kB NA T) * E i) * Pipeline.rate exp rnd kB NA T D S (Pipeline.dataOf h) V E i j
      = V j * exp (-(2 * C01.beta kB NA T) * E j) * Pipeline.rate exp rnd kB NA T D S (Pipeline.dataOf h) V E j i := by
  simp only [← rate_toCoo exp rnd kB NA T D 0 0]
  exact C01.sqra_detailed_balance exp rnd kB NA T D _ _ V E i j hexp hexp0 (by rw [idx_toCoo, idx_toCoo]; exact hpat)
    (by rw [idx_toCoo]; exact hnd) hij (by rw [dense_toCoo, dense_toCoo]; exact hS)
    (by rw [dense_toCoo, dense_toCoo]; exact hh) hVi hVj hcap1 hcap2 hr1 hr2

/-- **Shift invariance of the C14 matrix** (`C01.sqra_shift`), all inputs -/
theorem rate_shift (exp rnd : K → K) (kB NA T D : K) (S : Pipeline.Mat K) (hd : List K) (V E : Nat → K) (c : K)
    (i j : Nat) :
    Pipeline.rate exp rnd kB NA T D S hd V (fun k => E k + c) i j = Pipeline.rate exp rnd kB NA T D S hd V E i j := by
  rw [← rate_cooOfData exp rnd kB NA T D 0, ← rate_cooOfData exp rnd kB NA T D 0]
  exact C01.sqra_shift exp rnd kB NA T D _ _ V E c i j

/-- **Linearity in `D` of the C14 matrix** (`C01.sqra_linear_D`), all inputs, diagonal included -/
theorem rate_linear_D (exp rnd : K → K) (kB NA T D : K) (S : Pipeline.Mat K) (hd : List K) (V E : Nat → K) (i j : Nat) :
    Pipeline.rate exp rnd kB NA T D S hd V E i j = D * Pipeline.rate exp rnd kB NA T 1 S hd V E i j := by
  rw [← rate_cooOfData exp rnd kB NA T D 0, ← rate_cooOfData exp rnd kB NA T 1 0]
  exact C01.sqra_linear_D exp rnd kB NA T D _ _ V E i j

/-- additive form (`C01.sqra_add_D`) -/
theorem rate_add_D (exp rnd : K → K) (kB NA T D₁ D₂ : K) (S : Pipeline.Mat K) (hd : List K) (V E : Nat → K) (i j : Nat) :
    Pipeline.rate exp rnd kB NA T (D₁ + D₂) S hd V E i j
      = Pipeline.rate exp rnd kB NA T D₁ S hd V E i j + Pipeline.rate exp rnd kB NA T D₂ S hd V E i j := by
  simp only [← rate_cooOfData exp rnd kB NA T _ 0]
  exact C01.sqra_add_D exp rnd kB NA T D₁ D₂ _ _ V E i j

/-- the rate matrix reads the energies only at the stored rows and columns -/
theorem offDiag_congr_E (exp rnd : K → K) (kB NA T D : K) (S : Pipeline.Mat K) (hd : List K) (V E E' : Nat → K)
    (h : ∀ e ∈ S, E e.row = E' e.row ∧ E e.col = E' e.col) :
    Pipeline.offDiag exp rnd kB NA T D S hd V E = Pipeline.offDiag exp rnd kB NA T D S hd V E' := by
  rw [Pipeline.offDiag_eq, Pipeline.offDiag_eq]
  induction S generalizing hd with
  | nil => rfl
  | cons a S ih =>
    cases hd with
    | nil => rfl
    | cons x hd =>
      simp only [List.zipWith_cons_cons]
      rw [ih hd (fun e he => h e (List.mem_cons_of_mem _ he))]
      obtain ⟨h1, h2⟩ := h a List.mem_cons_self
      unfold Pipeline.entryVal
      rw [h1, h2]

theorem rate_congr_E (exp rnd : K → K) (kB NA T D : K) (S : Pipeline.Mat K) (hd : List K) (V E E' : Nat → K)
    (h : ∀ e ∈ S, E e.row = E' e.row ∧ E e.col = E' e.col) (i j : Nat) :
    Pipeline.rate exp rnd kB NA T D S hd V E i j = Pipeline.rate exp rnd kB NA T D S hd V E' i j := by
  unfold Pipeline.rate
  rw [offDiag_congr_E exp rnd kB NA T D S hd V E E' h]

/-- **Shift invariance for a list of energies**: adding `c` to every energy of the list leaves the matrix unchanged, as
long as every stored index has an energy -/
theorem rate_shift_list (exp rnd : K → K) (kB NA T D : K) (S : Pipeline.Mat K) (hd : List K) (V : Nat → K) (E : List K)
    (c : K) (hS : ∀ e ∈ S, e.row < E.length ∧ e.col < E.length) (i j : Nat) :
    Pipeline.rate exp rnd kB NA T D S hd V (fun k => (E.map (· + c)).getD k 0) i j
      = Pipeline.rate exp rnd kB NA T D S hd V (fun k => E.getD k 0) i j := by
  rw [← rate_shift exp rnd kB NA T D S hd V (fun k => E.getD k 0) c]
  apply rate_congr_E
  intro e he
  obtain ⟨h1, h2⟩ := hS e he
  simp [List.getD_eq_getElem?_getD, h1, h2]

end corollaries

section returned
variable {K : Type} [Field K] [LT K] [DecidableLT K] [DecidableEq K]

/-- the returned csr matrix is the canonical scan of `rate` -/
theorem rateMat_eq_scan (exp rnd : K → K) (kB NA T D : K) (n : Nat) (S : Pipeline.Mat K) (hd : List K) (V E : Nat → K) :
    Pipeline.rateMat exp rnd kB NA T D n S hd V E = Pipeline.scan n (Pipeline.rate exp rnd kB NA T D S hd V E) := by
  unfold Pipeline.rateMat
  simp only []
  rw [Pipeline.addCsr_eq_scan]
  apply Assembly.scan_congr
  intro i hi j _
  unfold Pipeline.rate
  simp only []
  rw [Pipeline.dense_diagEntries]
  congr 1
  by_cases h : i = j
  · rw [if_pos ⟨h, hi⟩, if_pos h]
  · rw [if_neg (fun hh => h hh.1), if_neg h]

/-- **Shift invariance of the returned csr matrix**: the same stored entries in the same order -/
theorem rateMat_shift (exp rnd : K → K) (kB NA T D : K) (n : Nat) (S : Pipeline.Mat K) (hd : List K) (V E : Nat → K)
    (c : K) :
    Pipeline.rateMat exp rnd kB NA T D n S hd V (fun k => E k + c) = Pipeline.rateMat exp rnd kB NA T D n S hd V E := by
  rw [rateMat_eq_scan, rateMat_eq_scan]
  apply Assembly.scan_congr
  intro i _ j _
  exact rate_shift exp rnd kB NA T D S hd V E c i j

/-- **Linearity in `D` of the returned csr matrix** (dense view) -/
theorem rateMat_linear_D (exp rnd : K → K) (kB NA T D : K) (n : Nat) (S : Pipeline.Mat K) (hd : List K) (V E : Nat → K)
    (i j : Nat) :
    Pipeline.dense (Pipeline.rateMat exp rnd kB NA T D n S hd V E) i j
      = D * Pipeline.dense (Pipeline.rateMat exp rnd kB NA T 1 n S hd V E) i j := by
  rw [rateMat_eq_scan, rateMat_eq_scan, Pipeline.dense_scan, Pipeline.dense_scan]
  split
  · exact rate_linear_D exp rnd kB NA T D S hd V E i j
  · rw [mul_zero]

end returned

section signs
variable {F : Type} [Field F] [LinearOrder F] [IsStrictOrderedRing F]

/-- `C01.sqra_offdiag_nonneg` for the C14 matrix: no alignment of `S` and the data needed -/
theorem rate_offdiag_nonneg (exp rnd : F → F) (kB NA T D : F) (S : Pipeline.Mat F) (hd : List F) (V E : Nat → F) (i j : Nat)
    (hexp : ∀ x, 0 < exp x) (hD : 0 ≤ D) (hS : ∀ e ∈ S, 0 ≤ e.val) (hh : ∀ x ∈ hd, 0 ≤ x) (hV : ∀ k, 0 ≤ V k)
    (hij : i ≠ j) : 0 ≤ Pipeline.rate exp rnd kB NA T D S hd V E i j := by
  rw [← rate_cooOfData exp rnd kB NA T D 0]
  apply C01.sqra_offdiag_nonneg exp rnd kB NA T D _ _ V E i j hexp hD _ _ hV hij
  · intro e he
    exact hS _ (mem_toCoo.mp he)
  · rw [data_cooOfData]; exact hh

/-- `C01.sqra_offdiag_pos` for the C14 matrix -/
theorem rate_offdiag_pos (exp rnd : F → F) (kB NA T D : F) (S h : Pipeline.Mat F) (V E : Nat → F) (i j : Nat)
    (hexp : ∀ x, 0 < exp x) (hD : 0 < D) (hS : ∀ e ∈ S, 0 < e.val) (hh : ∀ e ∈ h, 0 < e.val) (hV : ∀ k, 0 < V k)
    (hpat : Pipeline.idx S = Pipeline.idx h) (hnd : (Pipeline.idx S).Nodup) (hij : i ≠ j)
    (hmem : (i, j) ∈ Pipeline.idx S) : 0 < Pipeline.rate exp rnd kB NA T D S (Pipeline.dataOf h) V E i j := by
  rw [← rate_toCoo exp rnd kB NA T D 0 0]
  exact C01.sqra_offdiag_pos exp rnd kB NA T D _ _ V E i j hexp hD (fun e he => hS _ (mem_toCoo.mp he))
    (fun e he => hh _ (mem_toCoo.mp he)) hV (by rw [idx_toCoo, idx_toCoo]; exact hpat) (by rw [idx_toCoo]; exact hnd) hij
    (by rw [idx_toCoo]; exact hmem)

/-- `C01.sqra_diag_nonpos` for the C14 matrix -/
theorem rate_diag_nonpos (exp rnd : F → F) (kB NA T D : F) (S : Pipeline.Mat F) (hd : List F) (V E : Nat → F) (i : Nat)
    (hexp : ∀ x, 0 < exp x) (hD : 0 ≤ D) (hS : ∀ e ∈ S, 0 ≤ e.val) (hh : ∀ x ∈ hd, 0 ≤ x) (hV : ∀ k, 0 ≤ V k)
    (hoff : ∀ p ∈ Pipeline.idx S, p.1 ≠ p.2) : Pipeline.rate exp rnd kB NA T D S hd V E i i ≤ 0 := by
  rw [← rate_cooOfData exp rnd kB NA T D 0]
  apply C01.sqra_diag_nonpos exp rnd kB NA T D _ _ V E i hexp hD _ _ hV
  · rw [idx_toCoo]; exact hoff
  · intro e he
    exact hS _ (mem_toCoo.mp he)
  · rw [data_cooOfData]; exact hh

end signs

end Molgri.Bridge.Rate
