/-
Bridge C (4) — `np.isclose`, `which_row_is_k` and the vertex reduction `get_reduced_vertices_regions` are ONE
semantics in C03, C15, C04 (and C07).

* C03  `Molgri.Voronoi`   `isclose`, `closeRow` (3 coordinates), `dedupFirst`, `firstClose`, `old2new`, `reduce`
                          (generic in the vertex type and the closeness test, own `mapE`)
* C15  `Molgri.CellVol`   `isclose atol rtol`, `rowClose`, `reducedVertices` (`zipIdx`/`contains` form), `firstClose`,
                          `old2new`, `reducedRegions` (`mapM`)
* C04  `Molgri.HalfFold`  `isclose`, `rowClose` (`zipWith … all`), `whichRowIsK`, guard `[0]`
* C07  `Molgri.Hemi`      `isclose atol rtol`, `rowClose`, `whichRowIsK`, `firstRowIsK`

Equalities hold on all inputs except where said: C04's `rowClose` truncates to the shorter row while C07's / C15's
return `False` on rows of different length (`rowClose_halffold`, witness `rowClose_length_witness`); numpy would
raise a broadcasting `ValueError` there, and the code never compares rows of different arrays, so the equality is
stated under the guard `k.length = row.length`.
-/
import Molgri.Props.C03
import Molgri.Props.C04
import Molgri.Props.C07
import Molgri.Props.C15

set_option linter.unusedSectionVars false

namespace Molgri.Bridge.Reduce

/-! ### `np.isclose` -/

/-- **C03 = C04**: the two `ℚ` models of `np.isclose` with numpy's defaults. -/
theorem isclose_voronoi_eq_halffold (a b : Rat) : Voronoi.isclose a b = HalfFold.isclose a b := rfl

/-- **C15 = C04** at numpy's defaults. -/
theorem isclose_cellvol_eq_halffold (a b : Rat) :
    CellVol.isclose HalfFold.atol HalfFold.rtol a b = HalfFold.isclose a b := rfl

/-- **C07 = C15** for every scalar type and every pair of tolerances. -/
theorem isclose_hemi_eq_cellvol {K : Type} [Zero K] [One K] [Add K] [Sub K] [Mul K] [Neg K] [LT K] [LE K]
    [DecidableLT K] [DecidableLE K] (atol rtol a b : K) :
    Hemi.isclose atol rtol a b = CellVol.isclose atol rtol a b := rfl

/-! ### `np.all(np.isclose(k, row))` -/

/-- **C07 = C15**: `rowClose`, every scalar type. -/
theorem rowClose_hemi_eq_cellvol {K : Type} [Zero K] [One K] [Add K] [Sub K] [Mul K] [Neg K] [LT K] [LE K]
    [DecidableLT K] [DecidableLE K] (atol rtol : K) :
    ∀ (k row : List K), Hemi.rowClose atol rtol k row = CellVol.rowClose atol rtol k row
  | [], [] => rfl
  | [], _ :: _ => rfl
  | _ :: _, [] => rfl
  | a :: as, b :: bs => by
    unfold Hemi.rowClose CellVol.rowClose
    rw [rowClose_hemi_eq_cellvol atol rtol as bs]
    rfl

/-- **C04 = C15 under the guard "same row length"** (the only way the code calls `which_row_is_k`). -/
theorem rowClose_halffold : ∀ (k row : List Rat), k.length = row.length →
    HalfFold.rowClose k row = CellVol.rowClose HalfFold.atol HalfFold.rtol k row
  | [], [], _ => rfl
  | [], _ :: _, h => by simp at h
  | _ :: _, [], h => by simp at h
  | a :: as, b :: bs, h => by
    have ih := rowClose_halffold as bs (by simpa using h)
    unfold HalfFold.rowClose at ih ⊢
    unfold CellVol.rowClose
    rw [← ih]
    simp only [List.zipWith_cons_cons, List.all_cons, id]
    rfl

/-- Outside the guard the two models differ: C04's truncates (`zip`), C15's / C07's says `False`.  (Neither is
numpy's behaviour for rows of different length, a broadcasting `ValueError`; the code never gets there.) -/
theorem rowClose_length_witness :
    HalfFold.rowClose [] [1] = true ∧ CellVol.rowClose HalfFold.atol HalfFold.rtol ([] : List Rat) [1] = false := by
  decide +kernel

/-- the three coordinates of a C03 vertex as the row C15 / C04 see -/
def toL (v : Voronoi.V3 Rat) : List Rat := [v.x, v.y, v.z]

theorem toL_injective : Function.Injective toL := by
  intro a b h
  cases a; cases b
  simp only [toL, List.cons.injEq, and_true] at h
  obtain ⟨h1, h2, h3⟩ := h
  subst h1; subst h2; subst h3; rfl

/-- **C03 = C15 = C04**: `closeRow` on 3-vectors is `rowClose` on their coordinate rows. -/
theorem closeRow_eq (k row : Voronoi.V3 Rat) :
    Voronoi.closeRow k row = CellVol.rowClose HalfFold.atol HalfFold.rtol (toL k) (toL row) ∧
    Voronoi.closeRow k row = HalfFold.rowClose (toL k) (toL row) := by
  have h1 : Voronoi.closeRow k row = CellVol.rowClose HalfFold.atol HalfFold.rtol (toL k) (toL row) := by
    unfold Voronoi.closeRow toL CellVol.rowClose CellVol.rowClose CellVol.rowClose CellVol.rowClose
    simp only [Bool.and_true, Bool.and_assoc]
    rfl
  exact ⟨h1, by rw [h1, rowClose_halffold (toL k) (toL row) rfl]⟩

/-! ### `which_row_is_k(…)[0]` -/

/-- "first index whose row passes `p`" through `findIdx?` (C03, C15) and through "filter the index range, take the
head" (C04, C07) is the same thing. -/
theorem findIdx?_eq_head_filter {α : Type} (p : α → Bool) (d : α) (l : List α) :
    l.findIdx? p = ((List.range l.length).filter fun i => p (l.getD i d)).head? := by
  induction l with
  | nil => rfl
  | cons a t ih =>
    rw [List.findIdx?_cons, List.length_cons, List.range_succ_eq_map, List.filter_cons]
    simp only [List.getD_cons_zero]
    by_cases h : p a = true
    · simp [h]
    · simp only [h, Bool.false_eq_true, if_false]
      rw [List.filter_map, List.head?_map, ih]
      simp only [Function.comp_def, List.getD_cons_succ]

/-- **C04 = C03/C15**: the guarded `opp_ind[0]` of C04 (`guardOpp .len (whichRowIsK grid k)`) is C03's `firstClose`
with C04's row test. -/
theorem guardOpp_whichRowIsK (grid : List (List Rat)) (k : List Rat) :
    HalfFold.guardOpp .len (HalfFold.whichRowIsK grid k) = .ok (Voronoi.firstClose HalfFold.rowClose grid k) := by
  unfold HalfFold.guardOpp HalfFold.whichRowIsK Voronoi.firstClose
  rw [findIdx?_eq_head_filter (HalfFold.rowClose k) [] grid]
  rfl

/-- **C07 = C03/C15**: `which_row_is_k(projected_points, upp)[0]`. -/
theorem firstRowIsK_eq {K : Type} [Zero K] [One K] [Add K] [Sub K] [Mul K] [Neg K] [LT K] [LE K]
    [DecidableLT K] [DecidableLE K] [DecidableEq K] (atol rtol : K) (A : List (List K)) (k : List K) :
    Hemi.firstRowIsK atol rtol A k = CellVol.firstClose atol rtol A k := by
  unfold Hemi.firstRowIsK Hemi.whichRowIsK CellVol.firstClose
  rw [findIdx?_eq_head_filter (fun r => CellVol.rowClose atol rtol k r) [] A]
  have : (fun i => Hemi.rowClose atol rtol k (A.getD i [])) = fun i => CellVol.rowClose atol rtol k (A.getD i []) := by
    funext i; exact rowClose_hemi_eq_cellvol atol rtol k _
  rw [this]
  cases h : ((List.range A.length).filter fun i => CellVol.rowClose atol rtol k (A.getD i [])) with
  | nil => rfl
  | cons i t => rfl

/-- C04's and C07's `which_row_is_k` agree on arrays whose rows have the length of `k`. -/
theorem whichRowIsK_halffold_eq_hemi (grid : List (List Rat)) (k : List Rat) (h : ∀ r ∈ grid, r.length = k.length) :
    HalfFold.whichRowIsK grid k = Hemi.whichRowIsK HalfFold.atol HalfFold.rtol grid k := by
  unfold HalfFold.whichRowIsK Hemi.whichRowIsK
  apply List.filter_congr
  intro i hi
  have hi' := List.mem_range.mp hi
  have hmem : grid.getD i [] ∈ grid := by
    rw [List.getD_eq_getElem (hn := hi')]; exact List.getElem_mem hi'
  rw [rowClose_halffold k _ (h _ hmem).symm, rowClose_hemi_eq_cellvol]

/-! ### `np.unique(axis=0, return_index=True)` + `sorted`: first occurrences in the original order -/

section dedup
variable {K : Type} [DecidableEq K]

theorem reduced_aux (all : List (List K)) : ∀ (vs pre : List (List K)), all = pre ++ vs →
    (vs.zipIdx pre.length).filterMap
        (fun (p : List K × Nat) => if (all.take p.2).contains p.1 then none else some p.1) =
      (Voronoi.dedupFirst vs).filter (fun v => decide (v ∉ pre))
  | [], pre, _ => by simp [Voronoi.dedupFirst]
  | x :: xs, pre, hall => by
    have hall' : all = (pre ++ [x]) ++ xs := by rw [hall]; simp
    have ih := reduced_aux all xs (pre ++ [x]) hall'
    have hlen : (pre ++ [x]).length = pre.length + 1 := by simp
    rw [hlen] at ih
    have htake : all.take pre.length = pre := by rw [hall]; simp
    rw [List.zipIdx_cons, List.filterMap_cons]
    simp only [htake, ih, Voronoi.dedupFirst, List.filter_cons, List.filter_filter]
    have hf : (Voronoi.dedupFirst xs).filter (fun v => decide (v ∉ pre ++ [x])) =
        (Voronoi.dedupFirst xs).filter (fun a => decide (a ∉ pre) && decide (a ≠ x)) := by
      apply List.filter_congr
      intro a _
      simp only [List.mem_append, List.mem_singleton, not_or, Bool.decide_and]
    rw [hf]
    by_cases hx : x ∈ pre
    · simp [hx]
    · simp [hx]

/-- **C03 = C15**: `dedupFirst` is `reducedVertices` (same rows, same order), for rows over any scalar type. -/
theorem dedupFirst_eq_reducedVertices (vs : List (List K)) : Voronoi.dedupFirst vs = CellVol.reducedVertices vs := by
  have := reduced_aux vs vs [] (by simp)
  unfold CellVol.reducedVertices
  simp only [List.length_nil, List.not_mem_nil, not_false_eq_true, decide_true, List.filter_true] at this
  exact this.symm

end dedup

/-! ### `Except`-valued comprehensions -/

/-- C03's own `mapE` is `List.mapM` in the `Except` monad (what C15 uses). -/
theorem mapE_eq_mapM {ε α β : Type} (f : α → Except ε β) (l : List α) : Voronoi.mapE f l = l.mapM f := by
  induction l with
  | nil => rfl
  | cons a t ih =>
    rw [List.mapM_cons]
    unfold Voronoi.mapE
    rw [ih]
    cases f a with
    | error e => rfl
    | ok b =>
      cases List.mapM f t with
      | error e => rfl
      | ok bs => rfl

/-! ### `get_reduced_vertices_regions` -/

section reduce
variable {K : Type} [Zero K] [Add K] [Sub K] [Mul K] [Neg K] [LT K] [LE K] [DecidableLT K] [DecidableLE K]
  [DecidableEq K]

/-- **C03 = C15**: `which_row_is_k(new_vertices, old)[0]`. -/
theorem lookupNew_eq_firstClose (atol rtol : K) (nv : List (List K)) (old : List K) :
    Voronoi.lookupNew (CellVol.rowClose atol rtol) nv old = CellVol.firstClose atol rtol nv old := by
  unfold Voronoi.lookupNew Voronoi.firstClose CellVol.firstClose
  cases nv.findIdx? (CellVol.rowClose atol rtol old) <;> rfl

/-- **C03 = C15**: the dictionary `old2new`. -/
theorem old2new_eq (atol rtol : K) (vs : List (List K)) :
    Voronoi.old2new (CellVol.rowClose atol rtol) vs = CellVol.old2new atol rtol vs := by
  unfold Voronoi.old2new CellVol.old2new
  rw [mapE_eq_mapM, dedupFirst_eq_reducedVertices]
  congr 1

theorem reindex_eq (o2n : List Nat) (region : List Nat) :
    Voronoi.reindexRegion o2n region =
      region.mapM fun el => match o2n[el]? with
        | some k => (pure k : Except String Nat)
        | none => throw "KeyError" := by
  unfold Voronoi.reindexRegion
  rw [mapE_eq_mapM]
  congr 1

/-- **C03 = C15**: the whole reduction.  C03's generic `reduce`, instantiated with C15's row test, returns C15's
`reducedVertices` together with C15's `reducedRegions`, and fails with the same exception exactly when C15's does —
for every vertex array, every list of regions, every scalar type and tolerances. -/
theorem reduce_eq (atol rtol : K) (vs : List (List K)) (regions : List (List Nat)) :
    Voronoi.reduce (CellVol.rowClose atol rtol) vs regions =
      (CellVol.reducedRegions atol rtol vs regions).map fun nr => (CellVol.reducedVertices vs, nr) := by
  unfold Voronoi.reduce CellVol.reducedRegions
  rw [old2new_eq]
  cases CellVol.old2new atol rtol vs with
  | error e => rfl
  | ok o2n =>
    have e : Voronoi.mapE (Voronoi.reindexRegion o2n) regions =
        regions.mapM (fun region => region.mapM fun el => match o2n[el]? with
          | some k => (pure k : Except String Nat)
          | none => throw "KeyError") := by
      rw [mapE_eq_mapM]
      congr 1
      funext region
      exact reindex_eq o2n region
    simp only [e, dedupFirst_eq_reducedVertices, bind, Except.bind]
    cases (List.mapM (m := Except String) (fun region => region.mapM fun el => match o2n[el]? with
          | some k => (pure k : Except String Nat)
          | none => throw "KeyError") regions) <;> rfl

end reduce

/-! ### the reduction commutes with a change of vertex representation (C03's 3-vectors ↔ coordinate rows) -/

section transport
variable {α β : Type} [DecidableEq α] [DecidableEq β]

theorem dedupFirst_map (g : α → β) (hg : Function.Injective g) (l : List α) :
    Voronoi.dedupFirst (l.map g) = (Voronoi.dedupFirst l).map g := by
  induction l with
  | nil => rfl
  | cons a t ih =>
    simp only [List.map_cons, Voronoi.dedupFirst, ih, List.filter_map]
    congr 2
    apply List.filter_congr
    intro b _
    simp only [Function.comp, ne_eq, hg.eq_iff]

theorem findIdx?_map (g : α → β) (p : β → Bool) (l : List α) : (l.map g).findIdx? p = l.findIdx? (p ∘ g) := by
  induction l with
  | nil => rfl
  | cons a t ih => simp only [List.map_cons, List.findIdx?_cons, ih, Function.comp]

/-- `reduce` transported along an injective re-coding `g` of the vertices that respects the closeness test. -/
theorem reduce_map (g : α → β) (hg : Function.Injective g) (close : α → α → Bool) (close' : β → β → Bool)
    (hc : ∀ a b, close' (g a) (g b) = close a b) (verts : List α) (regions : List (List Nat)) :
    Voronoi.reduce close' (verts.map g) regions =
      (Voronoi.reduce close verts regions).map fun r => (r.1.map g, r.2) := by
  have ho : Voronoi.old2new close' (verts.map g) = Voronoi.old2new close verts := by
    unfold Voronoi.old2new
    rw [mapE_eq_mapM, mapE_eq_mapM, List.mapM_map, dedupFirst_map g hg]
    congr 1
    funext old
    unfold Voronoi.lookupNew Voronoi.firstClose
    simp only [Function.comp]
    rw [findIdx?_map]
    have : (close' (g old) ∘ g) = close old := by funext b; exact hc old b
    rw [this]
  unfold Voronoi.reduce
  rw [ho, dedupFirst_map g hg]
  cases Voronoi.old2new close verts with
  | error e => rfl
  | ok o2n =>
    simp only []
    cases Voronoi.mapE (Voronoi.reindexRegion o2n) regions <;> rfl

end transport

/-- **C03's reduction of the 3-D Voronoi vertices is C15's reduction of their coordinate rows**: same reduced
vertices (as rows), same re-indexed regions, same exception. -/
theorem reduce_closeRow_eq_cellvol (verts : List (Voronoi.V3 Rat)) (regions : List (List Nat)) :
    (Voronoi.reduce Voronoi.closeRow verts regions).map (fun r => (r.1.map toL, r.2)) =
      (CellVol.reducedRegions HalfFold.atol HalfFold.rtol (verts.map toL) regions).map
        fun nr => (CellVol.reducedVertices (verts.map toL), nr) := by
  rw [← reduce_eq, reduce_map toL toL_injective Voronoi.closeRow
    (CellVol.rowClose HalfFold.atol HalfFold.rtol) (fun a b => ((closeRow_eq a b).1).symm)]

/-! ### C03's theorems about the reduction, read on C15's model -/

section transfer
variable {K : Type} [Field K] [LinearOrder K] [IsStrictOrderedRing K]

/-- C03 `reduce_total` for C15's `reducedRegions`: with non-negative tolerances and region entries that are vertex
numbers the re-indexing never raises (no `IndexError` from `which_row_is_k(…)[0]`, no `KeyError`). -/
theorem reducedRegions_total (atol rtol : K) (h0 : 0 ≤ atol) (h1 : 0 ≤ rtol) (vs : List (List K))
    (regions : List (List Nat)) (hreg : ∀ r ∈ regions, ∀ el ∈ r, el < vs.length) :
    ∃ nr, CellVol.reducedRegions atol rtol vs regions = .ok nr := by
  obtain ⟨nr, h⟩ := Molgri.C03.reduce_total (CellVol.rowClose atol rtol) (CellVol.rowClose_self h0 h1) vs regions hreg
  rw [reduce_eq] at h
  cases hh : CellVol.reducedRegions atol rtol vs regions with
  | ok r => exact ⟨r, rfl⟩
  | error e => rw [hh] at h; cases h

/-- C03 `reduced_membership` ("no de-duplication slip") for C15's model: when no two different vertices are within the
tolerance, a reduced region of C15 lists exactly the reduced vertices its scipy region lists. -/
theorem reducedRegions_membership (atol rtol : K) (vs : List (List K)) (regions nr : List (List Nat))
    (hsep : ∀ a ∈ vs, ∀ b ∈ vs, CellVol.rowClose atol rtol a b = true → a = b)
    (h : CellVol.reducedRegions atol rtol vs regions = .ok nr) :
    List.Forall₂ (fun r r' => ∀ k, k ∈ r' ↔ ∃ el ∈ r, ∃ o, vs[el]? = some o ∧ (CellVol.reducedVertices vs)[k]? = some o)
      regions nr := by
  apply Molgri.C03.reduced_membership (CellVol.rowClose atol rtol) vs (CellVol.reducedVertices vs) regions nr hsep
  rw [reduce_eq, h]
  rfl

end transfer

end Molgri.Bridge.Reduce
