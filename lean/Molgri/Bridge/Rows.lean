/-
Bridge C (5) — the cell / row enumeration "position-major, rotation-minor; positions shell-major" is ONE numbering in
C09 (rows of the grid array, index helpers), C02 (matrix rows `n_b*i+k`, volumes), C05 (position cells `k*n_o+o`) and
C11 (the assigned index `(t*n_o+o)*n_b+b`).

* C09  `Molgri.Order.fullArray`, `positions`, `positionsScalar`, `quaternionIndex`, `positionIndex`
* C02  `Molgri.FullGrid.fullArray`, `totalVolumes`, the stride `nB * i + k` of `posEntries` / `rotEntries`
* C05  `Molgri.PositionGrid.tAndO` (cell `k * n_o + o`)
* C11  `Molgri.Assign.compose`
-/
import Molgri.Props.C02
import Molgri.Props.C05
import Molgri.Props.C09
import Molgri.Props.C11

set_option linter.unusedSectionVars false

namespace Molgri.Bridge.Rows

/-- **C09 = C02**: the two models of the nested loops of `get_full_grid_as_array` enumerate the same rows in the same
order (C02 keeps the pair, C09 concatenates it into the 7 numbers of the row). -/
theorem fullArray_eq {K : Type} (pos quats : List (List K)) :
    Order.fullArray pos quats = (FullGrid.fullArray pos quats).map (fun pq => pq.1 ++ pq.2) := by
  unfold Order.fullArray FullGrid.fullArray
  rw [List.map_flatMap]
  simp only [List.map_map, Function.comp_def]

/-- Hence C02's `grid_row_order` and C09's `row_spec` are one statement: row `n` is (position `n / n_b`,
rotation `n % n_b`), here derived for C09's array from C02's theorem. -/
theorem row_spec_from_c02 {K : Type} (pos quats : List (List K)) (n : Nat) :
    (Order.fullArray pos quats)[n]? =
      (pos[n / quats.length]?).bind fun p => (quats[n % quats.length]?).map fun q => p ++ q := by
  rw [fullArray_eq, List.getElem?_map, (Molgri.C02.grid_row_order pos quats n).2]
  cases pos[n / quats.length]? with
  | none => rfl
  | some p => cases quats[n % quats.length]? <;> rfl

/-- **C09's index helpers = C02's decomposition**: `get_position_index()[n] = n / n_b`, `get_quaternion_index()[n] =
n % n_b`, the very pair `(i, k)` with `n = n_b * i + k` that C02's matrices (`stride_eq`) and volumes use. -/
theorem index_helpers_match (nb no nt n : Nat) (hn : n < Order.fullLen nb no nt) (hb : 0 < nb) :
    (∃ P Q, Order.positionIndex nb no nt none = .ok P ∧ Order.quaternionIndex nb no nt none = .ok Q ∧
      P[n]? = some (n / nb) ∧ Q[n]? = some (n % nb)) ∧
    nb * (n / nb) + n % nb = n ∧ n / nb < no * nt ∧ n % nb < nb := by
  obtain ⟨hQ, hP⟩ := Molgri.C09.index_all nb no nt
  refine ⟨⟨_, _, hP, hQ, ?_, ?_⟩, Nat.div_add_mod n nb, ?_, Nat.mod_lt _ hb⟩
  · simp [hn]
  · simp [hn]
  · unfold Order.fullLen at hn
    exact Nat.div_lt_of_lt_mul hn

/-- **C11's assigned index is C09's / C02's row and C05's cell.**  For radius index `t`, direction index `o`, rotation
index `b` inside the grid, the index `compose` returns is a row number `n` of the full grid such that
* row `n` of the grid array (C09) is direction `o` scaled by radius `t`, followed by quaternion `b`;
* in C02's numbering `n = n_b * p + b` with position cell `p = n / n_b`, rotation `n % n_b = b`;
* in C05's numbering the position cell is `p = t * n_o + o` (shell `t`, direction `o`). -/
theorem composed_index_is_row {K : Type} [Mul K] (dirs quats : List (List K)) (radii : List K) (t o b : Nat)
    (ht : t < radii.length) (ho : o < dirs.length) (hb : b < quats.length) :
    ∃ n, Assign.compose (some t) o b dirs.length quats.length = some n ∧
      n < radii.length * dirs.length * quats.length ∧
      (Order.fullArray (Order.positions dirs radii) quats)[n]? = some (dirs[o].map (· * radii[t]) ++ quats[b]) ∧
      (FullGrid.fullArray (Order.positions dirs radii) quats)[n]? = some (dirs[o].map (· * radii[t]), quats[b]) ∧
      n = quats.length * (t * dirs.length + o) + b ∧ n / quats.length = t * dirs.length + o ∧ n % quats.length = b ∧
      (t * dirs.length + o) / dirs.length = t ∧ (t * dirs.length + o) % dirs.length = o := by
  obtain ⟨hc, _, hmod, _, _⟩ := Molgri.C11.index_compose_inverse t o b dirs.length quats.length ho hb
  have hdiv : ((t * dirs.length + o) * quats.length + b) / quats.length = t * dirs.length + o := by
    rw [Nat.add_comm, Nat.add_mul_div_right _ _ (by omega), Nat.div_eq_of_lt hb, Nat.zero_add]
  have hpd : (t * dirs.length + o) / dirs.length = t := by
    rw [Nat.add_comm, Nat.add_mul_div_right _ _ (by omega), Nat.div_eq_of_lt ho, Nat.zero_add]
  have hpm : (t * dirs.length + o) % dirs.length = o := by
    rw [Nat.add_comm, Nat.add_mul_mod_self_right, Nat.mod_eq_of_lt ho]
  have hpos : (Order.positions dirs radii)[t * dirs.length + o]? = some (dirs[o].map (· * radii[t])) := by
    rw [Order.getElem?_positions dirs radii _ (by omega), hpd, hpm]
    simp [ht, ho]
  have hpair : (FullGrid.fullArray (Order.positions dirs radii) quats)[(t * dirs.length + o) * quats.length + b]? =
      some (dirs[o].map (· * radii[t]), quats[b]) := by
    rw [(Molgri.C02.grid_row_order _ quats _).2, hdiv, hmod, hpos]
    simp [hb]
  refine ⟨_, hc, Molgri.C11.index_in_range t o b radii.length dirs.length quats.length ht ho hb, ?_, hpair,
    by rw [Nat.mul_comm], hdiv, hmod, hpd, hpm⟩
  rw [fullArray_eq, List.getElem?_map, hpair]
  rfl

/-- The same numbering in the volumes: entry `n = n_b * (t * n_o + o) + b` of C02's `get_total_volumes` is the volume
of C05's position cell `t * n_o + o` (shell `t`, direction `o`: `tAndO`) times `f³` times the volume of rotation `b`. -/
theorem volume_at_composed {K : Type} [Field K] (f : K) (oProp tProp Vrot : List K) (t o b : Nat)
    (ht : t < tProp.length) (ho : o < oProp.length) (hb : b < Vrot.length) :
    (FullGrid.totalVolumes f (PositionGrid.tAndO oProp tProp) Vrot)[(t * oProp.length + o) * Vrot.length + b]? =
      some (oProp[o] * tProp[t] * f ^ 3 * Vrot[b]) := by
  have hdiv : ((t * oProp.length + o) * Vrot.length + b) / Vrot.length = t * oProp.length + o := by
    rw [Nat.add_comm, Nat.add_mul_div_right _ _ (by omega), Nat.div_eq_of_lt hb, Nat.zero_add]
  have hmod : ((t * oProp.length + o) * Vrot.length + b) % Vrot.length = b := by
    rw [Nat.add_comm, Nat.add_mul_mod_self_right, Nat.mod_eq_of_lt hb]
  have hpd : (t * oProp.length + o) / oProp.length = t := by
    rw [Nat.add_comm, Nat.add_mul_div_right _ _ (by omega), Nat.div_eq_of_lt ho, Nat.zero_add]
  have hpm : (t * oProp.length + o) % oProp.length = o := by
    rw [Nat.add_comm, Nat.add_mul_mod_self_right, Nat.mod_eq_of_lt ho]
  have hcell : (PositionGrid.tAndO oProp tProp)[t * oProp.length + o]? = some (oProp[o] * tProp[t]) := by
    unfold PositionGrid.tAndO
    rw [FullGrid.getElem?_flatMap_map (fun tv ov => ov * tv) tProp oProp, hpd, hpm]
    simp [ht, ho]
  rw [(Molgri.C02.volume_order f _ Vrot _).2, hdiv, hmod, hcell]
  simp [hb]

end Molgri.Bridge.Rows
