/-
Bridge D (1) — the direction-grid matrices of C03 are the unit-sphere inputs of C05.

`PositionGrid._get_N_N_position_array` (C05, `Molgri.PositionGrid.nnPosition`) takes its same-shell block from the
direction grid: `neig = self.o_rotations.get_voronoi_adjacency(..).toarray()` / `.get_cell_borders().toarray()` /
`.get_center_distances(..).toarray()`.  C05's theorems treat `neig` as an arbitrary dense matrix and carry as
HYPOTHESES what C03 (`Molgri.Voronoi.nnArray`, `adjacencyArray`, `borderArray`, `distanceArray`) proves about these
three `coo_array`s.  This file composes the two models:

* `toDense f es`              `es.toarray()` of a C03 result, the stored element read through `f` (adjacency: `True ↦ 1`;
                              borders / distances: the evaluation `ev` of the angle datum `CosData`, i.e.
                              `arccos(clip(..))·norm` — any function here, the real one in `Bridge/SphereReal.lean`);
* pattern level               every cell of `toarray()` (`sphere_dense_entry`), symmetric (`sphere_dense_symm`), empty
                              diagonal (`sphere_dense_diag`), adjacency is 0/1 on the common pattern (`sphereAdj_eq`);
* C05's hypothesis `hpat`     ("arcs / angles are non-zero exactly on the adjacent pairs") is EQUIVALENT to "every stored
                              value evaluates to a non-zero number" (`hpat_iff_stored_ne_zero`) — the pattern half of the
                              hypothesis is a theorem of C03, only the value half remains;
* value level, exact part     (any ordered field): the stored border datum is that of two DIFFERENT POINTS
                              (`reduced_vertices_distinct`, `border_datum_distinct_points`), "cosine ≥ 1" (`Flat`) means
                              positively parallel (`flat_cosData_iff`), hence equal for vectors of one norm (`eq_of_flat`);
                              stored data are not flat (`border_not_flat`, `border_two_shared_not_flat`,
                              `distance_not_flat`);
* corollaries                 C05's `adjacency_iff`, `border_nonzero_iff`, `distance_nonzero_iff`, `matrix_symmetric`
                              restated on C03's arrays with `hpat` / `hsym` discharged.

What stays a hypothesis (and why) is listed at the corollaries: the unit-sphere areas are non-zero (scipy's
`calculate_areas`, external), and "the evaluation of a non-flat datum is non-zero" (`ev`; proved for the real
`arccos` in `Bridge/SphereReal.lean`).
-/
import Molgri.Props.C03
import Molgri.Props.C05
import Mathlib.Tactic.LinearCombination

set_option linter.unusedSectionVars false

namespace Molgri.Bridge.Sphere
open Molgri.Voronoi Molgri.PositionGrid

variable {K : Type} [Field K] [LinearOrder K] [IsStrictOrderedRing K]

/-! ### `toarray()` of a C03 result -/

section dense
variable {β : Type}

/-- `es.toarray()[i, j]` of a `coo_array` built by `_calculate_N_N_array` (duplicates would be summed, as scipy does;
there are none: `nn_nodup`), with the stored element read through `f`.  This is C05's `dense` (the same `toarray`
semantics C05 uses for its own matrices). -/
def toDense (f : β → K) (es : List (Nat × Nat × β)) (i j : Nat) : K :=
  dense (es.map fun e => (e.1, e.2.1, f e.2.2)) i j

theorem toDense_cons (f : β → K) (e : Nat × Nat × β) (es : List (Nat × Nat × β)) (i j : Nat) :
    toDense f (e :: es) i j = (if e.1 = i ∧ e.2.1 = j then f e.2.2 else 0) + toDense f es i j := by
  unfold toDense
  rw [List.map_cons, dense_cons]

theorem mem_pattern {es : List (Nat × Nat × β)} {i j : Nat} : (i, j) ∈ pattern es ↔ ∃ v, (i, j, v) ∈ es := by
  unfold pattern
  constructor
  · intro h
    obtain ⟨⟨a, b, v⟩, he, hab⟩ := List.mem_map.mp h
    simp only [Prod.mk.injEq] at hab
    obtain ⟨rfl, rfl⟩ := hab
    exact ⟨v, he⟩
  · rintro ⟨v, hv⟩
    exact List.mem_map.mpr ⟨_, hv, rfl⟩

/-- A position that is not stored reads 0. -/
theorem toDense_unstored (f : β → K) (es : List (Nat × Nat × β)) (i j : Nat) (h : (i, j) ∉ pattern es) :
    toDense f es i j = 0 := by
  induction es with
  | nil => rfl
  | cons e es ih =>
    rw [toDense_cons]
    have h1 : ¬ (e.1 = i ∧ e.2.1 = j) := by
      rintro ⟨rfl, rfl⟩
      exact h (List.mem_map.mpr ⟨e, List.mem_cons_self, rfl⟩)
    have h2 : (i, j) ∉ pattern es := by
      intro hh
      obtain ⟨e', he', hab⟩ := List.mem_map.mp hh
      exact h (List.mem_map.mpr ⟨e', List.mem_cons_of_mem _ he', hab⟩)
    rw [if_neg h1, ih h2, add_zero]

/-- A stored position of a duplicate-free pattern reads its stored value. -/
theorem toDense_stored (f : β → K) (es : List (Nat × Nat × β)) (hnd : (pattern es).Nodup) (i j : Nat) (v : β)
    (hm : (i, j, v) ∈ es) : toDense f es i j = f v := by
  induction es with
  | nil => cases hm
  | cons e es ih =>
    rw [toDense_cons]
    have hp : pattern (e :: es) = (e.1, e.2.1) :: pattern es := rfl
    rw [hp, List.nodup_cons] at hnd
    rcases List.mem_cons.mp hm with he | hm'
    · subst he
      rw [if_pos ⟨rfl, rfl⟩, toDense_unstored f es _ _ hnd.1, add_zero]
    · have h1 : ¬ (e.1 = i ∧ e.2.1 = j) := by
        rintro ⟨rfl, rfl⟩
        exact hnd.1 (List.mem_map.mpr ⟨_, hm', rfl⟩)
      rw [if_neg h1, zero_add, ih hnd.2 hm']

/-- **Every cell of `toarray()`** of a matrix `_calculate_N_N_array` returns (any dimension, any property `val`, any
reading `f` of the elements): either `(i, j)` is stored — then `i ≠ j`, both indices fit the shape and the region
list, the two regions share at least `dim − 1` reduced vertices, and the cell holds the property of the unordered
pair — or it is not stored and the cell is 0. -/
theorem sphere_dense_entry (dim N : Nat) (R : List (List Nat)) (val : Nat → Nat → Except String β)
    (es : List (Nat × Nat × β)) (h : nnArray dim N R val = .ok es) (f : β → K) (i j : Nat) :
    (∃ v, (i, j, v) ∈ es ∧ val (min i j) (max i j) = .ok v ∧ toDense f es i j = f v ∧
        i ≠ j ∧ i < N ∧ j < N ∧ i < R.length ∧ j < R.length ∧
        dim - 1 ≤ (sharedIdx (R.getD i []) (R.getD j [])).length) ∨
    ((i, j) ∉ pattern es ∧ toDense f es i j = 0) := by
  by_cases hp : (i, j) ∈ pattern es
  · left
    obtain ⟨v, hv⟩ := mem_pattern.mp hp
    obtain ⟨h1, h2, h3, h4⟩ := (C03.nn_pattern_iff dim N R val es h i j).mp hp
    have hs := C03.nn_in_shape dim N R val es h _ hv
    exact ⟨v, hv, C03.nn_value dim N R val es h i j v hv,
      toDense_stored f es (C03.nn_nodup dim N R val es h) i j v hv, h1, hs.1, hs.2, h2, h3, h4⟩
  · right
    exact ⟨hp, toDense_unstored f es i j hp⟩

/-- "the three pairwise matrices are symmetric" as dense matrices: C05's hypothesis `hsym` (`matrix_symmetric`). -/
theorem sphere_dense_symm (dim N : Nat) (R : List (List Nat)) (val : Nat → Nat → Except String β)
    (es : List (Nat × Nat × β)) (h : nnArray dim N R val = .ok es) (f : β → K) (i j : Nat) :
    toDense f es i j = toDense f es j i := by
  have hnd := C03.nn_nodup dim N R val es h
  by_cases hp : (i, j) ∈ pattern es
  · obtain ⟨v, hv⟩ := mem_pattern.mp hp
    rw [toDense_stored f es hnd i j v hv, toDense_stored f es hnd j i v (C03.nn_symm dim N R val es h i j v hv)]
  · have hp' : (j, i) ∉ pattern es := by
      intro hh
      obtain ⟨v, hv⟩ := mem_pattern.mp hh
      exact hp (mem_pattern.mpr ⟨v, C03.nn_symm dim N R val es h j i v hv⟩)
    rw [toDense_unstored f es i j hp, toDense_unstored f es j i hp']

/-- "… with empty diagonal" as a dense matrix. -/
theorem sphere_dense_diag (dim N : Nat) (R : List (List Nat)) (val : Nat → Nat → Except String β)
    (es : List (Nat × Nat × β)) (h : nnArray dim N R val = .ok es) (f : β → K) (i : Nat) :
    toDense f es i i = 0 := by
  apply toDense_unstored
  intro hh
  obtain ⟨v, hv⟩ := mem_pattern.mp hh
  exact C03.nn_diag_empty dim N R val es h i v hv

/-- A non-zero cell is a stored one. -/
theorem sphere_dense_support (f : β → K) (es : List (Nat × Nat × β)) (i j : Nat) (h : toDense f es i j ≠ 0) :
    (i, j) ∈ pattern es := by
  by_contra hp
  exact h (toDense_unstored f es i j hp)

end dense

/-! ### the adjacency matrix is 0/1 on the pattern -/

/-- `bool → float` as numpy casts it. -/
def boolK (b : Bool) : K := if b then 1 else 0

/-- `get_voronoi_adjacency(..).toarray()` as a matrix over `K`. -/
def sphereAdj (ea : List (Nat × Nat × Bool)) (i j : Nat) : K := toDense boolK ea i j

/-- All stored adjacency elements are `True`. -/
theorem adjacency_stored_true (N : Nat) (nr : List (List Nat)) (ea : List (Nat × Nat × Bool))
    (ha : adjacencyArray N nr = .ok ea) (i j : Nat) (v : Bool) (hm : (i, j, v) ∈ ea) : v = true := by
  have := C03.nn_value 3 N nr _ ea ha i j v hm
  simp only [Except.ok.injEq] at this
  exact this.symm

/-- The dense unit-sphere adjacency is the indicator of the stored pattern. -/
theorem sphereAdj_eq (N : Nat) (nr : List (List Nat)) (ea : List (Nat × Nat × Bool))
    (ha : adjacencyArray N nr = .ok ea) (i j : Nat) :
    sphereAdj (K := K) ea i j = if (i, j) ∈ pattern ea then 1 else 0 := by
  unfold sphereAdj
  by_cases hp : (i, j) ∈ pattern ea
  · obtain ⟨v, hv⟩ := mem_pattern.mp hp
    have hv' := adjacency_stored_true N nr ea ha i j v hv
    subst hv'
    rw [if_pos hp, toDense_stored boolK ea (C03.nn_nodup 3 N nr _ ea ha) i j true hv]
    rfl
  · rw [if_neg hp, toDense_unstored boolK ea i j hp]

/-- "exactly when o and o' are adjacent on the sphere", in terms of scipy's (reduced) regions: the dense adjacency is
non-zero iff the two directions are different and their regions share at least two reduced vertices. -/
theorem sphereAdj_ne_zero_iff (N : Nat) (nr : List (List Nat)) (ea : List (Nat × Nat × Bool))
    (ha : adjacencyArray N nr = .ok ea) (i j : Nat) :
    sphereAdj (K := K) ea i j ≠ 0 ↔
      i ≠ j ∧ i < nr.length ∧ j < nr.length ∧ 2 ≤ (sharedIdx (nr.getD i []) (nr.getD j [])).length := by
  rw [sphereAdj_eq N nr ea ha, ← show (3 - 1 = 2) from rfl, ← C03.nn_pattern_iff 3 N nr _ ea ha i j]
  by_cases hp : (i, j) ∈ pattern ea
  · simp [hp]
  · simp [hp]

/-! ### C05's hypothesis `hpat` on C03's arrays -/

/-- **`hpat` reduced to its value half.**  Let `es` be any of the direction-grid matrices (borders, centre distances;
any property `val`) and `ea` the adjacency matrix of the same regions.  C05's hypothesis
"`neig o o' ≠ 0 ↔ adj o o' ≠ 0` for all directions" holds **iff** every *stored* value reads non-zero: that the two
matrices have one pattern, symmetric with empty diagonal, is a theorem of C03 and needs no hypothesis. -/
theorem hpat_iff_stored_ne_zero {β : Type} (N : Nat) (nr : List (List Nat)) (val : Nat → Nat → Except String β)
    (es : List (Nat × Nat × β)) (ea : List (Nat × Nat × Bool)) (f : β → K)
    (h : nnArray 3 N nr val = .ok es) (ha : adjacencyArray N nr = .ok ea) :
    (∀ o o', o < N → o' < N → (toDense f es o o' ≠ 0 ↔ sphereAdj (K := K) ea o o' ≠ 0)) ↔
      ∀ e ∈ es, f e.2.2 ≠ 0 := by
  have hpat : pattern es = pattern ea := C03.nn_common_pattern 3 N nr _ _ es ea h ha
  have hnd := C03.nn_nodup 3 N nr val es h
  constructor
  · rintro hall ⟨i, j, v⟩ he
    have hs := C03.nn_in_shape 3 N nr val es h _ he
    have hp : (i, j) ∈ pattern ea := hpat ▸ mem_pattern.mpr ⟨v, he⟩
    have h1 : sphereAdj (K := K) ea i j ≠ 0 := by
      rw [sphereAdj_eq N nr ea ha, if_pos hp]; exact one_ne_zero
    have h2 := (hall i j hs.1 hs.2).mpr h1
    rwa [toDense_stored f es hnd i j v he] at h2
  · intro hall o o' _ _
    by_cases hp : (o, o') ∈ pattern es
    · obtain ⟨v, hv⟩ := mem_pattern.mp hp
      rw [toDense_stored f es hnd o o' v hv, sphereAdj_eq N nr ea ha, if_pos (hpat ▸ hp)]
      exact ⟨fun _ => one_ne_zero, fun _ => hall _ hv⟩
    · have hp' : (o, o') ∉ pattern ea := hpat ▸ hp
      rw [toDense_unstored f es o o' hp, sphereAdj_eq N nr ea ha, if_neg hp']

/-! ### value level, the exact (field) part: stored data belong to two different points, not positively parallel -/

section value

theorem dot_self_nonneg (a : V3 K) : 0 ≤ dot a a := by
  unfold dot
  nlinarith [mul_self_nonneg a.x, mul_self_nonneg a.y, mul_self_nonneg a.z]

theorem dot_self_eq_zero {a : V3 K} (h : dot a a = 0) : a = ⟨0, 0, 0⟩ := by
  unfold dot at h
  have hx : a.x * a.x = 0 := by nlinarith [mul_self_nonneg a.x, mul_self_nonneg a.y, mul_self_nonneg a.z]
  have hy : a.y * a.y = 0 := by nlinarith [mul_self_nonneg a.x, mul_self_nonneg a.y, mul_self_nonneg a.z]
  have hz : a.z * a.z = 0 := by nlinarith [mul_self_nonneg a.x, mul_self_nonneg a.y, mul_self_nonneg a.z]
  cases a
  simp only [V3.mk.injEq]
  exact ⟨mul_self_eq_zero.mp hx, mul_self_eq_zero.mp hy, mul_self_eq_zero.mp hz⟩

/-- Lagrange's identity `|a × b|² = |a|²|b|² − (a·b)²`. -/
theorem lagrange (a b : V3 K) : dot (cross a b) (cross a b) = dot a a * dot b b - dot a b * dot a b := by
  unfold dot cross; ring

/-- Cauchy–Schwarz. -/
theorem cauchy_schwarz (a b : V3 K) : dot a b * dot a b ≤ dot a a * dot b b := by
  have := dot_self_nonneg (cross a b)
  rw [lagrange] at this
  linarith

/-- "the cosine is at least 1": the datum `(a·b, |a|², |b|²)` on which `arccos(clip(a·b / (|a||b|)))` is 0. -/
def Flat (d : CosData K) : Prop := 0 ≤ d.dot ∧ d.nsq1 * d.nsq2 ≤ d.dot * d.dot

/-- The datum of two vectors is flat exactly when they are parallel and do not point apart (for non-zero vectors:
positive multiples of each other). -/
theorem flat_cosData_iff (a b : V3 K) : Flat (cosData a b) ↔ 0 ≤ dot a b ∧ cross a b = ⟨0, 0, 0⟩ := by
  unfold Flat cosData
  simp only
  constructor
  · rintro ⟨h0, h1⟩
    refine ⟨h0, dot_self_eq_zero ?_⟩
    have := dot_self_nonneg (cross a b)
    rw [lagrange] at this ⊢
    linarith
  · rintro ⟨h0, hc⟩
    refine ⟨h0, ?_⟩
    have := lagrange a b
    rw [hc] at this
    have h00 : dot (⟨0, 0, 0⟩ : V3 K) ⟨0, 0, 0⟩ = 0 := by simp [dot]
    rw [h00] at this
    linarith

/-- Two vectors of one norm whose datum is flat are the same point. -/
theorem eq_of_flat (a b : V3 K) (hn : dot a a = dot b b) (h0 : 0 ≤ dot a b)
    (h : dot a a * dot b b ≤ dot a b * dot a b) : a = b := by
  have hna := dot_self_nonneg a
  have hge : dot a a ≤ dot a b := by
    by_contra hlt
    rw [not_le] at hlt
    rw [← hn] at h
    nlinarith
  have hz : dot (vsub a b) (vsub a b) = 0 := by
    have h1 := dot_self_nonneg (vsub a b)
    rw [dot_vsub_self] at h1 ⊢
    rw [← hn] at h1 ⊢
    linarith
  have := dot_self_eq_zero hz
  simp only [vsub, V3.mk.injEq] at this
  obtain ⟨hx, hy, hz'⟩ := this
  cases a; cases b
  simp only [V3.mk.injEq]
  exact ⟨sub_eq_zero.mp hx, sub_eq_zero.mp hy, sub_eq_zero.mp hz'⟩

/-- **The reduced vertices are pairwise distinct points** (`reduce_spec`: "nothing repeated"): two different reduced
indices never denote the same point, whatever the closeness test merged. -/
theorem reduced_vertices_distinct {α : Type} [DecidableEq α] (close : α → α → Bool) (verts nv : List α)
    (regions nr : List (List Nat)) (h : reduce close verts regions = .ok (nv, nr))
    (a b : Nat) (va vb : α) (hab : a ≠ b) (ha : nv[a]? = some va) (hb : nv[b]? = some vb) : va ≠ vb := by
  obtain ⟨_, hnd, _, _⟩ := C03.reduce_spec close verts nv regions nr h
  intro e
  subst e
  exact hab (nodup_getElem?_inj hnd ha hb)

/-- The stored border datum belongs to two different POINTS (not only two different indices) listed by both regions,
as soon as the reduced vertex list has no repeated row — which is what `get_reduced_vertices_regions` returns
(`reduced_vertices_distinct`). -/
theorem border_datum_distinct_points (centers nv : List (V3 K)) (nr : List (List Nat))
    (eb : List (Nat × Nat × CosData K)) (hb : borderArray centers nv nr = .ok eb) (hnd : nv.Nodup)
    (i j : Nat) (d : CosData K) (hm : (i, j, d) ∈ eb) :
    ∃ va vb, va ∈ nv ∧ vb ∈ nv ∧ va ≠ vb ∧ d = cosData va vb := by
  obtain ⟨a, b, va, vb, hab, _, _, _, _, ga, gb, hd⟩ := C03.border_value_partial centers nv nr eb hb i j d hm
  refine ⟨va, vb, List.mem_of_getElem? ga, List.mem_of_getElem? gb, ?_, hd⟩
  intro e
  subst e
  exact hab (nodup_getElem?_inj hnd ga gb)

/-- **Stored borders are not flat** when the reduced vertices are distinct points of one sphere (`dot v v = ρ` for all
of them — scipy's `SphericalVoronoi.vertices` for `radius = 1`; in floating point the norms agree only up to
rounding, this is the hypothesis that remains): the cosine of the stored datum is `< 1`, and its norms are positive. -/
theorem border_not_flat (centers nv : List (V3 K)) (nr : List (List Nat)) (eb : List (Nat × Nat × CosData K))
    (hb : borderArray centers nv nr = .ok eb) (hnd : nv.Nodup) (ρ : K) (hρ : ∀ v ∈ nv, dot v v = ρ) :
    ∀ e ∈ eb, ¬ Flat e.2.2 ∧ 0 < e.2.2.nsq1 ∧ 0 < e.2.2.nsq2 := by
  rintro ⟨i, j, d⟩ he
  obtain ⟨va, vb, hva, hvb, hne, rfl⟩ := border_datum_distinct_points centers nv nr eb hb hnd i j d he
  have hn : dot va va = dot vb vb := (hρ va hva).trans (hρ vb hvb).symm
  have hpos : 0 < dot va va := by
    rcases lt_or_eq_of_le (dot_self_nonneg va) with h | h
    · exact h
    · exfalso
      have h1 := dot_self_eq_zero h.symm
      have h2 := dot_self_eq_zero (hn ▸ h.symm)
      exact hne (h1.trans h2.symm)
  refine ⟨?_, hpos, ?_⟩
  · rintro ⟨h0, h1⟩
    exact hne (eq_of_flat va vb hn h0 h1)
  · show 0 < dot vb vb
    rw [← hn]; exact hpos

theorem cross_self (a : V3 K) : cross a a = ⟨0, 0, 0⟩ := by
  simp only [cross, V3.mk.injEq]
  refine ⟨by ring, by ring, by ring⟩

theorem cross_eq_zero_comm {a b : V3 K} (h : cross a b = ⟨0, 0, 0⟩) : cross b a = ⟨0, 0, 0⟩ := by
  simp only [cross, V3.mk.injEq] at h ⊢
  obtain ⟨h1, h2, h3⟩ := h
  exact ⟨by linear_combination -h1, by linear_combination -h2, by linear_combination -h3⟩

theorem cross_zero_left (b : V3 K) : cross (⟨0, 0, 0⟩ : V3 K) b = ⟨0, 0, 0⟩ := by
  simp [cross]

theorem cross_zero_right (a : V3 K) : cross a (⟨0, 0, 0⟩ : V3 K) = ⟨0, 0, 0⟩ := by
  simp [cross]

/-- The rank assertion of `_calculate_borders`, read off a successful call. -/
theorem borderVal_rank {nv : List (V3 K)} {nr : List (List Nat)} {i j : Nat} {d : CosData K}
    (h : borderVal nv nr i j = .ok d) :
    ∃ vs, mapE (getVertex nv) (sharedIdx (nr.getD i []) (nr.getD j [])) = .ok vs ∧ rankIs2 vs = true := by
  unfold borderVal at h
  simp only at h
  cases hvs : mapE (getVertex nv) (sharedIdx (nr.getD i []) (nr.getD j [])) with
  | error e => rw [hvs] at h; cases h
  | ok vs =>
    rw [hvs] at h
    simp only at h
    by_cases hr : rankIs2 vs = true
    · exact ⟨vs, rfl, hr⟩
    · rw [if_neg hr] at h; cases h

/-- **The generic case needs no hypothesis at all**: when the two regions share exactly two reduced vertices, the rank
assertion of `_calculate_borders` (`matrix_rank == 2`, exact reading) already says that the two vertices are not
parallel, so the stored datum is not flat and both norms are positive. -/
theorem border_two_shared_not_flat (centers nv : List (V3 K)) (nr : List (List Nat))
    (eb : List (Nat × Nat × CosData K)) (hb : borderArray centers nv nr = .ok eb) (i j : Nat) (d : CosData K)
    (hm : (i, j, d) ∈ eb) (h2 : (sharedIdx (nr.getD i []) (nr.getD j [])).length = 2) :
    ¬ Flat d ∧ 0 < d.nsq1 ∧ 0 < d.nsq2 := by
  have hv := C03.nn_value 3 _ nr _ eb hb i j d hm
  have hne := ((C03.nn_pattern_iff 3 _ nr _ eb hb i j).1 (List.mem_map.2 ⟨_, hm, rfl⟩)).1
  have hlen : (sharedIdx (nr.getD (min i j) []) (nr.getD (max i j) [])).length = 2 := by
    rcases Nat.lt_or_gt_of_ne hne with hlt | hlt
    · rw [Nat.min_eq_left (Nat.le_of_lt hlt), Nat.max_eq_right (Nat.le_of_lt hlt)]; exact h2
    · rw [Nat.min_eq_right (Nat.le_of_lt hlt), Nat.max_eq_left (Nat.le_of_lt hlt), sharedIdx_length_comm]; exact h2
  generalize min i j = i' at hv hlen
  generalize max i j = j' at hv hlen
  obtain ⟨vs, hvs, hrank⟩ := borderVal_rank hv
  obtain ⟨a, b, rest, va, vb, hsh, ga, gb, hd⟩ := borderVal_ok hv
  have hrest : rest = [] := by
    rw [hsh] at hlen
    simpa using hlen
  subst hrest
  rw [hsh] at hvs
  have hvs' : vs = [va, vb] := by
    have hf := (mapE_ok_iff _ _ _).1 hvs
    obtain ⟨v1, u, h1, hf', rfl⟩ := List.forall₂_cons_left_iff.1 hf
    obtain ⟨v2, u', h2', hf'', rfl⟩ := List.forall₂_cons_left_iff.1 hf'
    have hu : u' = [] := by cases hf''; rfl
    subst hu
    have e1 := getVertex_ok h1
    have e2 := getVertex_ok h2'
    rw [ga] at e1; rw [gb] at e2
    cases e1; cases e2
    rfl
  subst hvs'
  have hcross : cross va vb ≠ ⟨0, 0, 0⟩ := by
    intro hc
    unfold rankIs2 at hrank
    rw [Bool.and_eq_true] at hrank
    have hany := hrank.1
    simp only [List.any_cons, List.any_nil, Bool.or_false, Bool.or_eq_true, decide_eq_true_eq] at hany
    rcases hany with (h | h) | (h | h)
    · exact h (cross_self va)
    · exact h hc
    · exact h (cross_eq_zero_comm hc)
    · exact h (cross_self vb)
  subst hd
  refine ⟨fun hf => hcross ((flat_cosData_iff va vb).mp hf).2, ?_, ?_⟩
  · rcases lt_or_eq_of_le (dot_self_nonneg va) with h | h
    · exact h
    · exfalso
      rw [dot_self_eq_zero h.symm] at hcross
      exact hcross (cross_zero_left vb)
  · rcases lt_or_eq_of_le (dot_self_nonneg vb) with h | h
    · exact h
    · exfalso
      rw [dot_self_eq_zero h.symm] at hcross
      exact hcross (cross_zero_right va)

/-- **Stored centre distances are not flat** when the grid points are pairwise distinct points of one sphere (for the
direction grids: C07 / C18 prove distinctness of the polytope grids; the common norm is the unit normalisation). -/
theorem distance_not_flat (centers : List (V3 K)) (nr : List (List Nat)) (ed : List (Nat × Nat × CosData K))
    (hd : distanceArray centers nr = .ok ed) (hnd : centers.Nodup) (ρ : K) (hρ : ∀ c ∈ centers, dot c c = ρ) :
    ∀ e ∈ ed, ¬ Flat e.2.2 ∧ 0 < e.2.2.nsq1 ∧ 0 < e.2.2.nsq2 := by
  rintro ⟨i, j, d⟩ he
  obtain ⟨ci, cj, hi, hj, hdot, hns⟩ := C03.distance_value centers nr ed hd i j d he
  have hij : i ≠ j := by rcases hns with h | h <;> omega
  have hne : ci ≠ cj := by
    intro e
    subst e
    exact hij (nodup_getElem?_inj hnd hi hj)
  have hci := hρ ci (List.mem_of_getElem? hi)
  have hcj := hρ cj (List.mem_of_getElem? hj)
  have hn : dot ci ci = dot cj cj := hci.trans hcj.symm
  have hpos : 0 < dot ci ci := by
    rcases lt_or_eq_of_le (dot_self_nonneg ci) with h | h
    · exact h
    · exfalso
      have h1 := dot_self_eq_zero h.symm
      have h2 := dot_self_eq_zero (hn ▸ h.symm)
      exact hne (h1.trans h2.symm)
  have h1 : d.nsq1 = dot ci ci := by
    rcases hns with ⟨_, h, _⟩ | ⟨_, h, _⟩
    · exact h
    · exact h.trans hn.symm
  have h2 : d.nsq2 = dot cj cj := by
    rcases hns with ⟨_, _, h⟩ | ⟨_, _, h⟩
    · exact h
    · exact h.trans hn
  refine ⟨?_, h1 ▸ hpos, h2 ▸ (hn ▸ hpos)⟩
  rintro ⟨h0, hf⟩
  simp only at h0 hf
  rw [hdot] at h0 hf
  rw [h1, h2] at hf
  exact hne (eq_of_flat ci cj hn h0 hf)

end value

/-! ### C05's theorems on C03's arrays, hypotheses discharged -/

/-- **C05 `adjacency_iff` with the unit-sphere adjacency supplied by C03**: two cells of the position grid are adjacent
iff they are on one ray in consecutive shells, or in one shell with two different directions whose (reduced) scipy
regions share at least two vertices.  No hypothesis on the direction-grid input is left. -/
theorem adjacency_iff_voronoi (n_o : Nat) (r area : List K) (nr : List (List Nat)) (ea : List (Nat × Nat × Bool))
    (ha : adjacencyArray n_o nr = .ok ea) (harea : area.length = n_o)
    (k k' o o' : Nat) (hk : k < r.length) (hk' : k' < r.length) (ho : o < n_o) (ho' : o' < n_o) :
    dense (nnOfSel .adjacency n_o r area (sphereAdj ea)) (k * n_o + o) (k' * n_o + o') ≠ 0 ↔
      (o = o' ∧ (k' = k + 1 ∨ k = k' + 1)) ∨
      (k = k' ∧ o ≠ o' ∧ o < nr.length ∧ o' < nr.length ∧ 2 ≤ (sharedIdx (nr.getD o []) (nr.getD o' [])).length) := by
  rw [C05.adjacency_iff n_o r area (sphereAdj ea) harea k k' o o' hk hk' ho ho', sphereAdj_ne_zero_iff n_o nr ea ha]

/-- **C05 `border_nonzero_iff` on C03's arrays**: `hpat` is replaced by its value half — every stored border
evaluates (`ev` = `dist_on_sphere` of the datum) to a non-zero number.  Remaining hypotheses: `ValidRadii` (C16, see
`Bridge/Radial.lean`), non-zero unit-sphere areas (scipy, external), `hval` (see `border_not_flat`,
`border_two_shared_not_flat` and, over ℝ, `Bridge/SphereReal.lean`). -/
theorem border_nonzero_iff_voronoi (ev : CosData K → K) (centers nv : List (V3 K)) (nr : List (List Nat))
    (ea : List (Nat × Nat × Bool)) (eb : List (Nat × Nat × CosData K))
    (ha : adjacencyArray centers.length nr = .ok ea) (hb : borderArray centers nv nr = .ok eb)
    (r area : List K) (h : ValidRadii r) (harea : area.length = centers.length)
    (hpos : ∀ o, o < centers.length → area.getD o 0 ≠ 0) (hval : ∀ e ∈ eb, ev e.2.2 ≠ 0)
    (k k' o o' : Nat) (hk : k < r.length) (hk' : k' < r.length) (ho : o < centers.length) (ho' : o' < centers.length) :
    dense (nnOfSel .borderLen centers.length r area (toDense ev eb)) (k * centers.length + o) (k' * centers.length + o') ≠ 0 ↔
      dense (nnOfSel .adjacency centers.length r area (sphereAdj ea)) (k * centers.length + o) (k' * centers.length + o') ≠ 0 :=
  C05.border_nonzero_iff centers.length r area (toDense ev eb) (sphereAdj ea) h harea hpos
    ((hpat_iff_stored_ne_zero centers.length nr _ eb ea ev hb ha).mpr hval) k k' o o' hk hk' ho ho'

/-- **C05 `distance_nonzero_iff` on C03's arrays**, `hpat` replaced by its value half. -/
theorem distance_nonzero_iff_voronoi (ev : CosData K → K) (centers : List (V3 K)) (nr : List (List Nat))
    (ea : List (Nat × Nat × Bool)) (ed : List (Nat × Nat × CosData K))
    (ha : adjacencyArray centers.length nr = .ok ea) (hd : distanceArray centers nr = .ok ed)
    (r area : List K) (h : ValidRadii r) (harea : area.length = centers.length)
    (hval : ∀ e ∈ ed, ev e.2.2 ≠ 0)
    (k k' o o' : Nat) (hk : k < r.length) (hk' : k' < r.length) (ho : o < centers.length) (ho' : o' < centers.length) :
    dense (nnOfSel .centerDistances centers.length r area (toDense ev ed)) (k * centers.length + o) (k' * centers.length + o') ≠ 0 ↔
      dense (nnOfSel .adjacency centers.length r area (sphereAdj ea)) (k * centers.length + o) (k' * centers.length + o') ≠ 0 :=
  C05.distance_nonzero_iff centers.length r area (toDense ev ed) (sphereAdj ea) h harea
    ((hpat_iff_stored_ne_zero centers.length nr _ ed ea ev hd ha).mpr hval) k k' o o' hk hk' ho ho'

/-- **One neighbour relation for the three position-grid matrices**: with non-degenerate stored values, the border and
the centre-distance matrix of the position grid are non-zero exactly on the pairs `adjacency_iff_voronoi` names. -/
theorem position_neighbours_voronoi (ev : CosData K → K) (centers nv : List (V3 K)) (nr : List (List Nat))
    (ea : List (Nat × Nat × Bool)) (eb ed : List (Nat × Nat × CosData K))
    (ha : adjacencyArray centers.length nr = .ok ea) (hb : borderArray centers nv nr = .ok eb)
    (hd : distanceArray centers nr = .ok ed)
    (r area : List K) (h : ValidRadii r) (harea : area.length = centers.length)
    (hpos : ∀ o, o < centers.length → area.getD o 0 ≠ 0)
    (hvalb : ∀ e ∈ eb, ev e.2.2 ≠ 0) (hvald : ∀ e ∈ ed, ev e.2.2 ≠ 0)
    (k k' o o' : Nat) (hk : k < r.length) (hk' : k' < r.length) (ho : o < centers.length) (ho' : o' < centers.length) :
    let nb := (o = o' ∧ (k' = k + 1 ∨ k = k' + 1)) ∨
      (k = k' ∧ o ≠ o' ∧ o < nr.length ∧ o' < nr.length ∧ 2 ≤ (sharedIdx (nr.getD o []) (nr.getD o' [])).length)
    (dense (nnOfSel .borderLen centers.length r area (toDense ev eb)) (k * centers.length + o) (k' * centers.length + o') ≠ 0 ↔ nb) ∧
    (dense (nnOfSel .centerDistances centers.length r area (toDense ev ed)) (k * centers.length + o) (k' * centers.length + o') ≠ 0 ↔ nb) := by
  intro nb
  have hA := adjacency_iff_voronoi centers.length r area nr ea ha harea k k' o o' hk hk' ho ho'
  exact ⟨(border_nonzero_iff_voronoi ev centers nv nr ea eb ha hb r area h harea hpos hvalb k k' o o' hk hk' ho ho').trans hA,
    (distance_nonzero_iff_voronoi ev centers nr ea ed ha hd r area h harea hvald k k' o o' hk hk' ho ho').trans hA⟩

/-- **C05 `matrix_symmetric` on C03's arrays**: `hsym` is a theorem (`nn_symm`), so each of the three position-grid
matrices built from a direction-grid matrix of `_calculate_N_N_array` is symmetric, for every reading `f` of the
stored elements. -/
theorem matrix_symmetric_voronoi {β : Type} (sel : Sel) (dim N : Nat) (R : List (List Nat))
    (val : Nat → Nat → Except String β) (es : List (Nat × Nat × β)) (hes : nnArray dim N R val = .ok es) (f : β → K)
    (n_o : Nat) (r area : List K) (harea : area.length = n_o)
    (k k' o o' : Nat) (hk : k < r.length) (hk' : k' < r.length) (ho : o < n_o) (ho' : o' < n_o) :
    dense (nnOfSel sel n_o r area (toDense f es)) (k * n_o + o) (k' * n_o + o')
      = dense (nnOfSel sel n_o r area (toDense f es)) (k' * n_o + o') (k * n_o + o) :=
  C05.matrix_symmetric sel n_o r area (toDense f es) harea (sphere_dense_symm dim N R val es hes f) k k' o o' hk hk' ho ho'

/-! ### same-shell entries of the position grid in terms of the direction-grid geometry -/

/-- **C05 `distance_entry` ∘ C03 `distance_value`**: for two directions the direction grid stores as neighbours, the
centre distance of the two cells in shell `k` is `r_k · ev d`, where `d` is the datum `(c_o·c_o', …)` of the two grid
points (`ev` = `arccos(clip(..))·norm`: the great-circle angle). -/
theorem same_shell_distance_voronoi (ev : CosData K → K) (centers : List (V3 K)) (nr : List (List Nat))
    (ed : List (Nat × Nat × CosData K)) (hd : distanceArray centers nr = .ok ed)
    (r area : List K) (harea : area.length = centers.length) (k o o' : Nat) (hk : k < r.length)
    (d : CosData K) (hm : (o, o', d) ∈ ed) :
    ∃ co co', centers[o]? = some co ∧ centers[o']? = some co' ∧ d.dot = dot co co' ∧
      dense (nnOfSel .centerDistances centers.length r area (toDense ev ed)) (k * centers.length + o) (k * centers.length + o')
        = rad r k * ev d := by
  obtain ⟨co, co', h1, h2, h3, _⟩ := C03.distance_value centers nr ed hd o o' d hm
  have hs := C03.nn_in_shape 3 _ nr _ ed hd _ hm
  refine ⟨co, co', h1, h2, h3, ?_⟩
  rw [C05.distance_entry centers.length r area (toDense ev ed) harea k k o o' hk hk hs.1 hs.2,
    if_neg (by omega), if_neg (by omega), if_pos rfl, toDense_stored ev ed (C03.nn_nodup 3 _ nr _ ed hd) o o' d hm]

/-- **C05 `border_entry` ∘ C03 `border_value_partial`**: for two directions the direction grid stores as neighbours,
the face between the two cells in shell `k` is `ev d · (R_k² − R_{k−1}²)/2`, where `d` is the datum of two different
reduced vertices listed by both regions (`ev d` = the arc between them). -/
theorem same_shell_border_voronoi (ev : CosData K → K) (centers nv : List (V3 K)) (nr : List (List Nat))
    (eb : List (Nat × Nat × CosData K)) (hb : borderArray centers nv nr = .ok eb)
    (r area : List K) (harea : area.length = centers.length) (k o o' : Nat) (hk : k < r.length)
    (d : CosData K) (hm : (o, o', d) ∈ eb) :
    ∃ a b va vb, a ≠ b ∧ a ∈ nr.getD o [] ∧ a ∈ nr.getD o' [] ∧ b ∈ nr.getD o [] ∧ b ∈ nr.getD o' [] ∧
      nv[a]? = some va ∧ nv[b]? = some vb ∧ d = cosData va vb ∧
      dense (nnOfSel .borderLen centers.length r area (toDense ev eb)) (k * centers.length + o) (k * centers.length + o')
        = ev d * (Rab r k ^ 2 - Rbe r k ^ 2) / 2 := by
  obtain ⟨a, b, va, vb, h1, h2, h3, h4, h5, h6, h7, h8⟩ := C03.border_value_partial centers nv nr eb hb o o' d hm
  have hs := C03.nn_in_shape 3 _ nr _ eb hb _ hm
  refine ⟨a, b, va, vb, h1, h2, h3, h4, h5, h6, h7, h8, ?_⟩
  rw [C05.border_entry centers.length r area (toDense ev eb) harea k k o o' hk hk hs.1 hs.2,
    if_neg (by omega), if_neg (by omega), if_pos rfl, toDense_stored ev eb (C03.nn_nodup 3 _ nr _ eb hb) o o' d hm]

/-- "and has no other neighbours" within a shell: for a pair of directions the direction grid does NOT store (in
particular `o = o'`), all three position-grid matrices are 0 at the two cells of any one shell. -/
theorem same_shell_unstored_zero {β : Type} (sel : Sel) (f : β → K) (es : List (Nat × Nat × β))
    (n_o : Nat) (r area : List K) (harea : area.length = n_o) (k o o' : Nat) (hk : k < r.length)
    (ho : o < n_o) (ho' : o' < n_o) (hp : (o, o') ∉ pattern es) :
    dense (nnOfSel sel n_o r area (toDense f es)) (k * n_o + o) (k * n_o + o') = 0 := by
  have h0 := toDense_unstored f es o o' hp
  cases sel with
  | adjacency =>
    rw [C05.adjacency_entry n_o r area _ harea k k o o' hk hk ho ho', if_neg (by omega), if_neg (by omega), if_pos rfl, h0]
  | borderLen =>
    rw [C05.border_entry n_o r area _ harea k k o o' hk hk ho ho', if_neg (by omega), if_neg (by omega), if_pos rfl, h0]
    ring
  | centerDistances =>
    rw [C05.distance_entry n_o r area _ harea k k o o' hk hk ho ho', if_neg (by omega), if_neg (by omega), if_pos rfl, h0]
    ring

/-! ### non-vacuity: the regular tetrahedron -/

/-- The tetrahedron's three direction-grid matrices exist (C03's examples); here: its adjacency read as a dense matrix
is the indicator of `i ≠ j`, e.g. entry `(0, 1)` is 1 and entry `(2, 2)` is 0. -/
example : sphereAdj (K := ℚ)
    [(0, 1, true), (1, 0, true), (0, 2, true), (2, 0, true), (0, 3, true), (3, 0, true),
     (1, 2, true), (2, 1, true), (1, 3, true), (3, 1, true), (2, 3, true), (3, 2, true)] 0 1 = 1 ∧
    sphereAdj (K := ℚ)
    [(0, 1, true), (1, 0, true), (0, 2, true), (2, 0, true), (0, 3, true), (3, 0, true),
     (1, 2, true), (2, 1, true), (1, 3, true), (3, 1, true), (2, 3, true), (3, 2, true)] 2 2 = 0 := by
  constructor <;> simp [sphereAdj, toDense, dense, boolK]

/-- The hypotheses of `border_not_flat` on the tetrahedron: its four Voronoi vertices are distinct and have one norm;
`hval`-style conclusion: the stored datum `(-1, 3, 3)` (C03's example) is not flat. -/
example : ([⟨-1, -1, -1⟩, ⟨-1, 1, 1⟩, ⟨1, -1, 1⟩, ⟨1, 1, -1⟩] : List (V3 ℚ)).Nodup ∧
    (∀ v ∈ ([⟨-1, -1, -1⟩, ⟨-1, 1, 1⟩, ⟨1, -1, 1⟩, ⟨1, 1, -1⟩] : List (V3 ℚ)), dot v v = 3) ∧
    ¬ Flat (⟨-1, 3, 3⟩ : CosData ℚ) := by
  refine ⟨by decide, ?_, ?_⟩
  · intro v hv
    simp only [List.mem_cons, List.not_mem_nil, or_false] at hv
    rcases hv with rfl | rfl | rfl | rfl <;> norm_num [dot]
  · rintro ⟨h, _⟩
    norm_num at h

/-- The array hypotheses of `hpat_iff_stored_ne_zero`, `border_nonzero_iff_voronoi`, `distance_nonzero_iff_voronoi`,
`position_neighbours_voronoi` on the tetrahedron over ℚ: the three matrices exist, and every stored datum is `(-1, 3, 3)`
(cosine `-1/3`), so e.g. the evaluation `ev d = d.nsq1 - d.dot` (`= 4`) satisfies `hval`. -/
example :
    adjacencyArray 4 [[1, 2, 3], [0, 2, 3], [0, 1, 3], [0, 1, 2]] =
      .ok [(0, 1, true), (1, 0, true), (0, 2, true), (2, 0, true), (0, 3, true), (3, 0, true),
           (1, 2, true), (2, 1, true), (1, 3, true), (3, 1, true), (2, 3, true), (3, 2, true)] ∧
    borderArray (K := ℚ) [⟨1, 1, 1⟩, ⟨1, -1, -1⟩, ⟨-1, 1, -1⟩, ⟨-1, -1, 1⟩]
      [⟨-1, -1, -1⟩, ⟨-1, 1, 1⟩, ⟨1, -1, 1⟩, ⟨1, 1, -1⟩] [[1, 2, 3], [0, 2, 3], [0, 1, 3], [0, 1, 2]] =
      .ok [(0, 1, ⟨-1, 3, 3⟩), (1, 0, ⟨-1, 3, 3⟩), (0, 2, ⟨-1, 3, 3⟩), (2, 0, ⟨-1, 3, 3⟩),
           (0, 3, ⟨-1, 3, 3⟩), (3, 0, ⟨-1, 3, 3⟩), (1, 2, ⟨-1, 3, 3⟩), (2, 1, ⟨-1, 3, 3⟩),
           (1, 3, ⟨-1, 3, 3⟩), (3, 1, ⟨-1, 3, 3⟩), (2, 3, ⟨-1, 3, 3⟩), (3, 2, ⟨-1, 3, 3⟩)] ∧
    distanceArray (K := ℚ) [⟨1, 1, 1⟩, ⟨1, -1, -1⟩, ⟨-1, 1, -1⟩, ⟨-1, -1, 1⟩]
      [[1, 2, 3], [0, 2, 3], [0, 1, 3], [0, 1, 2]] =
      .ok [(0, 1, ⟨-1, 3, 3⟩), (1, 0, ⟨-1, 3, 3⟩), (0, 2, ⟨-1, 3, 3⟩), (2, 0, ⟨-1, 3, 3⟩),
           (0, 3, ⟨-1, 3, 3⟩), (3, 0, ⟨-1, 3, 3⟩), (1, 2, ⟨-1, 3, 3⟩), (2, 1, ⟨-1, 3, 3⟩),
           (1, 3, ⟨-1, 3, 3⟩), (3, 1, ⟨-1, 3, 3⟩), (2, 3, ⟨-1, 3, 3⟩), (3, 2, ⟨-1, 3, 3⟩)] := by
  refine ⟨by decide +kernel, by decide +kernel, by decide +kernel⟩

end Molgri.Bridge.Sphere
