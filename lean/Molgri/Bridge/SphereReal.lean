/-
Bridge D (2) — the value half of C05's hypothesis over ℝ: stored arcs and angles of the direction grid are non-zero.

`Bridge/Sphere.lean` reduced C05's hypothesis "arcs / angles are non-zero exactly on the adjacent pairs" to "every stored
datum `(a·b, |a|², |b|²)` evaluates to a non-zero number", and proved (in any ordered field) that stored data are not
`Flat` (cosine `< 1`).  Here the evaluation is the real one,

  `dist_on_sphere(a, b) = arccos(clip(â·b̂, -1, 1)) * |a|`         (`utils.py:84-132`)

and `distR d = 0 ↔ Flat d` (`distR_eq_zero_iff`).  Consequences: the angle between two distinct points of one sphere is
non-zero (`angle_ne_zero_of_ne`), stored borders / centre distances are non-zero (`stored_borders_ne_zero`,
`stored_borders_ne_zero_two_shared`, `stored_distances_ne_zero`), and C05's `border_nonzero_iff` /
`distance_nonzero_iff` hold for the matrices C03's model produces with NO hypothesis on patterns or values
(`border_nonzero_iff_real`, `distance_nonzero_iff_real`, `position_neighbours_real`).

Hypotheses that remain, exactly:
* borders:    the reduced vertices lie on one sphere, `dot v v = ρ` for all of them (scipy returns vertices of norm
              `radius = 1` up to rounding; in floating point the norms agree only to ~1 ulp) — or, without any norm
              hypothesis, the two regions share exactly two reduced vertices (`…_two_shared`, the rank assertion of the code
              does the rest);
* distances:  the grid points are pairwise distinct and lie on one sphere;
* areas:      non-zero (scipy's `calculate_areas`, external);
* what is outside every model here: rounding of `arccos` for two distinct points closer than ~1e-8 (the float result may
  be exactly 0.0 although the real angle is not).
-/
import Molgri.Bridge.Sphere
import Mathlib.Analysis.SpecialFunctions.Trigonometric.Inverse

set_option linter.unusedSectionVars false

namespace Molgri.Bridge.SphereReal
open Molgri.Voronoi Molgri.PositionGrid Molgri.Bridge.Sphere Real

/-- `np.clip(x, -1.0, 1.0)` = `minimum(maximum(x, -1), 1)`. -/
noncomputable def clip1 (x : ℝ) : ℝ := min 1 (max (-1) x)

/-- `dist_on_sphere` of two vectors, computed from their datum `(a·b, |a|², |b|²)`: the normalised scalar product is
`a·b / (|a|·|b|)`, the result `arccos(clip(..)) * |a|`. -/
noncomputable def distR (d : CosData ℝ) : ℝ :=
  arccos (clip1 (d.dot / (√d.nsq1 * √d.nsq2))) * √d.nsq1

/-- `np.clip` does not change what `arccos` sees. -/
theorem arccos_clip1 (x : ℝ) : arccos (clip1 x) = arccos x := by
  unfold clip1
  rcases le_total x (-1) with h | h
  · rw [max_eq_left h, min_eq_right (by norm_num), arccos_neg_one, arccos_of_le_neg_one h]
  · rw [max_eq_right h]
    rcases le_total x 1 with h1 | h1
    · rw [min_eq_right h1]
    · rw [min_eq_left h1, arccos_one, arccos_of_one_le h1]

/-- `dist_on_sphere(a, b)` in closed form: the clip is invisible, the value is `arccos(a·b / (|a||b|)) · |a|`; for unit
vectors the great-circle angle `arccos (a·b)`. -/
theorem distR_cosData (a b : V3 ℝ) :
    distR (cosData a b) = arccos (dot a b / (√(dot a a) * √(dot b b))) * √(dot a a) := by
  unfold distR cosData
  rw [arccos_clip1]

theorem distR_unit (a b : V3 ℝ) (ha : dot a a = 1) (hb : dot b b = 1) : distR (cosData a b) = arccos (dot a b) := by
  rw [distR_cosData, ha, hb]
  simp

/-- **`dist_on_sphere` vanishes exactly on flat data** (cosine `≥ 1`), for vectors of positive norm. -/
theorem distR_eq_zero_iff (d : CosData ℝ) (h1 : 0 < d.nsq1) (h2 : 0 < d.nsq2) : distR d = 0 ↔ Flat d := by
  unfold distR Flat
  have hs1 : 0 < √d.nsq1 := Real.sqrt_pos.mpr h1
  have hs2 : 0 < √d.nsq2 := Real.sqrt_pos.mpr h2
  rw [mul_eq_zero, or_iff_left (ne_of_gt hs1), arccos_clip1, arccos_eq_zero, le_div_iff₀ (mul_pos hs1 hs2), one_mul,
    ← Real.sqrt_mul (le_of_lt h1), Real.sqrt_le_iff, pow_two]

/-- The angle between two non-zero vectors vanishes iff they are parallel and point the same way. -/
theorem angle_eq_zero_iff (a b : V3 ℝ) (ha : a ≠ ⟨0, 0, 0⟩) (hb : b ≠ ⟨0, 0, 0⟩) :
    distR (cosData a b) = 0 ↔ 0 ≤ dot a b ∧ cross a b = ⟨0, 0, 0⟩ := by
  have pos : ∀ v : V3 ℝ, v ≠ ⟨0, 0, 0⟩ → 0 < dot v v := fun v hv =>
    lt_of_le_of_ne (dot_self_nonneg v) (fun h => hv (dot_self_eq_zero h.symm))
  rw [distR_eq_zero_iff _ (pos a ha) (pos b hb), flat_cosData_iff]

/-- **The angle between two distinct points of one sphere is non-zero** (in particular: between two distinct unit
vectors, `dot a a = dot b b = 1`). -/
theorem angle_ne_zero_of_ne (a b : V3 ℝ) (hn : dot a a = dot b b) (hne : a ≠ b) : distR (cosData a b) ≠ 0 := by
  have hpos : 0 < dot a a := by
    rcases lt_or_eq_of_le (dot_self_nonneg a) with h | h
    · exact h
    · exfalso
      exact hne ((dot_self_eq_zero h.symm).trans (dot_self_eq_zero (hn ▸ h.symm)).symm)
  intro h0
  have hf := (distR_eq_zero_iff (cosData a b) hpos (show 0 < dot b b from hn ▸ hpos)).mp h0
  exact hne (eq_of_flat a b hn hf.1 hf.2)

theorem angle_ne_zero_of_unit (a b : V3 ℝ) (ha : dot a a = 1) (hb : dot b b = 1) (hne : a ≠ b) :
    distR (cosData a b) ≠ 0 :=
  angle_ne_zero_of_ne a b (ha.trans hb.symm) hne

/-! ### stored values of the direction-grid matrices are non-zero -/

/-- Stored borders are non-zero when the reduced vertices are distinct points of one sphere. -/
theorem stored_borders_ne_zero (centers nv : List (V3 ℝ)) (nr : List (List Nat)) (eb : List (Nat × Nat × CosData ℝ))
    (hb : borderArray centers nv nr = .ok eb) (hnd : nv.Nodup) (ρ : ℝ) (hρ : ∀ v ∈ nv, dot v v = ρ) :
    ∀ e ∈ eb, distR e.2.2 ≠ 0 := by
  intro e he
  obtain ⟨hf, h1, h2⟩ := border_not_flat centers nv nr eb hb hnd ρ hρ e he
  exact fun h0 => hf ((distR_eq_zero_iff e.2.2 h1 h2).mp h0)

/-- … in particular for the vertices and regions `get_reduced_vertices_regions` returns (whatever the closeness test
merged: two different reduced indices are two different points, `reduced_vertices_distinct`); the only hypothesis left
is that scipy's vertices lie on one sphere. -/
theorem stored_borders_ne_zero_of_reduce (close : V3 ℝ → V3 ℝ → Bool) (verts : List (V3 ℝ)) (regions : List (List Nat))
    (centers nv : List (V3 ℝ)) (nr : List (List Nat)) (eb : List (Nat × Nat × CosData ℝ))
    (hred : reduce close verts regions = .ok (nv, nr)) (hb : borderArray centers nv nr = .ok eb)
    (ρ : ℝ) (hρ : ∀ v ∈ verts, dot v v = ρ) : ∀ e ∈ eb, distR e.2.2 ≠ 0 := by
  obtain ⟨_, hnd, hmem, _⟩ := C03.reduce_spec close verts nv regions nr hred
  exact stored_borders_ne_zero centers nv nr eb hb hnd ρ (fun v hv => hρ v ((hmem v).mp hv))

/-- Without any hypothesis on norms: a stored border between two regions that share exactly two reduced vertices is
non-zero (the rank assertion of `_calculate_borders` excludes parallel vertices). -/
theorem stored_borders_ne_zero_two_shared (centers nv : List (V3 ℝ)) (nr : List (List Nat))
    (eb : List (Nat × Nat × CosData ℝ)) (hb : borderArray centers nv nr = .ok eb) (i j : Nat) (d : CosData ℝ)
    (hm : (i, j, d) ∈ eb) (h2 : (sharedIdx (nr.getD i []) (nr.getD j [])).length = 2) : distR d ≠ 0 := by
  obtain ⟨hf, h1, h2'⟩ := border_two_shared_not_flat centers nv nr eb hb i j d hm h2
  exact fun h0 => hf ((distR_eq_zero_iff d h1 h2').mp h0)

/-- Stored centre distances are non-zero when the grid points are distinct points of one sphere. -/
theorem stored_distances_ne_zero (centers : List (V3 ℝ)) (nr : List (List Nat)) (ed : List (Nat × Nat × CosData ℝ))
    (hd : distanceArray centers nr = .ok ed) (hnd : centers.Nodup) (ρ : ℝ) (hρ : ∀ c ∈ centers, dot c c = ρ) :
    ∀ e ∈ ed, distR e.2.2 ≠ 0 := by
  intro e he
  obtain ⟨hf, h1, h2⟩ := distance_not_flat centers nr ed hd hnd ρ hρ e he
  exact fun h0 => hf ((distR_eq_zero_iff e.2.2 h1 h2).mp h0)

/-! ### C05's pattern theorems over ℝ with the direction-grid hypotheses discharged -/

/-- **C05 `border_nonzero_iff`, `hpat` discharged**: for the border matrix `get_cell_borders().toarray()` C03's model
produces (read with the real `dist_on_sphere`), a face of the position grid is non-zero exactly where the adjacency
is.  Remaining: `ValidRadii` (C16), areas non-zero (scipy), reduced vertices distinct points (`reduce_spec`) on one
sphere. -/
theorem border_nonzero_iff_real (centers nv : List (V3 ℝ)) (nr : List (List Nat))
    (ea : List (Nat × Nat × Bool)) (eb : List (Nat × Nat × CosData ℝ))
    (ha : adjacencyArray centers.length nr = .ok ea) (hb : borderArray centers nv nr = .ok eb)
    (hnd : nv.Nodup) (ρ : ℝ) (hρ : ∀ v ∈ nv, dot v v = ρ)
    (r area : List ℝ) (h : ValidRadii r) (harea : area.length = centers.length)
    (hpos : ∀ o, o < centers.length → area.getD o 0 ≠ 0)
    (k k' o o' : Nat) (hk : k < r.length) (hk' : k' < r.length) (ho : o < centers.length) (ho' : o' < centers.length) :
    dense (nnOfSel .borderLen centers.length r area (toDense distR eb)) (k * centers.length + o) (k' * centers.length + o') ≠ 0 ↔
      dense (nnOfSel .adjacency centers.length r area (sphereAdj ea)) (k * centers.length + o) (k' * centers.length + o') ≠ 0 :=
  border_nonzero_iff_voronoi distR centers nv nr ea eb ha hb r area h harea hpos
    (stored_borders_ne_zero centers nv nr eb hb hnd ρ hρ) k k' o o' hk hk' ho ho'

/-- **C05 `distance_nonzero_iff`, `hpat` discharged.**  Remaining: `ValidRadii`, grid points distinct on one sphere. -/
theorem distance_nonzero_iff_real (centers : List (V3 ℝ)) (nr : List (List Nat))
    (ea : List (Nat × Nat × Bool)) (ed : List (Nat × Nat × CosData ℝ))
    (ha : adjacencyArray centers.length nr = .ok ea) (hd : distanceArray centers nr = .ok ed)
    (hnd : centers.Nodup) (ρ : ℝ) (hρ : ∀ c ∈ centers, dot c c = ρ)
    (r area : List ℝ) (h : ValidRadii r) (harea : area.length = centers.length)
    (k k' o o' : Nat) (hk : k < r.length) (hk' : k' < r.length) (ho : o < centers.length) (ho' : o' < centers.length) :
    dense (nnOfSel .centerDistances centers.length r area (toDense distR ed)) (k * centers.length + o) (k' * centers.length + o') ≠ 0 ↔
      dense (nnOfSel .adjacency centers.length r area (sphereAdj ea)) (k * centers.length + o) (k' * centers.length + o') ≠ 0 :=
  distance_nonzero_iff_voronoi distR centers nr ea ed ha hd r area h harea
    (stored_distances_ne_zero centers nr ed hd hnd ρ hρ) k k' o o' hk hk' ho ho'

/-- **"same-shell neighbours exactly when adjacent on the sphere … and no other neighbours", all three matrices, one
chain C03 → C05**: on a unit-sphere direction grid (distinct points, distinct reduced vertices, all of norm² `ρ`) with
non-zero cell areas and a valid radial grid, the border and the centre-distance entry of two cells are non-zero iff the
cells are on one ray in consecutive shells or in one shell with directions whose regions share ≥ 2 reduced vertices. -/
theorem position_neighbours_real (centers nv : List (V3 ℝ)) (nr : List (List Nat))
    (ea : List (Nat × Nat × Bool)) (eb ed : List (Nat × Nat × CosData ℝ))
    (ha : adjacencyArray centers.length nr = .ok ea) (hb : borderArray centers nv nr = .ok eb)
    (hd : distanceArray centers nr = .ok ed)
    (hndv : nv.Nodup) (hndc : centers.Nodup) (ρ : ℝ) (hρv : ∀ v ∈ nv, dot v v = ρ) (hρc : ∀ c ∈ centers, dot c c = ρ)
    (r area : List ℝ) (h : ValidRadii r) (harea : area.length = centers.length)
    (hpos : ∀ o, o < centers.length → area.getD o 0 ≠ 0)
    (k k' o o' : Nat) (hk : k < r.length) (hk' : k' < r.length) (ho : o < centers.length) (ho' : o' < centers.length) :
    let nb := (o = o' ∧ (k' = k + 1 ∨ k = k' + 1)) ∨
      (k = k' ∧ o ≠ o' ∧ o < nr.length ∧ o' < nr.length ∧ 2 ≤ (sharedIdx (nr.getD o []) (nr.getD o' [])).length)
    (dense (nnOfSel .borderLen centers.length r area (toDense distR eb)) (k * centers.length + o) (k' * centers.length + o') ≠ 0 ↔ nb) ∧
    (dense (nnOfSel .centerDistances centers.length r area (toDense distR ed)) (k * centers.length + o) (k' * centers.length + o') ≠ 0 ↔ nb) :=
  position_neighbours_voronoi distR centers nv nr ea eb ed ha hb hd r area h harea hpos
    (stored_borders_ne_zero centers nv nr eb hb hndv ρ hρv) (stored_distances_ne_zero centers nr ed hd hndc ρ hρc)
    k k' o o' hk hk' ho ho'

/-! ### non-vacuity -/

/-- Two distinct unit vectors: the hypotheses of `angle_ne_zero_of_unit`; their angle is `π/2`. -/
example : dot (⟨1, 0, 0⟩ : V3 ℝ) ⟨1, 0, 0⟩ = 1 ∧ dot (⟨0, 1, 0⟩ : V3 ℝ) ⟨0, 1, 0⟩ = 1 ∧
    (⟨1, 0, 0⟩ : V3 ℝ) ≠ ⟨0, 1, 0⟩ ∧ distR (cosData (⟨1, 0, 0⟩ : V3 ℝ) ⟨0, 1, 0⟩) = π / 2 := by
  refine ⟨by norm_num [dot], by norm_num [dot], ?_, ?_⟩
  · intro h
    have := congrArg V3.x h
    norm_num at this
  · simp [distR, cosData, dot, clip1]

/-- The hypotheses of `border_nonzero_iff_real`, `distance_nonzero_iff_real`, `position_neighbours_real` hold together
on the regular tetrahedron over ℝ (generators `(±1,±1,±1)` with an even number of minus signs, Voronoi vertices their
negatives, all of norm² 3): the three arrays exist, vertices and centres are distinct points of one sphere.  (Areas
`[π, π, π, π]` and the radial grid `[1, 5/2, 3]` — C05's example — complete the instance.) -/
example :
    let centers : List (V3 ℝ) := [⟨1, 1, 1⟩, ⟨1, -1, -1⟩, ⟨-1, 1, -1⟩, ⟨-1, -1, 1⟩]
    let nv : List (V3 ℝ) := [⟨-1, -1, -1⟩, ⟨-1, 1, 1⟩, ⟨1, -1, 1⟩, ⟨1, 1, -1⟩]
    let nr : List (List Nat) := [[1, 2, 3], [0, 2, 3], [0, 1, 3], [0, 1, 2]]
    (∃ ea, adjacencyArray centers.length nr = .ok ea) ∧ (∃ eb, borderArray centers nv nr = .ok eb) ∧
    (∃ ed, distanceArray centers nr = .ok ed) ∧ nv.Nodup ∧ centers.Nodup ∧
    (∀ v ∈ nv, dot v v = 3) ∧ (∀ c ∈ centers, dot c c = 3) := by
  intro centers nv nr
  have hp : adjPairs 3 nr = [(0, 1), (0, 2), (0, 3), (1, 2), (1, 3), (2, 3)] := by decide +kernel
  have hadj : adjacencyArray 4 nr =
      .ok [(0, 1, true), (1, 0, true), (0, 2, true), (2, 0, true), (0, 3, true), (3, 0, true),
           (1, 2, true), (2, 1, true), (1, 3, true), (3, 1, true), (2, 3, true), (3, 2, true)] := by decide +kernel
  refine ⟨⟨_, hadj⟩, ?_, ?_, ?_, ?_, ?_, ?_⟩
  · refine ⟨[(0, 1, ⟨-1, 3, 3⟩), (1, 0, ⟨-1, 3, 3⟩), (0, 2, ⟨-1, 3, 3⟩), (2, 0, ⟨-1, 3, 3⟩),
           (0, 3, ⟨-1, 3, 3⟩), (3, 0, ⟨-1, 3, 3⟩), (1, 2, ⟨-1, 3, 3⟩), (2, 1, ⟨-1, 3, 3⟩),
           (1, 3, ⟨-1, 3, 3⟩), (3, 1, ⟨-1, 3, 3⟩), (2, 3, ⟨-1, 3, 3⟩), (3, 2, ⟨-1, 3, 3⟩)], ?_⟩
    simp only [borderArray, nnArray, nnEntries, hp, mapE, blockE, borderVal]
    norm_num [nr, nv, centers, sharedIdx, dedupFirst, mapE, getVertex, rankIs2, cross, det3, dot, cosData, block, cooShape]
  · refine ⟨[(0, 1, ⟨-1, 3, 3⟩), (1, 0, ⟨-1, 3, 3⟩), (0, 2, ⟨-1, 3, 3⟩), (2, 0, ⟨-1, 3, 3⟩),
           (0, 3, ⟨-1, 3, 3⟩), (3, 0, ⟨-1, 3, 3⟩), (1, 2, ⟨-1, 3, 3⟩), (2, 1, ⟨-1, 3, 3⟩),
           (1, 3, ⟨-1, 3, 3⟩), (3, 1, ⟨-1, 3, 3⟩), (2, 3, ⟨-1, 3, 3⟩), (3, 2, ⟨-1, 3, 3⟩)], ?_⟩
    simp only [distanceArray, nnArray, nnEntries, hp, mapE, blockE, centerVal]
    norm_num [centers, dot, cosData, block, cooShape]
  · simp only [nv, List.nodup_cons, List.mem_cons, V3.mk.injEq, List.not_mem_nil, List.nodup_nil]
    norm_num
  · simp only [centers, List.nodup_cons, List.mem_cons, V3.mk.injEq, List.not_mem_nil, List.nodup_nil]
    norm_num
  · intro v hv
    simp only [nv, List.mem_cons, List.not_mem_nil, or_false] at hv
    rcases hv with rfl | rfl | rfl | rfl <;> norm_num [dot]
  · intro v hv
    simp only [centers, List.mem_cons, List.not_mem_nil, or_false] at hv
    rcases hv with rfl | rfl | rfl | rfl <;> norm_num [dot]

end Molgri.Bridge.SphereReal
