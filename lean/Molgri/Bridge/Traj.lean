/-
Bridge E (2, 3) — grid rows (C09) → pseudotrajectory (C10) → assignment (C11): one chain.

The three properties were built on three models:
* C09  `Molgri.Order`   the grid array (`fullGrid`, rows = lists of 7 numbers) and its decomposition (`decompose`);
* C10  `Molgri.Rigid`   the generator (`generate`, `getPt`, `ptWriter`) fed with typed rows `Row`;
* C11  `Molgri.Assign`  `assignFrame` fed with a `Grid` (its `from_full_array_to_o_b_t` input), a `RefMol` and a `Frame`.

This file supplies the glue the code has between them and proves the end-to-end statement.

Glue (each definition mirrors one line of the code, none of it is new behaviour):
* `rowsOf`           `se3_coo[:3]`, `se3_coo[3:]` for every row of the array (pts.py, loop of `generate_pseudotrajectory`);
* `gridOf`           `self.o_array, self.b_array, self.t_array = from_full_array_to_o_b_t(self.full_array)`;
* `secondMolecule`   `_determine_second_molecule` (the last `n₂` atoms) seen through the transformation
                     `translate(-first_molecule.center_of_mass())` added in `AssignmentTool.__init__`;
* `frameOf`          the per-frame inputs of C11's model: those positions, `principal_axes()` (external),
                     `np.linalg.norm(center_of_mass)` (the SAME external `norm` C09's `decompose` takes);
* `refOf`            `self.reference_universe = second_molecule` (masses, positions, external principal axes).
-/
import Molgri.Bridge.Place
import Molgri.Bridge.Rows

namespace Molgri.Bridge.Traj
open Molgri Molgri.Bridge.Place

/-! ## glue -/

def vecR (l : List Rat) : Rigid.V3 Rat := ⟨l.getD 0 0, l.getD 1 0, l.getD 2 0⟩
def quatR (l : List Rat) : Rigid.Quat Rat := ⟨l.getD 0 0, l.getD 1 0, l.getD 2 0, l.getD 3 0⟩

/-- the typed row of a 7-number row (total version; `rowOf` is the guarded one). -/
def rowD (l : List Rat) : Rigid.Row Rat := ⟨vecR (l.take 3), quatR (l.drop 3)⟩

/-- `position = se3_coo[:3]; orientation = se3_coo[3:]`; a row that is not 7 numbers wide makes `from_quat` /
`translate` raise `ValueError`. -/
def rowOf (l : List Rat) : Except String (Rigid.Row Rat) :=
  if l.length = 7 then .ok (rowD l) else .error "ValueError"

/-- the rows of the whole array, in array order. -/
def rowsOf : List (List Rat) → Except String (List (Rigid.Row Rat))
  | [] => .ok []
  | l :: ls =>
    match rowOf l with
    | .error e => .error e
    | .ok r =>
      match rowsOf ls with
      | .error e => .error e
      | .ok rs => .ok (r :: rs)

def vecA (l : List Rat) : Assign.V3 := v3 (vecR l)
def quatA (l : List Rat) : Assign.Q4 := q4 (quatR l)

/-- C11's grid input built from the output of C09's `decompose` (= `from_full_array_to_o_b_t`): directions, rotations,
radii; `oNorm` (norms of the direction rows, used by the cosine metric only) stays an external parameter. -/
def gridOf (dec : List (List Rat) × List (List Rat) × List Rat) (oNorm : List Rat) : Assign.Grid :=
  ⟨dec.2.2, dec.1.map vecA, oNorm, dec.2.1.map quatA⟩

def toList (v : Assign.V3) : List Rat := [v.x, v.y, v.z]

/-- positions of molecule 2 in one frame as `AssignmentTool` sees them: the atoms after the first `|masses1|`, shifted by
minus the centre of mass of the first molecule. -/
def secondMolecule (masses1 : List Rat) (pos : List (Rigid.V3 Rat)) : List Assign.V3 :=
  ((pos.drop masses1.length).map v3).map
    (fun p => Assign.V3.sub p (Assign.centerOfMass masses1 ((pos.take masses1.length).map v3)))

/-- C11's per-frame input.  `norm` is `np.linalg.norm`, `pa` the frame's `principal_axes()`, `nu` the norm of the
normalised centre of mass (cosine metric only). -/
def frameOf (norm : List Rat → Rat) (masses1 masses2 : List Rat) (pos : List (Rigid.V3 Rat)) (pa : Assign.M3) (nu : Rat) :
    Assign.Frame :=
  ⟨secondMolecule masses1 pos, pa,
   norm (toList (Assign.centerOfMass masses2 (secondMolecule masses1 pos))), nu⟩

/-- C11's reference molecule: the second molecule as handed to `Pseudotrajectory` and to `AssignmentTool`. -/
def refOf (mol2 : List (Rigid.Atom Rat)) (pa : Assign.M3) : Assign.RefMol :=
  ⟨mol2.map (·.mass), mol2.map (fun a => v3 a.pos), pa⟩

/-! ## rows -/

theorem rowsOf_ok (arr : List (List Rat)) (h : ∀ l ∈ arr, l.length = 7) : rowsOf arr = .ok (arr.map rowD) := by
  induction arr with
  | nil => rfl
  | cons l ls ih =>
    have hl : l.length = 7 := h l (by simp)
    have := ih (fun l' h' => h l' (by simp [h']))
    simp [rowsOf, rowOf, hl, this]

/-- a malformed row anywhere makes the conversion fail (never a silent default). -/
theorem rowsOf_error (arr : List (List Rat)) (h : ∃ l ∈ arr, l.length ≠ 7) : rowsOf arr = .error "ValueError" := by
  induction arr with
  | nil => simp at h
  | cons l ls ih =>
    by_cases hl : l.length = 7
    · have : ∃ l ∈ ls, l.length ≠ 7 := by
        obtain ⟨l', hm, hne⟩ := h
        rcases List.mem_cons.mp hm with rfl | hm'
        · exact absurd hl hne
        · exact ⟨l', hm', hne⟩
      simp [rowsOf, rowOf, hl, ih this]
    · simp [rowsOf, rowOf, hl]

theorem rowD_append (p q : List Rat) (hp : p.length = 3) : rowD (p ++ q) = ⟨vecR p, quatR q⟩ := by
  have h1 : (p ++ q).take 3 = p := by rw [← hp]; exact List.take_left
  have h2 : (p ++ q).drop 3 = q := by rw [← hp]; exact List.drop_left
  simp only [rowD, h1, h2]

theorem vecR_scale (d : List Rat) (r : Rat) : v3 (vecR (d.map (· * r))) = Assign.V3.smul r (vecA d) := by
  simp only [vecA, v3, vecR, Assign.V3.smul, Assign.V3.mk.injEq, List.getD_eq_getElem?_getD, List.getElem?_map]
  refine ⟨?_, ?_, ?_⟩
  · cases d[0]? <;> simp [mul_comm]
  · cases d[1]? <;> simp [mul_comm]
  · cases d[2]? <;> simp [mul_comm]

theorem toList_vecR (p : List Rat) (hp : p.length = 3) : toList (v3 (vecR p)) = p := by
  match p, hp with
  | [a, b, c], _ => rfl

theorem normSq_vecA (d : List Rat) (hd : d.length = 3) : Assign.V3.normSq (vecA d) = Order.sumsq d := by
  match d, hd with
  | [a, b, c], _ => simp [vecA, v3, vecR, Assign.V3.normSq, Assign.V3.dot, Order.sumsq, add_assoc]

theorem normSq_quatA (q : List Rat) (hq : q.length = 4) : Assign.Q4.normSq (quatA q) = Order.sumsq q := by
  match q, hq with
  | [a, b, c, d], _ => simp [quatA, q4, quatR, Assign.Q4.normSq, Assign.Q4.dot, Order.sumsq, add_assoc]

theorem vecA_injective (a b : List Rat) (ha : a.length = 3) (hb : b.length = 3) (h : vecA a = vecA b) : a = b := by
  match a, ha, b, hb with
  | [a0, a1, a2], _, [b0, b1, b2], _ =>
    simp only [vecA, v3, vecR, Assign.V3.mk.injEq] at h
    simp at h
    simp [h]

theorem quatA_injective (a b : List Rat) (ha : a.length = 4) (hb : b.length = 4) (h : quatA a = quatA b) : a = b := by
  match a, ha, b, hb with
  | [a0, a1, a2, a3], _, [b0, b1, b2, b3], _ =>
    simp only [quatA, q4, quatR, Assign.Q4.mk.injEq] at h
    simp at h
    simp [h]

theorem quatA_neg (b : List Rat) (hb : b.length = 4) : Assign.Q4.neg (quatA b) = quatA (b.map (- ·)) := by
  match b, hb with
  | [b0, b1, b2, b3], _ => simp [quatA, q4, quatR, Assign.Q4.neg]

/-! ## one frame of the pseudotrajectory is a rigid image of the reference molecule (C10 → C11) -/

/-- translation of the rigid motion that takes the reference molecule to what `AssignmentTool` sees in the frame of row
`r`: `T = c₂ − R(q)c₂ + t − c₁` (`c₁`, `c₂` the centres of mass of the two molecules handed to `Pseudotrajectory`). -/
def frameShift (mol1 mol2 : List (Rigid.Atom Rat)) (r : Rigid.Row Rat) : Assign.V3 :=
  Assign.V3.sub (shiftOf (Rigid.com mol2) r) (v3 (Rigid.com mol1))

theorem rigid_sub (R : Assign.M3) (S c p : Assign.V3) :
    Assign.rigid R (Assign.V3.sub S c) p = Assign.V3.sub (Assign.rigid R S p) c := by
  simp only [Assign.rigid, Assign.V3.add, Assign.V3.sub, Assign.V3.mk.injEq]
  refine ⟨?_, ?_, ?_⟩ <;> ring

/-- **C10's frame is C11's `hfpos`.**  What `AssignmentTool` sees of molecule 2 in the frame `mol1 ++ place mol2 r`
(C10's `frame_spec`) is the image of the reference positions under C11's `rigid (rotMat q) T` — for EVERY pair of
molecules and EVERY row. -/
theorem secondMolecule_frame (mol1 mol2 : List (Rigid.Atom Rat)) (r : Rigid.Row Rat) (pa : Assign.M3) :
    secondMolecule (mol1.map (·.mass)) ((mol1 ++ Rigid.place mol2 r).map (·.pos))
      = (refOf mol2 pa).pos.map (Assign.rigid (Assign.rotMat (q4 r.q)) (frameShift mol1 mol2 r)) := by
  unfold secondMolecule refOf
  have h1 : ((mol1 ++ Rigid.place mol2 r).map (·.pos)).take (mol1.map (·.mass)).length = mol1.map (·.pos) := by
    rw [List.map_append]; exact List.take_left' (by simp)
  have h2 : ((mol1 ++ Rigid.place mol2 r).map (·.pos)).drop (mol1.map (·.mass)).length = (Rigid.place mol2 r).map (·.pos) := by
    rw [List.map_append]; exact List.drop_left' (by simp)
  have h3 : (mol1.map (·.pos)).map v3 = mol1.map fun a => v3 a.pos := by simp [List.map_map, Function.comp_def]
  have h4 : ((Rigid.place mol2 r).map (·.pos)).map v3 = (Rigid.place mol2 r).map fun a => v3 a.pos := by
    simp [List.map_map, Function.comp_def]
  rw [h1, h2, h3, h4, ← com_eq, (place_eq_rigid mol2 r).1, List.map_map]
  apply List.map_congr_left
  intro p _
  simp only [Function.comp, frameShift, rigid_sub]

/-- **C10's `com_placed` is C11's `hcom`.**  The image of the reference centre of mass under that rigid motion is
`c₂ + t − c₁`; when the two molecules share their centre of mass (both centred by the reader) it is the row's position. -/
theorem frame_com (mol1 mol2 : List (Rigid.Atom Rat)) (r : Rigid.Row Rat) (pa : Assign.M3) :
    Assign.rigid (Assign.rotMat (q4 r.q)) (frameShift mol1 mol2 r)
        (Assign.centerOfMass (refOf mol2 pa).masses (refOf mol2 pa).pos)
      = Assign.V3.sub (v3 ((Rigid.com mol2).add r.t)) (v3 (Rigid.com mol1)) := by
  simp only [refOf]
  rw [← com_eq, frameShift, rigid_sub, rigid_com]

theorem frame_com_centred (mol1 mol2 : List (Rigid.Atom Rat)) (r : Rigid.Row Rat) (pa : Assign.M3)
    (hcen : Rigid.com mol2 = Rigid.com mol1) :
    Assign.rigid (Assign.rotMat (q4 r.q)) (frameShift mol1 mol2 r)
        (Assign.centerOfMass (refOf mol2 pa).masses (refOf mol2 pa).pos) = v3 r.t := by
  rw [frame_com, hcen]
  simp only [v3, Rigid.V3.add, Assign.V3.sub, Assign.V3.mk.injEq]
  refine ⟨?_, ?_, ?_⟩ <;> ring

/-! ## C11's round trip with the radius anywhere in its shell -/

/-- **`pt_roundtrip`, strengthened.**  C11's `pt_roundtrip` needs the frame's distance to be EXACTLY the grid radius
`g.t[i]`.  The radii `AssignmentTool` works with are the rounded ones (`np.round(·, 8)` in `from_full_array_to_o_b_t`,
C09), the pseudotrajectory is generated from the unrounded ones, so the chain needs the statement for a centre of mass at
`r · o_j` with any `r > 0` that the radial rule sends to shell `i`.  (`r = g.t[i]` gives back `pt_roundtrip`.) -/
theorem roundtrip_in_shell (thr : Rat) (hthr : 0 ≤ thr) (g : Assign.Grid) (m : Assign.RefMol) (refDir : Assign.I3)
    (i j b : Nat) (hj : j < g.o.length) (hb : b < g.b.length)
    (ho : g.o.Nodup)
    (hbu : ∀ q ∈ g.b, Assign.Q4.normSq q = 1)
    (hbne : ∀ (a c : Nat) (ha : a < g.b.length) (hc : c < g.b.length), a ≠ c →
      g.b[a] ≠ g.b[c] ∧ g.b[a] ≠ Assign.Q4.neg g.b[c])
    (hlen : m.masses.length = m.pos.length) (hM : m.masses.sum ≠ 0) (hdetA : Assign.M3.det m.pa ≠ 0)
    (href : Assign.refDirections thr m = .ok refDir)
    (T : Assign.V3) (s : Assign.I3) (hs : Assign.EvenFlip s) (f : Assign.Frame)
    (hfpos : f.pos = m.pos.map (Assign.rigid (Assign.rotMat g.b[b]) T))
    (r : Rat) (hr : 0 < r) (outl : Bool) (hshell : Assign.tAssign g.t r outl = .ok (some i))
    (hcom : Assign.rigid (Assign.rotMat g.b[b]) T (Assign.centerOfMass m.masses m.pos) = Assign.V3.smul r g.o[j])
    (hd : f.d = r)
    (hpa : f.pa = Assign.flipRows s (Assign.M3.mul m.pa (Assign.M3.transpose (Assign.rotMat g.b[b])))) :
    Assign.assignFrame thr g m refDir outl true f
      = .ok ⟨some i, j, b, Assign.flip s refDir, some ((i * g.o.length + j) * g.b.length + b)⟩ := by
  have hqb : Assign.Q4.normSq g.b[b] ≠ 0 := by rw [hbu _ (List.getElem_mem hb)]; exact one_ne_zero
  have hR := Assign.rotMat_orthogonal g.b[b] hqb
  obtain ⟨hdirs, hP⟩ := Assign.sign_fix_recovers thr hthr m refDir hlen hM hdetA href (Assign.rotMat g.b[b]) hR T s hs
  have hcomf : Assign.centerOfMass m.masses f.pos = Assign.V3.smul r g.o[j] := by
    rw [hfpos, Assign.centerOfMass_rigid _ _ _ _ hlen hM, hcom]
  have htA : Assign.tAssign g.t f.d outl = .ok (some i) := by rw [hd]; exact hshell
  have hoA : Assign.oAssign g.o (Assign.normalise (Assign.centerOfMass m.masses f.pos) f.d) = j := by
    rw [hcomf, hd, Assign.normalise_smul _ (ne_of_gt hr), Assign.oAssign_self g.o ho j hj]
  have hbA : Assign.bAssign g.b (Assign.rotMat g.b[b]) = .ok b := Assign.bAssign_self g.b hbu hbne b hb
  rw [← hfpos, ← hpa] at hdirs
  rw [← hpa] at hP
  unfold Assign.assignFrame
  simp only [htA, hoA, hdirs, hP, hbA, if_true, bind, Except.bind, pure, Except.pure, Assign.compose, Option.map]

/-- the same with the grid and the frame given by their components (what the chain below instantiates). -/
theorem roundtrip_lists (thr : Rat) (hthr : 0 ≤ thr) (Tg : List Rat) (O : List Assign.V3) (B : List Assign.Q4)
    (oNorm : List Rat) (m : Assign.RefMol) (refDir : Assign.I3)
    (i j b : Nat) (hj : j < O.length) (hb : b < B.length)
    (ho : O.Nodup)
    (hbu : ∀ q ∈ B, Assign.Q4.normSq q = 1)
    (hbne : ∀ (a c : Nat) (ha : a < B.length) (hc : c < B.length), a ≠ c → B[a] ≠ B[c] ∧ B[a] ≠ Assign.Q4.neg B[c])
    (hlen : m.masses.length = m.pos.length) (hM : m.masses.sum ≠ 0) (hdetA : Assign.M3.det m.pa ≠ 0)
    (href : Assign.refDirections thr m = .ok refDir)
    (T : Assign.V3) (s : Assign.I3) (hs : Assign.EvenFlip s) (fpos : List Assign.V3) (fpa : Assign.M3) (fd fnu : Rat)
    (hfpos : fpos = m.pos.map (Assign.rigid (Assign.rotMat B[b]) T))
    (r : Rat) (hr : 0 < r) (outl : Bool) (hshell : Assign.tAssign Tg r outl = .ok (some i))
    (hcom : Assign.rigid (Assign.rotMat B[b]) T (Assign.centerOfMass m.masses m.pos) = Assign.V3.smul r O[j])
    (hd : fd = r)
    (hpa : fpa = Assign.flipRows s (Assign.M3.mul m.pa (Assign.M3.transpose (Assign.rotMat B[b])))) :
    Assign.assignFrame thr ⟨Tg, O, oNorm, B⟩ m refDir outl true ⟨fpos, fpa, fd, fnu⟩
      = .ok ⟨some i, j, b, Assign.flip s refDir, some ((i * O.length + j) * B.length + b)⟩ :=
  roundtrip_in_shell thr hthr ⟨Tg, O, oNorm, B⟩ m refDir i j b hj hb ho hbu hbne hlen hM hdetA href T s hs
    ⟨fpos, fpa, fd, fnu⟩ hfpos r hr outl hshell hcom hd hpa

/-! ## rounding the radii does not move a radius out of its own shell -/

/-- including outliers never changes an assignment that was not NaN. -/
theorem tAssign_any_of_false (t : List Rat) (d : Rat) (i : Nat) (outl : Bool)
    (h : Assign.tAssign t d false = .ok (some i)) : Assign.tAssign t d outl = .ok (some i) := by
  cases outl with
  | false => exact h
  | true =>
    cases t with
    | nil => simp [Assign.tAssign, throw, throwThe, MonadExceptOf.throw] at h
    | cons a rest =>
      have hk : Assign.argminIdx ((a :: rest).map fun r => Assign.absR (r - d)) = i := by
        simp only [Assign.tAssign, Bool.false_eq_true, if_false] at h
        split at h
        · split at h
          · simp [pure, Except.pure] at h
          · simpa [pure, Except.pure] using h
        · simp [throw, throwThe, MonadExceptOf.throw] at h
      rw [Assign.tAssign_true_eq _ (by simp), hk]

/-- If `rnd` moves a number by at most `ε` and the radii are more than `4ε` apart, the rounded radii are still strictly
increasing and every unrounded radius lies in its own shell of the rounded grid — below the outer bound in particular
(so with or without outliers).
(`2ε` suffices for the nearest-radius part; the outer bound `t_last + (t_last − t_prev)/2` of the rounded grid needs `4ε`
for an arbitrary `rnd`.) -/
theorem tAssign_rounded (rnd : Rat → Rat) (ε : Rat) (hrnd : ∀ x, |rnd x - x| ≤ ε) (radii : List Rat)
    (hgap : radii.Pairwise (fun a b => a + 4 * ε < b)) (hn : 2 ≤ radii.length) :
    (radii.map rnd).Pairwise (· < ·) ∧
    ∀ (outl : Bool) (i : Nat) (hi : i < radii.length), Assign.tAssign (radii.map rnd) radii[i] outl = .ok (some i) := by
  have hε : 0 ≤ ε := le_trans (abs_nonneg _) (hrnd 0)
  have hlo : ∀ x, x - ε ≤ rnd x := fun x => by have := (abs_le.mp (hrnd x)).1; linarith
  have hhi : ∀ x, rnd x ≤ x + ε := fun x => by have := (abs_le.mp (hrnd x)).2; linarith
  have hs : (radii.map rnd).Pairwise (· < ·) := by
    rw [List.pairwise_map]
    exact hgap.imp (fun {a b} h => by have := hhi a; have := hlo b; linarith)
  refine ⟨hs, ?_⟩
  intro outl i hi
  apply tAssign_any_of_false _ _ _ outl
  have hlen : (radii.map rnd).length = radii.length := List.length_map _
  have hg : ∀ a c (ha : a < radii.length) (hc : c < radii.length), a < c → radii[a] + 4 * ε < radii[c] :=
    fun a c ha hc hac => List.pairwise_iff_getElem.mp hgap a c ha hc hac
  have hget : ∀ k (hk : k < radii.length), (radii.map rnd).getD k 0 = rnd radii[k] := by
    intro k hk
    rw [Assign.getD_of_lt _ (by rw [hlen]; exact hk), List.getElem_map]
  rw [Assign.nearest_radius_iff_shell _ hs (by rw [hlen]; exact hn)]
  refine ⟨by rw [hlen]; exact hi, ?_, ?_⟩
  · rcases Nat.eq_zero_or_pos i with h0 | h0
    · exact Or.inl h0
    · right
      have hk1 : i - 1 < radii.length := by omega
      unfold Assign.shellUpper
      rw [if_pos (by rw [hlen]; omega), hget _ hk1, hget _ (by omega : i - 1 + 1 < radii.length)]
      have e : radii[i - 1 + 1]'(by omega) = radii[i] := by congr 1; omega
      rw [e]
      have := hg (i - 1) i hk1 hi (by omega)
      have := hhi radii[i - 1]; have := hhi radii[i]
      linarith
  · unfold Assign.shellUpper
    split
    · rename_i h1
      rw [hlen] at h1
      rw [hget _ hi, hget _ h1]
      have := hg i (i + 1) hi h1 (by omega)
      have := hlo radii[i]; have := hlo radii[i + 1]
      linarith
    · have hk1 : i - 1 < radii.length := by omega
      have hip : 0 < i := by rw [hlen] at *; omega
      rw [hget _ hi, hget _ hk1]
      have := hg (i - 1) i hk1 hi (by omega)
      have := hlo radii[i]; have := hhi radii[i - 1]
      linarith

/-! ## the chain -/

/-- Hypotheses on the three generating grids: exactly those of C09's `decompose_inverts` (widths, unit directions,
positive radii, `norm` a non-negative square root of the sum of squares on the position rows, rows distinct after
rounding) and of C11's `pt_roundtrip` (unit quaternions, pairwise non-equivalent: `q ≠ ±q'`; `n_t ≥ 2`), plus the link
between the two: `rnd` moves a number by at most `ε` and the radii are more than `4ε` apart (this replaces C09's
"strictly increasing after rounding" and C11's "strictly increasing", both of which it implies). -/
structure GridOK (norm : List Rat → Rat) (rnd : Rat → Rat) (ε : Rat) (dirs quats : List (List Rat)) (radii : List Rat) :
    Prop where
  hd3 : ∀ d ∈ dirs, d.length = 3
  hq4 : ∀ q ∈ quats, q.length = 4
  hunit : ∀ d ∈ dirs, Order.sumsq d = 1
  hqunit : ∀ q ∈ quats, Order.sumsq q = 1
  hrpos : ∀ r ∈ radii, 0 < r
  hnorm : ∀ p ∈ Order.positions dirs radii, 0 ≤ norm p ∧ norm p * norm p = Order.sumsq p
  hdk : (dirs.map (·.map rnd)).Nodup
  hqk : (quats.map (·.map rnd)).Nodup
  hanti : ∀ q ∈ quats, ∀ q' ∈ quats, q ≠ q'.map (- ·)
  hrnd : ∀ x, |rnd x - x| ≤ ε
  hgap : radii.Pairwise (fun a b => a + 4 * ε < b)
  hnt : 2 ≤ radii.length
  hd : dirs ≠ []
  hq : quats ≠ []

/-- Hypotheses on the second molecule (those of C11's `pt_roundtrip`): non-zero total mass, non-degenerate external
reference axes, sign fixing succeeds on the reference structure. -/
structure MolOK (thr : Rat) (mol2 : List (Rigid.Atom Rat)) (paRef : Assign.M3) (refDir : Assign.I3) : Prop where
  hthr : 0 ≤ thr
  hM : Rigid.totalMass mol2 ≠ 0
  hdetA : Assign.M3.det paRef ≠ 0
  href : Assign.refDirections thr (refOf mol2 paRef) = .ok refDir

/-- C11's assumption on MDAnalysis `principal_axes()` (its `hpa`), frame by frame: in frame `k` the axes are the
reference axes rotated by the rotation of row `k`'s quaternion, up to an even number of sign flips `s k`. -/
def AxesOK (quats : List (List Rat)) (paRef : Assign.M3) (pa : Nat → Assign.M3) (s : Nat → Assign.I3) : Prop :=
  ∀ k q, quats[k % quats.length]? = some q →
    Assign.EvenFlip (s k) ∧
    pa k = Assign.flipRows (s k) (Assign.M3.mul paRef (Assign.M3.transpose (Assign.rotMat (quatA q))))

/-- **The chain, over the enumeration.**  Let `arr` be C09's grid array of the three grids.  Then
* C09's `decompose arr` returns the three grids (radii rounded) — and THAT is the grid C11's model is run with;
* C10's `get_pt_as_universe` on `rowsOf arr` succeeds and has one frame per row;
* C11's `assignFrame` sends frame `k` to `(t, o, b) = (k / n_b / n_o, k / n_b % n_o, k % n_b)` and to the index `k`:
  the pseudotrajectory is assigned back to `0, 1, 2, …, N−1` in order.
Molecules: any first molecule, any second molecule with the same centre of mass (the reader centres both) and the
hypotheses of C11. -/
theorem chain_core (norm : List Rat → Rat) (rnd : Rat → Rat) (ε : Rat) (dirs quats : List (List Rat)) (radii : List Rat)
    (G : GridOK norm rnd ε dirs quats radii)
    (mol1 mol2 : List (Rigid.Atom Rat)) (hcen : Rigid.com mol2 = Rigid.com mol1)
    (thr : Rat) (paRef : Assign.M3) (refDir : Assign.I3) (Mo : MolOK thr mol2 paRef refDir)
    (pa : Nat → Assign.M3) (s : Nat → Assign.I3) (A : AxesOK quats paRef pa s) (oNorm : List Rat) (nu : Nat → Rat)
    (outl : Bool) :
    Order.decompose norm rnd (Order.fullArray (Order.positions dirs radii) quats) = (dirs, quats, radii.map rnd) ∧
    ∃ rows st' traj, rowsOf (Order.fullArray (Order.positions dirs radii) quats) = .ok rows ∧
      Rigid.getPt (Rigid.PtState.init mol1 mol2) rows = .ok (st', traj) ∧
      traj.length = radii.length * dirs.length * quats.length ∧
      ∀ k, k < radii.length * dirs.length * quats.length → ∃ pos, traj[k]? = some pos ∧
        Assign.assignFrame thr
            (gridOf (Order.decompose norm rnd (Order.fullArray (Order.positions dirs radii) quats)) oNorm)
            (refOf mol2 paRef) refDir outl true
            (frameOf norm (mol1.map (·.mass)) (mol2.map (·.mass)) pos (pa k) (nu k))
          = .ok ⟨some (k / quats.length / dirs.length), k / quats.length % dirs.length, k % quats.length,
                 Assign.flip (s k) refDir, some k⟩ := by
  obtain ⟨hd3, hq4, hunit, hqunit, hrpos, hnorm, hdk, hqk, hanti, hrnd, hgap, hnt, hd, hq⟩ := G
  obtain ⟨hthr, hM, hdetA, href⟩ := Mo
  have hno : 0 < dirs.length := List.length_pos_iff.mpr hd
  have hnb : 0 < quats.length := List.length_pos_iff.mpr hq
  obtain ⟨hrk, hshell⟩ := tAssign_rounded rnd ε hrnd radii hgap hnt
  have hr : radii ≠ [] := by intro h; rw [h] at hnt; simp at hnt
  have hdec := Molgri.C09.decompose_inverts norm rnd dirs quats radii hd3 hunit hrpos hnorm hdk hqk hrk hd hq hr
  refine ⟨hdec, ?_⟩
  rw [hdec]
  generalize harr : Order.fullArray (Order.positions dirs radii) quats = arr
  have hp3 := Order.length_of_mem_positions dirs radii 3 hd3
  have hw : ∀ l ∈ arr, l.length = 7 := by rw [← harr]; exact Molgri.C09.row_width _ _ hp3 hq4
  have hlenArr : arr.length = radii.length * dirs.length * quats.length := by
    rw [← harr, Molgri.C09.full_len, Molgri.C09.positions_len]
  have hqn : ∀ r ∈ arr.map rowD, r.q.normSq ≠ 0 := by
    intro r hr'
    simp only [List.mem_map] at hr'
    obtain ⟨l, hl, rfl⟩ := hr'
    rw [← harr] at hl
    unfold Order.fullArray at hl
    simp only [List.mem_flatMap, List.mem_map] at hl
    obtain ⟨p, hp, q, hq', rfl⟩ := hl
    rw [rowD_append p q (hp3 p hp)]
    have : (quatR q).normSq = Order.sumsq q := normSq_quatA q (hq4 q hq')
    show (quatR q).normSq ≠ 0
    rw [this, hqunit q hq']; exact one_ne_zero
  have hNpos : 0 < radii.length * dirs.length * quats.length :=
    Nat.mul_pos (Nat.mul_pos (by omega) hno) hnb
  have hne : arr.map rowD ≠ [] := by
    intro h
    have := congrArg List.length h
    simp only [List.length_map, List.length_nil] at this
    omega
  obtain ⟨st', hget, _⟩ := Molgri.C10.getPt_fresh mol1 mol2 (arr.map rowD) hne hqn
  refine ⟨arr.map rowD, st', _, rowsOf_ok arr hw, hget, ?_, ?_⟩
  · simp [Rigid.specPositions, hlenArr]
  · intro k hk
    -- the three indices of row `k`
    obtain ⟨b, hbdef⟩ : ∃ b, b = k % quats.length := ⟨_, rfl⟩
    obtain ⟨j, hjdef⟩ : ∃ j, j = k / quats.length % dirs.length := ⟨_, rfl⟩
    obtain ⟨i, hidef⟩ : ∃ i, i = k / quats.length / dirs.length := ⟨_, rfl⟩
    rw [← hbdef, ← hjdef, ← hidef]
    have hb : b < quats.length := by rw [hbdef]; exact Nat.mod_lt _ hnb
    have hj : j < dirs.length := by rw [hjdef]; exact Nat.mod_lt _ hno
    have hi : i < radii.length := by
      rw [hidef]
      apply Nat.div_lt_of_lt_mul
      rw [Nat.mul_comm]
      apply Nat.div_lt_of_lt_mul
      rw [Nat.mul_comm]; exact hk
    -- C11's composed index of (i, j, b) is row k of C09's array (Bridge.Rows)
    obtain ⟨n, hcomp, _, hrow, _, hn1, _⟩ := Rows.composed_index_is_row dirs quats radii i j b hi hj hb
    have hnk : n = k := by
      rw [hn1, hidef, hjdef, hbdef, Nat.div_add_mod' (k / quats.length) dirs.length]
      exact Nat.div_add_mod k quats.length
    rw [hnk, harr] at hrow
    rw [hnk] at hcomp
    -- the typed row and the frame
    have hpl3 : (dirs[j].map (· * radii[i])).length = 3 := by
      rw [List.length_map]; exact hd3 _ (List.getElem_mem hj)
    have hrowk : (arr.map rowD)[k]? = some ⟨vecR (dirs[j].map (· * radii[i])), quatR quats[b]⟩ := by
      rw [List.getElem?_map, hrow, Option.map_some, rowD_append _ _ hpl3]
    refine ⟨_, by rw [Rigid.specPositions, List.getElem?_map, hrowk]; rfl, ?_⟩
    generalize hrdef : (⟨vecR (dirs[j].map (· * radii[i])), quatR quats[b]⟩ : Rigid.Row Rat) = r
    have hrq : r.q = quatR quats[b] := by rw [← hrdef]
    have hrt : r.t = vecR (dirs[j].map (· * radii[i])) := by rw [← hrdef]
    -- C11's hypotheses on the grid
    have hdn : dirs.Nodup := List.Nodup.of_map _ hdk
    have hqnd : quats.Nodup := List.Nodup.of_map _ hqk
    have ho : (dirs.map vecA).Nodup :=
      List.Nodup.map_on (fun a ha c hc h => vecA_injective a c (hd3 a ha) (hd3 c hc) h) hdn
    have hbu : ∀ q ∈ quats.map quatA, Assign.Q4.normSq q = 1 := by
      intro q hq'
      obtain ⟨l, hl, rfl⟩ := List.mem_map.mp hq'
      rw [normSq_quatA l (hq4 l hl), hqunit l hl]
    have hbne : ∀ (a c : Nat) (ha : a < (quats.map quatA).length) (hc : c < (quats.map quatA).length), a ≠ c →
        (quats.map quatA)[a] ≠ (quats.map quatA)[c] ∧ (quats.map quatA)[a] ≠ Assign.Q4.neg (quats.map quatA)[c] := by
      intro a c ha hc hac
      have ha' : a < quats.length := by simpa using ha
      have hc' : c < quats.length := by simpa using hc
      have hla := hq4 _ (List.getElem_mem ha')
      have hlc := hq4 _ (List.getElem_mem hc')
      simp only [List.getElem_map]
      constructor
      · intro h
        exact hac ((List.Nodup.getElem_inj_iff hqnd).mp (quatA_injective _ _ hla hlc h))
      · intro h
        rw [quatA_neg _ hlc] at h
        exact hanti _ (List.getElem_mem ha') _ (List.getElem_mem hc')
          (quatA_injective _ _ hla (by rw [List.length_map]; exact hlc) h)
    have hgb : (quats.map quatA)[b]'(by simpa using hb) = q4 r.q := by rw [List.getElem_map, hrq]; rfl
    have hgo : (dirs.map vecA)[j]'(by simpa using hj) = vecA dirs[j] := List.getElem_map _
    obtain ⟨hs, hpa⟩ := A k quats[b] (by rw [← hbdef]; exact List.getElem?_eq_getElem hb)
    have hlen2 : (refOf mol2 paRef).masses.length = (refOf mol2 paRef).pos.length := by simp [refOf]
    have hM2 : (refOf mol2 paRef).masses.sum ≠ 0 := hM
    have hfpos := secondMolecule_frame mol1 mol2 r paRef
    have hcom := frame_com_centred mol1 mol2 r paRef hcen
    rw [hrt, vecR_scale] at hcom
    -- the distance handed to C11 is the radius of the row: `np.linalg.norm` of the centre of mass
    have hdist : norm (toList (Assign.centerOfMass (mol2.map (·.mass))
        (secondMolecule (mol1.map (·.mass)) ((mol1 ++ Rigid.place mol2 r).map (·.pos))))) = radii[i] := by
      rw [hfpos]
      have hc := Assign.centerOfMass_rigid (Assign.rotMat (q4 r.q)) (frameShift mol1 mol2 r)
        (refOf mol2 paRef).masses (refOf mol2 paRef).pos hlen2 hM2
      have hm : (refOf mol2 paRef).masses = mol2.map (·.mass) := rfl
      rw [hm] at hc
      rw [hc]
      have hcom' := frame_com_centred mol1 mol2 r paRef hcen
      rw [hm] at hcom'
      rw [hcom', hrt, toList_vecR _ hpl3]
      apply Order.norm_scaled_unit norm dirs[j] radii[i] (hrpos _ (List.getElem_mem hi)) (hunit _ (List.getElem_mem hj))
      apply hnorm
      rw [Order.positions_eq_flatMap]
      simp only [List.mem_flatMap, List.mem_map]
      exact ⟨radii[i], List.getElem_mem hi, dirs[j], List.getElem_mem hj, rfl⟩
    have hjb : b < (quats.map quatA).length := by simpa using hb
    have hjo : j < (dirs.map vecA).length := by simpa using hj
    have hfpos' : secondMolecule (mol1.map (·.mass)) ((mol1 ++ Rigid.place mol2 r).map (·.pos))
        = (refOf mol2 paRef).pos.map (Assign.rigid (Assign.rotMat ((quats.map quatA)[b]'hjb)) (frameShift mol1 mol2 r)) := by
      rw [hgb]; exact hfpos
    have hcom' : Assign.rigid (Assign.rotMat ((quats.map quatA)[b]'hjb)) (frameShift mol1 mol2 r)
        (Assign.centerOfMass (refOf mol2 paRef).masses (refOf mol2 paRef).pos)
          = Assign.V3.smul radii[i] ((dirs.map vecA)[j]'hjo) := by
      rw [hgb, hgo]; exact hcom
    have hpa' : pa k = Assign.flipRows (s k) (Assign.M3.mul paRef (Assign.M3.transpose
        (Assign.rotMat ((quats.map quatA)[b]'hjb)))) := by
      rw [hpa, List.getElem_map]
    have hres := roundtrip_lists thr hthr (radii.map rnd) (dirs.map vecA) (quats.map quatA) oNorm (refOf mol2 paRef) refDir
      i j b hjo hjb ho hbu hbne hlen2 hM2 hdetA href (frameShift mol1 mol2 r) (s k) hs
      (secondMolecule (mol1.map (·.mass)) ((mol1 ++ Rigid.place mol2 r).map (·.pos))) (pa k)
      (norm (toList (Assign.centerOfMass (mol2.map (·.mass))
        (secondMolecule (mol1.map (·.mass)) ((mol1 ++ Rigid.place mol2 r).map (·.pos)))))) (nu k)
      hfpos' (radii[i]'hi) (hrpos _ (List.getElem_mem hi)) outl (hshell outl i hi) hcom' (by exact hdist) hpa'
    have hidx : (i * (dirs.map vecA).length + j) * (quats.map quatA).length + b = k := by
      simp only [List.length_map]
      simpa [Assign.compose] using hcomp
    rw [hidx] at hres
    exact hres

/-- **The chain from the user's input** (C09's `fullGrid`: radii typed in nanometres, sorted and multiplied by ten).
The array C09's model produces, cut into rows, fed to C10's `get_pt_as_universe`, then frame by frame to C11's
`assignFrame` together with C09's `decompose` of the same array, comes back as `0, 1, 2, …, N−1`. -/
theorem chain_fullGrid (norm : List Rat → Rat) (rnd : Rat → Rat) (ε : Rat) (dirs quats : List (List Rat)) (nm : List Rat)
    (G : GridOK norm rnd ε dirs quats ((Order.sortK nm).map (· * 10)))
    (mol1 mol2 : List (Rigid.Atom Rat)) (hcen : Rigid.com mol2 = Rigid.com mol1)
    (thr : Rat) (paRef : Assign.M3) (refDir : Assign.I3) (Mo : MolOK thr mol2 paRef refDir)
    (pa : Nat → Assign.M3) (s : Nat → Assign.I3) (A : AxesOK quats paRef pa s) (oNorm : List Rat) (nu : Nat → Rat)
    (outl : Bool) :
    ∃ arr rows st' traj, Order.fullGrid dirs quats nm = .ok (arr.map some) ∧ rowsOf arr = .ok rows ∧
      Rigid.getPt (Rigid.PtState.init mol1 mol2) rows = .ok (st', traj) ∧
      Order.decompose norm rnd arr = (dirs, quats, ((Order.sortK nm).map (· * 10)).map rnd) ∧
      arr.length = nm.length * dirs.length * quats.length ∧
      traj.length = nm.length * dirs.length * quats.length ∧
      ∀ k, k < nm.length * dirs.length * quats.length → ∃ pos, traj[k]? = some pos ∧
        Assign.assignFrame thr (gridOf (Order.decompose norm rnd arr) oNorm) (refOf mol2 paRef) refDir outl true
            (frameOf norm (mol1.map (·.mass)) (mol2.map (·.mass)) pos (pa k) (nu k))
          = .ok ⟨some (k / quats.length / dirs.length), k / quats.length % dirs.length, k % quats.length,
                 Assign.flip (s k) refDir, some k⟩ := by
  have hlen : ((Order.sortK nm).map (· * 10)).length = nm.length := by
    rw [List.length_map, (Order.sortK_perm nm).length_eq]
  have hnn : ∀ x ∈ nm, (0 : Rat) ≤ x := by
    intro x hx
    have h1 : x * 10 ∈ (Order.sortK nm).map (· * 10) :=
      List.mem_map.mpr ⟨x, (Order.sortK_perm nm).mem_iff.mpr hx, rfl⟩
    have := G.hrpos _ h1
    linarith
  obtain ⟨hdec, rows, st', traj, h1, h2, h3, h4⟩ :=
    chain_core norm rnd ε dirs quats _ G mol1 mol2 hcen thr paRef refDir Mo pa s A oNorm nu outl
  rw [hlen] at h3 h4
  refine ⟨_, rows, st', traj, ?_, h1, h2, hdec, ?_, h3, h4⟩
  · rw [Molgri.C09.fullGrid_spec, if_pos hnn]
  · rw [Molgri.C09.full_len, Molgri.C09.positions_len, hlen]

/-- **The chain through the package's writer** (`PtWriter.__init__`: both files read through `OneMoleculeReader`,
centred again by `_center_both_molecules`): no hypothesis on where the molecules sit in their files.  The reference
molecule of `AssignmentTool` is the second molecule as the reader returns it. -/
theorem chain_writer (norm : List Rat → Rat) (rnd : Rat → Rat) (ε : Rat) (dirs quats : List (List Rat)) (nm : List Rat)
    (G : GridOK norm rnd ε dirs quats ((Order.sortK nm).map (· * 10)))
    (raw1 raw2 : List (Rigid.Atom Rat)) (h1 : Rigid.totalMass raw1 ≠ 0)
    (thr : Rat) (paRef : Assign.M3) (refDir : Assign.I3) (Mo : MolOK thr (Rigid.center raw2) paRef refDir)
    (pa : Nat → Assign.M3) (s : Nat → Assign.I3) (A : AxesOK quats paRef pa s) (oNorm : List Rat) (nu : Nat → Rat)
    (outl : Bool) :
    ∃ arr rows st' traj, Order.fullGrid dirs quats nm = .ok (arr.map some) ∧ rowsOf arr = .ok rows ∧
      Rigid.ptWriter raw1 raw2 rows = .ok (st', traj) ∧
      Order.decompose norm rnd arr = (dirs, quats, ((Order.sortK nm).map (· * 10)).map rnd) ∧
      traj.length = nm.length * dirs.length * quats.length ∧
      ∀ k, k < nm.length * dirs.length * quats.length → ∃ pos, traj[k]? = some pos ∧
        Assign.assignFrame thr (gridOf (Order.decompose norm rnd arr) oNorm) (refOf (Rigid.center raw2) paRef) refDir
            outl true (frameOf norm (raw1.map (·.mass)) (raw2.map (·.mass)) pos (pa k) (nu k))
          = .ok ⟨some (k / quats.length / dirs.length), k / quats.length % dirs.length, k % quats.length,
                 Assign.flip (s k) refDir, some k⟩ := by
  have h2 : Rigid.totalMass raw2 ≠ 0 := by
    have := Mo.hM
    unfold Rigid.center at this
    rwa [Rigid.totalMass_translate] at this
  have hcen : Rigid.com (Rigid.center raw2) = Rigid.com (Rigid.center raw1) := by
    rw [Molgri.C10.reader_centred raw2 h2, Molgri.C10.reader_centred raw1 h1]
  obtain ⟨arr, rows, st', traj, e1, e2, e3, e4, _, e5, e6⟩ :=
    chain_fullGrid norm rnd ε dirs quats nm G (Rigid.center raw1) (Rigid.center raw2) hcen thr paRef refDir Mo pa s A
      oNorm nu outl
  have hm1 : (Rigid.center raw1).map (·.mass) = raw1.map (·.mass) := (Molgri.C10.reader_rigid raw1).2.2.1
  have hm2 : (Rigid.center raw2).map (·.mass) = raw2.map (·.mass) := (Molgri.C10.reader_rigid raw2).2.2.1
  rw [hm1, hm2] at e6
  exact ⟨arr, rows, st', traj, e1, e2, by rw [Molgri.C10.ptWriter_eq _ _ _ h1 h2]; exact e3, e4, e5, e6⟩

/-- the assigned indices of a whole trajectory, in frame order (`get_full_assignments`). -/
def assignedIndices (thr : Rat) (g : Assign.Grid) (m : Assign.RefMol) (refDir : Assign.I3) (norm : List Rat → Rat)
    (masses1 masses2 : List Rat) (pa : Nat → Assign.M3) (nu : Nat → Rat) (outl : Bool)
    (traj : List (List (Rigid.V3 Rat))) : List (Except String (Option Nat)) :=
  traj.zipIdx.map fun pk =>
    (Assign.assignFrame thr g m refDir outl true (frameOf norm masses1 masses2 pk.1 (pa pk.2) (nu pk.2))).map (·.idx)

/-- **"assigned back to 0, 1, 2, …" as one list.** -/
theorem chain_indices (norm : List Rat → Rat) (rnd : Rat → Rat) (ε : Rat) (dirs quats : List (List Rat)) (nm : List Rat)
    (G : GridOK norm rnd ε dirs quats ((Order.sortK nm).map (· * 10)))
    (mol1 mol2 : List (Rigid.Atom Rat)) (hcen : Rigid.com mol2 = Rigid.com mol1)
    (thr : Rat) (paRef : Assign.M3) (refDir : Assign.I3) (Mo : MolOK thr mol2 paRef refDir)
    (pa : Nat → Assign.M3) (s : Nat → Assign.I3) (A : AxesOK quats paRef pa s) (oNorm : List Rat) (nu : Nat → Rat)
    (outl : Bool) :
    ∃ arr rows st' traj, Order.fullGrid dirs quats nm = .ok (arr.map some) ∧ rowsOf arr = .ok rows ∧
      Rigid.getPt (Rigid.PtState.init mol1 mol2) rows = .ok (st', traj) ∧
      assignedIndices thr (gridOf (Order.decompose norm rnd arr) oNorm) (refOf mol2 paRef) refDir norm
          (mol1.map (·.mass)) (mol2.map (·.mass)) pa nu outl traj
        = (List.range (nm.length * dirs.length * quats.length)).map fun k => .ok (some k) := by
  obtain ⟨arr, rows, st', traj, e1, e2, e3, _, _, e5, e6⟩ :=
    chain_fullGrid norm rnd ε dirs quats nm G mol1 mol2 hcen thr paRef refDir Mo pa s A oNorm nu outl
  refine ⟨arr, rows, st', traj, e1, e2, e3, ?_⟩
  apply List.ext_getElem
  · simp [assignedIndices, e5]
  · intro k hk1 hk2
    have hk : k < nm.length * dirs.length * quats.length := by simpa using hk2
    obtain ⟨pos, hpos, hass⟩ := e6 k hk
    have hkt : k < traj.length := by rw [e5]; exact hk
    have hp : traj[k] = pos := by
      rw [List.getElem?_eq_getElem hkt] at hpos; exact Option.some.inj hpos
    simp only [assignedIndices, List.getElem_map, List.getElem_zipIdx, List.getElem_range, hp, Nat.zero_add, hass]
    rfl

/-- The hypotheses on the rounding at the instance the drivers run (`rnd = round8`, C09's model of `np.round(·, 8)`):
it moves a number by at most `0.5·10⁻⁸`, so radii more than `2·10⁻⁸` Å apart satisfy `hrnd` and `hgap`. -/
theorem gridOK_round8 (norm : List Rat → Rat) (dirs quats : List (List Rat)) (radii : List Rat)
    (hd3 : ∀ d ∈ dirs, d.length = 3) (hq4 : ∀ q ∈ quats, q.length = 4)
    (hunit : ∀ d ∈ dirs, Order.sumsq d = 1) (hqunit : ∀ q ∈ quats, Order.sumsq q = 1)
    (hrpos : ∀ r ∈ radii, 0 < r)
    (hnorm : ∀ p ∈ Order.positions dirs radii, 0 ≤ norm p ∧ norm p * norm p = Order.sumsq p)
    (hdk : (dirs.map (·.map Order.round8)).Nodup) (hqk : (quats.map (·.map Order.round8)).Nodup)
    (hanti : ∀ q ∈ quats, ∀ q' ∈ quats, q ≠ q'.map (- ·))
    (hgap : radii.Pairwise (fun a b => a + 1 / 50000000 < b)) (hnt : 2 ≤ radii.length)
    (hd : dirs ≠ []) (hq : quats ≠ []) :
    GridOK norm Order.round8 (1 / 200000000) dirs quats radii :=
  ⟨hd3, hq4, hunit, hqunit, hrpos, hnorm, hdk, hqk, hanti, Molgri.C09.round8_spec,
    hgap.imp (fun {a b} h => by linarith), hnt, hd, hq⟩

/-- **Both metrics.**  With the direction norms supplied as 1 (unit directions) and a positive norm of the normalised
centre of mass, the cosine metric (`cartesian_grid=False`) assigns every frame exactly as the Euclidean one, so the chain
theorems hold for both values of the flag (C11's `metric_independent` on the grid C09's decomposition returns). -/
theorem chain_cosine (norm : List Rat → Rat) (rnd : Rat → Rat) (ε : Rat) (dirs quats : List (List Rat)) (radii : List Rat)
    (G : GridOK norm rnd ε dirs quats radii) (thr : Rat) (m : Assign.RefMol) (refDir : Assign.I3) (outl : Bool)
    (f : Assign.Frame) (hnu : 0 < f.nu) :
    Assign.assignFrame thr (gridOf (dirs, quats, radii.map rnd) (dirs.map fun _ => 1)) m refDir outl false f
      = Assign.assignFrame thr (gridOf (dirs, quats, radii.map rnd) (dirs.map fun _ => 1)) m refDir outl true f := by
  apply Molgri.C11.metric_independent
  · intro o ho
    obtain ⟨d, hd, rfl⟩ := List.mem_map.mp ho
    rw [normSq_vecA d (G.hd3 d hd), G.hunit d hd]
  · simp [gridOf]
  · intro n hn
    obtain ⟨_, _, rfl⟩ := List.mem_map.mp hn
    rfl
  · exact hnu

/-- **The assigned triple is what C09's index helpers return for that row** (`get_position_index`,
`get_quaternion_index`): position cell `t·n_o + o = k div n_b`, rotation `b = k mod n_b`, and C11's `compose` of the
triple is `k` again.  (Arithmetic only; via `Bridge.Rows.index_helpers_match`.) -/
theorem assigned_triple_is_helpers (nb no nt k : Nat) (hk : k < nt * no * nb) :
    ∃ P Q, Order.positionIndex nb no nt none = .ok P ∧ Order.quaternionIndex nb no nt none = .ok Q ∧
      P[k]? = some (k / nb / no * no + k / nb % no) ∧ Q[k]? = some (k % nb) ∧
      Assign.compose (some (k / nb / no)) (k / nb % no) (k % nb) no nb = some k := by
  have hb : 0 < nb := Nat.pos_of_ne_zero (by rintro rfl; simp at hk)
  have hn : k < Order.fullLen nb no nt := by
    unfold Order.fullLen
    calc k < nt * no * nb := hk
      _ = nb * (no * nt) := by rw [Nat.mul_comm nt no, Nat.mul_comm]
  obtain ⟨⟨P, Q, hP, hQ, h1, h2⟩, _⟩ := Rows.index_helpers_match nb no nt k hn hb
  refine ⟨P, Q, hP, hQ, ?_, h2, ?_⟩
  · rw [h1, Nat.div_add_mod' (k / nb) no]
  · simp only [Assign.compose, Option.map_some, Nat.div_add_mod' (k / nb) no, Nat.div_add_mod' k nb]

/-- Why the chain asks for radii more than a few `ε` apart although C09 only needs "strictly increasing after rounding"
and C11 only "strictly increasing" (a witness on the models, not a statement about all inputs): for the radii
`3·10⁻⁸ < 3.5·10⁻⁸` Å both hypotheses hold, C09's decomposition returns `[3·10⁻⁸, 4·10⁻⁸]`, and a frame placed at the
SECOND radius is exactly half-way between the two rounded radii; `np.argmin` takes the first, i.e. shell 0. -/
theorem rounding_tie_witness :
    ([3 / 100000000, 7 / 200000000] : List Rat).Pairwise (· < ·) ∧
    ([3 / 100000000, 7 / 200000000] : List Rat).map Order.round8 = [3 / 100000000, 4 / 100000000] ∧
    Assign.tAssign (([3 / 100000000, 7 / 200000000] : List Rat).map Order.round8) (7 / 200000000) false = .ok (some 0) := by
  refine ⟨by decide +kernel, by decide +kernel, by decide +kernel⟩

/-! ## non-vacuity: one concrete input satisfying every hypothesis of the chain

C09's witness grid (3 directions × 2 rotations × radii 0.1, 0.25, 0.3 nm typed out of order, the 1-norm as `norm` on
axis-parallel rows, `round8`), C11's witness molecule (planar, three atoms, centred), a one-atom first molecule at the
origin, frame axes = rotated reference axes without flips. -/

def mol1W : List (Rigid.Atom Rat) := [⟨"X", "X", 4, ⟨0, 0, 0⟩⟩]
def mol2W : List (Rigid.Atom Rat) := [⟨"A", "A", 1, ⟨1, 0, 0⟩⟩, ⟨"B", "B", 2, ⟨0, 1, 0⟩⟩, ⟨"C", "C", 1, ⟨-1, -2, 0⟩⟩]
def paW (k : Nat) : Assign.M3 :=
  Assign.flipRows (1, 1, 1) (Assign.M3.mul Assign.M3.one
    (Assign.M3.transpose (Assign.rotMat (quatA (Molgri.C09.quatsW.getD (k % Molgri.C09.quatsW.length) [])))))

example : GridOK Molgri.C09.normW Order.round8 (1 / 200000000) Molgri.C09.dirsW Molgri.C09.quatsW [1, 5 / 2, 3] :=
  gridOK_round8 _ _ _ _ (by decide +kernel) (by decide +kernel) (by decide +kernel) (by decide +kernel)
    (by decide +kernel) (by decide +kernel) (by decide +kernel) (by decide +kernel) (by decide +kernel)
    (by decide +kernel) (by decide +kernel) (by decide +kernel) (by decide +kernel)

example : Order.sortK Molgri.C09.nmW = [1 / 10, 1 / 4, 3 / 10] ∧
    (Order.sortK Molgri.C09.nmW).map (· * 10) = [1, 5 / 2, 3] := by
  have h : Order.sortK Molgri.C09.nmW = [1 / 10, 1 / 4, 3 / 10] :=
    Order.sortK_eq_of_perm_sorted _ _ (by decide +kernel) (by decide +kernel)
  exact ⟨h, by rw [h]; decide +kernel⟩

example : Rigid.com mol2W = Rigid.com mol1W := by
  simp [mol1W, mol2W, Rigid.com, Rigid.totalMass, Rigid.massMoment]

example : MolOK (1 / 2000) mol2W Assign.M3.one (-1, -1, 1) := by
  refine ⟨by norm_num, ?_, ?_, ?_⟩
  · simp [mol2W, Rigid.totalMass]; norm_num
  · simp [Assign.M3.one, Assign.M3.det]
  · have hs : (refOf mol2W Assign.M3.one).pos.map (Assign.atomSigns (1 / 2000) (refOf mol2W Assign.M3.one).pa
          (Assign.centerOfMass (refOf mol2W Assign.M3.one).masses (refOf mol2W Assign.M3.one).pos))
        = [(1, 0, 0), (0, 1, 0), (-1, -1, 0)] := by
      simp [refOf, mol2W, v3, Assign.M3.one, Assign.centerOfMass, Assign.V3.smul, Assign.V3.add, Assign.atomSigns,
        Assign.V3.sub, Assign.V3.dot, Assign.sgnRound]
      norm_num
    unfold Assign.refDirections
    simp only [hs]
    decide

example : AxesOK Molgri.C09.quatsW Assign.M3.one paW (fun _ => (1, 1, 1)) := by
  intro k q hq
  refine ⟨by simp [Assign.EvenFlip, Assign.IsPM], ?_⟩
  simp only [paW, List.getD_eq_getElem?_getD, hq, Option.getD_some]

end Molgri.Bridge.Traj
