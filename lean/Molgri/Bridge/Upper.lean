/-
Bridge C (3) — the canonical-hemisphere test `q_in_upper_sphere` is ONE function in C07, C04, C15 and C18.

`molgri/space/utils.py: q_in_upper_sphere` is modelled four times:

* C07  `Molgri.Hemi.upper tol`       any scalar, tolerance as parameter, `range` / `getD` form
* C15  `Molgri.CellVol.upper tol`    any scalar, tolerance as parameter, `zipIdx` form
* C04  `Molgri.HalfFold.qInUpper`    `ℚ`, tolerance through `np.isclose(x, 0)` with numpy's `atol`, `rtol`
* C18  `Molgri.Polytope.inUpper`     `ℤ` (exact node coordinates), exact zero test

Below: all four are the same recursion `recUp` ("some coordinate is positive and everything before it is small"),
hence equal as functions on all inputs (`upper_hemi_eq_cellvol`, `qInUpper_eq_hemi`, `inUpper_eq_hemi`), the index
lists `upperIdx` coincide, the float test on a row agrees with the exact test on the integer node it was computed
from (`upper_of_signs`), and the "canonical half" hypotheses of C04 (`hup`) and C15 (`CanonHalf`) are consequences of
C07's `upper_xor` (`hup_of_c07`, `canonHalf_of_c07`), with the corresponding corollaries.
-/
import Molgri.Props.C04
import Molgri.Props.C07
import Molgri.Props.C15
import Molgri.Props.C18
import Molgri.Lemmas.Totality

set_option linter.unusedSectionVars false

namespace Molgri.Bridge.Upper

/-! ### the common recursion -/

/-- "some element is `pos` and all elements before it are `p`" -/
def recUp {α : Type} (p pos : α → Bool) : List α → Bool
  | [] => false
  | x :: xs => pos x || (p x && recUp p pos xs)

theorem any_and_const {β : Type} (c : Bool) (f : β → Bool) (l : List β) :
    (l.any fun i => c && f i) = (c && l.any f) := by
  induction l with
  | nil => simp
  | cons a t ih => simp only [List.any_cons, ih]; cases c <;> simp

/-- the `for i, q_i in enumerate(q)` loop written with `range` and `getD` -/
theorem range_form {α : Type} (p pos : α → Bool) (d : α) (q : List α) :
    ((List.range q.length).any fun i => (q.take i).all p && pos (q.getD i d)) = recUp p pos q := by
  induction q with
  | nil => rfl
  | cons x xs ih =>
    rw [List.length_cons, List.range_succ_eq_map, List.any_cons, List.any_map]
    have hfun : ((fun i => (List.take i (x :: xs)).all p && pos ((x :: xs).getD i d)) ∘ Nat.succ) =
        fun i => p x && ((xs.take i).all p && pos (xs.getD i d)) := by
      funext i; simp [Bool.and_assoc]
    rw [hfun, any_and_const, ih]
    simp [recUp]

/-- the same loop written with `zipIdx` -/
theorem zipIdx_form {α : Type} (p pos : α → Bool) (d : α) (q : List α) :
    (q.zipIdx.any fun (xi : α × Nat) => (q.take xi.2).all p && pos xi.1) = recUp p pos q := by
  rw [← range_form p pos d q, Bool.eq_iff_iff, List.any_eq_true, List.any_eq_true]
  constructor
  · rintro ⟨⟨x, i⟩, hmem, h⟩
    rw [List.mem_zipIdx_iff_getElem?] at hmem
    simp only at hmem h
    have hi : i < q.length := by
      by_contra hc
      rw [List.getElem?_eq_none (Nat.le_of_not_lt hc)] at hmem
      cases hmem
    refine ⟨i, List.mem_range.mpr hi, ?_⟩
    simp only [List.getD_eq_getElem?_getD, hmem, Option.getD_some]
    exact h
  · rintro ⟨i, hi, h⟩
    have hi' := List.mem_range.mp hi
    refine ⟨(q[i], i), ?_, ?_⟩
    · rw [List.mem_zipIdx_iff_getElem?]; simp [hi']
    · simpa [List.getD_eq_getElem?_getD, hi'] using h

/-! ### C07 = C15 (any scalar type, any tolerance) -/

section
variable {K : Type} [Zero K] [Neg K] [LT K] [LE K] [DecidableLT K] [DecidableLE K]

theorem small_eq (tol x : K) : Hemi.small tol x = CellVol.small tol x := rfl

theorem hemi_upper_rec (tol : K) (q : List K) :
    Hemi.upper tol q = recUp (Hemi.small tol) (fun x => decide (0 < x)) q := by
  unfold Hemi.upper Hemi.smallAll
  exact range_form (Hemi.small tol) (fun x => decide (0 < x)) 0 q

theorem cellvol_upper_rec (tol : K) (q : List K) :
    CellVol.upper tol q = recUp (Hemi.small tol) (fun x => decide (0 < x)) q := by
  unfold CellVol.upper
  exact zipIdx_form (Hemi.small tol) (fun x => decide (0 < x)) 0 q

/-- **C07 = C15**: the two models of `q_in_upper_sphere` are the same function, for every scalar type with the core
operator classes (no ordered-field structure is needed), every tolerance and every row. -/
theorem upper_hemi_eq_cellvol (tol : K) (q : List K) : Hemi.upper tol q = CellVol.upper tol q := by
  rw [hemi_upper_rec, cellvol_upper_rec]

theorem neg_hemi_eq_cellvol (q : List K) : Hemi.neg q = CellVol.neg q := rfl

/-- **C07 = C15**: `get_upper_indices` / `_get_upper_indices`. -/
theorem upperIdx_hemi_eq_cellvol (tol : K) (G : List (List K)) : Hemi.upperIdx tol G = CellVol.upperIdx tol G := by
  unfold Hemi.upperIdx CellVol.upperIdx
  simp only [← upper_hemi_eq_cellvol]
  generalize Hemi.upper tol = f
  have key : ∀ (l : List (List K)) (k : Nat),
      (l.zipIdx k).filterMap (fun (qi : List K × Nat) => if f qi.1 = true then some qi.2 else none) =
        ((List.range l.length).filter fun i => f (l.getD i [])).map (· + k) := by
    intro l
    induction l with
    | nil => intro k; rfl
    | cons a t ih =>
      intro k
      rw [List.zipIdx_cons, List.filterMap_cons, List.length_cons, List.range_succ_eq_map, List.filter_cons,
        List.filter_map, ih (k + 1)]
      simp only [List.getD_cons_zero, Function.comp_def, List.getD_cons_succ]
      by_cases h : f a = true
      · simp only [h, if_true, List.map_cons, List.map_map, Nat.zero_add, List.cons.injEq, true_and]
        apply List.map_congr_left; intro i _; simp only [Function.comp]; omega
      · simp only [h, Bool.false_eq_true, if_false, List.map_map]
        apply List.map_congr_left; intro i _; simp only [Function.comp]; omega
  have := key G 0
  simpa using this.symm

end

/-! ### C04 = C07 (`ℚ`, numpy's default tolerance) -/

/-- `np.isclose(x, 0)` (C04's reading of `np.allclose(·, 0)`) is C07's `|x| ≤ atol`. -/
theorem isclose_zero_eq_small (x : Rat) : HalfFold.isclose x 0 = Hemi.small HalfFold.atol x := by
  unfold HalfFold.isclose Hemi.small HalfFold.absQ HalfFold.rtol
  have e : (x - 0 : Rat) = x := sub_zero x
  rw [e]
  simp only [lt_self_iff_false, if_false, mul_zero, add_zero]
  rw [Bool.eq_iff_iff, Bool.and_eq_true, decide_eq_true_eq, decide_eq_true_eq, decide_eq_true_eq]
  have ht : (0 : Rat) ≤ HalfFold.atol := by unfold HalfFold.atol; norm_num
  constructor
  · intro h
    split at h
    · constructor <;> linarith
    · rename_i hx
      have := not_lt.mp hx
      constructor <;> linarith
  · rintro ⟨h1, h2⟩
    split
    · linarith
    · exact h2

/-- **C04 = C07**: `HalfFold.qInUpper` is `Hemi.upper` at numpy's `atol = 1e-8`. -/
theorem qInUpper_eq_hemi (q : List Rat) : HalfFold.qInUpper q = Hemi.upper HalfFold.atol q := by
  rw [hemi_upper_rec]
  unfold HalfFold.qInUpper HalfFold.allSmall
  rw [range_form (fun x => HalfFold.isclose x 0) (fun x => decide (0 < x)) 0 q]
  congr 1
  funext x
  exact isclose_zero_eq_small x

/-- … hence also C15's. -/
theorem qInUpper_eq_cellvol (q : List Rat) : HalfFold.qInUpper q = CellVol.upper HalfFold.atol q := by
  rw [qInUpper_eq_hemi, upper_hemi_eq_cellvol]

theorem negRow_eq_neg (q : List Rat) : HalfFold.negRow q = Hemi.neg q := rfl

/-- C04's double cover `G ++ -G` is C07's layout (`doubleCover_layout`) and C15's. -/
theorem cover_eq (G : List (List Rat)) : HalfFold.cover G = G ++ G.map Hemi.neg := rfl

/-- **C04 = C07 = C15**: the upper indices. -/
theorem upperIdx_halffold_eq_hemi (G : List (List Rat)) :
    HalfFold.upperIdx G = Hemi.upperIdx HalfFold.atol G := by
  unfold HalfFold.upperIdx Hemi.upperIdx
  simp only [qInUpper_eq_hemi]

theorem upperIdx_halffold_eq_cellvol (G : List (List Rat)) :
    HalfFold.upperIdx G = CellVol.upperIdx HalfFold.atol G := by
  rw [upperIdx_halffold_eq_hemi, upperIdx_hemi_eq_cellvol]

/-! ### C18 = C07 (`ℤ`, exact test) -/

theorem beq_zero_eq_small (x : Int) : (x == 0) = Hemi.small (0 : Int) x := by
  unfold Hemi.small
  rw [Bool.eq_iff_iff, Bool.and_eq_true, decide_eq_true_eq, decide_eq_true_eq, beq_iff_eq]
  constructor
  · rintro rfl; exact ⟨by decide, by decide⟩
  · rintro ⟨h1, h2⟩; omega

/-- **C18 = C07**: `Polytope.inUpper` (exact node coordinates) is `Hemi.upper` at tolerance `0` over `ℤ`. -/
theorem inUpper_eq_hemi (p : List Int) : Polytope.inUpper p = Hemi.upper (0 : Int) p := by
  rw [hemi_upper_rec]
  unfold Polytope.inUpper
  have : Polytope.upperAt p = fun i => (p.take i).all (· == 0) && decide (0 < p.getD i 0) := by
    funext i; rfl
  rw [this, range_form (· == 0) (fun x => decide (0 < x)) 0 p]
  congr 1
  funext x
  exact beq_zero_eq_small x

/-- C07's `exactHalf` (used by its exact separation check) selects with C18's test. -/
theorem exactHalf_eq_filter_inUpper (pts : List (List Int)) : Hemi.exactHalf pts = pts.filter Polytope.inUpper := by
  unfold Hemi.exactHalf
  congr 1
  funext p
  exact (inUpper_eq_hemi p).symm

theorem neg_polytope_eq_hemi (p : List Int) : Polytope.neg p = Hemi.neg p := rfl

/-- C18's recursive reading is the common recursion. -/
theorem polytope_upperRec_eq (p : List Int) : Polytope.upperRec p = recUp (· == 0) (fun x => decide (0 < x)) p := by
  induction p with
  | nil => rfl
  | cons x t ih =>
    unfold Polytope.upperRec recUp
    rw [ih]
    by_cases h1 : 0 < x
    · simp [h1]
    · by_cases h2 : x = 0
      · simp [h2]
      · simp [h1, h2]

/-! ### float rows against exact nodes -/

/-- **The tolerance test on a float row agrees with the exact test on the node it was computed from.**  If the row `u`
(what `q_in_upper_sphere` sees, with tolerance `tol ≥ 0`) and the integer node `p` (C18's coordinates) agree
coordinatewise in the sense "`p_i = 0 ⇒ u_i = 0`, `p_i > 0 ⇒ u_i > tol`, `p_i < 0 ⇒ u_i < -tol`" (true of
`p / ‖p‖` whenever the smallest non-zero `|p_i| / ‖p‖` exceeds `1e-8`), the two tests give the same answer. -/
theorem upper_of_signs (tol : Rat) (ht : 0 ≤ tol) (u : List Rat) (p : List Int)
    (h : List.Forall₂ (fun (ui : Rat) (pi : Int) => (pi = 0 → ui = 0) ∧ (0 < pi → tol < ui) ∧ (pi < 0 → ui < -tol)) u p) :
    Hemi.upper tol u = Polytope.inUpper p := by
  rw [inUpper_eq_hemi, hemi_upper_rec, hemi_upper_rec]
  induction h with
  | nil => rfl
  | @cons ui pi us ps hx _ ih =>
    unfold recUp
    rw [ih]
    obtain ⟨h0, hp, hn⟩ := hx
    rcases lt_trichotomy pi 0 with hlt | heq | hgt
    · have hu := hn hlt
      have e1 : decide (0 < ui) = false := decide_eq_false (by linarith)
      have e2 : decide (0 < pi) = false := decide_eq_false (by omega)
      have e3 : Hemi.small tol ui = false := by
        unfold Hemi.small
        rw [Bool.and_eq_false_iff]; left; exact decide_eq_false (by linarith)
      have e4 : Hemi.small (0 : Int) pi = false := by
        rw [← beq_zero_eq_small]; exact beq_false_of_ne (by omega)
      simp only [e1, e2, e3, e4, Bool.false_and, Bool.or_false]
    · subst heq
      have hu := h0 rfl
      subst hu
      have e3 : Hemi.small tol (0 : Rat) = true := by
        unfold Hemi.small
        rw [Bool.and_eq_true, decide_eq_true_eq, decide_eq_true_eq]; constructor <;> linarith
      have e4 : Hemi.small (0 : Int) 0 = true := by decide
      simp only [e3, e4, lt_self_iff_false, decide_false, Bool.false_or, Bool.true_and]
    · have hu := hp hgt
      have e1 : decide (0 < ui) = true := decide_eq_true (by linarith)
      have e2 : decide (0 < pi) = true := decide_eq_true hgt
      simp only [e1, e2, Bool.true_or]

/-! ### the "canonical half" hypotheses of C04 and C15 are theorems of C07 -/

/-- C15's hypothesis `CanonHalf` follows from C07's `upper_xor`: rows with a tolerance gap, not all zero, and in the
upper hemisphere. -/
theorem canonHalf_of_c07 {K : Type} [Field K] [LinearOrder K] [IsStrictOrderedRing K] (tol : K) (ht : 0 ≤ tol)
    (G : List (List K)) (hG : ∀ q ∈ G, Hemi.Gap tol q ∧ Hemi.NonZero q ∧ Hemi.upper tol q = true) :
    Molgri.C15.CanonHalf tol G := by
  intro g hg
  obtain ⟨h1, h2, h3⟩ := hG g hg
  refine ⟨by rw [← upper_hemi_eq_cellvol]; exact h3, ?_⟩
  have := Molgri.C07.upper_xor tol ht g h1 h2
  rw [h3] at this
  rw [← neg_hemi_eq_cellvol, ← upper_hemi_eq_cellvol]
  simpa using this

/-- C04's hypothesis `hup` (of `upper_cover`, `half_matrix_symm`) follows from C07's `upper_xor`. -/
theorem hup_of_c07 (G : List (List Rat))
    (hG : ∀ q ∈ G, Hemi.Gap HalfFold.atol q ∧ Hemi.NonZero q ∧ Hemi.upper HalfFold.atol q = true) :
    ∀ d, d < G.length →
      HalfFold.qInUpper (G.getD d []) = true ∧ HalfFold.qInUpper (HalfFold.negRow (G.getD d [])) = false := by
  intro d hd
  have hmem : G.getD d [] ∈ G := by
    rw [List.getD_eq_getElem (hn := hd)]; exact List.getElem_mem hd
  obtain ⟨h1, h2, h3⟩ := hG _ hmem
  have ht : (0 : Rat) ≤ HalfFold.atol := by unfold HalfFold.atol; norm_num
  refine ⟨by rw [qInUpper_eq_hemi]; exact h3, ?_⟩
  have := Molgri.C07.upper_xor HalfFold.atol ht _ h1 h2
  rw [h3] at this
  rw [qInUpper_eq_hemi, negRow_eq_neg]
  simpa using this

/-- What C07 proves about the half grids it generates (`canon_upper`: every row of `hemisphere_quaternion_set` is in
the canonical half) is what C04 and C15 assume: the rows `Q.map (canon tol)` of the randomQ generator satisfy both
hypotheses as soon as the drawn quaternions have the tolerance gap and are not zero. -/
theorem randomQ_rows_canonical (Q : List (List Rat))
    (hQ : ∀ q ∈ Q, Hemi.Gap HalfFold.atol q ∧ Hemi.NonZero q) :
    (∀ d, d < (Q.map (Hemi.canon HalfFold.atol)).length →
      HalfFold.qInUpper ((Q.map (Hemi.canon HalfFold.atol)).getD d []) = true ∧
      HalfFold.qInUpper (HalfFold.negRow ((Q.map (Hemi.canon HalfFold.atol)).getD d [])) = false) ∧
    Molgri.C15.CanonHalf HalfFold.atol (Q.map (Hemi.canon HalfFold.atol)) := by
  have ht : (0 : Rat) ≤ HalfFold.atol := by unfold HalfFold.atol; norm_num
  have hG : ∀ g ∈ Q.map (Hemi.canon HalfFold.atol),
      Hemi.Gap HalfFold.atol g ∧ Hemi.NonZero g ∧ Hemi.upper HalfFold.atol g = true := by
    intro g hg
    obtain ⟨q, hq, rfl⟩ := List.mem_map.mp hg
    obtain ⟨h1, h2⟩ := hQ q hq
    refine ⟨?_, ?_, Molgri.C07.canon_upper _ ht q h1 h2⟩
    · rcases Molgri.C07.canon_mem HalfFold.atol q with h | h
      · rw [h]; exact h1
      · rw [h]; exact h1.neg
    · rcases Molgri.C07.canon_mem HalfFold.atol q with h | h
      · rw [h]; exact h2
      · rw [h]
        obtain ⟨x, hx, hne⟩ := h2
        exact ⟨-x, List.mem_map.mpr ⟨x, hx, rfl⟩, neg_ne_zero.mpr hne⟩
  exact ⟨hup_of_c07 _ hG, canonHalf_of_c07 _ ht _ hG⟩

/-- C04 `half_matrix_symm` with `hup` discharged by C07: the canonical-half hypothesis is replaced by the (per-run
validated, C07) facts "tolerance gap, not zero, in the upper half" about the rows. -/
theorem half_matrix_symm_c07 (G : List (List Rat)) (A : List (List Rat))
    (hsep : HalfFold.Sep (HalfFold.cover G))
    (hG : ∀ q ∈ G, Hemi.Gap HalfFold.atol q ∧ Hemi.NonZero q ∧ Hemi.upper HalfFold.atol q = true)
    (hA : HalfFold.Square (2 * G.length) A)
    (hsym : ∀ a b, a < 2 * G.length → b < 2 * G.length → HalfFold.ent A 0 a b = HalfFold.ent A 0 b a)
    (hanti : ∀ a b, a < 2 * G.length → b < 2 * G.length →
        HalfFold.ent A 0 (HalfFold.oppIdx G.length a) (HalfFold.oppIdx G.length b) = HalfFold.ent A 0 a b) :
    ∃ B : List (List Rat), HalfFold.Square (2 * G.length) B ∧
      HalfFold.halfMatrixQ .len (HalfFold.cover G) A true true = .ok (HalfFold.submatrix (List.range G.length) B) ∧
      ∀ i j, i < G.length → j < G.length → HalfFold.ent B 0 i j = HalfFold.ent B 0 j i :=
  Molgri.C04.half_matrix_symm G A hsep (hup_of_c07 G hG) hA hsym hanti

/-- C15 `volumes_first_N_of_2N` with `CanonHalf` discharged by C07. -/
theorem volumes_first_N_of_2N_c07 {K : Type} [Field K] [LinearOrder K] [IsStrictOrderedRing K]
    (pi tol atol rtol : K) (ht : 0 ≤ tol) (hull : List (List K) → K) (G V : List (List K))
    (R : List (List Nat)) (H : List (List K))
    (hG : ∀ q ∈ G, Hemi.Gap tol q ∧ Hemi.NonZero q ∧ Hemi.upper tol q = true) (hN : 4 ≤ G.length)
    (hR : R.length = 2 * G.length) (full : List K)
    (hfull : CellVol.fullVolumes atol rtol hull (G ++ G.map CellVol.neg) V R (some H) = .ok full) :
    full.length = 2 * G.length ∧
    CellVol.rotationVolumes pi tol atol rtol hull G.length (G ++ G.map CellVol.neg) V R H = .ok (full.take G.length) :=
  Molgri.C15.volumes_first_N_of_2N pi tol atol rtol hull G V R H (canonHalf_of_c07 tol ht G hG) hN hR full hfull

/-- C19 works on sizes only and *assumes* that `q_in_upper_sphere` selects one row of every `±q` pair
(`Totality.upperCount rows = rows / 2`).  That is C07's `only_upper_of_doubleCover`: for a double cover of rows that
have the tolerance gap and lie in the upper half, the number of upper indices (C07's, C15's and — at numpy's
tolerance — C04's index list) is C19's `upperCount` of the number of rows. -/
theorem upperCount_of_doubleCover {K : Type} [Field K] [LinearOrder K] [IsStrictOrderedRing K] (tol : K) (ht : 0 ≤ tol)
    (G : List (List K)) (hG : ∀ q ∈ G, Hemi.Gap tol q ∧ Hemi.upper tol q = true) :
    (Hemi.upperIdx tol (G ++ G.map Hemi.neg)).length = Totality.upperCount (G ++ G.map Hemi.neg).length ∧
    (CellVol.upperIdx tol (G ++ G.map Hemi.neg)).length = Totality.upperCount (G ++ G.map Hemi.neg).length := by
  have h := (Molgri.C07.only_upper_of_doubleCover tol ht G hG).2
  have hc : Totality.upperCount (G ++ G.map Hemi.neg).length = G.length := by
    unfold Totality.upperCount
    simp only [List.length_append, List.length_map]
    omega
  rw [← upperIdx_hemi_eq_cellvol, h, hc]
  simp

theorem upperCount_of_cover (G : List (List Rat))
    (hG : ∀ q ∈ G, Hemi.Gap HalfFold.atol q ∧ Hemi.upper HalfFold.atol q = true) :
    (HalfFold.upperIdx (HalfFold.cover G)).length = Totality.upperCount (HalfFold.cover G).length := by
  have ht : (0 : Rat) ≤ HalfFold.atol := by unfold HalfFold.atol; norm_num
  rw [upperIdx_halffold_eq_hemi, cover_eq]
  exact (upperCount_of_doubleCover HalfFold.atol ht G hG).1

/-! ### non-vacuity -/

/-- the hypotheses of `hup_of_c07`, `canonHalf_of_c07`, `half_matrix_symm_c07`, `volumes_first_N_of_2N_c07` on a
concrete half grid with a row whose first non-zero coordinate is the second one -/
example : ∀ q ∈ ([[0, 3/5, -4/5, 0], [1, 0, 0, 0]] : List (List Rat)),
    Hemi.Gap HalfFold.atol q ∧ Hemi.NonZero q ∧ Hemi.upper HalfFold.atol q = true := by
  intro q hq
  simp only [List.mem_cons, List.not_mem_nil, or_false] at hq
  rcases hq with rfl | rfl
  · refine ⟨?_, ⟨3/5, by simp, by norm_num⟩, by decide +kernel⟩
    intro x hx
    simp only [List.mem_cons, List.not_mem_nil, or_false] at hx
    unfold HalfFold.atol
    rcases hx with rfl | rfl | rfl | rfl
    · left; rfl
    · right; rw [abs_of_pos (by norm_num)]; norm_num
    · right; rw [abs_of_neg (by norm_num)]; norm_num
    · left; rfl
  · refine ⟨?_, ⟨1, by simp, by norm_num⟩, by decide +kernel⟩
    intro x hx
    simp only [List.mem_cons, List.not_mem_nil, or_false] at hx
    unfold HalfFold.atol
    rcases hx with rfl | rfl | rfl | rfl
    · right; rw [abs_of_pos (by norm_num)]; norm_num
    · left; rfl
    · left; rfl
    · left; rfl

/-- the hypothesis of `upper_of_signs` for the node `(0, 3, -4)` and its unit vector `(0, 3/5, -4/5)` -/
example : List.Forall₂ (fun (ui : Rat) (pi : Int) =>
    (pi = 0 → ui = 0) ∧ (0 < pi → HalfFold.atol < ui) ∧ (pi < 0 → ui < -HalfFold.atol))
    [0, 3/5, -4/5] [0, 3, -4] := by
  unfold HalfFold.atol
  refine .cons ⟨fun _ => rfl, fun h => absurd h (by decide), fun h => absurd h (by decide)⟩
    (.cons ⟨fun h => absurd h (by decide), fun _ => by norm_num, fun h => absurd h (by decide)⟩
      (.cons ⟨fun h => absurd h (by decide), fun h => absurd h (by decide), fun _ => by norm_num⟩ .nil))

end Molgri.Bridge.Upper
