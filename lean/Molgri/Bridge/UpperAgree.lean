/-
Bridge J — `UpperAgree` discharged: the hemisphere test on the PROJECTED hypercube rows is C18's exact test.

`Bridge/PolyIndex.lean` proves "C08's `get_half_of_hypercube` = C18's, row by row" (`half_eq_c18`) and the cube4D /
fulldiv grid theorems (`grid_rows_hypercube`, `prefix_stable_hypercube_rows`) under the hypothesis

  `UpperAgree φ base : ∀ d p, LatOf .cube4 d p → base.upper (base.proj (keyAt φ .cube4 d p)) = inUpper p`.

What the code does (`polytopes.py: get_half_of_hypercube`, `utils.py: q_in_upper_sphere`, `normalise_vectors`):

  `projected_points = self.get_nodes(projection=True)`            rows `p / ‖p‖`
  `[p for p in projected_points if q_in_upper_sphere(p)]`         `np.allclose(q[:i], 0) and q[i] > 0` for some `i`

`np.allclose(x, 0)` is `|x| ≤ atol + rtol·|0| = 1e-8`, so the test is C07's `Molgri.Hemi.upper tol` with
`tol = 1e-8` (`Bridge/Upper.lean`: the same function in C04, C07, C15).  `base.upper` is an abstract field of C08's
geometry parameter; its specification here is `UpperIs base tol : ∀ q, base.upper q = Hemi.upper tol q`.

Why the two tests agree.  A node of level `d` has integer coordinates `x_i` (C18), its key is `x_i / 2^d`, the
projected row is `c · x_i / 2^d` with ONE positive factor `c` (`Radial`).  Multiplication by a positive number
preserves the sign of every coordinate and which coordinates are zero, so the EXACT test (`tol = 0`) on the projected
row is C18's `inUpper` on the integer node — unconditionally (`upperAgree_exact`).  For the TOLERANCE test the
non-zero coordinates must exceed `tol`: `GapAt φ base tol d`.  The integer coordinates of level `d ≥ 1` are even
(lattice step 2, half width `2^d`; level 0 has only `±1`), hence a non-zero key coordinate is at least
`2 / 2^d` (`1` at level 0), and with the Euclidean normalisation (`Euclid`: `c = 1/ν`, `ν² = Σ key_i² ≤ 4`)
a non-zero projected coordinate is at least

  `euclidBound d` = 1/2, 1/2, 1/4, 1/8, …, `2^-d`   (level 0, 1, 2, 3, …, d)

so `tol < euclidBound d` suffices (`gapAt_euclid`); numpy's `1e-8` is below it for every level `d ≤ 26`
(`numpy_atol_lt_euclidBound`; levels 0..3 are the ones `fulldiv` / `cube4D` reach for `N ≤ 2080`).

The hypothesis `UpperAgree` itself — agreement at EVERY level — is FALSE for a tolerance test with `tol > 0`
(`upperAgree_tol_false`: at level 28 the node `(-2, 2^28, 0, 0)` has the projected first coordinate `-2^-27 ≈ -7.5e-9`,
which `np.allclose` treats as zero; the tolerance test answers True for this node AND for its antipode).  Therefore the
theorems are restated LEVEL-WISE (`UpperAgreeAt φ base d`), and the grid theorems are stated for an explicit level `D`
that has enough upper rows — by C08's monotonicity (`canon_half_mono`) the grid does not depend on the level the
implementation happened to stop at, so no assumption about other levels is needed.

Results (`ext := withPolytopes (inducedσ rng) φ base`; `c18Half rng d` = C18's upper rows of level `d` in row order):
* `upper_tol_scale_cast`, `gap_scale_cast_step`  — tolerance test on `c · (integer point)`;
* `upperAgreeAt_of_gap`, `upperAgree_of_gap`, `upperAgree_exact`, `upperAgreeAt_euclid`, `upperAgreeAt_numpy`,
  `upperAgreeAt_factor`, `upperAgreeAt_supNormalise`
                                                  — `UpperAgree(At)` from the specification of the test;
* `lat_step`, `gapAt_of_factor`, `gapAt_euclid`, `gapAt_supNormalise`, `numpy_atol_lt_euclidBound`,
  `euclidBound_levels`                            — the gap condition, explicit bound per level, numbers;
* `gap_fails_witness`, `upperAgree_tol_false`     — the bound is needed; `UpperAgree` (all levels) is false for `tol > 0`;
* `half_eq_c18_at`, `half_eq_c18_tol`, `half_eq_c18_euclid`, `half_eq_c18_exact`
                                                  — `half_eq_c18` without `UpperAgree`;
* `grid_rows_hypercube_at/_tol/_euclid/_exact`, `prefix_stable_hypercube_rows_at/_tol/_euclid/_exact`
                                                  — the grid theorems without `UpperAgree`;
* `grid_rows_fulldiv_numpy`, `prefix_stable_fulldiv_numpy`
                                                  — `N ≤ 2080`, numpy's tolerance: the grid is the first `N` upper rows of
                                                    level 3 (no level, no gap hypothesis left);
* `half_counts_c08`, `half_counts_numpy`          — C08's OPEN clause: `get_half_of_hypercube()` of C08's model returns
                                                    8, 40, 272, 2080 rows after 0..3 divisions;
* instances: `upperIs_baseOf` (PolyReal's `baseOf`, exact test), `upperIs_baseTol` (tolerance test),
  `upperIs_baseC15` (C15's model), `upperIs_baseC04` (C04's `qInUpper` over `ℚ`, numpy's `atol`),
  `upperAgree_real_instance` (the instance of `PolyReal.real_instance` satisfies `UpperAgree`),
  `euclid_real` (`p / √(p·p)` over `ℝ`), `real_numpy_instance` (closed statement over `ℝ`).

Not modelled (as everywhere in the polytope bridges): floating-point rounding of the projection.  It cannot matter
here: `0 / ν` is exactly `0.0`, and a non-zero `x / ν` is computed with relative error `2^-52`, far from the factor
`≥ 6·10^6` between `euclidBound 3 = 1/8` and `1e-8`.
-/
import Molgri.Bridge.PolyIndex
import Molgri.Bridge.PolyReal
import Molgri.Bridge.PolyCounts
import Molgri.Bridge.Upper

set_option linter.unusedSectionVars false

namespace Molgri.Bridge.UpperAgree
open Molgri.History
open Molgri.Bridge.PolyKey
open Molgri.Bridge.PolyHistory
open Molgri.Bridge.PolyIndex
open Molgri.Polytope (Pt Kind St)
open Molgri.Hemi (scale castPt)

/-! ### the tolerance test on a positive multiple of an integer point -/

section Generic
variable {K : Type} [Field K] [LinearOrder K] [IsStrictOrderedRing K]

/-- every non-zero coordinate of the integer point has absolute value at least `m` -/
def MinAbs (m : Int) (p : Pt) : Prop := ∀ x ∈ p, x = 0 ∨ m ≤ |x|

theorem minAbs_one (p : Pt) : MinAbs 1 p := by
  intro x _
  by_cases h : x = 0
  · exact Or.inl h
  · exact Or.inr (Int.one_le_abs h)

/-- the rows `c · p` of an integer point whose non-zero coordinates are at least `m` in size have the tolerance gap as
soon as `tol < c · m`. -/
theorem gap_scale_cast_step {tol c : K} (hc : 0 < c) (m : Int) (p : Pt) (hm : MinAbs m p)
    (h : tol < c * (m : K)) : Molgri.Hemi.Gap tol (scale c (castPt p)) := by
  intro x hx
  unfold scale castPt at hx
  rw [List.map_map] at hx
  obtain ⟨n, hn, rfl⟩ := List.mem_map.mp hx
  simp only [Function.comp]
  rcases hm n hn with h0 | h1
  · left; rw [h0]; simp
  · right
    have h2 : (m : K) ≤ |(n : K)| := by
      have : ((m : Int) : K) ≤ ((|n| : Int) : K) := by exact_mod_cast h1
      simpa using this
    rw [abs_mul, abs_of_pos hc]
    exact lt_of_lt_of_le h (mul_le_mul_of_nonneg_left h2 (le_of_lt hc))

/-- **the tolerance test on `c · p` is the exact test on the integer point `p`** when `tol < c · m`. -/
theorem upper_tol_scale_cast {tol c : K} (ht : 0 ≤ tol) (hc : 0 < c) (m : Int) (p : Pt) (hm : MinAbs m p)
    (h : tol < c * (m : K)) : Molgri.Hemi.upper tol (scale c (castPt p)) = Molgri.Polytope.inUpper p := by
  rw [Molgri.Hemi.upper_of_gap ht (gap_scale_cast_step hc m p hm h)]
  exact Molgri.Bridge.PolyDistinct.upper_cast c hc p

theorem abs_le_supNorm : ∀ (q : List K) (x : K), x ∈ q → |x| ≤ Molgri.Hemi.supNorm q
  | [], x, h => by cases h
  | a :: t, x, h => by
    simp only [Molgri.Hemi.supNorm, Molgri.Hemi.maxK_eq, Molgri.Hemi.absK_eq]
    rcases List.mem_cons.mp h with rfl | h
    · exact le_max_left _ _
    · exact le_trans (abs_le_supNorm t x h) (le_max_right _ _)

theorem normSq_le (M : K) : ∀ q : List K, (∀ x ∈ q, |x| ≤ M) → Molgri.Hemi.normSq q ≤ (q.length : K) * (M * M)
  | [], _ => by simp [Molgri.Hemi.normSq, Molgri.Hemi.dot]
  | a :: t, h => by
    have ih := normSq_le M t (fun x hx => h x (List.mem_cons_of_mem _ hx))
    have ha := h a List.mem_cons_self
    have h1 : a * a ≤ M * M := by
      rw [← abs_mul_abs_self a]
      exact mul_self_le_mul_self (abs_nonneg a) ha
    unfold Molgri.Hemi.normSq at ih ⊢
    simp only [Molgri.Hemi.dot, List.length_cons]
    push_cast
    linarith

theorem normSq_nonneg : ∀ q : List K, 0 ≤ Molgri.Hemi.normSq q
  | [] => by simp [Molgri.Hemi.normSq, Molgri.Hemi.dot]
  | a :: t => by
    have ih := normSq_nonneg t
    unfold Molgri.Hemi.normSq at ih ⊢
    simp only [Molgri.Hemi.dot]
    have := mul_self_nonneg a
    linarith

theorem normSq_pos : ∀ q : List K, Molgri.Hemi.NonZero q → 0 < Molgri.Hemi.normSq q
  | [], h => by obtain ⟨x, hx, _⟩ := h; cases hx
  | a :: t, h => by
    have h0 := normSq_nonneg t
    unfold Molgri.Hemi.normSq at h0 ⊢
    simp only [Molgri.Hemi.dot]
    obtain ⟨x, hx, hx0⟩ := h
    rcases List.mem_cons.mp hx with rfl | hx
    · have := mul_self_pos.mpr hx0
      linarith
    · have := normSq_pos t ⟨x, hx, hx0⟩
      unfold Molgri.Hemi.normSq at this
      have := mul_self_nonneg a
      linarith

end Generic

/-! ### `UpperAgree` level by level, the specification of the test, the gap condition -/

section Agree
variable {K : Type} [Field K] [LinearOrder K] [IsStrictOrderedRing K] {W O : Type}
variable (φ : K) (base : Ext St (List K) W O)

/-- `UpperAgree` at one level `d`: on the hypercube lattice of level `d` the implementation's test on the projected
row agrees with C18's exact test on the integer node. -/
def UpperAgreeAt (d : Nat) : Prop :=
  ∀ p, LatOf .cube4 d p → base.upper (base.proj (keyAt φ .cube4 d p)) = Molgri.Polytope.inUpper p

theorem upperAgree_iff_at : Molgri.Bridge.PolyIndex.UpperAgree φ base ↔ ∀ d, UpperAgreeAt φ base d := Iff.rfl

/-- **Specification of the hemisphere test**: `base.upper` is `q_in_upper_sphere` with `np.allclose(·, 0)` read as
`|x| ≤ tol` (C07's model; `tol = 1e-8` in the code, `tol = 0` the exact test). -/
def UpperIs (tol : K) : Prop := ∀ q : List K, base.upper q = Molgri.Hemi.upper tol q

/-- **The gap condition at level `d`**: every coordinate of a projected row of level `d` is exactly zero or larger
than the tolerance in size. -/
def GapAt (tol : K) (d : Nat) : Prop :=
  ∀ p, LatOf .cube4 d p → Molgri.Hemi.Gap tol (base.proj (keyAt φ .cube4 d p))

theorem key_nonZero (d : Nat) (p : Pt) (h : LatOf .cube4 d p) : Molgri.Hemi.NonZero (keyAt φ .cube4 d p) := by
  have hs := cube_key_supNorm φ .cube4 (Or.inr rfl) d h
  exact nonZero_of_gauge_pos Molgri.Hemi.supNorm_homogeneous (by rw [hs]; exact zero_lt_one)

theorem key_eq (d : Nat) (p : Pt) : keyAt φ .cube4 d p = scale (((2 : K) ^ d)⁻¹) (castPt p) := rfl

/-- the projected row of a lattice node is a positive multiple of the integer node -/
theorem proj_key_eq (hproj : Radial base.proj) (d : Nat) (p : Pt) (h : LatOf .cube4 d p) :
    ∃ c : K, 0 < c ∧ base.proj (keyAt φ .cube4 d p) = scale c (keyAt φ .cube4 d p) ∧
      base.proj (keyAt φ .cube4 d p) = scale (c * ((2 : K) ^ d)⁻¹) (castPt p) := by
  obtain ⟨c, hc, e⟩ := hproj _ (key_nonZero φ d p h)
  refine ⟨c, hc, e, ?_⟩
  rw [e, key_eq, Molgri.Hemi.scale_scale]

/-- **`UpperAgree` at level `d` from the gap condition**: a test with tolerance `tol ≥ 0` applied to the radially
projected rows of level `d` agrees with C18's exact test on the integer nodes, provided the projected rows of that
level have the tolerance gap. -/
theorem upperAgreeAt_of_gap {tol : K} (ht : 0 ≤ tol) (hup : UpperIs base tol) (hproj : Radial base.proj) (d : Nat)
    (hgap : GapAt φ base tol d) : UpperAgreeAt φ base d := by
  intro p hp
  obtain ⟨c, hc, _, e⟩ := proj_key_eq φ base hproj d p hp
  have hg := hgap p hp
  rw [hup, Molgri.Hemi.upper_of_gap ht hg, e]
  exact Molgri.Bridge.PolyDistinct.upper_cast _ (mul_pos hc (two_pow_inv_pos d)) p

/-- `UpperAgree` (every level) from the gap condition at every level.  For `tol = 0` the condition is empty
(`upperAgree_exact`); for `tol > 0` it cannot hold at all levels of an Archimedean field (`upperAgree_tol_false`), which
is why the theorems below are stated level by level. -/
theorem upperAgree_of_gap {tol : K} (ht : 0 ≤ tol) (hup : UpperIs base tol) (hproj : Radial base.proj)
    (hgap : ∀ d, GapAt φ base tol d) : Molgri.Bridge.PolyIndex.UpperAgree φ base :=
  fun d => upperAgreeAt_of_gap φ base ht hup hproj d (hgap d)

/-- **`UpperAgree` for the exact test, unconditionally**: "first non-zero coordinate positive" is invariant under
multiplication by a positive number, so it gives the same answer on the projected float row and on the integer node,
at every level. -/
theorem upperAgree_exact (hup : UpperIs base 0) (hproj : Radial base.proj) :
    Molgri.Bridge.PolyIndex.UpperAgree φ base :=
  fun d => upperAgreeAt_of_gap φ base (le_refl 0) hup hproj d (fun _ _ => Molgri.Hemi.gap_zero _)

/-! #### the lattice step: which integer coordinates occur at level `d` -/

/-- smallest non-zero `|coordinate|` of a node of level `d` in C18's integer unit: the vertices are `(±1)⁴`; from
level 1 on all coordinates are even. -/
def stepAt (d : Nat) : Int := if d = 0 then 1 else 2

/-- **the coordinates of level `d` are integer multiples of the lattice unit**: a non-zero coordinate of a node of
level `d` has absolute value at least `stepAt d` (so the key coordinate is at least `stepAt d / 2^d`). -/
theorem lat_step (d : Nat) (p : Pt) (h : LatOf .cube4 d p) : MinAbs (stepAt d) p := by
  have hl : Molgri.Polytope.Lat 4 ((2 : Int) ^ d) p := h
  obtain ⟨hlen, hb, _⟩ := hl
  unfold stepAt
  by_cases hd : d = 0
  · rw [if_pos hd]; exact minAbs_one p
  · rw [if_neg hd]
    have hall : ∀ x ∈ p, x % 2 = 0 := by
      rw [Molgri.Polytope.forall_mem_iff_co (fun x => x % 2 = 0)]
      intro i hi
      have := (hb i (by omega)).2.2
      obtain ⟨k, rfl⟩ := Nat.exists_eq_succ_of_ne_zero hd
      rw [this, pow_succ]
      omega
    intro x hx
    have := hall x hx
    by_cases h0 : x = 0
    · exact Or.inl h0
    · right
      rcases le_total 0 x with hx0 | hx0
      · rw [abs_of_nonneg hx0]; omega
      · rw [abs_of_nonpos hx0]; omega

/-- the gap condition from a bound on the normalisation factor: if the projected row of every node of level `d` is
`c ·` its key with `tol · 2^d < c · stepAt d`, the projected rows have the tolerance gap. -/
theorem gapAt_of_factor {tol : K} (d : Nat)
    (h : ∀ p, LatOf .cube4 d p → ∃ c : K, 0 < c ∧ tol * (2 : K) ^ d < c * (stepAt d : K) ∧
      base.proj (keyAt φ .cube4 d p) = scale c (keyAt φ .cube4 d p)) : GapAt φ base tol d := by
  intro p hp
  obtain ⟨c, hc, hb, e⟩ := h p hp
  rw [e, key_eq, Molgri.Hemi.scale_scale]
  apply gap_scale_cast_step (mul_pos hc (two_pow_inv_pos d)) (stepAt d) p (lat_step d p hp)
  rw [mul_assoc, mul_comm (((2 : K) ^ d)⁻¹), ← mul_assoc, lt_mul_inv_iff₀ (two_pow_pos d)]
  exact hb

/-- `UpperAgree` at level `d` directly from the bound on the normalisation factor -/
theorem upperAgreeAt_factor {tol : K} (ht : 0 ≤ tol) (hup : UpperIs base tol) (hproj : Radial base.proj) (d : Nat)
    (h : ∀ p, LatOf .cube4 d p → ∃ c : K, 0 < c ∧ tol * (2 : K) ^ d < c * (stepAt d : K) ∧
      base.proj (keyAt φ .cube4 d p) = scale c (keyAt φ .cube4 d p)) : UpperAgreeAt φ base d :=
  upperAgreeAt_of_gap φ base ht hup hproj d (gapAt_of_factor φ base d h)

end Agree

/-! ### the explicit bound per level: Euclidean normalisation, sup-norm normalisation, numpy's `atol` -/

section Bounds
variable {K : Type} [Field K] [LinearOrder K] [IsStrictOrderedRing K] {W O : Type}
variable (φ : K) (base : Ext St (List K) W O)

/-- **Euclidean normalisation** (`normalise_vectors`: `np.divide(array, norm)`): division by a positive number `ν`
with `ν² = p · p`.  (Stated without a square-root function so that it makes sense over every ordered field; over `ℝ`
it is `p / √(p·p)`, see `euclid_real`.) -/
def Euclid (proj : List K → List K) : Prop :=
  ∀ p, Molgri.Hemi.NonZero p → ∃ ν : K, 0 < ν ∧ ν * ν = Molgri.Hemi.normSq p ∧ proj p = scale ν⁻¹ p

theorem Euclid.radial {proj : List K → List K} (h : Euclid proj) : Radial proj := by
  intro p hp
  obtain ⟨ν, hν, _, e⟩ := h p hp
  exact ⟨ν⁻¹, inv_pos.mpr hν, e⟩

/-- **the explicit bound**: a lower bound for the size of a non-zero coordinate of a Euclid-normalised row of level
`d`: `1/2` at levels 0 and 1, `2^-d` from level 1 on (key coordinate at least `stepAt d / 2^d`, Euclidean norm of a key
at most 2). -/
def euclidBound : Nat → K
  | 0 => 2⁻¹
  | d + 1 => ((2 : K) ^ (d + 1))⁻¹

/-- the bound for levels 0, 1, 2, 3 -/
theorem euclidBound_levels : euclidBound (K := K) 0 = 1 / 2 ∧ euclidBound (K := K) 1 = 1 / 2 ∧
    euclidBound (K := K) 2 = 1 / 4 ∧ euclidBound (K := K) 3 = 1 / 8 := by
  refine ⟨?_, ?_, ?_, ?_⟩ <;> simp only [euclidBound] <;> norm_num

/-- numpy's default `atol = 1e-8` -/
def numpyAtol : K := ((10 : K) ^ 8)⁻¹

theorem numpyAtol_nonneg : (0 : K) ≤ numpyAtol := by unfold numpyAtol; positivity

/-- over `ℚ` this is the constant of C04's model of `np.isclose` -/
theorem numpyAtol_rat : (numpyAtol : Rat) = Molgri.HalfFold.atol := by
  unfold numpyAtol Molgri.HalfFold.atol; norm_num

/-- **numpy's tolerance is below the bound at every level `d ≤ 26`** (`2^26 < 10^8 < 2^27`); in particular at the
levels 0..3 that `fulldiv` and `cube4D` reach for `N ≤ 2080`, where the bound is `1/2, 1/2, 1/4, 1/8`. -/
theorem numpy_atol_lt_euclidBound (d : Nat) (hd : d ≤ 26) : (numpyAtol : K) < euclidBound d := by
  unfold numpyAtol
  cases d with
  | zero => exact inv_strictAnti₀ (by norm_num) (by norm_num)
  | succ d =>
    apply inv_strictAnti₀ (two_pow_pos (d + 1))
    have h1 : (2 : K) ^ (d + 1) ≤ 2 ^ 26 := pow_le_pow_right₀ (by norm_num) hd
    have h2 : (2 : K) ^ 26 < 10 ^ 8 := by norm_num
    exact lt_of_le_of_lt h1 h2

theorem key_length (d : Nat) (p : Pt) (h : LatOf .cube4 d p) : (keyAt φ .cube4 d p).length = 4 := by
  rw [key_eq]
  unfold scale castPt
  rw [List.length_map, List.length_map]
  exact latOf_len h

/-- a key of the hypercube has Euclidean norm at most 2 (four coordinates in `[-1, 1]`) -/
theorem key_normSq_le (d : Nat) (p : Pt) (h : LatOf .cube4 d p) : Molgri.Hemi.normSq (keyAt φ .cube4 d p) ≤ 4 := by
  have hs := cube_key_supNorm φ .cube4 (Or.inr rfl) d h
  have := normSq_le (1 : K) (keyAt φ .cube4 d p) (fun x hx => by
    have := abs_le_supNorm _ x hx
    rwa [hs] at this)
  rw [key_length φ d p h] at this
  norm_num at this
  exact this

/-- **The gap condition for the Euclidean normalisation**: if `tol < euclidBound d` (`1/2, 1/2, 1/4, 1/8, …, 2^-d`),
every coordinate of a projected row of level `d` is zero or larger than `tol` in size. -/
theorem gapAt_euclid {tol : K} (heu : Euclid base.proj) (d : Nat) (hb : tol < euclidBound d) :
    GapAt φ base tol d := by
  apply gapAt_of_factor
  intro p hp
  obtain ⟨ν, hν, hsq, e⟩ := heu _ (key_nonZero φ d p hp)
  have h4 := key_normSq_le φ d p hp
  have hν2 : ν ≤ 2 := by nlinarith
  have hinv : (2 : K)⁻¹ ≤ ν⁻¹ := inv_anti₀ hν hν2
  have h2 : (1 : K) ≤ ν⁻¹ * 2 := by
    have := mul_le_mul_of_nonneg_right hinv (by norm_num : (0 : K) ≤ 2)
    rwa [inv_mul_cancel₀ (by norm_num : (2 : K) ≠ 0)] at this
  refine ⟨ν⁻¹, inv_pos.mpr hν, ?_, e⟩
  cases d with
  | zero =>
    simp only [euclidBound] at hb
    simp only [stepAt, if_true, pow_zero, mul_one, Int.cast_one]
    exact lt_of_lt_of_le hb hinv
  | succ d =>
    simp only [euclidBound] at hb
    have hst : ((stepAt (d + 1) : Int) : K) = 2 := by simp [stepAt]
    rw [hst]
    have h1 : tol * (2 : K) ^ (d + 1) < 1 := by
      have := (lt_mul_inv_iff₀ (two_pow_pos (K := K) (d + 1))).mp (by rwa [one_mul])
      exact this
    exact lt_of_lt_of_le h1 h2

/-- **`UpperAgree` at level `d` for the code's test with the Euclidean normalisation**, under the explicit tolerance
condition `tol < euclidBound d`. -/
theorem upperAgreeAt_euclid {tol : K} (ht : 0 ≤ tol) (hup : UpperIs base tol) (heu : Euclid base.proj) (d : Nat)
    (hb : tol < euclidBound d) : UpperAgreeAt φ base d :=
  upperAgreeAt_of_gap φ base ht hup heu.radial d (gapAt_euclid φ base heu d hb)

/-- … for numpy's `atol = 1e-8` at every level `d ≤ 26`. -/
theorem upperAgreeAt_numpy (hup : UpperIs base numpyAtol) (heu : Euclid base.proj) (d : Nat) (hd : d ≤ 26) :
    UpperAgreeAt φ base d :=
  upperAgreeAt_euclid φ base numpyAtol_nonneg hup heu d (numpy_atol_lt_euclidBound d hd)

theorem supNormalise_key (d : Nat) (p : Pt) (h : LatOf .cube4 d p) :
    Molgri.Bridge.PolyReal.supNormalise (keyAt φ .cube4 d p) = keyAt φ .cube4 d p := by
  unfold Molgri.Bridge.PolyReal.supNormalise
  rw [cube_key_supNorm φ .cube4 (Or.inr rfl) d h, inv_one, Molgri.Hemi.scale_one]

/-- **The gap condition for the sup-norm normalisation** of `PolyReal` (projected row = key): `tol < 2·euclidBound d`,
i.e. `1, 1, 1/2, 1/4, …`. -/
theorem gapAt_supNormalise {tol : K} (hp : base.proj = Molgri.Bridge.PolyReal.supNormalise) (d : Nat)
    (hb : tol < 2 * euclidBound d) : GapAt φ base tol d := by
  apply gapAt_of_factor
  intro p hlat
  refine ⟨1, zero_lt_one, ?_, by rw [hp, supNormalise_key φ d p hlat, Molgri.Hemi.scale_one]⟩
  cases d with
  | zero =>
    simp only [euclidBound] at hb
    simp only [stepAt, if_true, pow_zero, mul_one, Int.cast_one]
    rwa [mul_inv_cancel₀ (by norm_num : (2 : K) ≠ 0)] at hb
  | succ d =>
    simp only [euclidBound] at hb
    have hst : ((stepAt (d + 1) : Int) : K) = 2 := by simp [stepAt]
    rw [hst, one_mul]
    exact (lt_mul_inv_iff₀ (two_pow_pos (K := K) (d + 1))).mp hb

/-! #### the condition is needed -/

theorem upper_small_pos (tol a b : K) (t : List K) (ha : |a| ≤ tol) (hb : 0 < b) :
    Molgri.Hemi.upper tol (a :: b :: t) = true := by
  rw [Molgri.Hemi.upper_eq_rec]
  simp only [Molgri.Hemi.upperRec, (Molgri.Hemi.small_iff tol a).mpr ha, hb, decide_true, Bool.true_or,
    Bool.and_true, Bool.or_true]

theorem witness_lat (k : Nat) : LatOf .cube4 (k + 1) [-2, (2 : Int) ^ (k + 1), 0, 0] := by
  have hm : (1 : Int) ≤ 2 ^ k := one_le_pow₀ (by norm_num)
  show Molgri.Polytope.Lat 4 ((2 : Int) ^ (k + 1)) [-2, (2 : Int) ^ (k + 1), 0, 0]
  rw [pow_succ]
  generalize (2 : Int) ^ k = m at hm
  refine ⟨rfl, ?_, 1, by norm_num, Or.inl rfl⟩
  intro i hi
  have e : m * 2 % 2 = 0 := Int.mul_emod_left m 2
  interval_cases i <;> simp only [Molgri.Polytope.co, List.getD_cons_zero, List.getD_cons_succ, e] <;>
    refine ⟨by omega, by omega, by decide⟩

/-- **Without the gap the tolerance test disagrees with the exact test** (witness, sup-norm normalisation): at a
level `d ≥ 1` with `2·euclidBound d = 2/2^d ≤ tol`, the node `(-2, 2^d, 0, 0)` has the key `(-2/2^d, 1, 0, 0)`; the
tolerance test skips the first coordinate and answers True, C18's exact test answers False (and the antipode passes
both tests: the tolerance test selects BOTH points of the pair). -/
theorem gap_fails_witness {tol : K} (k : Nat) (h : 2 * euclidBound (k + 1) ≤ tol) (hup : UpperIs base tol)
    (hp : base.proj = Molgri.Bridge.PolyReal.supNormalise) : ¬ UpperAgreeAt φ base (k + 1) := by
  intro hagree
  have hl := witness_lat k
  have h1 := hagree _ hl
  rw [hp, supNormalise_key φ (k + 1) _ hl, hup] at h1
  have hkey : keyAt φ .cube4 (k + 1) [-2, (2 : Int) ^ (k + 1), 0, 0] =
      [-(2 * ((2 : K) ^ (k + 1))⁻¹), 1, ((2 : K) ^ (k + 1))⁻¹ * 0, ((2 : K) ^ (k + 1))⁻¹ * 0] := by
    rw [key_eq]
    simp only [scale, castPt, List.map_cons, List.map_nil, Int.cast_neg, Int.cast_ofNat, Int.cast_pow, Int.cast_zero]
    rw [inv_mul_cancel₀ (two_pow_ne (k + 1))]
    congr 1
    ring
  have hpos : (0 : K) < 2 * ((2 : K) ^ (k + 1))⁻¹ := mul_pos (by norm_num) (two_pow_inv_pos (k + 1))
  rw [hkey, upper_small_pos tol _ 1 _ (by rw [abs_neg, abs_of_pos hpos]; exact h) zero_lt_one,
    Molgri.Polytope.inUpper_eq_upperRec] at h1
  simp [Molgri.Polytope.upperRec] at h1

/-- **`UpperAgree` (agreement at EVERY level) is false for numpy's tolerance test**: with the sup-norm normalisation
the node `(-2, 2^28, 0, 0)` of level 28 is misjudged (`2^-27 < 1e-8`).  (With the Euclidean normalisation the first
level with a misjudged node is 27: `(-2, 2^27, 2^27, 2^27)` has the projected first coordinate `≈ -8.6e-9`; levels
`≤ 26` are covered by `upperAgreeAt_numpy`.)  Hence the level-wise statements below. -/
theorem upperAgree_tol_false (hup : UpperIs base numpyAtol) (hp : base.proj = Molgri.Bridge.PolyReal.supNormalise) :
    ¬ Molgri.Bridge.PolyIndex.UpperAgree φ base := by
  intro h
  refine gap_fails_witness φ base 27 ?_ hup hp (h 28)
  unfold numpyAtol euclidBound
  norm_num

end Bounds

/-! ### the theorems of `PolyIndex` without `UpperAgree` -/

section Half
variable {K : Type} [Field K] [LinearOrder K] [IsStrictOrderedRing K] {W O R : Type}
variable (φ : K) (base : Ext St (List K) W O) (rng : Rng R W)

/-- C18's upper rows of the hypercube after `d` divisions, in `get_nodes()` (permanent-index) order — the value of
C18's `get_half_of_hypercube()` (`c18Half_eq_getHalf`). -/
def c18Half (d : Nat) : List Molgri.Polytope.Node :=
  (Molgri.Polytope.sortByIdx (Molgri.Polytope.iter (inducedσ rng) .cube4 d).nodes).filter
    (fun nd => Molgri.Polytope.inUpper nd.pt)

theorem c18Half_eq_getHalf (hs : ShufflePerm rng) (d : Nat) :
    Molgri.Polytope.getHalf (Molgri.Polytope.iter (inducedσ rng) .cube4 d) none = .ok (c18Half rng d) := by
  rw [getHalf_cases (Molgri.C18.good_iter (inducedσ rng) (induced_permFam rng hs) .cube4 d) none]
  simp only [Option.getD_none, gt_iff_lt, Nat.lt_irrefl, if_false]
  rw [List.take_of_length_le (Nat.le_refl _)]
  rfl

/-- **`half_eq_c18` with the agreement of the tests assumed at the level in question only.** -/
theorem half_eq_c18_at (hφ : φ * φ = φ + 1) (hφ0 : 0 < φ) (hs : ShufflePerm rng) (hproj : Radial base.proj)
    (d : Nat) (hup : UpperAgreeAt φ base d) (N : Option Nat) (proj : Bool) :
    (halfOfHypercube (withPolytopes (inducedσ rng) φ base)
        (canonPoly (withPolytopes (inducedσ rng) φ base) rng .cube4D d) N proj).2 =
      match Molgri.Polytope.getHalf (Molgri.Polytope.iter (inducedσ rng) .cube4 d) N with
      | .ok rows => .ok (rows.map (rowOf φ base .cube4 d proj))
      | .error _ => .error .valueError := by
  have hsy := sync (inducedσ rng) φ base rng hφ hs .cube4D d
  have hf := concrete_fresh (inducedσ rng) φ base rng hφ hs
  have hpn := concrete_projNodup (inducedσ rng) φ base rng hφ hφ0 hs hproj
  have hg := Molgri.C18.good_iter (inducedσ rng) (induced_permFam rng hs) .cube4 d
  have hc : ∀ nd ∈ (canonPoly (withPolytopes (inducedσ rng) φ base) rng .cube4D d).nodes, ∃ c, nd.ci = some c :=
    fun nd hnd => (hsy.inv.ci nd hnd).imp fun c hc => hc.1
  have hnd : ((Molgri.Polytope.sortByIdx (Molgri.Polytope.iter (inducedσ rng) .cube4 d).nodes).map
      (rowOf φ base .cube4 d true)).Nodup := by
    have h1 := rows_sync φ base rng hφ hs .cube4D d true
    simp only [if_true] at h1
    rw [show kindOf .cube4D = Kind.cube4 from rfl] at h1
    rw [← h1]
    unfold projRows
    exact ((sortBy_perm ciKey _).map _).nodup_iff.mpr (canon_proj_nodup _ rng hs hf hpn .cube4D d)
  rw [half_res _ _ _ _ (canonPoly_cacheOk _ rng .cube4D d), canonPoly_kind,
    halfPure_of_rows _ _ hsy.inv.nodupKeys hc proj _ _ _
      (by have := rows_sync φ base rng hφ hs .cube4D d true; simp only [if_true] at this; exact this)
      (rows_sync φ base rng hφ hs .cube4D d proj) hnd N,
    getHalf_cases hg N]
  have hfil : (Molgri.Polytope.sortByIdx (Molgri.Polytope.iter (inducedσ rng) .cube4 d).nodes).filter
        (fun x => (withPolytopes (inducedσ rng) φ base).upper (rowOf φ base .cube4 d true x)) =
      (Molgri.Polytope.sortByIdx (Molgri.Polytope.iter (inducedσ rng) .cube4 d).nodes).filter
        (fun nd => Molgri.Polytope.inUpper nd.pt) := by
    apply List.filter_congr
    intro x hx
    have hx' : x.pt ∈ (Molgri.Polytope.iter (inducedσ rng) .cube4 d).nodes.map (·.pt) :=
      List.mem_map_of_mem ((Molgri.Polytope.sortByIdx_perm _).subset hx)
    exact hup x.pt ((iter_nodes_lat (inducedσ rng) .cube4 d x.pt).mp hx')
  rw [show kindOf .cube4D = Kind.cube4 from rfl, hfil]
  split
  · rfl
  · simp only [List.map_take]

/-- the number of rows of C08's half selection at level `d` is the number of C18's upper rows -/
theorem halfCount_at (hφ : φ * φ = φ + 1) (hφ0 : 0 < φ) (hs : ShufflePerm rng) (hproj : Radial base.proj)
    (d : Nat) (hup : UpperAgreeAt φ base d) :
    halfCount (withPolytopes (inducedσ rng) φ base)
      (canonPoly (withPolytopes (inducedσ rng) φ base) rng .cube4D d).nodes = (c18Half rng d).length := by
  have hsy := sync (inducedσ rng) φ base rng hφ hs .cube4D d
  have hc : ∀ nd ∈ (canonPoly (withPolytopes (inducedσ rng) φ base) rng .cube4D d).nodes, ∃ c, nd.ci = some c :=
    fun nd hnd => (hsy.inv.ci nd hnd).imp fun c hc => hc.1
  have h := half_eq_c18_at φ base rng hφ hφ0 hs hproj d hup none true
  rw [half_res _ _ _ _ (canonPoly_cacheOk _ rng .cube4D d), canonPoly_kind, c18Half_eq_getHalf rng hs d] at h
  simp only at h
  rw [← halfPure_none_count _ _ hsy.inv.nodupKeys hc true _ h, List.length_map]

/-- **The cube4D / fulldiv grid array in C18's row order, for an explicit level.**  Let `D` be ANY level at which the
two hemisphere tests agree and which has at least `N` upper rows.  Whenever C08's construction of an `N`-point
hypercube grid succeeds, the array is `half ++ -half` with `half` = the first `N` upper rows of C18's `get_nodes()`
order of level `D`, projected — whatever level the construction stopped at (C08's `canon_half_mono`: the first `N`
rows of the half selection do not change under further divisions).  No agreement at other levels is assumed. -/
theorem grid_rows_hypercube_at (hφ : φ * φ = φ + 1) (hφ0 : 0 < φ) (hs : ShufflePerm rng) (hproj : Radial base.proj)
    (D : Nat) (hup : UpperAgreeAt φ base D) (a : Alg) (ha : a = .cube4D ∨ a = .fulldiv) (r : R) (N : Nat)
    (hD : N ≤ (c18Half rng D).length) (G : Grid St (List K))
    (h : (createGrid (withPolytopes (inducedσ rng) φ base) rng r a N).2 = .ok G) :
    G.grid = ((c18Half rng D).take N).map (fun nd => base.proj (keyAt φ .cube4 D nd.pt)) ++
      (((c18Half rng D).take N).map (fun nd => base.proj (keyAt φ .cube4 D nd.pt))).map base.neg := by
  have hf := concrete_fresh (inducedσ rng) φ base rng hφ hs
  have hpn := concrete_projNodup (inducedσ rng) φ base rng hφ hφ0 hs hproj
  obtain ⟨d, rows, hNd, hq, _, hgrid⟩ := Molgri.C08.half_family_spec _ rng hs hf a ha r N G h
  have hND : N ≤ halfCount (withPolytopes (inducedσ rng) φ base)
      (canonPoly (withPolytopes (inducedσ rng) φ base) rng .cube4D D).nodes := by
    rw [halfCount_at φ base rng hφ hφ0 hs hproj D hup]; exact hD
  -- the first `N` rows of the half selection are the same at level `d` and at level `D`
  have hqD : halfPure (withPolytopes (inducedσ rng) φ base) .cube4D
      (canonPoly (withPolytopes (inducedσ rng) φ base) rng .cube4D D).nodes (some N) true = .ok rows := by
    rcases Nat.le_total d D with hle | hle
    · obtain ⟨m, rfl⟩ := Nat.exists_eq_add_of_le hle
      rw [(canon_half_mono _ rng hs hf hpn d N true hNd m).2, hq]
    · obtain ⟨m, rfl⟩ := Nat.exists_eq_add_of_le hle
      rw [← (canon_half_mono _ rng hs hf hpn D N true hND m).2, hq]
  have h2 := half_eq_c18_at φ base rng hφ hφ0 hs hproj D hup (some N) true
  rw [half_res _ _ _ _ (canonPoly_cacheOk _ rng .cube4D D), canonPoly_kind, hqD,
    getHalf_cases (Molgri.C18.good_iter (inducedσ rng) (induced_permFam rng hs) .cube4 D)] at h2
  simp only [Option.getD_some] at h2
  unfold c18Half at hD ⊢
  rw [if_neg (Nat.not_lt.mpr hD)] at h2
  rw [hgrid, Except.ok.inj h2]
  rfl

/-- **Prefix stability of the hypercube family in C18's row order, for an explicit level.**  If an `N`-point and an
`(N+M)`-point grid (`cube4D` / `fulldiv` in any combination, any generator states) are both constructed, then for
EVERY level `D` at which the tests agree and which has at least `N+M` upper rows both upper halves are prefixes of the
one list of C18's upper rows of level `D`, projected. -/
theorem prefix_stable_hypercube_rows_at (hφ : φ * φ = φ + 1) (hφ0 : 0 < φ) (hs : ShufflePerm rng)
    (hproj : Radial base.proj) (D : Nat) (hup : UpperAgreeAt φ base D) (a₁ a₂ : Alg)
    (ha₁ : a₁ = .cube4D ∨ a₁ = .fulldiv) (ha₂ : a₂ = .cube4D ∨ a₂ = .fulldiv) (r r' : R) (N M : Nat)
    (hD : N + M ≤ (c18Half rng D).length) (G₁ G₂ : Grid St (List K))
    (h₁ : (createGrid (withPolytopes (inducedσ rng) φ base) rng r a₁ N).2 = .ok G₁)
    (h₂ : (createGrid (withPolytopes (inducedσ rng) φ base) rng r' a₂ (N + M)).2 = .ok G₂) :
    ∃ half, half = (c18Half rng D).map (fun nd => base.proj (keyAt φ .cube4 D nd.pt)) ∧
      N + M ≤ half.length ∧
      G₂.grid = half.take (N + M) ++ (half.take (N + M)).map base.neg ∧
      G₁.grid = half.take N ++ (half.take N).map base.neg := by
  refine ⟨_, rfl, by rw [List.length_map]; exact hD, ?_, ?_⟩
  · rw [grid_rows_hypercube_at φ base rng hφ hφ0 hs hproj D hup a₂ ha₂ r' (N + M) hD G₂ h₂, List.map_take]
  · rw [grid_rows_hypercube_at φ base rng hφ hφ0 hs hproj D hup a₁ ha₁ r N (by omega) G₁ h₁, List.map_take]

/-! #### … under the gap condition (tolerance test) -/

/-- **`half_eq_c18` without `UpperAgree`** (tolerance test, gap condition at the level). -/
theorem half_eq_c18_tol (hφ : φ * φ = φ + 1) (hφ0 : 0 < φ) (hs : ShufflePerm rng) (hproj : Radial base.proj)
    {tol : K} (ht : 0 ≤ tol) (hup : UpperIs base tol) (d : Nat) (hgap : GapAt φ base tol d) (N : Option Nat)
    (proj : Bool) :
    (halfOfHypercube (withPolytopes (inducedσ rng) φ base)
        (canonPoly (withPolytopes (inducedσ rng) φ base) rng .cube4D d) N proj).2 =
      match Molgri.Polytope.getHalf (Molgri.Polytope.iter (inducedσ rng) .cube4 d) N with
      | .ok rows => .ok (rows.map (rowOf φ base .cube4 d proj))
      | .error _ => .error .valueError :=
  half_eq_c18_at φ base rng hφ hφ0 hs hproj d (upperAgreeAt_of_gap φ base ht hup hproj d hgap) N proj

/-- **`grid_rows_hypercube` without `UpperAgree`** (tolerance test, gap condition at a level with `≥ N` upper rows). -/
theorem grid_rows_hypercube_tol (hφ : φ * φ = φ + 1) (hφ0 : 0 < φ) (hs : ShufflePerm rng) (hproj : Radial base.proj)
    {tol : K} (ht : 0 ≤ tol) (hup : UpperIs base tol) (D : Nat) (hgap : GapAt φ base tol D) (a : Alg)
    (ha : a = .cube4D ∨ a = .fulldiv) (r : R) (N : Nat) (hD : N ≤ (c18Half rng D).length) (G : Grid St (List K))
    (h : (createGrid (withPolytopes (inducedσ rng) φ base) rng r a N).2 = .ok G) :
    G.grid = ((c18Half rng D).take N).map (fun nd => base.proj (keyAt φ .cube4 D nd.pt)) ++
      (((c18Half rng D).take N).map (fun nd => base.proj (keyAt φ .cube4 D nd.pt))).map base.neg :=
  grid_rows_hypercube_at φ base rng hφ hφ0 hs hproj D (upperAgreeAt_of_gap φ base ht hup hproj D hgap) a ha r N hD G h

/-- **`prefix_stable_hypercube_rows` without `UpperAgree`** (tolerance test, gap condition at a level with `≥ N+M`
upper rows). -/
theorem prefix_stable_hypercube_rows_tol (hφ : φ * φ = φ + 1) (hφ0 : 0 < φ) (hs : ShufflePerm rng)
    (hproj : Radial base.proj) {tol : K} (ht : 0 ≤ tol) (hup : UpperIs base tol) (D : Nat)
    (hgap : GapAt φ base tol D) (a₁ a₂ : Alg) (ha₁ : a₁ = .cube4D ∨ a₁ = .fulldiv)
    (ha₂ : a₂ = .cube4D ∨ a₂ = .fulldiv) (r r' : R) (N M : Nat) (hD : N + M ≤ (c18Half rng D).length)
    (G₁ G₂ : Grid St (List K))
    (h₁ : (createGrid (withPolytopes (inducedσ rng) φ base) rng r a₁ N).2 = .ok G₁)
    (h₂ : (createGrid (withPolytopes (inducedσ rng) φ base) rng r' a₂ (N + M)).2 = .ok G₂) :
    ∃ half, half = (c18Half rng D).map (fun nd => base.proj (keyAt φ .cube4 D nd.pt)) ∧
      N + M ≤ half.length ∧
      G₂.grid = half.take (N + M) ++ (half.take (N + M)).map base.neg ∧
      G₁.grid = half.take N ++ (half.take N).map base.neg :=
  prefix_stable_hypercube_rows_at φ base rng hφ hφ0 hs hproj D (upperAgreeAt_of_gap φ base ht hup hproj D hgap)
    a₁ a₂ ha₁ ha₂ r r' N M hD G₁ G₂ h₁ h₂

/-! #### … for the Euclidean normalisation with the explicit tolerance bound -/

/-- **`half_eq_c18` for the code's test and normalisation**: only `ShufflePerm`, the Euclidean normalisation and
`tol < euclidBound d` (`1/2, 1/2, 1/4, 1/8, …, 2^-d`) are assumed. -/
theorem half_eq_c18_euclid (hφ : φ * φ = φ + 1) (hφ0 : 0 < φ) (hs : ShufflePerm rng) (heu : Euclid base.proj)
    {tol : K} (ht : 0 ≤ tol) (hup : UpperIs base tol) (d : Nat) (hb : tol < euclidBound d) (N : Option Nat)
    (proj : Bool) :
    (halfOfHypercube (withPolytopes (inducedσ rng) φ base)
        (canonPoly (withPolytopes (inducedσ rng) φ base) rng .cube4D d) N proj).2 =
      match Molgri.Polytope.getHalf (Molgri.Polytope.iter (inducedσ rng) .cube4 d) N with
      | .ok rows => .ok (rows.map (rowOf φ base .cube4 d proj))
      | .error _ => .error .valueError :=
  half_eq_c18_at φ base rng hφ hφ0 hs heu.radial d (upperAgreeAt_euclid φ base ht hup heu d hb) N proj

theorem grid_rows_hypercube_euclid (hφ : φ * φ = φ + 1) (hφ0 : 0 < φ) (hs : ShufflePerm rng) (heu : Euclid base.proj)
    {tol : K} (ht : 0 ≤ tol) (hup : UpperIs base tol) (D : Nat) (hb : tol < euclidBound D) (a : Alg)
    (ha : a = .cube4D ∨ a = .fulldiv) (r : R) (N : Nat) (hD : N ≤ (c18Half rng D).length) (G : Grid St (List K))
    (h : (createGrid (withPolytopes (inducedσ rng) φ base) rng r a N).2 = .ok G) :
    G.grid = ((c18Half rng D).take N).map (fun nd => base.proj (keyAt φ .cube4 D nd.pt)) ++
      (((c18Half rng D).take N).map (fun nd => base.proj (keyAt φ .cube4 D nd.pt))).map base.neg :=
  grid_rows_hypercube_at φ base rng hφ hφ0 hs heu.radial D (upperAgreeAt_euclid φ base ht hup heu D hb) a ha r N hD G h

theorem prefix_stable_hypercube_rows_euclid (hφ : φ * φ = φ + 1) (hφ0 : 0 < φ) (hs : ShufflePerm rng)
    (heu : Euclid base.proj) {tol : K} (ht : 0 ≤ tol) (hup : UpperIs base tol) (D : Nat) (hb : tol < euclidBound D)
    (a₁ a₂ : Alg) (ha₁ : a₁ = .cube4D ∨ a₁ = .fulldiv) (ha₂ : a₂ = .cube4D ∨ a₂ = .fulldiv) (r r' : R) (N M : Nat)
    (hD : N + M ≤ (c18Half rng D).length) (G₁ G₂ : Grid St (List K))
    (h₁ : (createGrid (withPolytopes (inducedσ rng) φ base) rng r a₁ N).2 = .ok G₁)
    (h₂ : (createGrid (withPolytopes (inducedσ rng) φ base) rng r' a₂ (N + M)).2 = .ok G₂) :
    ∃ half, half = (c18Half rng D).map (fun nd => base.proj (keyAt φ .cube4 D nd.pt)) ∧
      N + M ≤ half.length ∧
      G₂.grid = half.take (N + M) ++ (half.take (N + M)).map base.neg ∧
      G₁.grid = half.take N ++ (half.take N).map base.neg :=
  prefix_stable_hypercube_rows_at φ base rng hφ hφ0 hs heu.radial D (upperAgreeAt_euclid φ base ht hup heu D hb)
    a₁ a₂ ha₁ ha₂ r r' N M hD G₁ G₂ h₁ h₂

/-! #### … for the exact test: the original statements, `UpperAgree` discharged -/

/-- **`half_eq_c18` for the exact test**: every level, no hypothesis about the test left. -/
theorem half_eq_c18_exact (hφ : φ * φ = φ + 1) (hφ0 : 0 < φ) (hs : ShufflePerm rng) (hproj : Radial base.proj)
    (hup : UpperIs base 0) (d : Nat) (N : Option Nat) (proj : Bool) :
    (halfOfHypercube (withPolytopes (inducedσ rng) φ base)
        (canonPoly (withPolytopes (inducedσ rng) φ base) rng .cube4D d) N proj).2 =
      match Molgri.Polytope.getHalf (Molgri.Polytope.iter (inducedσ rng) .cube4 d) N with
      | .ok rows => .ok (rows.map (rowOf φ base .cube4 d proj))
      | .error _ => .error .valueError :=
  half_eq_c18 φ base rng hφ hφ0 hs hproj (upperAgree_exact φ base hup hproj) d N proj

/-- **`grid_rows_hypercube` for the exact test** (original statement). -/
theorem grid_rows_hypercube_exact (hφ : φ * φ = φ + 1) (hφ0 : 0 < φ) (hs : ShufflePerm rng)
    (hproj : Radial base.proj) (hup : UpperIs base 0) (a : Alg) (ha : a = .cube4D ∨ a = .fulldiv) (r : R) (N : Nat)
    (G : Grid St (List K)) (h : (createGrid (withPolytopes (inducedσ rng) φ base) rng r a N).2 = .ok G) :
    ∃ d, N ≤ (c18Half rng d).length ∧
      G.grid = ((c18Half rng d).take N).map (fun nd => base.proj (keyAt φ .cube4 d nd.pt)) ++
        (((c18Half rng d).take N).map (fun nd => base.proj (keyAt φ .cube4 d nd.pt))).map base.neg :=
  grid_rows_hypercube φ base rng hφ hφ0 hs hproj (upperAgree_exact φ base hup hproj) a ha r N G h

/-- **`prefix_stable_hypercube_rows` for the exact test** (original statement). -/
theorem prefix_stable_hypercube_rows_exact (hφ : φ * φ = φ + 1) (hφ0 : 0 < φ) (hs : ShufflePerm rng)
    (hproj : Radial base.proj) (hup : UpperIs base 0) (a₁ a₂ : Alg) (ha₁ : a₁ = .cube4D ∨ a₁ = .fulldiv)
    (ha₂ : a₂ = .cube4D ∨ a₂ = .fulldiv) (r r' : R) (N M : Nat) (G₁ G₂ : Grid St (List K))
    (h₁ : (createGrid (withPolytopes (inducedσ rng) φ base) rng r a₁ N).2 = .ok G₁)
    (h₂ : (createGrid (withPolytopes (inducedσ rng) φ base) rng r' a₂ (N + M)).2 = .ok G₂) :
    ∃ d half, half = (c18Half rng d).map (fun nd => base.proj (keyAt φ .cube4 d nd.pt)) ∧
      N + M ≤ half.length ∧
      G₂.grid = half.take (N + M) ++ (half.take (N + M)).map base.neg ∧
      G₁.grid = half.take N ++ (half.take N).map base.neg :=
  prefix_stable_hypercube_rows φ base rng hφ hφ0 hs hproj (upperAgree_exact φ base hup hproj) a₁ a₂ ha₁ ha₂ r r' N M
    G₁ G₂ h₁ h₂

/-! #### numpy's tolerance, `N ≤ 2080`: nothing left to assume about levels -/

/-- C18's half selection after three divisions has 2080 rows (`PolyCounts.fulldiv_half_counts`) -/
theorem c18Half_three (hs : ShufflePerm rng) : (c18Half rng 3).length = 2080 := by
  obtain ⟨half, h1, h2⟩ := Molgri.Bridge.PolyCounts.fulldiv_half_counts (inducedσ rng) (induced_permFam rng hs) 3 2080
    (by simp)
  rw [c18Half_eq_getHalf rng hs 3] at h1
  rw [Except.ok.inj h1, h2]

/-- **Every `cube4D` / `fulldiv` grid with `N ≤ 2080` points (all sizes `fulldiv` accepts), numpy's tolerance,
Euclidean normalisation**: the array is `half ++ -half`, `half` = the first `N` upper rows (C18's exact test!) of
C18's `get_nodes()` order of the hypercube after three divisions, normalised.  Hypotheses: `ShufflePerm` (numpy's
shuffle permutes), the specification of the test (`UpperIs base 1e-8`) and of the normalisation (`Euclid`). -/
theorem grid_rows_fulldiv_numpy (hφ : φ * φ = φ + 1) (hφ0 : 0 < φ) (hs : ShufflePerm rng) (heu : Euclid base.proj)
    (hup : UpperIs base numpyAtol) (a : Alg) (ha : a = .cube4D ∨ a = .fulldiv) (r : R) (N : Nat) (hN : N ≤ 2080)
    (G : Grid St (List K)) (h : (createGrid (withPolytopes (inducedσ rng) φ base) rng r a N).2 = .ok G) :
    G.grid = ((c18Half rng 3).take N).map (fun nd => base.proj (keyAt φ .cube4 3 nd.pt)) ++
      (((c18Half rng 3).take N).map (fun nd => base.proj (keyAt φ .cube4 3 nd.pt))).map base.neg :=
  grid_rows_hypercube_euclid φ base rng hφ hφ0 hs heu numpyAtol_nonneg hup 3 (numpy_atol_lt_euclidBound 3 (by omega))
    a ha r N (by rw [c18Half_three rng hs]; exact hN) G h

/-- **Prefix stability, `N + M ≤ 2080`, numpy's tolerance**: both grids are prefixes of the level-3 list. -/
theorem prefix_stable_fulldiv_numpy (hφ : φ * φ = φ + 1) (hφ0 : 0 < φ) (hs : ShufflePerm rng) (heu : Euclid base.proj)
    (hup : UpperIs base numpyAtol) (a₁ a₂ : Alg) (ha₁ : a₁ = .cube4D ∨ a₁ = .fulldiv)
    (ha₂ : a₂ = .cube4D ∨ a₂ = .fulldiv) (r r' : R) (N M : Nat) (hN : N + M ≤ 2080) (G₁ G₂ : Grid St (List K))
    (h₁ : (createGrid (withPolytopes (inducedσ rng) φ base) rng r a₁ N).2 = .ok G₁)
    (h₂ : (createGrid (withPolytopes (inducedσ rng) φ base) rng r' a₂ (N + M)).2 = .ok G₂) :
    ∃ half, half = (c18Half rng 3).map (fun nd => base.proj (keyAt φ .cube4 3 nd.pt)) ∧
      N + M ≤ half.length ∧
      G₂.grid = half.take (N + M) ++ (half.take (N + M)).map base.neg ∧
      G₁.grid = half.take N ++ (half.take N).map base.neg :=
  prefix_stable_hypercube_rows_euclid φ base rng hφ hφ0 hs heu numpyAtol_nonneg hup 3
    (numpy_atol_lt_euclidBound 3 (by omega)) a₁ a₂ ha₁ ha₂ r r' N M (by rw [c18Half_three rng hs]; exact hN) G₁ G₂ h₁ h₂

end Half

/-! ### C08's OPEN clause "the half selection after 0,1,2,3 subdivisions has exactly N rows" -/

section Counts
variable {K : Type} [Field K] [LinearOrder K] [IsStrictOrderedRing K] {W O R : Type}
variable (φ : K) (base : Ext St (List K) W O) (rng : Rng R W)

/-- **`get_half_of_hypercube()` of C08's model returns exactly 8, 40, 272, 2080 rows after 0, 1, 2, 3 divisions**
(the `fulldiv` table), whenever the tests agree at those levels — C18's / C07's counts transferred through
`half_eq_c18_at`. -/
theorem half_counts_c08 (hφ : φ * φ = φ + 1) (hφ0 : 0 < φ) (hs : ShufflePerm rng) (hproj : Radial base.proj)
    (hup : ∀ d, d ≤ 3 → UpperAgreeAt φ base d) :
    ∀ L N, (L, N) ∈ [(0, 8), (1, 40), (2, 272), (3, 2080)] → ∀ proj, ∃ rows,
      (halfOfHypercube (withPolytopes (inducedσ rng) φ base)
        (canonPoly (withPolytopes (inducedσ rng) φ base) rng .cube4D L) none proj).2 = .ok rows ∧ rows.length = N := by
  intro L N hLN proj
  obtain ⟨half, h1, h2⟩ := Molgri.Bridge.PolyCounts.fulldiv_half_counts (inducedσ rng) (induced_permFam rng hs) L N hLN
  have hL : L ≤ 3 := by
    simp only [List.mem_cons, Prod.mk.injEq, List.not_mem_nil, or_false] at hLN
    omega
  refine ⟨half.map (rowOf φ base .cube4 L proj), ?_, by rw [List.length_map, h2]⟩
  rw [half_eq_c18_at φ base rng hφ hφ0 hs hproj L (hup L hL) none proj, h1]

/-- … for the code's test (numpy's tolerance) and normalisation. -/
theorem half_counts_numpy (hφ : φ * φ = φ + 1) (hφ0 : 0 < φ) (hs : ShufflePerm rng) (heu : Euclid base.proj)
    (hup : UpperIs base numpyAtol) :
    ∀ L N, (L, N) ∈ [(0, 8), (1, 40), (2, 272), (3, 2080)] → ∀ proj, ∃ rows,
      (halfOfHypercube (withPolytopes (inducedσ rng) φ base)
        (canonPoly (withPolytopes (inducedσ rng) φ base) rng .cube4D L) none proj).2 = .ok rows ∧ rows.length = N :=
  half_counts_c08 φ base rng hφ hφ0 hs heu.radial (fun d hd => upperAgreeAt_numpy φ base hup heu d (by omega))

end Counts

/-! ### instances: which `base` satisfy the specification -/

section Instances
variable {K : Type} [Field K] [LinearOrder K] [IsStrictOrderedRing K]

/-- `PolyReal.baseOf proj` (the instance used by `PolyReal.real_instance`) carries the EXACT test. -/
theorem upperIs_baseOf (proj : List K → List K) : UpperIs (Molgri.Bridge.PolyReal.baseOf proj) (0 : K) := fun _ => rfl

/-- `PolyReal.baseOf` with the code's tolerance test `q_in_upper_sphere` (C07's model) in place of the exact one. -/
def baseTol (tol : K) (proj : List K → List K) : Ext St (List K) Unit (List (List K)) :=
  { Molgri.Bridge.PolyReal.baseOf proj with upper := Molgri.Hemi.upper tol }

theorem upperIs_baseTol (tol : K) (proj : List K → List K) : UpperIs (baseTol tol proj) tol := fun _ => rfl

/-- … with C15's model of the test (`Bridge/Upper.lean`: the same function). -/
def baseC15 (tol : K) (proj : List K → List K) : Ext St (List K) Unit (List (List K)) :=
  { Molgri.Bridge.PolyReal.baseOf proj with upper := Molgri.CellVol.upper tol }

theorem upperIs_baseC15 (tol : K) (proj : List K → List K) : UpperIs (baseC15 tol proj) tol :=
  fun q => (Molgri.Bridge.Upper.upper_hemi_eq_cellvol tol q).symm

/-- … with C04's model of the test over `ℚ` (`np.isclose(x, 0)` with numpy's `atol`, `rtol`). -/
def baseC04 (proj : List Rat → List Rat) : Ext St (List Rat) Unit (List (List Rat)) :=
  { Molgri.Bridge.PolyReal.baseOf proj with upper := Molgri.HalfFold.qInUpper }

theorem upperIs_baseC04 (proj : List Rat → List Rat) : UpperIs (baseC04 proj) (numpyAtol : Rat) := by
  intro q
  rw [numpyAtol_rat]
  exact Molgri.Bridge.Upper.qInUpper_eq_hemi q

/-- the sup-norm normalisation of `PolyReal`, any test with tolerance `tol < 2·euclidBound d`: agreement at level `d` -/
theorem upperAgreeAt_supNormalise (φ : K) {tol : K} (ht : 0 ≤ tol) (d : Nat) (hb : tol < 2 * euclidBound d) :
    UpperAgreeAt φ (baseTol tol (Molgri.Bridge.PolyReal.supNormalise (K := K))) d :=
  upperAgreeAt_of_gap φ _ ht (upperIs_baseTol tol _) Molgri.Bridge.PolyReal.radial_supNormalise d
    (gapAt_supNormalise φ _ rfl d hb)

/-- **`UpperAgree` holds for the instance of `PolyReal.real_instance`** (`ℝ`, golden ratio, sup-norm normalisation,
exact test): the hypothesis of `half_eq_c18`, `grid_rows_hypercube`, `prefix_stable_hypercube_rows` is satisfied. -/
theorem upperAgree_real_instance :
    Molgri.Bridge.PolyIndex.UpperAgree Real.goldenRatio
      (Molgri.Bridge.PolyReal.baseOf (Molgri.Bridge.PolyReal.supNormalise (K := ℝ))) :=
  upperAgree_exact _ _ (upperIs_baseOf _) Molgri.Bridge.PolyReal.radial_supNormalise

/-- numpy's normalisation over `ℝ`: `p / √(p · p)`. -/
noncomputable def euclidNormalise (p : List ℝ) : List ℝ := scale (Real.sqrt (Molgri.Hemi.normSq p))⁻¹ p

/-- `Euclid` is satisfiable: the real normalisation. -/
theorem euclid_real : Euclid euclidNormalise :=
  fun p hp => ⟨Real.sqrt (Molgri.Hemi.normSq p), Real.sqrt_pos.mpr (normSq_pos p hp),
    Real.mul_self_sqrt (normSq_nonneg p), rfl⟩

/-- **The code's instance over `ℝ`** — golden ratio, `p / ‖p‖₂`, `q_in_upper_sphere` with numpy's `atol = 1e-8`, the
toy generator of C08 (`shuffle` reverses) — closed statements, no hypothesis left:
the two tests agree at every level `d ≤ 26`; `get_half_of_hypercube` of C08's model is C18's row by row at those
levels; it returns 8, 40, 272, 2080 rows after 0, 1, 2, 3 divisions. -/
theorem real_numpy_instance :
    (∀ d, d ≤ 26 → UpperAgreeAt Real.goldenRatio (baseTol (numpyAtol : ℝ) euclidNormalise) d) ∧
    (∀ d, d ≤ 26 → ∀ N proj,
      (halfOfHypercube (withPolytopes (inducedσ toyRng) Real.goldenRatio (baseTol (numpyAtol : ℝ) euclidNormalise))
        (canonPoly (withPolytopes (inducedσ toyRng) Real.goldenRatio (baseTol (numpyAtol : ℝ) euclidNormalise))
          toyRng .cube4D d) N proj).2 =
      match Molgri.Polytope.getHalf (Molgri.Polytope.iter (inducedσ toyRng) .cube4 d) N with
      | .ok rows => .ok (rows.map (rowOf Real.goldenRatio (baseTol (numpyAtol : ℝ) euclidNormalise) .cube4 d proj))
      | .error _ => .error .valueError) ∧
    (∀ L N, (L, N) ∈ [(0, 8), (1, 40), (2, 272), (3, 2080)] → ∀ proj, ∃ rows,
      (halfOfHypercube (withPolytopes (inducedσ toyRng) Real.goldenRatio (baseTol (numpyAtol : ℝ) euclidNormalise))
        (canonPoly (withPolytopes (inducedσ toyRng) Real.goldenRatio (baseTol (numpyAtol : ℝ) euclidNormalise))
          toyRng .cube4D L) none proj).2 = .ok rows ∧ rows.length = N) := by
  have hφ := Molgri.Bridge.PolyReal.phi_real
  refine ⟨fun d hd => upperAgreeAt_numpy _ _ (upperIs_baseTol _ _) euclid_real d hd, ?_, ?_⟩
  · intro d hd N proj
    exact half_eq_c18_euclid _ _ toyRng hφ.1 hφ.2 toy_shufflePerm euclid_real numpyAtol_nonneg (upperIs_baseTol _ _) d
      (numpy_atol_lt_euclidBound d hd) N proj
  · exact half_counts_numpy _ _ toyRng hφ.1 hφ.2 toy_shufflePerm euclid_real (upperIs_baseTol _ _)

/-- non-vacuity of the gap hypotheses: the witness node `(-2, 4, 0, 0)` of level 2 with the sup-norm normalisation has
the key `(-1/2, 1, 0, 0)`; the tolerance `1/4 < 2·euclidBound 2 = 1/2` is admissible (agreement), the tolerance `1/2`
is not (disagreement). -/
example : UpperAgreeAt (1 : Rat) (baseTol (1 / 4 : Rat) Molgri.Bridge.PolyReal.supNormalise) 2 ∧
    ¬ UpperAgreeAt (1 : Rat) (baseTol (1 / 2 : Rat) Molgri.Bridge.PolyReal.supNormalise) 2 := by
  refine ⟨upperAgreeAt_supNormalise 1 (by norm_num) 2 (by simp only [euclidBound]; norm_num), ?_⟩
  exact gap_fails_witness 1 _ 1 (by simp only [euclidBound]; norm_num) (upperIs_baseTol _ _) rfl

end Instances

end Molgri.Bridge.UpperAgree
