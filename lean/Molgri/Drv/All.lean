import Molgri.Drv.C12
open Lean Molgri.Drv

namespace Molgri.Drv

def dispatch (p op : String) (j : Json) : R Json :=
  match p with
  | "C12" => C12.handle op j
  | _ => throw s!"unknown property {p}"

end Molgri.Drv
