import Molgri.Drv.Util
import Molgri.Model.Sqra
open Lean Molgri.Drv

namespace Molgri.Drv.C01
open Molgri.Sqra

/-- `np.rint`: round half to even (`Float.round` is C `round`, half away from zero). -/
def rint (y : Float) : Float :=
  let r := Float.round y
  if (r - y).abs == 0.5 then 2 * Float.round (y / 2) else r

/-- `np.round(x, 14)` as numpy computes it: `rint(x * 1e14) / 1e14`. -/
def round14 (x : Float) : Float := rint (x * 1e14) / 1e14

/-- `scipy.constants.k`, `scipy.constants.N_A` (re-validated by the harness on every run, op `consts`). -/
def kB : Float := 1.380649e-23
def NA : Float := 6.02214076e23

def asSp (j : Json) : R (Sp Float) := do
  let fmt ← asStr (← getField j "fmt")
  let n ← asNat (← getField j "n")
  let data ← asList asFloatBits (← getField j "data")
  match fmt with
  | "coo" =>
    let row ← asList asNat (← getField j "row")
    let col ← asList asNat (← getField j "col")
    if row.length ≠ data.length ∨ col.length ≠ data.length then throw "bad coo"
    pure (.coo ⟨n, (row.zip (col.zip data)).map fun p => ⟨p.1, p.2.1, p.2.2⟩⟩)
  | "csr" =>
    let indptr ← asList asNat (← getField j "indptr")
    let indices ← asList asNat (← getField j "indices")
    pure (.csr ⟨n, indptr, indices, data⟩)
  | _ => throw s!"bad fmt {fmt}"

/-- ops:
`rate` {E, V: [bits], D, T: bits, dist, surf: sparse} ↦ dense matrix as rows of IEEE bit patterns, or the name
of the exception;
`tocoo` {m: sparse} ↦ [[row, col, bits]] in storage order;
`round14` {xs: [bits]} ↦ [bits];  `capf` {xs} ↦ [bits];  `consts` ↦ [kB bits, N_A bits]. -/
def handle (op : String) (j : Json) : R Json := do
  match op with
  | "rate" =>
    let E ← asList asFloatBits (← getField j "E")
    let V ← asList asFloatBits (← getField j "V")
    let D ← asFloatBits (← getField j "D")
    let T ← asFloatBits (← getField j "T")
    let dist ← asSp (← getField j "dist")
    let surf ← asSp (← getField j "surf")
    match getRateMatrix Float.exp round14 kB NA E V dist surf D T with
    | .ok m => pure (listJ (listJ floatBitsJ) m)
    | .error e => throw e
  | "tocoo" =>
    let m ← asSp (← getField j "m")
    pure (listJ (fun (e : Ent Float) => Json.arr #[natJ e.row, natJ e.col, floatBitsJ e.val]) m.tocoo.entries)
  | "round14" =>
    let xs ← asList asFloatBits (← getField j "xs")
    pure (listJ floatBitsJ (xs.map round14))
  | "capf" =>
    let xs ← asList asFloatBits (← getField j "xs")
    pure (listJ floatBitsJ (xs.map capf))
  | "consts" => pure (listJ floatBitsJ [kB, NA])
  | _ => throw s!"unknown op {op}"

end Molgri.Drv.C01
