import Molgri.Drv.Util
import Molgri.Model.FullGrid
open Lean Molgri.Drv

namespace Molgri.Drv.C02
open Molgri.FullGrid

/-- A dense matrix sent as a list of rows of "num/den"; looked up through arrays (O(1)). -/
def asDense (j : Json) : R (Nat × (Nat → Nat → Rat)) := do
  let rows ← asList (asList asRat) j
  let arr : Array (Array Rat) := (rows.map List.toArray).toArray
  pure (rows.length, fun i k => (arr.getD i #[]).getD k 0)

def checkSquare (name : String) (j : Json) (n : Nat) : R (Nat → Nat → Rat) := do
  let rows ← asList (asList asRat) j
  if rows.length ≠ n ∨ rows.any (fun r => r.length ≠ n) then throw s!"bad shape of {name}"
  let arr : Array (Array Rat) := (rows.map List.toArray).toArray
  pure (fun i k => (arr.getD i #[]).getD k 0)

def asSel (j : Json) : R Sel := do
  match ← asStr j with
  | "adjacency" => pure .adjacency
  | "border_len" => pure .borders
  | "center_distances" => pure .distances
  | s => throw s!"unknown property {s}"

def entryJ (e : Entry Rat) : Json := Json.arr #[natJ e.1, natJ e.2.1, ratJ e.2.2]

/-- ops
  `full` {sel, nP, nB, f, P, R}          ↦ stored entries `[row, col, "num/den"]` of `_get_N_N(sel)` in storage order
  `only_position` {nP, nB, R}            ↦ entries of `_get_N_N(only_position=True)`
  `only_orientation` {sel, nP, nB, f, P, R} ↦ entries of `_get_N_N(only_orientation=True)`
  `volumes` {f, Vpos, Vrot}              ↦ `get_total_volumes()`
  `rows` {nP, nB}                        ↦ (position index, quaternion index) of every row of `get_full_grid_as_array()`
  `half` {m, opp, upper, A}              ↦ dense rows of `HalfRotobjVoronoi._calculate_N_N_array` before `coo_array`
-/
def handle (op : String) (j : Json) : R Json := do
  match op with
  | "full" =>
    let sel ← asSel (← getField j "sel")
    let nP ← asNat (← getField j "nP")
    let nB ← asNat (← getField j "nB")
    if nP = 0 ∨ nB = 0 then throw "bad sizes"
    let f ← asRat (← getField j "f")
    let P ← checkSquare "P" (← getField j "P") nP
    let Rm ← checkSquare "R" (← getField j "R") nB
    pure (listJ entryJ (full nP nB sel f P Rm))
  | "only_position" =>
    let nP ← asNat (← getField j "nP")
    let nB ← asNat (← getField j "nB")
    if nP = 0 ∨ nB = 0 then throw "bad sizes"
    let Rm ← checkSquare "R" (← getField j "R") nB
    pure (listJ entryJ (fullOnlyPosition nP nB Rm))
  | "only_orientation" =>
    let sel ← asSel (← getField j "sel")
    let nP ← asNat (← getField j "nP")
    let nB ← asNat (← getField j "nB")
    if nP = 0 ∨ nB = 0 then throw "bad sizes"
    let f ← asRat (← getField j "f")
    let P ← checkSquare "P" (← getField j "P") nP
    let Rm ← checkSquare "R" (← getField j "R") nB
    pure (listJ entryJ (fullOnlyOrientation nP nB sel f P Rm))
  | "volumes" =>
    let f ← asRat (← getField j "f")
    let vp ← asList asRat (← getField j "Vpos")
    let vr ← asList asRat (← getField j "Vrot")
    pure (listJ ratJ (totalVolumes f vp vr))
  | "rows" =>
    let nP ← asNat (← getField j "nP")
    let nB ← asNat (← getField j "nB")
    pure (listJ (fun (p : Nat × Nat) => Json.arr #[natJ p.1, natJ p.2]) (fullArray (List.range nP) (List.range nB)))
  | "half" =>
    let m ← asNat (← getField j "m")
    let oppL ← asList (asOpt asNat) (← getField j "opp")
    let upper ← asList asNat (← getField j "upper")
    let A ← checkSquare "A" (← getField j "A") m
    if oppL.length ≠ m then throw "bad shape of opp"
    if upper.any (fun u => decide (u ≥ m)) ∨ oppL.any (fun o => match o with | some v => decide (v ≥ m) | none => false) then
      throw "IndexError"
    let oppA := oppL.toArray
    let opp : Nat → Option Nat := fun i => (oppA.getD i none)
    pure (listJ (listJ ratJ) (halfRows m opp upper A))
  | _ => throw s!"unknown op {op}"

end Molgri.Drv.C02
