import Molgri.Drv.Util
import Molgri.Model.Voronoi
open Lean Molgri.Drv

namespace Molgri.Drv.C03
open Molgri.Voronoi

def asV3 (j : Json) : R (V3 Rat) := do
  match ← asList asRat j with
  | [x, y, z] => pure ⟨x, y, z⟩
  | _ => throw "vertex is not a triple"

def v3J (v : V3 Rat) : Json := Json.arr #[ratJ v.x, ratJ v.y, ratJ v.z]

/-- an `Except` of the model as a JSON field: {"ok": …} | {"err": name of the Python exception} -/
def exJ {α} (f : α → Json) : Except String α → Json
  | .ok a => Json.mkObj [("ok", f a)]
  | .error e => Json.mkObj [("err", Json.str e)]

def cosJ (e : Nat × Nat × CosData Rat) : Json :=
  Json.arr #[natJ e.1, natJ e.2.1, ratJ e.2.2.dot, ratJ e.2.2.nsq1, ratJ e.2.2.nsq2]

def adjJ (e : Nat × Nat × Bool) : Json := Json.arr #[natJ e.1, natJ e.2.1, Json.bool e.2.2]

/-- ops:
`grid` {centers, vertices, regions, eps} ↦ {reduce: {ok:{nv,nr}}|{err}, adj, border, dist: {ok:[…]}|{err},
        cert: bool, uncert: null|[region, vertex]}   (scipy's points / vertices / regions are the inputs);
`nn` {dim, n, regions} ↦ adjacency triples of `_calculate_N_N_array` on given (already reduced) regions. -/
def handle (op : String) (j : Json) : R Json := do
  match op with
  | "grid" =>
    let centers ← asList asV3 (← getField j "centers")
    let verts ← asList asV3 (← getField j "vertices")
    let regions ← asList (asList asNat) (← getField j "regions")
    let eps ← asRat (← getField j "eps")
    match reduce closeRow verts regions with
    | .error e => pure (Json.mkObj [("reduce", Json.mkObj [("err", Json.str e)])])
    | .ok (nv, nr) =>
      let red := Json.mkObj [("ok", Json.mkObj [("nv", listJ v3J nv), ("nr", listJ (listJ natJ) nr)])]
      let cert := regionsCertifiedFast centers nv nr eps
      pure (Json.mkObj [
        ("reduce", red),
        ("adj", exJ (listJ adjJ) (adjacencyArray centers.length nr)),
        ("border", exJ (listJ cosJ) (borderArray centers nv nr)),
        ("dist", exJ (listJ cosJ) (distanceArray centers nr)),
        ("cert", Json.bool cert),
        ("uncert", if cert then Json.null else
          optJ (fun (p : Nat × Nat) => Json.arr #[natJ p.1, natJ p.2]) (firstUncertified centers nv nr eps))])
  | "nn" =>
    let dim ← asNat (← getField j "dim")
    let n ← asNat (← getField j "n")
    let regions ← asList (asList asNat) (← getField j "regions")
    pure (exJ (listJ adjJ) (nnArray dim n regions (fun _ _ => .ok true)))
  | _ => throw s!"unknown op {op}"

end Molgri.Drv.C03
