import Molgri.Drv.Util
import Molgri.Model.HalfFold
import Molgri.Model.FaceArea
open Lean Molgri.Drv

namespace Molgri.Drv.C04
open Molgri.HalfFold

def asRows (j : Json) : R (List (List Rat)) := asList (asList asRat) j
def liftE {α} (e : Except String α) : R α := e

def asGuard (j : Json) : R Guard := do
  match (← asStr j) with
  | "len" => pure .len
  | "truth" => pure .truth
  | s => throw s!"bad guard {s}"

/-- dense matrix from `{"n": n, "t": [[i, j, v], …]}` (later duplicates overwrite; the harness sends none) or a list of rows -/
def asMatrix (j : Json) : R (List (List Rat)) := do
  match j.getObjVal? "n" with
  | .ok nj =>
    let n ← asNat nj
    let ts ← asList (fun t => do
      let l ← asArr t
      match l with
      | [a, b, v] => pure ((← asNat a), (← asNat b), (← asRat v))
      | _ => throw "bad triple") (← getField j "t")
    let z : List Rat := List.replicate n 0
    let rows : Array (List Rat) := Array.replicate n z
    let rows := ts.foldl (fun (acc : Array (List Rat)) (t : Nat × Nat × Rat) =>
      if t.1 < n then acc.modify t.1 (fun r => r.set t.2.1 t.2.2) else acc) rows
    pure rows.toList
  | .error _ => asRows j

/--
ops (numbers exact: "num/den" or JSON integers):
 `half`  {grid, A, guard, include_opp, only_upper} ↦ {"B": rows of (rat|null), "pattern": [[i,j],…]}
          = `HalfRotobjVoronoi._calculate_N_N_array` on top of the full-sphere matrix `A`
 `opp`   {grid, guard} ↦ [nat|null] | ValueError        `ind2opp_index`
 `upper` {grid} ↦ [nat]                                  `_get_upper_indices`
 `which` {grid, k} ↦ [nat]                               `which_row_is_k`
 `quatdist` {pi, theta} ↦ rat                            `np.where(theta > pi/2, pi - theta, theta)`
 `hyp`   {grid, A} ↦ {cover, sep, hup, square, sym, anti, diag}   the hypotheses of `half_matrix_symm` /
          `fold_diag_empty`, decided by the model's own validators
 `area`  {sing?: [bits…], pts: [[bits,bits,bits],…]} ↦ bits | AssertionError   (`sing` = singular values of the
          shared vertices: with it the rank assertion with tol 1e-9 is included; without it only sort + Girard)   Float model of the tail of `_calculate_borders`
          (IEEE-754 bit patterns in and out; modelled, not verified)
-/
def handle (op : String) (j : Json) : R Json := do
  match op with
  | "half" =>
    let grid ← asRows (← getField j "grid")
    let A ← asMatrix (← getField j "A")
    let g ← asGuard (← getField j "guard")
    let io ← asBool (← getField j "include_opp")
    let ou ← asBool (← getField j "only_upper")
    let B ← liftE (halfMatrixQ g grid A io ou)
    let pat := pattern (fun (x : Rat) => decide (x ≠ 0)) B
    pure (Json.mkObj [("B", listJ (listJ (optJ ratJ)) B),
                      ("pattern", listJ (fun (p : Nat × Nat) => Json.arr #[natJ p.1, natJ p.2]) pat)])
  | "opp" =>
    let grid ← asRows (← getField j "grid")
    let g ← asGuard (← getField j "guard")
    pure (listJ (optJ natJ) (← liftE (ind2opp g grid)))
  | "upper" =>
    let grid ← asRows (← getField j "grid")
    pure (listJ natJ (upperIdx grid))
  | "which" =>
    let grid ← asRows (← getField j "grid")
    let k ← asList asRat (← getField j "k")
    pure (listJ natJ (whichRowIsK grid k))
  | "quatdist" =>
    let pi ← asRat (← getField j "pi")
    let th ← asRat (← getField j "theta")
    pure (ratJ (quatDist pi th))
  | "hyp" =>
    let grid ← asRows (← getField j "grid")
    let A ← asMatrix (← getField j "A")
    let N := grid.length / 2
    let b := fun (x : Bool) => Json.bool x
    pure (Json.mkObj [("cover", b (coverB grid)), ("sep", b (sepB grid)), ("hup", b (hupB (grid.take N))),
                      ("square", b (squareB (2 * N) A)), ("sym", b (symB (2 * N) A)), ("anti", b (antiB N A)),
                      ("diag", b (diagB N A))])
  | "area" =>
    let pts ← asList (fun r => do
      match (← asArr r) with
      | [a, b, c] => pure ((← asFloatBits a), (← asFloatBits b), (← asFloatBits c))
      | _ => throw "bad point") (← getField j "pts")
    match j.getObjVal? "sing" with
    | .ok sj =>
      let sing ← asList asFloatBits sj
      pure (floatBitsJ (← liftE (Molgri.FaceArea.borderAreaChecked sing 4 pts)))
    | .error _ => pure (floatBitsJ (← liftE (Molgri.FaceArea.borderArea pts)))
  | _ => throw s!"unknown op {op}"

end Molgri.Drv.C04
