import Molgri.Drv.Util
import Molgri.Model.PositionGrid
open Lean Molgri.Drv

namespace Molgri.Drv.C05
open Molgri.PositionGrid

/-- The dense `n_o × n_o` unit-sphere array travels as its non-zero `(i, j, value)` triples (pure transport
compression); here it becomes the function the model reads. -/
def denseOfTriples (n_o : Nat) (ts : List (Nat × Nat × Rat)) : R (Nat → Nat → Rat) := do
  let mut arr : Array (Array Rat) := Array.replicate n_o (Array.replicate n_o 0)
  for (i, j, v) in ts do
    if i ≥ n_o ∨ j ≥ n_o then throw s!"bad input: unit-sphere entry ({i},{j}) outside {n_o}x{n_o}"
    arr := arr.modify i (fun row => row.set! j v)
  pure fun i j => (arr.getD i #[]).getD j 0

def asTriple (j : Json) : R (Nat × Nat × Rat) := do
  match (← asArr j) with
  | [a, b, c] => pure (← asNat a, ← asNat b, ← asRat c)
  | _ => throw "bad triple"

def tripleJ (e : Nat × Nat × Rat) : Json := Json.arr #[natJ e.1, natJ e.2.1, ratJ e.2.2]

def resJ {α} (f : α → Json) : Except String α → Json
  | .ok v => Json.mkObj [("ok", f v)]
  | .error e => Json.mkObj [("err", Json.str e)]

/-- ops:
`posgrid` {n_o, radii_nm: [rat] (as written by the user, any order), area: [rat], adj/arc/ang: [[i,j,rat]]}
   ↦ {radii, between, volumes, adjacency, borders, distances}, the last five as {"ok": …} | {"err": name};
`between` {radii: [rat] (Å, as stored)} ↦ [rat];
`diags` {vals: [rat], off, lower, n} ↦ [[i,j,rat]]. -/
def handle (op : String) (j : Json) : R Json := do
  match op with
  | "posgrid" =>
    let n_o ← asNat (← getField j "n_o")
    let nm ← asList asRat (← getField j "radii_nm")
    let area ← asList asRat (← getField j "area")
    let adj ← denseOfTriples n_o (← asList asTriple (← getField j "adj"))
    let arc ← denseOfTriples n_o (← asList asTriple (← getField j "arc"))
    let ang ← denseOfTriples n_o (← asList asTriple (← getField j "ang"))
    let r ← parsedRadii nm
    pure (Json.mkObj [
      ("radii", listJ ratJ r),
      ("between", resJ (listJ ratJ) (getBetweenRadii r)),
      ("volumes", resJ (listJ ratJ) (volumes r area)),
      ("adjacency", resJ (listJ tripleJ) (nnPosition .adjacency n_o r area adj)),
      ("borders", resJ (listJ tripleJ) (nnPosition .borderLen n_o r area arc)),
      ("distances", resJ (listJ tripleJ) (nnPosition .centerDistances n_o r area ang))])
  | "between" =>
    let r ← asList asRat (← getField j "radii")
    match getBetweenRadii r with
    | .ok b => pure (listJ ratJ b)
    | .error e => throw e
  | "diags" =>
    let vals ← asList asRat (← getField j "vals")
    let off ← asNat (← getField j "off")
    let lower ← asBool (← getField j "lower")
    let n ← asNat (← getField j "n")
    match diagsCoo vals off lower n with
    | .ok m => pure (listJ tripleJ m)
    | .error e => throw e
  | _ => throw s!"unknown op {op}"

end Molgri.Drv.C05
