import Molgri.Drv.Util
import Molgri.Model.Polygon
open Lean Molgri.Drv

namespace Molgri.Drv.C06
open Molgri.Polygon

def asV3 (j : Json) : R (V3 Rat) := do
  match (← asArr j) with
  | [a, b, c] => pure ⟨← asRat a, ← asRat b, ← asRat c⟩
  | _ => throw "bad point"

def v3J (p : V3 Rat) : Json := Json.arr #[ratJ p.x, ratJ p.y, ratJ p.z]

def asPair (j : Json) : R (Nat × Nat) := do
  match (← asArr j) with
  | [a, b] => pure (← asNat a, ← asNat b)
  | _ => throw "bad pair"

def keyJ (k : Rat × Rat) : Json := Json.arr #[ratJ k.1, ratJ k.2]

def ofExcept {α} : Except String α → R α
  | .ok v => pure v
  | .error e => throw e

/-- what the driver reports for one border polygon: number of vertices, `order_points` permutation and the exact squared
norms of the fan cross products (`area = Σ √t / 2`); `len(polygon) ≤ 1` ↦ no terms (area 0). -/
def polyData (poly : List (V3 Rat)) : Json :=
  if poly.length > 1 then
    let idx := orderIdx poly
    -- `orderPoints poly` is by definition `(orderIdx poly).map (poly.getD · 0)`; the permutation is computed once
    let q := idx.map fun i => poly.getD i V3.zero
    Json.mkObj [("n", natJ poly.length), ("idx", listJ natJ idx),
                ("fan2", listJ ratJ ((fanCrosses q).map V3.nrm2))]
  else Json.mkObj [("n", natJ poly.length), ("idx", Json.arr #[]), ("fan2", Json.arr #[])]

def asVor (j : Json) : R (Vor Rat) := do
  let vs ← asList asV3 (← getField j "vertices")
  let regs ← asList (asList asInt) (← getField j "regions")
  let pr ← asList asNat (← getField j "point_region")
  pure ⟨vs, regs, pr⟩

/-- ops:
`order`     {pts: [[rat,rat,rat]]} ↦ {idx, keys: [[s,c]], nn: |normal|², normals2: [|n_j|²], fan2: [|cross_k|²] of the ordered points};
`order_old` {pts} ↦ {idx, fan2} of the code before the repair of F2;
`fan`       {pts} ↦ [|cross_k|²] of the points as given (`get_polygon_area` alone);
`extended`  {o: [[rat,rat,rat]], t: [rat]} ↦ [[rat,rat,rat]] the input of `Voronoi`;
`surfaces`  {vertices, regions, point_region, adj: [[row,col]]} ↦ per entry {shared: [vertex index], n, idx, fan2};
`distances` {points, adj} ↦ [|points[row] − points[col]|²];
`volumes`   {regions, point_region, n} ↦ per cell `null` (open: 0) or the region whose hull volume is written. -/
def handle (op : String) (j : Json) : R Json := do
  match op with
  | "order" =>
    let ps ← asList asV3 (← getField j "pts")
    let q ← ofExcept (orderPointsE ps)
    pure (Json.mkObj [
      ("idx", listJ natJ (orderIdx ps)),
      ("keys", listJ keyJ (alphaKeys ps)),
      ("nn", ratJ (V3.nrm2 (normalVector ps))),
      ("normals2", listJ ratJ ((allNormals ps).map V3.nrm2)),
      ("fan2", listJ ratJ ((fanCrosses q).map V3.nrm2))])
  | "order_old" =>
    let ps ← asList asV3 (← getField j "pts")
    pure (Json.mkObj [
      ("idx", listJ natJ (orderIdxOld ps)),
      ("fan2", listJ ratJ ((fanCrosses (orderPointsOld ps)).map V3.nrm2))])
  | "fan" =>
    let ps ← asList asV3 (← getField j "pts")
    pure (listJ ratJ ((fanCrosses ps).map V3.nrm2))
  | "extended" =>
    let o ← asList asV3 (← getField j "o")
    let t ← asList asRat (← getField j "t")
    let e ← ofExcept (extendedPositions o t)
    pure (listJ v3J e)
  | "surfaces" =>
    let v ← asVor j
    let adj ← asList asPair (← getField j "adj")
    let polys ← ofExcept (surfacesWith polyData v adj)
    let shared ← ofExcept (adj.mapM fun rc => do
      let rr ← regionOf v rc.1
      let cr ← regionOf v rc.2
      pure (sharedIdx v.vertices.length rr cr))
    pure (Json.arr ((polys.zip shared).map fun (p, s) => p.setObjVal! "shared" (listJ natJ s)).toArray)
  | "distances" =>
    let pts ← asList asV3 (← getField j "points")
    let adj ← asList asPair (← getField j "adj")
    let d ← ofExcept (distancesWith V3.nrm2 pts adj)
    pure (listJ ratJ d)
  | "volumes" =>
    let regs ← asList (asList asInt) (← getField j "regions")
    let pr ← asList asNat (← getField j "point_region")
    let n ← asNat (← getField j "n")
    let v : Vor Rat := ⟨[], regs, pr⟩
    let vols ← ofExcept (volumesWith (none : Option (List Int)) some v n)
    pure (listJ (optJ (listJ intJ)) vols)
  | _ => throw s!"unknown op {op}"

end Molgri.Drv.C06
