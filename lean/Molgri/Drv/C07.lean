import Molgri.Drv.Util
import Molgri.Model.Hemisphere
import Molgri.Model.IcoExact
open Lean Molgri.Drv

namespace Molgri.Drv.C07
open Molgri.Hemi

def rowsJ (G : List (List Rat)) : Json := listJ (listJ ratJ) G
def irowsJ (G : List (List Int)) : Json := listJ (listJ intJ) G
def boolJ (b : Bool) : Json := Json.bool b
def fracJ (f : Frac Int) : Json := Json.arr #[Json.str (toString f.num), Json.str (toString f.den)]
def zphiJ (x : IcoExact.Zphi) : Json := Json.arr #[Json.str (toString x.a), Json.str (toString x.b)]
def fracZJ (f : Frac IcoExact.Zphi) : Json := Json.arr #[zphiJ f.num, zphiJ f.den]

def asRows (j : Json) : R (List (List Rat)) := asList (asList asRat) j
def asIRows (j : Json) : R (List (List Int)) := asList (asList asInt) j
def liftE {α} (e : Except String α) : R α := e

def getTols (j : Json) : R (Rat × Rat × Rat) := do
  let tol ← asRat (← getField j "tol")
  let atol ← asRat (← getField j "atol")
  let rtol ← asRat (← getField j "rtol")
  pure (tol, atol, rtol)

/-- big integers travel as decimal strings -/
def asBigInt (j : Json) : R Int :=
  match j with
  | .str s => match s.toInt? with
    | some n => pure n
    | none => throw s!"bad integer {s}"
  | _ => asInt j

/--
ops (all numbers exact; rows are lists of "num/den"):
 `upper` {tol,q} ↦ bool                               q_in_upper_sphere
 `hemiset` {tol,Q} ↦ rows                             hemisphere_quaternion_set
 `cover` {N,half} ↦ rows                              SphereGrid4Dim._gen_grid
 `upper_idx` {tol,G} ↦ [nat];  `as_array` {tol,G,only_upper} ↦ rows
 `gencheck` {dims,N,lo,hi,G} ↦ true | AssertionError   assertions of gen_grid
 `get_nodes` {nodes,N|null} ↦ rows | ValueError
 `select_half` {tol,atol,rtol,proj,N|null} ↦ [nat] | ValueError      index part of get_half_of_hypercube
 `gen_randomq` {tol,quats,N} ↦ rows;  `zero` {dims} ↦ rows;  `rotz` {q} ↦ row
 `fulldiv` {N} ↦ level | ValueError;  `hypercube_count` {L} ↦ nat;  `factory` {alg,dims} ↦ alg | ValueError
 `named` {alg,N,dims} ↦ alg;  `divisions` {counts,N} ↦ level
 `gap` {tol,G} ↦ bool                                 hypothesis validator
 `lattice` {d,m,vertices,h,pts,proj,eps} ↦ {lat,dev,on_cube,nodup,complete,neg_closed,unit}
 `sep` {kind,pts} ↦ {half_idx, maxc2:[[num,den]], fails:[N], undecided:[N]}
 `ico_nodes` {L} ↦ {nodes, count, nodup, on_surface};  `sep_ico` {L, order} ↦ {n, maxc2, fails}
 `sweep3d` / `sweep4d` / `sweep_randomq` / `sweep_rotz`: the generators for many N over one polytope / one RNG stream
-/
def handle (op : String) (j : Json) : R Json := do
  match op with
  | "upper" =>
    let tol ← asRat (← getField j "tol")
    let q ← asList asRat (← getField j "q")
    pure (Json.mkObj [("upper", boolJ (upper tol q)), ("rec", boolJ (upperRec tol q))])
  | "hemiset" =>
    let tol ← asRat (← getField j "tol")
    let Q ← asRows (← getField j "Q")
    pure (rowsJ (← liftE (hemisphereSet tol Q)))
  | "cover" =>
    let N ← asNat (← getField j "N")
    let half ← asRows (← getField j "half")
    pure (rowsJ (← liftE (doubleCover N half)))
  | "upper_idx" =>
    let tol ← asRat (← getField j "tol")
    let G ← asRows (← getField j "G")
    pure (listJ natJ (upperIdx tol G))
  | "as_array" =>
    let tol ← asRat (← getField j "tol")
    let G ← asRows (← getField j "G")
    let ou ← asBool (← getField j "only_upper")
    pure (rowsJ (gridAsArray tol G ou))
  | "gencheck" =>
    let dims ← asNat (← getField j "dims")
    let N ← asNat (← getField j "N")
    let lo ← asRat (← getField j "lo")
    let hi ← asRat (← getField j "hi")
    let G ← asRows (← getField j "G")
    let _ ← liftE (genCheck dims N lo hi G)
    pure (boolJ true)
  | "get_nodes" =>
    let nodes ← asRows (← getField j "nodes")
    let N ← asOpt asNat (← getField j "N")
    pure (rowsJ (← liftE (getNodes nodes N)))
  | "select_half" =>
    let (tol, atol, rtol) ← getTols j
    let proj ← asRows (← getField j "proj")
    let N ← asOpt asNat (← getField j "N")
    pure (listJ natJ (← liftE (selectHalfIdx tol atol rtol proj N)))
  | "gen_randomq" =>
    let tol ← asRat (← getField j "tol")
    let Q ← asRows (← getField j "quats")
    let N ← asNat (← getField j "N")
    pure (rowsJ (← liftE (genRandomQ tol Q N)))
  | "zero" =>
    let dims ← asNat (← getField j "dims")
    if dims = 3 then pure (rowsJ (zero3D (K := Rat)))
    else pure (rowsJ (← liftE (zero4D (K := Rat))))
  | "rotz" =>
    let q ← asList asRat (← getField j "q")
    pure (listJ ratJ (rotZ q))
  | "fulldiv" =>
    let N ← asNat (← getField j "N")
    pure (natJ (← liftE (fulldivLevel N)))
  | "hypercube_count" =>
    let L ← asNat (← getField j "L")
    pure (natJ (hypercubeCount L))
  | "factory" =>
    let alg ← asStr (← getField j "alg")
    let dims ← asNat (← getField j "dims")
    pure (Json.str (← liftE (factoryClass alg dims)))
  | "named" =>
    let alg ← asStr (← getField j "alg")
    let N ← asNat (← getField j "N")
    let dims ← asNat (← getField j "dims")
    pure (Json.str (namedAlg alg N dims))
  | "divisions" =>
    let counts ← asList asNat (← getField j "counts")
    let N ← asNat (← getField j "N")
    pure (natJ (divisionsNeeded (fun l => counts.getD l 0) N counts.length 0))
  | "gap" =>
    let tol ← asRat (← getField j "tol")
    let G ← asRows (← getField j "G")
    pure (boolJ (G.all (gapOk tol)))
  | "lattice" =>
    let d ← asNat (← getField j "d")
    let m ← asNat (← getField j "m")
    let vertices ← asBool (← getField j "vertices")
    let h ← asRat (← getField j "h")
    let eps ← asRat (← getField j "eps")
    let pts ← asRows (← getField j "pts")
    let proj ← asRows (← getField j "proj")
    if h ≤ 0 then throw "bad spacing"
    let lat := pts.map (latticePoint h)
    let dev := supNorm (pts.map (latticeDev h))
    let expected := if vertices then cubeVertices d else cubeLattice d m
    let mm : Int := if vertices then 1 else (m : Int)
    let onCube := lat.all fun p => p.length == d && supNorm p == mm
    let nodup := lat.eraseDups.length == lat.length
    let complete := lat.length == expected.length && lat.all (fun p => expected.contains p)
    let negClosed := lat.all fun p => lat.contains (neg p)
    let unit := lat.length == proj.length && (List.zip lat proj).all fun (p, u) => isUnitOf eps p u
    pure (Json.mkObj [("lat", irowsJ lat), ("dev", ratJ dev), ("on_cube", boolJ onCube), ("nodup", boolJ nodup),
                      ("complete", boolJ complete), ("neg_closed", boolJ negClosed), ("unit", boolJ unit),
                      ("expected", natJ expected.length)])
  | "sep" =>
    let kind ← asStr (← getField j "kind")
    let pts ← asIRows (← getField j "pts")
    if kind = "dir" then
      let rm := runningMax cosSqDir pts
      let idx := (List.range rm.length).filter fun i => !(sepDirOk (i + 1) (rm.getD i ⟨0, 1⟩))
      pure (Json.mkObj [("n", natJ pts.length), ("maxc2", listJ fracJ rm), ("fails", listJ natJ (idx.map (· + 1))),
                        ("undecided", listJ natJ [])])
    else if kind = "rot" then
      let half := exactHalf pts
      let halfIdx := (List.range pts.length).filter fun i => upper (0 : Int) (pts.getD i [])
      let rm := runningMax cosSqRot half
      let verdicts := (List.range rm.length).map fun i => sepRotVerdict (i + 1) (rm.getD i ⟨0, 1⟩)
      let fails := (List.range rm.length).filter fun i => verdicts.getD i none == some false
      let und := (List.range rm.length).filter fun i => verdicts.getD i none == none
      pure (Json.mkObj [("n", natJ half.length), ("half_idx", listJ natJ halfIdx), ("maxc2", listJ fracJ rm),
                        ("fails", listJ natJ (fails.map (· + 1))), ("undecided", listJ natJ (und.map (· + 1)))])
    else throw s!"unknown kind {kind}"
  | "sweep3d" =>
    -- IcoAndCube3DRotations._gen_grid for many N over the same polytope (levels = projected nodes per level)
    let levels ← asList asRows (← getField j "levels")
    let Ns ← asList asNat (← getField j "Ns")
    let projAt := fun l => levels.getD l []
    let fuel := levels.length - 1
    pure (listJ (fun N =>
      let ℓ := divisionsNeeded (fun l => (projAt l).length) N fuel 0
      match gen3D projAt N fuel with
      | .ok rows => Json.mkObj [("level", natJ ℓ), ("rows", rowsJ rows)]
      | .error e => Json.mkObj [("level", natJ ℓ), ("err", Json.str e)]) Ns)
  | "sweep4d" =>
    -- Cube4DRotations / FullDivCube4DRotations for many N over the same polytope
    let mode ← asStr (← getField j "mode")
    let (tol, atol, rtol) ← getTols j
    let levels ← asList asRows (← getField j "levels")
    let Ns ← asList asNat (← getField j "Ns")
    let projAt := fun l => levels.getD l []
    let fuel := levels.length - 1
    pure (listJ (fun N =>
      let r := if mode = "fulldiv" then genFulldiv tol atol rtol projAt N else genCube4D tol atol rtol projAt N fuel
      let ℓ := if mode = "fulldiv" then (match fulldivLevel N with | .ok l => l | .error _ => 0)
               else divisionsNeeded (halfLen tol atol rtol projAt) N fuel 0
      match r with
      | .ok full => Json.mkObj [("level", natJ ℓ), ("full", rowsJ full), ("upper", rowsJ (gridAsArray tol full true)),
                                ("upper_idx", listJ natJ (upperIdx tol full))]
      | .error e => Json.mkObj [("level", natJ ℓ), ("err", Json.str e)]) Ns)
  | "sweep_randomq" =>
    let tol ← asRat (← getField j "tol")
    let Q ← asRows (← getField j "quats")
    let Ns ← asList asNat (← getField j "Ns")
    pure (listJ (fun N =>
      match genRandomQ tol (Q.take N) N with
      | .ok full => Json.mkObj [("full", rowsJ full), ("upper", rowsJ (gridAsArray tol full true)),
                                ("upper_idx", listJ natJ (upperIdx tol full))]
      | .error e => Json.mkObj [("err", Json.str e)]) Ns)
  | "sweep_rotz" =>
    let Q ← asRows (← getField j "quats")
    pure (rowsJ (Q.map rotZ))
  | "ico_nodes" =>
    -- exact icosahedron nodes of level L (Z[phi] coordinates as [a, b] = a + b*phi, units side_len/2/2^L)
    let L ← asNat (← getField j "L")
    let ns := IcoExact.nodes L
    pure (Json.mkObj [("nodes", listJ (listJ (fun (x : IcoExact.Zphi) => Json.arr #[intJ x.a, intJ x.b])) ns),
                      ("count", natJ (IcoExact.nodeCount L)),
                      ("nodup", boolJ (ns.length == IcoExact.nodeCount L)),
                      ("on_surface", boolJ (IcoExact.onSurface L ns))])
  | "sep_ico" =>
    let L ← asNat (← getField j "L")
    let order ← asList asNat (← getField j "order")
    let ns := (IcoExact.nodes L).toArray
    if order.any (fun i => i ≥ ns.size) then throw "bad order"
    let pts := order.map fun i => ns.getD i []
    let rm := runningMax cosSqDir pts
    let idx := (List.range rm.length).filter fun i => !(sepDirOk (i + 1) (rm.getD i ⟨0, 1⟩))
    pure (Json.mkObj [("n", natJ pts.length), ("maxc2", listJ fracZJ rm), ("fails", listJ natJ (idx.map (· + 1)))])
  | "sep_one" =>
    -- single verdicts (used to validate the bound checks themselves against hand-computed values)
    let kind ← asStr (← getField j "kind")
    let N ← asNat (← getField j "N")
    let num ← asBigInt (← getField j "num")
    let den ← asBigInt (← getField j "den")
    if den ≤ 0 then throw "bad fraction"
    if kind = "dir" then pure (optJ boolJ (some (sepDirOk N ⟨num, den⟩)))
    else pure (optJ boolJ (sepRotVerdict N ⟨num, den⟩))
  | _ => throw s!"unknown op {op}"

end Molgri.Drv.C07
