/-
Driver for C08: runs the history state machine of `Molgri.History` with a SYMBOLIC instantiation of the parameters.

* points are symbolic: `fam#idx` (family name and row), e.g. `ico.1#7` = the 8th point handed to
  `_add_polytope_point` at subdivision level 1 of the icosahedron, `p:ico.1#7` its projection, `n:…` the negated point,
  `S(s0|36)#3` = row 3 of `random_sphere_points` computed from the 36 uniforms drawn in generator state `s0`, …
* the generator state is the trace since the last seed: `s15;h12` = `seed(15)` followed by a shuffle of 12 items,
  `?` = unknown initial state; a block of uniforms is `state|count`
* getter values are terms `{"f": name, args…}`
* data taken from numpy / the implementation (the harness supplies them): the permutation `shuffle` applies in state
  `s15` to `n` items (`perms`), the number of new nodes per level (`counts`), `q_in_upper_sphere` of every symbolic
  point family (`upper`).

op `history` {cfg, r0, ops} ↦ {steps: [{res, rng, polys, grids}], final: {polys, grids}}
-/
import Molgri.Drv.Util
import Molgri.Model.History
open Lean Molgri.Drv Molgri.History

namespace Molgri.Drv.C08

structure SPt where
  fam : String
  idx : Nat
  deriving DecidableEq, Hashable

def SPt.str (p : SPt) : String := s!"{p.fam}#{p.idx}"

structure Cfg where
  counts : List (String × Array Nat)          -- kind ↦ number of new nodes per level
  perms : List (Nat × List Nat)               -- n ↦ permutation applied by shuffle in state s15
  upper : List (String × Array Bool)          -- family ↦ flags

def kindStr : PolyKind → String
  | .ico => "ico" | .cube3D => "cube3D" | .cube4D => "cube4D"

def Cfg.count (c : Cfg) (k : PolyKind) (lvl : Nat) : Nat :=
  match c.counts.lookup (kindStr k) with
  | some a => a.getD lvl 0
  | none => 0

def famPts (fam : String) (n : Nat) : List SPt := (List.range n).map (fun i => ⟨fam, i⟩)

/-- symbolic generator -/
def symRng (c : Cfg) : Rng String String where
  seed s := s!"s{s}"
  shuffle r n :=
    match (if r = "s15" then c.perms.lookup n else none) with
    | some σ => (s!"{r};h{n}", σ)
    | none => (s!"!noperm({r},{n})", List.range n)
  draw r k := (s!"{r};d{k}", s!"{r}|{k}")

def ptsJ (l : List SPt) : Json := Json.arr (l.map (fun p => Json.str p.str)).toArray

def selStr : Sel → String
  | .adjacency => "adjacency" | .borders => "borders" | .distances => "distances"

/-- symbolic external functions; the graph is just (kind, level) -/
def symExt (c : Cfg) : Ext Nat SPt String Json where
  init k := (0, famPts s!"{kindStr k}.0" (c.count k 0))
  divide k lvl := (lvl + 1, famPts s!"{kindStr k}.{lvl + 1}" (c.count k (lvl + 1)))
  proj p := ⟨"p:" ++ p.fam, p.idx⟩
  upper p := match c.upper.lookup p.fam with
    | some a => a.getD p.idx false
    | none => false
  neg p := ⟨"n:" ++ p.fam, p.idx⟩
  sphere w n := famPts s!"S({w})" n
  quat w n := famPts s!"Q({w})" n
  zero3 := ⟨"Z3", 0⟩
  zero4 := ⟨"Z4", 0⟩
  dense3 w grid := famPts s!"D3({w}|{match grid.head? with | some p => p.str | none => ""})" 3000
  dense4 w := famPts s!"D4({w})" 5000
  arr l := Json.mkObj [("f", "arr"), ("pts", ptsJ l)]
  areas g := Json.mkObj [("f", "areas"), ("grid", ptsJ g)]
  hullVol half g add := Json.mkObj [("f", "hullVol"), ("half", Json.bool half), ("grid", ptsJ g),
                                     ("addn", natJ add.length), ("addh", natJ (hash add).toNat)]
  hulls half g add := Json.mkObj [("f", "hulls"), ("half", Json.bool half), ("grid", ptsJ g),
                                   ("addn", natJ add.length), ("addh", natJ (hash add).toNat)]
  nn sel half g := Json.mkObj [("f", selStr sel), ("half", Json.bool half), ("grid", ptsJ g)]
  mikroVol d n := Json.mkObj [("f", "mikroVol"), ("dim", natJ d), ("n", natJ n)]
  mikroNN n := Json.mkObj [("f", "mikroNN"), ("n", natJ n)]

def errStr : Err → String
  | .valueError => "ValueError" | .keyError => "KeyError" | .typeError => "TypeError"
  | .indexError => "IndexError" | .attributeError => "AttributeError" | .loop => "other:Loop"
  | .noObject => "other:NoObject"

def asKind (j : Json) : R PolyKind := do
  match (← asStr j) with
  | "ico" => pure .ico | "cube3D" => pure .cube3D | "cube4D" => pure .cube4D
  | s => throw s!"bad kind {s}"

def asAlg (j : Json) : R Alg := do
  match (← asStr j) with
  | "ico" => pure .ico | "cube3D" => pure .cube3D | "randomS" => pure .randomS | "zero3D" => pure .zero3D
  | "cube4D" => pure .cube4D | "randomQ" => pure .randomQ | "fulldiv" => pure .fulldiv | "zero4D" => pure .zero4D
  | s => throw s!"bad alg {s}"

def algStr : Alg → String
  | .ico => "ico" | .cube3D => "cube3D" | .randomS => "randomS" | .zero3D => "zero3D"
  | .cube4D => "cube4D" | .randomQ => "randomQ" | .fulldiv => "fulldiv" | .zero4D => "zero4D"

def asGetter (j : Json) : R Getter := do
  match (← asStr j) with
  | "array" => pure .array | "upper" => pure .upper | "volumes" => pure .volumes
  | "volumesApprox" => pure .volumesApprox | "hulls" => pure .hulls | "adjacency" => pure .adjacency
  | "borders" => pure .borders | "distances" => pure .distances
  | s => throw s!"bad getter {s}"

def asOp (j : Json) : R Op := do
  match (← asStr (← getField j "t")) with
  | "reseed" => pure (.reseed (← asNat (← getField j "s")))
  | "draw" => pure (.draw (← asNat (← getField j "k")))
  | "newPoly" => pure (.newPoly (← asKind (← getField j "kind")))
  | "divide" => pure (.divide (← asNat (← getField j "h")))
  | "nodes" => pure (.nodes (← asNat (← getField j "h")) (← asOpt asNat (← getField j "N")) (← asBool (← getField j "proj")))
  | "half" => pure (.half (← asNat (← getField j "h")) (← asOpt asNat (← getField j "N")) (← asBool (← getField j "proj")))
  | "grid" => pure (.grid (← asAlg (← getField j "alg")) (← asNat (← getField j "N")))
  | "get" => pure (.get (← asNat (← getField j "h")) (← asGetter (← getField j "g")))
  | "regen" => pure (.regen (← asNat (← getField j "h")))
  | s => throw s!"bad op {s}"

def asFlags (j : Json) : R (Array Bool) := do
  let s ← asStr j
  pure (s.toList.map (· == '1')).toArray

def asCfg (j : Json) : R Cfg := do
  let counts ← match (← getField j "counts") with
    | .obj kvs => kvs.toList.mapM (fun (k, v) => do let a ← asList asNat v; pure (k, a.toArray))
    | _ => throw "counts: object expected"
  let perms ← (← asArr (← getField j "perms")).mapM (fun p => do
    let σ ← asList asNat p; pure (σ.length, σ))
  let upper ← match (← getField j "upper") with
    | .obj kvs => kvs.toList.mapM (fun (k, v) => do let a ← asFlags v; pure (k, a))
    | _ => throw "upper: object expected"
  pure { counts, perms, upper }

def resJ : Res SPt Json → Json
  | .unit => Json.mkObj [("unit", Json.null)]
  | .handle h => Json.mkObj [("handle", natJ h)]
  | .pts l => Json.mkObj [("pts", ptsJ l)]
  | .out o => Json.mkObj [("out", o)]
  | .err e => Json.mkObj [("err", Json.str (errStr e))]

def vorStr : VorKind → String
  | .rot3 => "rot3" | .half4 => "half4" | .mikro => "mikro"

def polySummary (P : Poly Nat SPt) : Json :=
  Json.arr #[natJ P.level, natJ P.maxCi, natJ P.nodes.length, natJ P.cache.2, Json.bool P.cache.1.isSome]

def gridSummary (G : Grid Nat SPt) : Json :=
  Json.arr #[Json.str (algStr G.alg), natJ G.N, natJ G.dim, Json.str (vorStr G.vor.kind),
             natJ G.vor.add.length, natJ G.vor.addFull.length, natJ G.vor.nPoints]

def nodeJ (nd : Node SPt) : Json :=
  Json.arr #[Json.str nd.key.str, natJ nd.level, optJ natJ nd.ci]

def polyFinal (P : Poly Nat SPt) : Json :=
  Json.mkObj [("kind", Json.str (kindStr P.kind)), ("nodes", Json.arr (P.nodes.map nodeJ).toArray),
              ("cache", optJ ptsJ P.cache.1)]

/-- run-length form of a long point list: [[fam, [idx…]], …] -/
def groupJ (l : List SPt) : Json :=
  let groups := l.foldl (fun (acc : List (String × List Nat)) p =>
    match acc with
    | (f, is) :: rest => if f = p.fam then (f, p.idx :: is) :: rest else (p.fam, [p.idx]) :: acc
    | [] => [(p.fam, [p.idx])]) []
  Json.arr (groups.reverse.map (fun (f, is) => Json.arr #[Json.str f, listJ natJ is.reverse])).toArray

def gridFinal (G : Grid Nat SPt) : Json :=
  Json.mkObj [("grid", ptsJ G.grid), ("add", groupJ G.vor.add), ("addFull", groupJ G.vor.addFull),
              ("poly", optJ polyFinal G.poly)]

def handle (op : String) (j : Json) : R Json := do
  match op with
  | "history" =>
    let cfg ← asCfg (← getField j "cfg")
    let r0 ← asStr (← getField j "r0")
    let ops ← asList asOp (← getField j "ops")
    let ext := symExt cfg
    let rng := symRng cfg
    let init : State Nat SPt String := { rng := r0, polys := [], grids := [] }
    let (final, steps) := ops.foldl (fun (acc : State Nat SPt String × List Json) o =>
      let st := step ext rng acc.1 o
      (st.1, acc.2 ++ [Json.mkObj [("res", resJ st.2), ("rng", Json.str st.1.rng),
                                    ("polys", Json.arr (st.1.polys.map polySummary).toArray),
                                    ("grids", Json.arr (st.1.grids.map gridSummary).toArray)]])) (init, [])
    pure (Json.mkObj [("steps", Json.arr steps.toArray),
                      ("final", Json.mkObj [("polys", Json.arr (final.polys.map polyFinal).toArray),
                                            ("grids", Json.arr (final.grids.map gridFinal).toArray)])])
  | _ => throw s!"unknown op {op}"

end Molgri.Drv.C08
