import Molgri.Drv.Util
import Molgri.Model.Order
open Lean Molgri.Drv

namespace Molgri.Drv.C09
open Molgri.Order

def liftE {α} (e : Except String α) : R α := e

def rowsJ (l : List (List Rat)) : Json := listJ (listJ ratJ) l

/-- `norm` of the model's `decompose` as data: the float `np.linalg.norm` of every row, looked up by the row. -/
def normTable (arr : List (List Rat)) (norms : List Rat) : List Rat → Rat :=
  let tbl := (arr.map (·.take 3)).zip norms
  fun v => (tbl.lookup v).getD 0

/-- ops:
 `full`      {dirs, quats, nm}        ↦ rows of `get_full_grid_as_array` (null = a row left NaN)
 `positions` {dirs, radii}            ↦ `_t_and_o_2_positions` (coordinate branch); `positions1` {o, t} ↦ scalar branch
 `transgrid` {nm}                     ↦ radii in Å
 `qidx` / `pidx` {nb, no, nt, idx}    ↦ index helper (idx null = None)
 `decompose` {arr, norms}             ↦ [orientations, quaternions, translations] -/
def handle (op : String) (j : Json) : R Json := do
  match op with
  | "full" =>
    let dirs ← asList (asList asRat) (← getField j "dirs")
    let quats ← asList (asList asRat) (← getField j "quats")
    let nm ← asList asRat (← getField j "nm")
    let rows ← liftE (fullGrid dirs quats nm)
    pure (listJ (optJ (listJ ratJ)) rows)
  | "positions" =>
    let dirs ← asList (asList asRat) (← getField j "dirs")
    let radii ← asList asRat (← getField j "radii")
    pure (rowsJ (positions dirs radii))
  | "positions1" =>
    let o ← asList asRat (← getField j "o")
    let t ← asList asRat (← getField j "t")
    pure (listJ ratJ (positionsScalar o t))
  | "transgrid" =>
    let nm ← asList asRat (← getField j "nm")
    let r ← liftE (transGrid nm)
    pure (listJ ratJ r)
  | "qidx" | "pidx" =>
    let nb ← asNat (← getField j "nb")
    let no ← asNat (← getField j "no")
    let nt ← asNat (← getField j "nt")
    let idx ← asOpt (asList asInt) (← getField j "idx")
    let r ← liftE (if op = "qidx" then quaternionIndex nb no nt idx else positionIndex nb no nt idx)
    pure (listJ natJ r)
  | "decompose" =>
    let arr ← asList (asList asRat) (← getField j "arr")
    let norms ← asList asRat (← getField j "norms")
    if arr.length ≠ norms.length then throw "bad norms"
    let (o, b, t) := decompose (normTable arr norms) round8 arr
    pure (Json.arr #[rowsJ o, rowsJ b, listJ ratJ t])
  | _ => throw s!"unknown op {op}"

end Molgri.Drv.C09
